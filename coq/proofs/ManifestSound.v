(* ManifestSound.v — C17: on a store that is a good slice for the manifest, every expression of the
   visible fragment whose manifest requirements are met evaluates as on the full store. *)
From Cedar Require Import ManifestSpec ValueProofs.
From Coq Require Import List Bool.
Import ListNotations.

(* ---------------------------------------------------------------- induction on typed expressions *)
Lemma texpr_ind_m (P : texpr -> Prop)
  (HLit : forall p t, P (TELit p t)) (HVar : forall v t, P (TEVar v t)) (HSlot : forall s t, P (TESlot s t))
  (HUnk : forall n rt t, P (TEUnknown n rt t))
  (HIf : forall c a b t, P c -> P a -> P b -> P (TEIf c a b t))
  (HAnd : forall a b t, P a -> P b -> P (TEAnd a b t))
  (HOr : forall a b t, P a -> P b -> P (TEOr a b t))
  (HUn : forall op a t, P a -> P (TEUnApp op a t))
  (HBin : forall op a b t, P a -> P b -> P (TEBinApp op a b t))
  (HExt : forall fn args t, Forall P args -> P (TEExtCall fn args t))
  (HGet : forall e a t, P e -> P (TEGetAttr e a t))
  (HHas : forall e a t, P e -> P (TEHasAttr e a t))
  (HLike : forall e p t, P e -> P (TELike e p t))
  (HIs : forall e et t, P e -> P (TEIs e et t))
  (HSet : forall items t, Forall P items -> P (TESet items t))
  (HRec : forall items t, Forall (fun kv => P (snd kv)) items -> P (TERecord items t))
  : forall e, P e.
Proof.
  fix IH 1. intros e. destruct e.
  - apply HLit. - apply HVar. - apply HSlot. - apply HUnk.
  - apply HIf; apply IH.
  - apply HAnd; apply IH.
  - apply HOr; apply IH.
  - apply HUn; apply IH.
  - apply HBin; apply IH.
  - apply HExt. induction args; constructor; [apply IH | assumption].
  - apply HGet; apply IH.
  - apply HHas; apply IH.
  - apply HLike; apply IH.
  - apply HIs; apply IH.
  - apply HSet. induction items; constructor; [apply IH | assumption].
  - apply HRec. induction items as [|[k x] items IHi]; constructor; [apply IH | assumption].
Qed.

(* ---------------------------------------------------------------- similarity of values / results *)
Definition vsim (v v' : value) : Prop :=
  match v with VRecord _ => exists r', v' = VRecord r' | _ => v' = v end.

Definition rel (k : kind) (r r' : res value) : Prop :=
  match k with
  | KExact => r' = r
  | KSim => match r, r' with
            | Ok v, Ok v' => vsim v v'
            | Err e, Err e' => e' = e
            | _, _ => False
            end
  end.

Lemma vsim_refl v : vsim v v.
Proof. destruct v; cbn; eauto. Qed.

Lemma rel_weaken k r r' : rel k r r' -> rel KSim r r'.
Proof. destruct k; cbn; [|auto]. intros ->. destruct r; [apply vsim_refl | reflexivity]. Qed.

Lemma rel_err k e : rel k (Err e) (Err e).
Proof. destruct k; reflexivity. Qed.

Lemma rel_meet_l ka kb r r' : rel ka r r' -> rel (kind_meet ka kb) r r'.
Proof. destruct ka, kb; cbn [kind_meet]; auto; apply (rel_weaken KExact). Qed.
Lemma rel_meet_r ka kb r r' : rel kb r r' -> rel (kind_meet ka kb) r r'.
Proof. destruct ka, kb; cbn [kind_meet]; auto; apply (rel_weaken KExact). Qed.

Lemma bind_sim k r r' (f f' : value -> res value) :
  rel KSim r r' -> (forall v v', vsim v v' -> rel k (f v) (f' v')) -> rel k (bind r f) (bind r' f').
Proof.
  intros H Hf. destruct r as [v|e], r' as [v'|e']; cbn in H; try contradiction.
  - cbn. auto.
  - subst. cbn. apply rel_err.
Qed.

Ltac sim_cases v H :=
  destruct v as [[ | | | ] | | | ]; cbn in H; [subst; reflexivity ..| destruct H as [? ->]; reflexivity | subst; reflexivity].

Lemma as_bool_sim v v' : vsim v v' -> as_bool v' = as_bool v.
Proof. intros H. sim_cases v H. Qed.
Lemma as_long_sim v v' : vsim v v' -> as_long v' = as_long v.
Proof. intros H. sim_cases v H. Qed.
Lemma as_set_sim v v' : vsim v v' -> as_set v' = as_set v.
Proof. intros H. sim_cases v H. Qed.
Lemma as_entity_sim v v' : vsim v v' -> as_entity v' = as_entity v.
Proof. intros H. sim_cases v H. Qed.
Lemma as_string_sim v v' : vsim v v' -> as_string v' = as_string v.
Proof. intros H. sim_cases v H. Qed.

Lemma unary_sim op v v' : vsim v v' -> unary_app op v' = unary_app op v.
Proof.
  intros H. destruct op; cbn.
  - rewrite (as_bool_sim _ _ H). reflexivity.
  - rewrite (as_long_sim _ _ H). reflexivity.
  - rewrite (as_set_sim _ _ H). reflexivity.
Qed.

Definition blind_op (op : binop) : bool :=
  match op with
  | BLess | BLessEq | BAdd | BSub | BMul | BContainsAll | BContainsAny => true
  | _ => false
  end.

Lemma binary_relation_sim l a a' b b' :
  vsim a a' -> vsim b b' -> binary_relation l a' b' = binary_relation l a b.
Proof.
  intros Ha Hb.
  destruct a as [[ | | | ] | | | ]; cbn in Ha; try (destruct Ha as [? ->]); subst;
  destruct b as [[ | | | ] | | | ]; cbn in Hb; try (destruct Hb as [? ->]); subst; reflexivity.
Qed.

Lemma binary_blind st st' op a a' b b' :
  blind_op op = true -> vsim a a' -> vsim b b' -> binary_app st' op a' b' = binary_app st op a b.
Proof.
  intros Hop Ha Hb. destruct op; try discriminate; cbn [binary_app].
  - apply binary_relation_sim; assumption.
  - apply binary_relation_sim; assumption.
  - unfold binary_arith. rewrite (as_long_sim _ _ Ha), (as_long_sim _ _ Hb). reflexivity.
  - unfold binary_arith. rewrite (as_long_sim _ _ Ha), (as_long_sim _ _ Hb). reflexivity.
  - unfold binary_arith. rewrite (as_long_sim _ _ Ha), (as_long_sim _ _ Hb). reflexivity.
  - rewrite (as_set_sim _ _ Ha), (as_set_sim _ _ Hb). reflexivity.
  - rewrite (as_set_sim _ _ Ha), (as_set_sim _ _ Hb). reflexivity.
Qed.

Lemma eqb_prim_sim_r p b b' : vsim b b' -> value_eqb (VPrim p) b' = value_eqb (VPrim p) b.
Proof.
  intros H. destruct b as [[ | | | ] | | | ]; cbn in H; try (destruct H as [? ->]); subst; reflexivity.
Qed.
Lemma eqb_prim_sim_l p a a' : vsim a a' -> value_eqb a' (VPrim p) = value_eqb a (VPrim p).
Proof.
  intros H. destruct a as [[ | | | ] | | | ]; cbn in H; try (destruct H as [? ->]); subst; reflexivity.
Qed.

(* ---------------------------------------------------------------- the spec, unfolded *)
Section Sound.
  Variable q : request.
  Variables es es' : entities.

  Fixpoint kids_agree (l : list (str * trie)) (get get' : str -> option value) : Prop :=
    match l with
    | [] => True
    | (a, t') :: l' =>
        match get a, get' a with
        | None, None => True
        | Some x, Some x' => agree q es es' t' x x'
        | _, _ => False
        end /\ kids_agree l' get get'
    end.

  Lemma agree_eq ch anc b v v' :
    agree q es es' (Trie ch anc b) v v' =
    match v with
    | VPrim (PEntity u) =>
        v' = v /\
        match find_entity u es, find_entity u es' with
        | None, None => True
        | Some d, Some d' =>
            kids_agree ch (fun a => lookup a (eattrs d)) (fun a => lookup a (eattrs d')) /\ anc_ok q es anc d d'
        | _, _ => False
        end
    | VRecord r => exists r', v' = VRecord r' /\ kids_agree ch (fun a => lookup a r) (fun a => lookup a r')
    | _ => v' = v
    end.
  Proof.
    assert (K : forall l get get',
      (fix kids (l : list (str * trie)) (get get' : str -> option value) : Prop :=
            match l with
            | [] => True
            | (a, t') :: l' =>
                match get a, get' a with
                | None, None => True
                | Some x, Some x' => agree q es es' t' x x'
                | _, _ => False
                end /\ kids l' get get'
            end) l get get' = kids_agree l get get').
    { induction l as [|[a t'] l IH]; intros; [reflexivity|]. cbn [kids_agree]. rewrite <- (IH get get'). reflexivity. }
    clear K. cbn [agree]. destruct v as [[ | | | u] | | r | ]; reflexivity.
  Qed.

  Lemma kids_lookup : forall l get get' a ta,
    kids_agree l get get' -> lookup a l = Some ta ->
    match get a, get' a with
    | None, None => True
    | Some x, Some x' => agree q es es' ta x x'
    | _, _ => False
    end.
  Proof.
    induction l as [|[k t'] l IH]; cbn; intros get get' a ta H L; [discriminate|].
    destruct H as [H1 H2]. destruct (str_eqb a k) eqn:E.
    - apply str_eqb_eq in E; subst. inversion L; subst. exact H1.
    - eapply IH; eauto.
  Qed.

  Lemma agree_vsim t v v' : agree q es es' t v v' -> vsim v v'.
  Proof.
    destruct t as [ch anc b]. rewrite agree_eq.
    destruct v as [[ | | | u] | | r | ]; cbn; auto.
    - intros [H _]; exact H.
    - intros [r' [H _]]. eauto.
  Qed.

  (* one attribute step along the trie *)
  Lemma get_attr_agree t v v' a ta :
    agree q es es' t v v' -> lookup a (t_children t) = Some ta ->
    match get_attr es v a with
    | Ok x => exists x', get_attr es' v' a = Ok x' /\ agree q es es' ta x x'
    | Err e => get_attr es' v' a = Err e
    end.
  Proof.
    destruct t as [ch anc b]. rewrite agree_eq. cbn [t_children]. intros H L.
    destruct v as [[ | | | u] | | r | ]; try (subst; reflexivity).
    - destruct H as [-> H]. cbn [get_attr].
      destruct (find_entity u es) as [d|], (find_entity u es') as [d'|]; try contradiction; [|reflexivity].
      destruct H as [Hk _]. pose proof (kids_lookup _ _ _ _ _ Hk L) as Hx. cbn in Hx.
      destruct (lookup a (eattrs d)) as [x|], (lookup a (eattrs d')) as [x'|]; try contradiction; eauto.
    - destruct H as [r' [-> Hk]]. cbn [get_attr].
      pose proof (kids_lookup _ _ _ _ _ Hk L) as Hx. cbn in Hx.
      destruct (lookup a r) as [x|], (lookup a r') as [x'|]; try contradiction; eauto.
  Qed.


  Lemma has_attr_agree t v v' a ta :
    agree q es es' t v v' -> lookup a (t_children t) = Some ta ->
    has_attr es' v' a = has_attr es v a.
  Proof.
    destruct t as [ch anc b]. rewrite agree_eq. cbn [t_children]. intros H L.
    destruct v as [[ | | | u] | | r | ]; try (subst; reflexivity).
    - destruct H as [-> H]. cbn [has_attr].
      destruct (find_entity u es) as [d|], (find_entity u es') as [d'|]; try contradiction; [|reflexivity].
      destruct H as [Hk _]. pose proof (kids_lookup _ _ _ _ _ Hk L) as Hx. cbn in Hx. unfold has_key.
      destruct (lookup a (eattrs d)) as [x|], (lookup a (eattrs d')) as [x'|]; try contradiction; reflexivity.
    - destruct H as [r' [-> Hk]]. cbn [has_attr].
      pose proof (kids_lookup _ _ _ _ _ Hk L) as Hx. cbn in Hx. unfold has_key.
      destruct (lookup a r) as [x|], (lookup a r') as [x'|]; try contradiction; reflexivity.
  Qed.

  Lemma walk_app_m : forall p p2 t,
    walk t (p ++ p2) = match walk t p with Some t' => walk t' p2 | None => None end.
  Proof.
    induction p as [|a p IH]; intros p2 t; cbn; [reflexivity|].
    destruct (lookup a (t_children t)); [apply IH|reflexivity].
  Qed.

  Lemma path_agree : forall p t0 t1 v0 v0',
    agree q es es' t0 v0 v0' -> walk t0 p = Some t1 ->
    match path_from es v0 p with
    | Ok v => exists v', path_from es' v0' p = Ok v' /\ agree q es es' t1 v v'
    | Err e => path_from es' v0' p = Err e
    end.
  Proof.
    induction p as [|a p IH]; intros t0 t1 v0 v0' H W; cbn in *.
    - inversion W; subst. eauto.
    - destruct (lookup a (t_children t0)) as [ta|] eqn:L; [|discriminate].
      pose proof (get_attr_agree _ _ _ _ _ H L) as G.
      destruct (get_attr es v0 a) as [x|e].
      + destruct G as [x' [-> Hx]]. cbn. eapply IH; eauto.
      + rewrite G. reflexivity.
  Qed.

  Lemma path_from_snoc st : forall p v a,
    path_from st v (p ++ [a]) = bind (path_from st v p) (fun x => get_attr st x a).
  Proof.
    induction p as [|b p IH]; intros v a; cbn.
    - destruct (get_attr st v a); reflexivity.
    - destruct (get_attr st v b); cbn; [apply IH | reflexivity].
  Qed.

  Variable m : rtrie.
  Hypothesis Hgood : good_slice q es es' m.

  Lemma node_agree r p t :
    node_at m (r, p) = Some t ->
    match path_val q es (r, p) with
    | Ok v => exists v', path_val q es' (r, p) = Ok v' /\ agree q es es' t v v'
    | Err e => path_val q es' (r, p) = Err e
    end.
  Proof.
    unfold node_at, path_val. cbn [fst snd]. intros N.
    destruct (lookup_root r m) as [t0|] eqn:L; [|discriminate].
    eapply path_agree; eauto.
  Qed.

  Lemma node_rel r p t : node_at m (r, p) = Some t -> rel KSim (path_val q es (r, p)) (path_val q es' (r, p)).
  Proof.
    intros N. pose proof (node_agree _ _ _ N) as H.
    destruct (path_val q es (r, p)) as [v|e].
    - destruct H as [v' [-> A]]. cbn. eapply agree_vsim; eauto.
    - rewrite H. reflexivity.
  Qed.

  (* ---------------------------------------------------------------- evaluation of direct paths *)
  Variable sl : slotenv.

  Lemma direct_path_eval st : forall e rr pp,
    direct_path sl e = Some (rr, pp) -> eval sl q st (erase e) = path_val q st (rr, pp).
  Proof.
    induction e; intros rr pp D; cbn in D; try discriminate.
    - destruct p; try discriminate. inversion D; subst. reflexivity.
    - inversion D; subst. reflexivity.
    - cbn. destruct (slot_lookup s sl); cbn in D; [|discriminate]. inversion D; subst. reflexivity.
    - destruct (direct_path sl e) as [[r0 p0]|]; [|discriminate]. inversion D; subst.
      cbn [erase eval]. rewrite (IHe _ _ eq_refl). unfold path_val. cbn [fst snd].
      rewrite path_from_snoc. reflexivity.
  Qed.

  Lemma covers_rel p : covers m p = true -> rel KSim (path_val q es p) (path_val q es' p).
  Proof.
    destruct p as [r p]. unfold covers. cbn [snd]. destruct p as [|a p].
    - intros _. unfold path_val. cbn. apply vsim_refl.
    - destruct (node_at m (r, a :: p)) as [t|] eqn:N; [|discriminate]. intros _. eapply node_rel; eauto.
  Qed.

  (* ---------------------------------------------------------------- lists of exact expressions *)
  Fixpoint eval_list (st : entities) (l : list expr) : res (list value) :=
    match l with
    | [] => Ok []
    | x :: l' => do v <- eval sl q st x; do vs <- eval_list st l'; Ok (v :: vs)
    end.

  Fixpoint eval_rec (st : entities) (l : list (str * expr)) : res (list (str * value)) :=
    match l with
    | [] => Ok []
    | (k, x) :: l' => do v <- eval sl q st x; do kvs <- eval_rec st l'; Ok ((k, v) :: kvs)
    end.

  Lemma eval_set st items : eval sl q st (SetE items) = do vs <- eval_list st items; Ok (VSet vs).
  Proof.
    cbn [eval]. f_equal. induction items as [|x l IH]; [reflexivity|]. cbn [eval_list]. rewrite <- IH. reflexivity.
  Qed.
  Lemma eval_ext st fn args : eval sl q st (ExtCall fn args) = do vs <- eval_list st args; call_ext fn vs.
  Proof.
    cbn [eval]. f_equal. induction args as [|x l IH]; [reflexivity|]. cbn [eval_list]. rewrite <- IH. reflexivity.
  Qed.
  Lemma eval_record st items : eval sl q st (RecordE items) = do kvs <- eval_rec st items; Ok (VRecord kvs).
  Proof.
    cbn [eval]. f_equal. induction items as [|[k x] l IH]; [reflexivity|]. cbn [eval_rec]. rewrite <- IH. reflexivity.
  Qed.

  Definition sound_at (e : texpr) : Prop :=
    forall k, frag sl m e = Some k -> rel k (eval sl q es (erase e)) (eval sl q es' (erase e)).

  Lemma eval_list_exact args :
    Forall sound_at args -> all_exact (map (frag sl m) args) = true ->
    eval_list es' (map erase args) = eval_list es (map erase args).
  Proof.
    induction 1 as [|e l He Hl IH]; cbn; [reflexivity|].
    destruct (frag sl m e) as [[|]|] eqn:F; try discriminate. intros A.
    pose proof (He _ F) as R. cbn in R. rewrite R, (IH A). reflexivity.
  Qed.

  Lemma eval_rec_exact items :
    Forall (fun kv => sound_at (snd kv)) items ->
    all_exact (map (fun kv => frag sl m (snd kv)) items) = true ->
    eval_rec es' (map (fun kv => (fst kv, erase (snd kv))) items)
    = eval_rec es (map (fun kv => (fst kv, erase (snd kv))) items).
  Proof.
    induction 1 as [|[k e] l He Hl IH]; cbn; [reflexivity|].
    destruct (frag sl m e) as [[|]|] eqn:F; try discriminate. intros A.
    pose proof (He _ F) as R. cbn in R. rewrite R, (IH A). reflexivity.
  Qed.

  (* ---------------------------------------------------------------- nonrec *)
  Lemma nonrec_prim st e v : nonrec e = true -> eval sl q st (erase e) = Ok v -> exists p, v = VPrim p.
  Proof.
    destruct e; cbn; try discriminate.
    - intros _ H. inversion H. eauto.
    - destruct v0; try discriminate; intros _ H; inversion H; cbn; unfold VEntity; eauto.
    - intros _. destruct (slot_lookup s sl); intros H; inversion H. unfold VEntity. eauto.
  Qed.

  Lemma nonrec_exact e : nonrec e = true -> eval sl q es' (erase e) = eval sl q es (erase e).
  Proof. destruct e; cbn; try discriminate; reflexivity. Qed.

  (* ---------------------------------------------------------------- `in` *)
  Lemma mapM_as_entity_targets l us :
    mapM as_entity l = Ok us -> forall u, In u us -> In u (targets (VSet l)).
  Proof.
    revert us. induction l as [|x l IH]; cbn; intros us H u Hin.
    - inversion H; subst. destruct Hin.
    - destruct x as [[ | | | u0] | | | ]; cbn in H; try discriminate.
      destruct (mapM as_entity l) as [us0|]; cbn in H; [|discriminate]. inversion H; subst.
      cbn. destruct Hin as [->|Hin]; [left; reflexivity | right; eapply IH; eauto].
  Qed.

  (* the uids `eval_in` tests, when its right operand is the value of a marked node *)
  Lemma rhs_uids_targets v us :
    match v with
    | VPrim (PEntity u) => Ok [u]
    | VSet l => mapM as_entity l
    | _ => Err ErrType
    end = Ok us -> forall u, In u us -> In u (targets v).
  Proof.
    destruct v as [[ | | | u0] | l | | ]; try discriminate.
    - intros H u Hin. inversion H; subst. exact Hin.
    - apply mapM_as_entity_targets.
  Qed.

  Lemma existsb_ext_in {A} (f g : A -> bool) l : (forall x, In x l -> f x = g x) -> existsb f l = existsb g l.
  Proof.
    induction l as [|x l IH]; cbn; intros H; [reflexivity|].
    rewrite (H x (or_introl eq_refl)), IH; [reflexivity|]. intros y Hy. apply H. right. exact Hy.
  Qed.

  (* eval_in on the slice, given that every tested uid is a requested ancestor of the lhs node *)
  Lemma eval_in_agree ta u vb :
    agree q es es' ta (VEntity u) (VEntity u) ->
    (forall us x, match vb with
                  | VPrim (PEntity u) => Ok [u]
                  | VSet l => mapM as_entity l
                  | _ => Err ErrType
                  end = Ok us -> In x us ->
       forall d d', find_entity u es = Some d -> find_entity u es' = Some d' ->
                    is_descendant_of d' x = is_descendant_of d x) ->
    eval_in es' u vb = eval_in es u vb.
  Proof.
    intros A H. unfold eval_in.
    destruct (match vb with
              | VPrim (PEntity u0) => Ok [u0]
              | VSet l => mapM as_entity l
              | _ => Err ErrType
              end) as [us|e] eqn:E; [|reflexivity].
    cbn. f_equal. f_equal. apply existsb_ext_in. intros x Hx. f_equal.
    destruct ta as [ch anc b]. rewrite agree_eq in A. unfold VEntity in A. destruct A as [_ A].
    destruct (find_entity u es) as [d|] eqn:Fd, (find_entity u es') as [d'|] eqn:Fd'; try contradiction; [|reflexivity].
    eapply H; eauto.
  Qed.

  (* ---- the right operand of `in` ---- *)
  Definition rhs_us (v : value) : res (list uid) :=
    match v with
    | VPrim (PEntity u) => Ok [u]
    | VSet l => mapM as_entity l
    | _ => Err ErrType
    end.

  Lemma rhs_us_sim v v' : vsim v v' -> rhs_us v' = rhs_us v.
  Proof. intros H. destruct v as [[ | | | ] | | | ]; cbn in H; try (destruct H as [? ->]); subst; reflexivity. Qed.

  (* x is one of the uids a node of the ancestors trie at_ marked is_ancestor stands for *)
  Definition marked_target (at_ : rtrie) (x : uid) : Prop :=
    exists r t0 p t1 v,
      lookup_root r at_ = Some t0 /\ walk t0 p = Some t1 /\ t_is_anc t1 = true /\
      path_from es (root_val q r) p = Ok v /\ In x (targets v).

  Lemma anc_marked_target at_ pb vb x :
    anc_marked at_ pb = true -> path_val q es pb = Ok vb -> In x (targets vb) -> marked_target at_ x.
  Proof.
    destruct pb as [rb pp]. unfold anc_marked, node_at, path_val. cbn [fst snd].
    destruct (lookup_root rb at_) as [t0|] eqn:L; [|discriminate].
    destruct (walk t0 pp) as [t1|] eqn:W; [|discriminate]. intros M P I.
    exists rb, t0, pp, t1, vb. auto.
  Qed.

  (* element-wise relation of the values of a list of direct paths *)
  Lemma paths_list at_ : forall items ts,
    omapM (direct_path sl) items = Some ts ->
    forallb (covers m) ts = true -> forallb (anc_marked at_) ts = true ->
    match eval_list es (map erase items), eval_list es' (map erase items) with
    | Ok vs, Ok vs' =>
        mapM as_entity vs' = mapM as_entity vs /\
        (forall us x, mapM as_entity vs = Ok us -> In x us -> marked_target at_ x)
    | Err e, Err e' => e' = e
    | _, _ => False
    end.
  Proof.
    induction items as [|e items IH]; intros ts O C M; cbn in O.
    - cbn. split; [reflexivity|]. intros us x H. inversion H; subst. intros [].
    - destruct (direct_path sl e) as [pb|] eqn:D; [|discriminate].
      destruct (omapM (direct_path sl) items) as [ts0|] eqn:O0; [|discriminate].
      inversion O; subst ts. cbn in C, M.
      apply andb_true_iff in C as [C1 C2]. apply andb_true_iff in M as [M1 M2].
      specialize (IH _ eq_refl C2 M2). cbn [map eval_list].
      destruct pb as [rb pp]. rewrite !(direct_path_eval _ _ _ _ D).
      pose proof (covers_rel _ C1) as R.
      destruct (path_val q es (rb, pp)) as [v|ev] eqn:Pv, (path_val q es' (rb, pp)) as [v'|ev']; cbn in R; try contradiction;
        cbn [bind]; [|subst; reflexivity].
      destruct (eval_list es (map erase items)) as [vs|e1], (eval_list es' (map erase items)) as [vs'|e1'];
        try contradiction; cbn [bind]; [|assumption].
      destruct IH as [IH1 IH2]. cbn [mapM]. rewrite (as_entity_sim _ _ R), IH1. split; [reflexivity|].
      intros us x H Hin.
      destruct (as_entity v) as [u|] eqn:Ev; cbn [bind] in H; [|discriminate].
      destruct (mapM as_entity vs) as [us0|] eqn:Em; cbn [bind] in H; [|discriminate].
      inversion H; subst us. destruct Hin as [<-|Hin].
      + destruct v as [[ | | | u0] | | | ]; cbn in Ev; try discriminate. inversion Ev; subst u0.
        eapply anc_marked_target; eauto. cbn. left. reflexivity.
      + eapply IH2; eauto.
  Qed.

  Lemma in_rhs_sound at_ b ts :
    in_targets sl b = Some ts -> forallb (covers m) ts = true -> forallb (anc_marked at_) ts = true ->
    match eval sl q es (erase b), eval sl q es' (erase b) with
    | Ok vb, Ok vb' =>
        rhs_us vb' = rhs_us vb /\ (forall us x, rhs_us vb = Ok us -> In x us -> marked_target at_ x)
    | Err e, Err e' => e' = e
    | _, _ => False
    end.
  Proof.
    intros T C M.
    assert (Hdirect : forall pb, direct_path sl b = Some pb -> ts = [pb] ->
      match eval sl q es (erase b), eval sl q es' (erase b) with
      | Ok vb, Ok vb' =>
          rhs_us vb' = rhs_us vb /\ (forall us x, rhs_us vb = Ok us -> In x us -> marked_target at_ x)
      | Err e, Err e' => e' = e
      | _, _ => False
      end).
    { intros [rb pp] D ->. cbn in C, M. rewrite andb_true_r in C, M.
      rewrite !(direct_path_eval _ _ _ _ D). pose proof (covers_rel _ C) as R.
      destruct (path_val q es (rb, pp)) as [v|ev] eqn:Pv, (path_val q es' (rb, pp)) as [v'|ev']; cbn in R; try contradiction; [|assumption].
      split; [apply rhs_us_sim; assumption|]. intros us x H Hin.
      eapply anc_marked_target; eauto. eapply rhs_uids_targets; eauto. }
    destruct b; cbn [in_targets] in T;
      try (destruct (direct_path sl _) as [pb|] eqn:D; cbn in T; [|discriminate]; inversion T; subst ts;
           eapply Hdirect; eauto; fail).
    (* set literal *)
    clear Hdirect. cbn [erase]. rewrite !eval_set.
    pose proof (paths_list at_ _ _ T C M) as P.
    destruct (eval_list es (map erase items)) as [vs|e1], (eval_list es' (map erase items)) as [vs'|e1'];
      try contradiction; cbn [bind]; [|assumption].
    cbn [rhs_us]. exact P.
  Qed.

  (* ---------------------------------------------------------------- the fragment theorem *)
  Ltac wk H := (eapply rel_weaken; eapply H; first [eassumption | reflexivity]).

  Theorem frag_sound : forall e, sound_at e.
  Proof.
    apply texpr_ind_m; unfold sound_at.
    - (* lit *) intros p t k F. inversion F; subst. reflexivity.
    - intros v t k F. inversion F; subst. reflexivity.
    - intros s t k F. inversion F; subst. reflexivity.
    - intros n rt t k F. inversion F; subst. reflexivity.
    - (* if *)
      intros c a b t IHc IHa IHb k F. cbn [frag] in F.
      destruct (frag sl m c) as [kc|] eqn:Fc; [|discriminate].
      destruct (frag sl m a) as [ka|] eqn:Fa; [|discriminate].
      destruct (frag sl m b) as [kb|] eqn:Fb; [|discriminate].
      inversion F; subst k. cbn [erase eval].
      apply bind_sim; [wk IHc|]. intros v v' Hs. rewrite (as_bool_sim _ _ Hs).
      destruct (as_bool v) as [bb|er]; cbn [bind]; [|apply rel_err].
      destruct bb; [apply rel_meet_l | apply rel_meet_r]; eauto.
    - (* and *)
      intros a b t IHa IHb k F. cbn [frag] in F.
      destruct (frag sl m a) as [ka|] eqn:Fa; [|discriminate].
      destruct (frag sl m b) as [kb|] eqn:Fb; [|discriminate].
      inversion F; subst k. cbn [erase eval].
      apply bind_sim; [wk IHa|]. intros v v' Hs. rewrite (as_bool_sim _ _ Hs).
      destruct (as_bool v) as [x|er]; cbn [bind]; [|apply rel_err].
      destruct x; [|reflexivity].
      apply bind_sim; [wk IHb|]. intros w w' Hw. cbn [rel]. rewrite (as_bool_sim _ _ Hw). reflexivity.
    - (* or *)
      intros a b t IHa IHb k F. cbn [frag] in F.
      destruct (frag sl m a) as [ka|] eqn:Fa; [|discriminate].
      destruct (frag sl m b) as [kb|] eqn:Fb; [|discriminate].
      inversion F; subst k. cbn [erase eval].
      apply bind_sim; [wk IHa|]. intros v v' Hs. rewrite (as_bool_sim _ _ Hs).
      destruct (as_bool v) as [x|er]; cbn [bind]; [|apply rel_err].
      destruct x; [reflexivity|].
      apply bind_sim; [wk IHb|]. intros w w' Hw. cbn [rel]. rewrite (as_bool_sim _ _ Hw). reflexivity.
    - (* unary *)
      intros op a t IHa k F. cbn [frag] in F.
      destruct (frag sl m a) as [ka|] eqn:Fa; [|discriminate]. inversion F; subst k. cbn [erase eval].
      apply bind_sim; [wk IHa|]. intros v v' Hs. cbn [rel]. apply unary_sim. exact Hs.
    - (* binary *)
      intros op a b t IHa IHb k F.
      assert (Hblind : blind_op op = true ->
                match frag sl m a, frag sl m b with Some _, Some _ => Some KExact | _, _ => None end = Some k ->
                rel k (eval sl q es (erase (TEBinApp op a b t))) (eval sl q es' (erase (TEBinApp op a b t)))).
      { intros Hop F0.
        destruct (frag sl m a) as [ka|] eqn:Fa; [|discriminate].
        destruct (frag sl m b) as [kb|] eqn:Fb; [|discriminate].
        inversion F0; subst k. cbn [erase eval].
        apply bind_sim; [wk IHa|]. intros va va' Ha.
        apply bind_sim; [wk IHb|]. intros vb vb' Hb. cbn [rel]. apply binary_blind; assumption. }
      destruct op; cbn [frag] in F; try (apply Hblind; [reflexivity | exact F]); try discriminate; clear Hblind.
      + (* == *)
        assert (Hnr : forall ka kb, frag sl m a = Some ka -> frag sl m b = Some kb ->
                  nonrec a || nonrec b = true ->
                  rel KExact (eval sl q es (erase (TEBinApp BEq a b t))) (eval sl q es' (erase (TEBinApp BEq a b t)))).
        { intros ka kb Fa Fb N. apply orb_true_iff in N as [Na|Nb]; cbn [erase eval].
          - rewrite (nonrec_exact _ Na).
            destruct (eval sl q es (erase a)) as [va|ea] eqn:Ea; cbn [bind]; [|apply rel_err].
            destruct (nonrec_prim _ _ _ Na Ea) as [p ->].
            apply bind_sim; [wk IHb|]. intros vb vb' Hb. cbn [rel binary_app].
            rewrite (eqb_prim_sim_r _ _ _ Hb). reflexivity.
          - apply bind_sim; [wk IHa|]. intros va va' Ha.
            rewrite (nonrec_exact _ Nb).
            destruct (eval sl q es (erase b)) as [vb|eb] eqn:Eb; cbn [bind]; [|apply rel_err].
            destruct (nonrec_prim _ _ _ Nb Eb) as [p ->]. cbn [rel binary_app].
            rewrite (eqb_prim_sim_l _ _ _ Ha). reflexivity. }
        destruct (frag sl m a) as [[|]|] eqn:Fa; try discriminate;
          destruct (frag sl m b) as [[|]|] eqn:Fb; try discriminate.
        * inversion F; subst k. cbn [erase eval rel].
          pose proof (IHa _ eq_refl) as Ra. pose proof (IHb _ eq_refl) as Rb. cbn [rel] in Ra, Rb. rewrite Ra, Rb.
          destruct (eval sl q es (erase a)); cbn [bind]; [|reflexivity].
          destruct (eval sl q es (erase b)); reflexivity.
        * destruct (nonrec a || nonrec b) eqn:N; [|discriminate]. inversion F; subst k. eapply Hnr; eauto.
        * destruct (nonrec a || nonrec b) eqn:N; [|discriminate]. inversion F; subst k. eapply Hnr; eauto.
        * destruct (nonrec a || nonrec b) eqn:N; [|discriminate]. inversion F; subst k. eapply Hnr; eauto.
      + (* in *)
        destruct (direct_path sl a) as [[ra ppa]|] eqn:Da; [|discriminate].
        destruct (in_targets sl b) as [ts|] eqn:Tb; [|discriminate].
        destruct (covers_in m (ra, ppa) ts && forallb (covers m) ts) eqn:C; [|discriminate].
        inversion F; subst k. apply andb_true_iff in C as [C1 C2].
        unfold covers_in in C1. destruct (node_at m (ra, ppa)) as [ta|] eqn:Na; [|discriminate].
        cbn [erase eval]. rewrite !(direct_path_eval _ _ _ _ Da).
        pose proof (node_agree _ _ _ Na) as HA.
        destruct (path_val q es (ra, ppa)) as [va|ea]; [destruct HA as [va' [-> Aa]] | rewrite HA; apply rel_err].
        cbn [bind].
        pose proof (in_rhs_sound (t_anc ta) b ts Tb C2 C1) as HB.
        destruct (eval sl q es (erase b)) as [vb|eb], (eval sl q es' (erase b)) as [vb'|eb']; try contradiction;
          cbn [bind]; [|subst; apply rel_err].
        destruct HB as [HB1 HB2]. cbn [rel binary_app].
        pose proof (agree_vsim _ _ _ Aa) as Sa. rewrite (as_entity_sim _ _ Sa).
        destruct (as_entity va) as [u|er] eqn:Eu; cbn [bind]; [|reflexivity].
        destruct va as [[ | | | u0] | | | ]; cbn in Eu; try discriminate. inversion Eu; subst u0.
        cbn in Sa. subst va'.
        transitivity (eval_in es' u vb).
        { unfold eval_in. fold (rhs_us vb'). fold (rhs_us vb). rewrite HB1. reflexivity. }
        eapply eval_in_agree; [exact Aa|].
        intros us x Hus Hx d d' Fd Fd'.
        destruct (HB2 us x Hus Hx) as (r & t0 & p & t1 & v & L & W & I & P & T).
        destruct ta as [ch anc bb]. rewrite agree_eq in Aa. unfold VEntity in Aa. destruct Aa as [_ Aa].
        rewrite Fd, Fd' in Aa. destruct Aa as [_ Anc]. cbn [t_anc] in L.
        eapply Anc; eauto.
      + (* contains *)
        destruct (frag sl m a) as [ka|] eqn:Fa; [|discriminate].
        destruct (frag sl m b) as [[|]|] eqn:Fb; try discriminate.
        inversion F; subst k. cbn [erase eval].
        apply bind_sim; [wk IHa|]. intros va va' Ha.
        pose proof (IHb _ eq_refl) as Rb. cbn [rel] in Rb. rewrite Rb.
        destruct (eval sl q es (erase b)) as [vb|eb]; cbn [bind]; [|apply rel_err].
        cbn [rel binary_app]. rewrite (as_set_sim _ _ Ha). reflexivity.
    - (* ext call *)
      intros fn args t IH k F. cbn [frag] in F.
      destruct (all_exact (map (frag sl m) args)) eqn:A; [|discriminate]. inversion F; subst k.
      cbn [erase rel]. rewrite !eval_ext, (eval_list_exact _ IH A). reflexivity.
    - (* getattr *)
      intros e a t IH k F. cbn [frag] in F.
      destruct (direct_path sl (TEGetAttr e a t)) as [[r p]|] eqn:D; [|discriminate].
      unfold node_covered in F. destruct (node_at m (r, p)) as [tn|] eqn:N; [|discriminate].
      inversion F; subst k. rewrite !(direct_path_eval _ _ _ _ D). eapply node_rel; eauto.
    - (* has *)
      intros e a t IH k F. cbn [frag] in F.
      destruct (direct_path sl e) as [[r p]|] eqn:D; [|discriminate].
      unfold node_covered in F. destruct (node_at m (r, p ++ [a])) as [tn|] eqn:N; [|discriminate].
      inversion F; subst k. cbn [erase eval]. rewrite !(direct_path_eval _ _ _ _ D).
      unfold node_at in N. cbn [fst snd] in N.
      destruct (lookup_root r m) as [t0|] eqn:L; [|discriminate].
      rewrite walk_app_m in N. destruct (walk t0 p) as [tp|] eqn:W; [|discriminate].
      cbn [walk] in N. destruct (lookup a (t_children tp)) as [ta|] eqn:La; [|discriminate].
      assert (Np : node_at m (r, p) = Some tp) by (unfold node_at; cbn [fst snd]; rewrite L; exact W).
      pose proof (node_agree _ _ _ Np) as HA.
      destruct (path_val q es (r, p)) as [v|ev]; [destruct HA as [v' [-> A]] | rewrite HA; apply rel_err].
      cbn [bind rel]. apply (has_attr_agree _ _ _ _ _ A La).
    - (* like *)
      intros e p t IH k F. cbn [frag] in F.
      destruct (frag sl m e) as [ke|] eqn:Fe; [|discriminate]. inversion F; subst k. cbn [erase eval].
      apply bind_sim; [wk IH|]. intros v v' Hs. cbn [rel]. rewrite (as_string_sim _ _ Hs). reflexivity.
    - (* is *)
      intros e et t IH k F. cbn [frag] in F.
      destruct (frag sl m e) as [ke|] eqn:Fe; [|discriminate]. inversion F; subst k. cbn [erase eval].
      apply bind_sim; [wk IH|]. intros v v' Hs. cbn [rel]. rewrite (as_entity_sim _ _ Hs). reflexivity.
    - (* set *)
      intros items t IH k F. cbn [frag] in F.
      destruct (all_exact (map (frag sl m) items)) eqn:A; [|discriminate]. inversion F; subst k.
      cbn [erase rel]. rewrite !eval_set, (eval_list_exact _ IH A). reflexivity.
    - (* record *)
      intros items t IH k F. cbn [frag] in F.
      destruct (all_exact (map (fun kv => frag sl m (snd kv)) items)) eqn:A; [|discriminate]. inversion F; subst k.
      cbn [erase rel]. rewrite !eval_record, (eval_rec_exact _ IH A). reflexivity.
  Qed.
End Sound.

(* ---------------------------------------------------------------- packaged statements *)
Theorem adequate_sound : forall q es es' m sl e,
  good_slice q es es' m -> frag sl m e = Some KExact ->
  eval sl q es' (erase e) = eval sl q es (erase e).
Proof.
  intros q es es' m sl e G F. exact (frag_sound q es es' m G sl e KExact F).
Qed.

Lemma auth_core_ext (f g : policy -> res bool) : forall ps b,
  (forall p, In p ps -> f p = g p) ->
  fold_left (fun b p => classify b (pid p) (peffect p) (outcome_of (f p))) ps b =
  fold_left (fun b p => classify b (pid p) (peffect p) (outcome_of (g p))) ps b.
Proof.
  induction ps as [|p ps IH]; intros b H; cbn; [reflexivity|].
  rewrite (H p (or_introl eq_refl)). apply IH. intros p' Hp. apply H. right. exact Hp.
Qed.

(* lifted to authorization responses (decision, determining policies, erroring policies) *)
Theorem response_sound : forall q es es' m ps,
  good_slice q es es' m ->
  (forall p, In p ps -> exists te, pcondition p = erase te /\ frag (penv p) m te = Some KExact) ->
  is_authorized ps q es' = is_authorized ps q es.
Proof.
  intros q es es' m ps G H. unfold is_authorized, authorize_with, auth_core. f_equal.
  apply auth_core_ext. intros p Hp. destruct (H p Hp) as [te [Hc Hf]].
  unfold eval_policy. rewrite Hc, (adequate_sound _ _ _ _ _ _ G Hf). reflexivity.
Qed.
