(* ParseProofs2.v — C05: parse (print_toks e) = e on the fragment.  Part 2: equation lemmas of the
   parser levels, leaves, operands, and the main induction. *)
From Coq Require Import Lia String.
From Cedar Require Import Unescape UnescapeProofs Printable ParseProofs.
Open Scope N_scope.

Lemma str_eqb_eq a : forall b, str_eqb a b = true -> a = b.
Proof.
  induction a as [|x a IH]; intros [|y b] H; try discriminate; [reflexivity|].
  cbn in H. apply andb_true_iff in H. destruct H as [H1 H2]. apply N.eqb_eq in H1. subst.
  f_equal. apply IH. exact H2.
Qed.

(* ---- facts about concrete keywords (by computation) ---- *)
Lemma kw_if : kw "if" (ascii "if") = true. Proof. reflexivity. Qed.
Lemma kw_then : kw "then" (ascii "then") = true. Proof. reflexivity. Qed.
Lemma kw_else : kw "else" (ascii "else") = true. Proof. reflexivity. Qed.
Lemma follow0_then r : follow_ok 0 (tid "then" :: r) = true. Proof. reflexivity. Qed.
Lemma follow0_else r : follow_ok 0 (tid "else" :: r) = true. Proof. reflexivity. Qed.
Lemma follow0_rparen r : follow_ok 0 (TRParen :: r) = true. Proof. reflexivity. Qed.
Lemma follow0_rbrack r : follow_ok 0 (TRBrack :: r) = true. Proof. reflexivity. Qed.

Lemma normalized_unreserved k : is_normalized_ident k = true -> unreserved k = true.
Proof.
  intros H. unfold is_normalized_ident in H. destruct k as [|c k]; [discriminate|].
  apply andb_true_iff in H. destruct H as [_ H]. revert H.
  unfold unreserved, reserved_word, kw, reserved_ids. cbn [map existsb].
  repeat match goal with |- context [str_eqb (c :: k) ?b] => destruct (str_eqb (c :: k) b) end;
    cbn; intros H; try reflexivity; discriminate.
Qed.

Lemma ident_ok_unreserved c : ident_ok c = true -> unreserved c = true.
Proof.
  unfold ident_ok. destruct c; [discriminate|]. intros H. apply andb_true_iff in H. apply H.
Qed.

Lemma unreserved_not_kw c : unreserved c = true ->
  kw "true" c = false /\ kw "false" c = false /\ kw "if" c = false.
Proof.
  unfold unreserved, reserved_word. intros H. apply andb_true_iff in H. destruct H as [H _].
  apply negb_true_iff in H.
  destruct (kw "true" c); [discriminate|]. destruct (kw "false" c); [discriminate|].
  destruct (kw "if" c); [discriminate|]. auto.
Qed.

Lemma var_of_ident_show s v : var_of_ident s = Some v -> s = show_var v.
Proof.
  unfold var_of_ident, kw.
  destruct (str_eqb s (ascii "principal")) eqn:E1; [intros H; inversion H; subst; apply str_eqb_eq; exact E1|].
  destruct (str_eqb s (ascii "action")) eqn:E2; [intros H; inversion H; subst; apply str_eqb_eq; exact E2|].
  destruct (str_eqb s (ascii "resource")) eqn:E3; [intros H; inversion H; subst; apply str_eqb_eq; exact E3|].
  destruct (str_eqb s (ascii "context")) eqn:E4; [intros H; inversion H; subst; apply str_eqb_eq; exact E4|].
  discriminate.
Qed.

(* ---- paths ---- *)
Fixpoint path_toks (p : list str) : list token :=
  match p with [] => [] | s :: p' => TColon2 :: TIdent s :: path_toks p' end.

Lemma name_toks_cons c p : name_toks (c :: p) = TIdent c :: path_toks p.
Proof.
  revert c. induction p as [|d p IH]; intros c; [reflexivity|].
  change (name_toks (c :: d :: p)) with (TIdent c :: TColon2 :: name_toks (d :: p)).
  rewrite IH. reflexivity.
Qed.

Definition no_path (ts : list token) : bool := negb (starts_path ts).

Lemma parse_path_name p rest : no_path rest = true -> parse_path (path_toks p ++ rest) = (p, PEName, rest).
Proof.
  intros H. induction p as [|s p IH].
  - cbn [path_toks app]. destruct rest as [|[] ?]; try reflexivity. discriminate.
  - cbn [path_toks app parse_path]. rewrite IH. reflexivity.
Qed.

Lemma parse_path_nil rest : no_path rest = true -> parse_path rest = ([], PEName, rest).
Proof. exact (parse_path_name [] rest). Qed.

Lemma parse_path_uid p raw rest : parse_path (path_toks p ++ TColon2 :: TStr raw :: rest) = (p, PEUid raw, rest).
Proof.
  induction p as [|s p IH]; [reflexivity|]. cbn [path_toks app parse_path]. rewrite IH. reflexivity.
Qed.

Lemma follow7_no_access rest : follow_ok 7 rest = true -> access_start rest = false /\ no_path rest = true.
Proof. destruct rest as [|[] ?]; cbn; intros H; try (split; reflexivity); discriminate. Qed.

Section RT.
  Variable np : N -> bool.
  Variable ge : N -> bool.
  Notation PT := (print_toks np ge).
  Notation SP := (sp np ge).
  Definition mwp (x : expr) : list token := wrapt (bare_operand x) (PT x).

  Lemma unescape_opt_escape s : wf_str s = true -> unescape_opt (escape_debug np ge s) = Some s.
  Proof. intros H. unfold unescape_opt. rewrite unescape_escape by exact H. reflexivity. Qed.

  Lemma into_expr_sp e : printable e = true -> into_expr (SP e) = Some e.
  Proof.
    destruct e; try reflexivity. destruct p; try reflexivity.
    cbn [printable sp into_expr]. intros H. rewrite unescape_opt_escape by exact H. reflexivity.
  Qed.

  (* ---- equation lemmas of the levels ---- *)
  Section Eqs.
    Variable rec : list token -> pres.
    Variable fuel : nat.

    Lemma pm_noacc ts prim ts1 :
      parse_primary rec fuel ts = Some (prim, ts1) -> access_start ts1 = false ->
      parse_member rec fuel ts = Some (prim, ts1).
    Proof. intros H Ha. unfold parse_member. rewrite H, Ha. reflexivity. Qed.

    Lemma pm_acc ts prim ts1 e :
      parse_primary rec fuel ts = Some (prim, ts1) -> access_start ts1 = true ->
      (forall n, prim <> EName n) -> into_expr prim = Some e ->
      parse_member rec fuel ts = access_loop rec fuel fuel e ts1.
    Proof.
      intros H Ha Hn Hi. unfold parse_member. rewrite H, Ha.
      destruct prim; try (rewrite Hi; reflexivity). exfalso. eapply Hn. reflexivity.
    Qed.

    Lemma access_stop n cur rest : access_start rest = false -> access_loop rec fuel n cur rest = Some (EExpr cur, rest).
    Proof. destruct rest as [|[] ?]; intros H; try discriminate; destruct n; reflexivity. Qed.

    Lemma access_dot n cur k rest :
      unreserved k = true -> match rest with TLParen :: _ => False | _ => True end ->
      access_loop rec fuel (S n) cur (TDot :: TIdent k :: rest) = access_loop rec fuel n (GetAttr cur k) rest.
    Proof.
      intros Hu Hr. destruct rest as [|t rest']; cbn [access_loop]; rewrite Hu; [reflexivity|].
      destruct t; try reflexivity. contradiction.
    Qed.

    Lemma access_index n cur raw k rest :
      rec (TStr raw :: TRBrack :: rest) = Some (EStr raw, TRBrack :: rest) -> unescape_opt raw = Some k ->
      access_loop rec fuel (S n) cur (TLBrack :: TStr raw :: TRBrack :: rest) = access_loop rec fuel n (GetAttr cur k) rest.
    Proof. intros H Hu. cbn [access_loop]. rewrite H, Hu. reflexivity. Qed.

    Lemma parse_rel_relop ts r t ts2 op r2 ts3 a b e :
      parse_add rec fuel ts = Some (r, t :: ts2) -> relop_of t = Some op ->
      parse_add rec fuel ts2 = Some (r2, ts3) -> rel_continues ts3 = false ->
      into_expr r = Some a -> into_expr r2 = Some b -> mk_rel op a b = Some e ->
      parse_rel rec fuel ts = Some (EExpr e, ts3).
    Proof.
      intros H1 H2 H3 H4 H5 H6 H7. unfold parse_rel. rewrite H1, H2, H3, H4, H5, H6, H7. reflexivity.
    Qed.

    Lemma parse_rel_has ts r ts2 a attrs ts3 e :
      parse_add rec fuel ts = Some (r, tid "has" :: ts2) -> into_expr r = Some a ->
      parse_has_rhs ts2 = Some (attrs, ts3) -> extended_has a attrs = Some e ->
      parse_rel rec fuel ts = Some (EExpr e, ts3).
    Proof.
      intros H1 H2 H3 H4. unfold parse_rel. rewrite H1.
      change (relop_of (tid "has")) with (@None relop). cbv iota. unfold tid at 1.
      change (kw "has" (ascii "has")) with true. cbv iota.
      rewrite H2, H3, H4. reflexivity.
    Qed.

    Lemma parse_rel_like ts r ts2 raw ts3 a p :
      parse_add rec fuel ts = Some (r, tid "like" :: ts2) -> into_expr r = Some a ->
      parse_add rec fuel ts2 = Some (EStr raw, ts3) -> to_pattern raw = UOk p ->
      parse_rel rec fuel ts = Some (EExpr (Like a p), ts3).
    Proof.
      intros H1 H2 H3 H4. unfold parse_rel. rewrite H1.
      change (relop_of (tid "like")) with (@None relop). cbv iota. unfold tid at 1.
      change (kw "has" (ascii "like")) with false. change (kw "like" (ascii "like")) with true. cbv iota.
      rewrite H3, H2, H4. reflexivity.
    Qed.

    Lemma parse_rel_is ts r ts2 rt ts3 a n :
      parse_add rec fuel ts = Some (r, tid "is" :: ts2) -> into_expr r = Some a ->
      parse_add rec fuel ts2 = Some (rt, ts3) ->
      match rt with EVar v => Some [show_var v] | EName m => Some m | _ => None end = Some n ->
      match ts3 with TIdent s3 :: _ => kw "in" s3 = false | _ => True end ->
      parse_rel rec fuel ts = Some (EExpr (Is a n), ts3).
    Proof.
      intros H1 H2 H3 H4 H5. unfold parse_rel. rewrite H1.
      change (relop_of (tid "is")) with (@None relop). cbv iota. unfold tid at 1.
      change (kw "has" (ascii "is")) with false. change (kw "like" (ascii "is")) with false.
      change (kw "is" (ascii "is")) with true. cbv iota.
      rewrite H3, H2, H4. destruct ts3 as [|t3 ts4]; [reflexivity|].
      destruct t3; try reflexivity. rewrite H5. reflexivity.
    Qed.

    Lemma add_loop_stop n acc rest : add_start rest = false -> add_loop rec fuel n acc rest = Some (EExpr acc, rest).
    Proof. destruct rest as [|[] ?]; intros H; try discriminate; destruct n; reflexivity. Qed.
    Lemma mul_loop_stop n acc rest : mul_start rest = false -> mul_loop rec fuel n acc rest = Some (EExpr acc, rest).
    Proof. destruct rest as [|[] ?]; intros H; try discriminate; destruct n; reflexivity. Qed.
    Lemma and_loop_stop n acc rest : match rest with TAndAnd :: _ => False | _ => True end ->
      and_loop rec fuel n acc rest = Some (EExpr acc, rest).
    Proof. destruct rest as [|[] ?]; intros H; try contradiction; destruct n; reflexivity. Qed.
    Lemma or_loop_stop n acc rest : match rest with TOrOr :: _ => False | _ => True end ->
      or_loop rec fuel n acc rest = Some (EExpr acc, rest).
    Proof. destruct rest as [|[] ?]; intros H; try contradiction; destruct n; reflexivity. Qed.

    Lemma parse_add_op ts r t op ts2 r2 rest a b :
      parse_mul rec fuel ts = Some (r, t :: ts2) ->
      (t = TPlus /\ op = BAdd \/ t = TMinus /\ op = BSub) -> fuel <> O ->
      parse_mul rec fuel ts2 = Some (r2, rest) -> add_start rest = false ->
      into_expr r = Some a -> into_expr r2 = Some b ->
      parse_add rec fuel ts = Some (EExpr (BinApp op a b), rest).
    Proof.
      intros H1 Ht Hf H2 H3 H4 H5. unfold parse_add. rewrite H1.
      destruct fuel as [|k] eqn:Ek; [contradiction|].
      destruct Ht as [[-> ->]|[-> ->]]; cbn [add_start]; rewrite H4; cbn [add_loop];
        rewrite <- Ek in *; rewrite H2, H5; apply add_loop_stop; exact H3.
    Qed.

    Lemma parse_mul_op ts r ts2 r2 rest a b :
      parse_unary rec fuel ts = Some (r, TStar :: ts2) -> fuel <> O ->
      parse_unary rec fuel ts2 = Some (r2, rest) -> mul_start rest = false ->
      into_expr r = Some a -> into_expr r2 = Some b ->
      parse_mul rec fuel ts = Some (EExpr (BinApp BMul a b), rest).
    Proof.
      intros H1 Hf H2 H3 H4 H5. unfold parse_mul. rewrite H1.
      destruct fuel as [|k] eqn:Ek; [contradiction|].
      cbn [mul_start]. rewrite H4. cbn [mul_loop]. rewrite <- Ek in *. rewrite H2, H5.
      apply mul_loop_stop. exact H3.
    Qed.

    Lemma parse_and_op ts r ts2 r2 rest a b :
      parse_rel rec fuel ts = Some (r, TAndAnd :: ts2) -> fuel <> O ->
      parse_rel rec fuel ts2 = Some (r2, rest) -> match rest with TAndAnd :: _ => False | _ => True end ->
      into_expr r = Some a -> into_expr r2 = Some b ->
      parse_and rec fuel ts = Some (EExpr (mk_and a b), rest).
    Proof.
      intros H1 Hf H2 H3 H4 H5. unfold parse_and. rewrite H1, H4.
      destruct fuel as [|k] eqn:Ek; [contradiction|].
      cbn [and_loop]. rewrite <- Ek in *. rewrite H2, H5. apply and_loop_stop. exact H3.
    Qed.

    Lemma parse_or_op ts r ts2 r2 rest a b :
      parse_and rec fuel ts = Some (r, TOrOr :: ts2) -> fuel <> O ->
      parse_and rec fuel ts2 = Some (r2, rest) -> match rest with TOrOr :: _ => False | _ => True end ->
      into_expr r = Some a -> into_expr r2 = Some b ->
      parse_or rec fuel ts = Some (EExpr (mk_or a b), rest).
    Proof.
      intros H1 Hf H2 H3 H4 H5. unfold parse_or. rewrite H1, H4.
      destruct fuel as [|k] eqn:Ek; [contradiction|].
      cbn [or_loop]. rewrite <- Ek in *. rewrite H2, H5. apply or_loop_stop. exact H3.
    Qed.

    (* one iteration of the chain loops, and the entry into them *)
    Lemma add_loop_plus n acc ts2 r2 rest b :
      parse_mul rec fuel ts2 = Some (r2, rest) -> into_expr r2 = Some b ->
      add_loop rec fuel (S n) acc (TPlus :: ts2) = add_loop rec fuel n (BinApp BAdd acc b) rest.
    Proof. intros H Hi. cbn [add_loop]. rewrite H, Hi. reflexivity. Qed.
    Lemma add_loop_minus n acc ts2 r2 rest b :
      parse_mul rec fuel ts2 = Some (r2, rest) -> into_expr r2 = Some b ->
      add_loop rec fuel (S n) acc (TMinus :: ts2) = add_loop rec fuel n (BinApp BSub acc b) rest.
    Proof. intros H Hi. cbn [add_loop]. rewrite H, Hi. reflexivity. Qed.
    Lemma mul_loop_star n acc ts2 r2 rest b :
      parse_unary rec fuel ts2 = Some (r2, rest) -> into_expr r2 = Some b ->
      mul_loop rec fuel (S n) acc (TStar :: ts2) = mul_loop rec fuel n (BinApp BMul acc b) rest.
    Proof. intros H Hi. cbn [mul_loop]. rewrite H, Hi. reflexivity. Qed.
    Lemma and_loop_step n acc ts2 r2 rest b :
      parse_rel rec fuel ts2 = Some (r2, rest) -> into_expr r2 = Some b ->
      and_loop rec fuel (S n) acc (TAndAnd :: ts2) = and_loop rec fuel n (mk_and acc b) rest.
    Proof. intros H Hi. cbn [and_loop]. rewrite H, Hi. reflexivity. Qed.
    Lemma or_loop_step n acc ts2 r2 rest b :
      parse_and rec fuel ts2 = Some (r2, rest) -> into_expr r2 = Some b ->
      or_loop rec fuel (S n) acc (TOrOr :: ts2) = or_loop rec fuel n (mk_or acc b) rest.
    Proof. intros H Hi. cbn [or_loop]. rewrite H, Hi. reflexivity. Qed.

    Lemma parse_add_enter ts r t ts2 a :
      parse_mul rec fuel ts = Some (r, t :: ts2) -> add_start (t :: ts2) = true -> into_expr r = Some a ->
      parse_add rec fuel ts = add_loop rec fuel fuel a (t :: ts2).
    Proof. intros H Hs Hi. unfold parse_add. rewrite H, Hs, Hi. reflexivity. Qed.
    Lemma parse_mul_enter ts r ts2 a :
      parse_unary rec fuel ts = Some (r, TStar :: ts2) -> into_expr r = Some a ->
      parse_mul rec fuel ts = mul_loop rec fuel fuel a (TStar :: ts2).
    Proof. intros H Hi. unfold parse_mul. rewrite H. cbn [mul_start]. rewrite Hi. reflexivity. Qed.
    Lemma parse_and_enter ts r ts2 a :
      parse_rel rec fuel ts = Some (r, TAndAnd :: ts2) -> into_expr r = Some a ->
      parse_and rec fuel ts = and_loop rec fuel fuel a (TAndAnd :: ts2).
    Proof. intros H Hi. unfold parse_and. rewrite H, Hi. reflexivity. Qed.
    Lemma parse_or_enter ts r ts2 a :
      parse_and rec fuel ts = Some (r, TOrOr :: ts2) -> into_expr r = Some a ->
      parse_or rec fuel ts = or_loop rec fuel fuel a (TOrOr :: ts2).
    Proof. intros H Hi. unfold parse_or. rewrite H, Hi. reflexivity. Qed.

    Lemma parse_unary_not ts r rest a :
      head_plain ts = true -> parse_member rec fuel ts = Some (r, rest) -> into_expr r = Some a ->
      parse_unary rec fuel (TBang :: ts) = Some (EExpr (UnApp UNot a), rest).
    Proof.
      intros Hp H Hi. unfold parse_unary. cbn [count_tok is_bang].
      assert (count_tok is_bang ts = (O, ts)) as Hc.
      { destruct ts as [|[] ?]; try reflexivity; discriminate. }
      rewrite Hc. cbn [Nat.ltb Nat.leb]. rewrite H. rewrite Hi. reflexivity.
    Qed.

    Lemma parse_unary_neg_paren ts r rest a :
      parse_member rec fuel (TLParen :: ts) = Some (r, rest) -> into_expr r = Some a ->
      parse_unary rec fuel (TMinus :: TLParen :: ts) = Some (EExpr (UnApp UNeg a), rest).
    Proof.
      intros H Hi. unfold parse_unary. cbn [count_tok is_bang is_minus Nat.ltb Nat.leb].
      rewrite H, Hi. reflexivity.
    Qed.

    Lemma primary_paren ts r rest e :
      rec ts = Some (r, TRParen :: rest) -> into_expr r = Some e ->
      parse_primary rec fuel (TLParen :: ts) = Some (EExpr e, rest).
    Proof. intros H Hi. cbn [parse_primary]. rewrite H, Hi. reflexivity. Qed.
  End Eqs.

  (* a bare string token at any level (pattern of `like`) *)
  Lemma str_tok_at rec fuel L raw rest :
    (L <= 7)%nat -> follow_ok L rest = true ->
    parse_at L rec fuel (TStr raw :: rest) = Some (EStr raw, rest).
  Proof.
    intros HL Hf. apply (descend rec fuel 7 L); try assumption; try reflexivity; try lia.
    cbn [parse_at]. apply pm_noacc; [reflexivity|].
    apply follow7_no_access. eapply follow_mono; eauto.
  Qed.

  (* ---- leaves ---- *)
  Lemma leaf_primary rec fuel e rest :
    match e with Lit (PLong z) => (0 <= z)%Z | Lit _ | Var _ | Slot _ => True | _ => False end ->
    printable e = true -> no_path rest = true ->
    parse_primary rec fuel (PT e ++ rest) = Some (SP e, rest).
  Proof.
    intros Hk Hp Hn. destruct e; try contradiction.
    - destruct p as [b|z|s|u].
      + destruct b; cbn [print_toks prim_toks app parse_primary]; unfold tid; cbn [parse_primary];
          rewrite parse_path_nil by exact Hn; reflexivity.
      + cbn [print_toks prim_toks]. cbn [printable] in Hp. unfold in_i64 in Hp.
        apply andb_true_iff in Hp. destruct Hp as [_ Hmax]. apply Z.leb_le in Hmax.
        replace (z <? 0)%Z with false by (symmetry; apply Z.ltb_ge; exact Hk).
        cbn [app parse_primary].
        replace (Z.to_N z <=? i64_max_N) with true
          by (symmetry; apply N.leb_le; unfold i64_max_N; unfold i64_max in Hmax; lia).
        rewrite Z2N.id by exact Hk. reflexivity.
      + reflexivity.
      + cbn [print_toks prim_toks uid_toks]. cbn [printable] in Hp. apply andb_true_iff in Hp.
        destruct Hp as [Hty Hid]. destruct u as [ty id]. cbn [uty ueid] in *.
        destruct ty as [|c p]; [discriminate|]. unfold uid_toks. cbn [uty ueid]. rewrite name_toks_cons.
        rewrite <- app_assoc. cbn [app parse_primary].
        unfold tstr. rewrite parse_path_uid.
        assert (forallb unreserved (c :: p) = true) as Hu.
        { unfold name_ok in Hty. apply forallb_forall. intros x Hx.
          apply ident_ok_unreserved. eapply forallb_forall in Hty; eauto. }
        rewrite Hu. rewrite unescape_opt_escape by exact Hid. reflexivity.
    - destruct v; cbn [print_toks show_var app parse_primary];
        rewrite parse_path_nil by exact Hn; reflexivity.
    - destruct s; reflexivity.
  Qed.

  Lemma neg_lit_primary f fuel z rest :
    (z < 0)%Z -> in_i64 z = true ->
    parse_primary (parse_expr (S f)) fuel (PT (Lit (PLong z)) ++ rest) = Some (EExpr (Lit (PLong z)), rest).
  Proof.
    intros Hz Hi. cbn [print_toks prim_toks]. replace (z <? 0)%Z with true by (symmetry; apply Z.ltb_lt; exact Hz).
    cbn [app]. eapply primary_paren with (r := EExpr (Lit (PLong z))); [|reflexivity].
    cbn [parse_expr]. apply (descend (parse_expr f) f 6 0); try reflexivity; try lia.
    cbn [parse_at]. unfold parse_unary. cbn [count_tok is_bang is_minus Nat.ltb Nat.leb access_start].
    unfold in_i64 in Hi. apply andb_true_iff in Hi. destruct Hi as [Hmin _]. apply Z.leb_le in Hmin.
    replace (Z.to_N (- z) <=? i64_max_N + 1) with true
      by (symmetry; apply N.leb_le; unfold i64_max_N; unfold i64_min in Hmin; lia).
    cbn [iter_un]. rewrite Z2N.id by lia. rewrite Z.opp_involutive. reflexivity.
  Qed.
End RT.
