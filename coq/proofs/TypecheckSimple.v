(* TypecheckSimple.v — C03 non-vacuity: a declarative judgement for policies that only use declared, correctly
   typed accesses with optional attributes guarded the documented ways
        e has a && ... e.a ...          if e has a then ... e.a ... else ...          e has a && e.a has b && ...
   and the theorem that strict typechecking accepts every such expression.  The judgement does not mention
   `tc`: attributes are looked up in the schema (lookup_attr_ty), guards are tracked as a capability list. *)
From Cedar Require Import Typecheck ValueProofs ConformProofs ExprEq TypecheckProofs TypecheckProofs2.

Section Simple.
  Variable sch : schema.
  Variable env : reqenv.

  (* an entity or record type (what `has` / `.` expect) *)
  Definition er (t : ty) : bool := existsb (subty Permissive t) [ty_any_entity; ty_any_record].

  (* types whose values are compared with == in the idioms: strict equality needs lub Strict t t *)
  Definition scalar (t : ty) : bool :=
    match t with
    | TLong | TString | TExt _ | TBool _ => true
    | TEntity (ELub [_]) => true
    | _ => false
    end.

  (* declared accesses: variables, long / string literals, attribute selections that are required or guarded *)
  Inductive Access (cs : caps) : expr -> ty -> Prop :=
  | A_var v t : ty_of_var sch env v = Some t -> Access cs (Var v) t
  | A_long z : Access cs (Lit (PLong z)) TLong
  | A_string s : Access cs (Lit (PString s)) TString
  | A_attr p tp a t req :
      Access cs p tp -> er tp = true -> lookup_attr_ty sch tp a = Some (t, req) ->
      (req = true \/ caps_mem (cap_attr p a) cs = true) ->
      Access cs (GetAttr p a) t.

  (* boolean expressions built with the guard idioms *)
  Inductive Simple (cs : caps) : expr -> Prop :=
  | S_bool b : Simple cs (Lit (PBool b))
  | S_eq a b t : Access cs a t -> Access cs b t -> scalar t = true -> Simple cs (BinApp BEq a b)
  | S_less a b : Access cs a TLong -> Access cs b TLong -> Simple cs (BinApp BLess a b)
  | S_has p tp a : Access cs p tp -> er tp = true -> Simple cs (HasAttr p a)
  | S_not e : Simple cs e -> Simple cs (UnApp UNot e)
  | S_or a b : Simple cs a -> Simple cs b -> Simple cs (Or a b)
  | S_guard_and p tp a t req e :
      Access cs p tp -> er tp = true -> lookup_attr_ty sch tp a = Some (t, req) ->
      Simple (cs ++ [cap_attr p a]) e -> Simple cs (And (HasAttr p a) e)
  | S_guard_if p tp a t req e1 e2 :
      Access cs p tp -> er tp = true -> lookup_attr_ty sch tp a = Some (t, req) ->
      Simple (cs ++ [cap_attr p a]) e1 -> Simple cs e2 -> Simple cs (If (HasAttr p a) e1 e2).

  (* unfolding equations of tc (by computation) *)
  Lemma tc_getattr m cs x a : tc m sch env cs (GetAttr x a) =
    match expect (tc m sch env cs x) [ty_any_entity; ty_any_record] with
    | None => None
    | Some (tx, _) =>
        match lookup_attr_ty sch tx a with
        | Some (t, req) => if req || caps_mem (cap_attr x a) cs then Some (t, []) else None
        | None => None
        end
    end.
  Proof. reflexivity. Qed.

  Lemma tc_hasattr m cs x a : tc m sch env cs (HasAttr x a) =
    match expect (tc m sch env cs x) [ty_any_entity; ty_any_record] with
    | None => None
    | Some (tx, _) =>
        match lookup_attr_ty sch tx a with
        | Some (_, true) =>
            let is_rec := match tx with TRecord _ _ => true | _ => false end in
            Some (if is_rec || caps_mem (cap_attr x a) cs then TBool BTrue else TBool BAny, [cap_attr x a])
        | Some (_, false) =>
            Some (if caps_mem (cap_attr x a) cs then TBool BTrue else TBool BAny, [cap_attr x a])
        | None => Some (if may_have_attr sch tx a then TBool BAny else TBool BFalse, [])
        end
    end.
  Proof. reflexivity. Qed.

  Lemma tc_and m cs a b : tc m sch env cs (And a b) =
    match expect (tc m sch env cs a) [TBool BAny] with
    | None => None
    | Some (ta, ca) =>
        match ta with
        | TBool BFalse => Some (ta, [])
        | _ =>
            match expect (tc m sch env (caps_union cs ca) b) [TBool BAny] with
            | None => None
            | Some (tb, cb) =>
                match tb with
                | TBool BFalse => Some (TBool BFalse, [])
                | TBool BTrue => Some (ta, caps_union ca cb)
                | _ => match ta with
                       | TBool BTrue => Some (tb, caps_union cb cb)
                       | _ => Some (TBool BAny, caps_union ca cb)
                       end
                end
            end
        end
    end.
  Proof. reflexivity. Qed.

  Lemma tc_or m cs a b : tc m sch env cs (Or a b) =
    match expect (tc m sch env cs a) [TBool BAny] with
    | None => None
    | Some (ta, ca) =>
        match ta with
        | TBool BTrue => Some (ta, ca)
        | _ =>
            match expect (tc m sch env cs b) [TBool BAny] with
            | None => None
            | Some (tb, cb) =>
                match tb with
                | TBool BTrue => Some (TBool BTrue, cb)
                | TBool BFalse => Some (ta, ca)
                | _ => match ta with
                       | TBool BFalse => Some (tb, cb)
                       | _ => Some (TBool BAny, caps_inter cb ca)
                       end
                end
            end
        end
    end.
  Proof. reflexivity. Qed.

  Lemma tc_if m cs c x y : tc m sch env cs (If c x y) =
    match expect (tc m sch env cs c) [TBool BAny] with
    | None => None
    | Some (tcnd, ccnd) =>
        match tcnd with
        | TBool BTrue =>
            match tc m sch env (caps_union cs ccnd) x with
            | Some (tx, cx) => Some (tx, caps_union cx ccnd)
            | None => None
            end
        | TBool BFalse => tc m sch env cs y
        | _ =>
            match tc m sch env (caps_union cs ccnd) x, tc m sch env cs y with
            | Some (tx, cx), Some (t_y, cy) =>
                match lub m tx t_y with
                | Some t => Some (t, caps_inter cy (caps_union cx ccnd))
                | None => None
                end
            | _, _ => None
            end
        end
    end.
  Proof. reflexivity. Qed.

  Lemma tc_not m cs a : tc m sch env cs (UnApp UNot a) =
    match expect (tc m sch env cs a) [TBool BAny] with
    | Some (TBool BTrue, _) => Some (TBool BFalse, [])
    | Some (TBool BFalse, _) => Some (TBool BTrue, [])
    | Some (_, _) => Some (TBool BAny, [])
    | None => None
    end.
  Proof. reflexivity. Qed.

  Lemma access_tc cs e t : Access cs e t -> tc Strict sch env cs e = Some (t, []).
  Proof.
    induction 1.
    - cbn [tc]. rewrite H. reflexivity.
    - reflexivity.
    - reflexivity.
    - rewrite tc_getattr, IHAccess. unfold expect. unfold er in H0. rewrite H0. cbv beta iota. rewrite H1.
      destruct H2 as [->|Hm]; [reflexivity|]. rewrite Hm, orb_true_r. reflexivity.
  Qed.

  Lemma expect_bool_ok x c : expect (Some (TBool x, c)) [TBool BAny] = Some (TBool x, c).
  Proof. destruct x; reflexivity. Qed.

  Lemma has_tc cs p tp a :
    tc Strict sch env cs p = Some (tp, []) -> er tp = true ->
    exists xg cg, tc Strict sch env cs (HasAttr p a) = Some (TBool xg, cg) /\
      (forall t r, lookup_attr_ty sch tp a = Some (t, r) -> cg = [cap_attr p a] /\ xg <> BFalse).
  Proof.
    intros Hp He. rewrite tc_hasattr, Hp. unfold expect. unfold er in He. rewrite He. cbv beta iota.
    destruct (lookup_attr_ty sch tp a) as [[t [|]]|].
    - cbv zeta. destruct (_ || _); eexists _, _; (split; [reflexivity|]); intros ? ? _; (split; [reflexivity|discriminate]).
    - destruct (caps_mem _ _); eexists _, _; (split; [reflexivity|]); intros ? ? _; (split; [reflexivity|discriminate]).
    - destruct (may_have_attr _ _ _); eexists _, _; (split; [reflexivity|]); intros ? ? Habs; discriminate Habs.
  Qed.

  Lemma lub_of_subty m a b : subty m a b = true -> lub m a b = Some b.
  Proof. intros H. destruct a; cbn [lub]; rewrite H; reflexivity. Qed.

  Lemma lub_eqb_single n : lub_eqb [n] [n] = true.
  Proof.
    assert (H : forallb (lub_contains [n]) [n] = true).
    { apply forallb_forall. intros x [<-|[]]. apply lub_contains_In. left. reflexivity. }
    unfold lub_eqb. rewrite H. reflexivity.
  Qed.

  Lemma scalar_refl t : scalar t = true -> lub Strict t t = Some t.
  Proof.
    intros Hs. apply lub_of_subty.
    destruct t as [| | | | |[|[|n [|]]]| |]; cbn [scalar] in Hs; try discriminate Hs.
    - destruct b; reflexivity.
    - reflexivity.
    - reflexivity.
    - cbn [subty entkind_sub is_strict]. apply lub_eqb_single.
    - cbn [subty]. apply name_eqb_refl.
  Qed.

  Theorem simple_accepted cs e : Simple cs e -> exists x c, tc Strict sch env cs e = Some (TBool x, c).
  Proof.
    induction 1.
    - destruct b; eexists _, _; reflexivity.
    - (* == *)
      cbn [tc]. rewrite (access_tc _ _ _ H), (access_tc _ _ _ H0). cbv beta iota zeta. cbn [is_strict].
      assert (Hok : forall ann, strict_eq_ok Strict ann t t = true).
      { intros ann. unfold strict_eq_ok. rewrite (scalar_refl _ H1). destruct ann as [|[| |]| | | | | |]; reflexivity. }
      rewrite Hok. unfold type_of_equality. destruct (disjoint_tys t t); [eexists _, _; reflexivity|].
      destruct (replace_action env a); try (eexists _, _; reflexivity).
      destruct (replace_action env b); try (eexists _, _; reflexivity).
    - (* < *)
      cbn [tc]. rewrite (access_tc _ _ _ H), (access_tc _ _ _ H0). eexists _, _; reflexivity.
    - (* has *)
      destruct (has_tc cs p tp a (access_tc _ _ _ H) H0) as (xg & cg & Hh & _). eauto.
    - (* ! *)
      destruct IHSimple as (x & c & Hx). rewrite tc_not, Hx, expect_bool_ok. destruct x; eexists _, _; reflexivity.
    - (* || *)
      destruct IHSimple1 as (xa & ca & Ha). destruct IHSimple2 as (xb & cb & Hb).
      rewrite tc_or, Ha, expect_bool_ok. cbv beta iota. destruct xa; try (eexists _, _; reflexivity);
        rewrite Hb, expect_bool_ok; cbv beta iota; destruct xb; eexists _, _; reflexivity.
    - (* e has a && body *)
      destruct (has_tc cs p tp a (access_tc _ _ _ H) H0) as (xg & cg & Hh & Hdecl).
      destruct (Hdecl _ _ H1) as [-> Hnf]. destruct IHSimple as (xe & ce & He).
      rewrite tc_and, Hh, expect_bool_ok. cbv beta iota. change (caps_union cs [cap_attr p a]) with (cs ++ [cap_attr p a]).
      destruct xg; try (exfalso; apply Hnf; reflexivity);
        rewrite He, expect_bool_ok; cbv beta iota; destruct xe; eexists _, _; reflexivity.
    - (* if e has a then .. else .. *)
      destruct (has_tc cs p tp a (access_tc _ _ _ H) H0) as (xg & cg & Hh & Hdecl).
      destruct (Hdecl _ _ H1) as [-> Hnf].
      destruct IHSimple1 as (x1 & c1 & H1'). destruct IHSimple2 as (x2 & c2 & H2').
      rewrite tc_if, Hh, expect_bool_ok. cbv beta iota.
      change (caps_union cs [cap_attr p a]) with (cs ++ [cap_attr p a]).
      destruct xg; try (exfalso; apply Hnf; reflexivity).
      + rewrite H1', H2'. destruct x1; destruct x2; cbn; eexists _, _; reflexivity.
      + rewrite H1'. eexists _, _; reflexivity.
  Qed.
End Simple.
