(* ExtCivilProofs.v — C07: days_from_civil is strictly monotone on valid dates *)
From Coq Require Import Lia ZArith NArith List Bool.
From Cedar Require Import ExtParse ExtParseProofs.
Open Scope Z_scope.

Lemma ite_mono k c m m' : m <= m' -> 0 <= c ->
  (if k <? m then c else 0) <= (if k <? m' then c else 0).
Proof. intros. destruct (Z.ltb_spec k m), (Z.ltb_spec k m'); lia. Qed.

Lemma dbm_mono_le y m m' : m <= m' -> days_before_month y m <= days_before_month y m'.
Proof.
  intros H. unfold days_before_month.
  pose proof (ite_mono 1 31 m m' H ltac:(lia)). pose proof (ite_mono 3 31 m m' H ltac:(lia)).
  pose proof (ite_mono 4 30 m m' H ltac:(lia)). pose proof (ite_mono 5 31 m m' H ltac:(lia)).
  pose proof (ite_mono 6 30 m m' H ltac:(lia)). pose proof (ite_mono 7 31 m m' H ltac:(lia)).
  pose proof (ite_mono 8 31 m m' H ltac:(lia)). pose proof (ite_mono 9 30 m m' H ltac:(lia)).
  pose proof (ite_mono 10 31 m m' H ltac:(lia)). pose proof (ite_mono 11 30 m m' H ltac:(lia)).
  pose proof (ite_mono 2 (if is_leap y then 29 else 28) m m' H ltac:(destruct (is_leap y); lia)).
  lia.
Qed.

Lemma dbm_step y m : 1 <= m <= 12 ->
  days_before_month y m + days_in_month y m =
  if m =? 12 then (if is_leap y then 366 else 365) else days_before_month y (m + 1).
Proof.
  intros H.
  assert (C : m = 1 \/ m = 2 \/ m = 3 \/ m = 4 \/ m = 5 \/ m = 6 \/ m = 7 \/ m = 8 \/ m = 9 \/ m = 10 \/ m = 11 \/ m = 12) by lia.
  repeat destruct C as [C|C]; subst m; unfold days_before_month, days_in_month; destruct (is_leap y); reflexivity.
Qed.

Lemma dbm_1 y : days_before_month y 1 = 0.
Proof. reflexivity. Qed.

Lemma dbm_year y m : 1 <= m <= 12 ->
  0 <= days_before_month y m /\
  days_before_month y m + days_in_month y m <= (if is_leap y then 366 else 365).
Proof.
  intros H. split.
  - rewrite <- (dbm_1 y). apply dbm_mono_le. lia.
  - pose proof (dbm_step y m H) as S. destruct (m =? 12) eqn:E; [lia|].
    apply Z.eqb_neq in E. rewrite S.
    pose proof (dbm_mono_le y (m + 1) 12 ltac:(lia)).
    pose proof (dbm_step y 12 ltac:(lia)) as S12. cbn [Z.eqb Pos.eqb] in S12.
    assert (days_in_month y 12 = 31) by reflexivity. lia.
Qed.

Lemma dby_mono y y' : 0 <= y -> y <= y' -> days_before_year y <= days_before_year y'.
Proof. intros H1 H2. unfold days_before_year. Z.div_mod_to_equations. lia. Qed.

Theorem days_from_civil_monotone y m d y' m' d' :
  0 <= y -> valid_ymd y m d = true -> valid_ymd y' m' d' = true ->
  (y < y' \/ (y = y' /\ (m < m' \/ (m = m' /\ d < d')))) ->
  days_from_civil y m d < days_from_civil y' m' d'.
Proof.
  intros Hy V V' L. unfold valid_ymd in V, V'. repeat rewrite andb_true_iff in V, V'.
  destruct V as [[[M1 M2] D1] D2]. destruct V' as [[[M1' M2'] D1'] D2'].
  apply Z.leb_le in M1, M2, D1, D2, M1', M2', D1', D2'.
  unfold days_from_civil.
  pose proof (dbm_year y m ltac:(lia)) as [B1 B2]. pose proof (dbm_year y' m' ltac:(lia)) as [B1' B2'].
  destruct L as [L|[-> [L|[-> L]]]].
  - pose proof (days_before_year_succ y Hy) as S. pose proof (dby_mono (y + 1) y' ltac:(lia) ltac:(lia)).
    destruct (is_leap y); lia.
  - pose proof (dbm_step y' m ltac:(lia)) as S. destruct (m =? 12) eqn:E; [apply Z.eqb_eq in E; lia|].
    pose proof (dbm_mono_le y' (m + 1) m' ltac:(lia)). lia.
  - lia.
Qed.

(* hence the day number determines the date: a left inverse exists and is unique *)
Theorem days_from_civil_injective y m d y' m' d' :
  0 <= y -> 0 <= y' -> valid_ymd y m d = true -> valid_ymd y' m' d' = true ->
  days_from_civil y m d = days_from_civil y' m' d' -> y = y' /\ m = m' /\ d = d'.
Proof.
  intros Hy Hy' V V' E.
  destruct (Z.lt_trichotomy y y') as [L|[->|L]].
  - pose proof (days_from_civil_monotone y m d y' m' d' Hy V V' (or_introl L)). lia.
  - destruct (Z.lt_trichotomy m m') as [Lm|[->|Lm]].
    + pose proof (days_from_civil_monotone y' m d y' m' d' Hy V V' (or_intror (conj eq_refl (or_introl Lm)))). lia.
    + destruct (Z.lt_trichotomy d d') as [Ld|[->|Ld]]; [|auto|].
      * pose proof (days_from_civil_monotone y' m' d y' m' d' Hy V V' (or_intror (conj eq_refl (or_intror (conj eq_refl Ld))))). lia.
      * pose proof (days_from_civil_monotone y' m' d' y' m' d Hy V' V (or_intror (conj eq_refl (or_intror (conj eq_refl Ld))))). lia.
    + pose proof (days_from_civil_monotone y' m' d' y' m d Hy V' V (or_intror (conj eq_refl (or_introl Lm)))). lia.
  - pose proof (days_from_civil_monotone y' m' d' y m d Hy' V' V (or_introl L)). lia.
Qed.
