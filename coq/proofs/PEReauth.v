(* PEReauth.v — reauthorize: in concrete mode (concrete request, concrete store, every unknown
   mapped) peval never leaves a residual (property C13). *)
From Coq Require Import Lia.
From Cedar Require Import PE ValueProofs PEProofs PESound.

Definition is_concrete (p : pres) : Prop := match p with PV _ | PErr _ => True | _ => False end.

Lemma conc_of_res r : is_concrete (of_res r).
Proof. destruct r; exact I. Qed.

Section Concrete.
  Variable mu : mapper.
  Variable sl : slotenv.
  Variable q : request.
  Variable es : entities.
  Notation pe := (peval mu sl (embed_request q) (embed_entities es)).
  Notation wt := (wt_expr mu).

  Lemma find_embed u :
    find_pentity u (embed_entities es) =
    option_map (fun d => mkPEdata (map (fun kv => (fst kv, PVal (snd kv))) (eattrs d)) (etags d) (eancestors d))
               (find_entity u es).
  Proof.
    unfold embed_entities. induction es as [|[u' d] l IH]; [reflexivity|].
    cbn [map find_entity find_pentity fst snd]. destruct (uid_eqb u u'); [reflexivity | exact IH].
  Qed.

  Lemma lookup_embed a (l : list (str * value)) :
    lookup a (map (fun kv => (fst kv, PVal (snd kv))) l) = option_map PVal (lookup a l).
  Proof.
    induction l as [|[k v] l IH]; [reflexivity|]. cbn [map lookup fst snd]. destruct (str_eqb a k); [reflexivity | exact IH].
  Qed.

  Lemma pmapM_concrete f items :
    Forall (fun x => is_concrete (f x)) items ->
    match pmapM f items with
    | PLOk l => exists vs, all_vals l = Some vs
    | PLErr _ => True
    | PLOut => False
    end.
  Proof.
    induction 1 as [|x l Hx Hl IH]; [cbn; eauto|]. cbn [pmapM].
    destruct (f x); cbn in Hx; try contradiction; [|exact I].
    destruct (pmapM f l); auto. destruct IH as [vs E]. cbn [all_vals]. rewrite E. eauto.
  Qed.

  Lemma finish_concrete pl mkv mke :
    match pl with PLOk l => exists vs, all_vals l = Some vs | PLErr _ => True | PLOut => False end ->
    (forall vs, is_concrete (mkv vs)) -> is_concrete (finish pl mkv mke).
  Proof.
    intros H Hv. unfold finish. destruct pl; [|exact I|contradiction]. destruct H as [vs E]. rewrite E. apply Hv.
  Qed.

  Lemma Forall_wt' (P : expr -> Prop) l :
    Forall (fun x => wt x = true -> P x) l -> forallb wt l = true -> Forall P l.
  Proof.
    induction 1 as [|x l Hx Hl IH]; intros W; constructor; cbn [forallb] in W; apply andb_prop in W; destruct W; auto.
  Qed.

  Theorem peval_concrete e : wt e = true -> is_concrete (pe e).
  Proof.
    induction e using expr_ind'; intros W.
    - exact I.
    - destruct v; exact I.
    - cbn [peval]. destruct (slot_lookup s sl); exact I.
    - cbn [peval wt_expr] in *. unfold unknown_to_pv. destruct (mu n) as [v|]; [|discriminate].
      destruct ty as [t|]; [destruct (rtype_eqb (type_of v) t)|]; exact I.
    - cbn [wt_expr] in W. apply andb_prop in W. destruct W as [W W3]. apply andb_prop in W. destruct W as [W1 W2].
      specialize (IHe1 W1). specialize (IHe2 W2). specialize (IHe3 W3). cbn [peval].
      destruct (pe e1); cbn in IHe1; try contradiction; [|exact I].
      destruct (as_bool v) as [[|]|]; auto; exact I.
    - cbn [wt_expr] in W. apply andb_prop in W. destruct W as [W1 W2].
      specialize (IHe1 W1). specialize (IHe2 W2). cbn [peval].
      destruct (pe e1); cbn in IHe1; try contradiction; [|exact I].
      destruct (as_bool v) as [[|]|]; try exact I.
      destruct (pe e2); cbn in IHe2; try contradiction; [|exact I]. destruct (as_bool v0); exact I.
    - cbn [wt_expr] in W. apply andb_prop in W. destruct W as [W1 W2].
      specialize (IHe1 W1). specialize (IHe2 W2). cbn [peval].
      destruct (pe e1); cbn in IHe1; try contradiction; [|exact I].
      destruct (as_bool v) as [[|]|]; try exact I.
      destruct (pe e2); cbn in IHe2; try contradiction; [|exact I]. destruct (as_bool v0); exact I.
    - specialize (IHe W). cbn [peval]. destruct (pe e); cbn in IHe; try contradiction; [apply conc_of_res | exact I].
    - cbn [wt_expr] in W. apply andb_prop in W. destruct W as [W1 W2].
      specialize (IHe1 W1). specialize (IHe2 W2). cbn [peval].
      destruct (pe e1); cbn in IHe1; try contradiction; destruct (pe e2); cbn in IHe2; try contradiction;
        try exact I. apply conc_of_res.
    - cbn [peval]. apply finish_concrete; [|intros; apply conc_of_res].
      apply pmapM_concrete. rewrite wt_ext in W. apply Forall_wt'; assumption.
    - specialize (IHe W). cbn [peval]. destruct (pe e) as [v| | |]; cbn in IHe; try contradiction; [|exact I].
      destruct v as [[| | |u]|l|l|]; try exact I.
      + rewrite find_embed. destruct (find_entity u es) as [d|]; [|exact I]. cbn [option_map pattrs].
        rewrite lookup_embed. destruct (lookup a (eattrs d)); exact I.
      + destruct (lookup a l); exact I.
    - specialize (IHe W). cbn [peval]. destruct (pe e) as [v| | |]; cbn in IHe; try contradiction; [|exact I].
      destruct v as [[| | |u]|l|l|]; try exact I.
      rewrite find_embed. destruct (find_entity u es); exact I.
    - specialize (IHe W). cbn [peval]. destruct (pe e); cbn in IHe; try contradiction; [|exact I].
      destruct (as_string v); exact I.
    - specialize (IHe W). cbn [peval]. destruct (pe e); cbn in IHe; try contradiction; [|exact I].
      destruct (as_entity v); exact I.
    - cbn [peval]. apply finish_concrete; [|intros; exact I].
      apply pmapM_concrete. rewrite wt_set in W. apply Forall_wt'; assumption.
    - cbn [peval]. apply finish_concrete; [|intros; exact I].
      rewrite pmapM_rec_map. apply pmapM_concrete. rewrite wt_record in W. apply Forall_wt'; assumption.
  Qed.
End Concrete.

(* ---- the second phase of reauthorize, policy by policy ---- *)
Section Reauth.
  Variable sg : mapper.
  Variable q : request.
  Variable es : entities.
  Notation ev := (eval [] q es).
  Notation S := (subst sg).

  Lemma embed_var sl v : sound_pres sg sl q es (peval_var (embed_request q) v) (Var v).
  Proof. destruct v; reflexivity. Qed.

  Lemma embed_store sl : store_complete sg sl (embed_entities es) q es.
  Proof.
    intros u. rewrite find_embed. destruct (find_entity u es) as [d|]; cbn [option_map]; [|reflexivity].
    exists d. split; [reflexivity|]. split; [reflexivity|]. split; [reflexivity|].
    intros k. cbn [pattrs]. rewrite lookup_embed. destruct (lookup k (eattrs d)); reflexivity.
  Qed.

  Lemma no_mapping_sub : forall n v, no_mapping n = Some v -> sg n = Some v.
  Proof. intros n v E. discriminate E. Qed.

  Definition boolify (c : res value) : res value := do v <- c; do y <- as_bool v; Ok (VBool y).

  Lemma boolify_idem c : boolify (boolify c) = boolify c.
  Proof. destruct c as [v|]; [|reflexivity]. cbn. destruct (as_bool v); reflexivity. Qed.

  Lemma wrap_eval x : ev (S (mk_and T x)) = boolify (ev (S x)).
  Proof. rewrite (subst_mk_and sg [] q es). reflexivity. Qed.

  Lemma wrap_wt x : wt_expr sg (mk_and T x) = wt_expr sg x.
  Proof. rewrite wt_mk_and. reflexivity. Qed.

  (* the outcome reauthorize records for one policy of the partial response, given the status st
     recorded in the first phase *)
  Definition reauth_status (st : pstatus) : pstatus :=
    match residual_condition st with
    | Some c => status_of_pres (peval sg [] (embed_request q) (embed_entities es) c)
    | None => SOut
    end.

  Theorem reauth_policy_sound pq pes p :
    (forall sl v, sound_pres sg sl q es (peval_var pq v) (Var v)) ->
    (forall sl, store_complete sg sl pes q es) ->
    penv p = [] ->
    wt_expr sg (pcondition p) = true ->
    peval_policy no_mapping [] pq pes p <> SOut ->
    match reauth_status (peval_policy no_mapping [] pq pes p) with
    | SSat => eval_policy_subst sg q es p = Ok true
    | SFalse | SErr _ => eval_policy_subst sg q es p <> Ok true
    | SRes _ | SOut => False
    end.
  Proof.
    intros Hv Hs Henv W N.
    pose proof (peval_sound sg no_mapping [] pq pes q es no_mapping_sub (Hv []) (Hs []) (pcondition p) W) as H1.
    unfold eval_policy_subst. rewrite Henv. unfold peval_policy, sound_pres in *.
    destruct (peval no_mapping [] pq pes (pcondition p)) as [v|r|e|]; cbn [sound_res] in H1.
    - rewrite H1. cbn [bind]. destruct (as_bool v) as [[|]|]; vm_compute; congruence.
    - destruct H1 as [A Wr]. unfold reauth_status. cbn [residual_condition].
      set (c := mk_and T (mk_and T (mk_and T r))).
      assert (Wc : wt_expr sg c = true) by (unfold c; rewrite !wrap_wt; exact Wr).
      assert (Ec : ev (S c) = boolify (ev (S r))) by (unfold c; rewrite !wrap_eval, !boolify_idem; reflexivity).
      pose proof (peval_sound sg sg [] (embed_request q) (embed_entities es) q es (fun n v E => E)
                              (embed_var []) (embed_store []) c Wc) as H2.
      pose proof (peval_concrete sg [] q es c Wc) as NR.
      unfold sound_pres in H2. rewrite Ec in H2.
      destruct (peval sg [] (embed_request q) (embed_entities es) c) as [v| |e|]; cbn in NR; try contradiction;
        cbn [sound_res status_of_pres] in *.
      + (* a value: it is the boolean the condition has from scratch *)
        unfold boolify in H2. destruct (ev (S r)) as [v'|] eqn:Er; cbn [bind] in H2; [|discriminate].
        apply agree_sym, agree_ok_r in A. rewrite A. cbn [bind].
        destruct (as_bool v') as [b|]; cbn [bind] in H2; [|discriminate]. inversion H2; subst v.
        destruct b; cbn; congruence.
      + destruct H2 as [x H2]. unfold boolify in H2. destruct (ev (S r)) as [v'|] eqn:Er.
        * apply agree_sym, agree_ok_r in A. rewrite A. cbn [bind] in *. destruct (as_bool v'); [discriminate|]. congruence.
        * apply agree_sym, agree_err_r in A. destruct A as [y A]. rewrite A. cbn. congruence.
    - destruct H1 as [x H1]. rewrite H1. vm_compute. congruence.
    - congruence.
  Qed.
End Reauth.
