(* ExtIpParseProofs.v — C07: soundness of the ip parser for IPv4 results (dotted quad without
   leading zeros, optional /prefix 0..32 without leading zeros), and well-formedness of the value *)
From Coq Require Import Lia ZArith NArith List Bool.
From Cedar Require Import ExtParse ExtParseProofs ExtIpProofs.
Import ListNotations.
Open Scope list_scope.
Open Scope Z_scope.

Definition dec_N (s : str) : N := digits_N 10 (fun c => c - 48)%N s.

(* 1..maxlen ASCII digits, no leading zero unless the string is "0", value <= maxv *)
Definition dec_field (maxlen : nat) (maxv : N) (O : str) (o : N) : Prop :=
  all_ascii_digits O = true /\ (1 <= length O <= maxlen)%nat /\
  (forall c t, O <> 48%N :: c :: t) /\ o = dec_N O /\ (o <= maxv)%N.

Lemma read_dec_u8_sound s v r :
  read_dec_u8 s = Some (v, r) -> exists ds, s = ds ++ r /\ dec_field 3 255 ds v.
Proof.
  unfold read_dec_u8, read_number. destruct (span is_ascii_digit s) as [ds r0] eqn:S.
  apply span_spec in S. destruct S as (E & F & _).
  destruct (Nat.ltb 3 (length ds)) eqn:L; [discriminate|]. apply Nat.ltb_ge in L.
  destruct ds as [|c ds']; [discriminate|].
  destruct (negb false && N.eqb c 48 && Nat.ltb 1 (length (c :: ds'))) eqn:Z; [discriminate|].
  destruct (255 <? digits_N 10 (fun c0 : N => (c0 - 48)%N) (c :: ds'))%N eqn:M; [discriminate|].
  apply N.ltb_ge in M. intros H; inversion H; subst.
  exists (c :: ds'). split; [reflexivity|]. unfold dec_field, dec_N.
  rewrite all_ascii_digits_forallb. repeat split; auto.
  - cbn. lia.
  - intros c' t E. inversion E; subst. cbn in Z. discriminate.
Qed.

Lemma read_ipv4_sound s a r :
  read_ipv4 s = Some (a, r) ->
  exists O1 O2 O3 O4 o1 o2 o3 o4,
    s = O1 ++ 46%N :: O2 ++ 46%N :: O3 ++ 46%N :: O4 ++ r /\
    dec_field 3 255 O1 o1 /\ dec_field 3 255 O2 o2 /\ dec_field 3 255 O3 o3 /\ dec_field 3 255 O4 o4 /\
    a = (((o1 * 256 + o2) * 256 + o3) * 256 + o4)%N.
Proof.
  unfold read_ipv4, obind. intros H.
  destruct (read_dec_u8 s) as [[o1 r1]|] eqn:R1; [|discriminate]. cbv beta iota in H.
  destruct (expect 46 r1) as [r1'|] eqn:X1; [|discriminate]. cbv beta iota in H.
  destruct (read_dec_u8 r1') as [[o2 r2]|] eqn:R2; [|discriminate]. cbv beta iota in H.
  destruct (expect 46 r2) as [r2'|] eqn:X2; [|discriminate]. cbv beta iota in H.
  destruct (read_dec_u8 r2') as [[o3 r3]|] eqn:R3; [|discriminate]. cbv beta iota in H.
  destruct (expect 46 r3) as [r3'|] eqn:X3; [|discriminate]. cbv beta iota in H.
  destruct (read_dec_u8 r3') as [[o4 r4]|] eqn:R4; [|discriminate]. cbv beta iota in H.
  inversion H; subst.
  destruct (read_dec_u8_sound _ _ _ R1) as (O1 & E1 & F1). destruct (read_dec_u8_sound _ _ _ R2) as (O2 & E2 & F2).
  destruct (read_dec_u8_sound _ _ _ R3) as (O3 & E3 & F3). destruct (read_dec_u8_sound _ _ _ R4) as (O4 & E4 & F4).
  unfold expect in X1, X2, X3.
  destruct r1 as [|x1 t1]; [discriminate|]. destruct (N.eqb_spec x1 46); [|discriminate]. inversion X1; subst.
  destruct r2 as [|x2 t2]; [discriminate|]. destruct (N.eqb_spec x2 46); [|discriminate]. inversion X2; subst.
  destruct r3 as [|x3 t3]; [discriminate|]. destruct (N.eqb_spec x3 46); [|discriminate]. inversion X3; subst.
  exists O1, O2, O3, O4, o1, o2, o3, o4. subst.
  repeat match goal with |- _ /\ _ => split end; auto.
Qed.

Lemma std_ip_v4 s a : std_ip_from_str s = Some (false, a) -> read_ipv4 s = Some (a, []).
Proof.
  unfold std_ip_from_str. destruct (read_ipv4 s) as [[a' r]|].
  - destruct r; [|discriminate]. intros H; inversion H; reflexivity.
  - destruct (read_ipv6 s) as [[a' r]|]; [|discriminate]. destruct r; discriminate.
Qed.

Lemma split_at_char_sound c : forall s x y, split_at_char c s = Some (x, y) -> s = x ++ c :: y.
Proof.
  induction s as [|h t IH]; intros x y H; cbn in H; [discriminate|].
  destruct (N.eqb_spec h c).
  - inversion H; subst. reflexivity.
  - destruct (split_at_char c t) as [[a b]|]; [|discriminate]. inversion H; subst.
    cbn. f_equal. apply IH. reflexivity.
Qed.

Lemma parse_prefix_sound P maxp maxlen p :
  (maxp <= 255)%N ->
  parse_prefix P maxp (Z.of_nat maxlen) = Some p -> dec_field maxlen maxp P p.
Proof.
  intros Hm. unfold parse_prefix.
  destruct (Z.of_nat maxlen <? byte_len P) eqn:L; [discriminate|]. apply Z.ltb_ge in L.
  destruct (all_ascii_digits P) eqn:A; [|discriminate]. cbn [negb].
  destruct (match P with 48%N :: _ :: _ => true | _ => false end) eqn:Z; [discriminate|].
  destruct P as [|c t]; [discriminate|].
  fold (dec_N (c :: t)).
  destruct (255 <? dec_N (c :: t))%N; [discriminate|].
  destruct (maxp <? dec_N (c :: t))%N eqn:M; [discriminate|]. apply N.ltb_ge in M.
  intros H; inversion H; subst. unfold dec_field. rewrite (byte_len_ascii_digits _ A) in L.
  repeat split; auto.
  - cbn. lia.
  - lia.
  - intros c' t' E. inversion E; subst. cbn in Z. discriminate.
Qed.

Lemma quad_bound o1 o2 o3 o4 :
  (o1 <= 255 -> o2 <= 255 -> o3 <= 255 -> o4 <= 255 ->
   ((o1 * 256 + o2) * 256 + o3) * 256 + o4 < 2 ^ 32)%N.
Proof. change (2 ^ 32)%N with 4294967296%N. lia. Qed.

Theorem ip_parse_v4_sound s a :
  ip_parse s = Some a -> ip_v6 a = false ->
  exists O1 O2 O3 O4 o1 o2 o3 o4,
    dec_field 3 255 O1 o1 /\ dec_field 3 255 O2 o2 /\ dec_field 3 255 O3 o3 /\ dec_field 3 255 O4 o4 /\
    ip_addr a = (((o1 * 256 + o2) * 256 + o3) * 256 + o4)%N /\
    ((s = O1 ++ 46%N :: O2 ++ 46%N :: O3 ++ 46%N :: O4 /\ ip_prefix a = 32%N) \/
     exists P, s = (O1 ++ 46%N :: O2 ++ 46%N :: O3 ++ 46%N :: O4) ++ 47%N :: P /\
               dec_field 2 32 P (ip_prefix a)) /\
    ip_wf a.
Proof.
  unfold ip_parse. intros H V.
  destruct (43 <? byte_len s); [discriminate|].
  destruct (contains_at_least_two s 58 && contains_at_least_two s 46); [discriminate|].
  destruct (split_at_char 47%N s) as [[addr_str prefix_str]|] eqn:SP; unfold obind in H.
  - apply split_at_char_sound in SP.
    destruct (std_ip_from_str addr_str) as [[v6 ad]|] eqn:IP; [|discriminate]. cbv beta iota in H.
    destruct v6.
    { destruct (parse_prefix prefix_str 128 3); [|discriminate]. inversion H; subst. discriminate. }
    destruct (parse_prefix prefix_str 32 2) as [p|] eqn:PP; [|discriminate]. inversion H; subst. clear H.
    apply std_ip_v4 in IP. destruct (read_ipv4_sound _ _ _ IP) as (O1 & O2 & O3 & O4 & o1 & o2 & o3 & o4 & E & F1 & F2 & F3 & F4 & Ea).
    pose proof (parse_prefix_sound prefix_str 32 2 p ltac:(lia) PP) as FP.
    exists O1, O2, O3, O4, o1, o2, o3, o4. cbn [ip_addr ip_prefix ip_v6].
    repeat (split; [assumption|]). split.
    + right. exists prefix_str. rewrite app_nil_r in E. subst addr_str.
      rewrite <- !app_assoc. cbn [app]. rewrite <- !app_assoc. cbn [app]. rewrite <- !app_assoc. cbn [app]. auto.
    + unfold ip_wf. cbn [ip_addr ip_prefix ip_v6 ip_width]. subst ad.
      destruct F1 as (_ & _ & _ & _ & B1), F2 as (_ & _ & _ & _ & B2), F3 as (_ & _ & _ & _ & B3), F4 as (_ & _ & _ & _ & B4), FP as (_ & _ & _ & _ & BP).
      split; [apply quad_bound; assumption|exact BP].
  - destruct (std_ip_from_str s) as [[v6 ad]|] eqn:IP; [|discriminate]. cbv beta iota in H.
    inversion H; subst. clear H. cbn [ip_v6] in V. subst v6.
    apply std_ip_v4 in IP. destruct (read_ipv4_sound _ _ _ IP) as (O1 & O2 & O3 & O4 & o1 & o2 & o3 & o4 & E & F1 & F2 & F3 & F4 & Ea).
    exists O1, O2, O3, O4, o1, o2, o3, o4. cbn [ip_addr ip_prefix ip_v6].
    repeat (split; [assumption|]). split.
    + left. rewrite app_nil_r in E. auto.
    + unfold ip_wf. cbn [ip_addr ip_prefix ip_v6 ip_width]. subst ad.
      destruct F1 as (_ & _ & _ & _ & B1), F2 as (_ & _ & _ & _ & B2), F3 as (_ & _ & _ & _ & B3), F4 as (_ & _ & _ & _ & B4).
      split; [apply quad_bound; assumption|lia].
Qed.

(* ------------------------------------------------------------------ every parsed value is well formed *)
Open Scope N_scope.

Lemma read_hex_u16_bound s g r : read_hex_u16 s = Some (g, r) -> g < 65536.
Proof.
  unfold read_hex_u16, read_number. destruct (span is_hex_digit s) as [ds r0].
  destruct (Nat.ltb 4 (length ds)); [discriminate|]. destruct ds as [|c ds']; [discriminate|].
  destruct (negb true && N.eqb c 48 && Nat.ltb 1 (length (c :: ds'))); [discriminate|].
  destruct (65535 <? digits_N 16 hex_val (c :: ds')) eqn:M; [discriminate|]. apply N.ltb_ge in M.
  intros H; inversion H; subst. lia.
Qed.

Lemma read_ipv4_bound s a r : read_ipv4 s = Some (a, r) -> a < 2 ^ 32.
Proof.
  intros H. destruct (read_ipv4_sound _ _ _ H) as (O1 & O2 & O3 & O4 & o1 & o2 & o3 & o4 & _ & F1 & F2 & F3 & F4 & ->).
  destruct F1 as (_ & _ & _ & _ & B1), F2 as (_ & _ & _ & _ & B2), F3 as (_ & _ & _ & _ & B3), F4 as (_ & _ & _ & _ & B4).
  apply quad_bound; assumption.
Qed.

Lemma v4_groups_bound a : a < 2 ^ 32 -> N.shiftr a 16 < 65536 /\ N.land a 65535 < 65536.
Proof.
  intros H. split.
  - rewrite N.shiftr_div_pow2. apply N.div_lt_upper_bound; [discriminate|]. change (2 ^ 16 * 65536) with (2 ^ 32). exact H.
  - change 65535 with (N.ones 16). rewrite N.land_ones. apply N.mod_lt. discriminate.
Qed.

Lemma read_groups_bound : forall left first s gs r v4,
  read_groups left first s = (gs, r, v4) ->
  Forall (fun g => g < 65536) gs /\ (length gs <= left)%nat.
Proof.
  induction left as [|k IH]; intros first s gs r v4 H; cbn [read_groups] in H.
  - inversion H; subst. split; [apply Forall_nil|cbn; lia].
  - set (after_sep := if first then Some s else expect 58 s) in *.
    destruct (match k with O => None | S _ => obind after_sep (fun r0 => read_ipv4 r0) end) as [[a r1]|] eqn:V4.
    + inversion H; subst. destruct k as [|k']; [discriminate|].
      unfold obind in V4. destruct after_sep as [r0|]; [|discriminate].
      apply read_ipv4_bound in V4. split; [|cbn; lia].
      apply Forall_cons; [|apply Forall_cons; [|apply Forall_nil]].
      * exact (proj1 (v4_groups_bound a V4)).
      * exact (proj2 (v4_groups_bound a V4)).
    + destruct (obind after_sep (fun r0 => read_hex_u16 r0)) as [[g r1]|] eqn:HX.
      * destruct (read_groups k false r1) as [[gs' r'] v4'] eqn:RG. inversion H; subst.
        destruct (IH _ _ _ _ _ RG) as [F L]. unfold obind in HX. destruct after_sep as [r0|]; [|discriminate].
        apply read_hex_u16_bound in HX. split; [apply Forall_cons; assumption|cbn; lia].
      * inversion H; subst. split; [apply Forall_nil|cbn; lia].
Qed.

Lemma fold_groups_bound : forall gs acc B,
  Forall (fun g => g < 65536) gs -> acc < B ->
  fold_left (fun a g => a * 65536 + g) gs acc < B * 65536 ^ N.of_nat (length gs).
Proof.
  induction gs as [|g gs IH]; intros acc B F Hacc.
  - cbn. lia.
  - inversion F; subst. cbn [fold_left length]. rewrite Nat2N.inj_succ, N.pow_succ_r'.
    replace (B * (65536 * 65536 ^ N.of_nat (length gs))) with ((B * 65536) * 65536 ^ N.of_nat (length gs)) by lia.
    apply IH; [assumption|lia].
Qed.

Lemma groups_val_bound gs : Forall (fun g => g < 65536) gs -> length gs = 8%nat -> groups_val gs < 2 ^ 128.
Proof.
  intros F L. unfold groups_val. pose proof (fold_groups_bound gs 0 1 F ltac:(lia)) as B.
  rewrite L in B. change (1 * 65536 ^ N.of_nat 8) with (2 ^ 128) in B. exact B.
Qed.

(* read_ipv6_bound / ip_parse_wf (every parsed IPv6 value is well formed) were attempted and are
   not finished; ip_wf stays a hypothesis of the range theorems for IPv6 values. *)
