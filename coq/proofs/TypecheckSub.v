(* TypecheckSub.v — C03: soundness of the subtype relation of types.rs over all types (nested induction):
   a value that inhabits a type inhabits every (well-formed) supertype, in both validation modes. *)
From Cedar Require Import Typecheck ValueProofs ConformProofs ExprEq TypecheckProofs TypecheckProofs2 TypecheckProofs3.

Section TyInd.
  Variable P : ty -> Prop.
  Hypothesis HNever : P TNever.
  Hypothesis HBool : forall b, P (TBool b).
  Hypothesis HLong : P TLong.
  Hypothesis HString : P TString.
  Hypothesis HSetNone : P (TSet None).
  Hypothesis HSetSome : forall e, P e -> P (TSet (Some e)).
  Hypothesis HEnt : forall k, P (TEntity k).
  Hypothesis HRec : forall attrs o, Forall (fun a : str * (ty * bool) => P (fst (snd a))) attrs -> P (TRecord attrs o).
  Hypothesis HExt : forall n, P (TExt n).

  Fixpoint ty_ind' (t : ty) : P t :=
    match t with
    | TNever => HNever
    | TBool b => HBool b
    | TLong => HLong
    | TString => HString
    | TSet None => HSetNone
    | TSet (Some e) => HSetSome e (ty_ind' e)
    | TEntity k => HEnt k
    | TRecord attrs o =>
        HRec attrs o
          ((fix go (l : attrs_ty) : Forall (fun a : str * (ty * bool) => P (fst (snd a))) l :=
              match l with
              | [] => Forall_nil _
              | (k, (t', r)) :: l' => Forall_cons (k, (t', r)) (ty_ind' t') (go l')
              end) attrs)
    | TExt n => HExt n
    end.
End TyInd.

(* the attribute loop of Attributes::is_subtype as a named function (the same fix as inside `subty`) *)
Fixpoint attrs_sub_go (m : vmode) (ys : attrs_ty) (l : attrs_ty) : bool :=
  match l with
  | [] => true
  | (k, (tx, rx)) :: l' =>
      match lookup k ys with
      | Some (t_y, ry) => (if is_strict m then Bool.eqb rx ry else rx || negb ry) && subty m tx t_y
      | None => true
      end && attrs_sub_go m ys l'
  end.

Lemma subty_record m xs ox ys oy :
  subty m (TRecord xs ox) (TRecord ys oy) =
  (negb ox || oy) &&
  ((oy && negb (is_strict m) && (keys_subset ys xs && attrs_sub_go m ys xs)) ||
   (keys_subset xs ys && (keys_subset ys xs && attrs_sub_go m ys xs))).
Proof.
  cbn [subty].
  assert (E : forall l, (fix go (l : attrs_ty) : bool :=
            match l with
            | [] => true
            | (k, (tx, rx)) :: l' =>
                match lookup k ys with
                | Some (t_y, ry) => (if is_strict m then Bool.eqb rx ry else rx || negb ry) && subty m tx t_y
                | None => true
                end && go l'
            end) l = attrs_sub_go m ys l).
  { induction l as [|[k [tx rx]] l IH]; [reflexivity|]. cbn [attrs_sub_go]. rewrite <- IH. reflexivity. }
  rewrite !E. reflexivity.
Qed.

Lemma attrs_sub_go_spec m ys l :
  attrs_sub_go m ys l = true ->
  forall k tx rx, In (k, (tx, rx)) l ->
  forall t_y ry, lookup k ys = Some (t_y, ry) ->
  (if is_strict m then Bool.eqb rx ry else rx || negb ry) = true /\ subty m tx t_y = true.
Proof.
  induction l as [|[k0 [tx0 rx0]] l IH]; cbn [attrs_sub_go]; intros H k tx rx Hin t_y ry Hl; [destruct Hin|].
  apply andb_prop in H. destruct H as [H1 H2]. destruct Hin as [Heq|Hin].
  - inversion Heq; subst. rewrite Hl in H1. apply andb_prop in H1. exact H1.
  - eapply IH; eauto.
Qed.

Lemma keys_subset_has {A B} (xs : list (str * A)) (ys : list (str * B)) k v :
  keys_subset xs ys = true -> In (k, v) xs -> has_key k ys = true.
Proof.
  unfold keys_subset. intros H Hin. rewrite forallb_forall in H. exact (H _ Hin).
Qed.

Lemma wf_record_attr attrs o k t r : wf_ty (TRecord attrs o) = true -> In (k, (t, r)) attrs -> wf_ty t = true.
Proof.
  rewrite wf_ty_record. intros H Hin. apply andb_prop in H. destruct H as [_ H].
  rewrite forallb_forall in H. exact (H _ Hin).
Qed.

Lemma wf_record_nodup attrs o : wf_ty (TRecord attrs o) = true -> keys_nodup attrs = true.
Proof. rewrite wf_ty_record. intros H. apply andb_prop in H. exact (proj1 H). Qed.

Lemma conf_set_inv v e : TypeConforms v (TSet (Some e)) -> exists l, v = VSet l /\ forall x, In x l -> TypeConforms x e.
Proof. intros H; inversion H; subst; eauto. Qed.

Theorem subty_sound a :
  forall m b v, wf_ty b = true -> subty m a b = true -> TypeConforms v a -> TypeConforms v b.
Proof.
  induction a using ty_ind'; intros m b0 v Hwf Hs Hv.
  - exfalso. eapply conf_never; eauto.
  - cbn [subty] in Hs. destruct b0 as [|y| | | | | |]; try discriminate Hs.
    destruct (conf_bool _ _ Hv) as (bv & -> & Hb). apply conf_vbool.
    destruct b; destruct y; cbn in Hs; try discriminate Hs; auto.
  - cbn [subty] in Hs. destruct b0; try discriminate Hs. exact Hv.
  - cbn [subty] in Hs. destruct b0; try discriminate Hs. exact Hv.
  - cbn [subty] in Hs. destruct b0 as [| | | |[e|]| | |]; try discriminate Hs. inversion Hv; subst. constructor.
  - cbn [subty] in Hs. destruct b0 as [| | | |[e'|]| | |]; try discriminate Hs.
    + destruct (conf_set_inv _ _ Hv) as (l & -> & Hall). constructor. intros x Hx.
      apply (IHa m e' x); [exact Hwf|exact Hs|exact (Hall _ Hx)].
    + destruct (conf_set_inv _ _ Hv) as (l & -> & Hall). constructor.
  - cbn [subty] in Hs. destruct b0 as [| | | | |k'| |]; try discriminate Hs.
    destruct k as [|x]; destruct k' as [|y]; cbn [entkind_sub] in Hs; try discriminate Hs.
    + exact Hv.
    + inversion Hv; subst. constructor.
    + inversion Hv; subst. constructor.
      assert (Hf : forallb (lub_contains y) x = true).
      { destruct (is_strict m); [unfold lub_eqb in Hs; apply andb_prop in Hs; exact (proj1 Hs)|exact Hs]. }
      rewrite forallb_forall in Hf. apply lub_contains_In. apply Hf. assumption.
  - destruct b0 as [| | | | | |ys oy|]; try (cbn [subty] in Hs; discriminate Hs).
    rewrite subty_record in Hs. apply andb_prop in Hs. destruct Hs as [Hopen Hs].
    assert (Hsub : keys_subset ys attrs = true /\ attrs_sub_go m ys attrs = true /\ (oy = false -> keys_subset attrs ys = true)).
    { apply orb_prop in Hs. destruct Hs as [Hs|Hs].
      - apply andb_prop in Hs. destruct Hs as [Hs1 Hs2]. apply andb_prop in Hs2. destruct Hs2 as [K G].
        apply andb_prop in Hs1. destruct Hs1 as [Hoy _]. split; [exact K|]. split; [exact G|].
        intros ->. discriminate Hoy.
      - apply andb_prop in Hs. destruct Hs as [K' Hs2]. apply andb_prop in Hs2. destruct Hs2 as [K G]. auto. }
    destruct Hsub as (K & G & Kc).
    destruct (conf_record_value _ _ _ Hv) as [kvs ->]. destruct (rec_inv _ _ _ Hv) as (R1 & R2 & R3).
    pose proof (wf_record_nodup _ _ Hwf) as Hnd.
    apply TC_record.
    + intros k t Hin.
      pose proof (nodup_In_lookup _ _ _ Hnd Hin) as Hl.
      pose proof (keys_subset_has _ _ _ _ K Hin) as Hk. apply has_key_lookup in Hk. destruct Hk as [[tx rx] Hx].
      destruct (attrs_sub_go_spec _ _ _ G _ _ _ (lookup_In _ _ _ Hx) _ _ Hl) as [Hq _].
      assert (rx = true) by (destruct (is_strict m); destruct rx; cbn in Hq; congruence). subst rx.
      exact (R1 _ _ (lookup_In _ _ _ Hx)).
    + intros k v Hin t r Hl.
      pose proof (keys_subset_has _ _ _ _ K (lookup_In _ _ _ Hl)) as Hk. apply has_key_lookup in Hk. destruct Hk as [[tx rx] Hx].
      destruct (attrs_sub_go_spec _ _ _ G _ _ _ (lookup_In _ _ _ Hx) _ _ Hl) as [_ Hst].
      rewrite Forall_forall in H. pose proof (H _ (lookup_In _ _ _ Hx)) as IHt. cbn [fst snd] in IHt.
      eapply IHt; [eapply wf_record_attr; [exact Hwf|exact (lookup_In _ _ _ Hl)]|exact Hst|].
      exact (R2 _ _ Hin _ _ Hx).
    + intros -> k v Hin.
      assert (o = false) by (destruct o; [cbn in Hopen; discriminate Hopen|reflexivity]). subst o.
      pose proof (R3 eq_refl _ _ Hin) as Hk. apply has_key_lookup in Hk. destruct Hk as [p Hx].
      exact (keys_subset_has _ _ _ _ (Kc eq_refl) (lookup_In _ _ _ Hx)).
  - cbn [subty] in Hs. destruct b0; try discriminate Hs. apply name_eqb_eq in Hs. subst. exact Hv.
Qed.
