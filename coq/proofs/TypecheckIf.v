(* TypecheckIf.v — C03: `if` whose branches are any boolean-rooted form of the fragment
   (&&, ||, !, ==, has, boolean literal, like, is, isEmpty, <, <=, contains, containsAll, containsAny). *)
From Cedar Require Import Typecheck ValueProofs ConformProofs ExprEq TypecheckProofs TypecheckProofs2 TypecheckProofs4.
#[local] Hint Resolve at_true at_never caps_hold_nil caps_hold_app caps_hold_inter_l caps_hold_inter_r : c03.

Definition boolish' (e : expr) : bool :=
  boolish e ||
  match e with
  | Like _ _ | Is _ _ | UnApp UIsEmpty _ => true
  | BinApp BLess _ _ | BinApp BLessEq _ _ | BinApp BContains _ _ | BinApp BContainsAll _ _ | BinApp BContainsAny _ _ => true
  | _ => false
  end.

Lemma less_shape (ta tb : ty) (t : ty) (c : caps) :
  match ta, tb with
  | TNever, TNever => None
  | TNever, o | o, TNever => if valid_cmp_ty o then Some (TBool BAny, []) else None
  | _, _ => if ty_eqb ta tb && valid_cmp_ty ta then Some (TBool BAny, []) else None
  end = Some (t, c) -> t = TBool BAny.
Proof.
  intros H. destruct ta; destruct tb; cbv beta iota in H; try discriminate H;
    (match type of H with (if ?c then _ else _) = _ => destruct c end; [|discriminate H]);
    inversion H; reflexivity.
Qed.

Lemma boolish_type' m sch env cs e t c :
  boolish' e = true -> tc m sch env cs e = Some (t, c) -> bshape t.
Proof.
  unfold boolish'. destruct (boolish e) eqn:Eb; [intros _; apply boolish_type; exact Eb|].
  cbn [orb]. unfold bshape.
  destruct e; try discriminate; intros Hb H.
  - (* UnApp *) destruct op; try discriminate Hb. cbn [tc] in H. get_expect H ta ca Ea. inversion H; subst. eauto.
  - (* BinApp *)
    destruct op; try discriminate Hb.
    + cbn [tc] in H. destruct (tc m sch env cs e1) as [[ta ca]|]; [|discriminate H].
      destruct (tc m sch env cs e2) as [[tb cb]|]; [|discriminate H]. apply less_shape in H. subst. eauto.
    + cbn [tc] in H. destruct (tc m sch env cs e1) as [[ta ca]|]; [|discriminate H].
      destruct (tc m sch env cs e2) as [[tb cb]|]; [|discriminate H]. apply less_shape in H. subst. eauto.
    + cbn [tc] in H. get_expect H ta ca Ea. destruct (tc m sch env cs e2) as [[tb cb]|]; [|discriminate H].
      destruct (is_strict m); [destruct ta as [| | | |[e|]| | |]; try (destruct (strict_eq_ok _ _ _ _))|]; inversion H; subst; eauto.
    + cbn [tc] in H. get_expect H ta ca Ea. get_expect H tb cb Eb2.
      destruct (is_strict m); [destruct (strict_eq_ok _ _ _ _)|]; inversion H; subst; eauto.
    + cbn [tc] in H. get_expect H ta ca Ea. get_expect H tb cb Eb2.
      destruct (is_strict m); [destruct (strict_eq_ok _ _ _ _)|]; inversion H; subst; eauto.
  - (* Like *) cbn [tc] in H. get_expect H tx cx Ex. inversion H; subst. eauto.
  - (* Is *) cbn [tc] in H. get_expect H tx cx Ex.
    destruct tx as [| | | | |[|l]| |]; try discriminate H; inversion H; subst; eauto.
    destruct (negb (lub_contains l t0)); eauto. destruct l as [|? [|? ?]]; eauto.
Qed.

Lemma sound_if' m sch env q es c x y :
  boolish' x = true -> boolish' y = true ->
  IHfor m sch env q es c -> IHfor m sch env q es x -> IHfor m sch env q es y ->
  IHfor m sch env q es (If c x y).
Proof.
  intros Hbx Hby IHc IHx IHy cs t cs' Hcs Htc. cbn [tc] in Htc.
  get_expect Htc tcn ccn Ec. apply expect_inv in Ec. destruct Ec as [Ec Hsc].
  destruct (IHc _ _ _ Hcs Ec) as [Sc Dc].
  destruct (sub_bool_shape _ Hsc) as [[xc ->]| ->]; [destruct xc|].
  - (* test : Bool *)
    destruct (tc m sch env (caps_union cs ccn) x) as [[tx cx]|] eqn:Ex; [|discriminate].
    destruct (tc m sch env cs y) as [[t_y cy]|] eqn:Ey; [|discriminate].
    destruct (lub m tx t_y) as [tl|] eqn:El; [|discriminate]. inversion Htc; subst. clear Htc.
    pose proof (boolish_type' _ _ _ _ _ _ _ Hbx Ex) as Bx. pose proof (boolish_type' _ _ _ _ _ _ _ Hby Ey) as By.
    destruct (IHy _ _ _ Hcs Ey) as [Sy Dy].
    split.
    + intros Hat. destruct (lub_bshape_at _ _ _ _ Bx By El Hat) as [_ Hy]. auto with c03.
    + unfold dyn_result. destruct Dc as [(e & He & Hal)|(vc & He & Hvc & Hcapc)].
      { left. exists e. rewrite eval_if, He. auto. }
      destruct (boolean_value _ _ Hsc Hvc) as (xc & bc & _ & -> & _).
      rewrite eval_if, He. cbn [bind as_bool VBool]. destruct bc.
      * assert (Hcs2 : caps_hold q es (caps_union cs ccn)) by (apply caps_hold_app; auto).
        destruct (IHx _ _ _ Hcs2 Ex) as [Sx [(e & He2 & Hal)|(vx & He2 & Hvx & Hcapx)]]; [left; eauto|].
        right. exists vx. split; [exact He2|]. split; [apply (lub_bshape_conf _ _ _ _ _ Bx By El); left; exact Hvx|].
        intros Hv. apply caps_hold_inter_r. apply caps_hold_app; auto.
      * destruct Dy as [(e & He2 & Hal)|(vy & He2 & Hvy & Hcapy)]; [left; eauto|].
        right. exists vy. split; [exact He2|]. split; [apply (lub_bshape_conf _ _ _ _ _ Bx By El); right; exact Hvy|].
        intros Hv. apply caps_hold_inter_l. auto.
  - (* test : True *)
    assert (Hcc : caps_hold q es ccn) by (apply Sc; auto with c03).
    assert (Hcs2 : caps_hold q es (caps_union cs ccn)) by (apply caps_hold_app; auto).
    destruct (tc m sch env (caps_union cs ccn) x) as [[tx cx]|] eqn:Ex; [|discriminate]. inversion Htc; subst. clear Htc.
    destruct (IHx _ _ _ Hcs2 Ex) as [Sx Dx].
    split; [intros Hat; auto with c03|].
    unfold dyn_result. destruct Dc as [(e & He & Hal)|(vc & He & Hvc & Hcapc)].
    { left. exists e. rewrite eval_if, He. auto. }
    destruct (conf_bool _ _ Hvc) as (bc & -> & ->).
    rewrite eval_if, He. cbn [bind as_bool VBool].
    destruct Dx as [(e & He2 & Hal)|(vx & He2 & Hvx & Hcapx)]; [left; eauto|].
    right. exists vx. split; [exact He2|]. split; [exact Hvx|]. intros Hv. auto with c03.
  - (* test : False *)
    destruct (IHy _ _ _ Hcs Htc) as [Sy Dy]. split; [exact Sy|].
    unfold dyn_result. destruct Dc as [(e & He & Hal)|(vc & He & Hvc & Hcapc)].
    { left. exists e. rewrite eval_if, He. auto. }
    destruct (conf_bool _ _ Hvc) as (bc & -> & ->).
    rewrite eval_if, He. cbn [bind as_bool VBool]. exact Dy.
  - (* test : Never — no value inhabits it *)
    destruct (tc m sch env (caps_union cs ccn) x) as [[tx cx]|] eqn:Ex; [|discriminate].
    destruct (tc m sch env cs y) as [[t_y cy]|] eqn:Ey; [|discriminate].
    destruct (lub m tx t_y) as [tl|] eqn:El; [|discriminate]. inversion Htc; subst. clear Htc.
    pose proof (boolish_type' _ _ _ _ _ _ _ Hbx Ex) as Bx. pose proof (boolish_type' _ _ _ _ _ _ _ Hby Ey) as By.
    destruct (IHy _ _ _ Hcs Ey) as [Sy Dy].
    split.
    + intros Hat. destruct (lub_bshape_at _ _ _ _ Bx By El Hat) as [_ Hy]. auto with c03.
    + unfold dyn_result. destruct Dc as [(e & He & Hal)|(vc & He & Hvc & Hcapc)].
      { left. exists e. rewrite eval_if, He. auto. }
      exfalso. eapply conf_never; eauto.
Qed.
