(* NoPanicProofs.v — C20: the checked transcriptions of NoPanic.v never reach a Panic outcome. *)
From Coq Require Import String Lia.
From Cedar Require Import NoPanic.

(* ------------------------------------------------------------------ checked primitives *)
Lemma idx_ok {A} (l : list A) i site : (i < List.length l)%nat -> exists x, idx l i site = POk x /\ nth_error l i = Some x.
Proof.
  intros H. unfold idx. destruct (nth_error l i) eqn:E.
  - eauto.
  - apply nth_error_None in E. lia.
Qed.

Lemma upd_ok {A} (l : list A) i v site : (i < List.length l)%nat ->
  exists l', upd l i v site = POk l' /\ List.length l' = List.length l /\
             (forall P : A -> Prop, Forall P l -> P v -> Forall P l').
Proof.
  intros H. unfold upd. destruct (Nat.ltb_spec i (List.length l)); [|lia].
  eexists; split; [reflexivity|]. split.
  - rewrite app_length. cbn [List.length]. rewrite firstn_length, skipn_length. lia.
  - intros P HP Hv. apply Forall_app. split.
    + rewrite <- (firstn_skipn i l) in HP. apply Forall_app in HP. tauto.
    + constructor; [exact Hv|]. rewrite <- (firstn_skipn (S i) l) in HP. apply Forall_app in HP. tauto.
Qed.

Lemma psub_ok a b site : (b <= a)%nat -> psub a b site = POk (a - b)%nat.
Proof. intros H. unfold psub. destruct (Nat.leb_spec b a); [reflexivity|lia]. Qed.

Lemma pfold_inv {S} (P : S -> Prop) (f : S -> nat -> pres S) (l : list nat) :
  (forall s i, In i l -> P s -> exists s', f s i = POk s' /\ P s') ->
  forall s, P s -> exists s', pfold f l s = POk s' /\ P s'.
Proof.
  induction l as [|i l IH]; intros Hf s Hs; cbn [pfold].
  - eauto.
  - destruct (Hf s i (or_introl eq_refl) Hs) as [s1 [E1 P1]]. rewrite E1. cbn [pbind].
    apply IH; [|exact P1]. intros s0 i0 Hin. apply Hf. right; exact Hin.
Qed.

Lemma range1_bounds n i : In i (range1 n) -> (1 <= i < n)%nat.
Proof. unfold range1. intros H. apply in_seq in H. lia. Qed.

(* ------------------------------------------------------------------ levenshtein *)
Definition dims (l2 l1 : nat) (m : matrix) : Prop :=
  List.length m = l2 /\ Forall (fun r => List.length r = l1) m.

Lemma dims_init l2 l1 : dims l2 l1 (repeat (repeat 0%N l1) l2).
Proof.
  split; [apply repeat_length|]. apply Forall_forall. intros r Hr.
  apply repeat_spec in Hr. subst r. apply repeat_length.
Qed.

Lemma get2_ok l2 l1 m j i : dims l2 l1 m -> (j < l2)%nat -> (i < l1)%nat -> exists x, get2 m j i = POk x.
Proof.
  intros [Hl Hr] Hj Hi. unfold get2.
  destruct (idx_ok m j "levenshtein: matrix row") as [row [E Hn]]; [lia|]. rewrite E. cbn [pbind].
  assert (List.length row = l1) as Hrow.
  { rewrite Forall_forall in Hr. apply Hr. eapply nth_error_In; eauto. }
  destruct (idx_ok row i "levenshtein: matrix column") as [x [Ex _]]; [lia|]. eauto.
Qed.

Lemma set2_ok l2 l1 m j i v : dims l2 l1 m -> (j < l2)%nat -> (i < l1)%nat ->
  exists m', set2 m j i v = POk m' /\ dims l2 l1 m'.
Proof.
  intros [Hl Hr] Hj Hi. unfold set2.
  destruct (idx_ok m j "levenshtein: matrix row") as [row [E Hn]]; [lia|]. rewrite E. cbn [pbind].
  assert (List.length row = l1) as Hrow.
  { rewrite Forall_forall in Hr. apply Hr. eapply nth_error_In; eauto. }
  destruct (upd_ok row i v "levenshtein: matrix column") as [row' [E' [Hlen' _]]]; [lia|]. rewrite E'. cbn [pbind].
  destruct (upd_ok m j row' "levenshtein: matrix row") as [m' [E'' [Hlen'' HF]]]; [lia|].
  exists m'. split; [exact E''|]. split; [lia|]. apply HF; [exact Hr|lia].
Qed.

Lemma lev_cell_ok w1 w2 l2 l1 m j i :
  l1 = S (List.length w1) -> l2 = S (List.length w2) -> dims l2 l1 m ->
  (1 <= j < l2)%nat -> (1 <= i < l1)%nat ->
  exists m', lev_cell w1 w2 j m i = POk m' /\ dims l2 l1 m'.
Proof.
  intros E1 E2 Hd Hj Hi. unfold lev_cell.
  rewrite (psub_ok i 1) by lia. cbn [pbind]. rewrite (psub_ok j 1) by lia. cbn [pbind].
  destruct (idx_ok w1 (i - 1) "levenshtein: w1[i - 1]") as [c1 [Ec1 _]]; [lia|]. rewrite Ec1. cbn [pbind].
  destruct (idx_ok w2 (j - 1) "levenshtein: w2[j - 1]") as [c2 [Ec2 _]]; [lia|]. rewrite Ec2. cbn [pbind].
  destruct (get2_ok l2 l1 m (j - 1) (i - 1) Hd) as [d Ed]; [lia|lia|].
  destruct (get2_ok l2 l1 m j (i - 1) Hd) as [a Ea]; [lia|lia|].
  destruct (get2_ok l2 l1 m (j - 1) i Hd) as [b Eb]; [lia|lia|].
  destruct (N.eqb c1 c2).
  - rewrite Ed. cbn [pbind]. apply (set2_ok l2 l1); [exact Hd|lia|lia].
  - rewrite Ea. cbn [pbind]. rewrite Eb. cbn [pbind]. rewrite Ed. cbn [pbind].
    apply (set2_ok l2 l1); [exact Hd|lia|lia].
Qed.

Theorem levenshtein_no_panic : forall w1 w2, exists n, levenshtein w1 w2 = POk n.
Proof.
  intros w1 w2. unfold levenshtein.
  set (l1 := S (List.length w1)). set (l2 := S (List.length w2)).
  destruct (pfold_inv (dims l2 l1) (fun m i => set2 m 0 i (N.of_nat i)) (range1 l1)) with (s := repeat (repeat 0%N l1) l2)
    as [m1 [E1 D1]].
  { intros s i Hin Hs. apply range1_bounds in Hin. apply (set2_ok l2 l1); [exact Hs|subst l2; lia|lia]. }
  { apply dims_init. }
  rewrite E1. cbn [pbind].
  destruct (pfold_inv (dims l2 l1) (fun m j => set2 m j 0 (N.of_nat j)) (range1 l2)) with (s := m1) as [m2 [E2 D2]].
  { intros s j Hin Hs. apply range1_bounds in Hin. apply (set2_ok l2 l1); [exact Hs|lia|subst l1; lia]. }
  { exact D1. }
  rewrite E2. cbn [pbind].
  destruct (pfold_inv (dims l2 l1) (fun m j => pfold (lev_cell w1 w2 j) (range1 l1) m) (range1 l2)) with (s := m2)
    as [m3 [E3 D3]].
  { intros s j Hin Hs. apply range1_bounds in Hin.
    apply (pfold_inv (dims l2 l1)); [|exact Hs].
    intros s0 i Hi Hs0. apply range1_bounds in Hi.
    apply (lev_cell_ok w1 w2 l2 l1); auto. }
  { exact D2. }
  rewrite E3. cbn [pbind].
  rewrite (psub_ok l2 1) by (subst l2; lia). cbn [pbind].
  rewrite (psub_ok l1 1) by (subst l1; lia). cbn [pbind].
  apply (get2_ok l2 l1); [exact D3|subst l2; lia|subst l1; lia].
Qed.

Lemma fuzzy_fold_no_panic key : forall lst acc, exists t, fuzzy_fold key lst acc = POk t.
Proof.
  induction lst as [|w lst IH]; intros acc; cbn [fuzzy_fold].
  - eauto.
  - destruct (levenshtein_no_panic key w) as [e E]. rewrite E. cbn [pbind]. apply IH.
Qed.

Theorem fuzzy_search_no_panic : forall key lst maxd, exists o, fuzzy_search_limited key lst maxd = POk o.
Proof.
  intros key lst maxd. unfold fuzzy_search_limited.
  destruct key as [|c key]; [eauto|]. destruct lst as [|w lst]; [eauto|].
  destruct (fuzzy_fold_no_panic (c :: key) (w :: lst) (usize_max, [])) as [t E]. rewrite E. cbn [pbind].
  destruct maxd; eauto.
Qed.

(* a suggestion is always one of the candidates *)
Lemma fuzzy_fold_in key : forall lst acc t, fuzzy_fold key lst acc = POk t -> t = acc \/ In (snd t) lst.
Proof.
  induction lst as [|w lst IH]; intros acc t; cbn [fuzzy_fold].
  - intros H. inversion H. auto.
  - destruct (levenshtein key w) as [e|]; cbn [pbind]; [|discriminate].
    intros H. apply IH in H. destruct H as [H|H].
    + destruct (N.ltb e (fst acc)); subst t; cbn [snd]; auto. right. left. reflexivity.
    + right. right. exact H.
Qed.

(* ------------------------------------------------------------------ wildcard_match, index level *)
Lemma wstep_no_panic pat text s : pat <> [] -> exists o, wstep pat text s = POk o.
Proof.
  intros Hne. unfold wstep.
  assert (1 <= List.length pat)%nat as Hl by (destruct pat; [congruence|cbn; lia]).
  rewrite (psub_ok (List.length pat) 1) by lia. cbn [pbind].
  destruct (Nat.ltb (w_i s) (List.length text) && (negb (w_has s) || negb (Nat.eqb (w_star s) (List.length pat - 1)))) eqn:Hc.
  - apply andb_prop in Hc. destruct Hc as [Hi _]. apply Nat.ltb_lt in Hi.
    destruct (Nat.ltb_spec (w_j s) (List.length pat)) as [Hj|Hj].
    + destruct (idx_ok pat (w_j s) "wildcard_match: pattern[j]" Hj) as [e [Ee _]]. rewrite Ee. cbn [pbind].
      destruct (is_star e); [eauto|].
      destruct (idx_ok text (w_i s) "wildcard_match: text[i]" Hi) as [c [Ec _]]. rewrite Ec. cbn [pbind].
      destruct (match e with PChar x => N.eqb x c | PStar => false end); [eauto|].
      destruct (w_has s); eauto.
    + cbn [pbind]. destruct (w_has s); eauto.
  - generalize (w_j s). generalize (S (List.length pat)). intros fuel.
    induction fuel as [|f IH]; intros j; cbn [wskip]; [eauto|].
    destruct (Nat.ltb_spec j (List.length pat)) as [Hj|Hj]; [|eauto].
    destruct (idx_ok pat j "wildcard_match: pattern[j] (trailing)" Hj) as [e [Ee _]]. rewrite Ee. cbn [pbind].
    destruct (is_star e); [apply IH|eauto].
Qed.

Lemma wrun_no_panic pat text : pat <> [] -> forall fuel s, exists o, wrun fuel pat text s = POk o.
Proof.
  intros Hne. induction fuel as [|f IH]; intros s; cbn [wrun]; [eauto|].
  destruct (wstep_no_panic pat text s Hne) as [o E]. rewrite E. cbn [pbind].
  destruct o; [apply IH|eauto].
Qed.

Theorem wildcard_indexed_no_panic : forall pat text, exists o, wildcard_indexed pat text = POk o.
Proof.
  intros pat text. unfold wildcard_indexed. destruct pat as [|e pat]; [eauto|].
  apply wrun_no_panic. discriminate.
Qed.

(* ------------------------------------------------------------------ ipaddr is_in_range *)
Lemma netmask_checked_ok v6 p : (p <= ip_width v6)%N -> netmask_checked v6 p = POk (netmask v6 p).
Proof.
  intros H. unfold netmask_checked, netmask. rewrite psub_ok by lia. cbn [pbind].
  replace (N.of_nat (N.to_nat (ip_width v6) - N.to_nat p)) with (ip_width v6 - p)%N by lia. reflexivity.
Qed.

Lemma netmask_checked_panics v6 p : (ip_width v6 < p)%N -> no_panic (netmask_checked v6 p) = false.
Proof.
  intros H. unfold netmask_checked, psub. destruct (Nat.leb_spec (N.to_nat p) (N.to_nat (ip_width v6))); [lia|reflexivity].
Qed.

Theorem ip_in_range_checked_ok a b :
  (ip_prefix a <= ip_width (ip_v6 a))%N -> (ip_prefix b <= ip_width (ip_v6 b))%N ->
  ip_is_in_range_checked a b = POk (ip_is_in_range a b).
Proof.
  intros Ha Hb. unfold ip_is_in_range_checked, ip_is_in_range.
  destruct (Bool.eqb (ip_v6 a) (ip_v6 b)) eqn:E; [|reflexivity].
  apply Bool.eqb_prop in E. rewrite <- E in Hb.
  rewrite (netmask_checked_ok _ _ Ha). cbn [pbind]. rewrite (netmask_checked_ok _ _ Hb). reflexivity.
Qed.

Lemma parse_prefix_le s mx ml p : parse_prefix s mx ml = Some p -> (p <= mx)%N.
Proof.
  unfold parse_prefix. intros H.
  destruct (ml <? byte_len s)%Z; [discriminate|].
  destruct (negb (all_ascii_digits s)); [discriminate|].
  destruct (match s with 48%N :: _ :: _ => true | _ => false end); [discriminate|].
  destruct s as [|c s']; [discriminate|].
  match type of H with context [if (255 <? ?v)%N then _ else _] => set (val := v) in * end.
  destruct (255 <? val)%N; [discriminate|].
  destruct (N.ltb_spec mx val); [discriminate|]. inversion H. subst p. lia.
Qed.

Theorem ip_parse_prefix_bound : forall s a, ip_parse s = Some a -> (ip_prefix a <= ip_width (ip_v6 a))%N.
Proof.
  intros s a. unfold ip_parse.
  destruct (43 <? byte_len s)%Z; [discriminate|].
  destruct (contains_at_least_two s 58 && contains_at_least_two s 46); [discriminate|].
  destruct (split_at_char 47%N s) as [[addr_str prefix_str]|].
  - destruct (std_ip_from_str addr_str) as [[v6 addr]|]; [|discriminate].
    destruct v6.
    + destruct (parse_prefix prefix_str 128 3) as [p|] eqn:Ep; [|discriminate].
      intros H. inversion H. subst a. cbn. apply parse_prefix_le in Ep. exact Ep.
    + destruct (parse_prefix prefix_str 32 2) as [p|] eqn:Ep; [|discriminate].
      intros H. inversion H. subst a. cbn. apply parse_prefix_le in Ep. exact Ep.
  - destruct (std_ip_from_str s) as [[v6 addr]|]; [|discriminate].
    intros H. inversion H. subst a. cbn. destruct v6; cbn; lia.
Qed.

Theorem ip_in_range_strs_no_panic : forall s1 s2,
  ip_in_range_strs s1 s2 =
  POk (match ip_parse s1, ip_parse s2 with Some a, Some b => Some (ip_is_in_range a b) | _, _ => None end).
Proof.
  intros s1 s2. unfold ip_in_range_strs.
  destruct (ip_parse s1) as [a|] eqn:E1; [|reflexivity].
  destruct (ip_parse s2) as [b|] eqn:E2; [|reflexivity].
  rewrite ip_in_range_checked_ok by (eapply ip_parse_prefix_bound; eauto). reflexivity.
Qed.

(* ------------------------------------------------------------------ display of {"__extn": {fn, args}} *)
Theorem extn_layout_no_panic {A} : forall (ms : bool) (args : list A), exists l, extn_multi_layout ms args = POk l.
Proof. intros ms args. unfold extn_multi_layout. destruct ms, args; eauto. Qed.

(* the repaired code agrees with the old code wherever the old code did not panic ... *)
Theorem extn_layout_agrees_with_old {A} : forall (ms : bool) (args : list A) l,
  extn_multi_layout_old ms args = POk l -> extn_multi_layout ms args = POk l.
Proof.
  intros ms args l. unfold extn_multi_layout_old, extn_multi_layout.
  destruct ms; [|destruct args; auto].
  destruct args as [|r rest]; cbn; [discriminate|auto].
Qed.

(* ... and the old code panicked exactly on a method-style call without arguments (finding F-b) *)
Theorem extn_layout_old_panics_iff {A} : forall (ms : bool) (args : list A),
  no_panic (extn_multi_layout_old ms args) = false <-> ms = true /\ args = [].
Proof.
  intros ms args. unfold extn_multi_layout_old. destruct ms; [|cbn; split; [discriminate|intros [H _]; discriminate]].
  destruct args as [|r rest]; cbn; split; auto; try discriminate. intros [_ H]. discriminate.
Qed.

Theorem display_extn_multi_no_panic : forall fn args, exists s, display_extn_multi fn args = POk s.
Proof.
  intros fn args. unfold display_extn_multi.
  destruct (extn_layout_no_panic (existsb (str_eqb fn) method_style_fns) args) as [l E]. rewrite E. cbn [pbind]. eauto.
Qed.

(* a suggestion is one of the candidates (or the fold's initial "" — only if every candidate is at distance
   >= usize::MAX, impossible for strings that fit in memory) *)
Theorem fuzzy_search_candidate : forall key lst maxd w,
  fuzzy_search_limited key lst maxd = POk (Some w) -> In w lst \/ w = [].
Proof.
  intros key lst maxd w. unfold fuzzy_search_limited.
  destruct key as [|c key]; [discriminate|]. destruct lst as [|w0 lst]; [discriminate|].
  destruct (fuzzy_fold (c :: key) (w0 :: lst) (usize_max, [])) as [t|] eqn:E; cbn [pbind]; [|discriminate].
  apply fuzzy_fold_in in E.
  assert (In (snd t) (w0 :: lst) \/ snd t = []) as Ht by (destruct E as [E|E]; [subst t; auto|auto]).
  destruct maxd as [th|].
  - destruct (N.leb (fst t) th); intros H; inversion H. subst w. exact Ht.
  - intros H. inversion H. subst w. exact Ht.
Qed.

(* the fold keeps a candidate at minimal distance (or the initial accumulator when no candidate is closer) *)
Theorem fuzzy_fold_minimal key : forall lst acc t, fuzzy_fold key lst acc = POk t ->
  (forall w', In w' lst -> exists d', levenshtein key w' = POk d' /\ (fst t <= d')%N) /\
  (fst t <= fst acc)%N /\
  (t = acc \/ (In (snd t) lst /\ levenshtein key (snd t) = POk (fst t))).
Proof.
  induction lst as [|w lst IH]; intros acc t; cbn [fuzzy_fold].
  - intros H. inversion H. subst t. split; [intros w' []|]. split; [lia|left; reflexivity].
  - destruct (levenshtein key w) as [e|] eqn:E; cbn [pbind]; [|discriminate].
    intros H. apply IH in H. destruct H as [Hall [Hle Hsrc]].
    destruct (N.ltb_spec e (fst acc)) as [Hlt|Hge]; cbn [fst snd] in *.
    + split; [|split].
      * intros w' [<-|Hin]; [exists e; split; [exact E|exact Hle]|apply Hall; exact Hin].
      * lia.
      * destruct Hsrc as [->|[Hin Hd]]; right; cbn [fst snd]; [split; [left; reflexivity|exact E]|split; [right; exact Hin|exact Hd]].
    + split; [|split].
      * intros w' [<-|Hin]; [exists e; split; [exact E|lia]|apply Hall; exact Hin].
      * exact Hle.
      * destruct Hsrc as [->|[Hin Hd]]; [left; reflexivity|right; split; [right; exact Hin|exact Hd]].
Qed.
