(* EstSetProofs.v — the JSON layer of policy sets with template links is lossless. *)
From Coq Require Import String Lia.
From Cedar Require Import EstSet ValueProofs EstOrderProofs EstProofs EstPolicyProofs.
Open Scope Z_scope.

(* members: the key is the id of the policy, every policy is representable *)
Fixpoint members_ok (m : list (str * template)) : Prop :=
  match m with
  | [] => True
  | it :: m' => tid (snd it) = fst it /\ TemplateRep (snd it) /\ members_ok m'
  end.

(* a slot environment of a link: at most one binding per slot, entity types that read back *)
Definition env_ok (env : slotenv) : Prop :=
  keys_nodup (map (fun su => (slot_str (fst su), snd su)) env) = true /\
  (fix all (l : slotenv) : Prop := match l with [] => True | su :: l' => uid_ok (snd su) /\ all l' end) env.

Fixpoint links_ok (l : list link) : Prop :=
  match l with [] => True | k :: l' => env_ok (l_env k) /\ links_ok l' end.

Definition EstSetRep (d : estset) : Prop :=
  members_ok (es_templates d) /\ keys_nodup (es_templates d) = true /\
  members_ok (es_statics d) /\ keys_nodup (es_statics d) = true /\
  links_ok (es_links d).

Lemma members_roundtrip m :
  members_ok m -> est_to_members (map (fun it => (fst it, template_to_est (snd it))) m) = Ok m.
Proof.
  induction m as [|[id t] m IH]; cbn [members_ok map est_to_members fst snd]; [reflexivity|].
  intros (Hid & Ht & Hm). subst id. rewrite (template_roundtrip_nocheck _ Ht). cbn [bind].
  rewrite (IH Hm). reflexivity.
Qed.

Lemma members_nodup m :
  members_ok m -> keys_nodup m = true -> json_nodup (members_to_est m) = true.
Proof.
  intros Hm Hk. unfold members_to_est. cbn -[keys_nodup map].
  rewrite (keys_nodup_map template_to_est m), Hk. cbn [andb].
  clear Hk. induction m as [|[id t] m IH]; [reflexivity|].
  destruct Hm as (_ & Ht & Hm). cbn [snd] in Ht. cbn -[template_to_est]. rewrite (template_nodup _ Ht). cbn [andb]. apply IH; assumption.
Qed.

Lemma slot_of_str s : slot_of (slot_str s) = Some s.
Proof. destruct s; reflexivity. Qed.

Lemma explicit_uid_roundtrip u : uid_ok u -> uidjson_to_uid (JObj [(K "__entity", uid_json u)]) = Ok u.
Proof.
  unfold uid_ok, name_ok. intros H. unfold uidjson_to_uid, uid_json, type_and_id. cbn -[parse_name].
  rewrite H. destruct u; reflexivity.
Qed.

Lemma env_roundtrip env :
  (fix all (l : slotenv) : Prop := match l with [] => True | su :: l' => uid_ok (snd su) /\ all l' end) env ->
  est_to_env (map (fun su => (slot_str (fst su), JObj [(K "__entity", uid_json (snd su))])) env) = Ok env.
Proof.
  induction env as [|[s u] env IH]; [reflexivity|]. intros (Hu & Hall).
  cbn [map fst snd est_to_env]. cbn [snd] in Hu. rewrite slot_of_str, (explicit_uid_roundtrip _ Hu). cbn [bind].
  rewrite (IH Hall). reflexivity.
Qed.

Lemma link_roundtrip l : env_ok (l_env l) -> est_to_link (link_to_est l) = Ok l.
Proof.
  destruct l as [t n env]. cbn [l_env]. intros (_ & Hall).
  unfold est_to_link, link_to_est, env_to_est. cbn [l_template l_new l_env].
  pose proof (env_roundtrip _ Hall) as He.
  set (vs := map _ env) in *. clearbody vs. cbn -[est_to_env]. rewrite He. reflexivity.
Qed.

Lemma links_roundtrip ls : links_ok ls -> mapM est_to_link (map link_to_est ls) = Ok ls.
Proof.
  induction ls as [|l ls IH]; [reflexivity|]. intros (Hl & Hls).
  cbn [map mapM]. rewrite (link_roundtrip _ Hl). cbn [bind]. rewrite (IH Hls). reflexivity.
Qed.

Lemma has_key_keys {A B} k (l1 : list (str * A)) : forall (l2 : list (str * B)),
  map fst l1 = map fst l2 -> has_key k l1 = has_key k l2.
Proof.
  unfold has_key. induction l1 as [|[k1 v1] l1 IH]; intros [|[k2 v2] l2] H; try discriminate; [reflexivity|].
  cbn in H. injection H as -> H. cbn. destruct (str_eqb k k2); [reflexivity|]. apply IH; assumption.
Qed.

Lemma keys_nodup_keys {A B} (l1 : list (str * A)) : forall (l2 : list (str * B)),
  map fst l1 = map fst l2 -> keys_nodup l1 = keys_nodup l2.
Proof.
  induction l1 as [|[k1 v1] l1 IH]; intros [|[k2 v2] l2] H; try discriminate; [reflexivity|].
  cbn in H. injection H as -> H. cbn. rewrite (has_key_keys k2 l1 l2 H), (IH l2 H). reflexivity.
Qed.

Lemma env_json_nodup env :
  keys_nodup (map (fun su => (slot_str (fst su), snd su)) env) = true ->
  json_nodup (env_to_est env) = true.
Proof.
  intros Hk. unfold env_to_est. cbn -[keys_nodup map].
  rewrite (keys_nodup_keys _ (map (fun su : slot * uid => (slot_str (fst su), snd su)) env)).
  2:{ rewrite !map_map. reflexivity. }
  rewrite Hk. cbn [andb].
  clear. induction env as [|[s u] env IH]; [reflexivity|]. cbn [map fst snd]. cbn. exact IH.
Qed.

Lemma links_json_nodup ls :
  links_ok ls ->
  (fix go (l : list json) : bool := match l with [] => true | x :: l' => json_nodup x && go l' end)
    (map link_to_est ls) = true.
Proof.
  induction ls as [|l ls IH]; [reflexivity|]. intros ((Hk & _) & Hls). cbn [map].
  rewrite (IH Hls). unfold link_to_est. cbn -[env_to_est]. rewrite (env_json_nodup _ Hk). reflexivity.
Qed.

Lemma estset_roundtrip d : EstSetRep d -> est_to_estset (estset_to_est d) = Ok d.
Proof.
  destruct d as [ts ss ls]. unfold EstSetRep. cbn [es_templates es_statics es_links].
  intros (Ht & Hkt & Hs & Hks & Hl).
  unfold est_to_estset.
  assert (Hnd : json_nodup (estset_to_est (mkEstSet ts ss ls)) = true).
  { unfold estset_to_est. cbn [es_templates es_statics es_links].
    cbn -[members_to_est link_to_est map].
    rewrite (members_nodup _ Ht Hkt), (members_nodup _ Hs Hks), (links_json_nodup _ Hl). reflexivity. }
  rewrite Hnd. unfold est_to_estset_nocheck, estset_to_est, members_to_est.
  cbn [es_templates es_statics es_links]. cbn -[est_to_members mapM map link_to_est template_to_est].
  rewrite (members_roundtrip _ Hs). cbn [bind]. rewrite (members_roundtrip _ Ht). cbn [bind].
  rewrite (links_roundtrip _ Hl). reflexivity.
Qed.
