(* TCLatest.v — C04: applying only the latest version of each uid of an upsert batch (what upsert_entities does since
   afe0e04, TC.latest_versions) yields, uid by uid, the same entity records as applying every version in turn: the
   de-duplication changes no direct-parent link, it only avoids stripping against intermediate versions. *)
From Coq Require Import List NArith Bool Lia.
Import ListNotations.
From Cedar Require Import TC TCIncProofs.

Lemma find_upd_over_same s e : find (fst e) (upd_over s e) = Some (mkNode (snd e) []).
Proof.
  unfold upd_over. destruct (find (fst e) s) eqn:E.
  - rewrite find_update_same, E. reflexivity.
  - rewrite find_app, E. cbn. rewrite N.eqb_refl. reflexivity.
Qed.

Lemma find_upd_over_other s e u : u <> fst e -> find u (upd_over s e) = find u s.
Proof.
  intros H. unfold upd_over. destruct (find (fst e) s) eqn:E.
  - apply find_update_other. exact H.
  - rewrite find_app. destruct (find u s); [reflexivity|]. cbn.
    destruct (N.eqb_spec u (fst e)); [contradiction|reflexivity].
Qed.

(* stores that agree on every uid outside the batch agree everywhere after the batch *)
Lemma fold_upd_over_agree : forall es s s',
  (forall u, ~ In u (map fst es) -> find u s = find u s') ->
  forall u, find u (fold_left upd_over es s) = find u (fold_left upd_over es s').
Proof.
  induction es as [|e es IH]; intros s s' H u; cbn [fold_left].
  - apply H. intros [].
  - apply IH. intros v Hv.
    destruct (N.eq_dec v (fst e)) as [->|Hne].
    + rewrite !find_upd_over_same. reflexivity.
    + rewrite !find_upd_over_other by exact Hne. apply H. cbn [map]. intros [Heq|Hin]; [congruence|contradiction].
Qed.

Lemma existsb_uid_in (e : ent) (es : list ent) : existsb (fun e1 : ent => N.eqb (fst e1) (fst e)) es = true -> In (fst e) (map fst es).
Proof.
  intros H. apply existsb_exists in H. destruct H as [e' [Hin Heq]]. apply N.eqb_eq in Heq. rewrite <- Heq.
  apply in_map. exact Hin.
Qed.

Theorem upsert_latest_same_records : forall es s u,
  find u (fold_left upd_over (latest_versions es) s) = find u (fold_left upd_over es s).
Proof.
  induction es as [|e es IH]; intros s u; cbn [latest_versions fold_left]; [reflexivity|].
  destruct (existsb (fun e' => N.eqb (fst e') (fst e)) es) eqn:E.
  - rewrite IH. apply fold_upd_over_agree. intros v Hv.
    symmetry. apply find_upd_over_other. intros ->. apply Hv. apply existsb_uid_in. exact E.
  - cbn [fold_left]. apply IH.
Qed.
