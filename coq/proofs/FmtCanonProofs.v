(* FmtCanonProofs.v — every token produced by the lexer re-lexes to itself (replay invariant of the
   mode automaton); hence printing the tokens one per line is a formatter that satisfies F1 and F2
   of c12_idem_partial on comment-free texts: the hypotheses are jointly satisfiable, and the
   canonical formatter is idempotent. *)
From Coq Require Import Lia.
From Cedar Require Import Fmt FmtProofs FmtLexProofs.
Local Open Scope nat_scope.
Local Open Scope list_scope.

Definition mtext (m : mode) : str :=
  match m with
  | MTop => []
  | MWord a | MNum a | MSlot a | MCom a => rev a
  | MStr a _ => rev a
  end.

(* the text consumed so far in the current item leads from the top mode to the current mode *)
Definition replay (m : mode) : Prop :=
  forall rest out, lex MTop (mtext m ++ rest) out = lex m rest out.

Definition tok_text (t : token) : str :=
  match t with TWord s | TNum s | TStr s | TSlot s | TSym s => s end.

Definition item_wf (i : item) : Prop :=
  match i with ITok t => clex (tok_text t) = Some [ITok t] | ICom _ => True end.

Lemma replay_top : replay MTop.
Proof. intros rest out; reflexivity. Qed.

Lemma replay_step m m' c :
  replay m -> mtext m' = mtext m ++ [c] ->
  (forall rest out, lex m (c :: rest) out = lex m' rest out) -> replay m'.
Proof. intros R T S rest out. rewrite T, <- app_assoc. cbn [app]. rewrite R. apply S. Qed.

Ltac split_ifs H :=
  repeat match type of H with context [if ?b then _ else _] => destruct b eqn:? end.

Lemma continue_absorb m c m' e :
  replay m -> continue m c = Absorb m' e -> replay m' /\ (forall i, e = Some i -> item_wf i).
Proof.
  intros R Hc. split.
  - destruct e as [i|].
    + destruct m as [|a|a|a|a esc|a]; try destruct esc; cbn in Hc; split_ifs Hc; try discriminate.
      inversion Hc. apply replay_top.
    + apply (replay_step m m' c R).
      * destruct m as [|a|a|a|a esc|a]; try destruct esc; cbn in Hc; split_ifs Hc; try discriminate;
          inversion Hc; subst; reflexivity.
      * intros; rewrite lex_cons, Hc; reflexivity.
  - intros i ->.
    destruct m as [|a|a|a|a esc|a]; try destruct esc; cbn in Hc; split_ifs Hc; try discriminate.
    inversion Hc; subst. unfold item_wf, clex. cbn [tok_text rev].
    pose proof (R [c] []) as R'. cbn [mtext] in R'. rewrite R'. rewrite lex_cons. cbn [continue]. rewrite Heqb. reflexivity.
Qed.

Lemma flush_wf m out l :
  replay m -> Forall item_wf out -> flush m out = Some l -> Forall item_wf l.
Proof.
  intros R W H.
  assert (E : forall t, lex m [] [] = Some [ITok t] -> tok_text t = mtext m -> item_wf (ITok t)).
  { intros t Ht Hx. unfold item_wf, clex. rewrite Hx. rewrite <- (app_nil_r (mtext m)). rewrite R. exact Ht. }
  destruct m as [|a|a|a|a esc|a]; cbn in H.
  - injection H as <-. assumption.
  - injection H as <-. constructor; [apply E; reflexivity | assumption].
  - injection H as <-. constructor; [apply E; reflexivity | assumption].
  - destruct (slot_ok (rev a)) eqn:S; [|discriminate]. injection H as <-.
    constructor; [apply E; [rewrite lex_nil; cbn; rewrite S; reflexivity | reflexivity] | assumption].
  - discriminate.
  - injection H as <-. constructor; [exact I | assumption].
Qed.

Lemma continue_restart m c e :
  replay m -> continue m c = Restart e -> forall i, e = Some i -> item_wf i.
Proof.
  intros R Hc i ->.
  assert (E : forall t, lex m [] [] = Some [ITok t] -> tok_text t = mtext m -> item_wf (ITok t)).
  { intros t Ht Hx. unfold item_wf, clex. rewrite Hx. rewrite <- (app_nil_r (mtext m)). rewrite R. exact Ht. }
  destruct m as [|a|a|a|a esc|a]; try destruct esc; cbn in Hc; split_ifs Hc; try discriminate;
    inversion Hc; subst; try exact I; apply E; try reflexivity.
  rewrite lex_nil; cbn; rewrite Heqb0; reflexivity.
Qed.

Lemma push_wf e out : (forall i, e = Some i -> item_wf i) -> Forall item_wf out -> Forall item_wf (push e out).
Proof. intros H W. destruct e as [i|]; cbn; [constructor; [apply H; reflexivity | assumption] | assumption]. Qed.

Lemma wf_n : forall n s, length s <= n -> forall m out l,
  replay m -> Forall item_wf out -> lex m s out = Some l -> Forall item_wf l.
Proof.
  induction n as [|n IHn]; intros s Hl m out l R W H.
  - destruct s; [|cbn in Hl; lia]. rewrite lex_nil in H.
    destruct (flush m out) as [l'|] eqn:F; [|discriminate]. injection H as <-.
    apply Forall_rev. eapply flush_wf; eassumption.
  - destruct s as [|c s'].
    + rewrite lex_nil in H. destruct (flush m out) as [l'|] eqn:F; [|discriminate]. injection H as <-.
      apply Forall_rev. eapply flush_wf; eassumption.
    + assert (IH1 : forall m out l, replay m -> Forall item_wf out -> lex m s' out = Some l -> Forall item_wf l)
        by (intros m0 o0 l0 R0 W0 H0; apply (IHn s' ltac:(cbn in Hl; lia) m0 o0 l0 R0 W0 H0)).
      rewrite lex_cons in H.
      destruct (continue m c) as [m' e|e|] eqn:Hc; [| |discriminate].
      * destruct (continue_absorb _ _ _ _ R Hc) as [R' We]. exact (IH1 m' (push e out) l R' (push_wf e out We W) H).
      * pose proof (push_wf e out (continue_restart _ _ _ R Hc) W) as W'.
        assert (T : forall m', (forall rest o, lex MTop (c :: rest) o = lex m' rest o) -> mtext m' = [c] -> replay m').
        { intros m'' S X rest o. rewrite X. cbn [app]. apply S. }
        destruct (is_ws c) eqn:E1; [exact (IH1 MTop (push e out) l replay_top W' H)|].
        destruct (c =? 34)%N eqn:E2.
        { refine (IH1 _ _ _ _ W' H). apply T; [|reflexivity].
          intros; rewrite lex_cons; cbn [continue push]; rewrite E1, E2; reflexivity. }
        destruct (is_word_start c) eqn:E3.
        { refine (IH1 _ _ _ _ W' H). apply T; [|reflexivity].
          intros; rewrite lex_cons; cbn [continue push]; rewrite E1, E2, E3; reflexivity. }
        destruct (is_digit c) eqn:E4.
        { refine (IH1 _ _ _ _ W' H). apply T; [|reflexivity].
          intros; rewrite lex_cons; cbn [continue push]; rewrite E1, E2, E3, E4; reflexivity. }
        destruct (c =? 63)%N eqn:E5.
        { refine (IH1 _ _ _ _ W' H). apply T; [|reflexivity].
          intros; rewrite lex_cons; cbn [continue push]; rewrite E1, E2, E3, E4, E5; reflexivity. }
        assert (Wsingle : is_single c = true -> item_wf (ITok (TSym [c]))).
        { intros E6. unfold item_wf, clex. cbn [tok_text]. rewrite lex_cons. cbn [continue push].
          rewrite E1, E2, E3, E4, E5, E6. reflexivity. }
        destruct s' as [|d s''].
        -- destruct (is_single c) eqn:E6; [|discriminate].
           refine (IH1 _ _ _ replay_top _ H). constructor; [apply Wsingle; reflexivity | exact W'].
        -- destruct ((c =? 47) && (d =? 47))%N eqn:E7.
           { apply (IHn s'' ltac:(cbn in Hl; lia) (MCom [d; c]) (push e out) l); [ | exact W' | exact H].
             intros rest o. cbn [mtext rev app]. rewrite lex_cons. cbn [continue push].
             rewrite E1, E2, E3, E4, E5, E7. reflexivity. }
           destruct (is_double c d) eqn:E8.
           { apply (IHn s'' ltac:(cbn in Hl; lia) MTop (ITok (TSym [c; d]) :: push e out) l); [apply replay_top | | exact H].
             constructor; [|exact W']. unfold item_wf, clex. cbn [tok_text]. rewrite lex_cons. cbn [continue push].
             rewrite E1, E2, E3, E4, E5, E7, E8. reflexivity. }
           destruct (is_single c) eqn:E6; [|discriminate].
           refine (IH1 _ _ _ replay_top _ H). constructor; [apply Wsingle; reflexivity | exact W'].
Qed.

Lemma clex_wf s l : clex s = Some l -> Forall item_wf l.
Proof. intros H. eapply (wf_n (length s) s (le_n _) MTop [] l replay_top (Forall_nil _) H). Qed.

(* the canonical printer: one token per line *)
Fixpoint render (l : list token) : str :=
  match l with
  | [] => []
  | t :: l' => tok_text t ++ 10%N :: render l'
  end.

Lemma render_roundtrip l :
  Forall item_wf (map ITok l) -> clex (render l) = Some (map ITok l).
Proof.
  induction l as [|t l IH]; intros W; [reflexivity|].
  inversion W as [|x y Wt Wl]; subst. cbn [render map].
  change (ITok t :: map ITok l) with ([ITok t] ++ map ITok l).
  apply clex_join; [exact Wt | apply IH; exact Wl].
Qed.

Lemma comments_nil_map l : comments_of l = [] -> l = map ITok (tokens_of l).
Proof.
  induction l as [|[t|c] l IH]; cbn; intros H; [reflexivity | f_equal; apply IH; exact H | discriminate].
Qed.

Definition canon (a : str) : str :=
  match tokens a with Some l => render l | None => a end.

Lemma canon_F2 a : clex a <> None -> comment_free a -> fmt_ok a (canon a).
Proof.
  intros Ha Hc. unfold comment_free, comments, canon, tokens in *.
  destruct (clex a) as [l|] eqn:E; [|contradiction Ha; reflexivity]. cbn in *.
  injection Hc as Hc. exists l. split; [exact E|].
  rewrite (comments_nil_map l Hc) at 2. apply render_roundtrip.
  rewrite <- (comments_nil_map l Hc). eapply clex_wf; eassumption.
Qed.

Lemma canon_F1 a b : clex a <> None -> tokens a = tokens b -> canon a = canon b.
Proof.
  intros Ha H. unfold canon. rewrite <- H. unfold tokens in *.
  destruct (clex a); [reflexivity | contradiction Ha; reflexivity].
Qed.

Lemma canon_idempotent a : clex a <> None -> comment_free a -> canon (canon a) = canon a.
Proof.
  intros Ha Hc. pose proof (canon_F2 a Ha Hc) as H.
  destruct (fmt_ok_tokens _ _ H) as [Ht _]. destruct (fmt_ok_clex _ _ H) as [Hx _].
  apply canon_F1; [rewrite Hx; exact Ha | exact Ht].
Qed.
