(* TypecheckModes.v — C03: every expression of the proved fragment that strict typechecking accepts is
   accepted by permissive typechecking, with the same type and capabilities (both modes are one function;
   strict mode only adds checks: enforce_strict_equality on == / contains*, and the stricter lub, which on the
   boolean-rooted `if` branches of the fragment coincides with the permissive one). *)
From Cedar Require Import Typecheck ValueProofs ConformProofs ExprEq TypecheckProofs TypecheckProofs2 TypecheckProofs3
  TypecheckProofs4 TypecheckIf TypecheckMain.

Lemma lub_bshape_mode a b t : bshape a -> bshape b -> lub Strict a b = Some t -> lub Permissive a b = Some t.
Proof.
  intros [[xa ->]| ->] [[xb ->]| ->] H; try destruct xa; try destruct xb; cbn in H |- *; exact H.
Qed.

Section Modes.
  Variable sch : schema.
  Variable env : reqenv.

  Definition same_in_permissive (e : expr) : Prop :=
    forall cs r, tc Strict sch env cs e = Some r -> tc Permissive sch env cs e = Some r.

  Lemma sip_and a b : same_in_permissive a -> same_in_permissive b -> same_in_permissive (And a b).
  Proof.
    intros IHa IHb cs r H. cbn [tc] in H |- *.
    destruct (tc Strict sch env cs a) as [ra|] eqn:Ea; [|cbn in H; discriminate H]. rewrite (IHa _ _ Ea).
    destruct (expect (Some ra) [TBool BAny]) as [[ta ca]|]; [|exact H].
    destruct (tc Strict sch env (caps_union cs ca) b) as [rb|] eqn:Eb.
    - rewrite (IHb _ _ Eb). exact H.
    - destruct ta as [|[| |]| | | | | |]; cbn in H |- *; try discriminate H; exact H.
  Qed.

  Lemma sip_or a b : same_in_permissive a -> same_in_permissive b -> same_in_permissive (Or a b).
  Proof.
    intros IHa IHb cs r H. cbn [tc] in H |- *.
    destruct (tc Strict sch env cs a) as [ra|] eqn:Ea; [|cbn in H; discriminate H]. rewrite (IHa _ _ Ea).
    destruct (expect (Some ra) [TBool BAny]) as [[ta ca]|]; [|exact H].
    destruct (tc Strict sch env cs b) as [rb|] eqn:Eb.
    - rewrite (IHb _ _ Eb). exact H.
    - destruct ta as [|[| |]| | | | | |]; cbn in H |- *; try discriminate H; exact H.
  Qed.

  Lemma sip_if c x y :
    boolish' x = true -> boolish' y = true ->
    same_in_permissive c -> same_in_permissive x -> same_in_permissive y -> same_in_permissive (If c x y).
  Proof.
    intros Hbx Hby IHc IHx IHy cs r H. cbn [tc] in H |- *.
    destruct (tc Strict sch env cs c) as [rc|] eqn:Ec; [|cbn in H; discriminate H]. rewrite (IHc _ _ Ec).
    destruct (expect (Some rc) [TBool BAny]) as [[tcn ccn]|]; [|exact H].
    destruct (tc Strict sch env (caps_union cs ccn) x) as [[tx cx]|] eqn:Ex;
      destruct (tc Strict sch env cs y) as [[t_y cy]|] eqn:Ey.
    - rewrite (IHx _ _ Ex), (IHy _ _ Ey).
      destruct tcn as [|[| |]| | | | | |]; try exact H;
        (destruct (lub Strict tx t_y) as [tl|] eqn:El; [|discriminate H];
         rewrite (lub_bshape_mode _ _ _ (boolish_type' _ _ _ _ _ _ _ Hbx Ex) (boolish_type' _ _ _ _ _ _ _ Hby Ey) El);
         exact H).
    - rewrite (IHx _ _ Ex). destruct tcn as [|[| |]| | | | | |]; cbn in H |- *; try discriminate H; exact H.
    - rewrite (IHy _ _ Ey). destruct tcn as [|[| |]| | | | | |]; cbn in H |- *; try discriminate H; exact H.
    - destruct tcn as [|[| |]| | | | | |]; cbn in H; discriminate H.
  Qed.

  Lemma sip_unop op a : same_in_permissive a -> same_in_permissive (UnApp op a).
  Proof.
    intros IHa cs r H. destruct op; cbn [tc] in H |- *;
      (destruct (tc Strict sch env cs a) as [ra|] eqn:Ea; [rewrite (IHa _ _ Ea); exact H|cbn in H; discriminate H]).
  Qed.

  Lemma sip_getattr x a : same_in_permissive x -> same_in_permissive (GetAttr x a).
  Proof.
    intros IHx cs r H. cbn [tc] in H |- *.
    destruct (tc Strict sch env cs x) as [rx|] eqn:Ex; [rewrite (IHx _ _ Ex); exact H|cbn in H; discriminate H].
  Qed.

  Lemma sip_hasattr x a : same_in_permissive x -> same_in_permissive (HasAttr x a).
  Proof.
    intros IHx cs r H. cbn [tc] in H |- *.
    destruct (tc Strict sch env cs x) as [rx|] eqn:Ex; [rewrite (IHx _ _ Ex); exact H|cbn in H; discriminate H].
  Qed.

  Lemma sip_like x p : same_in_permissive x -> same_in_permissive (Like x p).
  Proof.
    intros IHx cs r H. cbn [tc] in H |- *.
    destruct (tc Strict sch env cs x) as [rx|] eqn:Ex; [rewrite (IHx _ _ Ex); exact H|cbn in H; discriminate H].
  Qed.

  Lemma sip_is x t : same_in_permissive x -> same_in_permissive (Is x t).
  Proof.
    intros IHx cs r H. cbn [tc] in H |- *.
    destruct (tc Strict sch env cs x) as [rx|] eqn:Ex; [rewrite (IHx _ _ Ex); exact H|cbn in H; discriminate H].
  Qed.

  Lemma sip_binop op a b :
    (op = BEq \/ op = BLess \/ op = BLessEq \/ op = BAdd \/ op = BSub \/ op = BMul \/
     op = BContains \/ op = BContainsAll \/ op = BContainsAny) ->
    same_in_permissive a -> same_in_permissive b -> same_in_permissive (BinApp op a b).
  Proof.
    intros Hop IHa IHb cs r H.
    destruct Hop as [->|[->|[->|[->|[->|[->|[->|[->| ->]]]]]]]];
      cbn [tc] in H |- *;
      (destruct (tc Strict sch env cs a) as [[ta ca]|] eqn:Ea; [rewrite (IHa _ _ Ea)|cbn in H; discriminate H]);
      try (match type of H with
           | context [expect (Some (ta, ca)) ?L] =>
               destruct (expect (Some (ta, ca)) L) as [[ta' ca']|]; [|cbn in H; discriminate H]
           end);
      (destruct (tc Strict sch env cs b) as [[tb cb]|] eqn:Eb; [rewrite (IHb _ _ Eb)|cbn in H; discriminate H]);
      cbn [is_strict] in H |- *; try exact H.
    - (* == *) destruct (strict_eq_ok _ _ _ _); [exact H|discriminate H].
    - (* contains *)
      destruct ta' as [| | | |[te|]| | |]; try exact H. destruct (strict_eq_ok _ _ _ _); [exact H|discriminate H].
    - (* containsAll *)
      destruct (expect (Some (tb, cb)) [ty_any_set]) as [[tb' cb']|]; [|exact H].
      destruct (strict_eq_ok _ _ _ _); [exact H|discriminate H].
    - (* containsAny *)
      destruct (expect (Some (tb, cb)) [ty_any_set]) as [[tb' cb']|]; [|exact H].
      destruct (strict_eq_ok _ _ _ _); [exact H|discriminate H].
  Qed.

  Theorem strict_in_permissive_fragment : forall e, in_fragment e = true -> same_in_permissive e.
  Proof.
    induction e; cbn [in_fragment]; try discriminate; intros Hf.
    - intros cs r H. exact H.
    - intros cs r H. exact H.
    - apply andb_prop in Hf. destruct Hf as [Hf Hby]. apply andb_prop in Hf. destruct Hf as [Hf Hbx].
      apply andb_prop in Hf. destruct Hf as [Hf Hfy]. apply andb_prop in Hf. destruct Hf as [Hfc Hfx].
      apply sip_if; auto.
    - apply andb_prop in Hf. destruct Hf as [H1 H2]. apply sip_and; auto.
    - apply andb_prop in Hf. destruct Hf as [H1 H2]. apply sip_or; auto.
    - apply sip_unop. auto.
    - destruct op; try discriminate Hf; apply andb_prop in Hf; destruct Hf as [H1 H2]; apply sip_binop; auto 12.
    - apply sip_getattr. apply IHe. apply is_path_frag. exact Hf.
    - apply sip_hasattr. apply IHe. apply is_path_frag. exact Hf.
    - apply sip_like. auto.
    - apply sip_is. auto.
  Qed.
End Modes.
