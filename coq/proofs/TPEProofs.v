(* TPEProofs.v — lemmas about TPE.v (property C14). *)
From Coq Require Import List Bool.
From Cedar Require Import TPE.
Import ListNotations.

(* ---------------------------------------------------------------- views *)
Lemma fold_app_map {A B} (f : A -> B) (l : list A) : forall acc,
  fold_left (fun ps p => (ps ++ [f p])%list) l acc = (acc ++ map f l)%list.
Proof.
  induction l as [|x l IH]; intros acc; cbn.
  - rewrite app_nil_r; reflexivity.
  - rewrite IH, <- app_assoc; reflexivity.
Qed.

Lemma view_policy_set_eq m : view_policy_set m = view_policies m.
Proof. unfold view_policy_set, view_policies. rewrite fold_app_map. reflexivity. Qed.

Lemma view_reauth_eq m : view_reauth m = view_policies m.
Proof. apply view_policy_set_eq. Qed.

Definition assoc_get (i : str) (l : list (str * residual)) : option residual :=
  option_map snd (find (fun kv => str_eqb i (fst kv)) l).

Lemma view_get_eq m i : view_get m i = assoc_get i (view_policies m).
Proof.
  unfold view_get, assoc_get, view_policies.
  induction m as [|p m IH]; cbn; [reflexivity|].
  destruct (str_eqb i (rp_id p)); cbn; [reflexivity|exact IH].
Qed.

Lemma views_agree m :
  view_policy_set m = view_policies m /\ view_reauth m = view_policies m /\
  (forall i, view_get m i = assoc_get i (view_policies m)) /\
  (forall i, view_get m i = assoc_get i (view_policy_set m)) /\
  (forall i, view_get m i = assoc_get i (view_reauth m)).
Proof.
  repeat split; intros; rewrite ?view_reauth_eq, ?view_policy_set_eq;
    auto using view_policy_set_eq, view_reauth_eq, view_get_eq.
Qed.

(* ---------------------------------------------------------------- decisions *)
Definition triple := (str * effect * outcome)%type.
Definition cls (b : buckets) (x : triple) : buckets := classify b (fst (fst x)) (snd (fst x)) (snd x).
Definition is_sat_eff (e : effect) (x : triple) : bool :=
  match x with
  | (_, Permit, OSat) => match e with Permit => true | Forbid => false end
  | (_, Forbid, OSat) => match e with Forbid => true | Permit => false end
  | _ => false
  end.
Definition nonempty {A} (l : list A) : bool := match l with [] => false | _ => true end.

Definition dec_from (b : buckets) (xs : list triple) : decision :=
  if (nonempty (true_permits b) || existsb (is_sat_eff Permit) xs)
     && negb (nonempty (true_forbids b) || existsb (is_sat_eff Forbid) xs)
  then Allow else Deny.

Lemma nonempty_app {A} (l : list A) x : nonempty (l ++ [x]) = true.
Proof. destruct l; reflexivity. Qed.

Lemma concretize_dec b : rdecision (concretize b) = dec_from b [].
Proof.
  unfold concretize, dec_from; cbn.
  destruct (true_permits b), (true_forbids b); reflexivity.
Qed.

Lemma fold_dec xs : forall b, rdecision (concretize (fold_left cls xs b)) = dec_from b xs.
Proof.
  induction xs as [|x xs IH]; intros b; cbn [fold_left].
  - apply concretize_dec.
  - rewrite IH. destruct x as [[i e] o]. unfold dec_from, cls, classify; cbn.
    destruct b as [tp tf fp ff er].
    destruct o as [| |er']; destruct e; cbn;
      rewrite ?nonempty_app; cbn; rewrite ?orb_true_r, ?orb_false_r; cbn; reflexivity.
Qed.

Section WithExt.
Variable cx : name -> list value -> res value.

Definition rtriple (q : request) (es : entities) (p : rpolicy) : triple :=
  (rp_id p, rp_effect p, outcome_of (reval_policy cx q es (rp_res p))).
Definition ptriple (q : request) (es : entities) (p : policy) : triple :=
  (pid p, peffect p, outcome_of (eval_policy q es p)).

Lemma fold_left_map {A B C} (f : C -> B -> C) (g : A -> B) (l : list A) : forall acc,
  fold_left (fun a x => f a (g x)) l acc = fold_left f (map g l) acc.
Proof. induction l; intros; cbn; auto. Qed.

Lemma reauthorize_dec rs q es :
  rdecision (reauthorize cx rs q es) = dec_from empty_buckets (map (rtriple q es) rs).
Proof.
  unfold reauthorize. rewrite <- fold_dec. f_equal. f_equal.
  rewrite <- fold_left_map. reflexivity.
Qed.

Lemma is_authorized_dec ps q es :
  rdecision (is_authorized ps q es) = dec_from empty_buckets (map (ptriple q es) ps).
Proof.
  unfold is_authorized, authorize_with, auth_core. rewrite <- fold_dec. f_equal. f_equal.
  rewrite <- fold_left_map. reflexivity.
Qed.

(* a policy in the true / false / error bucket has that outcome on EVERY request and store *)
Lemma bucket_true_sat q es r : bucket_of r = KTrue -> reval_policy cx q es r = Ok true.
Proof.
  destruct r as [v| | | | | | | | | | | | | | ]; cbn; try discriminate.
  destruct v as [p| | |]; try discriminate. destruct p as [b| | |]; try discriminate.
  destruct b; [reflexivity|discriminate].
Qed.
Lemma bucket_false_unsat q es r : bucket_of r = KFalse -> reval_policy cx q es r = Ok false.
Proof.
  destruct r as [v| | | | | | | | | | | | | | ]; cbn; try discriminate.
  destruct v as [p| | |]; try discriminate. destruct p as [b| | |]; try discriminate.
  destruct b; [discriminate|reflexivity].
Qed.
Lemma bucket_error_err q es r : bucket_of r = KError -> reval_policy cx q es r = Err ErrUnknownFn.
Proof.
  destruct r as [v| | | | | | | | | | | | | | ]; cbn; try discriminate; try reflexivity.
  destruct v as [p| | |]; try discriminate. destruct p as [b| | |]; try discriminate.
  destruct b; discriminate.
Qed.

Lemma has_bucket_true_sat q es eff rs :
  has_bucket eff KTrue rs = true -> existsb (is_sat_eff eff) (map (rtriple q es) rs) = true.
Proof.
  unfold has_bucket. rewrite !existsb_exists. intros [p [Hin Hc]].
  apply andb_prop in Hc as [He Hb].
  exists (rtriple q es p). split; [apply in_map; exact Hin|].
  unfold rtriple. destruct (bucket_of (rp_res p)) eqn:E; try discriminate.
  rewrite (bucket_true_sat q es _ E); cbn.
  destruct (rp_effect p), eff; cbn in *; try discriminate; reflexivity.
Qed.

Lemma no_true_no_residual_unsat q es eff rs :
  has_bucket eff KTrue rs = false -> has_bucket eff KResidual rs = false ->
  existsb (is_sat_eff eff) (map (rtriple q es) rs) = false.
Proof.
  unfold has_bucket. induction rs as [|p rs IH]; cbn; [reflexivity|].
  intros H1 H2. apply orb_false_elim in H1 as [H1a H1b]. apply orb_false_elim in H2 as [H2a H2b].
  rewrite (IH H1b H2b), orb_false_r.
  unfold rtriple.
  destruct (bucket_of (rp_res p)) eqn:E.
  - destruct (rp_effect p), eff; cbn in *; try discriminate;
      rewrite (bucket_true_sat q es _ E); reflexivity.
  - rewrite (bucket_false_unsat q es _ E); destruct (rp_effect p); reflexivity.
  - rewrite (bucket_error_err q es _ E); destruct (rp_effect p); reflexivity.
  - destruct (rp_effect p), eff; cbn in *; try discriminate;
      destruct (outcome_of (reval_policy cx q es (rp_res p))); reflexivity.
Qed.

(* a definite TPE decision is the decision of reauthorization on every request and store *)
Lemma decision_reauthorize rs d : tpe_decision rs = Some d ->
  forall q es, rdecision (reauthorize cx rs q es) = d.
Proof.
  intros H q es. rewrite reauthorize_dec. unfold dec_from, empty_buckets; cbn.
  unfold tpe_decision in H.
  destruct (has_bucket Forbid KTrue rs) eqn:TF.
  - inversion H; subst. rewrite (has_bucket_true_sat q es _ _ TF). rewrite andb_false_r. reflexivity.
  - destruct (has_bucket Permit KTrue rs) eqn:TP.
    + destruct (has_bucket Forbid KResidual rs) eqn:RF.
      * destruct (has_bucket Permit KResidual rs); discriminate.
      * assert (d = Allow) by (destruct (has_bucket Permit KResidual rs); inversion H; reflexivity). subst.
        rewrite (has_bucket_true_sat q es _ _ TP), (no_true_no_residual_unsat q es _ _ TF RF). reflexivity.
    + destruct (has_bucket Permit KResidual rs) eqn:RP.
      * destruct (has_bucket Forbid KResidual rs); discriminate.
      * assert (d = Deny) by (destruct (has_bucket Forbid KResidual rs); inversion H; reflexivity). subst.
        rewrite (no_true_no_residual_unsat q es _ _ TP RP). reflexivity.
Qed.

(* per-policy soundness: same id, effect and outcome class *)
Definition same_class (a b : outcome) : Prop :=
  match a, b with
  | OSat, OSat | OUnsat, OUnsat | OErr _, OErr _ => True
  | _, _ => False
  end.
Definition policy_sound (q : request) (es : entities) (p : policy) (r : rpolicy) : Prop :=
  pid p = rp_id r /\ peffect p = rp_effect r /\
  same_class (outcome_of (eval_policy q es p)) (outcome_of (reval_policy cx q es (rp_res r))).

Lemma sound_existsb q es eff ps rs : Forall2 (policy_sound q es) ps rs ->
  existsb (is_sat_eff eff) (map (ptriple q es) ps) = existsb (is_sat_eff eff) (map (rtriple q es) rs).
Proof.
  induction 1 as [|p r ps rs [Hi [He Hc]] _ IH]; cbn; [reflexivity|].
  rewrite IH. f_equal. unfold ptriple, rtriple. rewrite He.
  destruct (outcome_of (eval_policy q es p)), (outcome_of (reval_policy cx q es (rp_res r)));
    cbn in Hc; try contradiction; destruct (rp_effect r), eff; reflexivity.
Qed.

Lemma reauthorize_concrete q es ps rs : Forall2 (policy_sound q es) ps rs ->
  rdecision (is_authorized ps q es) = rdecision (reauthorize cx rs q es).
Proof.
  intros H. rewrite is_authorized_dec, reauthorize_dec. unfold dec_from.
  rewrite (sound_existsb q es Permit _ _ H), (sound_existsb q es Forbid _ _ H). reflexivity.
Qed.

Lemma decision_concrete q es ps rs d : Forall2 (policy_sound q es) ps rs ->
  tpe_decision rs = Some d -> rdecision (is_authorized ps q es) = d.
Proof. intros H Hd. rewrite (reauthorize_concrete q es ps rs H). apply decision_reauthorize; exact Hd. Qed.

(* ---------------------------------------------------------------- queries *)
Lemma filter_all {A} (f : A -> bool) (l : list A) : (forall x, f x = true) -> filter f l = l.
Proof. intros H; induction l as [|x l IH]; cbn [filter]; [reflexivity|]. rewrite H, IH; reflexivity. Qed.
Lemma filter_none {A} (f : A -> bool) (l : list A) : (forall x, f x = false) -> filter f l = [].
Proof. intros H; induction l as [|x l IH]; cbn [filter]; [reflexivity|]. rewrite H, IH; reflexivity. Qed.

Lemma query_filter fill hole rs es :
  (forall d, tpe_decision rs = Some d -> forall q, rdecision (reauthorize cx rs q es) = d) ->
  query cx fill hole rs es =
  filter (fun u => decision_eqb (rdecision (reauthorize cx rs (fill u) es)) Allow)
         (filter (fun u => name_eqb (uty u) hole) (map fst es)).
Proof.
  intros H. unfold query. destruct (tpe_decision rs) as [[|]|] eqn:E; [| |reflexivity].
  - symmetry. apply filter_all. intros u. rewrite (H Allow eq_refl (fill u)). reflexivity.
  - symmetry. apply filter_none. intros u. rewrite (H Deny eq_refl (fill u)). reflexivity.
Qed.

Lemma query_exact fill hole rs es :
  query cx fill hole rs es =
  filter (fun u => decision_eqb (rdecision (reauthorize cx rs (fill u) es)) Allow)
         (filter (fun u => name_eqb (uty u) hole) (map fst es)).
Proof. apply query_filter. intros d Hd q. apply decision_reauthorize; exact Hd. Qed.

(* given per-policy soundness on every candidate request, the query is the brute-force filter on the ORIGINAL policies *)
Lemma query_brute fill hole ps rs es :
  (forall u, Forall2 (policy_sound (fill u) es) ps rs) ->
  query cx fill hole rs es =
  filter (fun u => decision_eqb (rdecision (is_authorized ps (fill u) es)) Allow)
         (filter (fun u => name_eqb (uty u) hole) (map fst es)).
Proof.
  intros H. rewrite query_exact. apply filter_ext. intros u.
  rewrite (reauthorize_concrete (fill u) es ps rs (H u)). reflexivity.
Qed.

(* query_action: a listed Some Allow is sound, and an action whose decision is not a definite Deny is listed *)
Lemma query_action_label per a : In (a, Some Allow) (query_action per) ->
  exists rs, In (a, rs) per /\ forall q es, rdecision (reauthorize cx rs q es) = Allow.
Proof.
  unfold query_action. intros H. apply filter_In in H as [H _]. apply in_map_iff in H as [[a' rs] [E Hin]].
  cbn in E. inversion E; subst. exists rs. split; [exact Hin|].
  intros q es. apply decision_reauthorize. assumption.
Qed.

Lemma query_action_complete per a rs q es : In (a, rs) per -> rdecision (reauthorize cx rs q es) = Allow ->
  exists d, In (a, d) (query_action per) /\ d <> Some Deny.
Proof.
  intros Hin Hd. exists (tpe_decision rs). 
  assert (Hn : tpe_decision rs <> Some Deny).
  { intros E. rewrite (decision_reauthorize rs Deny E q es) in Hd. discriminate. }
  split; [|exact Hn].
  unfold query_action. apply filter_In. split.
  - apply in_map_iff. exists (a, rs). split; [reflexivity|exact Hin].
  - cbn. destruct (tpe_decision rs) as [[|]|]; try reflexivity. contradiction Hn; reflexivity.
Qed.

(* the absorbing rule is NOT sound without the no-error side condition: an erroring operand must be kept *)
Lemma and_false_needs_noerr q es l e : reval cx q es l = Err e ->
  reval cx q es (RAnd l (RVal (VBool false))) <> reval cx q es (RVal (VBool false)).
Proof. intros H; cbn. rewrite H; cbn. discriminate. Qed.

End WithExt.
