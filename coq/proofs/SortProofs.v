(* SortProofs.v — a strictly key-sorted association list is duplicate free and is a fixed point of
   sort_assoc (the BTreeMap view of record literals). *)
From Coq Require Import Lia.
From Cedar Require Import Base Printable.
Open Scope N_scope.

Lemma str_eqb_eq' a : forall b, str_eqb a b = true -> a = b.
Proof.
  induction a as [|x a IH]; intros [|y b] H; try discriminate; [reflexivity|].
  cbn in H. apply andb_true_iff in H. destruct H as [H1 H2]. apply N.eqb_eq in H1. subst.
  f_equal. apply IH. exact H2.
Qed.

Lemma ltb_irrefl a : str_ltb a a = false.
Proof. induction a as [|x a IH]; [reflexivity|]. cbn. rewrite N.ltb_irrefl, N.eqb_refl. exact IH. Qed.

Lemma ltb_trans a : forall b c, str_ltb a b = true -> str_ltb b c = true -> str_ltb a c = true.
Proof.
  induction a as [|x a IH]; intros [|y b] [|z c] H1 H2; try discriminate; try reflexivity.
  cbn in *.
  destruct (x <? y) eqn:Exy.
  - apply N.ltb_lt in Exy. destruct (y <? z) eqn:Eyz.
    + apply N.ltb_lt in Eyz. replace (x <? z) with true by (symmetry; apply N.ltb_lt; lia). reflexivity.
    + destruct (y =? z) eqn:Qyz; [|discriminate]. apply N.eqb_eq in Qyz. subst.
      replace (x <? z) with true by (symmetry; apply N.ltb_lt; lia). reflexivity.
  - destruct (x =? y) eqn:Qxy; [|discriminate]. apply N.eqb_eq in Qxy. subst.
    destruct (y <? z) eqn:Eyz; [reflexivity|].
    destruct (y =? z) eqn:Qyz; [|discriminate]. eapply IH; eassumption.
Qed.

Lemma ltb_asym a b : str_ltb a b = true -> str_ltb b a = false.
Proof.
  intros H. destruct (str_ltb b a) eqn:E; [|reflexivity].
  pose proof (ltb_trans a b a H E) as C. rewrite ltb_irrefl in C. discriminate.
Qed.
Lemma ltb_neq a b : str_ltb a b = true -> str_eqb a b = false /\ str_eqb b a = false.
Proof.
  intros H. split.
  - destruct (str_eqb a b) eqn:E; [|reflexivity]. apply str_eqb_eq' in E. subst. rewrite ltb_irrefl in H. discriminate.
  - destruct (str_eqb b a) eqn:E; [|reflexivity]. apply str_eqb_eq' in E. subst. rewrite ltb_irrefl in H. discriminate.
Qed.

Section Sorted.
  Context {V : Type}.

  Lemma sorted_tail (kv : str * V) (l : list (str * V)) : sorted_keys (kv :: l) = true -> sorted_keys l = true.
  Proof.
    destruct kv as [k v]. destruct l as [|kv' l'].
    - intros _. reflexivity.
    - destruct kv' as [k' v']. intros H. change (str_ltb k k' && sorted_keys ((k', v') :: l') = true) in H.
      destruct (str_ltb k k'); [exact H|discriminate H].
  Qed.

  Lemma sorted_head_lt (k : str) (v : V) l : sorted_keys ((k, v) :: l) = true ->
    forall kv, In kv l -> str_ltb k (fst kv) = true.
  Proof.
    revert k v. induction l as [|[k' v'] l IH]; intros k v H kv Hin; [contradiction|].
    change (str_ltb k k' && sorted_keys ((k', v') :: l) = true) in H.
    destruct (str_ltb k k') eqn:Hlt; [|discriminate H]. change (sorted_keys ((k', v') :: l) = true) in H. pose proof H as Hs.
    destruct Hin as [<-|Hin]; [exact Hlt|].
    eapply ltb_trans; [exact Hlt|]. eapply IH; eassumption.
  Qed.

  Lemma insert_end (k : str) (v : V) acc :
    (forall a, In a acc -> str_ltb (fst a) k = true) -> insert_sorted k v acc = acc ++ [(k, v)].
  Proof.
    induction acc as [|[k' v'] acc IH]; intros H; [reflexivity|].
    cbn [insert_sorted app]. assert (str_ltb k' k = true) as Hl by (apply (H (k', v')); left; reflexivity).
    rewrite (ltb_asym _ _ Hl). destruct (ltb_neq _ _ Hl) as [_ ->].
    rewrite IH; [reflexivity|]. intros a Ha. apply H. right. exact Ha.
  Qed.

  Lemma fold_sorted (l : list (str * V)) : forall acc, sorted_keys l = true ->
    (forall a b, In a acc -> In b l -> str_ltb (fst a) (fst b) = true) ->
    fold_left (fun acc kv => insert_sorted (fst kv) (snd kv) acc) l acc = acc ++ l.
  Proof.
    induction l as [|[k v] l IH]; intros acc Hs Hlt; [cbn; rewrite app_nil_r; reflexivity|].
    cbn [fold_left fst snd]. rewrite insert_end.
    - rewrite IH.
      + rewrite <- app_assoc. reflexivity.
      + eapply sorted_tail; exact Hs.
      + intros a b Ha Hb. apply in_app_or in Ha. destruct Ha as [Ha|[<-|[]]].
        * apply Hlt; [exact Ha|right; exact Hb].
        * cbn [fst]. eapply sorted_head_lt; eassumption.
    - intros a Ha. apply (Hlt a (k, v)); [exact Ha|left; reflexivity].
  Qed.

  Lemma sort_sorted (l : list (str * V)) : sorted_keys l = true -> sort_assoc l = l.
  Proof. intros H. unfold sort_assoc. rewrite fold_sorted; [reflexivity|exact H|intros a b []]. Qed.

  Lemma lookup_none (k : str) (l : list (str * V)) :
    (forall kv, In kv l -> str_ltb k (fst kv) = true) -> lookup k l = None.
  Proof.
    induction l as [|[k' v'] l IH]; intros H; [reflexivity|]. cbn [lookup].
    destruct (ltb_neq k k' (H (k', v') (or_introl eq_refl))) as [-> _]. apply IH. intros kv Hin. apply H. right. exact Hin.
  Qed.

  Lemma nodup_sorted (l : list (str * V)) : sorted_keys l = true -> keys_nodup l = true.
  Proof.
    induction l as [|[k v] l IH]; intros H; [reflexivity|]. cbn [keys_nodup]. unfold has_key.
    rewrite lookup_none; [|eapply sorted_head_lt; exact H]. cbn. apply IH. eapply sorted_tail. exact H.
  Qed.
End Sorted.
