(* PolicySetProofs.v — lemmas for C08 *)
From Cedar Require Import PolicySet.
