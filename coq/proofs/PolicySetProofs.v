(* PolicySetProofs.v — lemmas for C08 *)
From Cedar Require Import PolicySet ValueProofs.

Ltac break_match :=
  repeat match goal with
         | |- context [match ?x with _ => _ end] => destruct x eqn:?
         | |- context [if ?x then _ else _] => destruct x eqn:?
         end.

(* a failed operation returns the state unchanged — API level and core level *)
Lemma api_step_fail_noop h o h' e r : api_step h o = (h', (OErr e, r)) -> h' = h.
Proof.
  destruct o; cbn [api_step]; intros H;
    repeat match type of H with
           | context [match ?x with _ => _ end] => destruct x eqn:?
           | context [if ?x then _ else _] => destruct x eqn:?
           end; inversion H; reflexivity.
Qed.

Lemma ast_step_fail_noop h o h' e r : ast_step h o = (h', (OErr e, r)) -> h' = h.
Proof.
  destruct o; cbn [ast_step]; intros H;
    repeat match type of H with
           | context [match ?x with _ => _ end] => destruct x eqn:?
           | context [if ?x then _ else _] => destruct x eqn:?
           end; inversion H; reflexivity.
Qed.

(* link arity: Ok iff the template exists, is not the body of a present static policy, exactly its
   slots are bound and the new id is unused *)
Lemma ps_link_ok_iff s tmpl new env :
  (exists s', ps_link s tmpl new env = OOk s') <->
  (exists t, alookup tmpl (ps_templates s) = Some t /\ (t_is_static t && amem tmpl (ps_links s)) = false /\
             check_binding t env = true /\ bound s new = false).
Proof.
  unfold ps_link, bound. split.
  - intros [s' H]. destruct (alookup tmpl (ps_templates s)) as [t|]; [|discriminate].
    exists t. destruct (t_is_static t && amem tmpl (ps_links s)); [discriminate|].
    destruct (check_binding t env); cbn in H; [|discriminate].
    destruct (amem new (ps_links s)); [discriminate|].
    destruct (amem new (ps_templates s)); [discriminate|]. auto.
  - intros [t [Ht [Hst [Hb Hn]]]]. rewrite Ht, Hst, Hb. cbn.
    apply Bool.orb_false_iff in Hn as [H1 H2]. rewrite H1, H2. eauto.
Qed.

Lemma check_binding_spec t env :
  check_binding t env = true <->
  ((forall s, In s (tslots t) -> env_has s env = true) /\
   (forall s u, In (s, u) env -> exists s', In s' (tslots t) /\ slot_eqb s s' = true)).
Proof.
  unfold check_binding. rewrite Bool.andb_true_iff, !forallb_forall. split.
  - intros [A B]. split; [exact A|]. intros s u Hin. specialize (B _ Hin). cbn in B.
    apply existsb_exists in B. exact B.
  - intros [A B]. split; [exact A|]. intros [s u] Hin. cbn. apply existsb_exists. eapply B; eauto.
Qed.

(* effect and annotations of a link are its template's (definitional in the model, as in the code) *)
Lemma link_effect_annotations t new env :
  peffect (mkPolicy t (Some new) env) = teffect t /\ tannot (ptemplate (mkPolicy t (Some new) env)) = tannot t.
Proof. split; reflexivity. Qed.
