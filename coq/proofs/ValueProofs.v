(* ValueProofs.v — value_eqb is an equivalence; sets are duplicate-free and order-insensitive
   as far as any operation can observe (property C02, set semantics). *)
From Coq Require Import Permutation Lia.
From Cedar Require Import Value.

(* ---------- basic equalities ---------- *)
Lemma str_eqb_refl s : str_eqb s s = true.
Proof. induction s as [|c s IH]; cbn; [reflexivity|]. rewrite N.eqb_refl; assumption. Qed.

Lemma str_eqb_eq a : forall b, str_eqb a b = true <-> a = b.
Proof.
  induction a as [|x a IH]; intros [|y b]; cbn; split; intros H; try reflexivity; try discriminate.
  - apply andb_prop in H as [H1 H2]. apply N.eqb_eq in H1. apply IH in H2. subst; reflexivity.
  - inversion H; subst. rewrite N.eqb_refl. apply IH; reflexivity.
Qed.

Lemma strs_eqb_eq a : forall b, strs_eqb a b = true <-> a = b.
Proof.
  induction a as [|x a IH]; intros [|y b]; cbn; split; intros H; try reflexivity; try discriminate.
  - apply andb_prop in H as [H1 H2]. apply str_eqb_eq in H1. apply IH in H2. subst; reflexivity.
  - inversion H; subst. rewrite str_eqb_refl. apply IH; reflexivity.
Qed.

Lemma uid_eqb_eq a b : uid_eqb a b = true <-> a = b.
Proof.
  unfold uid_eqb, name_eqb; destruct a as [t i], b as [t' i']; cbn; split; intros H.
  - apply andb_prop in H as [H1 H2]. apply strs_eqb_eq in H1. apply str_eqb_eq in H2. subst; reflexivity.
  - inversion H; subst. apply andb_true_intro; split; [apply strs_eqb_eq | apply str_eqb_eq]; reflexivity.
Qed.

Lemma prim_eqb_eq a b : prim_eqb a b = true <-> a = b.
Proof.
  destruct a, b; cbn; split; intros H; try discriminate; try (inversion H; subst).
  - apply Bool.eqb_prop in H; subst; reflexivity.
  - apply Bool.eqb_reflx.
  - apply Z.eqb_eq in H; subst; reflexivity.
  - apply Z.eqb_refl.
  - apply str_eqb_eq in H; subst; reflexivity.
  - apply str_eqb_refl.
  - apply uid_eqb_eq in H; subst; reflexivity.
  - apply uid_eqb_eq; reflexivity.
Qed.

Lemma ext_eqb_eq a b : ext_eqb a b = true <-> a = b.
Proof.
  destruct a as [x|[v a p]|x|x], b as [y|[w b r]|y|y]; cbn; split; intros H; try discriminate; try (inversion H; subst).
  - apply Z.eqb_eq in H; subst; reflexivity.
  - apply Z.eqb_refl.
  - apply andb_prop in H as [H E3]. apply andb_prop in H as [E1 E2].
    apply Bool.eqb_prop in E1. apply N.eqb_eq in E2. apply N.eqb_eq in E3. subst; reflexivity.
  - rewrite Bool.eqb_reflx, !N.eqb_refl; reflexivity.
  - apply Z.eqb_eq in H; subst; reflexivity.
  - apply Z.eqb_refl.
  - apply Z.eqb_eq in H; subst; reflexivity.
  - apply Z.eqb_refl.
Qed.

(* ---------- induction principle for the nested type ---------- *)
Section ValueInd.
  Variable P : value -> Prop.
  Hypothesis Hp : forall p, P (VPrim p).
  Hypothesis Hs : forall l, Forall P l -> P (VSet l).
  Hypothesis Hr : forall l, Forall (fun kv => P (snd kv)) l -> P (VRecord l).
  Hypothesis He : forall x, P (VExt x).

  Fixpoint value_ind' (v : value) : P v :=
    match v with
    | VPrim p => Hp p
    | VSet l => Hs l ((fix go (l : list value) : Forall P l :=
                         match l with
                         | [] => Forall_nil _
                         | x :: l' => Forall_cons _ (value_ind' x) (go l')
                         end) l)
    | VRecord l => Hr l ((fix go (l : list (str * value)) : Forall (fun kv => P (snd kv)) l :=
                            match l with
                            | [] => Forall_nil _
                            | kv :: l' => Forall_cons _ (value_ind' (snd kv)) (go l')
                            end) l)
    | VExt x => He x
    end.
End ValueInd.

(* ---------- unfolding lemmas that hide the nested fixes ---------- *)
Definition sub_eqb (xs ys : list value) : bool := forallb (fun x => existsb (value_eqb x) ys) xs.
Definition sup_eqb (xs ys : list value) : bool := forallb (fun y => existsb (fun x => value_eqb x y) xs) ys.

Fixpoint rec_eqb (xs ys : list (str * value)) : bool :=
  match xs, ys with
  | [], [] => true
  | (k, v) :: xs', (k', v') :: ys' => str_eqb k k' && value_eqb v v' && rec_eqb xs' ys'
  | _, _ => false
  end.

Lemma value_eqb_set xs ys : value_eqb (VSet xs) (VSet ys) = sub_eqb xs ys && sup_eqb xs ys.
Proof. cbn [value_eqb]. f_equal. Qed.

Lemma value_eqb_record xs ys : value_eqb (VRecord xs) (VRecord ys) = rec_eqb xs ys.
Proof.
  cbn [value_eqb]. revert ys; induction xs as [|[k v] xs IH]; intros [|[k' v'] ys]; reflexivity.
Qed.

Lemma sub_eqb_spec xs ys : sub_eqb xs ys = true <-> forall x, In x xs -> exists y, In y ys /\ value_eqb x y = true.
Proof.
  unfold sub_eqb; rewrite forallb_forall; split; intros H x Hx.
  - apply H in Hx. apply existsb_exists in Hx. exact Hx.
  - apply existsb_exists. apply H; assumption.
Qed.

Lemma sup_eqb_spec xs ys : sup_eqb xs ys = true <-> forall y, In y ys -> exists x, In x xs /\ value_eqb x y = true.
Proof.
  unfold sup_eqb; rewrite forallb_forall; split; intros H y Hy.
  - apply H in Hy. apply existsb_exists in Hy. exact Hy.
  - apply existsb_exists. apply H; assumption.
Qed.

(* ---------- equivalence ---------- *)
Theorem value_eqb_refl v : value_eqb v v = true.
Proof.
  induction v as [p|l IH|l IH|x] using value_ind'.
  - apply prim_eqb_eq; reflexivity.
  - rewrite value_eqb_set. apply andb_true_intro; split.
    + apply sub_eqb_spec; intros x Hx; exists x; split; [assumption|].
      rewrite Forall_forall in IH; apply IH; assumption.
    + apply sup_eqb_spec; intros x Hx; exists x; split; [assumption|].
      rewrite Forall_forall in IH; apply IH; assumption.
  - rewrite value_eqb_record. induction l as [|[k v] l IHl]; [reflexivity|].
    inversion IH as [|? ? Hv Hl]; subst. cbn [rec_eqb]. cbn in Hv.
    rewrite str_eqb_refl, Hv. cbn. apply IHl; assumption.
  - apply ext_eqb_eq; reflexivity.
Qed.

Theorem value_eqb_sym a : forall b, value_eqb a b = true -> value_eqb b a = true.
Proof.
  induction a as [p|l IH|l IH|x] using value_ind'; intros b H.
  - destruct b; try discriminate. cbn in *. apply prim_eqb_eq in H; subst. apply prim_eqb_eq; reflexivity.
  - destruct b as [|m| |]; try discriminate. rewrite value_eqb_set in *.
    apply andb_prop in H as [H1 H2]. rewrite Forall_forall in IH.
    apply andb_true_intro; split.
    + apply sub_eqb_spec; intros y Hy.
      apply (proj1 (sup_eqb_spec l m) H2) in Hy as [x [Hx Hxy]].
      exists x; split; [assumption|]. apply IH; assumption.
    + apply sup_eqb_spec; intros x Hx.
      destruct (proj1 (sub_eqb_spec l m) H1 x Hx) as [y [Hy Hxy]].
      exists y; split; [assumption|]. apply IH; assumption.
  - destruct b as [| |m|]; try discriminate. rewrite value_eqb_record in *.
    revert m H; induction l as [|[k v] l IHl]; intros [|[k' v'] m] H; try discriminate; [reflexivity|].
    inversion IH as [|? ? Hv Hl]; subst. cbn [rec_eqb] in *. cbn in Hv.
    apply andb_prop in H as [H H3]. apply andb_prop in H as [H1 H2].
    apply str_eqb_eq in H1; subst. rewrite str_eqb_refl, (Hv _ H2). cbn. apply IHl; assumption.
  - destruct b; try discriminate. cbn in *. apply ext_eqb_eq in H; subst. apply ext_eqb_eq; reflexivity.
Qed.

Theorem value_eqb_trans a : forall b c, value_eqb a b = true -> value_eqb b c = true -> value_eqb a c = true.
Proof.
  induction a as [p|l IH|l IH|x] using value_ind'; intros b c H1 H2.
  - destruct b; try discriminate. destruct c; try discriminate. cbn in *.
    apply prim_eqb_eq in H1, H2; subst. apply prim_eqb_eq; reflexivity.
  - destruct b as [|m| |]; try discriminate. destruct c as [|n| |]; try discriminate.
    rewrite value_eqb_set in *.
    apply andb_prop in H1 as [A1 A2]. apply andb_prop in H2 as [B1 B2]. rewrite Forall_forall in IH.
    apply andb_true_intro; split.
    + apply sub_eqb_spec; intros x Hx.
      destruct (proj1 (sub_eqb_spec l m) A1 x Hx) as [y [Hy Hxy]].
      destruct (proj1 (sub_eqb_spec m n) B1 y Hy) as [z [Hz Hyz]].
      exists z; split; [assumption|]. eapply IH; eassumption.
    + apply sup_eqb_spec; intros z Hz.
      destruct (proj1 (sup_eqb_spec m n) B2 z Hz) as [y [Hy Hyz]].
      destruct (proj1 (sup_eqb_spec l m) A2 y Hy) as [x [Hx Hxy]].
      exists x; split; [assumption|]. eapply IH; eassumption.
  - destruct b as [| |m|]; try discriminate. destruct c as [| |n|]; try discriminate.
    rewrite value_eqb_record in *.
    revert m n H1 H2; induction l as [|[k v] l IHl]; intros [|[k' v'] m] [|[k'' v''] n] H1 H2; try discriminate; [reflexivity|].
    inversion IH as [|? ? Hv Hl]; subst. cbn [rec_eqb] in *. cbn in Hv.
    apply andb_prop in H1 as [H1 A3]. apply andb_prop in H1 as [A1 A2].
    apply andb_prop in H2 as [H2 B3]. apply andb_prop in H2 as [B1 B2].
    apply str_eqb_eq in A1, B1; subst. rewrite str_eqb_refl, (Hv _ _ A2 B2). cbn. eapply IHl; eassumption.
  - destruct b; try discriminate. destruct c; try discriminate. cbn in *.
    apply ext_eqb_eq in H1, H2; subst. apply ext_eqb_eq; reflexivity.
Qed.

(* ---------- membership semantics of sets ---------- *)
Lemma set_mem_spec v s : set_mem v s = true <-> exists y, In y s /\ value_eqb v y = true.
Proof. unfold set_mem. apply existsb_exists. Qed.

Lemma set_mem_respects v v' s : value_eqb v v' = true -> set_mem v s = set_mem v' s.
Proof.
  intros E. apply Bool.eq_true_iff_eq. rewrite !set_mem_spec. split; intros [y [Hy H]]; exists y; split; auto.
  - eapply value_eqb_trans; [apply value_eqb_sym; eassumption | assumption].
  - eapply value_eqb_trans; eassumption.
Qed.

(* two sets are `==` exactly when they have the same members *)
Theorem set_eq_iff_same_members xs ys :
  value_eqb (VSet xs) (VSet ys) = true <-> forall v, set_mem v xs = set_mem v ys.
Proof.
  rewrite value_eqb_set. split.
  - intros H v. apply andb_prop in H as [H1 H2]. apply Bool.eq_true_iff_eq. rewrite !set_mem_spec. split.
    + intros [x [Hx Hvx]]. destruct (proj1 (sub_eqb_spec xs ys) H1 x Hx) as [y [Hy Hxy]].
      exists y; split; [assumption|]. eapply value_eqb_trans; eassumption.
    + intros [y [Hy Hvy]]. destruct (proj1 (sup_eqb_spec xs ys) H2 y Hy) as [x [Hx Hxy]].
      exists x; split; [assumption|]. eapply value_eqb_trans; [eassumption | apply value_eqb_sym; assumption].
  - intros H. apply andb_true_intro; split.
    + apply sub_eqb_spec; intros x Hx.
      assert (M : set_mem x xs = true) by (apply set_mem_spec; exists x; split; [assumption | apply value_eqb_refl]).
      rewrite H in M. apply set_mem_spec in M. exact M.
    + apply sup_eqb_spec; intros y Hy.
      assert (M : set_mem y ys = true) by (apply set_mem_spec; exists y; split; [assumption | apply value_eqb_refl]).
      rewrite <- H in M. apply set_mem_spec in M as [x [Hx Hyx]].
      exists x; split; [assumption | apply value_eqb_sym; assumption].
Qed.

Lemma set_mem_perm v xs ys : Permutation xs ys -> set_mem v xs = set_mem v ys.
Proof.
  intros P. apply Bool.eq_true_iff_eq. rewrite !set_mem_spec.
  split; intros [y [Hy H]]; exists y; split; auto; [eapply Permutation_in | eapply Permutation_in; [apply Permutation_sym|]]; eassumption.
Qed.

(* order of elements is unobservable *)
Theorem set_order_insensitive xs ys : Permutation xs ys -> value_eqb (VSet xs) (VSet ys) = true.
Proof. intros P. apply set_eq_iff_same_members. intros v. apply set_mem_perm; assumption. Qed.

(* duplicates are unobservable *)
Theorem set_duplicate_insensitive x xs : value_eqb (VSet (x :: x :: xs)) (VSet (x :: xs)) = true.
Proof.
  apply set_eq_iff_same_members. intros v. unfold set_mem. cbn [existsb].
  destruct (value_eqb v x); reflexivity.
Qed.

(* contains / containsAll / containsAny / isEmpty denote membership, inclusion, overlap, emptiness *)
Theorem set_subset_spec a b : set_subset a b = true <-> forall v, set_mem v a = true -> set_mem v b = true.
Proof.
  unfold set_subset. rewrite forallb_forall. split.
  - intros H v Hv. apply set_mem_spec in Hv as [x [Hx Hvx]]. rewrite (set_mem_respects v x b Hvx). apply H; assumption.
  - intros H x Hx. apply H. apply set_mem_spec. exists x; split; [assumption | apply value_eqb_refl].
Qed.

Theorem set_disjoint_spec a b : set_disjoint a b = false <-> exists v, set_mem v a = true /\ set_mem v b = true.
Proof.
  unfold set_disjoint. split.
  - intros H. destruct (forallb (fun x => negb (set_mem x b)) a) eqn:E; [discriminate|].
    assert (X : existsb (fun x => set_mem x b) a = true).
    { clear H. induction a as [|x a IH]; cbn in *; [discriminate|].
      destruct (set_mem x b); cbn in *; [reflexivity | apply IH; assumption]. }
    apply existsb_exists in X as [x [Hx Hb]]. exists x; split; [|assumption].
    apply set_mem_spec; exists x; split; [assumption | apply value_eqb_refl].
  - intros [v [Ha Hb]]. apply set_mem_spec in Ha as [x [Hx Hvx]].
    rewrite (set_mem_respects v x b Hvx) in Hb.
    destruct (forallb (fun x0 => negb (set_mem x0 b)) a) eqn:E; [|reflexivity].
    rewrite forallb_forall in E. specialize (E x Hx). rewrite Hb in E. discriminate.
Qed.

(* set operations respect `==` on their set arguments *)
Theorem set_mem_respects_set v xs ys :
  value_eqb (VSet xs) (VSet ys) = true -> set_mem v xs = set_mem v ys.
Proof. intros H. apply set_eq_iff_same_members; assumption. Qed.
