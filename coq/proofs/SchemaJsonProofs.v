(* SchemaJsonProofs.v — the JSON-tree codec of schema fragments round-trips (C09). *)
From Coq Require Import String Bool.
From Cedar Require Import SchemaJson.
Open Scope string_scope.

Definition enc_attr (e : str * (tyx * bool)) : str * json :=
  (fst e, JObj (mkf ((if snd (snd e) then [] else [("required", JBool false)]) ++ enc_fields (fst (snd e))))).

Lemma go_eq attrs :
  (fix go (l : list (str * (tyx * bool))) : list (str * json) :=
     match l with
     | [] => []
     | (k, (a, r)) :: l' =>
         (k, JObj (mkf ((if r then [] else [("required", JBool false)]) ++ enc_fields a))) :: go l'
     end) attrs = map enc_attr attrs.
Proof.
  induction attrs as [|[k [a r]] l IHl]; [reflexivity|].
  cbn [map]. rewrite <- IHl. reflexivity.
Qed.

Lemma enc_fields_record attrs o :
  enc_fields (XRecord attrs o) =
  ("type", JName (kw "Record")) :: ("attributes", JMap (mke (map enc_attr attrs))) ::
  (if o then [("additionalAttributes", JBool true)] else []).
Proof. cbn [enc_fields]. rewrite go_eq. reflexivity. Qed.

Lemma dec_attr_enc (a : tyx) (r : bool) :
  dec_tf (mkf (enc_fields a)) = Some a ->
  dec_attr (JObj (mkf ((if r then [] else [("required", JBool false)]) ++ enc_fields a))) = Some (a, r).
Proof.
  intros H. destruct r.
  - cbn [app]. destruct (enc_fields a) as [|[k v] tl]; [discriminate H|].
    cbn [mkf] in *. destruct v; try discriminate H.
    cbn [dec_attr]. rewrite H. reflexivity.
  - cbn [app mkf dec_attr]. cbn [String.eqb Ascii.eqb Bool.eqb]. rewrite H. reflexivity.
Qed.

Lemma dec_attrs_enc attrs :
  (forall k a r, In (k, (a, r)) attrs -> dec_tf (mkf (enc_fields a)) = Some a) ->
  dec_attrs (mke (map enc_attr attrs)) = Some attrs.
Proof.
  induction attrs as [|[k [a r]] l IHl]; intros H; [reflexivity|].
  cbn [map mke dec_attrs enc_attr fst snd].
  rewrite (dec_attr_enc a r (H k a r (or_introl eq_refl))).
  rewrite IHl; [reflexivity|]. intros k' a' r' Hin. apply (H k' a' r'). right. exact Hin.
Qed.

Lemma not_keyword n s : is_type_keyword n = false -> In s type_keywords -> name_eqb n (kw s) = false.
Proof.
  unfold is_type_keyword. intros H Hin.
  destruct (name_eqb n (kw s)) eqn:E; [|reflexivity].
  assert (existsb (fun k => name_eqb n (kw k)) type_keywords = true).
  { apply existsb_exists. exists s. split; assumption. }
  congruence.
Qed.

Lemma dec_tf_enc : forall t, wf_ty t = true -> dec_tf (mkf (enc_fields t)) = Some t.
Proof.
  fix IH 1. intros t. destruct t as [p|n|e|attrs o|n|n|n]; intros H.
  - destruct p; reflexivity.
  - reflexivity.
  - cbn [wf_ty] in H.
    change (option_map XSet (dec_tf (mkf (enc_fields e))) = Some (XSet e)).
    rewrite (IH e H). reflexivity.
  - rewrite enc_fields_record.
    assert (HA : dec_attrs (mke (map enc_attr attrs)) = Some attrs).
    { cbn [wf_ty] in H.
      induction attrs as [|[k [a r]] l IHl]; [reflexivity|].
      simpl in H. apply andb_true_iff in H. destruct H as [Ha Hl].
      cbn [map mke dec_attrs enc_attr fst snd].
      rewrite (dec_attr_enc a r (IH a Ha)), (IHl Hl). reflexivity. }
    destruct o.
    + change (option_map (fun a => XRecord a true) (dec_attrs (mke (map enc_attr attrs))) = Some (XRecord attrs true)).
      rewrite HA. reflexivity.
    + change (option_map (fun a => XRecord a false) (dec_attrs (mke (map enc_attr attrs))) = Some (XRecord attrs false)).
      rewrite HA. reflexivity.
  - reflexivity.
  - cbn [wf_ty] in H. apply negb_true_iff in H.
    change (dec_leaf n = Some (XCommon n)). unfold dec_leaf.
    rewrite (not_keyword n "Long" H), (not_keyword n "String" H), (not_keyword n "Boolean" H), H;
      [reflexivity| | |]; cbn; tauto.
  - reflexivity.
Qed.

Lemma dec_ty_enc t : wf_ty t = true -> dec_ty (enc_ty t) = Some t.
Proof. intros H. unfold enc_ty. cbn [dec_ty]. apply dec_tf_enc, H. Qed.

Lemma dec_names_enc l : dec_names (mkl (map JName l)) = Some l.
Proof. induction l as [|n l IH]; [reflexivity|]. cbn [map mkl dec_names]. rewrite IH. reflexivity. Qed.
Lemma dec_strs_enc l : dec_strs (mkl (map JStr l)) = Some l.
Proof. induction l as [|n l IH]; [reflexivity|]. cbn [map mkl dec_strs]. rewrite IH. reflexivity. Qed.

Lemma dec_entdecl_enc e : wf_entdecl e = true -> dec_entdecl (enc_entdecl e) = Some e.
Proof.
  destruct e as [ps shape tags|ch]; intros H.
  - cbn [wf_entdecl] in H. apply andb_true_iff in H. destruct H as [Hs Ht].
    destruct tags as [t|].
    + change (match dec_names (mkl (map JName ps)), dec_ty (enc_ty shape) with
              | Some ps0, Some sh => option_map (fun t0 => EStd ps0 sh (Some t0)) (dec_ty (enc_ty t))
              | _, _ => None
              end = Some (EStd ps shape (Some t))).
      rewrite dec_names_enc, (dec_ty_enc shape Hs), (dec_ty_enc t Ht). reflexivity.
    + change (match dec_names (mkl (map JName ps)), dec_ty (enc_ty shape) with
              | Some ps0, Some sh => Some (EStd ps0 sh None)
              | _, _ => None
              end = Some (EStd ps shape None)).
      rewrite dec_names_enc, (dec_ty_enc shape Hs). reflexivity.
  - change (option_map EEnum (dec_strs (mkl (map JStr ch))) = Some (EEnum ch)).
    rewrite dec_strs_enc. reflexivity.
Qed.

Lemma dec_aref_enc r : dec_aref (enc_aref r) = Some r.
Proof. destruct r as [[t|] id]; reflexivity. Qed.

Lemma dec_arefs_enc l : dec_arefs (mkl (map enc_aref l)) = Some l.
Proof.
  induction l as [|r l IH]; [reflexivity|].
  cbn [map mkl dec_arefs]. rewrite dec_aref_enc, IH. reflexivity.
Qed.

Lemma dec_applies_enc ps rs ctx :
  wf_ty ctx = true ->
  dec_applies (JObj (mkf [("principalTypes", enc_names ps); ("resourceTypes", enc_names rs); ("context", enc_ty ctx)]))
  = Some (ps, rs, ctx).
Proof.
  intros H.
  change (match dec_names (mkl (map JName ps)), dec_names (mkl (map JName rs)), dec_ty (enc_ty ctx) with
          | Some ps0, Some rs0, Some c => Some (ps0, rs0, c)
          | _, _, _ => None
          end = Some (ps, rs, ctx)).
  rewrite !dec_names_enc, (dec_ty_enc ctx H). reflexivity.
Qed.

Lemma dec_actdecl_enc a : wf_actdecl a = true -> dec_actdecl (enc_actdecl a) = Some a.
Proof.
  destruct a as [mo ap]. unfold wf_actdecl, enc_actdecl. cbn [ad_member_of ad_applies].
  destruct mo as [l|]; destruct ap as [[[ps rs] ctx]|]; intros H.
  - change (match dec_arefs (mkl (map enc_aref l)),
                  dec_applies (JObj (mkf [("principalTypes", enc_names ps); ("resourceTypes", enc_names rs); ("context", enc_ty ctx)])) with
            | Some m, Some a => Some (mkActDecl (Some m) (Some a))
            | _, _ => None
            end = Some (mkActDecl (Some l) (Some (ps, rs, ctx)))).
    rewrite dec_arefs_enc, (dec_applies_enc ps rs ctx H). reflexivity.
  - change (option_map (fun m => mkActDecl (Some m) None) (dec_arefs (mkl (map enc_aref l))) = Some (mkActDecl (Some l) None)).
    rewrite dec_arefs_enc. reflexivity.
  - change (option_map (fun a => mkActDecl None (Some a))
              (dec_applies (JObj (mkf [("principalTypes", enc_names ps); ("resourceTypes", enc_names rs); ("context", enc_ty ctx)])))
            = Some (mkActDecl None (Some (ps, rs, ctx)))).
    rewrite (dec_applies_enc ps rs ctx H). reflexivity.
  - reflexivity.
Qed.

Lemma dec_entries_enc {A} (enc : A -> json) (dec : json -> option A) (wf : A -> bool) (l : list (str * A)) :
  (forall a, wf a = true -> dec (enc a) = Some a) ->
  forallb (fun x => wf (snd x)) l = true ->
  dec_entries dec (mke (map (fun x => (fst x, enc (snd x))) l)) = Some l.
Proof.
  intros Hd. induction l as [|[k a] l IH]; intros H; [reflexivity|].
  cbn [forallb snd] in H. apply andb_true_iff in H. destruct H as [Ha Hl].
  cbn [map mke dec_entries fst snd]. rewrite (Hd a Ha), (IH Hl). reflexivity.
Qed.

Lemma dec_nsdef_enc ns : wf_nsdef ns = true -> dec_nsdef (ns_name ns) (enc_nsdef ns) = Some ns.
Proof.
  destruct ns as [n cs es acts]. unfold wf_nsdef. cbn [ns_name ns_commons ns_entities ns_actions].
  intros H. apply andb_true_iff in H. destruct H as [H Ha]. apply andb_true_iff in H. destruct H as [Hc He].
  change (match dec_entries dec_ty (mke (map (fun c => (fst c, enc_ty (snd c))) cs)),
                dec_entries dec_entdecl (mke (map (fun e => (fst e, enc_entdecl (snd e))) es)),
                dec_entries dec_actdecl (mke (map (fun a => (fst a, enc_actdecl (snd a))) acts)) with
          | Some cs0, Some es0, Some acts0 => Some (mkNs n cs0 es0 acts0)
          | _, _, _ => None
          end = Some (mkNs n cs es acts)).
  rewrite (dec_entries_enc enc_ty dec_ty wf_ty cs dec_ty_enc Hc).
  rewrite (dec_entries_enc enc_entdecl dec_entdecl wf_entdecl es dec_entdecl_enc He).
  rewrite (dec_entries_enc enc_actdecl dec_actdecl wf_actdecl acts dec_actdecl_enc Ha).
  reflexivity.
Qed.

Lemma json_roundtrip : forall f, wf_fragment f = true -> json_to_fragment (fragment_to_json f) = Some f.
Proof.
  intros f. unfold fragment_to_json, json_to_fragment, wf_fragment.
  induction f as [|ns f IH]; intros H; [reflexivity|].
  cbn [forallb] in H. apply andb_true_iff in H. destruct H as [Hn Hf].
  cbn [map mkn dec_nss]. rewrite (dec_nsdef_enc ns Hn), (IH Hf). reflexivity.
Qed.

(* the well-formedness condition is necessary: {"type": "Long"} is the primitive, never a common type *)
Lemma json_roundtrip_needs_wf :
  json_to_fragment (fragment_to_json [mkNs [] [(s2str "T", XCommon (kw "Long"))] [] []])
  = Some [mkNs [] [(s2str "T", XPrim PLong)] [] []].
Proof. reflexivity. Qed.
