(* FmtProofs.v — lemmas about the formatter validator (model/Fmt.v). *)
From Cedar Require Import Fmt ValueProofs.

Lemma token_eqb_eq a b : token_eqb a b = true <-> a = b.
Proof.
  destruct a, b; cbn; split; intros H; try discriminate; try (inversion H; subst; apply str_eqb_refl);
    apply str_eqb_eq in H; subst; reflexivity.
Qed.

Lemma item_eqb_eq a b : item_eqb a b = true <-> a = b.
Proof.
  destruct a, b; cbn; split; intros H; try discriminate.
  - apply token_eqb_eq in H; subst; reflexivity.
  - inversion H; subst. apply token_eqb_eq; reflexivity.
  - apply str_eqb_eq in H; subst; reflexivity.
  - inversion H; subst. apply str_eqb_refl.
Qed.

Lemma items_eqb_eq a : forall b, items_eqb a b = true <-> a = b.
Proof.
  induction a as [|x a IH]; intros [|y b]; cbn; split; intros H; try discriminate; try reflexivity.
  - apply andb_prop in H as [H1 H2]. apply item_eqb_eq in H1. apply IH in H2. subst; reflexivity.
  - inversion H; subst. apply andb_true_intro; split; [apply item_eqb_eq | apply IH]; reflexivity.
Qed.

(* the executable validator decides the relational specification *)
Lemma fmt_okb_iff a b : fmt_okb a b = true <-> fmt_ok a b.
Proof.
  unfold fmt_okb, fmt_ok. split.
  - destruct (clex a) as [la|] eqn:Ea; [|discriminate]. destruct (clex b) as [lb|] eqn:Eb; [|discriminate].
    intros H. apply items_eqb_eq in H. subst. exists lb; split; reflexivity.
  - intros [l [Ha Hb]]. rewrite Ha, Hb. apply items_eqb_eq; reflexivity.
Qed.

Lemma fmt_ok_clex a b : fmt_ok a b -> clex b = clex a /\ clex a <> None.
Proof. intros [l [Ha Hb]]. rewrite Ha, Hb. split; [reflexivity | discriminate]. Qed.

Lemma fmt_ok_comments inp out :
  fmt_ok inp out -> comments out = comments inp /\ comments inp <> None.
Proof.
  intros [l [Ha Hb]]. unfold comments. rewrite Ha, Hb. split; [reflexivity | discriminate].
Qed.

Lemma fmt_ok_tokens inp out :
  fmt_ok inp out -> tokens out = tokens inp /\ tokens inp <> None.
Proof.
  intros [l [Ha Hb]]. unfold tokens. rewrite Ha, Hb. split; [reflexivity | discriminate].
Qed.

(* any parser that is a function of the token list cannot tell input and output apart *)
Lemma fmt_ok_parse (A : Type) (parse : list token -> A) inp out :
  fmt_ok inp out -> option_map parse (tokens out) = option_map parse (tokens inp).
Proof. intros H. apply fmt_ok_tokens in H as [H _]. rewrite H; reflexivity. Qed.

Lemma fmt_ok_refl a : clex a <> None -> fmt_ok a a.
Proof. unfold fmt_ok. destruct (clex a) as [l|]; [intros _; exists l; split; reflexivity | intros H; contradiction H; reflexivity]. Qed.

Lemma fmt_ok_sym a b : fmt_ok a b -> fmt_ok b a.
Proof. intros [l [Ha Hb]]. exists l; split; assumption. Qed.

Lemma fmt_ok_trans a b c : fmt_ok a b -> fmt_ok b c -> fmt_ok a c.
Proof.
  intros [l [Ha Hb]] [l' [Hb' Hc]]. rewrite Hb in Hb'. inversion Hb'; subst. exists l'; split; assumption.
Qed.

Section Formatter.
  (* an arbitrary formatter (one width/indent configuration) about which two facts are known;
     both are validated on the implementation by every run of the check *)
  Variable f : str -> str.
  (* F2: the output is accepted by the validator *)
  Hypothesis F2 : forall a, clex a <> None -> fmt_ok a (f a).
  (* F1: on comment-free inputs the output is a function of the token sequence *)
  Hypothesis F1 : forall a b, comment_free a -> comment_free b -> tokens a = tokens b -> f a = f b.

  Fixpoint iter (n : nat) (a : str) : str := match n with O => a | S n' => f (iter n' a) end.

  Lemma reformat_preserves n : forall a, clex a <> None -> fmt_ok a (iter n a).
  Proof.
    induction n as [|n IH]; intros a Ha; cbn.
    - apply fmt_ok_refl; assumption.
    - specialize (IH a Ha). eapply fmt_ok_trans; [exact IH|]. apply F2.
      destruct (fmt_ok_clex _ _ IH) as [E N]. rewrite E; assumption.
  Qed.

  Lemma idempotent a : clex a <> None -> comment_free a -> f (f a) = f a.
  Proof.
    intros Ha Hc. pose proof (F2 a Ha) as H.
    destruct (fmt_ok_comments _ _ H) as [Hcm _]. destruct (fmt_ok_tokens _ _ H) as [Htk _].
    symmetry. apply F1; [assumption | | symmetry; assumption].
    unfold comment_free in *. rewrite Hcm; assumption.
  Qed.
End Formatter.
