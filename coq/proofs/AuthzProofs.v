(* AuthzProofs.v — lemmas about Authz.v (property C01). *)
From Coq Require Import Permutation Lia.
From Cedar Require Import Authz.

Section Proofs.
  Variable evalp : policy -> res bool.

  Definition is_permit (p : policy) : bool := match peffect p with Permit => true | Forbid => false end.
  Definition is_forbid (p : policy) : bool := negb (is_permit p).
  Definition is_sat (p : policy) : bool := match evalp p with Ok true => true | _ => false end.
  Definition is_unsat (p : policy) : bool := match evalp p with Ok false => true | _ => false end.

  (* closed forms of the five buckets *)
  Definition tp (ps : list policy) := map pid (filter (fun p => is_permit p && is_sat p) ps).
  Definition tf (ps : list policy) := map pid (filter (fun p => is_forbid p && is_sat p) ps).
  Definition fb (want_permit : bool) (ps : list policy) : list (str * bool) :=
    flat_map (fun p => if Bool.eqb (is_permit p) want_permit then
                         match evalp p with
                         | Ok true => []
                         | Ok false => [(pid p, false)]
                         | Err _ => [(pid p, true)]
                         end
                       else []) ps.
  Definition er (ps : list policy) : list (str * err) :=
    flat_map (fun p => match evalp p with Err e => [(pid p, e)] | _ => [] end) ps.

  Definition bapp (a b : buckets) : buckets :=
    mkBuckets (true_permits a ++ true_permits b) (true_forbids a ++ true_forbids b)
              (false_permits a ++ false_permits b) (false_forbids a ++ false_forbids b)
              (errors a ++ errors b).

  Definition closed (ps : list policy) : buckets :=
    mkBuckets (tp ps) (tf ps) (fb true ps) (fb false ps) (er ps).

  Definition step (b : buckets) (p : policy) : buckets :=
    classify b (pid p) (peffect p) (outcome_of (evalp p)).

  Lemma step_closed b p : step b p = bapp b (closed [p]).
  Proof.
    unfold step, closed, tp, tf, fb, er, bapp, classify, outcome_of, is_sat, is_forbid, is_permit.
    destruct b as [a1 a2 a3 a4 a5]; cbn.
    destruct (peffect p); destruct (evalp p) as [[|]|e]; cbn; rewrite ?app_nil_r; reflexivity.
  Qed.

  Lemma closed_cons p ps : closed (p :: ps) = bapp (closed [p]) (closed ps).
  Proof.
    unfold closed, bapp, tp, tf, fb, er; cbn [true_permits true_forbids false_permits false_forbids errors].
    cbn [filter flat_map map].
    f_equal.
    - destruct (is_permit p && is_sat p); cbn; reflexivity.
    - destruct (is_forbid p && is_sat p); cbn; reflexivity.
    - rewrite app_nil_r; reflexivity.
    - rewrite app_nil_r; reflexivity.
    - rewrite app_nil_r; reflexivity.
  Qed.

  Lemma bapp_assoc a b c : bapp (bapp a b) c = bapp a (bapp b c).
  Proof. unfold bapp; cbn; rewrite !app_assoc; reflexivity. Qed.

  Lemma fold_closed ps : forall b, fold_left step ps b = bapp b (closed ps).
  Proof.
    induction ps as [|p ps IH]; intros b; cbn [fold_left].
    - destruct b; unfold bapp, closed; cbn; rewrite !app_nil_r; reflexivity.
    - rewrite IH, step_closed, bapp_assoc, <- closed_cons; reflexivity.
  Qed.

  Lemma auth_core_closed ps : auth_core evalp ps = closed ps.
  Proof.
    unfold auth_core. change (fold_left step ps empty_buckets = closed ps).
    rewrite fold_closed. unfold bapp, empty_buckets, closed; cbn. reflexivity.
  Qed.

  (* ---- membership characterisations ---- *)
  Lemma in_tp i ps : In i (tp ps) <-> exists p, In p ps /\ pid p = i /\ peffect p = Permit /\ evalp p = Ok true.
  Proof.
    unfold tp; rewrite in_map_iff; split.
    - intros [p [Hid Hin]]; apply filter_In in Hin as [Hin Hc]; exists p.
      apply andb_prop in Hc as [H1 H2]; unfold is_permit, is_sat in *.
      destruct (peffect p); try discriminate; destruct (evalp p) as [[|]|]; try discriminate; auto.
    - intros [p [Hin [Hid [He Hs]]]]; exists p; split; [assumption|].
      apply filter_In; split; [assumption|]; unfold is_permit, is_sat; rewrite He, Hs; reflexivity.
  Qed.

  Lemma in_tf i ps : In i (tf ps) <-> exists p, In p ps /\ pid p = i /\ peffect p = Forbid /\ evalp p = Ok true.
  Proof.
    unfold tf; rewrite in_map_iff; split.
    - intros [p [Hid Hin]]; apply filter_In in Hin as [Hin Hc]; exists p.
      apply andb_prop in Hc as [H1 H2]; unfold is_forbid, is_permit, is_sat in *.
      destruct (peffect p); try discriminate; destruct (evalp p) as [[|]|]; try discriminate; auto.
    - intros [p [Hin [Hid [He Hs]]]]; exists p; split; [assumption|].
      apply filter_In; split; [assumption|]; unfold is_forbid, is_permit, is_sat; rewrite He, Hs; reflexivity.
  Qed.

  Lemma in_er i e ps : In (i, e) (er ps) <-> exists p, In p ps /\ pid p = i /\ evalp p = Err e.
  Proof.
    unfold er; rewrite in_flat_map; split.
    - intros [p [Hin H]]; exists p; destruct (evalp p) as [b|e']; cbn in H; [contradiction|].
      destruct H as [H|[]]; inversion H; subst; auto.
    - intros [p [Hin [Hid He]]]; exists p; split; [assumption|]; rewrite He; cbn; left; subst; reflexivity.
  Qed.

  Lemma tp_nonempty ps : tp ps <> [] <-> exists p, In p ps /\ peffect p = Permit /\ evalp p = Ok true.
  Proof.
    split.
    - intros H; destruct (tp ps) as [|i l] eqn:E; [congruence|].
      assert (Hi : In i (tp ps)) by (rewrite E; left; reflexivity).
      apply in_tp in Hi as [p [? [? [? ?]]]]; eauto.
    - intros [p [Hin [He Hs]]] E.
      assert (Hi : In (pid p) (tp ps)) by (apply in_tp; eauto).
      rewrite E in Hi; contradiction.
  Qed.

  Lemma tf_nonempty ps : tf ps <> [] <-> exists p, In p ps /\ peffect p = Forbid /\ evalp p = Ok true.
  Proof.
    split.
    - intros H; destruct (tf ps) as [|i l] eqn:E; [congruence|].
      assert (Hi : In i (tf ps)) by (rewrite E; left; reflexivity).
      apply in_tf in Hi as [p [? [? [? ?]]]]; eauto.
    - intros [p [Hin [He Hs]]] E.
      assert (Hi : In (pid p) (tf ps)) by (apply in_tf; eauto).
      rewrite E in Hi; contradiction.
  Qed.

  Definition sat_permit ps := exists p, In p ps /\ peffect p = Permit /\ evalp p = Ok true.
  Definition sat_forbid ps := exists p, In p ps /\ peffect p = Forbid /\ evalp p = Ok true.

  Theorem decision_allow_iff ps :
    rdecision (authorize_with evalp ps) = Allow <-> sat_permit ps /\ ~ sat_forbid ps.
  Proof.
    unfold authorize_with; rewrite auth_core_closed; unfold concretize, closed; cbn.
    pose proof (tp_nonempty ps) as HP; pose proof (tf_nonempty ps) as HF.
    unfold sat_permit, sat_forbid.
    destruct (tp ps) as [|i l]; destruct (tf ps) as [|j m]; cbn.
    - split; [discriminate|]. intros [H _]; apply HP in H; congruence.
    - split; [discriminate|]. intros [H _]; apply HP in H; congruence.
    - split; [|reflexivity]. intros _; split; [apply HP; discriminate | intros C; apply HF in C; congruence].
    - split; [discriminate|]. intros [_ H]; exfalso; apply H, HF; discriminate.
  Qed.

  Theorem decision_deny_iff ps :
    rdecision (authorize_with evalp ps) = Deny <-> ~ (sat_permit ps /\ ~ sat_forbid ps).
  Proof.
    rewrite <- decision_allow_iff. destruct (rdecision (authorize_with evalp ps)); split; intros H.
    - discriminate.
    - exfalso; apply H; reflexivity.
    - discriminate.
    - reflexivity.
  Qed.

  Theorem errors_iff ps i e :
    In (i, e) (rerrors (authorize_with evalp ps)) <-> exists p, In p ps /\ pid p = i /\ evalp p = Err e.
  Proof. unfold authorize_with; rewrite auth_core_closed; unfold concretize, closed; cbn; apply in_er. Qed.

  Theorem error_not_satisfied ps i e :
    In (i, e) (rerrors (authorize_with evalp ps)) ->
    exists p, In p ps /\ pid p = i /\ evalp p <> Ok true.
  Proof. intros H; apply errors_iff in H as [p [? [? He]]]; exists p; repeat split; auto; congruence. Qed.

  Theorem reasons_iff ps i :
    In i (rreasons (authorize_with evalp ps)) <->
    (sat_forbid ps /\ exists p, In p ps /\ pid p = i /\ peffect p = Forbid /\ evalp p = Ok true) \/
    (~ sat_forbid ps /\ exists p, In p ps /\ pid p = i /\ peffect p = Permit /\ evalp p = Ok true).
  Proof.
    unfold authorize_with; rewrite auth_core_closed; unfold concretize, closed; cbn.
    pose proof (tf_nonempty ps) as HF; fold (sat_forbid ps) in HF.
    remember (tf ps) as T eqn:E. destruct T as [|j m]; cbn iota.
    - rewrite in_tp; split.
      + intros H; right; split; [intros C; apply HF in C; congruence | assumption].
      + intros [[C _]|[_ H]]; [apply HF in C; congruence | assumption].
    - rewrite E, in_tf; split.
      + intros H; left; split; [apply HF; discriminate | assumption].
      + intros [[_ H]|[C _]]; [assumption | exfalso; apply C, HF; discriminate].
  Qed.

  (* ---- order independence ---- *)
  Record resp_equiv (a b : response) : Prop := {
    re_decision : rdecision a = rdecision b;
    re_reasons : Permutation (rreasons a) (rreasons b);
    re_errors : Permutation (rerrors a) (rerrors b)
  }.

  Lemma filter_perm {A} (f : A -> bool) l l' : Permutation l l' -> Permutation (filter f l) (filter f l').
  Proof.
    induction 1; cbn.
    - constructor.
    - destruct (f x); [constructor|]; assumption.
    - destruct (f x), (f y); auto using perm_swap, Permutation_refl.
    - eapply Permutation_trans; eassumption.
  Qed.

  Lemma flat_map_perm {A B} (f : A -> list B) l l' : Permutation l l' -> Permutation (flat_map f l) (flat_map f l').
  Proof.
    induction 1; cbn.
    - constructor.
    - apply Permutation_app_head; assumption.
    - rewrite !app_assoc. apply Permutation_app_tail, Permutation_app_comm.
    - eapply Permutation_trans; eassumption.
  Qed.

  Lemma perm_shape {A} (l l' : list A) :
    Permutation l l' -> (l = [] /\ l' = []) \/ (exists a t a' t', l = a :: t /\ l' = a' :: t').
  Proof.
    intros H. destruct l as [|a t], l' as [|a' t'].
    - left; split; reflexivity.
    - apply Permutation_nil in H; discriminate.
    - apply Permutation_sym, Permutation_nil in H; discriminate.
    - right; exists a, t, a', t'; split; reflexivity.
  Qed.

  Theorem authorize_perm ps ps' :
    Permutation ps ps' -> resp_equiv (authorize_with evalp ps) (authorize_with evalp ps').
  Proof.
    intros HP. unfold authorize_with; rewrite !auth_core_closed.
    assert (Htp : Permutation (tp ps) (tp ps')) by (apply Permutation_map, filter_perm, HP).
    assert (Htf : Permutation (tf ps) (tf ps')) by (apply Permutation_map, filter_perm, HP).
    assert (Her : Permutation (er ps) (er ps')) by (apply flat_map_perm, HP).
    unfold concretize, closed; cbn.
    destruct (perm_shape _ _ Htp) as [[P1 P2]|(a & t & a' & t' & P1 & P2)];
      destruct (perm_shape _ _ Htf) as [[F1 F2]|(b & m & b' & m' & F1 & F2)];
      split; cbn; rewrite ?P1, ?P2, ?F1, ?F2; try reflexivity; try assumption;
      try (rewrite <- ?P1, <- ?P2, <- ?F1, <- ?F2; assumption).
  Qed.
End Proofs.

(* ---- renaming of policy ids ---- *)
Definition rename_policy (f : str -> str) (p : policy) : policy :=
  match plink p with
  | Some l => mkPolicy (ptemplate p) (Some (f l)) (penv p)
  | None =>
      let t := ptemplate p in
      mkPolicy (mkTemplate (f (tid t)) (tannot t) (teffect t) (tprincipal t) (taction t) (tresource t) (tbody t))
               None (penv p)
  end.

Lemma rename_pid f p : pid (rename_policy f p) = f (pid p).
Proof. unfold rename_policy, pid; destruct (plink p); reflexivity. Qed.
Lemma rename_effect f p : peffect (rename_policy f p) = peffect p.
Proof. unfold rename_policy, peffect; destruct (plink p); reflexivity. Qed.
Lemma rename_condition f p : pcondition (rename_policy f p) = pcondition p.
Proof. unfold rename_policy, pcondition, condition; destruct (plink p); reflexivity. Qed.
Lemma rename_env f p : penv (rename_policy f p) = penv p.
Proof. unfold rename_policy; destruct (plink p); reflexivity. Qed.

Section Rename.
  Variable evalp : policy -> res bool.
  Variable f : str -> str.
  Hypothesis Hev : forall p, evalp (rename_policy f p) = evalp p.

  Lemma rename_is_sat p : is_sat evalp (rename_policy f p) = is_sat evalp p.
  Proof. unfold is_sat; rewrite Hev; reflexivity. Qed.
  Lemma rename_is_permit p : is_permit (rename_policy f p) = is_permit p.
  Proof. unfold is_permit; rewrite rename_effect; reflexivity. Qed.
  Lemma rename_is_forbid p : is_forbid (rename_policy f p) = is_forbid p.
  Proof. unfold is_forbid; rewrite rename_is_permit; reflexivity. Qed.

  Lemma rename_tp ps : tp evalp (map (rename_policy f) ps) = map f (tp evalp ps).
  Proof.
    unfold tp; induction ps as [|p ps IH]; cbn [map filter]; [reflexivity|].
    rewrite rename_is_permit, rename_is_sat.
    destruct (is_permit p && is_sat evalp p); cbn [map]; rewrite ?rename_pid, IH; reflexivity.
  Qed.

  Lemma rename_tf ps : tf evalp (map (rename_policy f) ps) = map f (tf evalp ps).
  Proof.
    unfold tf; induction ps as [|p ps IH]; cbn [map filter]; [reflexivity|].
    rewrite rename_is_forbid, rename_is_sat.
    destruct (is_forbid p && is_sat evalp p); cbn [map]; rewrite ?rename_pid, IH; reflexivity.
  Qed.

  Lemma rename_er ps :
    er evalp (map (rename_policy f) ps) = map (fun ie => (f (fst ie), snd ie)) (er evalp ps).
  Proof.
    unfold er; induction ps as [|p ps IH]; cbn [map flat_map]; [reflexivity|].
    rewrite Hev, map_app, IH. destruct (evalp p); cbn; rewrite ?rename_pid; reflexivity.
  Qed.

  Theorem authorize_rename ps :
    let r := authorize_with evalp ps in
    let r' := authorize_with evalp (map (rename_policy f) ps) in
    rdecision r' = rdecision r /\ rreasons r' = map f (rreasons r) /\
    rerrors r' = map (fun ie => (f (fst ie), snd ie)) (rerrors r).
  Proof.
    cbn zeta. unfold authorize_with; rewrite !auth_core_closed.
    unfold concretize, closed; cbn. rewrite rename_tp, rename_tf, rename_er.
    destruct (tp evalp ps), (tf evalp ps); cbn; auto.
  Qed.
End Rename.

(* The concrete evaluator does not look at policy ids. *)
Lemma eval_policy_rename q es f p : eval_policy q es (rename_policy f p) = eval_policy q es p.
Proof. unfold eval_policy; rewrite rename_condition, rename_env; reflexivity. Qed.
