(* LevelProofs.v — lemmas about Level.v (C16): the level checker is monotone in the maximum
   level; the level-n slice is monotone in n, a sub-store, and keeps the data of what it keeps;
   expressions that never consult the store evaluate identically on every store. *)
From Coq Require Import Lia.
From Cedar Require Import Level ValueProofs.

(* ---------------------------------------------------------------- induction on typed expressions *)
Lemma texpr_ind' (P : texpr -> Prop)
  (HLit : forall p t, P (TELit p t)) (HVar : forall v t, P (TEVar v t)) (HSlot : forall s t, P (TESlot s t))
  (HUnk : forall n rt t, P (TEUnknown n rt t))
  (HIf : forall c a b t, P c -> P a -> P b -> P (TEIf c a b t))
  (HAnd : forall a b t, P a -> P b -> P (TEAnd a b t))
  (HOr : forall a b t, P a -> P b -> P (TEOr a b t))
  (HUn : forall op a t, P a -> P (TEUnApp op a t))
  (HBin : forall op a b t, P a -> P b -> P (TEBinApp op a b t))
  (HExt : forall fn args t, Forall P args -> P (TEExtCall fn args t))
  (HGet : forall e a t, P e -> P (TEGetAttr e a t))
  (HHas : forall e a t, P e -> P (TEHasAttr e a t))
  (HLike : forall e p t, P e -> P (TELike e p t))
  (HIs : forall e et t, P e -> P (TEIs e et t))
  (HSet : forall items t, Forall P items -> P (TESet items t))
  (HRec : forall items t, Forall (fun kv => P (snd kv)) items -> P (TERecord items t))
  : forall e, P e.
Proof.
  fix IH 1. intros e. destruct e.
  - apply HLit. - apply HVar. - apply HSlot. - apply HUnk.
  - apply HIf; apply IH.
  - apply HAnd; apply IH.
  - apply HOr; apply IH.
  - apply HUn; apply IH.
  - apply HBin; apply IH.
  - apply HExt. induction args; constructor; [apply IH | assumption].
  - apply HGet; apply IH.
  - apply HHas; apply IH.
  - apply HLike; apply IH.
  - apply HIs; apply IH.
  - apply HSet. induction items; constructor; [apply IH | assumption].
  - apply HRec. induction items as [|[k x] items IHi]; constructor; [apply IH | assumption].
Qed.

(* ---------------------------------------------------------------- lists *)
Lemma incl_app2 {A} (a a' b b' : list A) : incl a' a -> incl b' b -> incl (a' ++ b') (a ++ b).
Proof. intros H1 H2. apply incl_app; [apply incl_appl | apply incl_appr]; assumption. Qed.

Lemma incl_concat_map {A B} (f f' : A -> list B) (l : list A) :
  Forall (fun x => incl (f' x) (f x)) l -> incl (concat (map f' l)) (concat (map f l)).
Proof.
  induction 1; cbn; [apply incl_refl | apply incl_app2; assumption].
Qed.

Lemma incl_nil_eq {A} (l : list A) : incl l [] -> l = [].
Proof. destruct l; [reflexivity | intros H; destruct (H a); left; reflexivity]. Qed.

(* ---------------------------------------------------------------- monotonicity of the checker *)
Section Mono.
  Variable act : uid.
  Variables n n2 : N.
  Hypothesis Hle : (n <= n2)%N.

  Lemma over_incl l : incl (over n2 l) (over n l).
  Proof.
    unfold over. destruct (N.leb_spec n2 l); destruct (N.leb_spec n l);
      try apply incl_refl; try (intros x []); lia.
  Qed.

  (* relation between the results of one sub-expression under the two maxima *)
  Definition rel (r r2 : N * list lerr) : Prop := fst r = fst r2 /\ incl (snd r2) (snd r).
  Definition rrel (x x2 : rec_result) : Prop := incl (fst x2) (fst x) /\ rel (snd x) (snd x2).

  Lemma rec_others_incl a (f f2 : texpr -> rec_result) items :
    Forall (fun kv => rrel (f (snd kv)) (f2 (snd kv))) items ->
    incl (rec_others a (map (fun kv => (fst kv, f2 (snd kv))) items))
         (rec_others a (map (fun kv => (fst kv, f (snd kv))) items)).
  Proof.
    induction 1 as [|[k x] items Hx _ IH]; cbn; [apply incl_refl|].
    destruct (f x) as [o r] eqn:E1, (f2 x) as [o2 r2] eqn:E2. cbn in Hx. rewrite E1, E2 in Hx. destruct Hx as [Ho _].
    cbn in Ho. destruct (str_eqb a k); [assumption | apply incl_app2; assumption].
  Qed.

  Lemma rec_lookup_rel a (f f2 : texpr -> rec_result) items :
    Forall (fun kv => rrel (f (snd kv)) (f2 (snd kv))) items ->
    match lookup a (map (fun kv => (fst kv, f (snd kv))) items),
          lookup a (map (fun kv => (fst kv, f2 (snd kv))) items) with
    | Some x, Some x2 => rrel x x2
    | None, None => True
    | _, _ => False
    end.
  Proof.
    induction 1 as [|[k x] items Hx _ IH]; cbn; [exact I|].
    destruct (str_eqb a k); [exact Hx | exact IH].
  Qed.

  Lemma rec_pick_rel a (f f2 : texpr -> rec_result) items :
    Forall (fun kv => rrel (f (snd kv)) (f2 (snd kv))) items ->
    rel (rec_pick a (map (fun kv => (fst kv, f (snd kv))) items))
        (rec_pick a (map (fun kv => (fst kv, f2 (snd kv))) items)).
  Proof.
    intros H. unfold rec_pick.
    pose proof (rec_lookup_rel a f f2 items H) as HL. pose proof (rec_others_incl a f f2 items H) as HO.
    destruct (lookup a (map (fun kv => (fst kv, f (snd kv))) items)) as [[o r]|],
             (lookup a (map (fun kv => (fst kv, f2 (snd kv))) items)) as [[o2 r2]|]; try contradiction.
    - destruct HL as [_ [E I]]. cbn in E, I. split; cbn; [assumption | apply incl_app2; assumption].
    - split; cbn; [reflexivity | apply incl_refl].
  Qed.

  Ltac fin := split; cbn [fst snd]; [try reflexivity; try congruence |
                                      repeat (apply incl_app2 || assumption || apply incl_refl || apply over_incl)].

  Lemma lv_rel : forall e m, rel (lv act n m e) (lv act n2 m e).
  Proof.
    apply (texpr_ind' (fun e => forall m, rel (lv act n m e) (lv act n2 m e))); intros.
    - (* Lit *) destruct m; cbn; [destruct p; fin | fin].
    - destruct m; cbn; fin.
    - destruct m; cbn; fin.
    - destruct m; cbn; fin.
    - (* If *)
      destruct (H None) as [_ Ic]. destruct m as [path|]; cbn [lv].
      + destruct (H0 (Some path)) as [Ea Ia], (H1 (Some path)) as [Eb Ib]. fin.
      + destruct (H0 None) as [_ Ia], (H1 None) as [_ Ib]. fin.
    - destruct (H None) as [_ Ia], (H0 None) as [_ Ib]. destruct m; cbn [lv]; fin.
    - destruct (H None) as [_ Ia], (H0 None) as [_ Ib]. destruct m; cbn [lv]; fin.
    - destruct (H None) as [_ Ia]. destruct m; cbn [lv]; fin.
    - (* BinApp *)
      destruct (H0 None) as [_ Ib]. destruct m as [path|]; cbn [lv].
      + destruct (H (Some path)) as [Ea Ia]. destruct op; fin.
      + destruct (is_deref_binop op).
        * destruct (H (Some [])) as [Ea Ia]. fin. rewrite Ea. apply over_incl.
        * destruct (H None) as [_ Ia]. fin.
    - (* ExtCall *)
      destruct m; cbn [lv]; fin. apply incl_concat_map.
      eapply Forall_impl; [|exact H]. cbn. intros x Hx. apply (Hx None).
    - (* GetAttr *)
      destruct m as [path|]; cbn [lv].
      + destruct (is_entity_oty (ty_of e)).
        * destruct (H (Some path)) as [E I]. fin.
        * destruct (is_record_oty (ty_of e)); [apply H | fin].
      + destruct (is_entity_oty (ty_of e)).
        * destruct (H (Some [])) as [E I]. fin. rewrite E. apply over_incl.
        * destruct (is_record_oty (ty_of e)); [destruct (H None) as [_ I]; fin | fin].
    - (* HasAttr *)
      destruct m as [path|]; cbn [lv]; [fin|].
      destruct (is_entity_oty (ty_of e)).
      * destruct (H (Some [])) as [E I]. fin. rewrite E. apply over_incl.
      * destruct (is_record_oty (ty_of e)); [destruct (H None) as [_ I]; fin | fin].
    - destruct (H None) as [_ I]. destruct m; cbn [lv]; fin.
    - destruct (H None) as [_ I]. destruct m; cbn [lv]; fin.
    - (* Set *)
      destruct m; cbn [lv]; fin. apply incl_concat_map.
      eapply Forall_impl; [|exact H]. cbn. intros x Hx. apply (Hx None).
    - (* Record *)
      destruct m as [[|a path']|]; cbn [lv]; [fin | |].
      + apply (rec_pick_rel a (fun x => (snd (lv act n None x), lv act n (Some path') x))
                              (fun x => (snd (lv act n2 None x), lv act n2 (Some path') x))).
        eapply Forall_impl; [|exact H]. cbn. intros kv Hx. split; cbn; [apply (Hx None) | apply Hx].
      + fin. apply (incl_concat_map (fun kv => snd (lv act n None (snd kv))) (fun kv => snd (lv act n2 None (snd kv)))).
        eapply Forall_impl; [|exact H]. cbn. intros kv Hx. apply (Hx None).
  Qed.
End Mono.

Lemma level_ok_mono_le act n n2 e : (n <= n2)%N -> level_ok act n e = true -> level_ok act n2 e = true.
Proof.
  intros Hle. unfold level_ok, level_errors. destruct (lv_rel act n n2 Hle e None) as [_ I].
  destruct (snd (lv act n None e)); [|discriminate]. intros _. rewrite (incl_nil_eq _ I). reflexivity.
Qed.

Lemma level_ok_mono act n e : level_ok act n e = true -> level_ok act (N.succ n) e = true.
Proof. apply level_ok_mono_le. lia. Qed.

(* the dereference level of a target does not depend on the maximum (only the errors do) *)
Lemma lv_level_indep act n n2 path e : fst (lv act n (Some path) e) = fst (lv act n2 (Some path) e).
Proof.
  destruct (N.le_ge_cases n n2) as [H|H].
  - apply (lv_rel act n n2 H e (Some path)).
  - symmetry. apply (lv_rel act n2 n H e (Some path)).
Qed.

(* ---------------------------------------------------------------- the slice *)
Lemma uid_mem_In u l : uid_mem u l = true <-> In u l.
Proof.
  unfold uid_mem. rewrite existsb_exists. split.
  - intros [x [Hx E]]. apply uid_eqb_eq in E. subst. assumption.
  - intros H. exists u. split; [assumption | apply uid_eqb_eq; reflexivity].
Qed.

Lemma reach_mono es n : forall front, incl (reach es n front) (reach es (S n) front).
Proof.
  induction n as [|k IH]; intros front; [intros x []|].
  change (reach es (S k) front) with (front ++ reach es k (hop es front)).
  change (reach es (S (S k)) front) with (front ++ reach es (S k) (hop es front)).
  apply incl_app2; [apply incl_refl | apply IH].
Qed.

Lemma slice_subset n q es x : In x (slice_at_level n q es) -> In x es.
Proof. unfold slice_at_level. intros H. apply filter_In in H. apply H. Qed.

Lemma slice_monotone n q es x : In x (slice_at_level n q es) -> In x (slice_at_level (S n) q es).
Proof.
  unfold slice_at_level. intros H. apply filter_In in H as [H1 H2]. apply filter_In. split; [assumption|].
  apply uid_mem_In. apply reach_mono. apply uid_mem_In. assumption.
Qed.

(* an entity of the slice has exactly the data (attributes, tags, ancestor set) it has in the store;
   an entity outside the needed set is absent *)
Lemma slice_find n q es u :
  find_entity u (slice_at_level n q es) =
  if uid_mem u (reach es n (request_roots q)) then find_entity u es else None.
Proof.
  unfold slice_at_level. generalize (reach es n (request_roots q)) as R. intros R.
  induction es as [|[u' d] es IH]; cbn [filter find_entity fst]; [destruct (uid_mem u R); reflexivity|].
  destruct (uid_eqb u u') eqn:E.
  - apply uid_eqb_eq in E. subst u'. destruct (uid_mem u R) eqn:M; cbn [find_entity].
    + rewrite (proj2 (uid_eqb_eq u u) eq_refl). reflexivity.
    + exact IH.
  - destruct (uid_mem u' R); cbn [find_entity]; [rewrite E|]; exact IH.
Qed.

(* values reached by k hops only mention uids within k+1 hops *)
Lemma hop_incl es front u d : In u front -> find_entity u es = Some d -> incl (edata_uids d) (hop es front).
Proof.
  intros Hu Hf x Hx. unfold hop. apply in_flat_map. exists u. split; [assumption|]. rewrite Hf. assumption.
Qed.

Lemma reach_hop_closed es u d : forall n front,
  In u (reach es n front) -> find_entity u es = Some d -> incl (edata_uids d) (reach es (S n) front).
Proof.
  induction n as [|k IH]; intros front Hu Hf; [destruct Hu|].
  change (reach es (S k) front) with (front ++ reach es k (hop es front)) in Hu.
  change (reach es (S (S k)) front) with (front ++ reach es (S k) (hop es front)).
  apply in_app_or in Hu as [Hu|Hu].
  - apply incl_appr. change (reach es (S k) (hop es front)) with (hop es front ++ reach es k (hop es (hop es front))).
    apply incl_appl. eapply hop_incl; eassumption.
  - apply incl_appr. apply IH; assumption.
Qed.

Lemma slice_hop_closed n q es u d :
  find_entity u (slice_at_level n q es) = Some d ->
  forall x, In x (edata_uids d) -> uid_mem x (reach es (S n) (request_roots q)) = true.
Proof.
  rewrite slice_find. destruct (uid_mem u (reach es n (request_roots q))) eqn:M; [|discriminate].
  intros Hf x Hx. apply uid_mem_In. apply uid_mem_In in M. eapply reach_hop_closed; eassumption.
Qed.

(* ---------------------------------------------------------------- soundness: the level-1 base case *)
Lemma root_in_slice n q es u : In u (request_roots q) ->
  find_entity u (slice_at_level (S n) q es) = find_entity u es.
Proof.
  intros H. rewrite slice_find.
  change (reach es (S n) (request_roots q)) with (request_roots q ++ reach es n (hop es (request_roots q))).
  rewrite (proj2 (uid_mem_In u _)); [reflexivity | apply in_or_app; left; assumption].
Qed.

Lemma eval_var_root q v u : eval_var q v = VEntity u -> In u (request_roots q).
Proof.
  unfold request_roots. destruct v; cbn; intros H; inversion H; subst; cbn; auto.
Qed.

Lemma binary_app_agree es1 es2 op a b :
  (forall u, a = VEntity u -> find_entity u es1 = find_entity u es2) ->
  binary_app es1 op a b = binary_app es2 op a b.
Proof.
  intros H. destruct op; try reflexivity;
    (destruct a as [p| | |]; try reflexivity; destruct p; try reflexivity;
     cbn; unfold eval_in; rewrite (H _ eq_refl); reflexivity).
Qed.

Lemma get_attr_agree es1 es2 a k :
  (forall u, a = VEntity u -> find_entity u es1 = find_entity u es2) -> get_attr es1 a k = get_attr es2 a k.
Proof.
  intros H. destruct a as [p| | |]; try reflexivity; destruct p; try reflexivity. cbn. rewrite (H _ eq_refl). reflexivity.
Qed.

Lemma has_attr_agree es1 es2 a k :
  (forall u, a = VEntity u -> find_entity u es1 = find_entity u es2) -> has_attr es1 a k = has_attr es2 a k.
Proof.
  intros H. destruct a as [p| | |]; try reflexivity; destruct p; try reflexivity. cbn. rewrite (H _ eq_refl). reflexivity.
Qed.

(* one dereference (attribute read, `has`, `in`, hasTag, getTag, ...) applied directly to a request
   variable evaluates on the level-(n+1) slice exactly as on the full store *)
Lemma slice_sound_base n q es sl v k op p :
  let s := slice_at_level (S n) q es in
  eval sl q s (GetAttr (Var v) k) = eval sl q es (GetAttr (Var v) k) /\
  eval sl q s (HasAttr (Var v) k) = eval sl q es (HasAttr (Var v) k) /\
  eval sl q s (BinApp op (Var v) (Lit p)) = eval sl q es (BinApp op (Var v) (Lit p)).
Proof.
  assert (A : forall u, eval_var q v = VEntity u ->
                        find_entity u (slice_at_level (S n) q es) = find_entity u es).
  { intros u Hu. apply root_in_slice. eapply eval_var_root; eassumption. }
  cbn. repeat split.
  - apply get_attr_agree; assumption.
  - apply has_attr_agree; assumption.
  - apply binary_app_agree; assumption.
Qed.
