(* LevelProofs.v — lemmas about Level.v (C16). *)
From Cedar Require Import Level.
