(* EstPolicyProofs.v — no duplicate keys in produced JSON; whole-template EST round trip. *)
From Coq Require Import String Lia.
From Cedar Require Import EstPolicy ValueProofs EstOrderProofs EstProofs.
Open Scope Z_scope.

(* ---- produced JSON has no duplicate keys ---- *)
Lemma has_key_map {A B} (f : A -> B) k (l : list (str * A)) :
  has_key k (map (fun kv => (fst kv, f (snd kv))) l) = has_key k l.
Proof.
  unfold has_key. induction l as [|[k' v] l IH]; cbn; [reflexivity|].
  destruct (str_eqb k k'); [reflexivity|exact IH].
Qed.

Lemma keys_nodup_map {A B} (f : A -> B) (l : list (str * A)) :
  keys_nodup (map (fun kv => (fst kv, f (snd kv))) l) = keys_nodup l.
Proof.
  induction l as [|[k v] l IH]; cbn; [reflexivity|].
  rewrite IH. f_equal. f_equal. apply (has_key_map f k l).
Qed.

Lemma nodup_expr : forall e, Rep e -> json_nodup (ast_to_est_expr e) = true.
Proof.
  fix IH 1. intros e. destruct e; intros HR; cbn [ast_to_est_expr].
  - destruct p; reflexivity.
  - reflexivity.
  - reflexivity.
  - destruct HR.
  - destruct HR as (Ha & Hb & Hc). unfold obj1. cbn. rewrite (IH _ Ha), (IH _ Hb), (IH _ Hc). reflexivity.
  - destruct HR as (_ & Ha & Hb). unfold obj1, lr. cbn. rewrite (IH _ Ha), (IH _ Hb). reflexivity.
  - destruct HR as (_ & Ha & Hb). unfold obj1, lr. cbn. rewrite (IH _ Ha), (IH _ Hb). reflexivity.
  - cbn [Rep] in HR. unfold obj1. cbn. rewrite (IH _ HR). reflexivity.
  - destruct HR as (Ha & Hb). unfold obj1, lr. cbn. rewrite (IH _ Ha), (IH _ Hb). reflexivity.
  - destruct HR as (_ & Hall). cbn.
    induction args as [|x args IHl]; [reflexivity|].
    destruct Hall as (Hx & Hall). cbn [map]. rewrite (IH _ Hx). cbn [andb]. apply IHl; assumption.
  - cbn [Rep] in HR. unfold obj1. cbn. rewrite (IH _ HR). reflexivity.
  - cbn [Rep] in HR. unfold obj1. cbn. rewrite (IH _ HR). reflexivity.
  - cbn [Rep] in HR. unfold obj1. cbn. rewrite (IH _ HR). cbn.
    induction p as [|x p IHp]; [reflexivity|]. cbn [map]. destruct x; cbn; exact IHp.
  - destruct HR as (_ & Ha). unfold obj1. cbn. rewrite (IH _ Ha). reflexivity.
  - cbn [Rep] in HR. unfold obj1. cbn.
    induction items as [|x items IHl]; [reflexivity|].
    destruct HR as (Hx & Hall). cbn [map]. rewrite (IH _ Hx). cbn [andb]. apply IHl; assumption.
  - destruct HR as (Hs & Hall). unfold obj1. cbn -[keys_nodup].
    rewrite (keys_nodup_map ast_to_est_expr items), (sort_fix_nodup _ Hs). cbn [andb].
    clear Hs. induction items as [|[k x] items IHl]; [reflexivity|].
    destruct Hall as (Hx & Hall). cbn [map fst snd]. cbn [snd] in Hx. rewrite (IH _ Hx). cbn [andb]. apply IHl; assumption.
Qed.

(* ---- conditions without the extra hypothesis ---- *)
Lemma conditions_roundtrip body :
  match body with None => True | Some e => Rep e /\ has_slot e = false end ->
  conditions_to_ast (ast_to_est_conditions body) = Ok body.
Proof.
  destruct body as [e|]; [|reflexivity]. intros (HR & Hs).
  unfold conditions_to_ast, ast_to_est_conditions. cbn [mapM].
  assert (Hc : clause_to_ast (JObj [(K "kind", JStr (K "when")); (K "body", ast_to_est_expr e)]) = Ok e).
  { unfold clause_to_ast. cbn -[est_to_ast_expr ast_to_est_expr]. rewrite (est_expr_roundtrip _ HR). cbn [bind]. now rewrite Hs. }
  rewrite Hc. reflexivity.
Qed.

Lemma est_conditions_roundtrip_full e :
  Rep e -> has_slot e = false ->
  est_to_ast_conditions (ast_to_est_conditions (Some e)) = Ok (Some e).
Proof.
  intros HR Hs. apply est_conditions_roundtrip; try assumption. apply nodup_expr; assumption.
Qed.

(* ---- well-formedness of a template w.r.t. the JSON format ---- *)
Definition name_ok (n : name) : Prop := parse_name (print_name n) = Some n.
Definition uid_ok (u : uid) : Prop := name_ok (uty u).
Definition eref_ok (r : eref) : Prop := match r with RefUid u => uid_ok u | RefSlot => True end.
Definition pr_ok (c : prconstraint) : Prop :=
  match c with
  | CAny => True
  | CEq r | CIn r => eref_ok r
  | CIs t => name_ok t
  | CIsIn t r => name_ok t /\ eref_ok r
  end.
Definition act_ok (u : uid) : Prop := uid_ok u /\ is_action_uid u = true.
Fixpoint acts_ok (us : list uid) : Prop := match us with [] => True | u :: us' => act_ok u /\ acts_ok us' end.
Definition ac_ok (c : aconstraint) : Prop :=
  match c with AAny => True | AEq u => act_ok u | AIn us => acts_ok us end.
Fixpoint ann_keys_ok (a : annotations) : Prop :=
  match a with [] => True | kv :: a' => anyid_ok (fst kv) = true /\ ann_keys_ok a' end.
Definition body_ok (b : option expr) : Prop :=
  match b with None => True | Some e => Rep e /\ has_slot e = false end.

(* The JSON-representable templates: Rep bodies without slots; names that read back; action
   constraints over Action-typed entities; annotations in BTreeMap order with identifier keys. *)
Definition TemplateRep (t : template) : Prop :=
  pr_ok (tprincipal t) /\ ac_ok (taction t) /\ pr_ok (tresource t) /\
  sort_assoc (tannot t) = tannot t /\ ann_keys_ok (tannot t) /\ body_ok (tbody t).

(* ---- pieces ---- *)
Lemma uidjson_roundtrip u : uid_ok u -> uidjson_to_uid (uid_json u) = Ok u.
Proof.
  unfold uid_ok, name_ok. intros H. unfold uidjson_to_uid, uid_json, type_and_id. cbn -[parse_name].
  rewrite H. destruct u; reflexivity.
Qed.

Lemma eref_roundtrip s r : eref_ok r -> eref_of s (eref_fields s r) = Ok r.
Proof.
  destruct r as [u|]; cbn [eref_ok eref_fields]; intros H.
  - unfold eref_of. cbn -[uidjson_to_uid uid_json]. rewrite (uidjson_roundtrip _ H). reflexivity.
  - destruct s; reflexivity.
Qed.

Lemma eref_roundtrip_op s r o :
  eref_ok r -> eref_of s ((K "op", JStr o) :: eref_fields s r) = Ok r.
Proof.
  destruct r as [u|]; cbn [eref_ok eref_fields]; intros H.
  - unfold eref_of. cbn -[uidjson_to_uid uid_json]. rewrite (uidjson_roundtrip _ H). reflexivity.
  - destruct s; reflexivity.
Qed.

Lemma pr_roundtrip s c : pr_ok c -> est_to_pr s (pr_to_est s c) = Ok c.
Proof.
  destruct c as [|r|r|t r|t]; cbn [pr_ok pr_to_est]; intros H.
  - reflexivity.
  - unfold est_to_pr. cbn -[eref_of eref_fields]. rewrite (eref_roundtrip_op s r _ H). reflexivity.
  - unfold est_to_pr. cbn -[eref_of eref_fields]. rewrite (eref_roundtrip_op s r _ H). reflexivity.
  - destruct H as (Ht & Hr). unfold name_ok in Ht. unfold est_to_pr. cbn -[eref_of eref_fields parse_name].
    rewrite Ht. rewrite (eref_roundtrip s r Hr). reflexivity.
  - unfold name_ok in H. unfold est_to_pr. cbn -[parse_name]. rewrite H. reflexivity.
Qed.

Lemma pr_nodup s c : json_nodup (pr_to_est s c) = true.
Proof. destruct c as [|[u|]|[u|]|t [u|]|t]; reflexivity. Qed.

Lemma acts_mapM us : acts_ok us -> mapM uidjson_to_uid (map uid_json us) = Ok us /\ forallb is_action_uid us = true.
Proof.
  induction us as [|u us IH]; cbn [acts_ok map mapM forallb]; [split; reflexivity|].
  intros ((Hu & Ha) & Hus). destruct (IH Hus) as (H1 & H2).
  rewrite (uidjson_roundtrip _ Hu). cbn [bind]. rewrite H1, Ha, H2. split; reflexivity.
Qed.

Lemma ac_roundtrip c : ac_ok c -> est_to_ac (ac_to_est c) = Ok c.
Proof.
  destruct c as [|us|u]; cbn [ac_ok]; intros H.
  - reflexivity.
  - destruct us as [|u1 [|u2 us]].
    + reflexivity.
    + destruct H as ((Hu & Ha) & _). unfold ac_to_est, est_to_ac. cbn -[uidjson_to_uid uid_json].
      rewrite (uidjson_roundtrip _ Hu). cbn [bind]. rewrite Ha. reflexivity.
    + destruct (acts_mapM _ H) as (H1 & H2). unfold ac_to_est, est_to_ac. cbn -[uidjson_to_uid uid_json mapM map forallb].
      rewrite H1. cbn [bind]. rewrite H2. reflexivity.
  - destruct H as (Hu & Ha). unfold ac_to_est, est_to_ac. cbn -[uidjson_to_uid uid_json].
    rewrite (uidjson_roundtrip _ Hu). cbn [bind]. rewrite Ha. reflexivity.
Qed.

Lemma uids_nodup us :
  (fix go (l : list json) : bool := match l with [] => true | x :: l' => json_nodup x && go l' end) (map uid_json us) = true.
Proof. induction us as [|u us IH]; [reflexivity|]. cbn [map]. rewrite IH. reflexivity. Qed.

Lemma ac_nodup c : json_nodup (ac_to_est c) = true.
Proof.
  destruct c as [|us|u]; try reflexivity.
  destruct us as [|u1 [|u2 us]]; try reflexivity.
  unfold ac_to_est. cbn -[map uid_json]. rewrite (uids_nodup (u1 :: u2 :: us)). reflexivity.
Qed.

Lemma ann_list_roundtrip a :
  ann_keys_ok a -> est_to_annotation_list (map (fun kv => (fst kv, JStr (snd kv))) a) = Ok a.
Proof.
  induction a as [|[k v] a IH]; cbn [ann_keys_ok map est_to_annotation_list fst snd]; [reflexivity|].
  intros (Hk & Ha). rewrite Hk, (IH Ha). reflexivity.
Qed.

Lemma ann_values_nodup (a : annotations) :
  (fix go (l : list (str * json)) : bool :=
     match l with [] => true | (_, x) :: l' => json_nodup x && go l' end)
    (map (fun kv => (fst kv, JStr (snd kv))) a) = true.
Proof. induction a as [|[k v] a IH]; [reflexivity|]. cbn [map fst snd]. cbn. exact IH. Qed.

Lemma effect_roundtrip e : effect_of (JStr (effect_str e)) = Ok e.
Proof. destruct e; reflexivity. Qed.

Lemma body_nodup b : body_ok b -> json_nodup (ast_to_est_conditions b) = true.
Proof.
  destruct b as [e|]; [|reflexivity]. intros (HR & _). unfold ast_to_est_conditions.
  cbn -[ast_to_est_expr]. rewrite (nodup_expr _ HR). reflexivity.
Qed.

(* ---- the whole template ---- *)
Lemma template_nodup t : TemplateRep t -> json_nodup (template_to_est t) = true.
Proof.
  destruct t as [id ann eff pc ac rc body]. unfold TemplateRep. cbn [tprincipal taction tresource tannot tbody tid].
  intros (Hp & Ha & Hr & Hs & Hk & Hb).
  unfold template_to_est. cbn [teffect tprincipal taction tresource tannot tbody].
  destruct ann as [|kv ann].
  - cbn -[pr_to_est ac_to_est ast_to_est_conditions].
    rewrite (pr_nodup SlotPrincipal pc), (ac_nodup ac), (pr_nodup SlotResource rc), (body_nodup _ Hb). reflexivity.
  - unfold annotations_to_est.
    cbn -[pr_to_est ac_to_est ast_to_est_conditions keys_nodup map].
    rewrite (pr_nodup SlotPrincipal pc), (ac_nodup ac), (pr_nodup SlotResource rc), (body_nodup _ Hb).
    cbn -[keys_nodup map].
    rewrite (keys_nodup_map (fun v => JStr v) (kv :: ann)), (sort_fix_nodup _ Hs).
    rewrite (ann_values_nodup (kv :: ann)). reflexivity.
Qed.

Lemma template_roundtrip_nocheck t :
  TemplateRep t -> est_to_template_nocheck (tid t) (template_to_est t) = Ok t.
Proof.
  destruct t as [id ann eff pc ac rc body]. unfold TemplateRep. cbn [tprincipal taction tresource tannot tbody tid].
  intros (Hp & Ha & Hr & Hs & Hk & Hb).
  unfold est_to_template_nocheck, template_to_est.
  cbn [teffect tprincipal taction tresource tannot tbody].
  destruct ann as [|kv ann].
  - cbn -[pr_to_est ac_to_est ast_to_est_conditions est_to_pr est_to_ac conditions_to_ast effect_of].
    rewrite effect_roundtrip, (conditions_roundtrip _ Hb). cbn [bind est_to_annotations].
    rewrite (pr_roundtrip _ _ Hp), (ac_roundtrip _ Ha), (pr_roundtrip _ _ Hr). reflexivity.
  - unfold annotations_to_est.
    cbn -[pr_to_est ac_to_est ast_to_est_conditions est_to_pr est_to_ac conditions_to_ast effect_of map est_to_annotation_list sort_assoc].
    rewrite effect_roundtrip, (conditions_roundtrip _ Hb). cbn [bind].
    rewrite (ann_list_roundtrip _ Hk). cbn [bind]. rewrite Hs.
    rewrite (pr_roundtrip _ _ Hp), (ac_roundtrip _ Ha), (pr_roundtrip _ _ Hr). reflexivity.
Qed.

Lemma template_roundtrip t :
  TemplateRep t -> est_to_template (tid t) (template_to_est t) = Ok t.
Proof.
  intros H. unfold est_to_template. rewrite (template_nodup _ H). apply template_roundtrip_nocheck; assumption.
Qed.
