(* PEProofs.v — lemmas about PE.v (property C13). *)
From Coq Require Import Lia.
From Cedar Require Import AuthzProofs.
From Cedar Require Import PE.

(* ------------------------------------------------------------------------------------------ *)
(* Part 1: the PartialResponse views, for ANY per-policy status function that is sound w.r.t.   *)
(* the concrete per-policy outcomes                                                             *)
(* ------------------------------------------------------------------------------------------ *)

(* what a partial status promises about the concrete outcome of the same policy *)
Definition status_sound (st : pstatus) (r : res bool) : Prop :=
  match st with
  | SSat => r = Ok true
  | SFalse => r = Ok false
  | SErr _ => exists e, r = Err e
  | SRes _ => True
  | SOut => False                 (* outside the model: excluded *)
  end.

(* the part of it the decision / determining views rely on: a policy recorded as false or
   errored is simply not satisfied *)
Definition status_weak (st : pstatus) (r : res bool) : Prop :=
  match st with
  | SSat => r = Ok true
  | SFalse | SErr _ => r <> Ok true
  | SRes _ => True
  | SOut => False
  end.

Lemma status_sound_weak st r : status_sound st r -> status_weak st r.
Proof. destruct st; cbn; auto; [congruence | intros [e0 H]; congruence]. Qed.

Section Views.
  Variable pstat : policy -> pstatus.
  Variable evalp : policy -> res bool.

  Definition item_of (p : policy) : pitem := mkPItem (pid p) (peffect p) (pstat p).

  Lemma any_where_true f ps :
    any_where f (pitems_with pstat ps) = true <-> exists p, In p ps /\ f (item_of p) = true.
  Proof.
    unfold any_where, pitems_with. rewrite existsb_exists. split.
    - intros [x [Hx Hf]]. apply in_map_iff in Hx. destruct Hx as [p [E Hp]]. subst x. eauto.
    - intros [p [Hp Hf]]. exists (item_of p). split; [exact (in_map item_of ps p Hp) | exact Hf].
  Qed.

  Lemma any_where_false f ps :
    any_where f (pitems_with pstat ps) = false <-> forall p, In p ps -> f (item_of p) = false.
  Proof.
    split.
    - intros H p Hp. destruct (f (item_of p)) eqn:E; [|reflexivity].
      assert (any_where f (pitems_with pstat ps) = true) by (apply any_where_true; eauto). congruence.
    - intros H. destruct (any_where f (pitems_with pstat ps)) eqn:E; [|reflexivity].
      apply any_where_true in E. destruct E as [p [Hp Hf]]. rewrite (H p Hp) in Hf. discriminate.
  Qed.

  Lemma in_ids_where f ps i :
    In i (ids_where f (pitems_with pstat ps)) <-> exists p, In p ps /\ pid p = i /\ f (item_of p) = true.
  Proof.
    unfold ids_where, pitems_with. rewrite in_map_iff. split.
    - intros [x [E Hx]]. apply filter_In in Hx. destruct Hx as [Hx Hf].
      apply in_map_iff in Hx. destruct Hx as [p [E' Hp]]. subst x. exists p. auto.
    - intros [p [Hp [E Hf]]]. exists (item_of p). split; [exact E|].
      apply filter_In. split; [exact (in_map item_of ps p Hp) | exact Hf].
  Qed.

  Variable ps : list policy.
  Hypothesis sound : forall p, In p ps -> status_weak (pstat p) (evalp p).

  Ltac st p := let H := fresh "S" in
               match goal with Hp : In p ps |- _ => pose proof (sound p Hp) as H; unfold status_weak in H end.

  Lemma sat_forbid_of_partial :
    any_where (fun i => is_sat i && is_forbid i) (pitems_with pstat ps) = true -> sat_forbid evalp ps.
  Proof.
    intros H. apply any_where_true in H. destruct H as [p [Hp Hf]]. exists p. st p.
    unfold is_sat, is_forbid, is_permit, item_of in Hf; cbn in Hf.
    destruct (pstat p); try discriminate. destruct (peffect p); try discriminate. auto.
  Qed.

  Lemma sat_permit_of_partial :
    any_where (fun i => is_sat i && is_permit i) (pitems_with pstat ps) = true -> sat_permit evalp ps.
  Proof.
    intros H. apply any_where_true in H. destruct H as [p [Hp Hf]]. exists p. st p.
    unfold is_sat, is_permit, item_of in Hf; cbn in Hf.
    destruct (pstat p); try discriminate. destruct (peffect p); try discriminate. auto.
  Qed.

  Lemma no_sat_forbid :
    any_where (fun i => is_sat i && is_forbid i) (pitems_with pstat ps) = false ->
    any_where (fun i => is_res i && is_forbid i) (pitems_with pstat ps) = false ->
    ~ sat_forbid evalp ps.
  Proof.
    intros H1 H2 [p [Hp [He Hv]]].
    rewrite any_where_false in H1, H2. specialize (H1 p Hp). specialize (H2 p Hp). st p.
    unfold is_sat, is_res, is_forbid, is_permit, item_of in *; cbn in *. rewrite He in *.
    destruct (pstat p); cbn in *; try discriminate; try congruence; try contradiction.
  Qed.

  Lemma no_sat_permit :
    any_where (fun i => is_sat i && is_permit i) (pitems_with pstat ps) = false ->
    any_where (fun i => is_res i && is_permit i) (pitems_with pstat ps) = false ->
    ~ sat_permit evalp ps.
  Proof.
    intros H1 H2 [p [Hp [He Hv]]].
    rewrite any_where_false in H1, H2. specialize (H1 p Hp). specialize (H2 p Hp). st p.
    unfold is_sat, is_res, is_permit, item_of in *; cbn in *. rewrite He in *.
    destruct (pstat p); cbn in *; try discriminate; try congruence; try contradiction.
  Qed.

  (* a definite partial decision is the decision under the concrete outcomes *)
  Theorem decision_sound d :
    pdecision (pitems_with pstat ps) = Some d -> rdecision (authorize_with evalp ps) = d.
  Proof.
    unfold pdecision. intros H.
    destruct (any_where (fun i => is_sat i && is_forbid i) (pitems_with pstat ps)) eqn:SF.
    - inversion H; subst d. apply decision_deny_iff. intros [_ N]. apply N. apply sat_forbid_of_partial; exact SF.
    - destruct (any_where (fun i => is_sat i && is_permit i) (pitems_with pstat ps)) eqn:SP.
      + destruct (any_where (fun i => is_res i && is_permit i) (pitems_with pstat ps)) eqn:RP;
          destruct (any_where (fun i => is_res i && is_forbid i) (pitems_with pstat ps)) eqn:RF;
          try discriminate; inversion H; subst d;
          (apply decision_allow_iff; split; [apply sat_permit_of_partial; exact SP | apply no_sat_forbid; assumption]).
      + destruct (any_where (fun i => is_res i && is_permit i) (pitems_with pstat ps)) eqn:RP.
        * destruct (any_where (fun i => is_res i && is_forbid i) (pitems_with pstat ps)); discriminate.
        * assert (d = Deny) by (destruct (any_where (fun i => is_res i && is_forbid i) (pitems_with pstat ps)); congruence).
          subst d. apply decision_deny_iff. intros [P _]. revert P. apply no_sat_permit; assumption.
  Qed.

  (* must_be_determining ⊆ actual determining policies *)
  Theorem must_sound i :
    In i (must_be_determining (pitems_with pstat ps)) -> In i (rreasons (authorize_with evalp ps)).
  Proof.
    unfold must_be_determining. intros H. apply reasons_iff.
    destruct (any_where (fun i => is_sat i && is_forbid i) (pitems_with pstat ps)) eqn:SF; cbn [negb andb] in H.
    - left. split; [apply sat_forbid_of_partial; exact SF|].
      apply in_ids_where in H. destruct H as [p [Hp [E Hf]]]. exists p. st p.
      unfold is_sat, is_forbid, is_permit, item_of in Hf; cbn in Hf.
      destruct (pstat p); try discriminate. destruct (peffect p); try discriminate. auto.
    - destruct (any_where (fun i => is_res i && is_forbid i) (pitems_with pstat ps)) eqn:RF; cbn [negb andb] in H.
      + (* ids of satisfied forbids: there are none *)
        apply in_ids_where in H. destruct H as [p [Hp [E Hf]]].
        rewrite any_where_false in SF. rewrite (SF p Hp) in Hf. discriminate.
      + right. split; [apply no_sat_forbid; assumption|].
        apply in_ids_where in H. destruct H as [p [Hp [E Hf]]]. exists p. st p.
        unfold is_sat, is_permit, item_of in Hf; cbn in Hf.
        destruct (pstat p); try discriminate. destruct (peffect p); try discriminate. auto.
  Qed.

  (* actual determining policies ⊆ may_be_determining *)
  Theorem may_sound i :
    In i (rreasons (authorize_with evalp ps)) -> In i (may_be_determining (pitems_with pstat ps)).
  Proof.
    intros H. apply reasons_iff in H. unfold may_be_determining.
    destruct (any_where (fun i => is_sat i && is_forbid i) (pitems_with pstat ps)) eqn:SF.
    - destruct H as [[_ [p [Hp [E [He Hv]]]]] | [N _]].
      + apply in_ids_where. exists p. split; [exact Hp|]. split; [exact E|]. st p.
        unfold is_sat, is_res, is_forbid, is_permit, item_of; cbn. rewrite He.
        destruct (pstat p); cbn; try reflexivity; try congruence; try contradiction.
      + exfalso. apply N. apply sat_forbid_of_partial; exact SF.
    - destruct H as [[_ [p [Hp [E [He Hv]]]]] | [_ [p [Hp [E [He Hv]]]]]];
        apply in_ids_where; exists p; (split; [exact Hp|]); (split; [exact E|]); st p.
      + rewrite any_where_false in SF. specialize (SF p Hp).
        unfold is_sat, is_res, is_forbid, is_permit, item_of in *; cbn in *. rewrite He in *.
        destruct (pstat p); cbn in *; try reflexivity; try congruence; try contradiction.
      + unfold is_sat, is_res, is_permit, item_of; cbn. rewrite He.
        destruct (pstat p); cbn; try reflexivity; try congruence; try contradiction.
  Qed.

End Views.

Section Views2.
  Variable pstat : policy -> pstatus.
  Variable evalp : policy -> res bool.
  Variable ps : list policy.
  Hypothesis sound : forall p, In p ps -> status_sound (pstat p) (evalp p).
  Ltac st p := let H := fresh "S" in
               match goal with Hp : In p ps |- _ => pose proof (sound p Hp) as H; unfold status_sound in H end.

  Theorem satisfied_sound i :
    In i (definitely_satisfied (pitems_with pstat ps)) -> exists p, In p ps /\ pid p = i /\ evalp p = Ok true.
  Proof.
    intros H. apply in_ids_where in H. destruct H as [p [Hp [E Hf]]]. exists p. st p.
    unfold is_sat, item_of in Hf; cbn in Hf. destruct (pstat p); try discriminate. auto.
  Qed.

  Theorem errored_sound i :
    In i (definitely_errored (pitems_with pstat ps)) -> exists p e, In p ps /\ pid p = i /\ evalp p = Err e.
  Proof.
    intros H. apply in_ids_where in H. destruct H as [p [Hp [E Hf]]]. st p.
    unfold is_err, item_of in Hf; cbn in Hf. destruct (pstat p); try discriminate.
    destruct S as [e' S]. exists p, e'. auto.
  Qed.

  Theorem false_sound i :
    In i (trivially_false (pitems_with pstat ps)) -> exists p, In p ps /\ pid p = i /\ evalp p = Ok false.
  Proof.
    intros H. apply in_ids_where in H. destruct H as [p [Hp [E Hf]]]. exists p. st p.
    unfold is_false, item_of in Hf; cbn in Hf. destruct (pstat p); try discriminate. auto.
  Qed.
End Views2.
