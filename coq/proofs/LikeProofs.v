(* LikeProofs.v — the two-pointer wildcard loop of Pattern::wildcard_match (model/Like.v)
   computes the declarative matcher, for every pattern and every string. *)
From Coq Require Import Lia.
From Cedar Require Import Like EvalProofs.

Definition chars (w : str) : pattern := map PChar w.

Lemma matches_nil_l s : Matches [] s <-> s = [].
Proof. split; intros H; [inversion H; reflexivity | subst; constructor]. Qed.

Lemma matches_char x p s : Matches (PChar x :: p) s <-> exists s', s = x :: s' /\ Matches p s'.
Proof.
  split.
  - intros H; inversion H; subst; eauto.
  - intros [s' [E H]]; subst; constructor; assumption.
Qed.

Lemma matches_star p s : Matches (PStar :: p) s <-> exists u t, s = u ++ t /\ Matches p t.
Proof.
  split.
  - intros H. remember (PStar :: p) as q eqn:Eq. induction H; try discriminate.
    + inversion Eq; subst. exists [], s; split; [reflexivity | assumption].
    + inversion Eq; subst. destruct (IHMatches eq_refl) as [u [t [E Ht]]]. subst.
      exists (c :: u), t; split; [reflexivity | assumption].
  - intros [u [t [E Ht]]]; subst. induction u as [|c u IH]; cbn.
    + apply M_star_skip; assumption.
    + apply M_star_eat; assumption.
Qed.

Lemma all_stars_spec p : all_stars p = true <-> Matches p [].
Proof.
  induction p as [|[c|] p IH]; cbn.
  - split; [constructor | reflexivity].
  - split; [discriminate | intros H; inversion H].
  - rewrite IH. split.
    + intros H; apply M_star_skip; assumption.
    + intros H. apply matches_star in H as [u [t [E Ht]]].
      destruct u; destruct t; try discriminate. assumption.
Qed.

Lemma matches_chars w p t : Matches (chars w ++ p) t <-> exists t', t = w ++ t' /\ Matches p t'.
Proof.
  revert t; induction w as [|c w IH]; intros t; cbn.
  - split; [intros H; exists t; auto | intros [t' [E H]]; subst; assumption].
  - rewrite matches_char. split.
    + intros [s' [E H]]. apply IH in H as [t' [E' H]]. subst. exists t'; auto.
    + intros [t' [E H]]. subst. exists (w ++ t'); split; [reflexivity|]. apply IH. eauto.
Qed.

Lemma chars_app w c : chars (w ++ [c]) = chars w ++ [PChar c].
Proof. unfold chars; rewrite map_app; reflexivity. Qed.

(* the alternatives kept at the backtrack point: retry pb against a strictly later suffix of sb *)
Definition Alt (bt : option (pattern * str)) : Prop :=
  match bt with
  | None => False
  | Some (pb, sb) => exists u t, u <> [] /\ sb = u ++ t /\ Matches pb t
  end.

(* since the last star only literal characters were consumed *)
Definition WF (s : str) (p : pattern) (bt : option (pattern * str)) : Prop :=
  match bt with
  | None => True
  | Some (pb, sb) => exists w, pb = chars w ++ p /\ sb = w ++ s
  end.

Definition Inv (Q : Prop) (s : str) (p : pattern) (bt : option (pattern * str)) : Prop :=
  (Q <-> Matches p s \/ Alt bt) /\ WF s p bt.

Lemma app_suffix_shift {A} (u w t' s : list A) :
  u <> [] -> u ++ w ++ t' = w ++ s -> exists l, l <> [] /\ s = l ++ t'.
Proof.
  intros Hu E. rewrite app_assoc in E. apply app_eq_app in E as [l [[E1 E2]|[E1 E2]]].
  - exists l; split; [|assumption]. intros ->. rewrite app_nil_r in E1.
    apply (f_equal (@length A)) in E1. rewrite app_length in E1. destruct u; [congruence | cbn in E1; lia].
  - exfalso. apply (f_equal (@length A)) in E1. rewrite !app_length in E1. destruct u; [congruence | cbn in E1; lia].
Qed.

Lemma inv_star Q c s' p' bt :
  Inv Q (c :: s') (PStar :: p') bt -> Inv Q (c :: s') p' (Some (p', c :: s')).
Proof.
  intros [HQ HW]. split.
  - rewrite HQ. cbn [Alt]. split.
    + intros [H|H].
      * apply matches_star in H as [u [t [E Ht]]]. destruct u as [|x u].
        -- left. cbn in E; subst; assumption.
        -- right. exists (x :: u), t. split; [discriminate | split; assumption].
      * destruct bt as [[pb sb]|]; [|destruct H]. cbn in H, HW.
        destruct HW as [w [Ep Es]]. destruct H as [u [t [Hu [E Ht]]]]. subst pb sb.
        apply matches_chars in Ht as [t' [Et Ht']]. subst t.
        destruct (app_suffix_shift u w t' (c :: s') Hu (eq_sym E)) as [l [Hl El]].
        apply matches_star in Ht' as [u2 [t2 [E2 H2]]]. subst t'.
        right. exists (l ++ u2), t2. split; [|split].
        -- destruct l; [congruence | discriminate].
        -- rewrite El, app_assoc; reflexivity.
        -- assumption.
    + intros [H|[u [t [Hu [E Ht]]]]]; left; apply matches_star.
      * exists [], (c :: s'); auto.
      * exists u, t; auto.
  - cbn. exists []; auto.
Qed.

Lemma inv_char Q c s' p' bt :
  Inv Q (c :: s') (PChar c :: p') bt -> Inv Q s' p' bt.
Proof.
  intros [HQ HW]. split.
  - rewrite HQ. rewrite matches_char. split.
    + intros [[s2 [E H]]|H]; [left; inversion E; subst; assumption | right; assumption].
    + intros [H|H]; [left; eauto | right; assumption].
  - destruct bt as [[pb sb]|]; [|exact I]. cbn in *. destruct HW as [w [Ep Es]].
    exists (w ++ [c]). rewrite chars_app, <- !app_assoc. cbn. auto.
Qed.

Lemma inv_backtrack Q s p pb c0 sb' :
  ~ Matches p s -> Inv Q s p (Some (pb, c0 :: sb')) -> Inv Q sb' pb (Some (pb, sb')).
Proof.
  intros N [HQ HW]. split.
  - rewrite HQ. cbn [Alt]. split.
    + intros [H|[u [t [Hu [E Ht]]]]]; [contradiction|].
      destruct u as [|x u]; [congruence|]. inversion E; subst. destruct u as [|y u].
      * left; assumption.
      * right. exists (y :: u), t. split; [discriminate | auto].
    + intros [H|[u [t [Hu [E Ht]]]]]; right.
      * exists [c0], sb'. split; [discriminate | auto].
      * exists (c0 :: u), t. split; [discriminate | subst; auto].
  - cbn. exists []; auto.
Qed.

Lemma alt_at_end p bt : WF [] p bt -> ~ Alt bt.
Proof.
  destruct bt as [[pb sb]|]; cbn; [|tauto]. intros [w [Ep Es]] [u [t [Hu [E Ht]]]].
  rewrite Es in E. clear Es. subst pb. rewrite app_nil_r in E. apply matches_chars in Ht as [t' [Et _]]. subst t.
  apply (f_equal (@length N)) in E. rewrite !app_length in E. destruct u; [congruence | cbn in E; lia].
Qed.

Theorem wl_correct Q : forall fuel s p bt b,
  Inv Q s p bt -> wl fuel s p bt = Some b -> (b = true <-> Q).
Proof.
  induction fuel as [|f IH]; intros s p bt b HI H; [discriminate|].
  cbn [wl] in H. destruct s as [|c s'].
  - (* end of text *)
    inversion H; subst. destruct HI as [HQ HW]. rewrite HQ, all_stars_spec.
    pose proof (alt_at_end p bt HW). tauto.
  - assert (Early : forall sb, bt = Some ([], sb) -> (b = true <-> Q) \/ False).
    { intros sb E. left. subst bt. destruct HI as [HQ HW]. cbn in HW. destruct HW as [w [Ep Es]].
      symmetry in Ep. apply app_eq_nil in Ep as [Ew Ep]. destruct w; [|discriminate]. subst p. cbn in Es. subst sb.
      inversion H; subst. cbn. rewrite HQ. split; [|reflexivity]. intros _. right. cbn.
      exists (c :: s'), []. split; [discriminate | split; [rewrite app_nil_r; reflexivity | constructor]]. }
    destruct bt as [[[|e pb] sb]|] eqn:Ebt.
    + destruct (Early sb eq_refl) as [X|[]]; exact X.
    + (* bt = Some (e :: pb, sb) *)
      clear Early. destruct p as [|[x|] p'].
      * (* pattern exhausted, text not: backtrack *)
        destruct sb as [|c0 sb'].
        -- destruct HI as [_ [w [_ Es]]]. destruct w; discriminate.
        -- eapply IH; [|exact H]. eapply inv_backtrack; [|exact HI]. intros M; inversion M.
      * destruct (N.eqb x c) eqn:Ex.
        -- apply N.eqb_eq in Ex; subst x. eapply IH; [|exact H]. apply (inv_char Q c); assumption.
        -- destruct sb as [|c0 sb'].
           ++ destruct HI as [_ [w [_ Es]]]. destruct w; discriminate.
           ++ eapply IH; [|exact H]. eapply inv_backtrack; [|exact HI].
              intros M; inversion M; subst. rewrite N.eqb_refl in Ex; discriminate.
      * eapply IH; [|exact H]. apply inv_star with (bt := Some (e :: pb, sb)); assumption.
    + (* no star seen yet *)
      clear Early. destruct p as [|[x|] p'].
      * inversion H; subst. destruct HI as [HQ _]. rewrite HQ. cbn.
        split; [discriminate | intros [M|[]]; inversion M].
      * destruct (N.eqb x c) eqn:Ex.
        -- apply N.eqb_eq in Ex; subst x. eapply IH; [|exact H]. apply (inv_char Q c); assumption.
        -- inversion H; subst. destruct HI as [HQ _]. rewrite HQ. cbn.
           split; [discriminate | intros [M|[]]; inversion M; subst; rewrite N.eqb_refl in Ex; discriminate].
      * eapply IH; [|exact H]. apply inv_star with (bt := None); assumption.
Qed.

(* ---------- termination: the measure decreases at every iteration ---------- *)
Local Open Scope nat_scope.
Lemma wf_star c s' p' : WF (c :: s') p' (Some (p', c :: s')).
Proof. cbn. exists []; auto. Qed.

Lemma wf_char c s' p' bt : WF (c :: s') (PChar c :: p') bt -> WF s' p' bt.
Proof.
  destruct bt as [[pb sb]|]; [|auto]. cbn. intros [w [Ep Es]].
  exists (w ++ [c]). rewrite chars_app, <- !app_assoc. cbn. auto.
Qed.

Lemma wf_backtrack pb sb' : WF sb' pb (Some (pb, sb')).
Proof. cbn. exists []; auto. Qed.

Lemma chars_length w : length (chars w) = length w.
Proof. unfold chars; apply map_length. Qed.

Lemma measure_star c s' p' bt :
  WF (c :: s') (PStar :: p') bt ->
  wl_measure (c :: s') p' (Some (p', c :: s')) < wl_measure (c :: s') (PStar :: p') bt.
Proof.
  destruct bt as [[pb sb]|]; cbn [wl_measure WF].
  - intros [w [Ep Es]]. subst pb sb. rewrite !app_length, chars_length. cbn [length].
    remember (length s') as a. remember (length p') as b. remember (length w) as k. nia.
  - intros _. cbn [length]. remember (length s') as a. remember (length p') as b. nia.
Qed.

Lemma measure_char c s' x p' bt :
  wl_measure s' p' bt < wl_measure (c :: s') (PChar x :: p') bt.
Proof.
  destruct bt as [[pb sb]|]; cbn [wl_measure length].
  - lia.
  - remember (length s') as a. remember (length p') as b. nia.
Qed.

Lemma measure_backtrack s p pb c0 sb' :
  wl_measure sb' pb (Some (pb, sb')) < wl_measure s p (Some (pb, c0 :: sb')).
Proof.
  cbn [wl_measure length]. remember (length sb') as a. remember (length pb) as b. nia.
Qed.

Lemma lt_chain (a b f : nat) : a < b -> b < S f -> a < f.
Proof. lia. Qed.

Theorem wl_terminates : forall fuel s p bt,
  WF s p bt -> wl_measure s p bt < fuel -> wl fuel s p bt <> None.
Proof.
  induction fuel as [|f IH]; intros s p bt HW HM; [lia|].
  cbn [wl]. destruct s as [|c s']; [discriminate|].
  destruct bt as [[[|e pb] sb]|].
  - discriminate.
  - destruct p as [|[x|] p'].
    + destruct sb as [|c0 sb']; [discriminate|].
      apply IH; [apply wf_backtrack|]. eapply lt_chain; [apply (measure_backtrack (c :: s') [] (e :: pb) c0 sb') | exact HM].
    + destruct (N.eqb x c) eqn:Ex.
      * apply N.eqb_eq in Ex; subst x. apply IH; [eapply wf_char; eassumption|].
        eapply lt_chain; [apply (measure_char c s' c p' (Some (e :: pb, sb))) | exact HM].
      * destruct sb as [|c0 sb']; [discriminate|].
        apply IH; [apply wf_backtrack|].
        eapply lt_chain; [apply (measure_backtrack (c :: s') (PChar x :: p') (e :: pb) c0 sb') | exact HM].
    + apply IH; [apply (wf_star c s' p')|].
      eapply lt_chain; [apply (measure_star c s' p' (Some (e :: pb, sb)) HW) | exact HM].
  - destruct p as [|[x|] p'].
    + discriminate.
    + destruct (N.eqb x c) eqn:Ex; [|discriminate].
      apply N.eqb_eq in Ex; subst x. apply IH; [exact I|].
      eapply lt_chain; [apply (measure_char c s' c p' None) | exact HM].
    + apply IH; [apply (wf_star c s' p')|].
      eapply lt_chain; [apply (measure_star c s' p' None HW) | exact HM].
Qed.

(* ---------- the loop computes the declarative matcher ---------- *)
Theorem wildcard_loop_correct p s : wildcard_loop p s = wildcard p s.
Proof.
  unfold wildcard_loop. destruct p as [|e p']; [destruct s; reflexivity|].
  set (p := e :: p').
  destruct (wl (wl_fuel p s) s p None) as [b|] eqn:E.
  - assert (H : b = true <-> Matches p s).
    { eapply (wl_correct (Matches p s)); [|exact E]. split; [|exact I]. cbn. tauto. }
    rewrite <- wildcard_iff in H. destruct b, (wildcard p s); try reflexivity.
    + symmetry; apply H; reflexivity.
    + apply H; reflexivity.
  - exfalso. eapply (wl_terminates (wl_fuel p s) s p None); [exact I | unfold wl_fuel; lia | exact E].
Qed.
