(* EvalProofs.v — characterising lemmas of the evaluator (property C02). *)
From Coq Require Import Lia.
From Cedar Require Import Eval.

Section Laws.
  Variable sl : slotenv.
  Variable q : request.
  Variable es : entities.
  Notation ev := (eval sl q es).

  (* ---------- && ---------- *)
  Lemma and_false_l a b : ev a = Ok (VBool false) -> ev (And a b) = Ok (VBool false).
  Proof. intros H; cbn; rewrite H; reflexivity. Qed.
  Lemma and_err_l a b e : ev a = Err e -> ev (And a b) = Err e.
  Proof. intros H; cbn; rewrite H; reflexivity. Qed.
  Lemma and_nonbool_l a b v : ev a = Ok v -> (forall x, v <> VBool x) -> ev (And a b) = Err ErrType.
  Proof.
    intros H N; cbn; rewrite H; cbn. destruct v as [[x| | |]| | |]; try reflexivity. exfalso; apply (N x); reflexivity.
  Qed.
  Lemma and_true_l a b : ev a = Ok (VBool true) ->
    ev (And a b) = match ev b with
                   | Ok (VPrim (PBool y)) => Ok (VBool y)
                   | Ok _ => Err ErrType
                   | Err e => Err e
                   end.
  Proof.
    intros H; cbn; rewrite H; cbn. destruct (ev b) as [v|e]; cbn; [|reflexivity].
    destruct v as [[x| | |]| | |]; reflexivity.
  Qed.

  (* ---------- || ---------- *)
  Lemma or_true_l a b : ev a = Ok (VBool true) -> ev (Or a b) = Ok (VBool true).
  Proof. intros H; cbn; rewrite H; reflexivity. Qed.
  Lemma or_err_l a b e : ev a = Err e -> ev (Or a b) = Err e.
  Proof. intros H; cbn; rewrite H; reflexivity. Qed.
  Lemma or_nonbool_l a b v : ev a = Ok v -> (forall x, v <> VBool x) -> ev (Or a b) = Err ErrType.
  Proof.
    intros H N; cbn; rewrite H; cbn. destruct v as [[x| | |]| | |]; try reflexivity. exfalso; apply (N x); reflexivity.
  Qed.
  Lemma or_false_l a b : ev a = Ok (VBool false) ->
    ev (Or a b) = match ev b with
                  | Ok (VPrim (PBool y)) => Ok (VBool y)
                  | Ok _ => Err ErrType
                  | Err e => Err e
                  end.
  Proof.
    intros H; cbn; rewrite H; cbn. destruct (ev b) as [v|e]; cbn; [|reflexivity].
    destruct v as [[x| | |]| | |]; reflexivity.
  Qed.

  (* ---------- if ---------- *)
  Lemma if_true c t f : ev c = Ok (VBool true) -> ev (If c t f) = ev t.
  Proof. intros H; cbn; rewrite H; reflexivity. Qed.
  Lemma if_false c t f : ev c = Ok (VBool false) -> ev (If c t f) = ev f.
  Proof. intros H; cbn; rewrite H; reflexivity. Qed.
  Lemma if_err c t f e : ev c = Err e -> ev (If c t f) = Err e.
  Proof. intros H; cbn; rewrite H; reflexivity. Qed.
  Lemma if_nonbool c t f v : ev c = Ok v -> (forall x, v <> VBool x) -> ev (If c t f) = Err ErrType.
  Proof.
    intros H N; cbn; rewrite H; cbn. destruct v as [[x| | |]| | |]; try reflexivity. exfalso; apply (N x); reflexivity.
  Qed.

  (* ---------- binary operators: strict, left to right ---------- *)
  Lemma binapp_err_l op a b e : ev a = Err e -> ev (BinApp op a b) = Err e.
  Proof. intros H; cbn; rewrite H; reflexivity. Qed.
  Lemma binapp_err_r op a b va e : ev a = Ok va -> ev b = Err e -> ev (BinApp op a b) = Err e.
  Proof. intros H1 H2; cbn; rewrite H1, H2; reflexivity. Qed.
  Lemma binapp_vals op a b va vb : ev a = Ok va -> ev b = Ok vb -> ev (BinApp op a b) = binary_app es op va vb.
  Proof. intros H1 H2; cbn; rewrite H1, H2; reflexivity. Qed.

  (* ---------- == is total ---------- *)
  Lemma eq_total a b va vb : ev a = Ok va -> ev b = Ok vb -> ev (BinApp BEq a b) = Ok (VBool (value_eqb va vb)).
  Proof. intros H1 H2; cbn; rewrite H1, H2; reflexivity. Qed.

  (* ---------- checked 64-bit arithmetic ---------- *)
  Definition arith (op : binop) (x y : Z) : Z :=
    match op with BAdd => x + y | BSub => x - y | _ => x * y end.

  Lemma arith_exact op a b x y :
    (op = BAdd \/ op = BSub \/ op = BMul) ->
    ev a = Ok (VLong x) -> ev b = Ok (VLong y) ->
    ev (BinApp op a b) = if in_i64 (arith op x y) then Ok (VLong (arith op x y)) else Err ErrOverflow.
  Proof.
    intros Hop H1 H2; cbn; rewrite H1, H2; cbn.
    destruct Hop as [E|[E|E]]; subst op; reflexivity.
  Qed.

  Lemma arith_type_error op a b va vb :
    (op = BAdd \/ op = BSub \/ op = BMul) ->
    ev a = Ok va -> ev b = Ok vb -> (forall x, va <> VLong x) \/ (forall y, vb <> VLong y) ->
    ev (BinApp op a b) = Err ErrType.
  Proof.
    intros Hop H1 H2 N; cbn; rewrite H1, H2.
    assert (E : binary_arith op va vb = Err ErrType).
    { unfold binary_arith. destruct va as [[ | x | | ]| | |]; cbn; try reflexivity.
      destruct vb as [[ | y | | ]| | |]; cbn; try reflexivity.
      destruct N as [N|N]; [exfalso; apply (N x) | exfalso; apply (N y)]; reflexivity. }
    destruct Hop as [E'|[E'|E']]; subst op; exact E.
  Qed.

  Lemma neg_exact a x :
    ev a = Ok (VLong x) ->
    ev (UnApp UNeg a) = if in_i64 (- x) then Ok (VLong (- x)) else Err ErrOverflow.
  Proof. intros H; cbn; rewrite H; reflexivity. Qed.

  (* ---------- has / attribute access ---------- *)
  Lemma has_absent_entity e u a :
    ev e = Ok (VEntity u) -> find_entity u es = None -> ev (HasAttr e a) = Ok (VBool false).
  Proof. intros H N; cbn; rewrite H; cbn; rewrite N; reflexivity. Qed.
  Lemma get_absent_entity e u a :
    ev e = Ok (VEntity u) -> find_entity u es = None -> ev (GetAttr e a) = Err ErrEntityMissing.
  Proof. intros H N; cbn; rewrite H; cbn; rewrite N; reflexivity. Qed.
  Lemma has_iff_get_record e r a :
    ev e = Ok (VRecord r) ->
    (ev (HasAttr e a) = Ok (VBool true) <-> exists v, ev (GetAttr e a) = Ok v).
  Proof.
    intros H; cbn; rewrite H; cbn; unfold has_key. destruct (lookup a r) as [v|]; split.
    - intros _; exists v; reflexivity.
    - reflexivity.
    - discriminate.
    - intros [v Hv]; discriminate.
  Qed.
  Lemma has_iff_get_entity e u a :
    ev e = Ok (VEntity u) ->
    (ev (HasAttr e a) = Ok (VBool true) <-> exists v, ev (GetAttr e a) = Ok v).
  Proof.
    intros H; cbn; rewrite H; cbn; unfold has_key. destruct (find_entity u es) as [d|].
    - destruct (lookup a (eattrs d)) as [v|]; split.
      + intros _; exists v; reflexivity.
      + reflexivity.
      + discriminate.
      + intros [v Hv]; discriminate.
    - split; [discriminate | intros [v Hv]; discriminate].
  Qed.
  Lemma hastag_absent_entity e t u k :
    ev e = Ok (VEntity u) -> ev t = Ok (VString k) -> find_entity u es = None ->
    ev (BinApp BHasTag e t) = Ok (VBool false).
  Proof. intros H1 H2 N; cbn; rewrite H1, H2; cbn; rewrite N; reflexivity. Qed.

  (* ---------- is ---------- *)
  Lemma is_spec e u t : ev e = Ok (VEntity u) -> ev (Is e t) = Ok (VBool (name_eqb (uty u) t)).
  Proof. intros H; cbn; rewrite H; reflexivity. Qed.

  (* ---------- in: reflexive-transitive hierarchy membership ---------- *)
  Definition member (u a : uid) : bool :=
    uid_eqb u a || match find_entity u es with Some d => is_descendant_of d a | None => false end.

  Lemma in_entity e f u a :
    ev e = Ok (VEntity u) -> ev f = Ok (VEntity a) -> ev (BinApp BIn e f) = Ok (VBool (member u a)).
  Proof.
    intros H1 H2; cbn; rewrite H1, H2; cbn. unfold member. rewrite orb_false_r. reflexivity.
  Qed.

  Lemma mapM_as_entity (us : list uid) : mapM as_entity (map VEntity us) = Ok us.
  Proof. induction us as [|x xs IH]; cbn; [reflexivity|]. rewrite IH; reflexivity. Qed.

  Lemma mapM_as_entity_bad l v :
    In v l -> (forall x, v <> VEntity x) -> mapM as_entity l = Err ErrType.
  Proof.
    intros Hin N. induction l as [|x xs IH]; [destruct Hin|]. cbn.
    destruct Hin as [E|Hin]; [subst x|].
    - destruct v as [[ | | |w]| | |]; cbn; try reflexivity. exfalso; apply (N w); reflexivity.
    - destruct (as_entity x) as [y|err] eqn:Ex; cbn.
      + rewrite (IH Hin); reflexivity.
      + destruct x as [[ | | |w]| | |]; cbn in Ex; congruence.
  Qed.

  Lemma in_entity_set e f u (us : list uid) :
    ev e = Ok (VEntity u) -> ev f = Ok (VSet (map VEntity us)) ->
    ev (BinApp BIn e f) = Ok (VBool (existsb (member u) us)).
  Proof.
    intros H1 H2; cbn; rewrite H1, H2; cbn. unfold eval_in.
    rewrite mapM_as_entity; cbn. reflexivity.
  Qed.

  Lemma in_set_nonentity e f u l :
    ev e = Ok (VEntity u) -> ev f = Ok (VSet l) -> (exists v, In v l /\ forall x, v <> VEntity x) ->
    ev (BinApp BIn e f) = Err ErrType.
  Proof.
    intros H1 H2 [v [Hin N]]; cbn; rewrite H1, H2; cbn. unfold eval_in.
    rewrite (mapM_as_entity_bad l v Hin N); reflexivity.
  Qed.
End Laws.

(* ---------- like ---------- *)
Inductive Matches : pattern -> str -> Prop :=
| M_nil : Matches [] []
| M_char c p s : Matches p s -> Matches (PChar c :: p) (c :: s)
| M_star_skip p s : Matches p s -> Matches (PStar :: p) s
| M_star_eat p c s : Matches (PStar :: p) s -> Matches (PStar :: p) (c :: s).

Lemma wildcard_star p s :
  wildcard (PStar :: p) s = wildcard p s || match s with [] => false | _ :: s' => wildcard (PStar :: p) s' end.
Proof. destruct s; reflexivity. Qed.

Lemma wildcard_sound p : forall s, wildcard p s = true -> Matches p s.
Proof.
  induction p as [|[c|] p IH]; intros s H.
  - destruct s; [constructor | discriminate].
  - destruct s as [|x s]; [discriminate|]. cbn in H. apply andb_prop in H as [H1 H2].
    apply N.eqb_eq in H1; subst. constructor; auto.
  - induction s as [|x s IHs].
    + rewrite wildcard_star in H. rewrite orb_false_r in H. apply M_star_skip; auto.
    + rewrite wildcard_star in H. apply orb_prop in H as [H|H].
      * apply M_star_skip; auto.
      * apply M_star_eat; auto.
Qed.

Lemma wildcard_complete p s : Matches p s -> wildcard p s = true.
Proof.
  induction 1.
  - reflexivity.
  - cbn. rewrite N.eqb_refl; assumption.
  - rewrite wildcard_star, IHMatches; reflexivity.
  - rewrite wildcard_star, IHMatches. apply orb_true_r.
Qed.

Theorem wildcard_iff p s : wildcard p s = true <-> Matches p s.
Proof. split; [apply wildcard_sound | apply wildcard_complete]. Qed.

(* evaluation of `like` *)
Lemma like_spec sl q es e p s :
  eval sl q es e = Ok (VString s) -> eval sl q es (Like e p) = Ok (VBool (wildcard p s)).
Proof. intros H; cbn; rewrite H; reflexivity. Qed.
