(* TPETyping.v — towards c14_noerr_from_typing: on the fragment of expressions covered by the typechecker
   soundness theorem of C03 (TypecheckProofs.tc_sound: literals, variables, &&, ||, !, ==, has / get on the
   context), a typechecked expression cannot error at all on a request of the environment: the only error classes
   the fragment can raise syntactically are type errors and missing attributes, and tc_sound excludes both. *)
From Coq Require Import List Bool.
From Cedar Require Import Typecheck TypecheckProofs TypecheckMain.
Import ListNotations.

(* the error-free sub-fragment of C03's proved fragment (TypecheckMain.in_fragment has since grown to arithmetic,
   entity access paths, ... whose evaluation CAN fail with the permitted errors overflow / missing entity) *)
Fixpoint tpe_fragment (e : expr) : bool :=
  match e with
  | Lit _ | Var _ => true
  | And a b | Or a b | BinApp BEq a b => tpe_fragment a && tpe_fragment b
  | UnApp UNot a => tpe_fragment a
  | HasAttr (Var Context) _ | GetAttr (Var Context) _ => true
  | _ => false
  end.

Lemma tpe_fragment_in_fragment e : tpe_fragment e = true -> in_fragment e = true.
Proof.
  induction e; cbn [tpe_fragment in_fragment]; try discriminate; auto.
  - intros H. apply andb_prop in H as [Ha Hb]. rewrite IHe1, IHe2; auto.
  - intros H. apply andb_prop in H as [Ha Hb]. rewrite IHe1, IHe2; auto.
  - destruct op; try discriminate. auto.
  - destruct op; try discriminate. intros H. apply andb_prop in H as [Ha Hb]. rewrite IHe1, IHe2; auto.
  - destruct e; try discriminate. destruct v; try discriminate. reflexivity.
  - destruct e; try discriminate. destruct v; try discriminate. reflexivity.
Qed.

Lemma fragment_err_class q es e : tpe_fragment e = true ->
  forall c, eval [] q es e = Err c -> c = ErrType \/ c = ErrAttrMissing.
Proof.
  induction e; cbn [tpe_fragment]; try discriminate; intros Hf c H.
  - apply andb_prop in Hf as [Ha Hb]. rewrite eval_and in H.
    destruct (eval [] q es e1) as [va|ea] eqn:Ea; cbn in H; [|inversion H; subst; eapply IHe1; eauto].
    destruct (as_bool va) as [x|ex] eqn:Ex; cbn in H.
    + destruct x; [|discriminate H].
      destruct (eval [] q es e2) as [vb|eb] eqn:Eb; cbn in H; [|inversion H; subst; eapply IHe2; eauto].
      destruct (as_bool vb) as [y|ey] eqn:Ey; cbn in H; [discriminate H|].
      inversion H; subst. destruct vb as [p| | |]; try (cbn in Ey; inversion Ey; auto). destruct p; cbn in Ey; inversion Ey; auto.
    + inversion H; subst. destruct va as [p| | |]; try (cbn in Ex; inversion Ex; auto). destruct p; cbn in Ex; inversion Ex; auto.
  - apply andb_prop in Hf as [Ha Hb]. rewrite eval_or in H.
    destruct (eval [] q es e1) as [va|ea] eqn:Ea; cbn in H; [|inversion H; subst; eapply IHe1; eauto].
    destruct (as_bool va) as [x|ex] eqn:Ex; cbn in H.
    + destruct x; [discriminate H|].
      destruct (eval [] q es e2) as [vb|eb] eqn:Eb; cbn in H; [|inversion H; subst; eapply IHe2; eauto].
      destruct (as_bool vb) as [y|ey] eqn:Ey; cbn in H; [discriminate H|].
      inversion H; subst. destruct vb as [p| | |]; try (cbn in Ey; inversion Ey; auto). destruct p; cbn in Ey; inversion Ey; auto.
    + inversion H; subst. destruct va as [p| | |]; try (cbn in Ex; inversion Ex; auto). destruct p; cbn in Ex; inversion Ex; auto.
  - destruct op; try discriminate. rewrite eval_not in H.
    destruct (eval [] q es e) as [va|ea] eqn:Ea; cbn in H; [|inversion H; subst; eapply IHe; eauto].
    destruct va as [p| | |]; try (cbn in H; inversion H; auto). destruct p; cbn in H; inversion H; auto.
  - destruct op; try discriminate. apply andb_prop in Hf as [Ha Hb]. rewrite eval_eq in H.
    destruct (eval [] q es e1) as [va|ea] eqn:Ea; cbn in H; [|inversion H; subst; eapply IHe1; eauto].
    destruct (eval [] q es e2) as [vb|eb] eqn:Eb; cbn in H; [discriminate H|inversion H; subst; eapply IHe2; eauto].
  - destruct e; try discriminate. destruct v; try discriminate.
    rewrite eval_getattr in H. cbn in H. destruct (lookup a (rcontext q)); inversion H; auto.
  - destruct e; try discriminate. destruct v; try discriminate.
Qed.

(* a typechecked expression of the fragment evaluates, without error, to a value of its type
   (hypotheses: those of C03's tc_sound — well-formed schema, request and store conformant) *)
Theorem noerr_from_typing m sch env q es :
  schema_wf sch = true ->
  (forall t, is_action_type t = true -> find_etype sch t = None) ->
  decl_ty_ok (re_context env) = true ->
  env_ok env q ->
  store_ok sch es ->
  forall e, tpe_fragment e = true ->
  forall cs t cs', caps_hold q es cs -> tc m sch env cs e = Some (t, cs') ->
  exists v, eval [] q es e = Ok v /\ TypeConforms v t.
Proof.
  intros Hwf Hact Hctx Henv Hst e Hf cs t cs' Hc Ht.
  destruct (tc_sound m sch env q es Hwf Hact Hctx Henv Hst e (tpe_fragment_in_fragment e Hf) cs t cs' Hc Ht)
    as [_ [[c [He Ha]]|[v [He [Hv _]]]]].
  - exfalso. destruct (fragment_err_class q es e Hf c He) as [->| ->];
      destruct Ha as [Ha|[Ha|Ha]]; discriminate Ha.
  - eauto.
Qed.

(* ... in particular a boolean-typed one is a boolean: the `boolish` and no-error premises of TPESound.Side *)
Corollary bool_noerr_from_typing m sch env q es :
  schema_wf sch = true ->
  (forall t, is_action_type t = true -> find_etype sch t = None) ->
  decl_ty_ok (re_context env) = true ->
  env_ok env q ->
  store_ok sch es ->
  forall e, tpe_fragment e = true ->
  forall cs x cs', caps_hold q es cs -> tc m sch env cs e = Some (TBool x, cs') ->
  exists b, eval [] q es e = Ok (VBool b).
Proof.
  intros Hwf Hact Hctx Henv Hst e Hf cs x cs' Hc Ht.
  destruct (noerr_from_typing m sch env q es Hwf Hact Hctx Henv Hst e Hf cs _ cs' Hc Ht) as [v [He Hv]].
  destruct (conf_bool v x Hv) as [b [-> _]]. eauto.
Qed.
