(* ParseProofs3.v — C05: parse (print_toks e) = e on the fragment.  Part 3: the main induction. *)
From Coq Require Import Lia String.
From Cedar Require Import Unescape UnescapeProofs Printable ExprInd SortProofs ParseProofs ParseProofs2.
Open Scope N_scope.

Lemma level_le7 e : (level e <= 7)%nat.
Proof. destruct e; cbn; try lia; try (destruct op; lia). Qed.

Lemma bare_level e : bare_operand e = true -> level e = 7%nat.
Proof. destruct e; cbn; try discriminate; try reflexivity; destruct op; cbn; try discriminate; reflexivity. Qed.

Lemma mk_and_not_both a b : both_bool a b = false -> mk_and a b = And a b.
Proof.
  destruct a; try reflexivity. destruct p; try reflexivity.
  destruct b; try reflexivity. destruct p; try reflexivity. discriminate.
Qed.
Lemma mk_or_not_both a b : both_bool a b = false -> mk_or a b = Or a b.
Proof.
  destruct a; try reflexivity. destruct p; try reflexivity.
  destruct b; try reflexivity. destruct p; try reflexivity. discriminate.
Qed.

Definition acc_head (rest : list token) : bool :=
  match rest with TDot :: _ | TLBrack :: _ => true | _ => false end.
Lemma acc_head_facts rest : acc_head rest = true ->
  access_start rest = true /\ no_path rest = true /\ match rest with TLParen :: _ => False | _ => True end.
Proof. destruct rest as [|[] ?]; cbn; intros H; try discriminate; repeat split. Qed.

Lemma follow3_haspath rest : follow_ok 3 rest = true -> parse_has_path rest = Some ([], rest).
Proof. destruct rest as [|[] ?]; cbn; intros H; try reflexivity; discriminate. Qed.
Lemma follow3_not_in rest : follow_ok 3 rest = true ->
  match rest with TIdent s3 :: _ => kw "in" s3 = false | _ => True end.
Proof.
  destruct rest as [|[] ?]; cbn; intros H; try exact I.
  destruct (kw "in" s); [discriminate|reflexivity].
Qed.
Lemma follow7_not_lparen rest : follow_ok 7 rest = true -> match rest with TLParen :: _ => False | _ => True end.
Proof. destruct rest as [|[] ?]; cbn; intros H; try exact I; discriminate. Qed.

Definition starts_expr (ts : list token) : bool :=
  match ts with
  | (TIdent _ | TNum _ | TStr _ | TSlot _ | TLParen | TLBrack | TLBrace | TBang | TMinus | TColon2) :: _ => true
  | _ => false
  end.
Lemma starts_not_close ts : starts_expr ts = true ->
  match ts with t :: _ => is_rparen t = false /\ is_rbrack t = false | [] => False end.
Proof. destruct ts as [|[] ?]; cbn; intros H; try discriminate; split; reflexivity. Qed.

Lemma need_pos e : (1 <= need e)%nat.
Proof. destruct e; try destruct op; cbn; lia. Qed.
Lemma need_list l : (fix go (l : list expr) : nat := match l with [] => O | x :: l' => (S (need x) + go l')%nat end) l = needs l.
Proof. induction l as [|x l IH]; [reflexivity|]. cbn [needs]. rewrite <- IH. reflexivity. Qed.
Lemma needs_In a l : In a l -> (need a < needs l)%nat.
Proof. induction l as [|x l IH]; intros H; [contradiction|]. cbn [needs]. destruct H as [->|H]; [lia|]. specialize (IH H). lia. Qed.
Lemma needs_length l : (length l <= needs l)%nat.
Proof. induction l as [|x l IH]; cbn [length needs]; lia. Qed.

Lemma args_loop_nil rec n close t rest : close t = true -> args_loop rec n close (t :: rest) = Some ([], rest).
Proof. intros H. destruct n; cbn [args_loop]; rewrite H; reflexivity. Qed.
Lemma args_loop_cons rec k close ts r ts1 e :
  match ts with t :: _ => close t = false | [] => False end ->
  rec ts = Some (r, ts1) -> into_expr r = Some e ->
  args_loop rec (S k) close ts =
    match ts1 with
    | TComma :: ts2 => match args_loop rec k close ts2 with Some (es, r2) => Some (e :: es, r2) | None => None end
    | t1 :: ts2 => if close t1 then Some ([e], ts2) else None
    | [] => None
    end.
Proof. destruct ts as [|t ts']; [contradiction|]. intros Hc H Hi. cbn [args_loop]. rewrite Hc, H, Hi. reflexivity. Qed.

Lemma pm_func rec fuel ts n ts2 args ts3 e :
  parse_primary rec fuel ts = Some (EName n, TLParen :: ts2) ->
  args_loop rec fuel is_rparen ts2 = Some (args, ts3) -> into_func n args = Some e ->
  parse_member rec fuel ts = access_loop rec fuel fuel e ts3.
Proof. intros H1 H2 H3. unfold parse_member. rewrite H1. cbn [access_start]. rewrite H2, H3. reflexivity. Qed.

Lemma method_fn_facts m : existsb (str_eqb m) method_style_fns = true ->
  unreserved m = true /\ forall r args, to_meth m r args = Some (ExtCall [m] (r :: args)).
Proof.
  unfold method_style_fns. cbn [map existsb]. intros H.
  repeat (apply orb_true_iff in H; destruct H as [H|H]); try discriminate;
    apply str_eqb_eq in H; subst m; (split; [reflexivity|intros; reflexivity]).
Qed.

Lemma function_fn_facts fn : is_function_name fn = true ->
  exists b, fn = [b] /\ is_method_style fn = false /\ kw "if" b = false /\
    (forall args, into_func fn args = Some (ExtCall fn args)) /\
    (forall rec fuel X, parse_primary rec fuel (TIdent b :: TLParen :: X) = Some (EName [b], TLParen :: X)).
Proof.
  intros H. destruct fn as [|b [|? ?]]; try (cbn in H; discriminate H). unfold is_function_name, function_style_fns in H. cbn [map existsb] in H.
  repeat (apply orb_true_iff in H; destruct H as [H|H]); try discriminate;
    apply str_eqb_eq in H; subst b; eexists; repeat split; reflexivity.
Qed.

Lemma need_list_r l :
  (fix go (l : list (str * expr)) : nat := match l with [] => O | kv :: l' => (S (need (snd kv)) + go l')%nat end) l = needs_r l.
Proof. induction l as [|x l IH]; [reflexivity|]. cbn [needs_r]. rewrite <- IH. reflexivity. Qed.
Lemma needs_r_In kv l : In kv l -> (need (snd kv) < needs_r l)%nat.
Proof. induction l as [|x l IH]; intros H; [contradiction|]. cbn [needs_r]. destruct H as [->|H]; [lia|]. specialize (IH H). lia. Qed.
Lemma needs_r_length l : (length l <= needs_r l)%nat.
Proof. induction l as [|x l IH]; cbn [length needs_r]; lia. Qed.

Lemma recinits_nil rec n rest : recinits_loop rec n (TRBrace :: rest) = Some ([], rest).
Proof. destruct n; reflexivity. Qed.
Lemma recinits_cons rec k ts rk ts1 key rv ts2 v :
  match ts with TRBrace :: _ | [] => False | _ => True end -> starts_with_if ts = false ->
  rec ts = Some (rk, TColon :: ts1) -> into_valid_attr rk = Some key ->
  rec ts1 = Some (rv, ts2) -> into_expr rv = Some v ->
  recinits_loop rec (S k) ts =
    match ts2 with
    | TComma :: ts3 => match recinits_loop rec k ts3 with Some (kvs, r) => Some ((key, v) :: kvs, r) | None => None end
    | TRBrace :: ts3 => Some ([(key, v)], ts3)
    | _ => None
    end.
Proof.
  intros Hh Hif H1 H2 H3 H4. destruct ts as [|t ts']; [contradiction|].
  destruct t; try contradiction; cbn [recinits_loop]; rewrite Hif, H1, H2, H3, H4; reflexivity.
Qed.

Section Main.
  Variable np : N -> bool.
  Variable ge : N -> bool.
  Notation PT := (print_toks np ge).
  Notation SP := (sp np ge).
  Notation MWP := (mwp np ge).
  Notation R := parse_expr.

  Record main (e : expr) : Prop := {
    m_nopath : forall rest, starts_path (PT e ++ rest) = false;
    m_notif : level e <> 0%nat -> forall rest, not_if_head (PT e ++ rest) = true;
    m_plain : level e <> 0%nat -> level e <> 6%nat -> forall rest, head_plain (PT e ++ rest) = true;
    m_A : forall f, (need e <= f)%nat -> forall rest, follow_ok (level e) rest = true ->
          parse_at (level e) (R f) f (PT e ++ rest) = Some (SP e, rest);
    m_B : bare_operand e = true -> forall f, (need e <= f)%nat -> forall rest, acc_head rest = true ->
          exists n, (f <= n + need e)%nat /\
                    parse_member (R f) f (PT e ++ rest) = access_loop (R f) f n e rest;
    (* left-associative chains: the level parser ends in its loop with the whole chain as accumulator *)
    m_C : match e with
          | And _ _ => forall f, (need e <= f)%nat -> forall rest, follow_ok 3 rest = true ->
                       exists n, (f <= n + need e)%nat /\ parse_and (R f) f (PT e ++ rest) = and_loop (R f) f n e rest
          | Or _ _ => forall f, (need e <= f)%nat -> forall rest, follow_ok 2 rest = true ->
                      exists n, (f <= n + need e)%nat /\ parse_or (R f) f (PT e ++ rest) = or_loop (R f) f n e rest
          | BinApp BAdd _ _ | BinApp BSub _ _ =>
                      forall f, (need e <= f)%nat -> forall rest, follow_ok 5 rest = true ->
                      exists n, (f <= n + need e)%nat /\ parse_add (R f) f (PT e ++ rest) = add_loop (R f) f n e rest
          | BinApp BMul _ _ =>
                      forall f, (need e <= f)%nat -> forall rest, follow_ok 6 rest = true ->
                      exists n, (f <= n + need e)%nat /\ parse_mul (R f) f (PT e ++ rest) = mul_loop (R f) f n e rest
          | _ => True
          end
  }.

  Lemma top x : printable x = true -> main x ->
    forall f, (need x < f)%nat -> forall rest, follow_ok 0 rest = true ->
    R f (PT x ++ rest) = Some (SP x, rest).
  Proof.
    intros Hp M f Hf rest Hr. destruct f as [|f']; [lia|]. cbn [parse_expr].
    change (parse_expr_body (R f') f') with (parse_at 0 (R f') f').
    destruct (Nat.eq_dec (level x) 0) as [E|E].
    - pose proof (m_A x M f') as HA. rewrite E in HA. apply HA; [lia|exact Hr].
    - apply (descend (R f') f' (level x) 0).
      + apply (m_A x M); [lia|]. eapply follow_mono; [exact Hr|lia].
      + lia.
      + apply level_le7.
      + exact Hr.
      + intros E7. apply (m_plain x M); lia.
      + apply (m_notif x M). exact E.
  Qed.

  Lemma head_mwp x rest : main x ->
    starts_path (MWP x ++ rest) = false /\ not_if_head (MWP x ++ rest) = true /\ head_plain (MWP x ++ rest) = true.
  Proof.
    intros M. unfold mwp, wrapt. destruct (bare_operand x) eqn:Hb; [|repeat split].
    pose proof (bare_level x Hb) as E7. repeat split.
    - apply (m_nopath x M).
    - apply (m_notif x M). lia.
    - apply (m_plain x M); lia.
  Qed.

  Lemma paren_primary x : printable x = true -> main x ->
    forall f fuel, (need x < f)%nat -> forall rest,
    parse_primary (R f) fuel (TLParen :: PT x ++ TRParen :: rest) = Some (EExpr x, rest).
  Proof.
    intros Hp M f fuel Hf rest. eapply primary_paren.
    - apply (top x Hp M f Hf). reflexivity.
    - apply into_expr_sp. exact Hp.
  Qed.

  Lemma operand x : printable x = true -> main x ->
    forall f, (need x < f)%nat -> forall L, (L <= 7)%nat -> forall rest, follow_ok L rest = true ->
    exists r, parse_at L (R f) f (MWP x ++ rest) = Some (r, rest) /\ into_expr r = Some x.
  Proof.
    intros Hp M f Hf L HL rest Hr.
    assert (follow_ok 7 rest = true) as H7 by (eapply follow_mono; eauto).
    destruct (follow7_no_access rest H7) as [Hacc Hnp].
    unfold mwp, wrapt. destruct (bare_operand x) eqn:Hb.
    - pose proof (bare_level x Hb) as E7. exists (SP x). split; [|apply into_expr_sp; exact Hp].
      apply (descend (R f) f 7 L); try assumption; try lia.
      + pose proof (m_A x M f) as HA. rewrite E7 in HA. apply HA; [lia|exact H7].
      + intros _. apply (m_plain x M); lia.
      + apply (m_notif x M). lia.
    - exists (EExpr x). split; [|reflexivity]. cbn [app]. rewrite <- app_assoc. cbn [app].
      apply (descend (R f) f 7 L); try assumption; try lia; try reflexivity.
      cbn [parse_at]. apply pm_noacc; [|exact Hacc]. apply paren_primary; assumption.
  Qed.

  Lemma operand_acc x : printable x = true -> main x ->
    forall f, (need x < f)%nat -> forall rest, acc_head rest = true ->
    exists n, (f <= n + S (need x))%nat /\
              parse_member (R f) f (MWP x ++ rest) = access_loop (R f) f n x rest.
  Proof.
    intros Hp M f Hf rest Hr. unfold mwp, wrapt. destruct (bare_operand x) eqn:Hb.
    - destruct (m_B x M Hb f ltac:(lia) rest Hr) as (n & Hn & He). exists n. split; [lia|exact He].
    - exists f. split; [lia|]. cbn [app]. rewrite <- app_assoc. cbn [app].
      destruct (acc_head_facts rest Hr) as (Ha & _ & _).
      eapply pm_acc; [apply paren_primary; assumption|exact Ha|intros n; discriminate|reflexivity].
  Qed.

  (* ---- leaves ---- *)
  Lemma leaf_prim e : match e with Lit _ | Var _ | Slot _ => True | _ => False end ->
    printable e = true -> forall f fuel rest, no_path rest = true ->
    parse_primary (R (S f)) fuel (PT e ++ rest) = Some (SP e, rest).
  Proof.
    intros Hk Hp f fuel rest Hn.
    destruct e; try contradiction; try (apply leaf_primary; [exact I|exact Hp|exact Hn]).
    destruct p as [b|z|s|u]; try (apply leaf_primary; [exact I|exact Hp|exact Hn]).
    destruct (Z.ltb_spec z 0) as [Hz|Hz].
    - apply neg_lit_primary; [exact Hz|exact Hp].
    - apply leaf_primary; [exact Hz|exact Hp|exact Hn].
  Qed.

  Lemma leaf_not_name e : match e with Lit _ | Var _ | Slot _ => True | _ => False end ->
    forall n, SP e <> EName n.
  Proof. destruct e; try contradiction; intros _ n; try discriminate. destruct p; discriminate. Qed.

  Lemma leaf_heads e : match e with Lit _ | Var _ | Slot _ => True | _ => False end ->
    printable e = true -> forall rest,
    starts_path (PT e ++ rest) = false /\ not_if_head (PT e ++ rest) = true /\ head_plain (PT e ++ rest) = true.
  Proof.
    intros Hk Hp rest. destruct e; try contradiction.
    - destruct p as [b|z|s|u].
      + destruct b; repeat split.
      + cbn [print_toks prim_toks]. destruct (z <? 0)%Z; repeat split.
      + repeat split.
      + cbn [print_toks prim_toks]. unfold uid_toks. cbn [printable] in Hp.
        apply andb_true_iff in Hp. destruct Hp as [Hty _]. destruct (uty u) as [|c p]; [discriminate|].
        rewrite name_toks_cons. cbn [app starts_path not_if_head head_plain]. repeat split.
        unfold name_ok in Hty. cbn [forallb] in Hty. apply andb_true_iff in Hty. destruct Hty as [Hc _].
        destruct (unreserved_not_kw c (ident_ok_unreserved c Hc)) as (_ & _ & Hif). rewrite Hif. reflexivity.
    - destruct v; repeat split.
    - destruct s; repeat split.
  Qed.

  Lemma main_leaf e : match e with Lit _ | Var _ | Slot _ => True | _ => False end ->
    printable e = true -> main e.
  Proof.
    intros Hk Hp.
    assert (level e = 7%nat) as E7 by (destruct e; try contradiction; reflexivity).
    assert (need e = 1%nat) as En by (destruct e; try contradiction; reflexivity).
    constructor; try (destruct e; try contradiction; exact I).
    - intros rest. apply (leaf_heads e Hk Hp rest).
    - intros _ rest. apply (leaf_heads e Hk Hp rest).
    - intros _ _ rest. apply (leaf_heads e Hk Hp rest).
    - intros f Hf rest Hr. rewrite E7 in *. destruct f as [|f']; [lia|].
      destruct (follow7_no_access rest Hr) as [Ha Hn]. cbn [parse_at].
      apply pm_noacc; [|exact Ha]. apply leaf_prim; assumption.
    - intros _ f Hf rest Hr. destruct f as [|f']; [lia|].
      destruct (acc_head_facts rest Hr) as (Ha & Hn & _).
      exists (S f'). split; [lia|].
      eapply pm_acc; [apply leaf_prim; assumption|exact Ha|apply leaf_not_name; exact Hk|apply into_expr_sp; exact Hp].
  Qed.

  (* ---- printed forms ---- *)
  Lemma PT_and a b : match a with And _ _ => false | _ => true end = true ->
    PT (And a b) = MWP a ++ TAndAnd :: MWP b.
  Proof. destruct a; intros H; try reflexivity; discriminate. Qed.
  Lemma PT_or a b : match a with Or _ _ => false | _ => true end = true ->
    PT (Or a b) = MWP a ++ TOrOr :: MWP b.
  Proof. destruct a; intros H; try reflexivity; discriminate. Qed.
  Lemma PT_and_chain a1 a2 b : PT (And (And a1 a2) b) = PT (And a1 a2) ++ TAndAnd :: MWP b.
  Proof. reflexivity. Qed.
  Lemma PT_or_chain a1 a2 b : PT (Or (Or a1 a2) b) = PT (Or a1 a2) ++ TOrOr :: MWP b.
  Proof. reflexivity. Qed.
  Lemma PT_infix_chain op t a b : binop_tok op = Some t -> same_assoc op a = true ->
    PT (BinApp op a b) = PT a ++ t :: MWP b.
  Proof. intros Ht Hs. cbn [print_toks]. rewrite Ht, Hs. reflexivity. Qed.

  Lemma PT_infix op t a b : binop_tok op = Some t -> same_assoc op a = false ->
    PT (BinApp op a b) = MWP a ++ t :: MWP b.
  Proof. intros Ht Hs. cbn [print_toks]. rewrite Ht, Hs. reflexivity. Qed.

  Lemma PT_if_app c t e rest :
    PT (If c t e) ++ rest = tid "if" :: PT c ++ tid "then" :: PT t ++ tid "else" :: PT e ++ rest.
  Proof.
    cbn [print_toks]. rewrite <- app_comm_cons. f_equal. rewrite <- app_assoc. f_equal.
    rewrite <- app_comm_cons. f_equal. rewrite <- app_assoc. f_equal.
  Qed.

  Lemma body_if rec fuel tsc rc ts1 rt ts2 re ts3 c t e :
    starts_path tsc = false -> rec tsc = Some (rc, tid "then" :: ts1) ->
    rec ts1 = Some (rt, tid "else" :: ts2) -> rec ts2 = Some (re, ts3) ->
    into_expr rc = Some c -> into_expr rt = Some t -> into_expr re = Some e ->
    parse_expr_body rec fuel (tid "if" :: tsc) = Some (EExpr (If c t e), ts3).
  Proof.
    intros Hs H1 H2 H3 I1 I2 I3. unfold parse_expr_body, tid.
    change (kw "if" (ascii "if")) with true. cbv iota. rewrite Hs, H1. unfold tid.
    change (kw "then" (ascii "then")) with true. cbv iota. rewrite H2. unfold tid.
    change (kw "else" (ascii "else")) with true. cbv iota. rewrite H3, I1, I2, I3. reflexivity.
  Qed.

  Lemma name_at rec fuel t rest : name_ok t = true -> follow_ok 3 rest = true ->
    exists rt, parse_at 4 rec fuel (name_toks t ++ rest) = Some (rt, rest) /\
               match rt with EVar v => Some [show_var v] | EName m => Some m | _ => None end = Some t.
  Proof.
    intros Hn Hr. destruct t as [|c p]; [discriminate|].
    assert (forallb unreserved (c :: p) = true) as Hu.
    { apply forallb_forall. intros x Hx. apply ident_ok_unreserved.
      unfold name_ok in Hn. eapply forallb_forall in Hn; eauto. }
    assert (unreserved c = true) as Hc by (cbn [forallb] in Hu; apply andb_true_iff in Hu; apply Hu).
    destruct (unreserved_not_kw c Hc) as (Kt & Kf & Kif).
    assert (follow_ok 7 rest = true) as H7 by (eapply follow_mono; [exact Hr|lia]).
    destruct (follow7_no_access rest H7) as [Ha Hnp].
    assert (exists rt, parse_primary rec fuel (name_toks (c :: p) ++ rest) = Some (rt, rest) /\
              match rt with EVar v => Some [show_var v] | EName m => Some m | _ => None end = Some (c :: p))
      as (rt & Hprim & Hty).
    { rewrite name_toks_cons. cbn [app parse_primary]. rewrite parse_path_name by exact Hnp.
      destruct p as [|d p'].
      - rewrite Kt, Kf. destruct (var_of_ident c) eqn:Ev.
        + eexists. split; [reflexivity|]. cbn. rewrite (var_of_ident_show c v Ev). reflexivity.
        + rewrite Hc. eexists. split; reflexivity.
      - rewrite Hu. eexists. split; reflexivity. }
    exists rt. split; [|exact Hty].
    apply (descend rec fuel 7 4); try lia.
    - cbn [parse_at]. apply pm_noacc; assumption.
    - eapply follow_mono; [exact Hr|lia].
    - intros _. rewrite name_toks_cons. reflexivity.
    - rewrite name_toks_cons. cbn [app not_if_head]. rewrite Kif. reflexivity.
  Qed.

  Lemma starts_mwp x rest : (forall r, starts_expr (PT x ++ r) = true) -> starts_expr (MWP x ++ rest) = true.
  Proof. intros H. unfold mwp, wrapt. destruct (bare_operand x); [apply H|reflexivity]. Qed.

  Lemma PT_starts e : forall rest, starts_expr (PT e ++ rest) = true.
  Proof.
    induction e as [p|v|s|n ty|c IHc t IHt e IHe|a IHa b IHb|a IHa b IHb|op a IHa|op a IHa b IHb
                   |fn args IHargs|a IHa k|a IHa k|a IHa p|a IHa t|items IHitems|items IHitems] using expr_ind';
      intros rest.
    - destruct p as [b|z|s|u].
      + destruct b; reflexivity.
      + cbn [print_toks prim_toks]. destruct (z <? 0)%Z; reflexivity.
      + reflexivity.
      + cbn [print_toks prim_toks]. unfold uid_toks. destruct (uty u) as [|c p]; [reflexivity|].
        rewrite name_toks_cons. reflexivity.
    - destruct v; reflexivity.
    - destruct s; reflexivity.
    - reflexivity.
    - reflexivity.
    - destruct a; try (rewrite PT_and by reflexivity; rewrite <- app_assoc; apply starts_mwp; exact IHa).
      rewrite PT_and_chain, <- app_assoc. apply IHa.
    - destruct a; try (rewrite PT_or by reflexivity; rewrite <- app_assoc; apply starts_mwp; exact IHa).
      rewrite PT_or_chain, <- app_assoc. apply IHa.
    - destruct op; try reflexivity. cbn [print_toks]. rewrite <- app_assoc. apply (starts_mwp a). exact IHa.
    - destruct (binop_tok op) as [tk|] eqn:Etk.
      + destruct (same_assoc op a) eqn:Hs.
        * rewrite (PT_infix_chain op tk a b Etk Hs), <- app_assoc. apply IHa.
        * rewrite (PT_infix op tk a b Etk Hs), <- app_assoc. apply starts_mwp. exact IHa.
      + cbn [print_toks]. rewrite Etk. rewrite <- app_assoc. apply (starts_mwp a). exact IHa.
    - cbn [print_toks]. destruct (is_method_style fn); destruct args as [|r args'];
        try (destruct fn as [|c p]; [reflexivity|rewrite name_toks_cons; reflexivity]).
      rewrite <- app_assoc. apply (starts_mwp r). inversion IHargs; assumption.
    - cbn [print_toks]. rewrite <- app_assoc. apply (starts_mwp a). exact IHa.
    - cbn [print_toks]. rewrite <- app_assoc. apply (starts_mwp a). exact IHa.
    - cbn [print_toks]. rewrite <- app_assoc. apply (starts_mwp a). exact IHa.
    - cbn [print_toks]. rewrite <- app_assoc. apply (starts_mwp a). exact IHa.
    - reflexivity.
    - reflexivity.
  Qed.

  Lemma args_ok close ctok : close ctok = true -> match ctok with TComma => False | _ => True end ->
    (forall ts, starts_expr ts = true -> match ts with t :: _ => close t = false | [] => False end) ->
    (forall rest, follow_ok 0 (ctok :: rest) = true) ->
    forall es f, Forall (fun e => printable e = true /\ main e) es -> (forall e, In e es -> (need e < f)%nat) ->
    forall n rest, (length es <= n)%nat ->
    args_loop (R f) n close (commas (map PT es) ++ ctok :: rest) = Some (es, rest).
  Proof.
    intros Hc Hnc Hs Hfo es f HF. induction HF as [|e es [Hp M] HF IH]; intros Hn n rest Hl.
    - cbn [map commas app]. apply args_loop_nil. exact Hc.
    - destruct n as [|k]; [cbn in Hl; lia|].
      assert (need e < f)%nat as Hne by (apply Hn; left; reflexivity).
      destruct es as [|e2 es'].
      + cbn [map commas]. erewrite args_loop_cons;
          [|apply Hs; apply PT_starts|apply (top e Hp M f Hne); apply Hfo|apply into_expr_sp; exact Hp].
        destruct ctok; try contradiction; cbv beta iota; rewrite Hc; reflexivity.
      + cbn [map]. change (commas (PT e :: PT e2 :: map PT es')) with (PT e ++ TComma :: commas (map PT (e2 :: es'))).
        rewrite <- app_assoc. cbn [app]. erewrite args_loop_cons;
          [|apply Hs; apply PT_starts|apply (top e Hp M f Hne); reflexivity|apply into_expr_sp; exact Hp].
        cbv beta iota. rewrite IH; [reflexivity| |cbn [length] in *; lia]. intros x Hx. apply Hn. right. exact Hx.
  Qed.

  Lemma args_paren es f rest : Forall (fun e => printable e = true /\ main e) es ->
    (forall e, In e es -> (need e < f)%nat) -> (length es <= f)%nat ->
    args_loop (R f) f is_rparen (commas (map PT es) ++ TRParen :: rest) = Some (es, rest).
  Proof.
    intros HF Hn Hl. apply (args_ok is_rparen TRParen); try assumption; try reflexivity; try exact I.
    intros ts H. pose proof (starts_not_close ts H) as Hx. destruct ts; [exact Hx|apply Hx].
  Qed.
  Lemma args_brack es f rest : Forall (fun e => printable e = true /\ main e) es ->
    (forall e, In e es -> (need e < f)%nat) -> (length es <= f)%nat ->
    args_loop (R f) f is_rbrack (commas (map PT es) ++ TRBrack :: rest) = Some (es, rest).
  Proof.
    intros HF Hn Hl. apply (args_ok is_rbrack TRBrack); try assumption; try reflexivity; try exact I.
    intros ts H. pose proof (starts_not_close ts H) as Hx. destruct ts; [exact Hx|apply Hx].
  Qed.

  Definition Gform (e : expr) : Prop :=
    forall f, (need e <= f)%nat -> forall rest, match rest with TLParen :: _ => False | _ => True end ->
    exists n, (f <= n + need e)%nat /\ parse_member (R f) f (PT e ++ rest) = access_loop (R f) f n e rest.

  Lemma member_A e : level e = 7%nat -> SP e = EExpr e -> Gform e ->
    forall f, (need e <= f)%nat -> forall rest, follow_ok (level e) rest = true ->
    parse_at (level e) (R f) f (PT e ++ rest) = Some (SP e, rest).
  Proof.
    intros E7 Es G f Hn rest Hr. rewrite E7 in *. rewrite Es. cbn [parse_at].
    destruct (G f Hn rest (follow7_not_lparen rest Hr)) as (n & _ & He). rewrite He.
    apply access_stop. apply follow7_no_access. exact Hr.
  Qed.
  Lemma member_B e : Gform e -> forall f, (need e <= f)%nat -> forall rest, acc_head rest = true ->
    exists n, (f <= n + need e)%nat /\ parse_member (R f) f (PT e ++ rest) = access_loop (R f) f n e rest.
  Proof. intros G f Hn rest Hr. apply (G f Hn rest). apply acc_head_facts. exact Hr. Qed.

  (* a primary that converts to the expression itself (sets, records) *)
  Lemma prim_G e : (forall f, (need e <= f)%nat -> forall rest,
                      parse_primary (R f) f (PT e ++ rest) = Some (EExpr e, rest)) -> Gform e.
  Proof.
    intros H f Hn rest Hr. destruct (access_start rest) eqn:Ha.
    - exists f. split; [lia|]. eapply pm_acc; [apply H; exact Hn|exact Ha|intros n; discriminate|reflexivity].
    - exists f. split; [lia|]. rewrite (pm_noacc _ _ _ _ _ (H f Hn rest) Ha).
      symmetry. apply access_stop. exact Ha.
  Qed.

  (* receiver . m ( args ) *)
  Lemma method_call r m args e' rest f :
    printable r = true -> main r -> Forall (fun e => printable e = true /\ main e) args ->
    unreserved m = true -> to_meth m r args = Some e' ->
    (S (need r) < f)%nat -> (forall a, In a args -> (need a < f)%nat) -> (length args <= f)%nat ->
    exists n, (f <= n + S (S (need r)))%nat /\
      parse_member (R f) f (MWP r ++ TDot :: TIdent m :: TLParen :: commas (map PT args) ++ TRParen :: rest)
      = access_loop (R f) f n e' rest.
  Proof.
    intros Hp M HF Hu Hm Hf Hn Hl.
    destruct (operand_acc r Hp M f ltac:(lia) (TDot :: TIdent m :: TLParen :: commas (map PT args) ++ TRParen :: rest) eq_refl)
      as (n0 & Hn0 & He).
    destruct n0 as [|n']; [lia|]. exists n'. split; [lia|]. rewrite He. cbn [access_loop].
    rewrite Hu. rewrite (args_paren args f rest HF Hn Hl). rewrite Hm. reflexivity.
  Qed.

  Lemma Forall_pm l : Forall (fun e => in_fragment e = true -> printable e = true -> main e) l ->
    forallb in_fragment l = true -> forallb printable l = true ->
    Forall (fun e => printable e = true /\ main e) l.
  Proof.
    induction 1 as [|x l Hx HF IH]; intros H1 H2; [constructor|].
    cbn [forallb] in H1, H2. apply andb_true_iff in H1. apply andb_true_iff in H2.
    destruct H1 as [A1 B1]. destruct H2 as [A2 B2]. constructor; [split; [exact A2|apply Hx; assumption]|apply IH; assumption].
  Qed.

  Definition entry (kv : str * expr) : list token := key_tok np ge (fst kv) :: TColon :: PT (snd kv).
  Lemma PT_record items : PT (RecordE items) = TLBrace :: commas (map entry items) ++ [TRBrace].
  Proof.
    cbn [print_toks]. f_equal. f_equal. f_equal.
    induction items as [|[k v] l IH]; [reflexivity|]. cbn [map entry fst snd]. rewrite <- IH. reflexivity.
  Qed.

  Lemma key_at0 f k rest : wf_str k = true -> follow_ok 0 rest = true ->
    exists rk, R (S f) (key_tok np ge k :: rest) = Some (rk, rest) /\ into_valid_attr rk = Some k.
  Proof.
    intros Hk Hr. unfold key_tok. destruct (is_normalized_ident k) eqn:En.
    - pose proof (normalized_unreserved k En) as Hu. destruct (unreserved_not_kw k Hu) as (Kt & Kf & Kif).
      assert (follow_ok 7 rest = true) as H7 by (eapply follow_mono; [exact Hr|lia]).
      destruct (follow7_no_access rest H7) as [Ha Hnp].
      assert (exists rk, parse_primary (R f) f (TIdent k :: rest) = Some (rk, rest) /\ into_valid_attr rk = Some k)
        as (rk & Hprim & Hv).
      { cbn [parse_primary]. rewrite parse_path_nil by exact Hnp. rewrite Kt, Kf. destruct (var_of_ident k) eqn:Ev.
        - eexists. split; [reflexivity|]. cbn [into_valid_attr]. rewrite (var_of_ident_show k v Ev). reflexivity.
        - rewrite Hu. eexists. split; reflexivity. }
      exists rk. split; [|exact Hv]. cbn [parse_expr]. change (parse_expr_body (R f) f) with (parse_at 0 (R f) f).
      apply (descend (R f) f 7 0); try lia; try exact Hr; try reflexivity.
      + cbn [parse_at]. apply pm_noacc; assumption.
      + cbn [not_if_head]. rewrite Kif. reflexivity.
    - exists (EStr (escape_debug np ge k)). split; [|cbn [into_valid_attr]; apply unescape_opt_escape; exact Hk].
      cbn [parse_expr]. unfold tstr. apply (str_tok_at (R f) f 0); [lia|exact Hr].
  Qed.

  Lemma recinits_ok items f :
    Forall (fun kv => wf_str (fst kv) = true /\ printable (snd kv) = true /\ main (snd kv)) items ->
    (forall kv, In kv items -> (need (snd kv) < f)%nat) ->
    forall n rest, (length items <= n)%nat ->
    recinits_loop (R (S f)) n (commas (map entry items) ++ TRBrace :: rest) = Some (items, rest).
  Proof.
    intros HF. induction HF as [|[k v] l (Hk & Hp & M) HF IH]; intros Hn n rest Hl.
    - cbn [map commas app]. apply recinits_nil.
    - destruct n as [|n']; [cbn in Hl; lia|]. cbn [fst snd] in *.
      assert (need v < f)%nat as Hnv by (apply (Hn (k, v)); left; reflexivity).
      assert (match key_tok np ge k :: TColon :: PT v with TRBrace :: _ | [] => False | _ => True end) as Hh
        by (unfold key_tok; destruct (is_normalized_ident k); exact I).
      assert (forall X, starts_with_if (key_tok np ge k :: X) = false) as Hif.
      { intros X. unfold key_tok. destruct (is_normalized_ident k) eqn:En; [|reflexivity].
        cbn [starts_with_if]. apply (unreserved_not_kw k (normalized_unreserved k En)). }
      destruct l as [|kv2 l'].
      + cbn [map commas entry fst snd app]. rewrite <- ?app_comm_cons.
        destruct (key_at0 f k (TColon :: PT v ++ TRBrace :: rest) Hk eq_refl) as (rk & Hrk & Hv).
        erewrite recinits_cons; [|exact Hh|apply Hif|exact Hrk|exact Hv
                                 |apply (top v Hp M (S f)); [lia|reflexivity]|apply into_expr_sp; exact Hp].
        reflexivity.
      + cbn [map]. change (commas (entry (k, v) :: entry kv2 :: map entry l'))
          with (entry (k, v) ++ TComma :: commas (map entry (kv2 :: l'))).
        rewrite <- app_assoc. cbn [entry fst snd app].
        destruct (key_at0 f k (TColon :: PT v ++ TComma :: commas (map entry (kv2 :: l')) ++ TRBrace :: rest) Hk eq_refl)
          as (rk & Hrk & Hv).
        erewrite recinits_cons; [|exact Hh|apply Hif|exact Hrk|exact Hv
                                 |apply (top v Hp M (S f)); [lia|reflexivity]|apply into_expr_sp; exact Hp].
        cbv beta iota. rewrite IH; [reflexivity| |cbn [length] in *; lia].
        intros x Hx. apply Hn. right. exact Hx.
  Qed.

  Lemma Forall_pm_r l : Forall (fun kv => in_fragment (snd kv) = true -> printable (snd kv) = true -> main (snd kv)) l ->
    forallb (fun kv => in_fragment (snd kv)) l = true ->
    forallb (fun kv => wf_str (fst kv) && printable (snd kv)) l = true ->
    Forall (fun kv => wf_str (fst kv) = true /\ printable (snd kv) = true /\ main (snd kv)) l.
  Proof.
    induction 1 as [|x l Hx HF IH]; intros H1 H2; [constructor|].
    cbn [forallb] in H1, H2. apply andb_true_iff in H1. apply andb_true_iff in H2.
    destruct H1 as [A1 B1]. destruct H2 as [A2 B2]. apply andb_true_iff in A2. destruct A2 as [W Pp].
    constructor; [split; [exact W|split; [exact Pp|apply Hx; assumption]]|apply IH; assumption].
  Qed.

  Theorem main_all e : in_fragment e = true -> printable e = true -> main e.
  Proof.
    induction e as [p|v|s|n ty|c IHc t IHt e IHe|a IHa b IHb|a IHa b IHb|op a IHa|op a IHa b IHb
                   |fn args IHargs|a IHa k|a IHa k|a IHa p|a IHa t|items IHitems|items IHitems] using expr_ind';
      intros Hf Hp; cbn [in_fragment printable] in Hf, Hp; try discriminate.
    - apply main_leaf; [exact I|exact Hp].
    - apply main_leaf; [exact I|exact Hp].
    - apply main_leaf; [exact I|exact Hp].
    - (* If *)
      apply andb_true_iff in Hf. destruct Hf as [Hf Hfe]. apply andb_true_iff in Hf. destruct Hf as [Hfc Hft].
      apply andb_true_iff in Hp. destruct Hp as [Hp Hpe]. apply andb_true_iff in Hp. destruct Hp as [Hpc Hpt].
      specialize (IHc Hfc Hpc). specialize (IHt Hft Hpt). specialize (IHe Hfe Hpe).
      constructor; try exact I; try (intros; reflexivity); try (cbn [level]; intros; contradiction); try (intros; discriminate).
      intros f Hn rest Hr. cbn [level parse_at need] in *. rewrite PT_if_app.
      eapply body_if.
      + apply (m_nopath c IHc).
      + apply (top c Hpc IHc); [lia|reflexivity].
      + apply (top t Hpt IHt); [lia|reflexivity].
      + apply (top e Hpe IHe); [lia|exact Hr].
      + apply into_expr_sp; exact Hpc.
      + apply into_expr_sp; exact Hpt.
      + apply into_expr_sp; exact Hpe.
    - (* And *)
      apply andb_true_iff in Hf. destruct Hf as [Hfa Hfb].
      apply andb_true_iff in Hp. destruct Hp as [Hp Hbb]. apply andb_true_iff in Hp. destruct Hp as [Hpa Hpb].
      specialize (IHa Hfa Hpa). specialize (IHb Hfb Hpb). apply negb_true_iff in Hbb.
      assert (forall rest, starts_path (PT (And a b) ++ rest) = false /\ not_if_head (PT (And a b) ++ rest) = true
                           /\ head_plain (PT (And a b) ++ rest) = true) as Hh.
      { intros rest. destruct a; try (rewrite PT_and by reflexivity; rewrite <- app_assoc; apply (head_mwp _ _ IHa)).
        rewrite PT_and_chain, <- app_assoc. repeat split;
          [apply (m_nopath _ IHa)|apply (m_notif _ IHa); cbn; lia|apply (m_plain _ IHa); cbn; lia]. }
      assert (forall f, (need (And a b) <= f)%nat -> forall rest, follow_ok 3 rest = true ->
                exists n, (f <= n + need (And a b))%nat /\
                  parse_and (R f) f (PT (And a b) ++ rest) = and_loop (R f) f n (And a b) rest) as C.
      { intros f Hn rest Hr. cbn [need] in Hn.
        destruct (operand b Hpb IHb f ltac:(lia) 3%nat ltac:(lia) rest Hr) as (rb & Hb & Ib).
        assert (exists n, (f <= n + need (And a b))%nat /\
                    parse_and (R f) f (MWP a ++ TAndAnd :: MWP b ++ rest) = and_loop (R f) f n (And a b) rest) as Base.
        {
          destruct (operand a Hpa IHa f ltac:(lia) 3%nat ltac:(lia) (TAndAnd :: MWP b ++ rest) eq_refl) as (ra & Ha & Ia).
          destruct f as [|f']; [lia|]. exists f'. split; [cbn [need]; lia|].
          erewrite parse_and_enter; [|exact Ha|exact Ia].
          erewrite and_loop_step; [|exact Hb|exact Ib]. rewrite (mk_and_not_both a b Hbb). reflexivity. }
        destruct a; try (rewrite PT_and by reflexivity; rewrite <- app_assoc; cbn [app]; exact Base).
        rewrite PT_and_chain, <- app_assoc. cbn [app].
        match type of IHa with main ?x => assert (need x <= f)%nat as Hna by (cbn [need] in *; lia) end.
        destruct (m_C _ IHa f Hna (TAndAnd :: MWP b ++ rest) eq_refl) as (n0 & Hn0 & He).
        cbn [need] in *. destruct n0 as [|n']; [lia|]. exists n'. split; [cbn [need]; lia|].
        rewrite He. erewrite and_loop_step; [|exact Hb|exact Ib]. rewrite (mk_and_not_both _ b Hbb). reflexivity. }
      constructor; try (intros; discriminate).
      + intros rest. apply Hh.
      + intros _ rest. apply Hh.
      + intros _ _ rest. apply Hh.
      + intros f Hn rest Hr. cbn [level] in Hr. cbn [level parse_at sp].
        destruct (C f Hn rest ltac:(eapply follow_mono; [exact Hr|lia])) as (n & _ & He). rewrite He.
        apply and_loop_stop. apply follow_and. exact Hr.
      + exact C.
    - (* Or *)
      apply andb_true_iff in Hf. destruct Hf as [Hfa Hfb].
      apply andb_true_iff in Hp. destruct Hp as [Hp Hbb]. apply andb_true_iff in Hp. destruct Hp as [Hpa Hpb].
      specialize (IHa Hfa Hpa). specialize (IHb Hfb Hpb). apply negb_true_iff in Hbb.
      assert (forall rest, starts_path (PT (Or a b) ++ rest) = false /\ not_if_head (PT (Or a b) ++ rest) = true
                           /\ head_plain (PT (Or a b) ++ rest) = true) as Hh.
      { intros rest. destruct a; try (rewrite PT_or by reflexivity; rewrite <- app_assoc; apply (head_mwp _ _ IHa)).
        rewrite PT_or_chain, <- app_assoc. repeat split;
          [apply (m_nopath _ IHa)|apply (m_notif _ IHa); cbn; lia|apply (m_plain _ IHa); cbn; lia]. }
      assert (forall f, (need (Or a b) <= f)%nat -> forall rest, follow_ok 2 rest = true ->
                exists n, (f <= n + need (Or a b))%nat /\
                  parse_or (R f) f (PT (Or a b) ++ rest) = or_loop (R f) f n (Or a b) rest) as C.
      { intros f Hn rest Hr. cbn [need] in Hn.
        destruct (operand b Hpb IHb f ltac:(lia) 2%nat ltac:(lia) rest Hr) as (rb & Hb & Ib).
        assert (exists n, (f <= n + need (Or a b))%nat /\
                    parse_or (R f) f (MWP a ++ TOrOr :: MWP b ++ rest) = or_loop (R f) f n (Or a b) rest) as Base.
        {
          destruct (operand a Hpa IHa f ltac:(lia) 2%nat ltac:(lia) (TOrOr :: MWP b ++ rest) eq_refl) as (ra & Ha & Ia).
          destruct f as [|f']; [lia|]. exists f'. split; [cbn [need]; lia|].
          erewrite parse_or_enter; [|exact Ha|exact Ia].
          erewrite or_loop_step; [|exact Hb|exact Ib]. rewrite (mk_or_not_both a b Hbb). reflexivity. }
        destruct a; try (rewrite PT_or by reflexivity; rewrite <- app_assoc; cbn [app]; exact Base).
        rewrite PT_or_chain, <- app_assoc. cbn [app].
        match type of IHa with main ?x => assert (need x <= f)%nat as Hna by (cbn [need] in *; lia) end.
        destruct (m_C _ IHa f Hna (TOrOr :: MWP b ++ rest) eq_refl) as (n0 & Hn0 & He).
        cbn [need] in *. destruct n0 as [|n']; [lia|]. exists n'. split; [cbn [need]; lia|].
        rewrite He. erewrite or_loop_step; [|exact Hb|exact Ib]. rewrite (mk_or_not_both _ b Hbb). reflexivity. }
      constructor; try (intros; discriminate).
      + intros rest. apply Hh.
      + intros _ rest. apply Hh.
      + intros _ _ rest. apply Hh.
      + intros f Hn rest Hr. cbn [level] in Hr. cbn [level parse_at sp].
        destruct (C f Hn rest ltac:(eapply follow_mono; [exact Hr|lia])) as (n & _ & He). rewrite He.
        apply or_loop_stop. apply follow_or. exact Hr.
      + exact C.
    - (* UnApp *)
      destruct op; specialize (IHa Hf Hp).
      + (* Not *)
        constructor; try exact I; try (intros; reflexivity); try (cbn [level]; intros; contradiction); try (intros; discriminate).
        intros f Hn rest Hr. cbn [level parse_at need] in *.
        change (PT (UnApp UNot a) ++ rest) with (TBang :: (MWP a ++ rest)).
        destruct (operand a Hp IHa f ltac:(lia) 7%nat ltac:(lia) rest ltac:(eapply follow_mono; [exact Hr|lia])) as (ra & Ha & Ia).
        eapply parse_unary_not; [apply (head_mwp a _ IHa)|exact Ha|exact Ia].
      + (* Neg *)
        constructor; try exact I; try (intros; reflexivity); try (cbn [level]; intros; contradiction); try (intros; discriminate).
        intros f Hn rest Hr. cbn [level parse_at need] in *. cbn [print_toks app]. rewrite <- app_assoc. cbn [app].
        assert (follow_ok 7 rest = true) as H7 by (eapply follow_mono; [exact Hr|lia]).
        destruct (follow7_no_access rest H7) as [Hacc _].
        eapply parse_unary_neg_paren with (r := EExpr a); [|reflexivity].
        apply pm_noacc; [|exact Hacc]. apply paren_primary; [exact Hp|exact IHa|lia].
      + (* isEmpty *)
        assert (Gform (UnApp UIsEmpty a)) as G.
        { intros f Hn rest Hnl. cbn [need] in Hn.
          destruct (method_call a (ascii "isEmpty") [] (UnApp UIsEmpty a) rest f Hp IHa
                      ltac:(constructor) eq_refl eq_refl ltac:(lia) ltac:(intros x []) ltac:(cbn; lia)) as (n & Hn1 & He).
          exists n. split; [cbn [need]; lia|].
          cbn [print_toks]. unfold tid. rewrite <- app_assoc. cbn [app]. exact He. }
        constructor; try exact I.
        * intros rest. cbn [print_toks]. rewrite <- app_assoc. apply (head_mwp a _ IHa).
        * intros _ rest. cbn [print_toks]. rewrite <- app_assoc. apply (head_mwp a _ IHa).
        * intros _ _ rest. cbn [print_toks]. rewrite <- app_assoc. apply (head_mwp a _ IHa).
        * apply member_A; [reflexivity|reflexivity|exact G].
        * intros _. apply member_B. exact G.
    - (* BinApp *)
      apply andb_true_iff in Hf. destruct Hf as [Hfa Hfb].
      apply andb_true_iff in Hp. destruct Hp as [Hpa Hpb].
      specialize (IHa Hfa Hpa). specialize (IHb Hfb Hpb).
      destruct op.
        { (* == *)
          assert (forall rest, starts_path (PT (BinApp BEq a b) ++ rest) = false /\ not_if_head (PT (BinApp BEq a b) ++ rest) = true
                               /\ head_plain (PT (BinApp BEq a b) ++ rest) = true) as Hh
            by (intros rest; rewrite (PT_infix BEq _ a b eq_refl eq_refl), <- app_assoc; apply (head_mwp _ _ IHa)).
          constructor; try exact I; try (intros; discriminate).
          - intros rest. apply Hh.
          - intros _ rest. apply Hh.
          - intros _ _ rest. apply Hh.
          - intros f Hn rest Hr. cbn [need] in Hn. rewrite (PT_infix BEq _ a b eq_refl eq_refl), <- app_assoc. cbn [app level parse_at sp] in *.
            destruct (operand a Hpa IHa f ltac:(lia) 4%nat ltac:(lia) (TEqEq :: MWP b ++ rest) eq_refl) as (ra & Ha & Ia).
            destruct (operand b Hpb IHb f ltac:(lia) 4%nat ltac:(lia) rest ltac:(eapply follow_mono; [exact Hr|lia])) as (rb & Hb & Ib).
            eapply parse_rel_relop; try eassumption; try reflexivity. apply follow_rel; exact Hr. }
        { (* < *)
          assert (forall rest, starts_path (PT (BinApp BLess a b) ++ rest) = false /\ not_if_head (PT (BinApp BLess a b) ++ rest) = true
                               /\ head_plain (PT (BinApp BLess a b) ++ rest) = true) as Hh
            by (intros rest; rewrite (PT_infix BLess _ a b eq_refl eq_refl), <- app_assoc; apply (head_mwp _ _ IHa)).
          constructor; try exact I; try (intros; discriminate).
          - intros rest. apply Hh.
          - intros _ rest. apply Hh.
          - intros _ _ rest. apply Hh.
          - intros f Hn rest Hr. cbn [need] in Hn. rewrite (PT_infix BLess _ a b eq_refl eq_refl), <- app_assoc. cbn [app level parse_at sp] in *.
            destruct (operand a Hpa IHa f ltac:(lia) 4%nat ltac:(lia) (TLt :: MWP b ++ rest) eq_refl) as (ra & Ha & Ia).
            destruct (operand b Hpb IHb f ltac:(lia) 4%nat ltac:(lia) rest ltac:(eapply follow_mono; [exact Hr|lia])) as (rb & Hb & Ib).
            eapply parse_rel_relop; try eassumption; try reflexivity. apply follow_rel; exact Hr. }
        { (* <= *)
          assert (forall rest, starts_path (PT (BinApp BLessEq a b) ++ rest) = false /\ not_if_head (PT (BinApp BLessEq a b) ++ rest) = true
                               /\ head_plain (PT (BinApp BLessEq a b) ++ rest) = true) as Hh
            by (intros rest; rewrite (PT_infix BLessEq _ a b eq_refl eq_refl), <- app_assoc; apply (head_mwp _ _ IHa)).
          constructor; try exact I; try (intros; discriminate).
          - intros rest. apply Hh.
          - intros _ rest. apply Hh.
          - intros _ _ rest. apply Hh.
          - intros f Hn rest Hr. cbn [need] in Hn. rewrite (PT_infix BLessEq _ a b eq_refl eq_refl), <- app_assoc. cbn [app level parse_at sp] in *.
            destruct (operand a Hpa IHa f ltac:(lia) 4%nat ltac:(lia) (TLe :: MWP b ++ rest) eq_refl) as (ra & Ha & Ia).
            destruct (operand b Hpb IHb f ltac:(lia) 4%nat ltac:(lia) rest ltac:(eapply follow_mono; [exact Hr|lia])) as (rb & Hb & Ib).
            eapply parse_rel_relop; try eassumption; try reflexivity. apply follow_rel; exact Hr. }
        { (* + *)
          assert (forall rest, starts_path (PT (BinApp BAdd a b) ++ rest) = false /\ not_if_head (PT (BinApp BAdd a b) ++ rest) = true
                               /\ head_plain (PT (BinApp BAdd a b) ++ rest) = true) as Hh.
          { intros rest. destruct (same_assoc BAdd a) eqn:Hs.
            - rewrite (PT_infix_chain BAdd _ a b eq_refl Hs), <- app_assoc.
              assert (level a <> 0 /\ level a <> 6)%nat as [L0 L6]
                by (destruct a; try discriminate Hs; match goal with o : binop |- _ => destruct o end; try discriminate Hs; cbn; lia).
              repeat split; [apply (m_nopath _ IHa)|apply (m_notif _ IHa); exact L0|apply (m_plain _ IHa); assumption].
            - rewrite (PT_infix BAdd _ a b eq_refl Hs), <- app_assoc. apply (head_mwp _ _ IHa). }
          assert (forall f, (need (BinApp BAdd a b) <= f)%nat -> forall rest, follow_ok 5 rest = true ->
                    exists n, (f <= n + need (BinApp BAdd a b))%nat /\
                      parse_add (R f) f (PT (BinApp BAdd a b) ++ rest) = add_loop (R f) f n (BinApp BAdd a b) rest) as C.
          { intros f Hn rest Hr. cbn [need] in Hn.
            destruct (operand b Hpb IHb f ltac:(lia) 5%nat ltac:(lia) rest Hr) as (rb & Hb & Ib).
            destruct (same_assoc BAdd a) eqn:Hs.
            - rewrite (PT_infix_chain BAdd _ a b eq_refl Hs), <- app_assoc. cbn [app].
              destruct a; try discriminate Hs. match goal with o : binop |- _ => destruct o end; try discriminate Hs.
              match type of IHa with main ?x => assert (need x <= f)%nat as Hna by (cbn [need] in *; lia) end.
        destruct (m_C _ IHa f Hna (TPlus :: MWP b ++ rest) eq_refl) as (n0 & Hn0 & He).
              cbn [need] in *. destruct n0 as [|n']; [lia|]. exists n'. split; [cbn [need]; lia|].
              rewrite He. erewrite add_loop_plus; [|exact Hb|exact Ib]. reflexivity.
            - rewrite (PT_infix BAdd _ a b eq_refl Hs), <- app_assoc. cbn [app].
              destruct (operand a Hpa IHa f ltac:(lia) 5%nat ltac:(lia) (TPlus :: MWP b ++ rest) eq_refl) as (ra & Ha & Ia).
              destruct f as [|f']; [lia|]. exists f'. split; [cbn [need]; lia|].
              erewrite parse_add_enter; [|exact Ha|reflexivity|exact Ia].
              erewrite add_loop_plus; [|exact Hb|exact Ib]. reflexivity. }
          constructor; try (intros; discriminate).
          - intros rest. apply Hh.
          - intros _ rest. apply Hh.
          - intros _ _ rest. apply Hh.
          - intros f Hn rest Hr. cbn [level] in Hr. cbn [level parse_at sp].
            destruct (C f Hn rest ltac:(eapply follow_mono; [exact Hr|lia])) as (n & _ & He). rewrite He.
            apply add_loop_stop. apply follow_add. exact Hr.
          - exact C. }
        { (* - *)
          assert (forall rest, starts_path (PT (BinApp BSub a b) ++ rest) = false /\ not_if_head (PT (BinApp BSub a b) ++ rest) = true
                               /\ head_plain (PT (BinApp BSub a b) ++ rest) = true) as Hh.
          { intros rest. destruct (same_assoc BSub a) eqn:Hs.
            - rewrite (PT_infix_chain BSub _ a b eq_refl Hs), <- app_assoc.
              assert (level a <> 0 /\ level a <> 6)%nat as [L0 L6]
                by (destruct a; try discriminate Hs; match goal with o : binop |- _ => destruct o end; try discriminate Hs; cbn; lia).
              repeat split; [apply (m_nopath _ IHa)|apply (m_notif _ IHa); exact L0|apply (m_plain _ IHa); assumption].
            - rewrite (PT_infix BSub _ a b eq_refl Hs), <- app_assoc. apply (head_mwp _ _ IHa). }
          assert (forall f, (need (BinApp BSub a b) <= f)%nat -> forall rest, follow_ok 5 rest = true ->
                    exists n, (f <= n + need (BinApp BSub a b))%nat /\
                      parse_add (R f) f (PT (BinApp BSub a b) ++ rest) = add_loop (R f) f n (BinApp BSub a b) rest) as C.
          { intros f Hn rest Hr. cbn [need] in Hn.
            destruct (operand b Hpb IHb f ltac:(lia) 5%nat ltac:(lia) rest Hr) as (rb & Hb & Ib).
            destruct (same_assoc BSub a) eqn:Hs.
            - rewrite (PT_infix_chain BSub _ a b eq_refl Hs), <- app_assoc. cbn [app].
              destruct a; try discriminate Hs. match goal with o : binop |- _ => destruct o end; try discriminate Hs.
              match type of IHa with main ?x => assert (need x <= f)%nat as Hna by (cbn [need] in *; lia) end.
        destruct (m_C _ IHa f Hna (TMinus :: MWP b ++ rest) eq_refl) as (n0 & Hn0 & He).
              cbn [need] in *. destruct n0 as [|n']; [lia|]. exists n'. split; [cbn [need]; lia|].
              rewrite He. erewrite add_loop_minus; [|exact Hb|exact Ib]. reflexivity.
            - rewrite (PT_infix BSub _ a b eq_refl Hs), <- app_assoc. cbn [app].
              destruct (operand a Hpa IHa f ltac:(lia) 5%nat ltac:(lia) (TMinus :: MWP b ++ rest) eq_refl) as (ra & Ha & Ia).
              destruct f as [|f']; [lia|]. exists f'. split; [cbn [need]; lia|].
              erewrite parse_add_enter; [|exact Ha|reflexivity|exact Ia].
              erewrite add_loop_minus; [|exact Hb|exact Ib]. reflexivity. }
          constructor; try (intros; discriminate).
          - intros rest. apply Hh.
          - intros _ rest. apply Hh.
          - intros _ _ rest. apply Hh.
          - intros f Hn rest Hr. cbn [level] in Hr. cbn [level parse_at sp].
            destruct (C f Hn rest ltac:(eapply follow_mono; [exact Hr|lia])) as (n & _ & He). rewrite He.
            apply add_loop_stop. apply follow_add. exact Hr.
          - exact C. }
        { (* * *)
          assert (forall rest, starts_path (PT (BinApp BMul a b) ++ rest) = false /\ not_if_head (PT (BinApp BMul a b) ++ rest) = true
                               /\ head_plain (PT (BinApp BMul a b) ++ rest) = true) as Hh.
          { intros rest. destruct (same_assoc BMul a) eqn:Hs.
            - rewrite (PT_infix_chain BMul _ a b eq_refl Hs), <- app_assoc.
              assert (level a <> 0 /\ level a <> 6)%nat as [L0 L6]
                by (destruct a; try discriminate Hs; match goal with o : binop |- _ => destruct o end; try discriminate Hs; cbn; lia).
              repeat split; [apply (m_nopath _ IHa)|apply (m_notif _ IHa); exact L0|apply (m_plain _ IHa); assumption].
            - rewrite (PT_infix BMul _ a b eq_refl Hs), <- app_assoc. apply (head_mwp _ _ IHa). }
          assert (forall f, (need (BinApp BMul a b) <= f)%nat -> forall rest, follow_ok 6 rest = true ->
                    exists n, (f <= n + need (BinApp BMul a b))%nat /\
                      parse_mul (R f) f (PT (BinApp BMul a b) ++ rest) = mul_loop (R f) f n (BinApp BMul a b) rest) as C.
          { intros f Hn rest Hr. cbn [need] in Hn.
            destruct (operand b Hpb IHb f ltac:(lia) 6%nat ltac:(lia) rest Hr) as (rb & Hb & Ib).
            destruct (same_assoc BMul a) eqn:Hs.
            - rewrite (PT_infix_chain BMul _ a b eq_refl Hs), <- app_assoc. cbn [app].
              destruct a; try discriminate Hs. match goal with o : binop |- _ => destruct o end; try discriminate Hs.
              match type of IHa with main ?x => assert (need x <= f)%nat as Hna by (cbn [need] in *; lia) end.
        destruct (m_C _ IHa f Hna (TStar :: MWP b ++ rest) eq_refl) as (n0 & Hn0 & He).
              cbn [need] in *. destruct n0 as [|n']; [lia|]. exists n'. split; [cbn [need]; lia|].
              rewrite He. erewrite mul_loop_star; [|exact Hb|exact Ib]. reflexivity.
            - rewrite (PT_infix BMul _ a b eq_refl Hs), <- app_assoc. cbn [app].
              destruct (operand a Hpa IHa f ltac:(lia) 6%nat ltac:(lia) (TStar :: MWP b ++ rest) eq_refl) as (ra & Ha & Ia).
              destruct f as [|f']; [lia|]. exists f'. split; [cbn [need]; lia|].
              erewrite parse_mul_enter; [|exact Ha|exact Ia].
              erewrite mul_loop_star; [|exact Hb|exact Ib]. reflexivity. }
          constructor; try (intros; discriminate).
          - intros rest. apply Hh.
          - intros _ rest. apply Hh.
          - intros _ _ rest. apply Hh.
          - intros f Hn rest Hr. cbn [level] in Hr. cbn [level parse_at sp].
            destruct (C f Hn rest ltac:(eapply follow_mono; [exact Hr|lia])) as (n & _ & He). rewrite He.
            apply mul_loop_stop. apply follow_mul. exact Hr.
          - exact C. }
        { (* in *)
          assert (forall rest, starts_path (PT (BinApp BIn a b) ++ rest) = false /\ not_if_head (PT (BinApp BIn a b) ++ rest) = true
                               /\ head_plain (PT (BinApp BIn a b) ++ rest) = true) as Hh
            by (intros rest; rewrite (PT_infix BIn _ a b eq_refl eq_refl), <- app_assoc; apply (head_mwp _ _ IHa)).
          constructor; try exact I; try (intros; discriminate).
          - intros rest. apply Hh.
          - intros _ rest. apply Hh.
          - intros _ _ rest. apply Hh.
          - intros f Hn rest Hr. cbn [need] in Hn. rewrite (PT_infix BIn _ a b eq_refl eq_refl), <- app_assoc. cbn [app level parse_at sp] in *.
            destruct (operand a Hpa IHa f ltac:(lia) 4%nat ltac:(lia) (tid "in" :: MWP b ++ rest) eq_refl) as (ra & Ha & Ia).
            destruct (operand b Hpb IHb f ltac:(lia) 4%nat ltac:(lia) rest ltac:(eapply follow_mono; [exact Hr|lia])) as (rb & Hb & Ib).
            eapply parse_rel_relop; try eassumption; try reflexivity. apply follow_rel; exact Hr. }
        { (* contains *)
          assert (Gform (BinApp BContains a b)) as G.
          { intros f Hn rest Hnl. cbn [need] in Hn. pose proof (need_pos b).
            destruct (method_call a (ascii "contains") [b] (BinApp BContains a b) rest f Hpa IHa
                        ltac:(constructor; [split; assumption|constructor]) eq_refl eq_refl ltac:(lia)
                        ltac:(intros x [<-|[]]; lia) ltac:(cbn; lia)) as (n & Hn1 & He).
            exists n. split; [cbn [need]; lia|].
            cbn [print_toks binop_tok binop_method_name]. unfold tid. rewrite <- app_assoc. cbn [app]. rewrite <- app_assoc.
            exact He. }
          constructor; try exact I.
          - intros rest. cbn [print_toks binop_tok]. rewrite <- app_assoc. apply (head_mwp a _ IHa).
          - intros _ rest. cbn [print_toks binop_tok]. rewrite <- app_assoc. apply (head_mwp a _ IHa).
          - intros _ _ rest. cbn [print_toks binop_tok]. rewrite <- app_assoc. apply (head_mwp a _ IHa).
          - apply member_A; [reflexivity|reflexivity|exact G].
          - intros _. apply member_B. exact G. }
        { (* containsAll *)
          assert (Gform (BinApp BContainsAll a b)) as G.
          { intros f Hn rest Hnl. cbn [need] in Hn. pose proof (need_pos b).
            destruct (method_call a (ascii "containsAll") [b] (BinApp BContainsAll a b) rest f Hpa IHa
                        ltac:(constructor; [split; assumption|constructor]) eq_refl eq_refl ltac:(lia)
                        ltac:(intros x [<-|[]]; lia) ltac:(cbn; lia)) as (n & Hn1 & He).
            exists n. split; [cbn [need]; lia|].
            cbn [print_toks binop_tok binop_method_name]. unfold tid. rewrite <- app_assoc. cbn [app]. rewrite <- app_assoc.
            exact He. }
          constructor; try exact I.
          - intros rest. cbn [print_toks binop_tok]. rewrite <- app_assoc. apply (head_mwp a _ IHa).
          - intros _ rest. cbn [print_toks binop_tok]. rewrite <- app_assoc. apply (head_mwp a _ IHa).
          - intros _ _ rest. cbn [print_toks binop_tok]. rewrite <- app_assoc. apply (head_mwp a _ IHa).
          - apply member_A; [reflexivity|reflexivity|exact G].
          - intros _. apply member_B. exact G. }
        { (* containsAny *)
          assert (Gform (BinApp BContainsAny a b)) as G.
          { intros f Hn rest Hnl. cbn [need] in Hn. pose proof (need_pos b).
            destruct (method_call a (ascii "containsAny") [b] (BinApp BContainsAny a b) rest f Hpa IHa
                        ltac:(constructor; [split; assumption|constructor]) eq_refl eq_refl ltac:(lia)
                        ltac:(intros x [<-|[]]; lia) ltac:(cbn; lia)) as (n & Hn1 & He).
            exists n. split; [cbn [need]; lia|].
            cbn [print_toks binop_tok binop_method_name]. unfold tid. rewrite <- app_assoc. cbn [app]. rewrite <- app_assoc.
            exact He. }
          constructor; try exact I.
          - intros rest. cbn [print_toks binop_tok]. rewrite <- app_assoc. apply (head_mwp a _ IHa).
          - intros _ rest. cbn [print_toks binop_tok]. rewrite <- app_assoc. apply (head_mwp a _ IHa).
          - intros _ _ rest. cbn [print_toks binop_tok]. rewrite <- app_assoc. apply (head_mwp a _ IHa).
          - apply member_A; [reflexivity|reflexivity|exact G].
          - intros _. apply member_B. exact G. }
        { (* getTag *)
          assert (Gform (BinApp BGetTag a b)) as G.
          { intros f Hn rest Hnl. cbn [need] in Hn. pose proof (need_pos b).
            destruct (method_call a (ascii "getTag") [b] (BinApp BGetTag a b) rest f Hpa IHa
                        ltac:(constructor; [split; assumption|constructor]) eq_refl eq_refl ltac:(lia)
                        ltac:(intros x [<-|[]]; lia) ltac:(cbn; lia)) as (n & Hn1 & He).
            exists n. split; [cbn [need]; lia|].
            cbn [print_toks binop_tok binop_method_name]. unfold tid. rewrite <- app_assoc. cbn [app]. rewrite <- app_assoc.
            exact He. }
          constructor; try exact I.
          - intros rest. cbn [print_toks binop_tok]. rewrite <- app_assoc. apply (head_mwp a _ IHa).
          - intros _ rest. cbn [print_toks binop_tok]. rewrite <- app_assoc. apply (head_mwp a _ IHa).
          - intros _ _ rest. cbn [print_toks binop_tok]. rewrite <- app_assoc. apply (head_mwp a _ IHa).
          - apply member_A; [reflexivity|reflexivity|exact G].
          - intros _. apply member_B. exact G. }
        { (* hasTag *)
          assert (Gform (BinApp BHasTag a b)) as G.
          { intros f Hn rest Hnl. cbn [need] in Hn. pose proof (need_pos b).
            destruct (method_call a (ascii "hasTag") [b] (BinApp BHasTag a b) rest f Hpa IHa
                        ltac:(constructor; [split; assumption|constructor]) eq_refl eq_refl ltac:(lia)
                        ltac:(intros x [<-|[]]; lia) ltac:(cbn; lia)) as (n & Hn1 & He).
            exists n. split; [cbn [need]; lia|].
            cbn [print_toks binop_tok binop_method_name]. unfold tid. rewrite <- app_assoc. cbn [app]. rewrite <- app_assoc.
            exact He. }
          constructor; try exact I.
          - intros rest. cbn [print_toks binop_tok]. rewrite <- app_assoc. apply (head_mwp a _ IHa).
          - intros _ rest. cbn [print_toks binop_tok]. rewrite <- app_assoc. apply (head_mwp a _ IHa).
          - intros _ _ rest. cbn [print_toks binop_tok]. rewrite <- app_assoc. apply (head_mwp a _ IHa).
          - apply member_A; [reflexivity|reflexivity|exact G].
          - intros _. apply member_B. exact G. }
    - (* ExtCall *)
      apply andb_true_iff in Hp. destruct Hp as [Hok Hpa].
      pose proof (Forall_pm args IHargs Hf Hpa) as HF. clear IHargs.
      assert (need (ExtCall fn args) = S (needs args)) as En by (cbn [need]; rewrite need_list; reflexivity).
      unfold ext_ok in Hok. destruct (is_function_name fn) eqn:Efn.
      + (* function style *)
        destruct (function_fn_facts fn Efn) as (b & -> & Hms & Kif & Hfunc & Hprim).
        assert (forall rest, PT (ExtCall [b] args) ++ rest = TIdent b :: TLParen :: commas (map PT args) ++ TRParen :: rest) as EP.
        { intros rest. cbn [print_toks]. rewrite Hms. cbn [name_toks app]. rewrite <- app_assoc. reflexivity. }
        assert (Gform (ExtCall [b] args)) as G.
        { intros f Hn rest Hnl. rewrite En in *. exists f. split; [lia|]. rewrite EP.
          eapply pm_func; [apply Hprim| |apply Hfunc].
          apply args_paren; [exact HF| |pose proof (needs_length args); lia].
          intros x Hx. pose proof (needs_In x args Hx). lia. }
        constructor; try exact I.
        * intros rest. rewrite EP. reflexivity.
        * intros _ rest. rewrite EP. cbn [not_if_head]. rewrite Kif. reflexivity.
        * intros _ _ rest. rewrite EP. reflexivity.
        * apply member_A; [reflexivity|reflexivity|exact G].
        * intros _. apply member_B. exact G.
      + (* method style *)
        cbn [orb] in Hok. apply andb_true_iff in Hok. destruct Hok as [Hms Hne].
        destruct args as [|r args']; [cbn in Hne; discriminate Hne|].
        destruct fn as [|m [|? ?]]; try (cbn in Hms; discriminate Hms).
        cbn [is_method_style] in Hms. destruct (method_fn_facts m Hms) as [Hu Hmeth].
        inversion HF as [|? ? [Hpr Mr] HF']; subst.
        assert (forall rest, PT (ExtCall [m] (r :: args')) ++ rest
                  = MWP r ++ TDot :: TIdent m :: TLParen :: commas (map PT args') ++ TRParen :: rest) as EP.
        { intros rest. cbn [print_toks]. cbn [is_method_style]. rewrite Hms. cbn [name_toks].
          rewrite <- app_assoc. cbn [app]. rewrite <- app_assoc. reflexivity. }
        assert (Gform (ExtCall [m] (r :: args'))) as G.
        { intros f Hn rest Hnl. rewrite En in *. cbn [needs] in *.
          destruct (method_call r m args' (ExtCall [m] (r :: args')) rest f Hpr Mr HF' Hu (Hmeth r args')
                      ltac:(lia) ltac:(intros x Hx; pose proof (needs_In x args' Hx); lia)
                      ltac:(pose proof (needs_length args'); lia)) as (n & Hn1 & He).
          exists n. split; [lia|]. rewrite EP. exact He. }
        constructor; try exact I.
        * intros rest. rewrite EP. apply (head_mwp r _ Mr).
        * intros _ rest. rewrite EP. apply (head_mwp r _ Mr).
        * intros _ _ rest. rewrite EP. apply (head_mwp r _ Mr).
        * apply member_A; [reflexivity|reflexivity|exact G].
        * intros _. apply member_B. exact G.
    - (* GetAttr *)
      apply andb_true_iff in Hp. destruct Hp as [Hpa Hk]. specialize (IHa Hf Hpa).
      assert (forall f, (need (GetAttr a k) <= f)%nat -> forall rest,
                match rest with TLParen :: _ => False | _ => True end ->
                exists n, (f <= n + need (GetAttr a k))%nat /\
                  parse_member (R f) f (PT (GetAttr a k) ++ rest) = access_loop (R f) f n (GetAttr a k) rest) as G.
      { intros f Hn rest Hnl. cbn [need] in *. cbn [print_toks]. rewrite <- app_assoc.
        destruct (is_normalized_ident k) eqn:En.
        - destruct (operand_acc a Hpa IHa f ltac:(lia) ([TDot; TIdent k] ++ rest) eq_refl) as (n0 & Hn0 & He).
          destruct n0 as [|n']; [lia|]. exists n'. split; [lia|].
          fold (mwp np ge a). rewrite He. cbn [app]. apply access_dot; [apply normalized_unreserved; exact En|exact Hnl].
        - destruct (operand_acc a Hpa IHa f ltac:(lia) ([TLBrack; tstr np ge k; TRBrack] ++ rest) eq_refl) as (n0 & Hn0 & He).
          destruct n0 as [|n']; [lia|]. exists n'. split; [lia|].
          fold (mwp np ge a). rewrite He. cbn [app]. unfold tstr. apply access_index.
          + destruct f as [|f']; [lia|]. cbn [parse_expr].
            apply (str_tok_at (R f') f' 0); [lia|reflexivity].
          + apply unescape_opt_escape. exact Hk. }
      constructor; try exact I.
      + intros rest. cbn [print_toks]. rewrite <- app_assoc. apply (head_mwp a _ IHa).
      + intros _ rest. cbn [print_toks]. rewrite <- app_assoc. apply (head_mwp a _ IHa).
      + intros _ _ rest. cbn [print_toks]. rewrite <- app_assoc. apply (head_mwp a _ IHa).
      + intros f Hn rest Hr. cbn [level parse_at sp] in *.
        destruct (G f Hn rest (follow7_not_lparen rest Hr)) as (n & _ & He). rewrite He.
        apply access_stop. apply follow7_no_access. exact Hr.
      + intros _ f Hn rest Hr. apply (G f Hn rest). apply acc_head_facts. exact Hr.
    - (* HasAttr *)
      apply andb_true_iff in Hp. destruct Hp as [Hpa Hk]. specialize (IHa Hf Hpa).
      constructor; try exact I; try (intros; discriminate).
      + intros rest. cbn [print_toks]. rewrite <- app_assoc. apply (head_mwp a _ IHa).
      + intros _ rest. cbn [print_toks]. rewrite <- app_assoc. apply (head_mwp a _ IHa).
      + intros _ _ rest. cbn [print_toks]. rewrite <- app_assoc. apply (head_mwp a _ IHa).
      + intros f Hn rest Hr. cbn [level parse_at need sp] in *. cbn [print_toks]. rewrite <- app_assoc. cbn [app].
        destruct (operand a Hpa IHa f ltac:(lia) 4%nat ltac:(lia) (tid "has" :: key_tok np ge k :: rest) eq_refl) as (ra & Ha & Ia).
        fold (mwp np ge a).
        eapply parse_rel_has with (attrs := [k]); [exact Ha|exact Ia| |reflexivity].
        unfold key_tok. destruct (is_normalized_ident k) eqn:En.
        * cbn [parse_has_rhs]. rewrite (normalized_unreserved k En), (follow3_haspath rest Hr). reflexivity.
        * unfold tstr. cbn [parse_has_rhs]. rewrite unescape_opt_escape by exact Hk. reflexivity.
    - (* Like *)
      apply andb_true_iff in Hp. destruct Hp as [Hpa Hk]. specialize (IHa Hf Hpa).
      constructor; try exact I; try (intros; discriminate).
      + intros rest. cbn [print_toks]. rewrite <- app_assoc. apply (head_mwp a _ IHa).
      + intros _ rest. cbn [print_toks]. rewrite <- app_assoc. apply (head_mwp a _ IHa).
      + intros _ _ rest. cbn [print_toks]. rewrite <- app_assoc. apply (head_mwp a _ IHa).
      + intros f Hn rest Hr. cbn [level parse_at need sp] in *. cbn [print_toks]. rewrite <- app_assoc. cbn [app].
        destruct (operand a Hpa IHa f ltac:(lia) 4%nat ltac:(lia) (tid "like" :: TStr (show_pattern np ge p) :: rest) eq_refl) as (ra & Ha & Ia).
        fold (mwp np ge a).
        eapply parse_rel_like; [exact Ha|exact Ia| |apply to_pattern_show; exact Hk].
        apply (str_tok_at (R f) f 4); [lia|]. eapply follow_mono; [exact Hr|lia].
    - (* Is *)
      apply andb_true_iff in Hp. destruct Hp as [Hpa Hk]. specialize (IHa Hf Hpa).
      constructor; try exact I; try (intros; discriminate).
      + intros rest. cbn [print_toks]. rewrite <- app_assoc. apply (head_mwp a _ IHa).
      + intros _ rest. cbn [print_toks]. rewrite <- app_assoc. apply (head_mwp a _ IHa).
      + intros _ _ rest. cbn [print_toks]. rewrite <- app_assoc. apply (head_mwp a _ IHa).
      + intros f Hn rest Hr. cbn [level parse_at need sp] in *. cbn [print_toks]. rewrite <- app_assoc. cbn [app].
        destruct (operand a Hpa IHa f ltac:(lia) 4%nat ltac:(lia) (tid "is" :: name_toks t ++ rest) eq_refl) as (ra & Ha & Ia).
        destruct (name_at (R f) f t rest Hk Hr) as (rt & Hrt & Hty).
        fold (mwp np ge a).
        eapply parse_rel_is; [exact Ha|exact Ia|exact Hrt|exact Hty|apply follow3_not_in; exact Hr].
    - (* SetE *)
      pose proof (Forall_pm items IHitems Hf Hp) as HF. clear IHitems.
      assert (need (SetE items) = S (needs items)) as En by (cbn [need]; rewrite need_list; reflexivity).
      assert (Gform (SetE items)) as G.
      { apply prim_G. intros f Hn rest. rewrite En in *. cbn [print_toks app]. rewrite <- app_assoc. cbn [app parse_primary].
        rewrite args_brack; [reflexivity|exact HF| |pose proof (needs_length items); lia].
        intros x Hx. pose proof (needs_In x items Hx). lia. }
      constructor; try exact I; try (intros; reflexivity).
      * apply member_A; [reflexivity|reflexivity|exact G].
      * intros _. apply member_B. exact G.
    - (* RecordE *)
      apply andb_true_iff in Hp. destruct Hp as [Hpa Hsorted].
      pose proof (Forall_pm_r items IHitems Hf Hpa) as HF. clear IHitems.
      assert (need (RecordE items) = S (needs_r items)) as En by (cbn [need]; rewrite need_list_r; reflexivity).
      assert (Gform (RecordE items)) as G.
      { apply prim_G. intros f Hn rest. rewrite En in *. rewrite PT_record. cbn [app]. rewrite <- app_assoc. cbn [app parse_primary].
        destruct f as [|f']; [lia|].
        rewrite recinits_ok; [|exact HF| |pose proof (needs_r_length items); lia].
        - rewrite (nodup_sorted items Hsorted), (sort_sorted items Hsorted). reflexivity.
        - intros x Hx. pose proof (needs_r_In x items Hx). lia. }
      constructor; try exact I; try (intros; rewrite PT_record; reflexivity).
      * apply member_A; [reflexivity|reflexivity|exact G].
      * intros _. apply member_B. exact G.
  Qed.
End Main.

Section Final.
  Variable np : N -> bool.
  Variable ge : N -> bool.
  Notation PT := (print_toks np ge).
  Notation SP := (sp np ge).
  Notation MWP := (mwp np ge).

  Lemma mwp_length x : (length (PT x) <= length (MWP x))%nat.
  Proof. unfold mwp, wrapt. destruct (bare_operand x); cbn [length]; rewrite ?app_length; cbn [length]; lia. Qed.

  Lemma commas_len l : Forall (fun e => in_fragment e = true -> (need e <= length (PT e))%nat) l ->
    forallb in_fragment l = true -> (needs l <= length (commas (map PT l)) + 1)%nat.
  Proof.
    induction 1 as [|x l Hx HF IH]; intros Hf; [cbn; lia|].
    cbn [forallb] in Hf. apply andb_true_iff in Hf. destruct Hf as [Hfx Hfl].
    specialize (Hx Hfx). specialize (IH Hfl). destruct l as [|y l'].
    - cbn [map commas needs]. lia.
    - cbn [map]. change (commas (PT x :: PT y :: map PT l')) with (PT x ++ TComma :: commas (map PT (y :: l'))).
      rewrite app_length. cbn [length]. cbn [needs] in *. lia.
  Qed.

  Lemma commas_len_r l : Forall (fun kv => in_fragment (snd kv) = true -> (need (snd kv) <= length (PT (snd kv)))%nat) l ->
    forallb (fun kv => in_fragment (snd kv)) l = true -> (needs_r l <= length (commas (map (entry np ge) l)) + 1)%nat.
  Proof.
    induction 1 as [|x l Hx HF IH]; intros Hf; [cbn; lia|].
    cbn [forallb] in Hf. apply andb_true_iff in Hf. destruct Hf as [Hfx Hfl].
    specialize (Hx Hfx). specialize (IH Hfl). destruct l as [|y l'].
    - cbn [map commas needs_r]. unfold entry. cbn [length]. lia.
    - cbn [map]. change (commas (entry np ge x :: entry np ge y :: map (entry np ge) l'))
        with (entry np ge x ++ TComma :: commas (map (entry np ge) (y :: l'))).
      rewrite app_length. unfold entry at 1. cbn [length]. cbn [needs_r] in *. lia.
  Qed.

  Lemma need_le_length e : in_fragment e = true -> (need e <= length (PT e))%nat.
  Proof.
    induction e as [p|v|s|n ty|c IHc t IHt e IHe|a IHa b IHb|a IHa b IHb|op a IHa|op a IHa b IHb
                   |fn args IHargs|a IHa k|a IHa k|a IHa p|a IHa t|items IHitems|items IHitems] using expr_ind';
      intros Hf; cbn [in_fragment] in Hf; try discriminate.
    - destruct p as [b|z|s|u]; cbn [need print_toks prim_toks].
      + destruct b; cbn; lia.
      + destruct (z <? 0)%Z; cbn; lia.
      + cbn; lia.
      + unfold uid_toks. rewrite app_length. cbn [length]. lia.
    - cbn; lia.
    - destruct s; cbn; lia.
    - apply andb_true_iff in Hf. destruct Hf as [Hf Hfe]. apply andb_true_iff in Hf. destruct Hf as [Hfc Hft].
      specialize (IHc Hfc). specialize (IHt Hft). specialize (IHe Hfe).
      cbn [need print_toks]. repeat (rewrite app_length || cbn [length]). lia.
    - apply andb_true_iff in Hf. destruct Hf as [Hfa Hfb].
      specialize (IHa Hfa). specialize (IHb Hfb). pose proof (mwp_length a). pose proof (mwp_length b).
      destruct a; try (rewrite (PT_and np ge) by reflexivity; cbn [need] in *; rewrite app_length; cbn [length]; lia).
      rewrite PT_and_chain. cbn [need] in *. rewrite app_length. cbn [length]. lia.
    - apply andb_true_iff in Hf. destruct Hf as [Hfa Hfb].
      specialize (IHa Hfa). specialize (IHb Hfb). pose proof (mwp_length a). pose proof (mwp_length b).
      destruct a; try (rewrite (PT_or np ge) by reflexivity; cbn [need] in *; rewrite app_length; cbn [length]; lia).
      rewrite PT_or_chain. cbn [need] in *. rewrite app_length. cbn [length]. lia.
    - destruct op; specialize (IHa Hf); cbn [need print_toks length];
        repeat (rewrite app_length || cbn [length]); pose proof (mwp_length a); fold (mwp np ge a); lia.
    - apply andb_true_iff in Hf. destruct Hf as [Hfa Hfb].
      specialize (IHa Hfa). specialize (IHb Hfb). pose proof (mwp_length a). pose proof (mwp_length b).
      destruct (binop_tok op) as [tk|] eqn:Etk.
      + destruct (same_assoc op a) eqn:Hsa.
        * rewrite (PT_infix_chain np ge op tk a b Etk Hsa). cbn [need]. rewrite app_length. cbn [length]. lia.
        * rewrite (PT_infix np ge op tk a b Etk Hsa). cbn [need]. rewrite app_length. cbn [length]. lia.
      + cbn [need print_toks]. rewrite Etk. fold (mwp np ge a).
        repeat (rewrite app_length || cbn [length]). lia.
    - (* ExtCall *)
      assert (need (ExtCall fn args) = S (needs args)) as En by (cbn [need]; rewrite need_list; reflexivity).
      rewrite En. cbn [print_toks]. destruct (is_method_style fn); destruct args as [|r args'].
      + pose proof (commas_len [] IHargs Hf). repeat (rewrite app_length || cbn [length]). cbn in *. lia.
      + inversion IHargs as [|? ? Hr HF']; subst. cbn [forallb] in Hf. apply andb_true_iff in Hf. destruct Hf as [Hfr Hfa].
        pose proof (commas_len args' HF' Hfa). specialize (Hr Hfr). pose proof (mwp_length r). fold (mwp np ge r).
        cbn [needs]. repeat (rewrite app_length || cbn [length]). lia.
      + pose proof (commas_len [] IHargs Hf). repeat (rewrite app_length || cbn [length]). cbn in *. lia.
      + pose proof (commas_len (r :: args') IHargs Hf). repeat (rewrite app_length || cbn [length]). lia.
    - specialize (IHa Hf). cbn [need print_toks]. fold (mwp np ge a). rewrite app_length.
      pose proof (mwp_length a). destruct (is_normalized_ident k); cbn [length]; lia.
    - specialize (IHa Hf). cbn [need print_toks]. fold (mwp np ge a). rewrite app_length.
      pose proof (mwp_length a). cbn [length]. lia.
    - specialize (IHa Hf). cbn [need print_toks]. fold (mwp np ge a). rewrite app_length.
      pose proof (mwp_length a). cbn [length]. lia.
    - specialize (IHa Hf). cbn [need print_toks]. fold (mwp np ge a). rewrite app_length.
      pose proof (mwp_length a). cbn [length]. lia.
    - (* SetE *)
      assert (need (SetE items) = S (needs items)) as En by (cbn [need]; rewrite need_list; reflexivity).
      rewrite En. pose proof (commas_len items IHitems Hf). cbn [print_toks].
      repeat (rewrite app_length || cbn [length]). lia.
    - (* RecordE *)
      assert (need (RecordE items) = S (needs_r items)) as En by (cbn [need]; rewrite need_list_r; reflexivity).
      rewrite En. pose proof (commas_len_r items IHitems Hf). rewrite PT_record.
      repeat (rewrite app_length || cbn [length]). lia.
  Qed.

  Lemma printable_in_fragment e : printable e = true -> in_fragment e = true.
  Proof.
    induction e as [p|v|s|n ty|c IHc t IHt e IHe|a IHa b IHb|a IHa b IHb|op a IHa|op a IHa b IHb
                   |fn args IHargs|a IHa k|a IHa k|a IHa p|a IHa t|items IHitems|items IHitems] using expr_ind';
      intros Hp; cbn [printable in_fragment] in *; try reflexivity; try discriminate;
      repeat match goal with H : (_ && _) = true |- _ => apply andb_true_iff in H; destruct H end;
      try (repeat (apply andb_true_iff; split); auto; fail).
    - (* ExtCall *)
      match goal with H : forallb printable args = true |- _ => revert H end. clear -IHargs.
      induction IHargs as [|x l Hx HF IH]; intros H; [reflexivity|]. cbn [forallb] in *.
      apply andb_true_iff in H. destruct H as [A B]. apply andb_true_iff. split; [apply Hx; exact A|apply IH; exact B].
    - (* SetE *)
      revert Hp. induction IHitems as [|x l Hx HF IH]; intros H; [reflexivity|]. cbn [forallb] in *.
      apply andb_true_iff in H. destruct H as [A B]. apply andb_true_iff. split; [apply Hx; exact A|apply IH; exact B].
    - (* RecordE *)
      match goal with H : forallb _ items = true |- _ => revert H end. clear -IHitems.
      induction IHitems as [|x l Hx HF IH]; intros H; [reflexivity|]. cbn [forallb] in *.
      apply andb_true_iff in H. destruct H as [A B]. apply andb_true_iff in A. destruct A as [_ A].
      apply andb_true_iff. split; [apply Hx; exact A|apply IH; exact B].
  Qed.

  Theorem expr_roundtrip_rest e rest :
    printable e = true -> follow_ok 0 rest = true ->
    parse_expr (S (length (PT e ++ rest))) (PT e ++ rest) = Some (SP e, rest) /\ into_expr (SP e) = Some e.
  Proof.
    intros Hp Hr. pose proof (printable_in_fragment e Hp) as Hf. split; [|apply into_expr_sp; exact Hp].
    apply (top np ge e Hp (main_all np ge e Hf Hp)); [|exact Hr].
    pose proof (need_le_length e Hf). rewrite app_length. lia.
  Qed.

  Theorem expr_roundtrip e :
    printable e = true -> parse_expr_toks (PT e) = Some e.
  Proof.
    intros Hp. destruct (expr_roundtrip_rest e [] Hp eq_refl) as [H Hi].
    rewrite app_nil_r in H. unfold parse_expr_toks. rewrite H. exact Hi.
  Qed.
End Final.
