(* ParseProofs3.v — C05: parse (print_toks e) = e on the fragment.  Part 3: the main induction. *)
From Coq Require Import Lia String.
From Cedar Require Import Unescape UnescapeProofs Printable ParseProofs ParseProofs2.
Open Scope N_scope.

Lemma level_le7 e : (level e <= 7)%nat.
Proof. destruct e; cbn; try lia; try (destruct op; lia). Qed.

Lemma bare_level e : bare_operand e = true -> level e = 7%nat.
Proof. destruct e; cbn; try discriminate; try reflexivity; destruct op; cbn; try discriminate; reflexivity. Qed.

Lemma mk_and_not_both a b : both_bool a b = false -> mk_and a b = And a b.
Proof.
  destruct a; try reflexivity. destruct p; try reflexivity.
  destruct b; try reflexivity. destruct p; try reflexivity. discriminate.
Qed.
Lemma mk_or_not_both a b : both_bool a b = false -> mk_or a b = Or a b.
Proof.
  destruct a; try reflexivity. destruct p; try reflexivity.
  destruct b; try reflexivity. destruct p; try reflexivity. discriminate.
Qed.

Definition acc_head (rest : list token) : bool :=
  match rest with TDot :: _ | TLBrack :: _ => true | _ => false end.
Lemma acc_head_facts rest : acc_head rest = true ->
  access_start rest = true /\ no_path rest = true /\ match rest with TLParen :: _ => False | _ => True end.
Proof. destruct rest as [|[] ?]; cbn; intros H; try discriminate; repeat split. Qed.

Lemma follow3_haspath rest : follow_ok 3 rest = true -> parse_has_path rest = Some ([], rest).
Proof. destruct rest as [|[] ?]; cbn; intros H; try reflexivity; discriminate. Qed.
Lemma follow3_not_in rest : follow_ok 3 rest = true ->
  match rest with TIdent s3 :: _ => kw "in" s3 = false | _ => True end.
Proof.
  destruct rest as [|[] ?]; cbn; intros H; try exact I.
  destruct (kw "in" s); [discriminate|reflexivity].
Qed.
Lemma follow7_not_lparen rest : follow_ok 7 rest = true -> match rest with TLParen :: _ => False | _ => True end.
Proof. destruct rest as [|[] ?]; cbn; intros H; try exact I; discriminate. Qed.

Section Main.
  Variable np : N -> bool.
  Variable ge : N -> bool.
  Notation PT := (print_toks np ge).
  Notation SP := (sp np ge).
  Notation MWP := (mwp np ge).
  Notation R := parse_expr.

  Record main (e : expr) : Prop := {
    m_nopath : forall rest, starts_path (PT e ++ rest) = false;
    m_notif : level e <> 0%nat -> forall rest, not_if_head (PT e ++ rest) = true;
    m_plain : level e <> 0%nat -> level e <> 6%nat -> forall rest, head_plain (PT e ++ rest) = true;
    m_A : forall f, (need e <= f)%nat -> forall rest, follow_ok (level e) rest = true ->
          parse_at (level e) (R f) f (PT e ++ rest) = Some (SP e, rest);
    m_B : bare_operand e = true -> forall f, (need e <= f)%nat -> forall rest, acc_head rest = true ->
          exists n, (f <= n + need e)%nat /\
                    parse_member (R f) f (PT e ++ rest) = access_loop (R f) f n e rest
  }.

  Lemma top x : printable x = true -> main x ->
    forall f, (need x < f)%nat -> forall rest, follow_ok 0 rest = true ->
    R f (PT x ++ rest) = Some (SP x, rest).
  Proof.
    intros Hp M f Hf rest Hr. destruct f as [|f']; [lia|]. cbn [parse_expr].
    change (parse_expr_body (R f') f') with (parse_at 0 (R f') f').
    destruct (Nat.eq_dec (level x) 0) as [E|E].
    - pose proof (m_A x M f') as HA. rewrite E in HA. apply HA; [lia|exact Hr].
    - apply (descend (R f') f' (level x) 0).
      + apply (m_A x M); [lia|]. eapply follow_mono; [exact Hr|lia].
      + lia.
      + apply level_le7.
      + exact Hr.
      + intros E7. apply (m_plain x M); lia.
      + apply (m_notif x M). exact E.
  Qed.

  Lemma head_mwp x rest : main x ->
    starts_path (MWP x ++ rest) = false /\ not_if_head (MWP x ++ rest) = true /\ head_plain (MWP x ++ rest) = true.
  Proof.
    intros M. unfold mwp, wrapt. destruct (bare_operand x) eqn:Hb; [|repeat split].
    pose proof (bare_level x Hb) as E7. repeat split.
    - apply (m_nopath x M).
    - apply (m_notif x M). lia.
    - apply (m_plain x M); lia.
  Qed.

  Lemma paren_primary x : printable x = true -> main x ->
    forall f fuel, (need x < f)%nat -> forall rest,
    parse_primary (R f) fuel (TLParen :: PT x ++ TRParen :: rest) = Some (EExpr x, rest).
  Proof.
    intros Hp M f fuel Hf rest. eapply primary_paren.
    - apply (top x Hp M f Hf). reflexivity.
    - apply into_expr_sp. exact Hp.
  Qed.

  Lemma operand x : printable x = true -> main x ->
    forall f, (need x < f)%nat -> forall L, (L <= 7)%nat -> forall rest, follow_ok L rest = true ->
    exists r, parse_at L (R f) f (MWP x ++ rest) = Some (r, rest) /\ into_expr r = Some x.
  Proof.
    intros Hp M f Hf L HL rest Hr.
    assert (follow_ok 7 rest = true) as H7 by (eapply follow_mono; eauto).
    destruct (follow7_no_access rest H7) as [Hacc Hnp].
    unfold mwp, wrapt. destruct (bare_operand x) eqn:Hb.
    - pose proof (bare_level x Hb) as E7. exists (SP x). split; [|apply into_expr_sp; exact Hp].
      apply (descend (R f) f 7 L); try assumption; try lia.
      + pose proof (m_A x M f) as HA. rewrite E7 in HA. apply HA; [lia|exact H7].
      + intros _. apply (m_plain x M); lia.
      + apply (m_notif x M). lia.
    - exists (EExpr x). split; [|reflexivity]. cbn [app]. rewrite <- app_assoc. cbn [app].
      apply (descend (R f) f 7 L); try assumption; try lia; try reflexivity.
      cbn [parse_at]. apply pm_noacc; [|exact Hacc]. apply paren_primary; assumption.
  Qed.

  Lemma operand_acc x : printable x = true -> main x ->
    forall f, (need x < f)%nat -> forall rest, acc_head rest = true ->
    exists n, (f <= n + S (need x))%nat /\
              parse_member (R f) f (MWP x ++ rest) = access_loop (R f) f n x rest.
  Proof.
    intros Hp M f Hf rest Hr. unfold mwp, wrapt. destruct (bare_operand x) eqn:Hb.
    - destruct (m_B x M Hb f ltac:(lia) rest Hr) as (n & Hn & He). exists n. split; [lia|exact He].
    - exists f. split; [lia|]. cbn [app]. rewrite <- app_assoc. cbn [app].
      destruct (acc_head_facts rest Hr) as (Ha & _ & _).
      eapply pm_acc; [apply paren_primary; assumption|exact Ha|intros n; discriminate|reflexivity].
  Qed.

  (* ---- leaves ---- *)
  Lemma leaf_prim e : match e with Lit _ | Var _ | Slot _ => True | _ => False end ->
    printable e = true -> forall f fuel rest, no_path rest = true ->
    parse_primary (R (S f)) fuel (PT e ++ rest) = Some (SP e, rest).
  Proof.
    intros Hk Hp f fuel rest Hn.
    destruct e; try contradiction; try (apply leaf_primary; [exact I|exact Hp|exact Hn]).
    destruct p as [b|z|s|u]; try (apply leaf_primary; [exact I|exact Hp|exact Hn]).
    destruct (Z.ltb_spec z 0) as [Hz|Hz].
    - apply neg_lit_primary; [exact Hz|exact Hp].
    - apply leaf_primary; [exact Hz|exact Hp|exact Hn].
  Qed.

  Lemma leaf_not_name e : match e with Lit _ | Var _ | Slot _ => True | _ => False end ->
    forall n, SP e <> EName n.
  Proof. destruct e; try contradiction; intros _ n; try discriminate. destruct p; discriminate. Qed.

  Lemma leaf_heads e : match e with Lit _ | Var _ | Slot _ => True | _ => False end ->
    printable e = true -> forall rest,
    starts_path (PT e ++ rest) = false /\ not_if_head (PT e ++ rest) = true /\ head_plain (PT e ++ rest) = true.
  Proof.
    intros Hk Hp rest. destruct e; try contradiction.
    - destruct p as [b|z|s|u].
      + destruct b; repeat split.
      + cbn [print_toks prim_toks]. destruct (z <? 0)%Z; repeat split.
      + repeat split.
      + cbn [print_toks prim_toks]. unfold uid_toks. cbn [printable] in Hp.
        apply andb_true_iff in Hp. destruct Hp as [Hty _]. destruct (uty u) as [|c p]; [discriminate|].
        rewrite name_toks_cons. cbn [app starts_path not_if_head head_plain]. repeat split.
        unfold name_ok in Hty. cbn [forallb] in Hty. apply andb_true_iff in Hty. destruct Hty as [Hc _].
        destruct (unreserved_not_kw c (ident_ok_unreserved c Hc)) as (_ & _ & Hif). rewrite Hif. reflexivity.
    - destruct v; repeat split.
    - destruct s; repeat split.
  Qed.

  Lemma main_leaf e : match e with Lit _ | Var _ | Slot _ => True | _ => False end ->
    printable e = true -> main e.
  Proof.
    intros Hk Hp.
    assert (level e = 7%nat) as E7 by (destruct e; try contradiction; reflexivity).
    assert (need e = 1%nat) as En by (destruct e; try contradiction; reflexivity).
    constructor.
    - intros rest. apply (leaf_heads e Hk Hp rest).
    - intros _ rest. apply (leaf_heads e Hk Hp rest).
    - intros _ _ rest. apply (leaf_heads e Hk Hp rest).
    - intros f Hf rest Hr. rewrite E7 in *. destruct f as [|f']; [lia|].
      destruct (follow7_no_access rest Hr) as [Ha Hn]. cbn [parse_at].
      apply pm_noacc; [|exact Ha]. apply leaf_prim; assumption.
    - intros _ f Hf rest Hr. destruct f as [|f']; [lia|].
      destruct (acc_head_facts rest Hr) as (Ha & Hn & _).
      exists (S f'). split; [lia|].
      eapply pm_acc; [apply leaf_prim; assumption|exact Ha|apply leaf_not_name; exact Hk|apply into_expr_sp; exact Hp].
  Qed.

  (* ---- printed forms ---- *)
  Lemma PT_and a b : match a with And _ _ => false | _ => true end = true ->
    PT (And a b) = MWP a ++ TAndAnd :: MWP b.
  Proof. destruct a; intros H; try reflexivity; discriminate. Qed.
  Lemma PT_or a b : match a with Or _ _ => false | _ => true end = true ->
    PT (Or a b) = MWP a ++ TOrOr :: MWP b.
  Proof. destruct a; intros H; try reflexivity; discriminate. Qed.
  Lemma PT_infix op t a b : binop_tok op = Some t -> same_assoc op a = false ->
    PT (BinApp op a b) = MWP a ++ t :: MWP b.
  Proof. intros Ht Hs. cbn [print_toks]. rewrite Ht, Hs. reflexivity. Qed.

  Lemma PT_if_app c t e rest :
    PT (If c t e) ++ rest = tid "if" :: PT c ++ tid "then" :: PT t ++ tid "else" :: PT e ++ rest.
  Proof.
    cbn [print_toks]. rewrite <- app_comm_cons. f_equal. rewrite <- app_assoc. f_equal.
    rewrite <- app_comm_cons. f_equal. rewrite <- app_assoc. f_equal.
  Qed.

  Lemma body_if rec fuel tsc rc ts1 rt ts2 re ts3 c t e :
    starts_path tsc = false -> rec tsc = Some (rc, tid "then" :: ts1) ->
    rec ts1 = Some (rt, tid "else" :: ts2) -> rec ts2 = Some (re, ts3) ->
    into_expr rc = Some c -> into_expr rt = Some t -> into_expr re = Some e ->
    parse_expr_body rec fuel (tid "if" :: tsc) = Some (EExpr (If c t e), ts3).
  Proof.
    intros Hs H1 H2 H3 I1 I2 I3. unfold parse_expr_body, tid.
    change (kw "if" (ascii "if")) with true. cbv iota. rewrite Hs, H1. unfold tid.
    change (kw "then" (ascii "then")) with true. cbv iota. rewrite H2. unfold tid.
    change (kw "else" (ascii "else")) with true. cbv iota. rewrite H3, I1, I2, I3. reflexivity.
  Qed.

  Lemma name_at rec fuel t rest : name_ok t = true -> follow_ok 3 rest = true ->
    exists rt, parse_at 4 rec fuel (name_toks t ++ rest) = Some (rt, rest) /\
               match rt with EVar v => Some [show_var v] | EName m => Some m | _ => None end = Some t.
  Proof.
    intros Hn Hr. destruct t as [|c p]; [discriminate|].
    assert (forallb unreserved (c :: p) = true) as Hu.
    { apply forallb_forall. intros x Hx. apply ident_ok_unreserved.
      unfold name_ok in Hn. eapply forallb_forall in Hn; eauto. }
    assert (unreserved c = true) as Hc by (cbn [forallb] in Hu; apply andb_true_iff in Hu; apply Hu).
    destruct (unreserved_not_kw c Hc) as (Kt & Kf & Kif).
    assert (follow_ok 7 rest = true) as H7 by (eapply follow_mono; [exact Hr|lia]).
    destruct (follow7_no_access rest H7) as [Ha Hnp].
    assert (exists rt, parse_primary rec fuel (name_toks (c :: p) ++ rest) = Some (rt, rest) /\
              match rt with EVar v => Some [show_var v] | EName m => Some m | _ => None end = Some (c :: p))
      as (rt & Hprim & Hty).
    { rewrite name_toks_cons. cbn [app parse_primary]. rewrite parse_path_name by exact Hnp.
      destruct p as [|d p'].
      - rewrite Kt, Kf. destruct (var_of_ident c) eqn:Ev.
        + eexists. split; [reflexivity|]. cbn. rewrite (var_of_ident_show c v Ev). reflexivity.
        + rewrite Hc. eexists. split; reflexivity.
      - rewrite Hu. eexists. split; reflexivity. }
    exists rt. split; [|exact Hty].
    apply (descend rec fuel 7 4); try lia.
    - cbn [parse_at]. apply pm_noacc; assumption.
    - eapply follow_mono; [exact Hr|lia].
    - intros _. rewrite name_toks_cons. reflexivity.
    - rewrite name_toks_cons. cbn [app not_if_head]. rewrite Kif. reflexivity.
  Qed.

  Theorem main_all e : in_fragment e = true -> printable e = true -> main e.
  Proof.
    induction e as [p|v|s|n ty|c IHc t IHt e IHe|a IHa b IHb|a IHa b IHb|op a IHa|op a IHa b IHb
                   |fn args|a IHa k|a IHa k|a IHa p|a IHa t|items|items];
      intros Hf Hp; cbn [in_fragment printable] in Hf, Hp; try discriminate.
    - apply main_leaf; [exact I|exact Hp].
    - apply main_leaf; [exact I|exact Hp].
    - apply main_leaf; [exact I|exact Hp].
    - (* If *)
      apply andb_true_iff in Hf. destruct Hf as [Hf Hfe]. apply andb_true_iff in Hf. destruct Hf as [Hfc Hft].
      apply andb_true_iff in Hp. destruct Hp as [Hp Hpe]. apply andb_true_iff in Hp. destruct Hp as [Hpc Hpt].
      specialize (IHc Hfc Hpc). specialize (IHt Hft Hpt). specialize (IHe Hfe Hpe).
      constructor; try (intros; reflexivity); try (cbn [level]; intros; contradiction); try (intros; discriminate).
      intros f Hn rest Hr. cbn [level parse_at need] in *. rewrite PT_if_app.
      eapply body_if.
      + apply (m_nopath c IHc).
      + apply (top c Hpc IHc); [lia|reflexivity].
      + apply (top t Hpt IHt); [lia|reflexivity].
      + apply (top e Hpe IHe); [lia|exact Hr].
      + apply into_expr_sp; exact Hpc.
      + apply into_expr_sp; exact Hpt.
      + apply into_expr_sp; exact Hpe.
    - (* And *)
      apply andb_true_iff in Hf. destruct Hf as [Hf Hfb]. apply andb_true_iff in Hf. destruct Hf as [Hna Hfa].
      apply andb_true_iff in Hp. destruct Hp as [Hp Hbb]. apply andb_true_iff in Hp. destruct Hp as [Hpa Hpb].
      specialize (IHa Hfa Hpa). specialize (IHb Hfb Hpb).
      apply negb_true_iff in Hbb.
      assert (PT (And a b) = MWP a ++ TAndAnd :: MWP b) as EP
        by (apply PT_and; destruct a; try reflexivity; discriminate).
      constructor; try (intros; discriminate).
      + intros rest. rewrite EP, <- app_assoc. apply (head_mwp a _ IHa).
      + intros _ rest. rewrite EP, <- app_assoc. apply (head_mwp a _ IHa).
      + intros _ _ rest. rewrite EP, <- app_assoc. apply (head_mwp a _ IHa).
      + intros f Hn rest Hr. cbn [level parse_at need] in *. rewrite EP, <- app_assoc. cbn [app].
        destruct (operand a Hpa IHa f ltac:(lia) 3%nat ltac:(lia) (TAndAnd :: MWP b ++ rest) eq_refl) as (ra & Ha & Ia).
        destruct (operand b Hpb IHb f ltac:(lia) 3%nat ltac:(lia) rest ltac:(eapply follow_mono; [exact Hr|lia])) as (rb & Hb & Ib).
        change (SP (And a b)) with (EExpr (And a b)). rewrite <- (mk_and_not_both a b Hbb).
        eapply parse_and_op; try eassumption; [lia|]. apply follow_and. exact Hr.
    - (* Or *)
      apply andb_true_iff in Hf. destruct Hf as [Hf Hfb]. apply andb_true_iff in Hf. destruct Hf as [Hna Hfa].
      apply andb_true_iff in Hp. destruct Hp as [Hp Hbb]. apply andb_true_iff in Hp. destruct Hp as [Hpa Hpb].
      specialize (IHa Hfa Hpa). specialize (IHb Hfb Hpb).
      apply negb_true_iff in Hbb.
      assert (PT (Or a b) = MWP a ++ TOrOr :: MWP b) as EP
        by (apply PT_or; destruct a; try reflexivity; discriminate).
      constructor; try (intros; discriminate).
      + intros rest. rewrite EP, <- app_assoc. apply (head_mwp a _ IHa).
      + intros _ rest. rewrite EP, <- app_assoc. apply (head_mwp a _ IHa).
      + intros _ _ rest. rewrite EP, <- app_assoc. apply (head_mwp a _ IHa).
      + intros f Hn rest Hr. cbn [level parse_at need] in *. rewrite EP, <- app_assoc. cbn [app].
        destruct (operand a Hpa IHa f ltac:(lia) 2%nat ltac:(lia) (TOrOr :: MWP b ++ rest) eq_refl) as (ra & Ha & Ia).
        destruct (operand b Hpb IHb f ltac:(lia) 2%nat ltac:(lia) rest ltac:(eapply follow_mono; [exact Hr|lia])) as (rb & Hb & Ib).
        change (SP (Or a b)) with (EExpr (Or a b)). rewrite <- (mk_or_not_both a b Hbb).
        eapply parse_or_op; try eassumption; [lia|]. apply follow_or. exact Hr.
    - (* UnApp *)
      destruct op; try discriminate; specialize (IHa Hf Hp).
      + (* Not *)
        constructor; try (intros; reflexivity); try (cbn [level]; intros; contradiction); try (intros; discriminate).
        intros f Hn rest Hr. cbn [level parse_at need] in *.
        change (PT (UnApp UNot a) ++ rest) with (TBang :: (MWP a ++ rest)).
        destruct (operand a Hp IHa f ltac:(lia) 7%nat ltac:(lia) rest ltac:(eapply follow_mono; [exact Hr|lia])) as (ra & Ha & Ia).
        eapply parse_unary_not; [apply (head_mwp a _ IHa)|exact Ha|exact Ia].
      + (* Neg *)
        constructor; try (intros; reflexivity); try (cbn [level]; intros; contradiction); try (intros; discriminate).
        intros f Hn rest Hr. cbn [level parse_at need] in *. cbn [print_toks app]. rewrite <- app_assoc. cbn [app].
        assert (follow_ok 7 rest = true) as H7 by (eapply follow_mono; [exact Hr|lia]).
        destruct (follow7_no_access rest H7) as [Hacc _].
        eapply parse_unary_neg_paren with (r := EExpr a); [|reflexivity].
        apply pm_noacc; [|exact Hacc]. apply paren_primary; [exact Hp|exact IHa|lia].
    - (* BinApp *)
      destruct (binop_tok op) as [tk|] eqn:Etk; [|discriminate].
      apply andb_true_iff in Hf. destruct Hf as [Hf Hfb]. apply andb_true_iff in Hf. destruct Hf as [Hsa Hfa].
      apply andb_true_iff in Hp. destruct Hp as [Hpa Hpb].
      specialize (IHa Hfa Hpa). specialize (IHb Hfb Hpb). apply negb_true_iff in Hsa.
      pose proof (PT_infix op tk a b Etk Hsa) as EP.
      assert (bare_operand (BinApp op a b) = false) as Hnb by (destruct op; try reflexivity; discriminate).
      assert (level (BinApp op a b) <> 0%nat /\ level (BinApp op a b) <> 6%nat) as [Hl0 Hl6]
        by (destruct op; cbn; split; lia).
      constructor.
      + intros rest. rewrite EP, <- app_assoc. apply (head_mwp a _ IHa).
      + intros _ rest. rewrite EP, <- app_assoc. apply (head_mwp a _ IHa).
      + intros _ _ rest. rewrite EP, <- app_assoc. apply (head_mwp a _ IHa).
      + intros f Hn rest Hr. cbn [need] in Hn. rewrite EP, <- app_assoc. cbn [app].
        destruct op; try discriminate; cbn [binop_tok] in Etk; inversion Etk; subst tk; clear Etk;
          cbn [level parse_at sp] in *.
        * (* == *)
          destruct (operand a Hpa IHa f ltac:(lia) 4%nat ltac:(lia) (TEqEq :: MWP b ++ rest) eq_refl) as (ra & Ha & Ia).
          destruct (operand b Hpb IHb f ltac:(lia) 4%nat ltac:(lia) rest ltac:(eapply follow_mono; [exact Hr|lia])) as (rb & Hb & Ib).
          eapply parse_rel_relop; try eassumption; try reflexivity. apply follow_rel; exact Hr.
        * (* < *)
          destruct (operand a Hpa IHa f ltac:(lia) 4%nat ltac:(lia) (TLt :: MWP b ++ rest) eq_refl) as (ra & Ha & Ia).
          destruct (operand b Hpb IHb f ltac:(lia) 4%nat ltac:(lia) rest ltac:(eapply follow_mono; [exact Hr|lia])) as (rb & Hb & Ib).
          eapply parse_rel_relop; try eassumption; try reflexivity. apply follow_rel; exact Hr.
        * (* <= *)
          destruct (operand a Hpa IHa f ltac:(lia) 4%nat ltac:(lia) (TLe :: MWP b ++ rest) eq_refl) as (ra & Ha & Ia).
          destruct (operand b Hpb IHb f ltac:(lia) 4%nat ltac:(lia) rest ltac:(eapply follow_mono; [exact Hr|lia])) as (rb & Hb & Ib).
          eapply parse_rel_relop; try eassumption; try reflexivity. apply follow_rel; exact Hr.
        * (* + *)
          destruct (operand a Hpa IHa f ltac:(lia) 5%nat ltac:(lia) (TPlus :: MWP b ++ rest) eq_refl) as (ra & Ha & Ia).
          destruct (operand b Hpb IHb f ltac:(lia) 5%nat ltac:(lia) rest ltac:(eapply follow_mono; [exact Hr|lia])) as (rb & Hb & Ib).
          eapply parse_add_op; try eassumption; [left; split; reflexivity|lia|]. apply follow_add; exact Hr.
        * (* - *)
          destruct (operand a Hpa IHa f ltac:(lia) 5%nat ltac:(lia) (TMinus :: MWP b ++ rest) eq_refl) as (ra & Ha & Ia).
          destruct (operand b Hpb IHb f ltac:(lia) 5%nat ltac:(lia) rest ltac:(eapply follow_mono; [exact Hr|lia])) as (rb & Hb & Ib).
          eapply parse_add_op; try eassumption; [right; split; reflexivity|lia|]. apply follow_add; exact Hr.
        * (* * *)
          destruct (operand a Hpa IHa f ltac:(lia) 6%nat ltac:(lia) (TStar :: MWP b ++ rest) eq_refl) as (ra & Ha & Ia).
          destruct (operand b Hpb IHb f ltac:(lia) 6%nat ltac:(lia) rest ltac:(eapply follow_mono; [exact Hr|lia])) as (rb & Hb & Ib).
          eapply parse_mul_op; try eassumption; [lia|]. apply follow_mul; exact Hr.
        * (* in *)
          destruct (operand a Hpa IHa f ltac:(lia) 4%nat ltac:(lia) (tid "in" :: MWP b ++ rest) eq_refl) as (ra & Ha & Ia).
          destruct (operand b Hpb IHb f ltac:(lia) 4%nat ltac:(lia) rest ltac:(eapply follow_mono; [exact Hr|lia])) as (rb & Hb & Ib).
          eapply parse_rel_relop; try eassumption; try reflexivity. apply follow_rel; exact Hr.
      + intros Hb. rewrite Hnb in Hb. discriminate.
    - (* GetAttr *)
      apply andb_true_iff in Hp. destruct Hp as [Hpa Hk]. specialize (IHa Hf Hpa).
      assert (forall f, (need (GetAttr a k) <= f)%nat -> forall rest,
                match rest with TLParen :: _ => False | _ => True end ->
                exists n, (f <= n + need (GetAttr a k))%nat /\
                  parse_member (R f) f (PT (GetAttr a k) ++ rest) = access_loop (R f) f n (GetAttr a k) rest) as G.
      { intros f Hn rest Hnl. cbn [need] in *. cbn [print_toks]. rewrite <- app_assoc.
        destruct (is_normalized_ident k) eqn:En.
        - destruct (operand_acc a Hpa IHa f ltac:(lia) ([TDot; TIdent k] ++ rest) eq_refl) as (n0 & Hn0 & He).
          destruct n0 as [|n']; [lia|]. exists n'. split; [lia|].
          fold (mwp np ge a). rewrite He. cbn [app]. apply access_dot; [apply normalized_unreserved; exact En|exact Hnl].
        - destruct (operand_acc a Hpa IHa f ltac:(lia) ([TLBrack; tstr np ge k; TRBrack] ++ rest) eq_refl) as (n0 & Hn0 & He).
          destruct n0 as [|n']; [lia|]. exists n'. split; [lia|].
          fold (mwp np ge a). rewrite He. cbn [app]. unfold tstr. apply access_index.
          + destruct f as [|f']; [lia|]. cbn [parse_expr].
            apply (str_tok_at (R f') f' 0); [lia|reflexivity].
          + apply unescape_opt_escape. exact Hk. }
      constructor.
      + intros rest. cbn [print_toks]. rewrite <- app_assoc. apply (head_mwp a _ IHa).
      + intros _ rest. cbn [print_toks]. rewrite <- app_assoc. apply (head_mwp a _ IHa).
      + intros _ _ rest. cbn [print_toks]. rewrite <- app_assoc. apply (head_mwp a _ IHa).
      + intros f Hn rest Hr. cbn [level parse_at sp] in *.
        destruct (G f Hn rest (follow7_not_lparen rest Hr)) as (n & _ & He). rewrite He.
        apply access_stop. apply follow7_no_access. exact Hr.
      + intros _ f Hn rest Hr. apply (G f Hn rest). apply acc_head_facts. exact Hr.
    - (* HasAttr *)
      apply andb_true_iff in Hp. destruct Hp as [Hpa Hk]. specialize (IHa Hf Hpa).
      constructor; try (intros; discriminate).
      + intros rest. cbn [print_toks]. rewrite <- app_assoc. apply (head_mwp a _ IHa).
      + intros _ rest. cbn [print_toks]. rewrite <- app_assoc. apply (head_mwp a _ IHa).
      + intros _ _ rest. cbn [print_toks]. rewrite <- app_assoc. apply (head_mwp a _ IHa).
      + intros f Hn rest Hr. cbn [level parse_at need sp] in *. cbn [print_toks]. rewrite <- app_assoc. cbn [app].
        destruct (operand a Hpa IHa f ltac:(lia) 4%nat ltac:(lia) (tid "has" :: key_tok np ge k :: rest) eq_refl) as (ra & Ha & Ia).
        fold (mwp np ge a).
        eapply parse_rel_has with (attrs := [k]); [exact Ha|exact Ia| |reflexivity].
        unfold key_tok. destruct (is_normalized_ident k) eqn:En.
        * cbn [parse_has_rhs]. rewrite (normalized_unreserved k En), (follow3_haspath rest Hr). reflexivity.
        * unfold tstr. cbn [parse_has_rhs]. rewrite unescape_opt_escape by exact Hk. reflexivity.
    - (* Like *)
      apply andb_true_iff in Hp. destruct Hp as [Hpa Hk]. specialize (IHa Hf Hpa).
      constructor; try (intros; discriminate).
      + intros rest. cbn [print_toks]. rewrite <- app_assoc. apply (head_mwp a _ IHa).
      + intros _ rest. cbn [print_toks]. rewrite <- app_assoc. apply (head_mwp a _ IHa).
      + intros _ _ rest. cbn [print_toks]. rewrite <- app_assoc. apply (head_mwp a _ IHa).
      + intros f Hn rest Hr. cbn [level parse_at need sp] in *. cbn [print_toks]. rewrite <- app_assoc. cbn [app].
        destruct (operand a Hpa IHa f ltac:(lia) 4%nat ltac:(lia) (tid "like" :: TStr (show_pattern np ge p) :: rest) eq_refl) as (ra & Ha & Ia).
        fold (mwp np ge a).
        eapply parse_rel_like; [exact Ha|exact Ia| |apply to_pattern_show; exact Hk].
        apply (str_tok_at (R f) f 4); [lia|]. eapply follow_mono; [exact Hr|lia].
    - (* Is *)
      apply andb_true_iff in Hp. destruct Hp as [Hpa Hk]. specialize (IHa Hf Hpa).
      constructor; try (intros; discriminate).
      + intros rest. cbn [print_toks]. rewrite <- app_assoc. apply (head_mwp a _ IHa).
      + intros _ rest. cbn [print_toks]. rewrite <- app_assoc. apply (head_mwp a _ IHa).
      + intros _ _ rest. cbn [print_toks]. rewrite <- app_assoc. apply (head_mwp a _ IHa).
      + intros f Hn rest Hr. cbn [level parse_at need sp] in *. cbn [print_toks]. rewrite <- app_assoc. cbn [app].
        destruct (operand a Hpa IHa f ltac:(lia) 4%nat ltac:(lia) (tid "is" :: name_toks t ++ rest) eq_refl) as (ra & Ha & Ia).
        destruct (name_at (R f) f t rest Hk Hr) as (rt & Hrt & Hty).
        fold (mwp np ge a).
        eapply parse_rel_is; [exact Ha|exact Ia|exact Hrt|exact Hty|apply follow3_not_in; exact Hr].
  Qed.
End Main.

Section Final.
  Variable np : N -> bool.
  Variable ge : N -> bool.
  Notation PT := (print_toks np ge).
  Notation SP := (sp np ge).
  Notation MWP := (mwp np ge).

  Lemma mwp_length x : (length (PT x) <= length (MWP x))%nat.
  Proof. unfold mwp, wrapt. destruct (bare_operand x); cbn [length]; rewrite ?app_length; cbn [length]; lia. Qed.

  Lemma need_le_length e : in_fragment e = true -> (need e <= length (PT e))%nat.
  Proof.
    induction e as [p|v|s|n ty|c IHc t IHt e IHe|a IHa b IHb|a IHa b IHb|op a IHa|op a IHa b IHb
                   |fn args|a IHa k|a IHa k|a IHa p|a IHa t|items|items];
      intros Hf; cbn [in_fragment] in Hf; try discriminate.
    - destruct p as [b|z|s|u]; cbn [need print_toks prim_toks].
      + destruct b; cbn; lia.
      + destruct (z <? 0)%Z; cbn; lia.
      + cbn; lia.
      + unfold uid_toks. rewrite app_length. cbn [length]. lia.
    - cbn; lia.
    - destruct s; cbn; lia.
    - apply andb_true_iff in Hf. destruct Hf as [Hf Hfe]. apply andb_true_iff in Hf. destruct Hf as [Hfc Hft].
      specialize (IHc Hfc). specialize (IHt Hft). specialize (IHe Hfe).
      cbn [need print_toks]. repeat (rewrite app_length || cbn [length]). lia.
    - apply andb_true_iff in Hf. destruct Hf as [Hf Hfb]. apply andb_true_iff in Hf. destruct Hf as [Hna Hfa].
      specialize (IHa Hfa). specialize (IHb Hfb).
      rewrite (PT_and np ge a b) by (destruct a; try reflexivity; discriminate).
      cbn [need]. rewrite app_length. cbn [length]. pose proof (mwp_length a). pose proof (mwp_length b). lia.
    - apply andb_true_iff in Hf. destruct Hf as [Hf Hfb]. apply andb_true_iff in Hf. destruct Hf as [Hna Hfa].
      specialize (IHa Hfa). specialize (IHb Hfb).
      rewrite (PT_or np ge a b) by (destruct a; try reflexivity; discriminate).
      cbn [need]. rewrite app_length. cbn [length]. pose proof (mwp_length a). pose proof (mwp_length b). lia.
    - destruct op; try discriminate; specialize (IHa Hf); cbn [need print_toks length];
        repeat (rewrite app_length || cbn [length]); pose proof (mwp_length a); fold (mwp np ge a); lia.
    - destruct (binop_tok op) as [tk|] eqn:Etk; [|discriminate].
      apply andb_true_iff in Hf. destruct Hf as [Hf Hfb]. apply andb_true_iff in Hf. destruct Hf as [Hsa Hfa].
      specialize (IHa Hfa). specialize (IHb Hfb). apply negb_true_iff in Hsa.
      rewrite (PT_infix np ge op tk a b Etk Hsa).
      cbn [need]. rewrite app_length. cbn [length]. pose proof (mwp_length a). pose proof (mwp_length b). lia.
    - specialize (IHa Hf). cbn [need print_toks]. fold (mwp np ge a). rewrite app_length.
      pose proof (mwp_length a). destruct (is_normalized_ident k); cbn [length]; lia.
    - specialize (IHa Hf). cbn [need print_toks]. fold (mwp np ge a). rewrite app_length.
      pose proof (mwp_length a). cbn [length]. lia.
    - specialize (IHa Hf). cbn [need print_toks]. fold (mwp np ge a). rewrite app_length.
      pose proof (mwp_length a). cbn [length]. lia.
    - specialize (IHa Hf). cbn [need print_toks]. fold (mwp np ge a). rewrite app_length.
      pose proof (mwp_length a). cbn [length]. lia.
  Qed.

  Theorem expr_roundtrip_rest e rest :
    printable e = true -> in_fragment e = true -> follow_ok 0 rest = true ->
    parse_expr (S (length (PT e ++ rest))) (PT e ++ rest) = Some (SP e, rest) /\ into_expr (SP e) = Some e.
  Proof.
    intros Hp Hf Hr. split; [|apply into_expr_sp; exact Hp].
    apply (top np ge e Hp (main_all np ge e Hf Hp)); [|exact Hr].
    pose proof (need_le_length e Hf). rewrite app_length. lia.
  Qed.

  Theorem expr_roundtrip e :
    printable e = true -> in_fragment e = true -> parse_expr_toks (PT e) = Some e.
  Proof.
    intros Hp Hf. destruct (expr_roundtrip_rest e [] Hp Hf eq_refl) as [H Hi].
    rewrite app_nil_r in H. unfold parse_expr_toks. rewrite H. exact Hi.
  Qed.
End Final.
