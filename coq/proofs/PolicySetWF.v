(* PolicySetWF.v — the well-formedness invariant of the policy-set model and its preservation (C08) *)
From Coq Require Import Lia.
From Cedar Require Import PolicySet ValueProofs.

(* ------------------------------------------------------------------ strings *)
Lemma str_eqb_neq a b : a <> b -> str_eqb a b = false.
Proof. intros H. destruct (str_eqb a b) eqn:E; [apply str_eqb_eq in E; contradiction | reflexivity]. Qed.
Lemma str_eqb_sym a b : str_eqb a b = str_eqb b a.
Proof.
  destruct (str_eqb a b) eqn:E.
  - apply str_eqb_eq in E. subst. symmetry. apply str_eqb_refl.
  - destruct (str_eqb b a) eqn:E2; [|reflexivity]. apply str_eqb_eq in E2. subst. rewrite str_eqb_refl in E. discriminate.
Qed.

(* ------------------------------------------------------------------ association maps *)
Section Maps.
  Context {V : Type}.
  Implicit Types m : list (str * V).

  Lemma alookup_app k m m' :
    alookup k (m ++ m') = match alookup k m with Some v => Some v | None => alookup k m' end.
  Proof. induction m as [|[k' v] m IH]; cbn; [reflexivity|]. destruct (str_eqb k k'); auto. Qed.

  Lemma alookup_aremove k k' m :
    alookup k' (aremove k m) = if str_eqb k' k then None else alookup k' m.
  Proof.
    unfold aremove. induction m as [|[k0 v] m IH]; cbn.
    - destruct (str_eqb k' k); reflexivity.
    - destruct (str_eqb k k0) eqn:E; cbn.
      + apply str_eqb_eq in E. subst k0. rewrite IH. destruct (str_eqb k' k); reflexivity.
      + rewrite IH. destruct (str_eqb k' k) eqn:E2; [|reflexivity].
        apply str_eqb_eq in E2. subst k'. rewrite E. reflexivity.
  Qed.

  Lemma alookup_ainsert k k' v m :
    alookup k' (ainsert k v m) = if str_eqb k' k then Some v else alookup k' m.
  Proof.
    unfold ainsert. rewrite alookup_app, alookup_aremove. cbn.
    destruct (str_eqb k' k); [reflexivity|]. destruct (alookup k' m); reflexivity.
  Qed.

  Lemma amem_true k m : amem k m = true <-> alookup k m <> None.
  Proof. unfold amem. destruct (alookup k m); split; congruence. Qed.
  Lemma amem_false k m : amem k m = false <-> alookup k m = None.
  Proof. unfold amem. destruct (alookup k m); split; congruence. Qed.
End Maps.

Lemma smem_spec k l : smem k l = true <-> In k l.
Proof.
  unfold smem. rewrite existsb_exists. split.
  - intros [x [Hin E]]. apply str_eqb_eq in E. subst. exact Hin.
  - intros H. exists k. split; [exact H | apply str_eqb_refl].
Qed.
Lemma sinsert_spec k l x : In x (sinsert k l) <-> x = k \/ In x l.
Proof.
  unfold sinsert. destruct (smem k l) eqn:E.
  - apply smem_spec in E. split; [auto | intros [->|H]; auto].
  - rewrite in_app_iff. cbn. split; [intros [H|[H|[]]]; auto | intros [H|H]; auto].
Qed.
Lemma sremove_spec k l x : In x (sremove k l) <-> x <> k /\ In x l.
Proof.
  unfold sremove. rewrite filter_In. split.
  - intros [Hin E]. split; [|exact Hin]. intros ->. rewrite str_eqb_refl in E. discriminate.
  - intros [Hne Hin]. split; [exact Hin|]. rewrite str_eqb_neq; [reflexivity | congruence].
Qed.

(* ------------------------------------------------------------------ statics *)
Lemma has_slot_eqb a b : prconstraint_eqb a b = true -> has_slot a = has_slot b.
Proof.
  destruct a as [|[]|[]|? []|], b as [|[]|[]|? []|]; cbn; try discriminate; try reflexivity;
    rewrite ?Bool.andb_false_r; try discriminate; reflexivity.
Qed.
Lemma template_eqb_static a b : template_eqb a b = true -> t_is_static a = t_is_static b.
Proof.
  unfold template_eqb. rewrite !Bool.andb_true_iff. intros [[[[[[_ _] _] Hp] _] Hr] _].
  unfold t_is_static, tslots. rewrite (has_slot_eqb _ _ Hp), (has_slot_eqb _ _ Hr). reflexivity.
Qed.
Lemma static_slots t : t_is_static t = true -> tslots t = [].
Proof. unfold t_is_static. destruct (tslots t); [reflexivity | discriminate]. Qed.
Lemma check_binding_static t : t_is_static t = true -> check_binding t [] = true.
Proof. intros H. unfold check_binding. rewrite (static_slots _ H). reflexivity. Qed.

(* ------------------------------------------------------------------ the invariant *)
Definition good_policy (p : policy) : Prop :=
  check_binding (ptemplate p) (penv p) = true /\ t_is_static (ptemplate p) = p_is_static p.

Record WF (s : pset) : Prop := mkWF {
  (* templates are stored under their own id *)
  wf_tid : forall i t, alookup i (ps_templates s) = Some t -> tid t = i;
  (* every link is stored under its id, its template is in `templates` (no link without its template),
     it binds exactly the template's slots, and it is static iff its template is slot-less *)
  wf_link : forall i p, alookup i (ps_links s) = Some p ->
      pid p = i /\ alookup (tid (ptemplate p)) (ps_templates s) = Some (ptemplate p) /\ good_policy p;
  (* no id is both a template and a template-linked policy *)
  wf_disj : forall i p, alookup i (ps_links s) = Some p -> alookup i (ps_templates s) <> None -> plink p = None;
  (* a slot-less template is the body of a static policy that is present *)
  wf_static_tpl : forall i t, alookup i (ps_templates s) = Some t -> t_is_static t = true ->
      alookup i (ps_links s) <> None;
  (* template_to_links_map has exactly the keys of templates ... *)
  wf_t2l_dom : forall i, alookup i (ps_t2l s) = None <-> alookup i (ps_templates s) = None;
  (* ... and is exactly the inverse image of links under "template id of" *)
  wf_t2l : forall t ids l, alookup t (ps_t2l s) = Some ids ->
      (In l ids <-> exists p, alookup l (ps_links s) = Some p /\ tid (ptemplate p) = t)
}.

Lemma WF_empty : WF empty_pset.
Proof. constructor; cbn; intros; try discriminate; try tauto. Qed.

Ltac lk := repeat (rewrite ?alookup_ainsert, ?alookup_aremove in * ).
Ltac sdg :=
  match goal with
  | |- context [if str_eqb ?a ?b then _ else _] => destruct (str_eqb a b) eqn:?
  end.
Ltac sdh :=
  match goal with
  | H : context [if str_eqb ?a ?b then _ else _] |- _ => destruct (str_eqb a b) eqn:?
  end.
Ltac sd := first [sdh | sdg].
Ltac seq :=
  repeat match goal with
         | H : str_eqb ?a ?b = true |- _ => apply str_eqb_eq in H; subst
         | H : str_eqb ?a ?a = false |- _ => rewrite str_eqb_refl in H; discriminate H
         end.

(* derived: a static policy's id is its template's id; a slot-less template has exactly one link *)
Lemma static_pid p : plink p = None -> pid p = tid (ptemplate p).
Proof. unfold pid. intros ->. reflexivity. Qed.

Lemma WF_static_unique s i p q l :
  WF s -> alookup i (ps_links s) = Some p -> plink p = None ->
  alookup l (ps_links s) = Some q -> tid (ptemplate q) = i -> l = i.
Proof.
  intros W Hp Hs Hq Ht.
  destruct (wf_link _ W _ _ Hp) as [Pid [PT [_ PS]]].
  destruct (wf_link _ W _ _ Hq) as [Qid [QT [_ QS]]].
  rewrite (static_pid _ Hs) in Pid. rewrite Pid in PT. rewrite Ht in QT. rewrite PT in QT. inversion QT as [E].
  rewrite <- E in QS. rewrite PS in QS. unfold p_is_static in QS. rewrite Hs in QS.
  destruct (plink q) eqn:Eq; [discriminate|]. rewrite (static_pid _ Eq), Ht in Qid. congruence.
Qed.

(* ------------------------------------------------------------------ adding a static policy under a fresh id *)
Lemma add_fresh_WF s p :
  WF s -> plink p = None -> good_policy p ->
  alookup (tid (ptemplate p)) (ps_templates s) = None -> alookup (tid (ptemplate p)) (ps_links s) = None ->
  WF (mkPset (ainsert (tid (ptemplate p)) (ptemplate p) (ps_templates s))
             (ainsert (tid (ptemplate p)) p (ps_links s))
             (ainsert (tid (ptemplate p)) [tid (ptemplate p)] (ps_t2l s))).
Proof.
  intros W Hs G ET EL. set (t := ptemplate p) in *.
  constructor; cbn [ps_templates ps_links ps_t2l]; intros.
  - lk. sd; seq. { inversion H; subst; reflexivity. } eapply wf_tid; eauto.
  - lk. sd; seq.
    + inversion H; subst p0. fold t. rewrite str_eqb_refl. split; [apply static_pid; exact Hs|split; [reflexivity|exact G]].
    + destruct (wf_link _ W _ _ H) as [A [B C]]. split; [exact A|split; [|exact C]].
      sdg; seq; [congruence | exact B].
  - lk. sd; seq. { inversion H; subst; exact Hs. } eapply wf_disj; eauto.
  - lk. sd; seq. { congruence. } eapply wf_static_tpl; eauto.
  - lk. sd; seq. { split; discriminate. } apply wf_t2l_dom; auto.
  - lk. sdh; seq.
    + inversion H; subst. cbn. split.
      * intros [<-|[]]. exists p. rewrite str_eqb_refl. auto.
      * intros [q [Hq Ht]]. sdh; seq; [auto|].
        destruct (wf_link _ W _ _ Hq) as [_ [B _]]. rewrite Ht in B. congruence.
    + rewrite (wf_t2l _ W _ _ l H). split; intros [q [Hq Ht]].
      * exists q. sdg; seq; [congruence | auto].
      * sdh; seq; [inversion Hq; subst; unfold t in *; seq | eauto].
Qed.

Lemma good_static_of t : t_is_static t = true -> good_policy (static_of t).
Proof. intros H. split; cbn; [apply check_binding_static; exact H | exact H]. Qed.

Lemma ps_add_static_WF s t s' :
  WF s -> t_is_static t = true -> ps_add_static s t = OOk s' -> WF s'.
Proof.
  intros W St H. unfold ps_add_static in H.
  destruct (amem (tid t) (ps_templates s)) eqn:ET; [discriminate|].
  destruct (amem (tid t) (ps_links s)) eqn:EL; [discriminate|].
  inversion H; subst; clear H. apply amem_false in ET, EL.
  exact (add_fresh_WF s (static_of t) W eq_refl (good_static_of t St) ET EL).
Qed.

(* PolicySet::add of a static policy *)
Lemma ps_add_WF s p s' :
  WF s -> plink p = None -> good_policy p -> ps_add s p = OOk s' -> WF s'.
Proof.
  intros W Hs G H. unfold ps_add in H. rewrite (static_pid _ Hs) in H.
  destruct (alookup (tid (ptemplate p)) (ps_templates s)) as [t'|] eqn:ET.
  - exfalso. destruct (template_eqb t' (ptemplate p)) eqn:EQ; cbn in H; [|discriminate].
    destruct (amem (tid (ptemplate p)) (ps_links s)) eqn:EL; [discriminate|]. apply amem_false in EL.
    apply template_eqb_static in EQ. destruct G as [_ G]. unfold p_is_static in G. rewrite Hs in G.
    rewrite G in EQ. exact (wf_static_tpl _ W _ _ ET EQ EL).
  - destruct (amem (tid (ptemplate p)) (ps_links s)) eqn:EL; [discriminate|]. apply amem_false in EL.
    inversion H; subst; clear H. exact (add_fresh_WF s p W Hs G ET EL).
Qed.

(* ------------------------------------------------------------------ add_template *)
Lemma ps_add_template_WF s t s' :
  WF s -> t_is_static t = false -> ps_add_template s t = OOk s' -> WF s'.
Proof.
  intros W St H. unfold ps_add_template in H.
  destruct (amem (tid t) (ps_links s)) eqn:EL; [discriminate|].
  destruct (amem (tid t) (ps_templates s)) eqn:ET; [discriminate|].
  inversion H; subst; clear H. apply amem_false in ET, EL.
  constructor; cbn [ps_templates ps_links ps_t2l]; intros.
  - lk. sdh; seq. { inversion H; subst; reflexivity. } eapply wf_tid; eauto.
  - destruct (wf_link _ W _ _ H) as [A [B C]]. split; [exact A|split; [|exact C]].
    lk. sdg; seq; [congruence | exact B].
  - lk. sdh; seq. { congruence. } eapply wf_disj; eauto.
  - lk. sdh; seq. { inversion H; subst; congruence. } eapply wf_static_tpl; eauto.
  - lk. sdg; seq. { split; discriminate. } apply (wf_t2l_dom _ W).
  - lk. sdh; seq.
    + inversion H; subst ids. cbn. split; [tauto|]. intros [p [Hp Ht]].
      destruct (wf_link _ W _ _ Hp) as [_ [B _]]. rewrite Ht in B. congruence.
    + apply (wf_t2l _ W); auto.
Qed.

(* ------------------------------------------------------------------ link *)
Lemma ps_link_WF s tmpl new env s' :
  WF s -> ps_link s tmpl new env = OOk s' -> WF s'.
Proof.
  intros W H. unfold ps_link in H.
  destruct (alookup tmpl (ps_templates s)) as [t|] eqn:ET; [|discriminate].
  assert (Hns : forall t0, Some t = Some t0 -> t_is_static t0 = false).
  { intros t0 E0. inversion E0; subst t0. destruct (t_is_static t) eqn:St; [|reflexivity]. exfalso.
    pose proof (wf_static_tpl _ W _ _ ET St) as HL. apply amem_true in HL. rewrite HL in H. discriminate H. }
  destruct (t_is_static t && amem tmpl (ps_links s)); [discriminate|].
  destruct (check_binding t env) eqn:EB; cbn in H; [|discriminate].
  destruct (amem new (ps_links s)) eqn:EL; [discriminate|].
  destruct (amem new (ps_templates s)) eqn:EN; [discriminate|].
  inversion H; subst; clear H. apply amem_false in EL, EN.
  pose proof (Hns _ eq_refl) as St. pose proof (wf_tid _ W _ _ ET) as Ht. subst tmpl.
  constructor; cbn [ps_templates ps_links ps_t2l]; intros.
  - eapply wf_tid; eauto.
  - rewrite alookup_ainsert in H. sdh; seq.
    + inversion H; subst p. cbn. split; [reflexivity|]. split; [exact ET|].
      split; cbn; [exact EB | exact St].
    + apply wf_link; auto.
  - rewrite alookup_ainsert in H. sdh; seq. { congruence. } eapply wf_disj; eauto.
  - rewrite alookup_ainsert. sdg; seq. { discriminate. } eapply wf_static_tpl; eauto.
  - rewrite alookup_ainsert. sdg; seq. { split; intro; congruence. } apply (wf_t2l_dom _ W).
  - rewrite alookup_ainsert in H. sdh; seq.
    + inversion H; subst ids. rewrite sinsert_spec.
      destruct (alookup (tid t) (ps_t2l s)) as [l0|] eqn:EM.
      * rewrite (wf_t2l _ W _ _ l EM). split.
        -- intros [->|[p [Hp Hpt]]].
           ++ eexists. rewrite alookup_ainsert, str_eqb_refl. split; reflexivity.
           ++ exists p. rewrite alookup_ainsert. sdg; seq; [congruence|auto].
        -- intros [p [Hp Hpt]]. rewrite alookup_ainsert in Hp. sdh; seq; [left; reflexivity|right; eauto].
      * apply wf_t2l_dom in EM; [congruence|exact W].
    + rewrite (wf_t2l _ W _ _ l H). split; intros [p [Hp Hpt]].
      * exists p. rewrite alookup_ainsert. sdg; seq; [congruence|auto].
      * rewrite alookup_ainsert in Hp. sdh; seq.
        -- inversion Hp; subst p; cbn in *; try subst; seq.
        -- eauto.
Qed.

(* ------------------------------------------------------------------ unlink *)
Lemma ps_unlink_WF s i s' p :
  WF s -> ps_unlink s i = OOk (s', p) -> WF s'.
Proof.
  intros W H. unfold ps_unlink in H.
  destruct (amem i (ps_templates s)) eqn:ET; [discriminate|].
  destruct (alookup i (ps_links s)) as [p0|] eqn:EL; [|discriminate].
  destruct (alookup (tid (ptemplate p0)) (ps_t2l s)) as [l0|] eqn:EM; [|discriminate].
  inversion H; subst; clear H. apply amem_false in ET.
  constructor; cbn [ps_templates ps_links ps_t2l]; intros.
  - eapply wf_tid; eauto.
  - rewrite alookup_aremove in H. sdh; [discriminate|]. apply wf_link; auto.
  - rewrite alookup_aremove in H. sdh; [discriminate|]. eapply wf_disj; eauto.
  - rewrite alookup_aremove. sdg; seq. { congruence. } eapply wf_static_tpl; eauto.
  - rewrite alookup_ainsert. sdg; seq.
    + split; [discriminate|]. intros HT. destruct (wf_link _ W _ _ EL) as [_ [B _]]. congruence.
    + apply (wf_t2l_dom _ W).
  - rewrite alookup_ainsert in H. sdh; seq.
    + inversion H; subst ids. rewrite sremove_spec, (wf_t2l _ W _ _ l EM). split.
      * intros [Hne [q [Hq Hqt]]]. exists q. rewrite alookup_aremove, (str_eqb_neq _ _ Hne). auto.
      * intros [q [Hq Hqt]]. rewrite alookup_aremove in Hq. sdh; [discriminate|].
        split; [intros ->; seq | eauto].
    + rewrite (wf_t2l _ W _ _ l H). split; intros [q [Hq Hqt]].
      * exists q. rewrite alookup_aremove. sdg; seq; [|auto].
        assert (q = p) by congruence. subst q. try subst. seq.
      * rewrite alookup_aremove in Hq. sdh; [discriminate|eauto].
Qed.

(* ------------------------------------------------------------------ remove_static *)
Lemma ps_remove_static_WF s i s' p :
  WF s -> ps_remove_static s i = OOk (s', p) -> WF s'.
Proof.
  intros W H. unfold ps_remove_static in H.
  destruct (alookup i (ps_links s)) as [p0|] eqn:EL; [|discriminate].
  destruct (amem i (ps_templates s)) eqn:ET; [|discriminate].
  inversion H; subst; clear H. apply amem_true in ET.
  pose proof (wf_disj _ W _ _ EL ET) as Hs.
  destruct (wf_link _ W _ _ EL) as [Hpid _]. rewrite (static_pid _ Hs) in Hpid. subst i.
  constructor; cbn [ps_templates ps_links ps_t2l]; intros.
  - rewrite alookup_aremove in H. sdh; [discriminate|]. eapply wf_tid; eauto.
  - rewrite alookup_aremove in H. sdh; [discriminate|].
    destruct (wf_link _ W _ _ H) as [A [B C]]. split; [exact A|split; [|exact C]].
    rewrite alookup_aremove. sdg; seq; [|exact B]. exfalso.
    match goal with E : tid (ptemplate ?q) = tid (ptemplate p) |- _ =>
      pose proof (WF_static_unique _ _ _ _ _ W EL Hs H E) as X end.
    rewrite X in *. seq.
  - rewrite alookup_aremove in H; rewrite alookup_aremove in H0. sdh; [discriminate|]. eapply wf_disj; eauto.
  - rewrite alookup_aremove in H; rewrite alookup_aremove. sdh; [discriminate|]. eapply wf_static_tpl; eauto.
  - rewrite alookup_aremove; rewrite alookup_aremove. sdg; [tauto|apply (wf_t2l_dom _ W)].
  - rewrite alookup_aremove in H. sdh; [discriminate|].
    rewrite (wf_t2l _ W _ _ l H). split; intros [q [Hq Hqt]].
    + exists q. rewrite alookup_aremove. sdg; seq; [|auto].
      assert (q = p) by congruence. subst q. try subst. seq.
    + rewrite alookup_aremove in Hq. sdh; [discriminate|eauto].
Qed.

(* ------------------------------------------------------------------ remove_template *)
Lemma ps_remove_template_WF s i s' :
  WF s -> ps_remove_template s i = OOk s' -> WF s'.
Proof.
  intros W H. unfold ps_remove_template in H.
  destruct (amem i (ps_links s)) eqn:EL; [discriminate|].
  destruct (alookup i (ps_t2l s)) as [[|]|] eqn:EM; try discriminate.
  destruct (amem i (ps_templates s)) eqn:ET; [|discriminate].
  inversion H; subst; clear H. apply amem_false in EL.
  constructor; cbn [ps_templates ps_links ps_t2l]; intros.
  - rewrite alookup_aremove in H. sdh; [discriminate|]. eapply wf_tid; eauto.
  - destruct (wf_link _ W _ _ H) as [A [B C]]. split; [exact A|split; [|exact C]].
    rewrite alookup_aremove. sdg; seq; [|exact B]. exfalso.
    match goal with Hq : alookup ?k (ps_links s) = Some p |- _ =>
      apply (proj2 (wf_t2l _ W _ _ k EM)); exists p; split; [exact Hq | first [reflexivity|assumption]] end.
  - rewrite alookup_aremove in H0. sdh; [congruence|]. eapply wf_disj; eauto.
  - rewrite alookup_aremove in H. sdh; [discriminate|]. eapply wf_static_tpl; eauto.
  - rewrite alookup_aremove; rewrite alookup_aremove. sdg; [tauto|apply (wf_t2l_dom _ W)].
  - rewrite alookup_aremove in H. sdh; [discriminate|]. apply (wf_t2l _ W); auto.
Qed.

(* ================================================================== API level *)
Record WFapi (a : apiset) : Prop := mkWFapi {
  wa_ast : WF (a_ast a);
  (* `policies` is exactly the core set's `links` *)
  wa_pol : forall i, alookup i (a_policies a) = alookup i (ps_links (a_ast a));
  (* `templates` is exactly the core set's templates that have slots *)
  wa_tpl : forall i, alookup i (a_templates a) =
      match alookup i (ps_templates (a_ast a)) with
      | Some t => if t_is_static t then None else Some t
      | None => None
      end
}.

Lemma WFapi_empty : WFapi empty_api.
Proof. constructor; [exact WF_empty | reflexivity | reflexivity]. Qed.

Lemma p_static_link p : p_is_static p = true -> plink p = None.
Proof. unfold p_is_static. destruct (plink p); [discriminate|reflexivity]. Qed.

Lemma api_add_WF a p a' :
  WFapi a -> good_policy p -> api_add a p = OOk a' -> WFapi a'.
Proof.
  intros [W P T] G H. unfold api_add in H.
  destruct (p_is_static p) eqn:Ps; [|discriminate]. apply p_static_link in Ps.
  destruct (ps_add (a_ast a) p) as [s'|] eqn:E; [|discriminate]. inversion H; subst; clear H.
  pose proof (ps_add_WF _ _ _ W Ps G E) as W'.
  unfold ps_add in E. rewrite (static_pid _ Ps) in *.
  destruct (alookup (tid (ptemplate p)) (ps_templates (a_ast a))) as [t'|] eqn:ET.
  - exfalso. destruct (template_eqb t' (ptemplate p)) eqn:EQ; cbn in E; [|discriminate].
    destruct (amem (tid (ptemplate p)) (ps_links (a_ast a))) eqn:EL; [discriminate|]. apply amem_false in EL.
    apply template_eqb_static in EQ. destruct G as [_ G]. unfold p_is_static in G. rewrite Ps in G.
    rewrite G in EQ. exact (wf_static_tpl _ W _ _ ET EQ EL).
  - destruct (amem (tid (ptemplate p)) (ps_links (a_ast a))) eqn:EL; [discriminate|].
    inversion E; subst s'; clear E.
    constructor; cbn [a_ast a_policies a_templates ps_links ps_templates]; [exact W'| |]; intros i.
    + rewrite !alookup_ainsert, P. reflexivity.
    + rewrite alookup_ainsert, T. sdg; seq; [|reflexivity].
      rewrite ET. destruct G as [_ G]. unfold p_is_static in G. rewrite Ps in G. rewrite G. reflexivity.
Qed.

Lemma api_add_template_WF a t a' :
  WFapi a -> t_is_static t = false -> api_add_template a t = OOk a' -> WFapi a'.
Proof.
  intros [W P T] St H. unfold api_add_template in H.
  destruct (ps_add_template (a_ast a) t) as [s'|] eqn:E; [|discriminate]. inversion H; subst; clear H.
  pose proof (ps_add_template_WF _ _ _ W St E) as W'.
  unfold ps_add_template in E.
  destruct (amem (tid t) (ps_links (a_ast a))); [discriminate|].
  destruct (amem (tid t) (ps_templates (a_ast a))); [discriminate|].
  inversion E; subst s'; clear E.
  constructor; cbn [a_ast a_policies a_templates ps_links ps_templates]; [exact W'| |]; intros i.
  - apply P.
  - rewrite !alookup_ainsert, T. sdg; [rewrite St|]; reflexivity.
Qed.

Lemma api_link_WF a tmpl new env a' :
  WFapi a -> api_link a tmpl new env = OOk a' -> WFapi a'.
Proof.
  intros [W P T] H. unfold api_link in H.
  destruct (alookup tmpl (a_templates a)) as [t0|] eqn:EA; [|destruct (amem tmpl (a_policies a)); discriminate].
  destruct (ps_link (a_ast a) tmpl new env) as [s'|] eqn:E; [|discriminate].
  pose proof (ps_link_WF _ _ _ _ _ W E) as W'.
  unfold ps_link in E.
  destruct (alookup tmpl (ps_templates (a_ast a))) as [t|] eqn:ET; [|discriminate].
  destruct (t_is_static t && amem tmpl (ps_links (a_ast a))); [discriminate|].
  destruct (check_binding t env); cbn in E; [|discriminate].
  destruct (amem new (ps_links (a_ast a))); [discriminate|].
  destruct (amem new (ps_templates (a_ast a))); [discriminate|].
  inversion E; subst s'; clear E. cbn [ps_links] in H. rewrite alookup_ainsert, str_eqb_refl in H.
  inversion H; subst a'; clear H.
  constructor; cbn [a_ast a_policies a_templates ps_links ps_templates]; [exact W'| |]; intros i.
  - rewrite !alookup_ainsert, P. reflexivity.
  - apply T.
Qed.

Lemma api_unlink_WF a i a' p :
  WFapi a -> api_unlink a i = OOk (a', p) -> WFapi a' /\ good_policy p.
Proof.
  intros [W P T] H. unfold api_unlink in H.
  destruct (alookup i (a_policies a)) as [p0|] eqn:EP; [|discriminate].
  destruct (ps_unlink (a_ast a) i) as [[s' q]|e] eqn:E; [|destruct e; discriminate].
  inversion H; subst; clear H.
  pose proof (ps_unlink_WF _ _ _ _ W E) as W'.
  rewrite P in EP. destruct (wf_link _ W _ _ EP) as [_ [_ G]]. split; [|exact G].
  unfold ps_unlink in E.
  destruct (amem i (ps_templates (a_ast a))); [discriminate|]. rewrite EP in E.
  destruct (alookup (tid (ptemplate p)) (ps_t2l (a_ast a))); [|discriminate].
  inversion E; subst s' q; clear E.
  constructor; cbn [a_ast a_policies a_templates ps_links ps_templates]; [exact W'| |]; intros j.
  - rewrite !alookup_aremove, P. reflexivity.
  - apply T.
Qed.

Lemma api_remove_static_WF a i a' p :
  WFapi a -> api_remove_static a i = OOk (a', p) -> WFapi a' /\ good_policy p.
Proof.
  intros [W P T] H. unfold api_remove_static in H.
  destruct (alookup i (a_policies a)) as [p0|] eqn:EP; [|discriminate].
  destruct (ps_remove_static (a_ast a) i) as [[s' q]|e] eqn:E; [|discriminate].
  inversion H; subst; clear H.
  pose proof (ps_remove_static_WF _ _ _ _ W E) as W'.
  rewrite P in EP. destruct (wf_link _ W _ _ EP) as [Hpid [HT G]]. split; [|exact G].
  unfold ps_remove_static in E. rewrite EP in E.
  destruct (amem i (ps_templates (a_ast a))) eqn:ET; [|discriminate]. apply amem_true in ET.
  inversion E; subst s' q; clear E.
  pose proof (wf_disj _ W _ _ EP ET) as Hs. rewrite (static_pid _ Hs) in Hpid.
  constructor; cbn [a_ast a_policies a_templates ps_links ps_templates]; [exact W'| |]; intros j.
  - rewrite !alookup_aremove, P. reflexivity.
  - rewrite alookup_aremove, T. sdg; seq; [|reflexivity].
    rewrite HT. destruct G as [_ G]. unfold p_is_static in G. rewrite Hs in G. rewrite G. reflexivity.
Qed.

Lemma api_remove_template_WF a i a' :
  WFapi a -> api_remove_template a i = OOk a' -> WFapi a'.
Proof.
  intros [W P T] H. unfold api_remove_template in H.
  destruct (alookup i (a_templates a)) as [t0|] eqn:EA; [|discriminate].
  destruct (ps_remove_template (a_ast a) i) as [s'|e] eqn:E; [|destruct e; discriminate].
  inversion H; subst; clear H.
  pose proof (ps_remove_template_WF _ _ _ W E) as W'.
  unfold ps_remove_template in E.
  destruct (amem i (ps_links (a_ast a))); [discriminate|].
  destruct (alookup i (ps_t2l (a_ast a))) as [[|]|]; try discriminate.
  destruct (amem i (ps_templates (a_ast a))); [|discriminate].
  inversion E; subst s'; clear E.
  constructor; cbn [a_ast a_policies a_templates ps_links ps_templates]; [exact W'| |]; intros j.
  - apply P.
  - rewrite !alookup_aremove, T. sdg; reflexivity.
Qed.

(* ------------------------------------------------------------------ steps and histories *)
Definition Hinv (h : hstate) : Prop := WFapi (h_api h) /\ Forall good_policy (h_stash h).

Definition no_merge (o : op) : Prop :=
  match o with OpMergeApi _ _ | OpMergeAst _ _ => False | _ => True end.

Lemma Hinv_empty : Hinv empty_h.
Proof. split; [exact WFapi_empty | constructor]. Qed.

Lemma nth_good k (l : list policy) p0 : Forall good_policy l -> In p0 l -> good_policy (nth k l p0).
Proof.
  intros F Hin. rewrite Forall_forall in F. destruct (Nat.lt_ge_cases k (length l)) as [Hlt|Hge].
  - apply F, nth_In, Hlt.
  - rewrite nth_overflow by exact Hge. apply F, Hin.
Qed.

Lemma api_step_Hinv h o h' r :
  Hinv h -> no_merge o -> api_step h o = (h', r) -> Hinv h'.
Proof.
  intros [WA FS] NM H. destruct o; cbn [api_step] in H; try contradiction.
  - (* add *) destruct (t_is_static t) eqn:St; [|inversion H; subst; split; assumption].
    destruct (api_add (h_api h) (static_of t)) eqn:E; inversion H; subst; [|split; assumption].
    split; [|exact FS]. eapply api_add_WF; eauto using good_static_of.
  - destruct (t_is_static t) eqn:St; [|inversion H; subst; split; assumption].
    destruct (api_add (h_api h) (static_of t)) eqn:E; inversion H; subst; [|split; assumption].
    split; [|exact FS]. eapply api_add_WF; eauto using good_static_of.
  - (* add_template *) destruct (t_is_static t) eqn:St; [inversion H; subst; split; assumption|].
    destruct (api_add_template (h_api h) t) eqn:E; inversion H; subst; [|split; assumption].
    split; [|exact FS]. eapply api_add_template_WF; eauto.
  - (* link *) destruct (api_link (h_api h) tmpl new env) eqn:E; inversion H; subst; [|split; assumption].
    split; [|exact FS]. eapply api_link_WF; eauto.
  - (* unlink *) destruct (api_unlink (h_api h) i) as [[a p]|] eqn:E; inversion H; subst; [|split; assumption].
    destruct (api_unlink_WF _ _ _ _ WA E) as [WA' G]. split; [exact WA'|].
    cbn. apply Forall_app. split; [exact FS|constructor; [exact G|constructor]].
  - (* remove_static *)
    destruct (api_remove_static (h_api h) i) as [[a p]|] eqn:E; inversion H; subst; [|split; assumption].
    destruct (api_remove_static_WF _ _ _ _ WA E) as [WA' G]. split; [exact WA'|].
    cbn. apply Forall_app. split; [exact FS|constructor; [exact G|constructor]].
  - (* remove_template *)
    destruct (api_remove_template (h_api h) i) eqn:E; inversion H; subst; [|split; assumption].
    split; [|exact FS]. eapply api_remove_template_WF; eauto.
  - (* add_stashed *)
    destruct (h_stash h) as [|p0 st] eqn:ES; [inversion H; subst; split; [assumption|rewrite ES; constructor]|].
    rewrite <- ES in *.
    destruct (api_add (h_api h) _) eqn:E in H; inversion H; subst; [|split; assumption].
    split; [|exact FS]. eapply api_add_WF; [exact WA| |exact E].
    apply nth_good; [exact FS|rewrite ES; left; reflexivity].
Qed.

Lemma api_history_Hinv ops : forall h,
  Hinv h -> Forall no_merge ops -> Hinv (run_ops api_step ops h).
Proof.
  unfold run_ops. induction ops as [|o ops IH]; intros h HI F; cbn; [exact HI|].
  inversion F; subst. apply IH; [|assumption].
  destruct (api_step h o) as [h' r] eqn:E. cbn. eapply api_step_Hinv; eauto.
Qed.

(* ================================================================== core level *)
Definition CoreInv (h : hstate) : Prop := WF (a_ast (h_api h)) /\ Forall good_policy (h_stash h).

(* the operations on which ast::PolicySet keeps the invariant: no slot-less template is added as a
   template, no template-linked policy object is re-added through `add`, no merge (not proved).
   Since 3c064e2 `link` needs no precondition: it refuses the body of a static policy itself. *)
Definition core_ok (h : hstate) (o : op) : Prop :=
  match o with
  | OpAddTemplate t => t_is_static t = false
  | OpAddStashed _ => forall p, In p (h_stash h) -> plink p = None
  | OpMergeApi _ _ | OpMergeAst _ _ => False
  | _ => True
  end.

Lemma ast_step_CoreInv h o h' r :
  CoreInv h -> core_ok h o -> ast_step h o = (h', r) -> CoreInv h'.
Proof.
  intros [W FS] OK H. destruct o; cbn [ast_step] in H; cbn [core_ok] in OK; try contradiction.
  - destruct (t_is_static t) eqn:St; [|inversion H; subst; split; assumption].
    destruct (ps_add_static _ t) eqn:E; inversion H; subst; [|split; assumption].
    split; [|exact FS]. cbn. eapply ps_add_static_WF; eauto.
  - destruct (t_is_static t) eqn:St; [|inversion H; subst; split; assumption].
    destruct (ps_add _ (static_of t)) eqn:E; inversion H; subst; [|split; assumption].
    split; [|exact FS]. cbn. exact (ps_add_WF _ (static_of t) _ W eq_refl (good_static_of t St) E).
  - destruct (ps_add_template _ t) eqn:E; inversion H; subst; [|split; assumption].
    split; [|exact FS]. cbn. eapply ps_add_template_WF; eauto.
  - destruct (ps_link _ tmpl new env) eqn:E; inversion H; subst; [|split; assumption].
    split; [|exact FS]. cbn. eapply ps_link_WF; eauto.
  - destruct (ps_unlink _ i) as [[a p]|] eqn:E; inversion H; subst; [|split; assumption].
    split; [cbn; eapply ps_unlink_WF; eauto|].
    cbn. apply Forall_app. split; [exact FS|constructor; [|constructor]].
    unfold ps_unlink in E. destruct (amem i _); [discriminate|].
    destruct (alookup i (ps_links _)) as [p0|] eqn:EL; [|discriminate].
    destruct (alookup (tid (ptemplate p0)) _); [|discriminate]. inversion E; subst.
    exact (proj2 (proj2 (wf_link _ W _ _ EL))).
  - destruct (ps_remove_static _ i) as [[a p]|] eqn:E; inversion H; subst; [|split; assumption].
    split; [cbn; eapply ps_remove_static_WF; eauto|].
    cbn. apply Forall_app. split; [exact FS|constructor; [|constructor]].
    unfold ps_remove_static in E. destruct (alookup i (ps_links _)) as [p0|] eqn:EL; [|discriminate].
    destruct (amem i _); [|discriminate]. inversion E; subst.
    exact (proj2 (proj2 (wf_link _ W _ _ EL))).
  - destruct (ps_remove_template _ i) eqn:E; inversion H; subst; [|split; assumption].
    split; [|exact FS]. cbn. eapply ps_remove_template_WF; eauto.
  - destruct (h_stash h) as [|p0 st] eqn:ES; [inversion H; subst; split; [assumption|rewrite ES; constructor]|].
    rewrite <- ES in *.
    destruct (ps_add _ _) eqn:E in H; inversion H; subst; [|split; assumption].
    split; [|exact FS]. cbn.
    assert (Hin : In p0 (h_stash h)) by (rewrite ES; left; reflexivity).
    eapply ps_add_WF; [exact W| | |exact E].
    + apply OK. destruct (Nat.lt_ge_cases (Nat.modulo k (length (h_stash h))) (length (h_stash h))) as [Hlt|Hge].
      * apply nth_In, Hlt.
      * rewrite nth_overflow by exact Hge. exact Hin.
    + apply nth_good; assumption.
Qed.

(* without the precondition the faithful model (and ast::PolicySet) loses the invariant:
   add_template t; link t -> x; unlink x; add_template x; add(the unlinked policy object x)
   makes x both a template and a template-linked policy (`add` checks `links` only) *)
Definition wit_u : uid := mkUid [[85%N]] [97%N].
Definition wit_t (i : str) : template := mkTemplate i [] Permit (CEq RefSlot) AAny CAny None.
Definition wit_ops : list op :=
  [OpAddTemplate (wit_t [116%N]); OpLink [116%N] [120%N] [(SlotPrincipal, wit_u)]; OpUnlink [120%N];
   OpAddTemplate (wit_t [120%N]); OpAddStashed 0].
Lemma core_WF_refuted : ~ WF (a_ast (h_api (run_ops ast_step wit_ops empty_h))).
Proof.
  intros W.
  assert (E : alookup [120%N] (ps_links (a_ast (h_api (run_ops ast_step wit_ops empty_h))))
              = Some (mkPolicy (wit_t [116%N]) (Some [120%N]) [(SlotPrincipal, wit_u)])) by (vm_compute; reflexivity).
  assert (N : alookup [120%N] (ps_templates (a_ast (h_api (run_ops ast_step wit_ops empty_h)))) <> None)
    by (vm_compute; discriminate).
  pose proof (wf_disj _ W _ _ E N) as X. discriminate X.
Qed.

(* since 3c064e2 the former witness (link against the body of a static policy) is refused *)
Lemma link_static_body_refused s t new env :
  alookup (tid t) (ps_templates s) = Some t -> t_is_static t = true -> amem (tid t) (ps_links s) = true ->
  ps_link s (tid t) new env = OErr ENoSuchTemplate.
Proof. intros HT St HL. unfold ps_link. rewrite HT, St, HL. reflexivity. Qed.
