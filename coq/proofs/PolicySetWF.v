(* PolicySetWF.v — the well-formedness invariant of the policy-set model and its preservation (C08) *)
From Coq Require Import Lia.
From Cedar Require Import PolicySet ValueProofs.

(* ------------------------------------------------------------------ strings *)
Lemma str_eqb_neq a b : a <> b -> str_eqb a b = false.
Proof. intros H. destruct (str_eqb a b) eqn:E; [apply str_eqb_eq in E; contradiction | reflexivity]. Qed.
Lemma str_eqb_sym a b : str_eqb a b = str_eqb b a.
Proof.
  destruct (str_eqb a b) eqn:E.
  - apply str_eqb_eq in E. subst. symmetry. apply str_eqb_refl.
  - destruct (str_eqb b a) eqn:E2; [|reflexivity]. apply str_eqb_eq in E2. subst. rewrite str_eqb_refl in E. discriminate.
Qed.

(* ------------------------------------------------------------------ association maps *)
Section Maps.
  Context {V : Type}.
  Implicit Types m : list (str * V).

  Lemma alookup_app k m m' :
    alookup k (m ++ m') = match alookup k m with Some v => Some v | None => alookup k m' end.
  Proof. induction m as [|[k' v] m IH]; cbn; [reflexivity|]. destruct (str_eqb k k'); auto. Qed.

  Lemma alookup_aremove k k' m :
    alookup k' (aremove k m) = if str_eqb k' k then None else alookup k' m.
  Proof.
    unfold aremove. induction m as [|[k0 v] m IH]; cbn.
    - destruct (str_eqb k' k); reflexivity.
    - destruct (str_eqb k k0) eqn:E; cbn.
      + apply str_eqb_eq in E. subst k0. rewrite IH. destruct (str_eqb k' k); reflexivity.
      + rewrite IH. destruct (str_eqb k' k) eqn:E2; [|reflexivity].
        apply str_eqb_eq in E2. subst k'. rewrite E. reflexivity.
  Qed.

  Lemma alookup_ainsert k k' v m :
    alookup k' (ainsert k v m) = if str_eqb k' k then Some v else alookup k' m.
  Proof.
    unfold ainsert. rewrite alookup_app, alookup_aremove. cbn.
    destruct (str_eqb k' k); [reflexivity|]. destruct (alookup k' m); reflexivity.
  Qed.

  Lemma amem_true k m : amem k m = true <-> alookup k m <> None.
  Proof. unfold amem. destruct (alookup k m); split; congruence. Qed.
  Lemma amem_false k m : amem k m = false <-> alookup k m = None.
  Proof. unfold amem. destruct (alookup k m); split; congruence. Qed.
End Maps.

Lemma smem_spec k l : smem k l = true <-> In k l.
Proof.
  unfold smem. rewrite existsb_exists. split.
  - intros [x [Hin E]]. apply str_eqb_eq in E. subst. exact Hin.
  - intros H. exists k. split; [exact H | apply str_eqb_refl].
Qed.
Lemma sinsert_spec k l x : In x (sinsert k l) <-> x = k \/ In x l.
Proof.
  unfold sinsert. destruct (smem k l) eqn:E.
  - apply smem_spec in E. split; [auto | intros [->|H]; auto].
  - rewrite in_app_iff. cbn. split; [intros [H|[H|[]]]; auto | intros [H|H]; auto].
Qed.
Lemma sremove_spec k l x : In x (sremove k l) <-> x <> k /\ In x l.
Proof.
  unfold sremove. rewrite filter_In. split.
  - intros [Hin E]. split; [|exact Hin]. intros ->. rewrite str_eqb_refl in E. discriminate.
  - intros [Hne Hin]. split; [exact Hin|]. rewrite str_eqb_neq; [reflexivity | congruence].
Qed.

(* ------------------------------------------------------------------ statics *)
Lemma has_slot_eqb a b : prconstraint_eqb a b = true -> has_slot a = has_slot b.
Proof.
  destruct a as [|[]|[]|? []|], b as [|[]|[]|? []|]; cbn; try discriminate; try reflexivity;
    rewrite ?Bool.andb_false_r; try discriminate; reflexivity.
Qed.
Lemma template_eqb_static a b : template_eqb a b = true -> t_is_static a = t_is_static b.
Proof.
  unfold template_eqb. rewrite !Bool.andb_true_iff. intros [[[[[[_ _] _] Hp] _] Hr] _].
  unfold t_is_static, tslots. rewrite (has_slot_eqb _ _ Hp), (has_slot_eqb _ _ Hr). reflexivity.
Qed.
Lemma static_slots t : t_is_static t = true -> tslots t = [].
Proof. unfold t_is_static. destruct (tslots t); [reflexivity | discriminate]. Qed.
Lemma check_binding_static t : t_is_static t = true -> check_binding t [] = true.
Proof. intros H. unfold check_binding. rewrite (static_slots _ H). reflexivity. Qed.

(* ------------------------------------------------------------------ the invariant *)
Definition good_policy (p : policy) : Prop :=
  check_binding (ptemplate p) (penv p) = true /\ t_is_static (ptemplate p) = p_is_static p.

Record WF (s : pset) : Prop := mkWF {
  (* templates are stored under their own id *)
  wf_tid : forall i t, alookup i (ps_templates s) = Some t -> tid t = i;
  (* every link is stored under its id, its template is in `templates` (no link without its template),
     it binds exactly the template's slots, and it is static iff its template is slot-less *)
  wf_link : forall i p, alookup i (ps_links s) = Some p ->
      pid p = i /\ alookup (tid (ptemplate p)) (ps_templates s) = Some (ptemplate p) /\ good_policy p;
  (* no id is both a template and a template-linked policy *)
  wf_disj : forall i p, alookup i (ps_links s) = Some p -> alookup i (ps_templates s) <> None -> plink p = None;
  (* a slot-less template is the body of a static policy that is present *)
  wf_static_tpl : forall i t, alookup i (ps_templates s) = Some t -> t_is_static t = true ->
      alookup i (ps_links s) <> None;
  (* template_to_links_map has exactly the keys of templates ... *)
  wf_t2l_dom : forall i, alookup i (ps_t2l s) = None <-> alookup i (ps_templates s) = None;
  (* ... and is exactly the inverse image of links under "template id of" *)
  wf_t2l : forall t ids l, alookup t (ps_t2l s) = Some ids ->
      (In l ids <-> exists p, alookup l (ps_links s) = Some p /\ tid (ptemplate p) = t)
}.

Lemma WF_empty : WF empty_pset.
Proof. constructor; cbn; intros; try discriminate; try tauto. Qed.

Ltac lk := repeat (rewrite ?alookup_ainsert, ?alookup_aremove in * ).
Ltac sdg :=
  match goal with
  | |- context [if str_eqb ?a ?b then _ else _] => destruct (str_eqb a b) eqn:?
  end.
Ltac sdh :=
  match goal with
  | H : context [if str_eqb ?a ?b then _ else _] |- _ => destruct (str_eqb a b) eqn:?
  end.
Ltac sd := first [sdh | sdg].
Ltac seq :=
  repeat match goal with
         | H : str_eqb ?a ?b = true |- _ => apply str_eqb_eq in H; subst
         | H : str_eqb ?a ?a = false |- _ => rewrite str_eqb_refl in H; discriminate H
         end.

(* derived: a static policy's id is its template's id; a slot-less template has exactly one link *)
Lemma static_pid p : plink p = None -> pid p = tid (ptemplate p).
Proof. unfold pid. intros ->. reflexivity. Qed.

Lemma WF_static_unique s i p q l :
  WF s -> alookup i (ps_links s) = Some p -> plink p = None ->
  alookup l (ps_links s) = Some q -> tid (ptemplate q) = i -> l = i.
Proof.
  intros W Hp Hs Hq Ht.
  destruct (wf_link _ W _ _ Hp) as [Pid [PT [_ PS]]].
  destruct (wf_link _ W _ _ Hq) as [Qid [QT [_ QS]]].
  rewrite (static_pid _ Hs) in Pid. rewrite Pid in PT. rewrite Ht in QT. rewrite PT in QT. inversion QT as [E].
  rewrite <- E in QS. rewrite PS in QS. unfold p_is_static in QS. rewrite Hs in QS.
  destruct (plink q) eqn:Eq; [discriminate|]. rewrite (static_pid _ Eq), Ht in Qid. congruence.
Qed.

(* ------------------------------------------------------------------ adding a static policy under a fresh id *)
Lemma add_fresh_WF s p :
  WF s -> plink p = None -> good_policy p ->
  alookup (tid (ptemplate p)) (ps_templates s) = None -> alookup (tid (ptemplate p)) (ps_links s) = None ->
  WF (mkPset (ainsert (tid (ptemplate p)) (ptemplate p) (ps_templates s))
             (ainsert (tid (ptemplate p)) p (ps_links s))
             (ainsert (tid (ptemplate p)) [tid (ptemplate p)] (ps_t2l s))).
Proof.
  intros W Hs G ET EL. set (t := ptemplate p) in *.
  constructor; cbn [ps_templates ps_links ps_t2l]; intros.
  - lk. sd; seq. { inversion H; subst; reflexivity. } eapply wf_tid; eauto.
  - lk. sd; seq.
    + inversion H; subst p0. fold t. rewrite str_eqb_refl. split; [apply static_pid; exact Hs|split; [reflexivity|exact G]].
    + destruct (wf_link _ W _ _ H) as [A [B C]]. split; [exact A|split; [|exact C]].
      sdg; seq; [congruence | exact B].
  - lk. sd; seq. { inversion H; subst; exact Hs. } eapply wf_disj; eauto.
  - lk. sd; seq. { congruence. } eapply wf_static_tpl; eauto.
  - lk. sd; seq. { split; discriminate. } apply wf_t2l_dom; auto.
  - lk. sdh; seq.
    + inversion H; subst. cbn. split.
      * intros [<-|[]]. exists p. rewrite str_eqb_refl. auto.
      * intros [q [Hq Ht]]. sdh; seq; [auto|].
        destruct (wf_link _ W _ _ Hq) as [_ [B _]]. rewrite Ht in B. congruence.
    + rewrite (wf_t2l _ W _ _ l H). split; intros [q [Hq Ht]].
      * exists q. sdg; seq; [congruence | auto].
      * sdh; seq; [inversion Hq; subst; unfold t in *; seq | eauto].
Qed.

Lemma good_static_of t : t_is_static t = true -> good_policy (static_of t).
Proof. intros H. split; cbn; [apply check_binding_static; exact H | exact H]. Qed.

Lemma ps_add_static_WF s t s' :
  WF s -> t_is_static t = true -> ps_add_static s t = OOk s' -> WF s'.
Proof.
  intros W St H. unfold ps_add_static in H.
  destruct (amem (tid t) (ps_templates s)) eqn:ET; [discriminate|].
  destruct (amem (tid t) (ps_links s)) eqn:EL; [discriminate|].
  inversion H; subst; clear H. apply amem_false in ET, EL.
  exact (add_fresh_WF s (static_of t) W eq_refl (good_static_of t St) ET EL).
Qed.

(* PolicySet::add of a static policy *)
Lemma ps_add_WF s p s' :
  WF s -> plink p = None -> good_policy p -> ps_add s p = OOk s' -> WF s'.
Proof.
  intros W Hs G H. unfold ps_add in H. rewrite (static_pid _ Hs) in H.
  destruct (alookup (tid (ptemplate p)) (ps_templates s)) as [t'|] eqn:ET.
  - exfalso. destruct (template_eqb t' (ptemplate p)) eqn:EQ; cbn in H; [|discriminate].
    destruct (amem (tid (ptemplate p)) (ps_links s)) eqn:EL; [discriminate|]. apply amem_false in EL.
    apply template_eqb_static in EQ. destruct G as [_ G]. unfold p_is_static in G. rewrite Hs in G.
    rewrite G in EQ. exact (wf_static_tpl _ W _ _ ET EQ EL).
  - destruct (amem (tid (ptemplate p)) (ps_links s)) eqn:EL; [discriminate|]. apply amem_false in EL.
    inversion H; subst; clear H. exact (add_fresh_WF s p W Hs G ET EL).
Qed.

(* ------------------------------------------------------------------ add_template *)
Lemma ps_add_template_WF s t s' :
  WF s -> t_is_static t = false -> ps_add_template s t = OOk s' -> WF s'.
Proof.
  intros W St H. unfold ps_add_template in H.
  destruct (amem (tid t) (ps_links s)) eqn:EL; [discriminate|].
  destruct (amem (tid t) (ps_templates s)) eqn:ET; [discriminate|].
  inversion H; subst; clear H. apply amem_false in ET, EL.
  constructor; cbn [ps_templates ps_links ps_t2l]; intros.
  - lk. sdh; seq. { inversion H; subst; reflexivity. } eapply wf_tid; eauto.
  - destruct (wf_link _ W _ _ H) as [A [B C]]. split; [exact A|split; [|exact C]].
    lk. sdg; seq; [congruence | exact B].
  - lk. sdh; seq. { congruence. } eapply wf_disj; eauto.
  - lk. sdh; seq. { inversion H; subst; congruence. } eapply wf_static_tpl; eauto.
  - lk. sdg; seq. { split; discriminate. } apply (wf_t2l_dom _ W).
  - lk. sdh; seq.
    + inversion H; subst ids. cbn. split; [tauto|]. intros [p [Hp Ht]].
      destruct (wf_link _ W _ _ Hp) as [_ [B _]]. rewrite Ht in B. congruence.
    + apply (wf_t2l _ W); auto.
Qed.

(* ------------------------------------------------------------------ link (to a template with slots) *)
Lemma ps_link_WF s tmpl new env s' :
  WF s -> (forall t, alookup tmpl (ps_templates s) = Some t -> t_is_static t = false) ->
  ps_link s tmpl new env = OOk s' -> WF s'.
Proof.
  intros W Hns H. unfold ps_link in H.
  destruct (alookup tmpl (ps_templates s)) as [t|] eqn:ET; [|discriminate].
  destruct (check_binding t env) eqn:EB; cbn in H; [|discriminate].
  destruct (amem new (ps_links s)) eqn:EL; [discriminate|].
  destruct (amem new (ps_templates s)) eqn:EN; [discriminate|].
  inversion H; subst; clear H. apply amem_false in EL, EN.
  pose proof (Hns _ eq_refl) as St. pose proof (wf_tid _ W _ _ ET) as Ht. subst tmpl.
  constructor; cbn [ps_templates ps_links ps_t2l]; intros.
  - eapply wf_tid; eauto.
  - rewrite alookup_ainsert in H. sdh; seq.
    + inversion H; subst p. cbn. split; [reflexivity|]. split; [exact ET|].
      split; cbn; [exact EB | exact St].
    + apply wf_link; auto.
  - rewrite alookup_ainsert in H. sdh; seq. { congruence. } eapply wf_disj; eauto.
  - rewrite alookup_ainsert. sdg; seq. { discriminate. } eapply wf_static_tpl; eauto.
  - rewrite alookup_ainsert. sdg; seq. { split; intro; congruence. } apply (wf_t2l_dom _ W).
  - rewrite alookup_ainsert in H. sdh; seq.
    + inversion H; subst ids. rewrite sinsert_spec.
      destruct (alookup (tid t) (ps_t2l s)) as [l0|] eqn:EM.
      * rewrite (wf_t2l _ W _ _ l EM). split.
        -- intros [->|[p [Hp Hpt]]].
           ++ eexists. rewrite alookup_ainsert, str_eqb_refl. split; reflexivity.
           ++ exists p. rewrite alookup_ainsert. sdg; seq; [congruence|auto].
        -- intros [p [Hp Hpt]]. rewrite alookup_ainsert in Hp. sdh; seq; [left; reflexivity|right; eauto].
      * apply wf_t2l_dom in EM; [congruence|exact W].
    + rewrite (wf_t2l _ W _ _ l H). split; intros [p [Hp Hpt]].
      * exists p. rewrite alookup_ainsert. sdg; seq; [congruence|auto].
      * rewrite alookup_ainsert in Hp. sdh; seq.
        -- inversion Hp; subst p; cbn in *; try subst; seq.
        -- eauto.
Qed.

(* ------------------------------------------------------------------ unlink *)
Lemma ps_unlink_WF s i s' p :
  WF s -> ps_unlink s i = OOk (s', p) -> WF s'.
Proof.
  intros W H. unfold ps_unlink in H.
  destruct (amem i (ps_templates s)) eqn:ET; [discriminate|].
  destruct (alookup i (ps_links s)) as [p0|] eqn:EL; [|discriminate].
  destruct (alookup (tid (ptemplate p0)) (ps_t2l s)) as [l0|] eqn:EM; [|discriminate].
  inversion H; subst; clear H. apply amem_false in ET.
  constructor; cbn [ps_templates ps_links ps_t2l]; intros.
  - eapply wf_tid; eauto.
  - rewrite alookup_aremove in H. sdh; [discriminate|]. apply wf_link; auto.
  - rewrite alookup_aremove in H. sdh; [discriminate|]. eapply wf_disj; eauto.
  - rewrite alookup_aremove. sdg; seq. { congruence. } eapply wf_static_tpl; eauto.
  - rewrite alookup_ainsert. sdg; seq.
    + split; [discriminate|]. intros HT. destruct (wf_link _ W _ _ EL) as [_ [B _]]. congruence.
    + apply (wf_t2l_dom _ W).
  - rewrite alookup_ainsert in H. sdh; seq.
    + inversion H; subst ids. rewrite sremove_spec, (wf_t2l _ W _ _ l EM). split.
      * intros [Hne [q [Hq Hqt]]]. exists q. rewrite alookup_aremove, (str_eqb_neq _ _ Hne). auto.
      * intros [q [Hq Hqt]]. rewrite alookup_aremove in Hq. sdh; [discriminate|].
        split; [intros ->; seq | eauto].
    + rewrite (wf_t2l _ W _ _ l H). split; intros [q [Hq Hqt]].
      * exists q. rewrite alookup_aremove. sdg; seq; [|auto].
        assert (q = p) by congruence. subst q. try subst. seq.
      * rewrite alookup_aremove in Hq. sdh; [discriminate|eauto].
Qed.

(* ------------------------------------------------------------------ remove_static *)
Lemma ps_remove_static_WF s i s' p :
  WF s -> ps_remove_static s i = OOk (s', p) -> WF s'.
Proof.
  intros W H. unfold ps_remove_static in H.
  destruct (alookup i (ps_links s)) as [p0|] eqn:EL; [|discriminate].
  destruct (amem i (ps_templates s)) eqn:ET; [|discriminate].
  inversion H; subst; clear H. apply amem_true in ET.
  pose proof (wf_disj _ W _ _ EL ET) as Hs.
  destruct (wf_link _ W _ _ EL) as [Hpid _]. rewrite (static_pid _ Hs) in Hpid. subst i.
  constructor; cbn [ps_templates ps_links ps_t2l]; intros.
  - rewrite alookup_aremove in H. sdh; [discriminate|]. eapply wf_tid; eauto.
  - rewrite alookup_aremove in H. sdh; [discriminate|].
    destruct (wf_link _ W _ _ H) as [A [B C]]. split; [exact A|split; [|exact C]].
    rewrite alookup_aremove. sdg; seq; [|exact B]. exfalso.
    match goal with E : tid (ptemplate ?q) = tid (ptemplate p) |- _ =>
      pose proof (WF_static_unique _ _ _ _ _ W EL Hs H E) as X end.
    rewrite X in *. seq.
  - rewrite alookup_aremove in H; rewrite alookup_aremove in H0. sdh; [discriminate|]. eapply wf_disj; eauto.
  - rewrite alookup_aremove in H; rewrite alookup_aremove. sdh; [discriminate|]. eapply wf_static_tpl; eauto.
  - rewrite alookup_aremove; rewrite alookup_aremove. sdg; [tauto|apply (wf_t2l_dom _ W)].
  - rewrite alookup_aremove in H. sdh; [discriminate|].
    rewrite (wf_t2l _ W _ _ l H). split; intros [q [Hq Hqt]].
    + exists q. rewrite alookup_aremove. sdg; seq; [|auto].
      assert (q = p) by congruence. subst q. try subst. seq.
    + rewrite alookup_aremove in Hq. sdh; [discriminate|eauto].
Qed.

(* ------------------------------------------------------------------ remove_template *)
Lemma ps_remove_template_WF s i s' :
  WF s -> ps_remove_template s i = OOk s' -> WF s'.
Proof.
  intros W H. unfold ps_remove_template in H.
  destruct (amem i (ps_links s)) eqn:EL; [discriminate|].
  destruct (alookup i (ps_t2l s)) as [[|]|] eqn:EM; try discriminate.
  destruct (amem i (ps_templates s)) eqn:ET; [|discriminate].
  inversion H; subst; clear H. apply amem_false in EL.
  constructor; cbn [ps_templates ps_links ps_t2l]; intros.
  - rewrite alookup_aremove in H. sdh; [discriminate|]. eapply wf_tid; eauto.
  - destruct (wf_link _ W _ _ H) as [A [B C]]. split; [exact A|split; [|exact C]].
    rewrite alookup_aremove. sdg; seq; [|exact B]. exfalso.
    match goal with Hq : alookup ?k (ps_links s) = Some p |- _ =>
      apply (proj2 (wf_t2l _ W _ _ k EM)); exists p; split; [exact Hq | first [reflexivity|assumption]] end.
  - rewrite alookup_aremove in H0. sdh; [congruence|]. eapply wf_disj; eauto.
  - rewrite alookup_aremove in H. sdh; [discriminate|]. eapply wf_static_tpl; eauto.
  - rewrite alookup_aremove; rewrite alookup_aremove. sdg; [tauto|apply (wf_t2l_dom _ W)].
  - rewrite alookup_aremove in H. sdh; [discriminate|]. apply (wf_t2l _ W); auto.
Qed.
