(* ExprEq.v — the shape equality `expr_eqb` of capabilities (ExprShapeOnly) decides equality of expressions;
   membership / intersection of capability sets in terms of `In`. *)
From Cedar Require Import Typecheck ValueProofs ConformProofs.

Section ExprInd.
  Variable P : expr -> Prop.
  Hypothesis HLit : forall p, P (Lit p).
  Hypothesis HVar : forall v, P (Var v).
  Hypothesis HSlot : forall s, P (Slot s).
  Hypothesis HUnknown : forall n t, P (Unknown n t).
  Hypothesis HIf : forall c x y, P c -> P x -> P y -> P (If c x y).
  Hypothesis HAnd : forall a b, P a -> P b -> P (And a b).
  Hypothesis HOr : forall a b, P a -> P b -> P (Or a b).
  Hypothesis HUn : forall o a, P a -> P (UnApp o a).
  Hypothesis HBin : forall o a b, P a -> P b -> P (BinApp o a b).
  Hypothesis HExt : forall f args, Forall P args -> P (ExtCall f args).
  Hypothesis HGet : forall x a, P x -> P (GetAttr x a).
  Hypothesis HHas : forall x a, P x -> P (HasAttr x a).
  Hypothesis HLike : forall x p, P x -> P (Like x p).
  Hypothesis HIs : forall x t, P x -> P (Is x t).
  Hypothesis HSet : forall items, Forall P items -> P (SetE items).
  Hypothesis HRec : forall items, Forall (fun kv => P (snd kv)) items -> P (RecordE items).

  Fixpoint expr_ind' (e : expr) : P e :=
    match e with
    | Lit p => HLit p
    | Var v => HVar v
    | Slot s => HSlot s
    | Unknown n t => HUnknown n t
    | If c x y => HIf c x y (expr_ind' c) (expr_ind' x) (expr_ind' y)
    | And a b => HAnd a b (expr_ind' a) (expr_ind' b)
    | Or a b => HOr a b (expr_ind' a) (expr_ind' b)
    | UnApp o a => HUn o a (expr_ind' a)
    | BinApp o a b => HBin o a b (expr_ind' a) (expr_ind' b)
    | ExtCall f args =>
        HExt f args ((fix go (l : list expr) : Forall P l :=
                        match l with [] => Forall_nil P | x :: l' => Forall_cons x (expr_ind' x) (go l') end) args)
    | GetAttr x a => HGet x a (expr_ind' x)
    | HasAttr x a => HHas x a (expr_ind' x)
    | Like x p => HLike x p (expr_ind' x)
    | Is x t => HIs x t (expr_ind' x)
    | SetE items =>
        HSet items ((fix go (l : list expr) : Forall P l :=
                       match l with [] => Forall_nil P | x :: l' => Forall_cons x (expr_ind' x) (go l') end) items)
    | RecordE items =>
        HRec items ((fix go (l : list (str * expr)) : Forall (fun kv => P (snd kv)) l :=
                       match l with
                       | [] => Forall_nil _
                       | kv :: l' => Forall_cons kv (expr_ind' (snd kv)) (go l')
                       end) items)
    end.
End ExprInd.

Lemma var_eqb_eq a b : var_eqb a b = true -> a = b.
Proof. destruct a, b; cbn; congruence. Qed.
Lemma slot_eqb_eq a b : slot_eqb a b = true -> a = b.
Proof. destruct a, b; cbn; congruence. Qed.
Lemma unop_eqb_eq a b : unop_eqb a b = true -> a = b.
Proof. destruct a, b; cbn; congruence. Qed.
Lemma binop_eqb_eq a b : binop_eqb a b = true -> a = b.
Proof. destruct a, b; cbn; congruence. Qed.
Lemma patelem_eqb_eq a b : patelem_eqb a b = true -> a = b.
Proof. destruct a, b; cbn; try congruence. intros H. apply N.eqb_eq in H. congruence. Qed.
Lemma pattern_eqb_eq a : forall b, pattern_eqb a b = true -> a = b.
Proof.
  induction a as [|x a IH]; destruct b; cbn; try congruence.
  intros H. apply andb_prop in H. destruct H as [H1 H2]. apply patelem_eqb_eq in H1. apply IH in H2. congruence.
Qed.
Lemma rtype_eqb_eq a b : rtype_eqb a b = true -> a = b.
Proof.
  destruct a, b; cbn; try congruence; intros H; apply name_eqb_eq in H; congruence.
Qed.
Lemma orty_eqb_eq a b : orty_eqb a b = true -> a = b.
Proof. destruct a, b; cbn; try congruence. intros H. apply rtype_eqb_eq in H. congruence. Qed.

Lemma expr_list_eq xs :
  Forall (fun x => forall y, expr_eqb x y = true -> x = y) xs ->
  forall ys, expr_eqb (SetE xs) (SetE ys) = true -> xs = ys.
Proof.
  intros HF. induction HF as [|x xs Hx HF IH]; destruct ys as [|y ys]; cbn; try congruence.
  intros H. apply andb_prop in H. destruct H as [H1 H2].
  apply Hx in H1. assert (H3 : expr_eqb (SetE xs) (SetE ys) = true) by exact H2.
  apply IH in H3. congruence.
Qed.

Lemma expr_rec_eq xs :
  Forall (fun kv : str * expr => forall y, expr_eqb (snd kv) y = true -> snd kv = y) xs ->
  forall ys, expr_eqb (RecordE xs) (RecordE ys) = true -> xs = ys.
Proof.
  intros HF. induction HF as [|[k x] xs Hx HF IH]; destruct ys as [|[k' y] ys]; cbn; try congruence.
  intros H. apply andb_prop in H. destruct H as [H H2]. apply andb_prop in H. destruct H as [H0 H1].
  apply str_eqb_eq in H0. cbn in Hx. apply Hx in H1.
  assert (H3 : expr_eqb (RecordE xs) (RecordE ys) = true) by exact H2.
  apply IH in H3. congruence.
Qed.

Theorem expr_eqb_eq a : forall b, expr_eqb a b = true -> a = b.
Proof.
  induction a using expr_ind'; intros b0; destruct b0; cbn [expr_eqb]; try congruence; intros Heq;
    repeat match goal with
           | E : _ && _ = true |- _ => apply andb_prop in E; destruct E
           end;
    repeat match goal with
           | E : prim_eqb _ _ = true |- _ => apply prim_eqb_eq in E
           | E : var_eqb _ _ = true |- _ => apply var_eqb_eq in E
           | E : slot_eqb _ _ = true |- _ => apply slot_eqb_eq in E
           | E : str_eqb _ _ = true |- _ => apply str_eqb_eq in E
           | E : orty_eqb _ _ = true |- _ => apply orty_eqb_eq in E
           | E : unop_eqb _ _ = true |- _ => apply unop_eqb_eq in E
           | E : binop_eqb _ _ = true |- _ => apply binop_eqb_eq in E
           | E : name_eqb _ _ = true |- _ => apply name_eqb_eq in E
           | E : pattern_eqb _ _ = true |- _ => apply pattern_eqb_eq in E
           | IH : forall b, expr_eqb ?x b = true -> ?x = b, E : expr_eqb ?x _ = true |- _ => apply IH in E
           end; try congruence.
  - match goal with
    | HF : Forall _ args, E : _ = true |- _ =>
        change (expr_eqb (SetE args) (SetE args0) = true) in E; apply (expr_list_eq _ HF) in E
    end. congruence.
  - match goal with
    | HF : Forall _ items, E : _ = true |- _ =>
        change (expr_eqb (SetE items) (SetE items0) = true) in E; apply (expr_list_eq _ HF) in E
    end. congruence.
  - match goal with
    | HF : Forall _ items, E : _ = true |- _ =>
        change (expr_eqb (RecordE items) (RecordE items0) = true) in E; apply (expr_rec_eq _ HF) in E
    end. congruence.
Qed.

Lemma cap_eqb_eq a b : cap_eqb a b = true -> a = b.
Proof.
  destruct a as [k1 o1 w1], b as [k2 o2 w2]. unfold cap_eqb. cbn [c_kind c_on c_what].
  intros H. apply andb_prop in H. destruct H as [H H3]. apply andb_prop in H. destruct H as [H1 H2].
  apply expr_eqb_eq in H2. apply expr_eqb_eq in H3. destruct k1, k2; try discriminate; congruence.
Qed.

Lemma caps_mem_In c cs : caps_mem c cs = true -> In c cs.
Proof.
  unfold caps_mem. intros H. apply existsb_exists in H. destruct H as (c' & Hin & He).
  apply cap_eqb_eq in He. subst. exact Hin.
Qed.

Lemma caps_inter_In c a b : In c (caps_inter a b) -> In c a /\ In c b.
Proof. unfold caps_inter. intros H. apply filter_In in H. destruct H as [H1 H2]. split; [exact H1|apply caps_mem_In; exact H2]. Qed.
