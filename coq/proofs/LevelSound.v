(* LevelSound.v — C16: evaluation on any store that agrees with the full store on the entities within
   n hops of the request (in particular the level-n slice) equals evaluation on the full store, for
   every typed expression the level checker accepts at level n whose type annotations are sound.

   Invariant (DESIGN C16), proved by induction over ALL constructors of typed expressions:
     P1 (check_entity_deref_target_level, access path `path`, computed level l, no error):
        (i)  l <= n  ->  eval on S = eval on es
        (ii) eval on es = Ok v  ->  every uid mentioned by the projection of v along `path`
             is within l+1 hops of the request roots
     P0 (check_expr_level, no error):  eval on S = eval on es.
   Annotation soundness (the consequence of C03 that is needed) is the explicit hypothesis `te_ok`:
   the target of every getAttr/hasAttr annotated with an entity type evaluates (if at all) to an
   entity, annotated with a record type to a record; record literals have distinct keys. *)
From Coq Require Import Lia.
From Cedar Require Import Level ValueProofs LevelProofs.

(* ---------------------------------------------------------------- small facts *)
Lemma lookup_In {V} k (l : list (str * V)) v : lookup k l = Some v -> exists k', In (k', v) l.
Proof.
  induction l as [|[k0 v0] l IH]; cbn; [discriminate|].
  destruct (str_eqb k k0).
  - intros H; inversion H; subst. exists k0. left; reflexivity.
  - intros H. destruct (IH H) as [k' Hk]. exists k'. right; assumption.
Qed.

Lemma value_uids_record r : value_uids (VRecord r) = attrs_uids r.
Proof.
  unfold attrs_uids. induction r as [|[k v] r IH]; [reflexivity|].
  cbn [flat_map snd]. rewrite <- IH. reflexivity.
Qed.

Lemma lookup_attrs_uids l a v : lookup a l = Some v -> incl (value_uids v) (attrs_uids l).
Proof.
  intros H x Hx. destruct (lookup_In _ _ _ H) as [k' Hk]. unfold attrs_uids. apply in_flat_map.
  exists (k', v). split; assumption.
Qed.

(* projection of a value along an access path (head = first attribute to project); a non-record
   value ends the projection (the checker passes the path unchanged into entity-typed targets) *)
Fixpoint proj (path : list str) (v : value) : option value :=
  match path with
  | [] => Some v
  | a :: p =>
      match v with
      | VRecord r => match lookup a r with Some v' => proj p v' | None => None end
      | _ => Some v
      end
  end.

Lemma proj_entity path u : proj path (VEntity u) = Some (VEntity u).
Proof. destruct path; reflexivity. Qed.

Lemma proj_uids path : forall v v', proj path v = Some v' -> incl (value_uids v') (value_uids v).
Proof.
  induction path as [|a p IH]; intros v v' H; cbn in H.
  - inversion H; subst. apply incl_refl.
  - destruct v as [pr|l|r|x]; try (inversion H; subst; apply incl_refl).
    destruct (lookup a r) as [v1|] eqn:E; [|discriminate].
    eapply incl_tran; [eapply IH; eassumption|]. rewrite value_uids_record. eapply lookup_attrs_uids; eassumption.
Qed.

Lemma reach_mono_le es front (k k' : nat) : (k <= k')%nat -> incl (reach es k front) (reach es k' front).
Proof.
  induction 1; [apply incl_refl|]. eapply incl_tran; [eassumption | apply reach_mono].
Qed.

Lemma has_key_In {V} k (x : V) l : In (k, x) l -> has_key k l = true.
Proof.
  unfold has_key. induction l as [|[k0 v0] l IH]; cbn; [intros []|].
  intros [H|H].
  - inversion H; subst. rewrite str_eqb_refl. reflexivity.
  - destruct (str_eqb k k0); [reflexivity | apply IH; assumption].
Qed.

Lemma nodup_lookup {V} a k (x : V) l :
  keys_nodup l = true -> In (k, x) l -> str_eqb a k = true -> lookup a l = Some x.
Proof.
  induction l as [|[k0 v0] l IH]; cbn; [intros _ []|].
  intros Hn Hin Hk. apply andb_prop in Hn as [Hn1 Hn2]. apply str_eqb_eq in Hk. subst k.
  destruct Hin as [H|H].
  - inversion H; subst. rewrite str_eqb_refl. reflexivity.
  - destruct (str_eqb a k0) eqn:E.
    + apply str_eqb_eq in E. subst k0. rewrite (has_key_In _ _ _ H) in Hn1. discriminate.
    + apply IH; [assumption | assumption | apply str_eqb_refl].
Qed.

(* equations of the evaluator (by computation) *)
Lemma eval_if sl q s c a b :
  eval sl q s (If c a b) = bind (eval sl q s c) (fun vc => bind (as_bool vc) (fun x => if x then eval sl q s a else eval sl q s b)).
Proof. reflexivity. Qed.
Lemma eval_getattr sl q s e a : eval sl q s (GetAttr e a) = bind (eval sl q s e) (fun v => get_attr s v a).
Proof. reflexivity. Qed.
Lemma eval_hasattr sl q s e a : eval sl q s (HasAttr e a) = bind (eval sl q s e) (fun v => has_attr s v a).
Proof. reflexivity. Qed.
Lemma eval_binapp sl q s op a b :
  eval sl q s (BinApp op a b) = bind (eval sl q s a) (fun va => bind (eval sl q s b) (fun vb => binary_app s op va vb)).
Proof. reflexivity. Qed.

Lemma binary_app_nonderef es1 es2 op a b : is_deref_binop op = false -> binary_app es1 op a b = binary_app es2 op a b.
Proof. destruct op; try discriminate; reflexivity. Qed.

Lemma get_attr_entity_inv es u a v :
  get_attr es (VEntity u) a = Ok v -> exists d, find_entity u es = Some d /\ lookup a (eattrs d) = Some v.
Proof.
  cbn. destruct (find_entity u es) as [d|]; [|discriminate].
  destruct (lookup a (eattrs d)) eqn:E; [|discriminate]. intros H; inversion H; subst. eauto.
Qed.

Lemma gettag_inv es va vb v :
  binary_app es BGetTag va vb = Ok v ->
  exists u d t, va = VEntity u /\ find_entity u es = Some d /\ lookup t (etags d) = Some v.
Proof.
  cbn. destruct va as [p| | |]; try discriminate. destruct p; try discriminate. cbn.
  destruct (as_string vb) as [t|]; cbn; [|discriminate].
  destruct (find_entity u es) as [d|] eqn:F; [|discriminate].
  destruct (lookup t (etags d)) eqn:L; [|discriminate]. intros H; inversion H; subst. do 3 eexists. repeat split; try reflexivity; eassumption.
Qed.

Lemma eval_var_uids q v : incl (value_uids (eval_var q v)) (request_roots q).
Proof.
  unfold request_roots. destruct v; cbn [eval_var].
  - intros x [H|[]]; subst; cbn; auto.
  - intros x [H|[]]; subst; cbn; auto.
  - intros x [H|[]]; subst; cbn; auto.
  - rewrite value_uids_record. apply incl_appr. apply incl_refl.
Qed.

(* record / set / call arguments: the evaluator's nested loops, named *)
Definition eval_rec sl q s :=
  fix eval_rec (l : list (str * expr)) : res (list (str * value)) :=
    match l with
    | [] => Ok []
    | (k, x) :: l' => do v <- eval sl q s x; do kvs <- eval_rec l'; Ok ((k, v) :: kvs)
    end.
Definition eval_list sl q s :=
  fix eval_list (l : list expr) : res (list value) :=
    match l with
    | [] => Ok []
    | x :: l' => do v <- eval sl q s x; do vs <- eval_list l'; Ok (v :: vs)
    end.
Lemma eval_recordE sl q s l : eval sl q s (RecordE l) = bind (eval_rec sl q s l) (fun kvs => Ok (VRecord kvs)).
Proof. reflexivity. Qed.
Lemma eval_setE sl q s l : eval sl q s (SetE l) = bind (eval_list sl q s l) (fun vs => Ok (VSet vs)).
Proof. reflexivity. Qed.
Lemma eval_extcall sl q s fn l : eval sl q s (ExtCall fn l) = bind (eval_list sl q s l) (fun vs => call_ext fn vs).
Proof. reflexivity. Qed.
Lemma eval_rec_cons sl q s k x l :
  eval_rec sl q s ((k, x) :: l) = bind (eval sl q s x) (fun v => bind (eval_rec sl q s l) (fun kvs => Ok ((k, v) :: kvs))).
Proof. reflexivity. Qed.
Lemma eval_list_cons sl q s x l :
  eval_list sl q s (x :: l) = bind (eval sl q s x) (fun v => bind (eval_list sl q s l) (fun vs => Ok (v :: vs))).
Proof. reflexivity. Qed.

Lemma eval_record_ext sl q s1 s2 (items : list (str * texpr)) :
  Forall (fun kv => eval sl q s1 (erase (snd kv)) = eval sl q s2 (erase (snd kv))) items ->
  eval sl q s1 (RecordE (map (fun kv => (fst kv, erase (snd kv))) items)) =
  eval sl q s2 (RecordE (map (fun kv => (fst kv, erase (snd kv))) items)).
Proof.
  intros H. rewrite !eval_recordE.
  assert (E : eval_rec sl q s1 (map (fun kv => (fst kv, erase (snd kv))) items) =
              eval_rec sl q s2 (map (fun kv => (fst kv, erase (snd kv))) items)); [|rewrite E; reflexivity].
  induction H as [|[k x] items Hx _ IH]; [reflexivity|].
  cbn [map fst snd]. cbn [snd] in Hx. rewrite !eval_rec_cons, Hx, IH. reflexivity.
Qed.

Lemma eval_list_ext sl q s1 s2 (items : list texpr) :
  Forall (fun x => eval sl q s1 (erase x) = eval sl q s2 (erase x)) items ->
  eval sl q s1 (SetE (map erase items)) = eval sl q s2 (SetE (map erase items)) /\
  forall fn, eval sl q s1 (ExtCall fn (map erase items)) = eval sl q s2 (ExtCall fn (map erase items)).
Proof.
  intros H.
  assert (E : eval_list sl q s1 (map erase items) = eval_list sl q s2 (map erase items)).
  { induction H as [|x items Hx _ IH]; [reflexivity|]. cbn [map]. rewrite !eval_list_cons, Hx, IH. reflexivity. }
  split; [|intros fn]; [rewrite !eval_setE | rewrite !eval_extcall]; rewrite E; reflexivity.
Qed.

Lemma eval_rec_lookup sl q s (items : list (str * texpr)) : forall kvs,
  eval_rec sl q s (map (fun kv => (fst kv, erase (snd kv))) items) = Ok kvs ->
  forall a va, lookup a kvs = Some va -> exists x, lookup a items = Some x /\ eval sl q s (erase x) = Ok va.
Proof.
  induction items as [|[k x] items IH]; intros kvs H.
  - cbn in H. inversion H; subst. cbn. discriminate.
  - cbn [map fst snd] in H. rewrite eval_rec_cons in H.
    destruct (eval sl q s (erase x)) as [vx|] eqn:Ex; [|cbn in H; discriminate].
    cbn [bind] in H.
    destruct (eval_rec sl q s (map (fun kv => (fst kv, erase (snd kv))) items)) as [kvs0|] eqn:Er; [|cbn in H; discriminate].
    cbn [bind] in H. inversion H; subst.
    intros a va. cbn [lookup]. destruct (str_eqb a k).
    + intros Hv; inversion Hv; subst. exists x. split; [reflexivity | assumption].
    + apply (IH kvs0 eq_refl).
Qed.

Lemma eval_record_lookup sl q s (items : list (str * texpr)) v :
  eval sl q s (RecordE (map (fun kv => (fst kv, erase (snd kv))) items)) = Ok v ->
  exists kvs, v = VRecord kvs /\
    forall a va, lookup a kvs = Some va -> exists x, lookup a items = Some x /\ eval sl q s (erase x) = Ok va.
Proof.
  rewrite eval_recordE.
  destruct (eval_rec sl q s (map (fun kv => (fst kv, erase (snd kv))) items)) as [kvs|] eqn:Er; [|cbn; discriminate].
  cbn [bind]. intros H; inversion H; subst. exists kvs. split; [reflexivity|]. eapply eval_rec_lookup; eassumption.
Qed.

Lemma concat_map_nil {A B} (f : A -> list B) l : concat (map f l) = [] -> Forall (fun x => f x = []) l.
Proof.
  induction l as [|x l IH]; cbn; intros H; constructor; apply app_eq_nil in H; [apply H | apply IH, H].
Qed.

Lemma lookup_map_snd {V W} (f : V -> W) a (items : list (str * V)) :
  lookup a (map (fun kv => (fst kv, f (snd kv))) items) = option_map f (lookup a items).
Proof.
  induction items as [|[k x] items IH]; [reflexivity|]. cbn [map fst snd lookup]. destruct (str_eqb a k); [reflexivity | exact IH].
Qed.

Lemma rec_others_nil a (f : texpr -> rec_result) items k y :
  rec_others a (map (fun kv => (fst kv, f (snd kv))) items) = [] -> In (k, y) items -> str_eqb a k = false -> fst (f y) = [].
Proof.
  induction items as [|[k0 x0] items IH]; [intros _ []|].
  cbn [map fst snd rec_others]. destruct (f x0) as [o r] eqn:E. cbn iota beta. destruct (str_eqb a k0) eqn:E0.
  - intros H [Hin|Hin] Hk; [inversion Hin; subst; congruence | apply IH; assumption].
  - intros H [Hin|Hin] Hk; apply app_eq_nil in H as [H1 H2].
    + inversion Hin; subst. rewrite E. reflexivity.
    + apply IH; assumption.
Qed.

Ltac nils := repeat match goal with H : _ ++ _ = [] |- _ => apply app_eq_nil in H; destruct H end.

Section Sound.
  Variables (sl : slotenv) (q : request) (es st : entities) (n : nat).
  Notation R k := (reach es k (request_roots q)).
  (* the store st agrees with the full store on every entity within n hops (what it holds elsewhere
     is irrelevant): true of the level-n slice and of every store between the slice and es *)
  Hypothesis Hag : forall u, In u (R n) -> find_entity u st = find_entity u es.
  Notation act := (raction q).
  Notation maxl := (N.of_nat n).
  Notation ev s e := (eval sl q s (erase e)).

  Definition node_ok (x : texpr) : Prop :=
    (is_entity_oty (ty_of x) = true -> forall v, ev es x = Ok v -> exists u, v = VEntity u) /\
    (is_record_oty (ty_of x) = true -> forall v, ev es x = Ok v -> exists r, v = VRecord r).

  Fixpoint te_ok (e : texpr) : Prop :=
    match e with
    | TELit _ _ | TEVar _ _ | TESlot _ _ | TEUnknown _ _ _ => True
    | TEIf c a b _ => te_ok c /\ te_ok a /\ te_ok b
    | TEAnd a b _ | TEOr a b _ => te_ok a /\ te_ok b
    | TEUnApp _ a _ => te_ok a
    | TEBinApp _ a b _ => te_ok a /\ te_ok b
    | TEExtCall _ args _ =>
        (fix go (l : list texpr) : Prop := match l with [] => True | x :: l' => te_ok x /\ go l' end) args
    | TEGetAttr x _ _ | TEHasAttr x _ _ => node_ok x /\ te_ok x
    | TELike x _ _ | TEIs x _ _ => te_ok x
    | TESet items _ =>
        (fix go (l : list texpr) : Prop := match l with [] => True | x :: l' => te_ok x /\ go l' end) items
    | TERecord items _ =>
        keys_nodup items = true /\
        (fix go (l : list (str * texpr)) : Prop :=
           match l with [] => True | (_, x) :: l' => te_ok x /\ go l' end) items
    end.

  Lemma te_ok_ext fn args t : te_ok (TEExtCall fn args t) -> Forall te_ok args.
  Proof. cbn [te_ok]. induction args as [|x l IH]; intros H; constructor; [apply H | apply IH, H]. Qed.
  Lemma te_ok_set items t : te_ok (TESet items t) -> Forall te_ok items.
  Proof. cbn [te_ok]. induction items as [|x l IH]; intros H; constructor; [apply H | apply IH, H]. Qed.
  Lemma te_ok_rec items t : te_ok (TERecord items t) -> keys_nodup items = true /\ Forall (fun kv => te_ok (snd kv)) items.
  Proof.
    cbn [te_ok]. intros [Hn H]. split; [assumption|]. clear Hn.
    induction items as [|[k x] l IH]; constructor; [apply H | apply IH, H].
  Qed.

  Lemma over_nil l : over maxl l = [] -> (S (N.to_nat l) <= n)%nat.
  Proof. unfold over. destruct (N.leb_spec maxl l); [discriminate | intros _; lia]. Qed.

  Lemma roots_R k : incl (request_roots q) (R (S k)).
  Proof. cbn [reach]. apply incl_appl, incl_refl. Qed.

  Definition P0 (e : texpr) : Prop :=
    te_ok e -> snd (lv act maxl None e) = [] -> ev st e = ev es e.
  Definition P1 (e : texpr) : Prop :=
    forall path, te_ok e -> snd (lv act maxl (Some path) e) = [] ->
      ((N.to_nat (fst (lv act maxl (Some path) e)) <= n)%nat -> ev st e = ev es e) /\
      (forall v v', ev es e = Ok v -> proj path v = Some v' ->
                    incl (value_uids v') (R (S (N.to_nat (fst (lv act maxl (Some path) e)))))).

  Lemma target_ok e : P1 e -> te_ok e -> snd (lv act maxl (Some []) e) = [] ->
    over maxl (fst (lv act maxl (Some []) e)) = [] ->
    ev st e = ev es e /\ forall u, ev es e = Ok (VEntity u) -> find_entity u st = find_entity u es.
  Proof.
    intros HP Hok He Ho. apply over_nil in Ho. destruct (HP [] Hok He) as [Hi Hii]. split; [apply Hi; lia|].
    intros u Hu. apply Hag. eapply reach_mono_le; [exact Ho|]. apply (Hii _ _ Hu eq_refl). left; reflexivity.
  Qed.

  Lemma sound_all : forall e, P0 e /\ P1 e.
  Proof.
    apply (texpr_ind' (fun e => P0 e /\ P1 e)).
    - (* Lit *) intros p t. split; [intros _ _; reflexivity|]. intros path _ He.
      destruct p as [b|z|s|u]; try (cbn in He; discriminate).
      cbn [lv fst snd] in He |- *. destruct (uid_eqb u act) eqn:E; [|discriminate]. apply uid_eqb_eq in E. subst u.
      split; [reflexivity|]. intros v v' Hv Hp. cbn in Hv. inversion Hv; subst.
      eapply incl_tran; [eapply proj_uids; eassumption|]. eapply incl_tran; [|apply roots_R].
      intros x [Hx|[]]; subst. unfold request_roots. cbn. auto.
    - (* Var *) intros v t. split; [intros _ _; reflexivity|]. intros path _ _. split; [reflexivity|].
      intros v0 v' Hv Hp. cbn in Hv. inversion Hv; subst.
      eapply incl_tran; [eapply proj_uids; eassumption|]. eapply incl_tran; [apply eval_var_uids | apply roots_R].
    - (* Slot *) intros s t. split; [intros _ _; reflexivity|]. intros path _ He. cbn in He. discriminate.
    - (* Unknown *) intros u rt t. split; [intros _ _; reflexivity|]. intros path _ He. cbn in He. discriminate.
    - (* If *) intros c a b t Hc Ha Hb. split.
      + intros (Oc & Oa & Ob) He. cbn [lv snd] in He. nils. cbn [erase]. rewrite !eval_if.
        rewrite (proj1 Hc Oc), (proj1 Ha Oa), (proj1 Hb Ob) by assumption. reflexivity.
      + intros path (Oc & Oa & Ob) He. cbn [lv fst snd] in He |- *. nils.
        destruct (proj2 Ha path Oa) as [Ai Aii]; [assumption|]. destruct (proj2 Hb path Ob) as [Bi Bii]; [assumption|].
        rewrite N2Nat.inj_max. split.
        * intros Hl. cbn [erase]. rewrite !eval_if. rewrite (proj1 Hc Oc), Ai, Bi by (assumption || lia). reflexivity.
        * intros v v' Hv Hp. cbn [erase] in Hv. rewrite eval_if in Hv.
          destruct (ev es c) as [vc|]; cbn [bind] in Hv; [|discriminate].
          destruct (as_bool vc) as [[]|]; cbn [bind] in Hv; [| |discriminate].
          -- eapply incl_tran; [eapply Aii; eassumption|]. apply reach_mono_le. lia.
          -- eapply incl_tran; [eapply Bii; eassumption|]. apply reach_mono_le. lia.
    - (* And *) intros a b t Ha Hb. split; [|intros path _ He; cbn in He; discriminate].
      intros (Oa & Ob) He. cbn [lv snd] in He. nils. cbn [erase eval].
      rewrite (proj1 Ha Oa), (proj1 Hb Ob) by assumption. reflexivity.
    - (* Or *) intros a b t Ha Hb. split; [|intros path _ He; cbn in He; discriminate].
      intros (Oa & Ob) He. cbn [lv snd] in He. nils. cbn [erase eval].
      rewrite (proj1 Ha Oa), (proj1 Hb Ob) by assumption. reflexivity.
    - (* UnApp *) intros op a t Ha. split; [|intros path _ He; cbn in He; discriminate].
      intros Oa He. cbn [lv snd] in He. cbn [erase eval]. rewrite (proj1 Ha Oa) by assumption. reflexivity.
    - (* BinApp *) intros op a b t Ha Hb. split.
      + intros (Oa & Ob) He. cbn [lv] in He. cbn [erase]. rewrite !eval_binapp.
        destruct (is_deref_binop op) eqn:D; cbn [snd] in He; nils.
        * destruct (target_ok a (proj2 Ha) Oa) as [Ea Fa]; [assumption|assumption|].
          rewrite Ea, (proj1 Hb Ob) by assumption.
          destruct (ev es a) as [va|]; cbn [bind]; [|reflexivity].
          destruct (ev es b) as [vb|]; cbn [bind]; [|reflexivity].
          apply binary_app_agree. intros u ->. apply Fa. reflexivity.
        * rewrite (proj1 Ha Oa), (proj1 Hb Ob) by assumption.
          destruct (ev es a) as [va|]; cbn [bind]; [|reflexivity].
          destruct (ev es b) as [vb|]; cbn [bind]; [|reflexivity].
          apply binary_app_nonderef. assumption.
      + intros path (Oa & Ob) He. destruct op; try (cbn in He; discriminate).
        cbn [lv fst snd] in He |- *. nils.
        destruct (proj2 Ha path Oa) as [Ai Aii]; [assumption|]. rewrite N2Nat.inj_succ. split.
        * intros Hl. cbn [erase]. rewrite !eval_binapp. rewrite Ai, (proj1 Hb Ob) by (assumption || lia).
          destruct (ev es a) as [va|] eqn:Eva; cbn [bind]; [|reflexivity].
          destruct (ev es b) as [vb|]; cbn [bind]; [|reflexivity].
          apply binary_app_agree. intros u ->. apply Hag.
          eapply reach_mono_le; [|refine (Aii _ _ _ (proj_entity path u) u _); [first [exact Eva | reflexivity] | left; reflexivity]]. lia.
        * intros v v' Hv Hp. cbn [erase] in Hv. rewrite eval_binapp in Hv.
          destruct (ev es a) as [va|] eqn:Eva; cbn [bind] in Hv; [|discriminate].
          destruct (ev es b) as [vb|]; cbn [bind] in Hv; [|discriminate].
          apply gettag_inv in Hv as (u & d & tg & -> & Fu & Lu).
          eapply incl_tran; [eapply proj_uids; eassumption|].
          eapply incl_tran; [eapply lookup_attrs_uids; exact Lu|].
          eapply incl_tran; [|eapply reach_hop_closed; [|exact Fu]].
          { unfold edata_uids. apply incl_appr, incl_refl. }
          refine (Aii _ _ _ (proj_entity path u) u _); [first [exact Eva | reflexivity] | left; reflexivity].
    - (* ExtCall *) intros fn args t H. split; [|intros path _ He; cbn in He; discriminate].
      intros Hok He. cbn [lv snd] in He. apply te_ok_ext in Hok. apply concat_map_nil in He.
      cbn [erase]. apply eval_list_ext. rewrite Forall_forall in *. intros x Hx.
      apply (proj1 (H x Hx)); [apply Hok | apply He]; assumption.
    - (* GetAttr *) intros e a t IHe. split.
      + intros [[Nent Nrec] Oe] He. cbn [lv] in He. cbn [erase]. rewrite !eval_getattr.
        destruct (is_entity_oty (ty_of e)) eqn:Te.
        * cbn [snd] in He. nils. destruct (target_ok e (proj2 IHe) Oe) as [Ee Fe]; [assumption|assumption|].
          rewrite Ee. destruct (ev es e) as [ve|]; cbn [bind]; [|reflexivity].
          apply get_attr_agree. intros u ->. apply Fe. reflexivity.
        * destruct (is_record_oty (ty_of e)) eqn:Tr; [|cbn in He; discriminate]. cbn [snd] in He.
          rewrite (proj1 IHe Oe He). destruct (ev es e) as [ve|] eqn:Eve; cbn [bind]; [|reflexivity].
          destruct (Nrec eq_refl _ ltac:(first [exact Eve | reflexivity])) as [r ->]. reflexivity.
      + intros path [[Nent Nrec] Oe] He. cbn [lv] in He |- *.
        destruct (is_entity_oty (ty_of e)) eqn:Te.
        * cbn [fst snd] in He |- *. destruct (proj2 IHe path Oe He) as [Ei Eii]. rewrite N2Nat.inj_succ. split.
          -- intros Hl. cbn [erase]. rewrite !eval_getattr. rewrite Ei by lia.
             destruct (ev es e) as [ve|] eqn:Eve; cbn [bind]; [|reflexivity].
             apply get_attr_agree. intros u ->. apply Hag.
             eapply reach_mono_le; [|refine (Eii _ _ _ (proj_entity path u) u _); [first [exact Eve | reflexivity] | left; reflexivity]]. lia.
          -- intros v v' Hv Hp. cbn [erase] in Hv. rewrite eval_getattr in Hv.
             destruct (ev es e) as [ve|] eqn:Eve; cbn [bind] in Hv; [|discriminate].
             destruct (Nent eq_refl _ ltac:(first [exact Eve | reflexivity])) as [u ->].
             apply get_attr_entity_inv in Hv as (d & Fu & Lu).
             eapply incl_tran; [eapply proj_uids; eassumption|].
             eapply incl_tran; [eapply lookup_attrs_uids; exact Lu|].
             eapply incl_tran; [|eapply reach_hop_closed; [|exact Fu]].
             { unfold edata_uids. apply incl_appl, incl_refl. }
             refine (Eii _ _ _ (proj_entity path u) u _); [first [exact Eve | reflexivity] | left; reflexivity].
        * destruct (is_record_oty (ty_of e)) eqn:Tr; [|cbn in He; discriminate].
          destruct (proj2 IHe (a :: path) Oe He) as [Ei Eii]. split.
          -- intros Hl. cbn [erase]. rewrite !eval_getattr. rewrite Ei by assumption.
             destruct (ev es e) as [ve|] eqn:Eve; cbn [bind]; [|reflexivity].
             destruct (Nrec eq_refl _ ltac:(first [exact Eve | reflexivity])) as [r ->]. reflexivity.
          -- intros v v' Hv Hp. cbn [erase] in Hv. rewrite eval_getattr in Hv.
             destruct (ev es e) as [ve|] eqn:Eve; cbn [bind] in Hv; [|discriminate].
             destruct (Nrec eq_refl _ ltac:(first [exact Eve | reflexivity])) as [r ->]. cbn [get_attr] in Hv.
             destruct (lookup a r) as [x|] eqn:La; [|discriminate]. inversion Hv; subst x.
             eapply Eii; [first [exact Eve | reflexivity]|]. cbn [proj]. rewrite La. exact Hp.
    - (* HasAttr *) intros e a t IHe. split; [|intros path _ He; cbn in He; discriminate].
      intros [[Nent Nrec] Oe] He. cbn [lv] in He. cbn [erase]. rewrite !eval_hasattr.
      destruct (is_entity_oty (ty_of e)) eqn:Te.
      * cbn [snd] in He. nils. destruct (target_ok e (proj2 IHe) Oe) as [Ee Fe]; [assumption|assumption|].
        rewrite Ee. destruct (ev es e) as [ve|]; cbn [bind]; [|reflexivity].
        apply has_attr_agree. intros u ->. apply Fe. reflexivity.
      * destruct (is_record_oty (ty_of e)) eqn:Tr; [|cbn in He; discriminate]. cbn [snd] in He.
        rewrite (proj1 IHe Oe He). destruct (ev es e) as [ve|] eqn:Eve; cbn [bind]; [|reflexivity].
        destruct (Nrec eq_refl _ ltac:(first [exact Eve | reflexivity])) as [r ->]. reflexivity.
    - (* Like *) intros e p t IHe. split; [|intros path _ He; cbn in He; discriminate].
      intros Oe He. cbn [lv snd] in He. cbn [erase eval]. rewrite (proj1 IHe Oe) by assumption. reflexivity.
    - (* Is *) intros e et t IHe. split; [|intros path _ He; cbn in He; discriminate].
      intros Oe He. cbn [lv snd] in He. cbn [erase eval]. rewrite (proj1 IHe Oe) by assumption. reflexivity.
    - (* Set *) intros items t H. split; [|intros path _ He; cbn in He; discriminate].
      intros Hok He. cbn [lv snd] in He. apply te_ok_set in Hok. apply concat_map_nil in He.
      cbn [erase]. apply eval_list_ext. rewrite Forall_forall in *. intros x Hx.
      apply (proj1 (H x Hx)); [apply Hok | apply He]; assumption.
    - (* Record *) intros items t H. split.
      + intros Hok He. cbn [lv snd] in He. apply te_ok_rec in Hok as [_ Hok]. apply concat_map_nil in He.
        cbn [erase]. apply eval_record_ext. rewrite Forall_forall in *. intros kv Hkv.
        apply (proj1 (H kv Hkv)); [apply Hok | apply (He kv)]; assumption.
      + intros path Hok He. apply te_ok_rec in Hok as [Hn Hok].
        destruct path as [|a p']; [cbn in He; discriminate|]. cbn [lv] in He |- *.
        unfold rec_pick in He |- *. unfold rec_result in He |- *.
        pose proof (lookup_map_snd (fun x => (snd (lv act maxl None x), lv act maxl (Some p') x)) a items) as LM.
        cbn beta in LM. rewrite LM in He |- *. clear LM.
        destruct (lookup a items) as [x|] eqn:L; cbn [option_map] in He |- *; [|cbn in He; discriminate].
        cbn [fst snd] in He |- *. apply app_eq_nil in He as [Eo Ex].
        destruct (lookup_In _ _ _ L) as [k' Hin].
        rewrite Forall_forall in H, Hok.
        destruct (proj2 (H _ Hin) p' (Hok _ Hin) Ex) as [Xi Xii]. split.
        * intros Hl. cbn [erase]. apply eval_record_ext. rewrite Forall_forall. intros [k y] Hy. cbn [snd].
          destruct (str_eqb a k) eqn:Ek.
          -- rewrite (nodup_lookup a k y items Hn Hy Ek) in L. inversion L; subst y. apply Xi. assumption.
          -- apply (proj1 (H _ Hy)); [apply (Hok _ Hy)|].
             pose proof (rec_others_nil a (fun x => (snd (lv act maxl None x), lv act maxl (Some p') x)) items k y) as RO.
             cbn beta in RO. apply (RO Eo Hy Ek).
        * intros v v' Hv Hp. cbn [erase] in Hv. apply eval_record_lookup in Hv as (kvs & -> & Hl).
          cbn [proj] in Hp. destruct (lookup a kvs) as [va|] eqn:La; [|discriminate].
          destruct (Hl _ _ La) as (x' & Lx' & Ex'). rewrite L in Lx'. inversion Lx'; subst x'.
          eapply Xii; eassumption.
  Qed.
End Sound.

(* ---------------------------------------------------------------- consequences *)
Definition agrees_within (n : nat) (q : request) (es st : entities) : Prop :=
  forall u, In u (reach es n (request_roots q)) -> find_entity u st = find_entity u es.

Lemma slice_agrees n q es : agrees_within n q es (slice_at_level n q es).
Proof.
  intros u Hu. rewrite slice_find. rewrite (proj2 (uid_mem_In u _) Hu). reflexivity.
Qed.

(* sandwich: any store that contains the slice's entities with the same data *)
Lemma between_sound sl q es st n te :
  agrees_within n q es st -> te_ok sl q es te ->
  level_ok (raction q) (N.of_nat n) te = true ->
  eval sl q st (erase te) = eval sl q es (erase te).
Proof.
  intros Hag Hok Hl. apply (proj1 (sound_all sl q es st n Hag te)); [assumption|].
  unfold level_ok, level_errors in Hl. destruct (snd (lv (raction q) (N.of_nat n) None te)); [reflexivity | discriminate].
Qed.

Lemma slice_sound sl q es n te :
  te_ok sl q es te -> level_ok (raction q) (N.of_nat n) te = true ->
  eval sl q (slice_at_level n q es) (erase te) = eval sl q es (erase te).
Proof. apply between_sound. apply slice_agrees. Qed.

(* the distance invariant on its own: an accepted dereference target of level l evaluates, on the
   full store, to a value whose projection along the access path mentions only uids within l+1 hops *)
Lemma target_distance sl q es n te path v v' :
  te_ok sl q es te -> snd (lv (raction q) (N.of_nat n) (Some path) te) = [] ->
  eval sl q es (erase te) = Ok v -> proj path v = Some v' ->
  incl (value_uids v') (reach es (S (N.to_nat (fst (lv (raction q) (N.of_nat n) (Some path) te)))) (request_roots q)).
Proof.
  intros Hok He. apply (proj2 (sound_all sl q es es n (fun _ _ => eq_refl) te) path Hok He).
Qed.

(* lift to responses *)
Lemma auth_core_ext (f g : policy -> res bool) ps :
  (forall p, In p ps -> f p = g p) -> auth_core f ps = auth_core g ps.
Proof.
  unfold auth_core. generalize empty_buckets as b.
  induction ps as [|p ps IH]; intros b H; [reflexivity|].
  cbn [fold_left]. rewrite (H p (or_introl eq_refl)). apply IH. intros p' Hp'. apply H. right; assumption.
Qed.

(* a policy whose condition is the erasure of a typed expression accepted at level n *)
Definition policy_level_ok (n : nat) (q : request) (es : entities) (p : policy) : Prop :=
  exists te, erase te = pcondition p /\ te_ok (penv p) q es te /\ level_ok (raction q) (N.of_nat n) te = true.

Lemma response_between ps q es st n :
  agrees_within n q es st -> (forall p, In p ps -> policy_level_ok n q es p) ->
  is_authorized ps q st = is_authorized ps q es.
Proof.
  intros Hag Hps. unfold is_authorized, authorize_with. f_equal. apply auth_core_ext.
  intros p Hp. destruct (Hps p Hp) as (te & Ee & Hok & Hl). unfold eval_policy. rewrite <- Ee.
  rewrite (between_sound (penv p) q es st n te Hag Hok Hl). reflexivity.
Qed.

Lemma response_slice ps q es n :
  (forall p, In p ps -> policy_level_ok n q es p) ->
  is_authorized ps q (slice_at_level n q es) = is_authorized ps q es.
Proof. apply response_between. apply slice_agrees. Qed.
