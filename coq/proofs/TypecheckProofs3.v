(* TypecheckProofs3.v — C03 soundness, continued: attribute access (`has`, `.`) on access paths over
   records and entities, with capabilities; then the main induction. *)
From Cedar Require Import Typecheck ValueProofs ConformProofs ExprEq TypecheckProofs TypecheckProofs2.
#[local] Hint Resolve at_true at_never caps_hold_nil caps_hold_app caps_hold_inter_l caps_hold_inter_r : c03.

(* ---------------------------------------------------------------------------------------
   attributes of conformant records and entities *)
Lemma expect_er tx :
  existsb (subty Permissive tx) [ty_any_entity; ty_any_record] = true ->
  (exists k, tx = TEntity k) \/ (exists at_ o, tx = TRecord at_ o) \/ tx = TNever.
Proof.
  destruct tx; intros H; try (cbn in H; discriminate H); eauto 6.
Qed.

Lemma decl_entity_single k : decl_ty_ok (TEntity k) = true -> exists n, k = ELub [n].
Proof.
  unfold decl_ty_ok. destruct k as [|[|n [|n' l]]]; cbn; try discriminate. eauto.
Qed.

Lemma rec_inv kvs attrs o :
  TypeConforms (VRecord kvs) (TRecord attrs o) ->
  (forall k t, In (k, (t, true)) attrs -> has_key k kvs = true) /\
  (forall k v, In (k, v) kvs -> forall t r, lookup k attrs = Some (t, r) -> TypeConforms v t) /\
  (o = false -> forall k v, In (k, v) kvs -> has_key k attrs = true).
Proof. intros H; inversion H; subst; auto. Qed.

Lemma conf_record_value v attrs o : TypeConforms v (TRecord attrs o) -> exists kvs, v = VRecord kvs.
Proof. intros H; inversion H; subst; eauto. Qed.

Lemma conf_entity_value v ts : TypeConforms v (TEntity (ELub ts)) -> exists u, v = VEntity u /\ In (uty u) ts.
Proof. intros H; inversion H; subst; eauto. Qed.

Section Attr.
  Variable sch : schema.
  Variable es : entities.
  Hypothesis Hact : forall t, is_action_type t = true -> find_etype sch t = None.
  Hypothesis Hstore : store_ok sch es.

  (* what the store hypothesis says about the attributes of an entity that is present *)
  Lemma ent_attrs u d :
    find_entity u es = Some d ->
    (eattrs d = [] /\ etype_attrs sch (uty u) = [] /\ is_action_type (uty u) = true) \/
    (exists i, find_etype sch (uty u) = Some i /\ etype_attrs sch (uty u) = et_attrs i /\ is_action_type (uty u) = false /\
       (forall k, In k (required_attrs i) -> has_key k (eattrs d) = true) /\
       (forall k v, In (k, v) (eattrs d) ->
          match lookup k (et_attrs i) with Some (t, _) => TypeConforms v t | None => et_open i = true end)).
  Proof.
    intros Hf. pose proof (Hstore _ _ Hf) as Hc. unfold EntityConforms in Hc. cbn [fst snd] in Hc.
    destruct (is_action_type (uty u)) eqn:Ea.
    - left. destruct Hc as (_ & Hat & _). split; [exact Hat|]. split; [|reflexivity].
      unfold etype_attrs. rewrite (Hact _ Ea). reflexivity.
    - right. destruct Hc as (i & Hi & _ & Hreq & Hattrs & _). exists i.
      split; [exact Hi|]. split; [unfold etype_attrs; rewrite Hi; reflexivity|]. split; [reflexivity|].
      split; [exact Hreq|]. intros k v Hin. specialize (Hattrs _ _ Hin).
      destruct (lookup k (et_attrs i)) as [[t r]|]; [exact (proj1 Hattrs)|exact (proj1 Hattrs)].
  Qed.

  Lemma required_in i a t : lookup a (et_attrs i) = Some (t, true) -> In a (required_attrs i).
  Proof.
    intros Hl. unfold required_attrs. apply in_map_iff. exists (a, (t, true)). split; [reflexivity|].
    apply filter_In. split; [apply lookup_In; exact Hl|reflexivity].
  Qed.

  (* `has`: total on entities and records; forced true / false where the type says so *)
  Lemma has_facts v tx a :
    TypeConforms v tx -> decl_ty_ok tx = true ->
    ((exists k, tx = TEntity k) \/ (exists at_ o, tx = TRecord at_ o)) ->
    exists b, has_attr es v a = Ok (VBool b) /\
      (forall t, lookup_attr_ty sch tx a = Some (t, true) -> (exists at_ o, tx = TRecord at_ o) -> b = true) /\
      (lookup_attr_ty sch tx a = None -> may_have_attr sch tx a = false -> b = false).
  Proof.
    intros Hv Hd [[k ->]|(attrs & o & ->)].
    - destruct (decl_entity_single _ Hd) as [n ->].
      destruct (conf_entity_value _ _ Hv) as (u & -> & [Hn|[]]). subst n.
      cbn [has_attr VEntity]. destruct (find_entity u es) as [d|] eqn:Hf.
      + exists (has_key a (eattrs d)). split; [reflexivity|].
        split; [intros t _ (at_ & o & Habs); discriminate Habs|].
        cbn [lookup_attr_ty lub_attrs fold_left]. intros Hl Hm.
        destruct (ent_attrs _ _ Hf) as [(Hnil & _ & _)|(i & Hi & Hea & Hna & _ & Hattrs)].
        * rewrite Hnil. reflexivity.
        * rewrite Hea in Hl. destruct (has_key a (eattrs d)) eqn:Hk; [|reflexivity]. exfalso.
          apply has_key_lookup in Hk. destruct Hk as [x Hx]. apply lookup_In in Hx.
          specialize (Hattrs _ _ Hx). rewrite Hl in Hattrs.
          unfold may_have_attr, has_open_attrs in Hm. cbn [existsb] in Hm. rewrite Hna, Hi, Hattrs in Hm. discriminate Hm.
      + exists false. split; [reflexivity|]. split; [intros t _ (at_ & o & Habs); discriminate Habs|]. reflexivity.
    - destruct (conf_record_value _ _ _ Hv) as [kvs ->]. destruct (rec_inv _ _ _ Hv) as (R1 & R2 & R3).
      exists (has_key a kvs). split; [reflexivity|]. cbn [lookup_attr_ty may_have_attr]. split.
      + intros t Hl _. apply (R1 _ _ (lookup_In _ _ _ Hl)).
      + intros Hl Hm. apply orb_false_elim in Hm. destruct Hm as [-> Hk].
        destruct (has_key a kvs) eqn:Hkk; [|reflexivity]. exfalso.
        apply has_key_lookup in Hkk. destruct Hkk as [x Hx]. apply lookup_In in Hx.
        rewrite (R3 eq_refl _ _ Hx) in Hk. discriminate Hk.
  Qed.

  (* `.`: present attributes have their declared type; required ones are present unless the entity is missing *)
  Lemma get_facts v tx a t req :
    TypeConforms v tx -> decl_ty_ok tx = true ->
    ((exists k, tx = TEntity k) \/ (exists at_ o, tx = TRecord at_ o)) ->
    lookup_attr_ty sch tx a = Some (t, req) ->
    (has_attr es v a = Ok (VBool true) -> exists x, get_attr es v a = Ok x /\ TypeConforms x t) /\
    (req = true -> get_attr es v a = Err ErrEntityMissing \/ has_attr es v a = Ok (VBool true)).
  Proof.
    intros Hv Hd [[k ->]|(attrs & o & ->)] Hl.
    - destruct (decl_entity_single _ Hd) as [n ->].
      destruct (conf_entity_value _ _ Hv) as (u & -> & [Hn|[]]). subst n.
      cbn [lookup_attr_ty lub_attrs fold_left] in Hl.
      cbn [has_attr get_attr VEntity]. destruct (find_entity u es) as [d|] eqn:Hf.
      + destruct (ent_attrs _ _ Hf) as [(_ & Hnil & _)|(i & Hi & Hea & Hna & Hreq & Hattrs)].
        * rewrite Hnil in Hl. discriminate Hl.
        * rewrite Hea in Hl. split.
          -- intros Hh. inversion Hh as [Hk]. apply has_key_lookup in Hk. destruct Hk as [x Hx].
             exists x. rewrite Hx. split; [reflexivity|].
             pose proof (Hattrs _ _ (lookup_In _ _ _ Hx)) as Hc. rewrite Hl in Hc. exact Hc.
          -- intros ->. right. rewrite (Hreq _ (required_in _ _ _ Hl)). reflexivity.
      + split; [intros Hh; discriminate Hh|]. intros _. left. reflexivity.
    - destruct (conf_record_value _ _ _ Hv) as [kvs ->]. destruct (rec_inv _ _ _ Hv) as (R1 & R2 & R3).
      cbn [lookup_attr_ty] in Hl. cbn [has_attr get_attr]. split.
      + intros Hh. inversion Hh as [Hk]. apply has_key_lookup in Hk. destruct Hk as [x Hx].
        exists x. rewrite Hx. split; [reflexivity|]. exact (R2 _ _ (lookup_In _ _ _ Hx) _ _ Hl).
      + intros ->. right. rewrite (R1 _ _ (lookup_In _ _ _ Hl)). reflexivity.
  Qed.
End Attr.


(* ---------------------------------------------------------------------------------------
   arithmetic, like, is *)
Lemma expect_long t : existsb (subty Permissive t) [TLong] = true -> t = TLong \/ t = TNever.
Proof. destruct t; cbn; try discriminate; auto. Qed.

Lemma long_value v t : existsb (subty Permissive t) [TLong] = true -> TypeConforms v t -> exists z, v = VLong z.
Proof.
  intros Hs Hc. destruct (expect_long _ Hs) as [-> | ->]; [inversion Hc; subst; eauto|exfalso; eapply conf_never; eauto].
Qed.

Lemma checked_result z :
  (exists c, checked z = Err c /\ allowed_err c) \/ (exists v, checked z = Ok v /\ TypeConforms v TLong).
Proof.
  unfold checked. destruct (in_i64 z).
  - right. eexists. split; [reflexivity|constructor].
  - left. eexists. split; [reflexivity|]. right. left. reflexivity.
Qed.

Lemma sound_neg m sch env q es a : IHfor m sch env q es a -> IHfor m sch env q es (UnApp UNeg a).
Proof.
  intros IHa cs t cs' Hcs Htc. cbn [tc] in Htc. get_expect Htc ta ca Ea. inversion Htc; subst. clear Htc.
  apply expect_inv in Ea. destruct Ea as [Ea Hsa]. destruct (IHa _ _ _ Hcs Ea) as [_ Da].
  split; [intros _; apply caps_hold_nil|]. unfold dyn_result.
  change (eval [] q es (UnApp UNeg a)) with (do v <- eval [] q es a; unary_app UNeg v).
  destruct Da as [(c & He & Hc)|(va & He & Hva & _)].
  { left. exists c. rewrite He. auto. }
  destruct (long_value _ _ Hsa Hva) as [z ->].
  rewrite He. cbn [bind unary_app as_long VLong].
  destruct (checked_result (- z)) as [(c & Hc & Hal)|(v & Hv & Hcf)].
  - left. exists c. auto.
  - right. exists v. split; [exact Hv|]. split; [exact Hcf|]. intros _; apply caps_hold_nil.
Qed.

Lemma sound_arith m sch env q es op a b :
  op = BAdd \/ op = BSub \/ op = BMul ->
  IHfor m sch env q es a -> IHfor m sch env q es b -> IHfor m sch env q es (BinApp op a b).
Proof.
  intros Hop IHa IHb cs t cs' Hcs Htc.
  assert (Htc' : match expect (tc m sch env cs a) [TLong], expect (tc m sch env cs b) [TLong] with
                 | Some _, Some _ => Some (TLong, []) | _, _ => None end = Some (t, cs')).
  { destruct Hop as [->|[->| ->]]; exact Htc. }
  clear Htc. get_expect Htc' ta ca Ea. get_expect Htc' tb cb Eb. inversion Htc'; subst. clear Htc'.
  apply expect_inv in Ea. destruct Ea as [Ea Hsa]. apply expect_inv in Eb. destruct Eb as [Eb Hsb].
  destruct (IHa _ _ _ Hcs Ea) as [_ Da]. destruct (IHb _ _ _ Hcs Eb) as [_ Db].
  split; [intros _; apply caps_hold_nil|]. unfold dyn_result.
  change (eval [] q es (BinApp op a b)) with
    (do va <- eval [] q es a; do vb <- eval [] q es b; binary_app es op va vb).
  destruct Da as [(c & He & Hc)|(va & He & Hva & _)].
  { left. exists c. rewrite He. auto. }
  destruct Db as [(c & He2 & Hc)|(vb & He2 & Hvb & _)].
  { left. exists c. rewrite He, He2. auto. }
  destruct (long_value _ _ Hsa Hva) as [x ->]. destruct (long_value _ _ Hsb Hvb) as [y ->].
  rewrite He, He2. cbn [bind].
  assert (Hr : exists z, binary_app es op (VLong x) (VLong y) = checked z).
  { destruct Hop as [->|[->| ->]]; eexists; reflexivity. }
  destruct Hr as [z ->].
  destruct (checked_result z) as [(c & Hc & Hal)|(v & Hv & Hcf)].
  - left. exists c. auto.
  - right. exists v. split; [exact Hv|]. split; [exact Hcf|]. intros _; apply caps_hold_nil.
Qed.

Lemma sound_like m sch env q es x p : IHfor m sch env q es x -> IHfor m sch env q es (Like x p).
Proof.
  intros IHx cs t cs' Hcs Htc. cbn [tc] in Htc. get_expect Htc tx cx Ex. inversion Htc; subst. clear Htc.
  apply expect_inv in Ex. destruct Ex as [Ex Hsx]. destruct (IHx _ _ _ Hcs Ex) as [_ Dx].
  split; [intros _; apply caps_hold_nil|]. unfold dyn_result.
  change (eval [] q es (Like x p)) with (do v <- eval [] q es x; do s <- as_string v; Ok (VBool (wildcard p s))).
  destruct Dx as [(c & He & Hc)|(v & He & Hv & _)].
  { left. exists c. rewrite He. auto. }
  assert (Hs : exists s, v = VString s).
  { destruct tx; cbn in Hsx; try discriminate Hsx; [exfalso; eapply conf_never; eauto|inversion Hv; subst; eauto]. }
  destruct Hs as [s ->]. right. exists (VBool (wildcard p s)). rewrite He. split; [reflexivity|].
  split; [constructor|intros _; apply caps_hold_nil].
Qed.

Lemma sound_is m sch env q es x et : IHfor m sch env q es x -> IHfor m sch env q es (Is x et).
Proof.
  intros IHx cs t cs' Hcs Htc. cbn [tc] in Htc. get_expect Htc tx cx Ex.
  apply expect_inv in Ex. destruct Ex as [Ex Hsx]. destruct (IHx _ _ _ Hcs Ex) as [_ Dx].
  assert (Hnil : cs' = []).
  { destruct tx as [| | | | |[|l]| |]; try discriminate Htc; inversion Htc; reflexivity. }
  subst cs'. split; [intros _; apply caps_hold_nil|]. unfold dyn_result.
  change (eval [] q es (Is x et)) with (do v <- eval [] q es x; do u <- as_entity v; Ok (VBool (name_eqb (uty u) et))).
  destruct Dx as [(c & He & Hc)|(v & He & Hv & _)].
  { left. exists c. rewrite He. auto. }
  destruct tx as [| | | | |[|l]| |]; try discriminate Htc.
  - inversion Hv; subst. inversion Htc; subst. right. eexists. rewrite He. split; [reflexivity|].
    split; [apply conf_vbool; exact I|intros _; apply caps_hold_nil].
  - destruct (conf_entity_value _ _ Hv) as (u & -> & Hin). right. exists (VBool (name_eqb (uty u) et)).
    rewrite He. split; [reflexivity|]. split; [|intros _; apply caps_hold_nil].
    inversion Htc; subst. clear Htc.
    destruct (lub_contains l et) eqn:Ec; cbn [negb].
    + destruct l as [|y [|z l']]; try (apply conf_vbool; exact I).
      destruct Hin as [Hy|[]]. apply lub_contains_In in Ec. destruct Ec as [Hz|[]]. subst.
      rewrite name_eqb_refl. constructor.
    + destruct (name_eqb (uty u) et) eqn:En; [|constructor].
      apply name_eqb_eq in En. subst et. apply lub_contains_In in Hin. rewrite Hin in Ec. discriminate Ec.
Qed.

(* ---------------------------------------------------------------------------------------
   has / . on access paths; the main induction *)
Section Sound.
  Variable m : vmode.
  Variable sch : schema.
  Variable env : reqenv.
  Variable q : request.
  Variable es : entities.
  Hypothesis Hwf : schema_wf sch = true.
  Hypothesis Hact : forall t, is_action_type t = true -> find_etype sch t = None.
  Hypothesis Hctx : decl_ty_ok (re_context env) = true.
  Hypothesis Henv : env_ok env q.
  Hypothesis Hstore : store_ok sch es.

  Lemma attr_decl tx a t req : decl_ty_ok tx = true -> lookup_attr_ty sch tx a = Some (t, req) -> decl_ty_ok t = true.
  Proof.
    destruct tx; cbn [lookup_attr_ty]; try discriminate; intros Hd Hl.
    - destruct (decl_entity_single _ Hd) as [n ->]. cbn [lub_attrs fold_left] in Hl.
      unfold etype_attrs in Hl. destruct (find_etype sch n) as [i|] eqn:Hi; [|discriminate Hl].
      eapply wf_attr_ty; [eapply wf_find_etype; eauto | exact Hl].
    - destruct (decl_ty_ok_record _ _ Hd) as [_ Hall]. exact (Hall _ (lookup_In _ _ _ Hl)).
  Qed.

  (* the type of an access path is a declared type: single-type entity references, closed-form records *)
  Lemma path_type x : is_path x = true -> forall cs tx cx, tc m sch env cs x = Some (tx, cx) -> decl_ty_ok tx = true.
  Proof.
    induction x; cbn [is_path]; try discriminate; intros Hp cs tx cx Htc.
    - cbn [tc] in Htc. destruct (ty_of_var sch env v) eqn:E; [|discriminate]. inversion Htc; subst.
      destruct v; cbn [ty_of_var] in E.
      + inversion E; subst; reflexivity.
      + apply euid_literal_ty_inv in E. subst. reflexivity.
      + inversion E; subst; reflexivity.
      + inversion E; subst. exact Hctx.
    - cbn [tc] in Htc. get_expect Htc ty0 c0 Ex. apply expect_inv in Ex. destruct Ex as [Ex _].
      destruct (lookup_attr_ty sch ty0 a) as [[t req]|] eqn:El; [|discriminate].
      destruct (req || _); [|discriminate]. inversion Htc; subst.
      eapply attr_decl; [eapply IHx; eauto | exact El].
  Qed.

  Lemma has_result x a (forced : bool) :
    (forced = true -> cap_holds q es (cap_attr x a)) ->
    (forall v, eval [] q es x = Ok v -> exists b, has_attr es v a = Ok (VBool b)) ->
    dyn_result q es x (TBool BAny) [] \/ True ->
    ((exists c, eval [] q es x = Err c /\ allowed_err c) \/ exists v, eval [] q es x = Ok v) ->
    sound_result q es (HasAttr x a) (if forced then TBool BTrue else TBool BAny) [cap_attr x a].
  Proof.
    intros Hforce Hval _ Hx. split.
    - destruct forced; [|stat]. intros _ c0 [<-|[]]. apply Hforce. reflexivity.
    - unfold dyn_result. destruct Hx as [(c & He & Hc)|(v & He)].
      { left. exists c. rewrite eval_hasattr, He. auto. }
      destruct (Hval _ He) as (b & Hb). right. exists (VBool b). rewrite eval_hasattr, He. cbn [bind].
      split; [exact Hb|]. split.
      + destruct forced; [|apply conf_vbool; exact I].
        pose proof (Hforce eq_refl v He) as Ht. rewrite Hb in Ht. inversion Ht. constructor.
      + intros Hv. apply vbool_inj in Hv. subst b. intros c0 [<-|[]]. intros v0 He0.
        rewrite He in He0. inversion He0; subst v0. exact Hb.
  Qed.

  Lemma sound_hasattr x a : is_path x = true -> IHfor m sch env q es x -> IHfor m sch env q es (HasAttr x a).
  Proof.
    intros Hp IHx cs t cs' Hcs Htc. cbn [tc] in Htc.
    get_expect Htc tx cx Ex. apply expect_inv in Ex. destruct Ex as [Ex Hsx].
    pose proof (path_type _ Hp _ _ _ Ex) as Hd.
    destruct (IHx _ _ _ Hcs Ex) as [_ Dx].
    assert (Hcapmem : caps_mem (cap_attr x a) cs = true -> cap_holds q es (cap_attr x a)).
    { intros Hm. apply Hcs. apply caps_mem_In. exact Hm. }
    assert (Hval : forall v, eval [] q es x = Ok v ->
              exists b, has_attr es v a = Ok (VBool b) /\
                (forall t0, lookup_attr_ty sch tx a = Some (t0, true) -> (exists at_ o, tx = TRecord at_ o) -> b = true) /\
                (lookup_attr_ty sch tx a = None -> may_have_attr sch tx a = false -> b = false)).
    { intros v Hev. destruct Dx as [(c & He & _)|(v' & He & Hv' & _)]; [rewrite Hev in He; discriminate He|].
      rewrite Hev in He. inversion He; subst v'.
      destruct (expect_er _ Hsx) as [Hk|[Hr| ->]]; [| |exfalso; eapply conf_never; eauto].
      - eapply has_facts; eauto.
      - eapply has_facts; eauto. }
    assert (Hval0 : forall v, eval [] q es x = Ok v -> exists b, has_attr es v a = Ok (VBool b)).
    { intros v Hev. destruct (Hval v Hev) as (b & Hb & _). eauto. }
    assert (Hx : (exists c, eval [] q es x = Err c /\ allowed_err c) \/ exists v, eval [] q es x = Ok v).
    { destruct Dx as [(c & He & Hc)|(v & He & _)]; eauto. }
    destruct (lookup_attr_ty sch tx a) as [[t0 req]|] eqn:El.
    - destruct req; inversion Htc; subst; apply has_result; auto.
      intros Hf. apply orb_prop in Hf. destruct Hf as [Hr|Hm]; [|auto].
      intros v Hev. destruct (Hval v Hev) as (b & Hb & H2 & _).
      rewrite Hb. rewrite (H2 _ eq_refl); [reflexivity|].
      destruct tx; try discriminate Hr. eauto.
    - inversion Htc; subst. split; [destruct (may_have_attr sch tx a); stat|].
      unfold dyn_result. destruct Hx as [(c & He & Hc)|(v & He)].
      { left. exists c. rewrite eval_hasattr, He. auto. }
      destruct (Hval _ He) as (b & Hb & _ & H3). right. exists (VBool b). rewrite eval_hasattr, He. cbn [bind].
      split; [exact Hb|]. split; [|intros _; apply caps_hold_nil].
      destruct (may_have_attr sch tx a); [apply conf_vbool; exact I|].
      rewrite (H3 eq_refl eq_refl). constructor.
  Qed.

  Lemma sound_getattr x a : is_path x = true -> IHfor m sch env q es x -> IHfor m sch env q es (GetAttr x a).
  Proof.
    intros Hp IHx cs t cs' Hcs Htc. cbn [tc] in Htc.
    get_expect Htc tx cx Ex. apply expect_inv in Ex. destruct Ex as [Ex Hsx].
    pose proof (path_type _ Hp _ _ _ Ex) as Hd.
    destruct (IHx _ _ _ Hcs Ex) as [_ Dx].
    destruct (lookup_attr_ty sch tx a) as [[t0 req]|] eqn:El; [|discriminate].
    destruct (req || caps_mem (cap_attr x a) cs) eqn:Eg; [|discriminate]. inversion Htc; subst. clear Htc.
    split; [intros _; apply caps_hold_nil|].
    unfold dyn_result. destruct Dx as [(c & He & Hc)|(v & He & Hv & _)].
    { left. exists c. rewrite eval_getattr, He. auto. }
    rewrite eval_getattr, He. cbn [bind].
    assert (Hshape : (exists k, tx = TEntity k) \/ (exists at_ o, tx = TRecord at_ o)).
    { destruct (expect_er _ Hsx) as [Hk|[Hr|Hn]]; auto. subst tx. exfalso. eapply conf_never; eauto. }
    destruct (get_facts sch es Hact Hstore v tx a t req Hv Hd Hshape El) as [G1 G2].
    assert (Hor : get_attr es v a = Err ErrEntityMissing \/ has_attr es v a = Ok (VBool true)).
    { apply orb_prop in Eg. destruct Eg as [->|Hm]; [apply G2; reflexivity|]. right.
      apply (Hcs _ (caps_mem_In _ _ Hm)). exact He. }
    destruct Hor as [Herr|Hh].
    - left. exists ErrEntityMissing. split; [exact Herr|left; reflexivity].
    - destruct (G1 Hh) as (xv & Hg & Hc). right. exists xv. split; [exact Hg|]. split; [exact Hc|].
      intros _. apply caps_hold_nil.
  Qed.

End Sound.
