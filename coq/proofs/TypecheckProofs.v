(* TypecheckProofs.v — soundness of the typechecker model `tc` against the model evaluator `eval`
   (property C03), for the fragment `in_fragment`. *)
From Coq Require Import Lia.
From Cedar Require Import Typecheck ValueProofs.

(* ---------------------------------------------------------------------------------------
   the covered fragment (syntactic) *)
Definition boolish (e : expr) : bool :=
  match e with
  | And _ _ | Or _ _ | UnApp UNot _ | BinApp BEq _ _ | HasAttr _ _ | Lit (PBool _) => true
  | _ => false
  end.

Definition capless (e : expr) : bool :=
  match e with
  | BinApp BEq _ _ | UnApp UNot _ | Lit _ | Var _ | GetAttr _ _ => true
  | _ => false
  end.

Fixpoint in_fragment (e : expr) : bool :=
  match e with
  | Lit _ | Var _ => true
  | And a b | BinApp BEq a b => in_fragment a && in_fragment b
  | Or a b => in_fragment a && in_fragment b && capless b
  | UnApp UNot a => in_fragment a
  | HasAttr (Var Context) _ | GetAttr (Var Context) _ => true
  | _ => false
  end.

(* ---------------------------------------------------------------------------------------
   hypotheses of the soundness statement *)
Definition allowed_err (c : err) : Prop := c = ErrEntityMissing \/ c = ErrOverflow \/ c = ErrExt.

(* a capability holds: wherever its expression evaluates, the attribute is there *)
Definition cap_holds (q : request) (es : entities) (c : cap) : Prop :=
  match c with
  | mkCap CAttr x (Lit (PString a)) => forall v, eval [] q es x = Ok v -> has_attr es v a = Ok (VBool true)
  | _ => True
  end.
Definition caps_hold (q : request) (es : entities) (cs : caps) : Prop := forall c, In c cs -> cap_holds q es c.

(* the request is one of the request environment *)
Record env_ok (env : reqenv) (q : request) : Prop := {
  eo_p : uty (rprincipal q) = re_principal env;
  eo_a : raction q = re_action env;
  eo_r : uty (rresource q) = re_resource env;
  eo_c : TypeConforms (VRecord (rcontext q)) (re_context env) }.

(* every entity of the store conforms to the schema (declarative specification of Conform.v) *)
Definition store_ok (sch : schema) (es : entities) : Prop :=
  forall u d, find_entity u es = Some d -> EntityConforms sch (u, d).

Definition sound_result (q : request) (es : entities) (e : expr) (t : ty) (cs' : caps) : Prop :=
  (exists c, eval [] q es e = Err c /\ allowed_err c) \/
  (exists v, eval [] q es e = Ok v /\ TypeConforms v t /\ (v = VBool true -> caps_hold q es cs')).

(* ---------------------------------------------------------------------------------------
   basic facts *)
Lemma caps_hold_nil q es : caps_hold q es [].
Proof. intros c []. Qed.

Lemma caps_hold_app q es a b : caps_hold q es a -> caps_hold q es b -> caps_hold q es (caps_union a b).
Proof. intros Ha Hb c Hc. apply in_app_or in Hc. destruct Hc; auto. Qed.

Lemma caps_hold_inter q es a b : caps_hold q es a -> caps_hold q es (caps_inter a b).
Proof. intros Ha c Hc. apply filter_In in Hc. apply Ha, Hc. Qed.

Lemma expect_inv r l t c :
  expect r l = Some (t, c) -> r = Some (t, c) /\ existsb (subty Permissive t) l = true.
Proof.
  unfold expect. destruct r as [[t0 c0]|]; [|discriminate].
  destruct (existsb (subty Permissive t0) l) eqn:E; [|discriminate].
  intros H; inversion H; subst. auto.
Qed.

Lemma sub_bool_shape t : existsb (subty Permissive t) [TBool BAny] = true -> (exists x, t = TBool x) \/ t = TNever.
Proof. destruct t; cbn; try discriminate; eauto. Qed.

Lemma conf_never v : ~ TypeConforms v TNever.
Proof. intros H; inversion H. Qed.

Lemma conf_bool v x : TypeConforms v (TBool x) -> exists b, v = VBool b /\
  match x with BAny => True | BTrue => b = true | BFalse => b = false end.
Proof. intros H; inversion H; subst; eauto. Qed.

Lemma conf_vbool b x : match x with BAny => True | BTrue => b = true | BFalse => b = false end -> TypeConforms (VBool b) (TBool x).
Proof. destruct x; intros H; subst; constructor. Qed.

(* a boolean-typed (expected Bool) result is a boolean value *)
Lemma boolean_value v t : existsb (subty Permissive t) [TBool BAny] = true -> TypeConforms v t ->
  exists x b, t = TBool x /\ v = VBool b /\ match x with BAny => True | BTrue => b = true | BFalse => b = false end.
Proof.
  intros Hs Hc. destruct (sub_bool_shape _ Hs) as [[x ->]| ->].
  - destruct (conf_bool _ _ Hc) as (b & -> & Hb). eauto.
  - exfalso. eapply conf_never; eauto.
Qed.

Lemma vbool_inj a b : VBool a = VBool b -> a = b.
Proof. intros H; inversion H; auto. Qed.

(* ---------------------------------------------------------------------------------------
   unfolding of the evaluator *)
Lemma eval_and q es a b : eval [] q es (And a b) =
  (do va <- eval [] q es a; do x <- as_bool va;
   if x then (do vb <- eval [] q es b; do y <- as_bool vb; Ok (VBool y)) else Ok (VBool false)).
Proof. reflexivity. Qed.
Lemma eval_or q es a b : eval [] q es (Or a b) =
  (do va <- eval [] q es a; do x <- as_bool va;
   if x then Ok (VBool true) else (do vb <- eval [] q es b; do y <- as_bool vb; Ok (VBool y))).
Proof. reflexivity. Qed.
Lemma eval_if q es c x y : eval [] q es (If c x y) =
  (do vc <- eval [] q es c; do b <- as_bool vc; if b then eval [] q es x else eval [] q es y).
Proof. reflexivity. Qed.
Lemma eval_not q es a : eval [] q es (UnApp UNot a) = (do v <- eval [] q es a; unary_app UNot v).
Proof. reflexivity. Qed.
Lemma eval_eq q es a b : eval [] q es (BinApp BEq a b) =
  (do va <- eval [] q es a; do vb <- eval [] q es b; Ok (VBool (value_eqb va vb))).
Proof. reflexivity. Qed.
Lemma eval_getattr q es x a : eval [] q es (GetAttr x a) = (do v <- eval [] q es x; get_attr es v a).
Proof. reflexivity. Qed.
Lemma eval_hasattr q es x a : eval [] q es (HasAttr x a) = (do v <- eval [] q es x; has_attr es v a).
Proof. reflexivity. Qed.

(* ---------------------------------------------------------------------------------------
   && *)
Lemma sound_and m sch env q es a b :
  (forall cs t cs', caps_hold q es cs -> tc m sch env cs a = Some (t, cs') -> sound_result q es a t cs') ->
  (forall cs t cs', caps_hold q es cs -> tc m sch env cs b = Some (t, cs') -> sound_result q es b t cs') ->
  forall cs t cs', caps_hold q es cs -> tc m sch env cs (And a b) = Some (t, cs') -> sound_result q es (And a b) t cs'.
Proof.
  intros IHa IHb cs t cs' Hcs Htc. cbn [tc] in Htc.
  destruct (expect (tc m sch env cs a) [TBool BAny]) as [[ta ca]|] eqn:Ea; [|discriminate].
  apply expect_inv in Ea. destruct Ea as [Ea Hsa].
  destruct (IHa _ _ _ Hcs Ea) as [(c & He & Hc)|(va & He & Hva & Hcapa)].
  { left. exists c. rewrite eval_and, He. auto. }
  destruct (boolean_value _ _ Hsa Hva) as (xa & ba & -> & -> & Hba).
  unfold sound_result. rewrite eval_and, He. cbn [bind as_bool VBool].
  destruct ba.
  - (* left operand true: the right one is evaluated under the capabilities of the left *)
    assert (Hcs2 : caps_hold q es (caps_union cs ca)) by (apply caps_hold_app; auto).
    destruct xa; try discriminate Hba.
    + (* ta = Bool *)
      destruct (expect (tc m sch env (caps_union cs ca) b) [TBool BAny]) as [[tb cb]|] eqn:Eb; [|discriminate].
      apply expect_inv in Eb. destruct Eb as [Eb Hsb].
      destruct (IHb _ _ _ Hcs2 Eb) as [(c & He2 & Hc)|(vb & He2 & Hvb & Hcapb)].
      { left. exists c. rewrite He2. auto. }
      destruct (boolean_value _ _ Hsb Hvb) as (xb & bb & -> & -> & Hbb).
      right. rewrite He2. cbn [bind as_bool VBool]. exists (VBool bb). split; [reflexivity|].
      destruct xb; inversion Htc; subst; (split; [apply conf_vbool; auto|]); intros Hv; apply vbool_inj in Hv; subst;
        try discriminate; try apply caps_hold_nil; try (apply caps_hold_app; auto).
    + (* ta = True *)
      destruct (expect (tc m sch env (caps_union cs ca) b) [TBool BAny]) as [[tb cb]|] eqn:Eb; [|discriminate].
      apply expect_inv in Eb. destruct Eb as [Eb Hsb].
      destruct (IHb _ _ _ Hcs2 Eb) as [(c & He2 & Hc)|(vb & He2 & Hvb & Hcapb)].
      { left. exists c. rewrite He2. auto. }
      destruct (boolean_value _ _ Hsb Hvb) as (xb & bb & -> & -> & Hbb).
      right. rewrite He2. cbn [bind as_bool VBool]. exists (VBool bb). split; [reflexivity|].
      destruct xb; inversion Htc; subst; (split; [apply conf_vbool; auto|]); intros Hv; apply vbool_inj in Hv; subst;
        try discriminate; try apply caps_hold_nil; try (apply caps_hold_app; auto).
  - (* left operand false *)
    right. exists (VBool false). split; [reflexivity|].
    destruct xa; try discriminate Hba.
    + destruct (expect (tc m sch env (caps_union cs ca) b) [TBool BAny]) as [[tb cb]|] eqn:Eb; [|discriminate].
      apply expect_inv in Eb. destruct Eb as [Eb Hsb].
      destruct (sub_bool_shape _ Hsb) as [[xb ->]| ->];
        [destruct xb|]; inversion Htc; subst; (split; [apply conf_vbool; auto|]); intros Hv; discriminate Hv.
    + inversion Htc; subst. split; [apply conf_vbool; auto|]. intros Hv; discriminate Hv.
Qed.

(* ---------------------------------------------------------------------------------------
   ||  (the right operand is restricted to forms that produce no capability: see in_fragment) *)
Lemma capless_nil m sch env cs e t c : capless e = true -> tc m sch env cs e = Some (t, c) -> c = [].
Proof.
  destruct e; cbn [capless]; try discriminate; intros Hc H.
  - destruct p; cbn [tc] in H; try (inversion H; reflexivity).
    destruct (euid_literal_ty sch u); inversion H; reflexivity.
  - cbn [tc] in H. destruct (ty_of_var sch env v); inversion H; reflexivity.
  - destruct op; try discriminate Hc. cbn [tc] in H.
    destruct (expect (tc m sch env cs e) [TBool BAny]) as [[ty0 c0]|]; [|discriminate].
    destruct ty0 as [|b0| | | | | |]; try destruct b0; inversion H; reflexivity.
  - destruct op; try discriminate Hc. cbn [tc] in H.
    destruct (tc m sch env cs e1) as [[? ?]|]; [|discriminate].
    destruct (tc m sch env cs e2) as [[? ?]|]; [|discriminate].
    destruct (is_strict m); [destruct (strict_eq_ok _ _ _ _)|]; inversion H; reflexivity.
  - cbn [tc] in H. destruct (expect _ _) as [[? ?]|]; [|discriminate].
    destruct (lookup_attr_ty _ _ _) as [[? ?]|]; [|discriminate].
    destruct (_ || _); inversion H; reflexivity.
Qed.

Lemma sound_or m sch env q es a b :
  capless b = true ->
  (forall cs t cs', caps_hold q es cs -> tc m sch env cs a = Some (t, cs') -> sound_result q es a t cs') ->
  (forall cs t cs', caps_hold q es cs -> tc m sch env cs b = Some (t, cs') -> sound_result q es b t cs') ->
  forall cs t cs', caps_hold q es cs -> tc m sch env cs (Or a b) = Some (t, cs') -> sound_result q es (Or a b) t cs'.
Proof.
  intros Hcl IHa IHb cs t cs' Hcs Htc. cbn [tc] in Htc.
  destruct (expect (tc m sch env cs a) [TBool BAny]) as [[ta ca]|] eqn:Ea; [|discriminate].
  apply expect_inv in Ea. destruct Ea as [Ea Hsa].
  destruct (IHa _ _ _ Hcs Ea) as [(c & He & Hc)|(va & He & Hva & Hcapa)].
  { left. exists c. rewrite eval_or, He. auto. }
  destruct (boolean_value _ _ Hsa Hva) as (xa & ba & -> & -> & Hba).
  unfold sound_result. rewrite eval_or, He. cbn [bind as_bool VBool].
  destruct xa.
  - (* ta = Bool *)
    destruct (expect (tc m sch env cs b) [TBool BAny]) as [[tb cb]|] eqn:Eb; [|discriminate].
    apply expect_inv in Eb. destruct Eb as [Eb Hsb].
    pose proof (capless_nil _ _ _ _ _ _ _ Hcl Eb) as ->.
    destruct ba.
    + right. exists (VBool true). split; [reflexivity|].
      destruct (sub_bool_shape _ Hsb) as [[xb ->]| ->]; [destruct xb|]; inversion Htc; subst;
        (split; [apply conf_vbool; auto|]); intros _; try apply caps_hold_nil; try (apply caps_hold_inter, caps_hold_nil); auto.
    + destruct (IHb _ _ _ Hcs Eb) as [(c & He2 & Hc)|(vb & He2 & Hvb & Hcapb)].
      { left. exists c. rewrite He2. auto. }
      destruct (boolean_value _ _ Hsb Hvb) as (xb & bb & -> & -> & Hbb).
      right. rewrite He2. cbn [bind as_bool VBool]. exists (VBool bb). split; [reflexivity|].
      destruct xb; inversion Htc; subst; (split; [apply conf_vbool; auto|]); intros Hv; apply vbool_inj in Hv; subst;
        try discriminate; try apply caps_hold_nil; try (apply caps_hold_inter, caps_hold_nil).
  - (* ta = True *)
    subst ba. inversion Htc; subst. right. exists (VBool true). split; [reflexivity|].
    split; [apply conf_vbool; auto|]. intros _. auto.
  - (* ta = False *)
    subst ba.
    destruct (expect (tc m sch env cs b) [TBool BAny]) as [[tb cb]|] eqn:Eb; [|discriminate].
    apply expect_inv in Eb. destruct Eb as [Eb Hsb].
    pose proof (capless_nil _ _ _ _ _ _ _ Hcl Eb) as ->.
    destruct (IHb _ _ _ Hcs Eb) as [(c & He2 & Hc)|(vb & He2 & Hvb & Hcapb)].
    { left. exists c. rewrite He2. auto. }
    destruct (boolean_value _ _ Hsb Hvb) as (xb & bb & -> & -> & Hbb).
    right. rewrite He2. cbn [bind as_bool VBool]. exists (VBool bb). split; [reflexivity|].
    destruct xb; inversion Htc; subst; (split; [apply conf_vbool; auto|]); intros Hv; apply vbool_inj in Hv; subst;
      try discriminate; try apply caps_hold_nil; auto.
Qed.

(* ---------------------------------------------------------------------------------------
   ! *)
Lemma sound_not m sch env q es a :
  (forall cs t cs', caps_hold q es cs -> tc m sch env cs a = Some (t, cs') -> sound_result q es a t cs') ->
  forall cs t cs', caps_hold q es cs -> tc m sch env cs (UnApp UNot a) = Some (t, cs') -> sound_result q es (UnApp UNot a) t cs'.
Proof.
  intros IHa cs t cs' Hcs Htc. cbn [tc] in Htc.
  destruct (expect (tc m sch env cs a) [TBool BAny]) as [[ta ca]|] eqn:Ea; [|discriminate].
  apply expect_inv in Ea. destruct Ea as [Ea Hsa].
  destruct (IHa _ _ _ Hcs Ea) as [(c & He & Hc)|(va & He & Hva & Hcapa)].
  { left. exists c. rewrite eval_not, He. auto. }
  destruct (boolean_value _ _ Hsa Hva) as (xa & ba & -> & -> & Hba).
  right. rewrite eval_not, He. cbn [bind unary_app as_bool VBool]. exists (VBool (negb ba)). split; [reflexivity|].
  destruct xa; inversion Htc; subst; (split; [apply conf_vbool; cbn; auto|]); intros _; apply caps_hold_nil.
Qed.

(* ---------------------------------------------------------------------------------------
   literals and variables *)
Lemma name_eqb_refl n : name_eqb n n = true.
Proof. apply strs_eqb_eq. reflexivity. Qed.

Lemma euid_literal_ty_inv sch u t : euid_literal_ty sch u = Some t -> t = ty_entity (uty u).
Proof.
  unfold euid_literal_ty. destruct (is_action_type (uty u)).
  - destruct (known_action sch u); intros H; inversion H; reflexivity.
  - destruct (find_etype sch (uty u)); intros H; inversion H; reflexivity.
Qed.

Lemma conf_entity_single u : TypeConforms (VEntity u) (ty_entity (uty u)).
Proof. apply TC_entity. left. reflexivity. Qed.

Lemma sound_lit m sch env q es p cs t cs' :
  tc m sch env cs (Lit p) = Some (t, cs') -> sound_result q es (Lit p) t cs'.
Proof.
  intros Htc. right. exists (VPrim p). split; [reflexivity|].
  destruct p; cbn [tc] in Htc.
  - inversion Htc; subst. split; [destruct b; constructor|]. intros _; apply caps_hold_nil.
  - inversion Htc; subst. split; [constructor|]. intros _; apply caps_hold_nil.
  - inversion Htc; subst. split; [constructor|]. intros _; apply caps_hold_nil.
  - destruct (euid_literal_ty sch u) eqn:E; [|discriminate]. inversion Htc; subst.
    apply euid_literal_ty_inv in E. subst. split; [apply conf_entity_single|]. intros _; apply caps_hold_nil.
Qed.

Lemma sound_var m sch env q es v cs t cs' :
  env_ok env q ->
  tc m sch env cs (Var v) = Some (t, cs') -> sound_result q es (Var v) t cs'.
Proof.
  intros [Hp Ha Hr Hc] Htc. right. exists (eval_var q v). split; [reflexivity|].
  cbn [tc] in Htc. destruct (ty_of_var sch env v) eqn:E; [|discriminate]. inversion Htc; subst.
  split; [|intros _; apply caps_hold_nil].
  destruct v; cbn [ty_of_var eval_var] in *.
  - inversion E; subst. rewrite <- Hp. apply conf_entity_single.
  - apply euid_literal_ty_inv in E. subst. rewrite <- Ha. apply conf_entity_single.
  - inversion E; subst. rewrite <- Hr. apply conf_entity_single.
  - inversion E; subst. exact Hc.
Qed.

(* ---------------------------------------------------------------------------------------
   == *)
Lemma lub_contains_in l t : In t l -> lub_contains l t = true.
Proof.
  intros H. unfold lub_contains. apply existsb_exists. exists t. split; [exact H|apply name_eqb_refl].
Qed.

Lemma disjoint_not_equal va vb ta tb :
  disjoint_tys ta tb = true -> TypeConforms va ta -> TypeConforms vb tb -> value_eqb va vb = false.
Proof.
  destruct ta as [| | | | |[|x]| |]; try discriminate. destruct tb as [| | | | |[|y]| |]; try discriminate.
  cbn [disjoint_tys]. intros Hd Ha Hb. inversion Ha; subst. inversion Hb; subst.
  cbn. destruct (uid_eqb u u0) eqn:E; [|reflexivity].
  apply uid_eqb_eq in E. subst u0.
  rewrite forallb_forall in Hd. specialize (Hd _ H1). rewrite (lub_contains_in _ _ H2) in Hd. discriminate.
Qed.

Lemma replace_action_lit env q es e p :
  env_ok env q -> replace_action env e = Lit p -> eval [] q es e = Ok (VPrim p).
Proof.
  intros [_ Ha _ _]. destruct e; cbn [replace_action]; try discriminate.
  - intros H; inversion H; reflexivity.
  - destruct v; try discriminate. intros H; inversion H; subst. cbn. unfold VEntity. rewrite Ha. reflexivity.
Qed.

Lemma sound_eq m sch env q es a b :
  env_ok env q ->
  (forall cs t cs', caps_hold q es cs -> tc m sch env cs a = Some (t, cs') -> sound_result q es a t cs') ->
  (forall cs t cs', caps_hold q es cs -> tc m sch env cs b = Some (t, cs') -> sound_result q es b t cs') ->
  forall cs t cs', caps_hold q es cs -> tc m sch env cs (BinApp BEq a b) = Some (t, cs') -> sound_result q es (BinApp BEq a b) t cs'.
Proof.
  intros Henv IHa IHb cs t cs' Hcs Htc. cbn [tc] in Htc.
  destruct (tc m sch env cs a) as [[ta ca]|] eqn:Ea; [|discriminate].
  destruct (tc m sch env cs b) as [[tb cb]|] eqn:Eb; [|discriminate].
  assert (Ht : t = type_of_equality env a ta b tb /\ cs' = []).
  { destruct (is_strict m); [destruct (strict_eq_ok _ _ _ _)|]; inversion Htc; auto. }
  destruct Ht as [-> ->]. clear Htc.
  destruct (IHa _ _ _ Hcs Ea) as [(c & He & Hc)|(va & He & Hva & _)].
  { left. exists c. rewrite eval_eq, He. auto. }
  destruct (IHb _ _ _ Hcs Eb) as [(c & He2 & Hc)|(vb & He2 & Hvb & _)].
  { left. exists c. rewrite eval_eq, He, He2. auto. }
  right. exists (VBool (value_eqb va vb)). rewrite eval_eq, He, He2. split; [reflexivity|].
  split; [|intros _; apply caps_hold_nil].
  unfold type_of_equality. destruct (disjoint_tys ta tb) eqn:Ed.
  - rewrite (disjoint_not_equal _ _ _ _ Ed Hva Hvb). constructor.
  - destruct (replace_action env a) eqn:Ra; try constructor.
    destruct (replace_action env b) eqn:Rb; try constructor.
    rewrite (replace_action_lit _ _ es _ _ Henv Ra) in He. rewrite (replace_action_lit _ _ es _ _ Henv Rb) in He2.
    inversion He; inversion He2; subst. cbn [value_eqb]. unfold ty_singleton. destruct (prim_eqb p p0); constructor.
Qed.

(* ---------------------------------------------------------------------------------------
   has / . on the context record, with capabilities *)
Lemma lookup_In {V} k (l : list (str * V)) v : lookup k l = Some v -> In (k, v) l.
Proof.
  induction l as [|[k' v'] l IH]; cbn; [discriminate|].
  destruct (str_eqb k k') eqn:E.
  - intros H; inversion H; subst. apply str_eqb_eq in E. subst. left; reflexivity.
  - intros H. right. auto.
Qed.

Lemma has_key_lookup {V} k (l : list (str * V)) : has_key k l = true -> exists v, lookup k l = Some v.
Proof. unfold has_key. destruct (lookup k l); [eauto|discriminate]. Qed.

Lemma lookup_has_key {V} k (l : list (str * V)) v : lookup k l = Some v -> has_key k l = true.
Proof. unfold has_key. intros ->. reflexivity. Qed.

(* a capability (Var Context, a) found in a set that holds *)
Lemma cap_eqb_ctx c a : cap_eqb (cap_attr (Var Context) a) c = true -> c = cap_attr (Var Context) a.
Proof.
  destruct c as [k on what]. unfold cap_eqb, cap_attr. cbn [c_kind c_on c_what].
  intros H. apply andb_prop in H. destruct H as [H H3]. apply andb_prop in H. destruct H as [H1 H2].
  destruct k; try discriminate.
  destruct on; try discriminate. destruct v; try discriminate.
  destruct what; try discriminate. cbn [expr_eqb] in H3. apply prim_eqb_eq in H3. subst. reflexivity.
Qed.

Lemma caps_mem_ctx q es cs a :
  caps_mem (cap_attr (Var Context) a) cs = true -> caps_hold q es cs ->
  has_key a (rcontext q) = true.
Proof.
  intros Hm Hh. unfold caps_mem in Hm. apply existsb_exists in Hm. destruct Hm as (c & Hin & Heq).
  apply cap_eqb_ctx in Heq. subst c. specialize (Hh _ Hin). cbn in Hh.
  specialize (Hh _ eq_refl). cbn in Hh. inversion Hh. reflexivity.
Qed.

Lemma ctx_record env q : env_ok env q -> exists attrs o, re_context env = TRecord attrs o /\
  (forall k t, In (k, (t, true)) attrs -> has_key k (rcontext q) = true) /\
  (forall k v, In (k, v) (rcontext q) -> forall t r, lookup k attrs = Some (t, r) -> TypeConforms v t) /\
  (o = false -> forall k v, In (k, v) (rcontext q) -> has_key k attrs = true).
Proof.
  intros [_ _ _ Hc]. inversion Hc; subst. exists attrs, open. auto.
Qed.

Lemma tc_var_ctx m sch env cs t c :
  tc m sch env cs (Var Context) = Some (t, c) -> t = re_context env /\ c = [].
Proof. cbn. intros H; inversion H; auto. Qed.

Lemma sound_hasattr_ctx m sch env q es a cs t cs' :
  env_ok env q -> caps_hold q es cs ->
  tc m sch env cs (HasAttr (Var Context) a) = Some (t, cs') -> sound_result q es (HasAttr (Var Context) a) t cs'.
Proof.
  intros Henv Hcs Htc. destruct (ctx_record _ _ Henv) as (attrs & o & Hty & R1 & R2 & R3).
  right. exists (VBool (has_key a (rcontext q))). split; [reflexivity|].
  assert (Hcap : VBool (has_key a (rcontext q)) = VBool true -> caps_hold q es [cap_attr (Var Context) a]).
  { intros Hv. apply vbool_inj in Hv. intros c [<-|[]]. cbn. intros v Hev. inversion Hev; subst. cbn. rewrite Hv. reflexivity. }
  cbn [tc] in Htc.
  match type of Htc with context [expect ?r ?l] => destruct (expect r l) as [[tx cx]|] eqn:Ex end; [|discriminate].
  apply expect_inv in Ex. destruct Ex as [Ex _]. apply tc_var_ctx in Ex. destruct Ex as [-> ->].
  rewrite Hty in Htc. cbn [lookup_attr_ty] in Htc.
  destruct (lookup a attrs) as [[ta [|]]|] eqn:El.
  - (* required attribute of a record: True *)
    cbn in Htc. inversion Htc; subst. rewrite (R1 _ _ (lookup_In _ _ _ El)) in *.
    split; [constructor|auto].
  - destruct (caps_mem (cap_attr (Var Context) a) cs) eqn:Em; inversion Htc; subst.
    + rewrite (caps_mem_ctx _ _ _ _ Em Hcs) in *. split; [constructor|auto].
    + split; [apply conf_vbool; exact I|auto].
  - cbn [may_have_attr] in Htc. inversion Htc; subst.
    split; [|intros _; apply caps_hold_nil].
    destruct o; cbn [orb].
    + apply conf_vbool; exact I.
    + assert (Hk : has_key a attrs = false) by (unfold has_key; rewrite El; reflexivity). rewrite Hk.
      destruct (has_key a (rcontext q)) eqn:Eh; [|constructor].
      destruct (has_key_lookup _ _ Eh) as (v & Hv). apply lookup_In in Hv.
      rewrite (R3 eq_refl _ _ Hv) in Hk. discriminate.
  - assumption.
  - assumption.
  - assumption.
Qed.

Lemma sound_getattr_ctx m sch env q es a cs t cs' :
  env_ok env q -> caps_hold q es cs ->
  tc m sch env cs (GetAttr (Var Context) a) = Some (t, cs') -> sound_result q es (GetAttr (Var Context) a) t cs'.
Proof.
  intros Henv Hcs Htc. destruct (ctx_record _ _ Henv) as (attrs & o & Hty & R1 & R2 & R3).
  cbn [tc] in Htc.
  match type of Htc with context [expect ?r ?l] => destruct (expect r l) as [[tx cx]|] eqn:Ex end; [|discriminate].
  apply expect_inv in Ex. destruct Ex as [Ex _]. apply tc_var_ctx in Ex. destruct Ex as [-> ->].
  rewrite Hty in Htc. cbn [lookup_attr_ty] in Htc.
  destruct (lookup a attrs) as [[ta req]|] eqn:El; [|discriminate].
  destruct (req || caps_mem (cap_attr (Var Context) a) cs) eqn:Eg; [|discriminate].
  inversion Htc; subst.
  assert (Hk : has_key a (rcontext q) = true).
  { destruct req.
    - apply (R1 _ _ (lookup_In _ _ _ El)).
    - cbn in Eg. eapply caps_mem_ctx; eauto. }
  destruct (has_key_lookup _ _ Hk) as (v & Hv).
  right. exists v. split; [cbn; rewrite Hv; reflexivity|].
  split; [eapply R2; eauto using lookup_In|]. intros _; apply caps_hold_nil.
all: try assumption.
Qed.


(* ---------------------------------------------------------------------------------------
   the main induction *)
Theorem tc_sound m sch env q es :
  env_ok env q ->
  forall e, in_fragment e = true ->
  forall cs t cs', caps_hold q es cs -> tc m sch env cs e = Some (t, cs') -> sound_result q es e t cs'.
Proof.
  intros Henv. induction e; cbn [in_fragment]; try discriminate; intros Hf.
  - intros cs t cs' _ H. eapply sound_lit; eauto.
  - intros cs t cs' _ H. eapply sound_var; eauto.
  - apply andb_prop in Hf. destruct Hf as [H1 H2]. apply sound_and; [apply IHe1; exact H1|apply IHe2; exact H2].
  - apply andb_prop in Hf. destruct Hf as [Hf H3]. apply andb_prop in Hf. destruct Hf as [H1 H2]. apply sound_or; [exact H3|apply IHe1; exact H1|apply IHe2; exact H2].
  - destruct op; try discriminate. apply sound_not. apply IHe. exact Hf.
  - destruct op; try discriminate. apply andb_prop in Hf. destruct Hf as [H1 H2]. apply sound_eq; [exact Henv|apply IHe1; exact H1|apply IHe2; exact H2].
  - destruct e; try discriminate. destruct v; try discriminate.
    intros cs t cs' Hcs H. eapply sound_getattr_ctx; eauto.
  - destruct e; try discriminate. destruct v; try discriminate.
    intros cs t cs' Hcs H. eapply sound_hasattr_ctx; eauto.
Qed.

(* a policy condition typed False is never satisfied *)
Corollary tc_impossible m sch env q es e cs cs' :
  env_ok env q -> in_fragment e = true -> caps_hold q es cs ->
  tc m sch env cs e = Some (TBool BFalse, cs') -> eval [] q es e <> Ok (VBool true).
Proof.
  intros Henv Hf Hcs Htc Hev.
  destruct (tc_sound m sch env q es Henv e Hf _ _ _ Hcs Htc) as [(c & He & _)|(v & He & Hv & _)].
  - rewrite Hev in He. discriminate.
  - rewrite Hev in He. inversion He; subst. inversion Hv.
Qed.

(* the policy-level statement: an accepted condition evaluates to a boolean or fails with a permitted error *)
Corollary tc_env_sound m sch env q es e t :
  env_ok env q -> in_fragment e = true ->
  tc_env m sch env e = EnvSuccess t \/ tc_env m sch env e = EnvIrrelevant ->
  (exists c, eval [] q es e = Err c /\ allowed_err c) \/ (exists b, eval [] q es e = Ok (VBool b)).
Proof.
  intros Henv Hf Hok. unfold tc_env in Hok.
  destruct (expect (tc m sch env [] e) [TBool BAny]) as [[t0 c0]|] eqn:E.
  2:{ destruct Hok; discriminate. }
  apply expect_inv in E. destruct E as [E Hs].
  destruct (tc_sound m sch env q es Henv e Hf _ _ _ (caps_hold_nil q es) E) as [H|(v & He & Hv & _)]; [left; exact H|].
  destruct (boolean_value _ _ Hs Hv) as (x & b & _ & -> & _). right. eauto.
Qed.
