(* TypecheckProofs.v — soundness of the typechecker model `tc` against the model evaluator `eval`
   (property C03), for the fragment `in_fragment`. *)
From Coq Require Import Lia.
From Cedar Require Import Typecheck ValueProofs ConformProofs ExprEq.

(* ---------------------------------------------------------------------------------------
   the covered fragment (syntactic) *)
(* access paths: a variable followed by attribute selections *)
Fixpoint is_path (e : expr) : bool :=
  match e with
  | Var _ => true
  | GetAttr x _ => is_path x
  | _ => false
  end.

(* boolean-rooted forms (branches of the `if` of the fragment) *)
Definition boolish (e : expr) : bool :=
  match e with
  | And _ _ | Or _ _ | UnApp UNot _ | BinApp BEq _ _ | HasAttr _ _ | Lit (PBool _) => true
  | _ => false
  end.

(* ---------------------------------------------------------------------------------------
   hypotheses of the soundness statement *)
Definition allowed_err (c : err) : Prop := c = ErrEntityMissing \/ c = ErrOverflow \/ c = ErrExt.

(* a capability holds: wherever its expression evaluates, the attribute / tag is there *)
Definition cap_holds (q : request) (es : entities) (c : cap) : Prop :=
  match c with
  | mkCap CAttr x (Lit (PString a)) => forall v, eval [] q es x = Ok v -> has_attr es v a = Ok (VBool true)
  | mkCap CTag x k =>
      forall v kv, eval [] q es x = Ok v -> eval [] q es k = Ok kv -> binary_app es BHasTag v kv = Ok (VBool true)
  | _ => True
  end.
Definition caps_hold (q : request) (es : entities) (cs : caps) : Prop := forall c, In c cs -> cap_holds q es c.

(* the request is one of the request environment *)
Record env_ok (env : reqenv) (q : request) : Prop := {
  eo_p : uty (rprincipal q) = re_principal env;
  eo_a : raction q = re_action env;
  eo_r : uty (rresource q) = re_resource env;
  eo_c : TypeConforms (VRecord (rcontext q)) (re_context env) }.

(* every entity of the store conforms to the schema (declarative specification of Conform.v; equivalent to
   the boolean checker conf_entity by c11_entity) *)
Definition store_ok (sch : schema) (es : entities) : Prop :=
  forall u d, find_entity u es = Some d -> EntityConforms sch (u, d).

(* a type that only `true` inhabits (or nothing) *)
Definition always_true (t : ty) : Prop := t = TBool BTrue \/ t = TNever.

Definition dyn_result (q : request) (es : entities) (e : expr) (t : ty) (cs' : caps) : Prop :=
  (exists c, eval [] q es e = Err c /\ allowed_err c) \/
  (exists v, eval [] q es e = Ok v /\ TypeConforms v t /\ (v = VBool true -> caps_hold q es cs')).

(* the invariant of the induction: the capabilities of a True-typed expression hold unconditionally
   (this is what lets `a || b` with b : True export b's capabilities without evaluating b) *)
Definition sound_result (q : request) (es : entities) (e : expr) (t : ty) (cs' : caps) : Prop :=
  (always_true t -> caps_hold q es cs') /\ dyn_result q es e t cs'.

Definition IHfor (m : vmode) (sch : schema) (env : reqenv) (q : request) (es : entities) (e : expr) : Prop :=
  forall cs t cs', caps_hold q es cs -> tc m sch env cs e = Some (t, cs') -> sound_result q es e t cs'.

(* ---------------------------------------------------------------------------------------
   basic facts *)
Lemma at_true : always_true (TBool BTrue). Proof. left; reflexivity. Qed.
Lemma at_never : always_true TNever. Proof. right; reflexivity. Qed.

Lemma caps_hold_nil q es : caps_hold q es [].
Proof. intros c []. Qed.

Lemma caps_hold_app q es a b : caps_hold q es a -> caps_hold q es b -> caps_hold q es (caps_union a b).
Proof. intros Ha Hb c Hc. apply in_app_or in Hc. destruct Hc; auto. Qed.

Lemma caps_hold_inter_l q es a b : caps_hold q es a -> caps_hold q es (caps_inter a b).
Proof. intros Ha c Hc. apply caps_inter_In in Hc. apply Ha, Hc. Qed.
Lemma caps_hold_inter_r q es a b : caps_hold q es b -> caps_hold q es (caps_inter a b).
Proof. intros Hb c Hc. apply caps_inter_In in Hc. apply Hb, Hc. Qed.

#[local] Hint Resolve at_true at_never caps_hold_nil caps_hold_app caps_hold_inter_l caps_hold_inter_r : c03.

Ltac stat := let Hat := fresh "Hat" in intros Hat;
  first [ (destruct Hat as [Hat|Hat]; discriminate Hat) | eauto 10 with c03 ].
Ltac get_expect H t c E :=
  match type of H with context [expect ?r ?l] => destruct (expect r l) as [[t c]|] eqn:E end; [|discriminate].
Lemma expect_inv r l t c :
  expect r l = Some (t, c) -> r = Some (t, c) /\ existsb (subty Permissive t) l = true.
Proof.
  unfold expect. destruct r as [[t0 c0]|]; [|discriminate].
  destruct (existsb (subty Permissive t0) l) eqn:E; [|discriminate].
  intros H; inversion H; subst. auto.
Qed.

Lemma sub_bool_shape t : existsb (subty Permissive t) [TBool BAny] = true -> (exists x, t = TBool x) \/ t = TNever.
Proof. destruct t; cbn; try discriminate; eauto. Qed.

Lemma conf_never v : ~ TypeConforms v TNever.
Proof. intros H; inversion H. Qed.

Lemma conf_bool v x : TypeConforms v (TBool x) -> exists b, v = VBool b /\
  match x with BAny => True | BTrue => b = true | BFalse => b = false end.
Proof. intros H; inversion H; subst; eauto. Qed.

Lemma conf_vbool b x : match x with BAny => True | BTrue => b = true | BFalse => b = false end -> TypeConforms (VBool b) (TBool x).
Proof. destruct x; intros H; subst; constructor. Qed.

(* a boolean-typed (expected Bool) result is a boolean value *)
Lemma boolean_value v t : existsb (subty Permissive t) [TBool BAny] = true -> TypeConforms v t ->
  exists x b, t = TBool x /\ v = VBool b /\ match x with BAny => True | BTrue => b = true | BFalse => b = false end.
Proof.
  intros Hs Hc. destruct (sub_bool_shape _ Hs) as [[x ->]| ->].
  - destruct (conf_bool _ _ Hc) as (b & -> & Hb). eauto.
  - exfalso. eapply conf_never; eauto.
Qed.

Lemma vbool_inj a b : VBool a = VBool b -> a = b.
Proof. intros H; inversion H; auto. Qed.

(* ---------------------------------------------------------------------------------------
   unfolding of the evaluator *)
Lemma eval_and q es a b : eval [] q es (And a b) =
  (do va <- eval [] q es a; do x <- as_bool va;
   if x then (do vb <- eval [] q es b; do y <- as_bool vb; Ok (VBool y)) else Ok (VBool false)).
Proof. reflexivity. Qed.
Lemma eval_or q es a b : eval [] q es (Or a b) =
  (do va <- eval [] q es a; do x <- as_bool va;
   if x then Ok (VBool true) else (do vb <- eval [] q es b; do y <- as_bool vb; Ok (VBool y))).
Proof. reflexivity. Qed.
Lemma eval_if q es c x y : eval [] q es (If c x y) =
  (do vc <- eval [] q es c; do b <- as_bool vc; if b then eval [] q es x else eval [] q es y).
Proof. reflexivity. Qed.
Lemma eval_not q es a : eval [] q es (UnApp UNot a) = (do v <- eval [] q es a; unary_app UNot v).
Proof. reflexivity. Qed.
Lemma eval_eq q es a b : eval [] q es (BinApp BEq a b) =
  (do va <- eval [] q es a; do vb <- eval [] q es b; Ok (VBool (value_eqb va vb))).
Proof. reflexivity. Qed.
Lemma eval_getattr q es x a : eval [] q es (GetAttr x a) = (do v <- eval [] q es x; get_attr es v a).
Proof. reflexivity. Qed.
Lemma eval_hasattr q es x a : eval [] q es (HasAttr x a) = (do v <- eval [] q es x; has_attr es v a).
Proof. reflexivity. Qed.


(* ---------------------------------------------------------------------------------------
   && *)
Lemma sound_and m sch env q es a b :
  IHfor m sch env q es a -> IHfor m sch env q es b -> IHfor m sch env q es (And a b).
Proof.
  intros IHa IHb cs t cs' Hcs Htc. cbn [tc] in Htc.
  get_expect Htc ta ca Ea. apply expect_inv in Ea. destruct Ea as [Ea Hsa].
  destruct (IHa _ _ _ Hcs Ea) as [Sa Da].
  assert (Hb : forall tb cb, tc m sch env (caps_union cs ca) b = Some (tb, cb) ->
               caps_hold q es (caps_union cs ca) -> sound_result q es b tb cb) by (intros; eapply IHb; eauto).
  split.
  - (* static part *)
    destruct (sub_bool_shape _ Hsa) as [[xa ->]| ->]; [destruct xa|];
      try (inversion Htc; subst; stat; fail);
      (get_expect Htc tb cb Eb; apply expect_inv in Eb; destruct Eb as [Eb Hsb];
       destruct (sub_bool_shape _ Hsb) as [[xb ->]| ->]; [destruct xb|]; inversion Htc; subst;
       let Hat := fresh "Hat" in intros Hat;
       first [ (destruct Hat as [Hat|Hat]; discriminate Hat)
             | (assert (Hca : caps_hold q es ca) by (apply Sa; eauto with c03);
                destruct (Hb _ _ Eb (caps_hold_app _ _ _ _ Hcs Hca)) as [Sb _];
                eauto 8 with c03) ]).
  - (* dynamic part *)
    unfold dyn_result. destruct Da as [(c & He & Hc)|(va & He & Hva & Hcapa)].
    { left. exists c. rewrite eval_and, He. auto. }
    destruct (boolean_value _ _ Hsa Hva) as (xa & ba & -> & -> & Hba).
    rewrite eval_and, He. cbn [bind as_bool VBool].
    destruct ba.
    + assert (Hcs2 : caps_hold q es (caps_union cs ca)) by (apply caps_hold_app; auto).
      destruct xa; try discriminate Hba;
        (get_expect Htc tb cb Eb; apply expect_inv in Eb; destruct Eb as [Eb Hsb];
         destruct (Hb _ _ Eb Hcs2) as [Sb [(c & He2 & Hc)|(vb & He2 & Hvb & Hcapb)]];
         [left; exists c; rewrite He2; auto|];
         destruct (boolean_value _ _ Hsb Hvb) as (xb & bb & -> & -> & Hbb);
         right; rewrite He2; cbn [bind as_bool VBool]; exists (VBool bb); split; [reflexivity|];
         destruct xb; inversion Htc; subst; (split; [apply conf_vbool; auto|]);
         intros Hv; apply vbool_inj in Hv; subst; try discriminate; eauto 6 with c03).
    + right. exists (VBool false). split; [reflexivity|].
      destruct xa; try discriminate Hba.
      * get_expect Htc tb cb Eb. apply expect_inv in Eb. destruct Eb as [Eb Hsb].
        destruct (sub_bool_shape _ Hsb) as [[xb ->]| ->];
          [destruct xb|]; inversion Htc; subst; (split; [apply conf_vbool; auto|]); intros Hv; discriminate Hv.
      * inversion Htc; subst. split; [apply conf_vbool; auto|]. intros Hv; discriminate Hv.
Qed.

(* ---------------------------------------------------------------------------------------
   ||  (capabilities on both sides: intersection; a True-typed right operand exports its capabilities) *)
Lemma sound_or m sch env q es a b :
  IHfor m sch env q es a -> IHfor m sch env q es b -> IHfor m sch env q es (Or a b).
Proof.
  intros IHa IHb cs t cs' Hcs Htc. cbn [tc] in Htc.
  get_expect Htc ta ca Ea. apply expect_inv in Ea. destruct Ea as [Ea Hsa].
  destruct (IHa _ _ _ Hcs Ea) as [Sa Da].
  split.
  - destruct (sub_bool_shape _ Hsa) as [[xa ->]| ->]; [destruct xa|];
      try (inversion Htc; subst; stat; fail);
      (get_expect Htc tb cb Eb; apply expect_inv in Eb; destruct Eb as [Eb Hsb];
       destruct (IHb _ _ _ Hcs Eb) as [Sb _];
       destruct (sub_bool_shape _ Hsb) as [[xb ->]| ->]; [destruct xb|]; inversion Htc; subst; stat).
  - unfold dyn_result. destruct Da as [(c & He & Hc)|(va & He & Hva & Hcapa)].
    { left. exists c. rewrite eval_or, He. auto. }
    destruct (boolean_value _ _ Hsa Hva) as (xa & ba & -> & -> & Hba).
    rewrite eval_or, He. cbn [bind as_bool VBool].
    destruct ba.
    + (* left operand true: the right one is not evaluated *)
      right. exists (VBool true). split; [reflexivity|].
      destruct xa; try discriminate Hba.
      * get_expect Htc tb cb Eb. apply expect_inv in Eb. destruct Eb as [Eb Hsb].
        destruct (IHb _ _ _ Hcs Eb) as [Sb _].
        destruct (sub_bool_shape _ Hsb) as [[xb ->]| ->]; [destruct xb|]; inversion Htc; subst;
          (split; [apply conf_vbool; auto|]); intros _; eauto 6 with c03.
      * inversion Htc; subst. split; [apply conf_vbool; auto|]. intros _. auto.
    + destruct xa; try discriminate Hba;
        (get_expect Htc tb cb Eb; apply expect_inv in Eb; destruct Eb as [Eb Hsb];
         destruct (IHb _ _ _ Hcs Eb) as [Sb [(c & He2 & Hc)|(vb & He2 & Hvb & Hcapb)]];
         [left; exists c; rewrite He2; auto|];
         destruct (boolean_value _ _ Hsb Hvb) as (xb & bb & -> & -> & Hbb);
         right; rewrite He2; cbn [bind as_bool VBool]; exists (VBool bb); split; [reflexivity|];
         destruct xb; inversion Htc; subst;
         (split; [apply conf_vbool; auto|]); intros Hv; apply vbool_inj in Hv; subst; try discriminate; eauto 6 with c03).
Qed.

(* ---------------------------------------------------------------------------------------
   ! *)
Lemma sound_not m sch env q es a :
  IHfor m sch env q es a -> IHfor m sch env q es (UnApp UNot a).
Proof.
  intros IHa cs t cs' Hcs Htc. cbn [tc] in Htc.
  get_expect Htc ta ca Ea. apply expect_inv in Ea. destruct Ea as [Ea Hsa].
  destruct (IHa _ _ _ Hcs Ea) as [Sa Da].
  assert (Hnil : cs' = []).
  { destruct ta as [|b0| | | | | |]; try destruct b0; inversion Htc; reflexivity. }
  subst cs'. split; [intros _; apply caps_hold_nil|].
  unfold dyn_result. destruct Da as [(c & He & Hc)|(va & He & Hva & Hcapa)].
  { left. exists c. rewrite eval_not, He. auto. }
  destruct (boolean_value _ _ Hsa Hva) as (xa & ba & -> & -> & Hba).
  right. rewrite eval_not, He. cbn [bind unary_app as_bool VBool]. exists (VBool (negb ba)). split; [reflexivity|].
  destruct xa; inversion Htc; subst; (split; [apply conf_vbool; cbn; auto|]); intros _; apply caps_hold_nil.
Qed.

(* ---------------------------------------------------------------------------------------
   == *)
Lemma lub_contains_in l t : In t l -> lub_contains l t = true.
Proof.
  intros H. unfold lub_contains. apply existsb_exists. exists t. split; [exact H|apply name_eqb_refl].
Qed.

Lemma disjoint_not_equal va vb ta tb :
  disjoint_tys ta tb = true -> TypeConforms va ta -> TypeConforms vb tb -> value_eqb va vb = false.
Proof.
  destruct ta as [| | | | |[|x]| |]; try discriminate. destruct tb as [| | | | |[|y]| |]; try discriminate.
  cbn [disjoint_tys]. intros Hd Ha Hb. inversion Ha; subst. inversion Hb; subst.
  cbn. destruct (uid_eqb u u0) eqn:E; [|reflexivity].
  apply uid_eqb_eq in E. subst u0.
  rewrite forallb_forall in Hd. specialize (Hd _ H1). rewrite (lub_contains_in _ _ H2) in Hd. discriminate.
Qed.

Lemma replace_action_lit env q es e p :
  env_ok env q -> replace_action env e = Lit p -> eval [] q es e = Ok (VPrim p).
Proof.
  intros [_ Ha _ _]. destruct e; cbn [replace_action]; try discriminate.
  - intros H; inversion H; reflexivity.
  - destruct v; try discriminate. intros H; inversion H; subst. cbn. unfold VEntity. rewrite Ha. reflexivity.
Qed.

Lemma sound_eq m sch env q es a b :
  env_ok env q ->
  IHfor m sch env q es a -> IHfor m sch env q es b -> IHfor m sch env q es (BinApp BEq a b).
Proof.
  intros Henv IHa IHb cs t cs' Hcs Htc. cbn [tc] in Htc.
  destruct (tc m sch env cs a) as [[ta ca]|] eqn:Ea; [|discriminate].
  destruct (tc m sch env cs b) as [[tb cb]|] eqn:Eb; [|discriminate].
  assert (Ht : t = type_of_equality env a ta b tb /\ cs' = []).
  { destruct (is_strict m); [destruct (strict_eq_ok _ _ _ _)|]; inversion Htc; auto. }
  destruct Ht as [-> ->]. clear Htc. split; [intros _; apply caps_hold_nil|].
  unfold dyn_result.
  destruct (IHa _ _ _ Hcs Ea) as [_ [(c & He & Hc)|(va & He & Hva & _)]].
  { left. exists c. rewrite eval_eq, He. auto. }
  destruct (IHb _ _ _ Hcs Eb) as [_ [(c & He2 & Hc)|(vb & He2 & Hvb & _)]].
  { left. exists c. rewrite eval_eq, He, He2. auto. }
  right. exists (VBool (value_eqb va vb)). rewrite eval_eq, He, He2. split; [reflexivity|].
  split; [|intros _; apply caps_hold_nil].
  unfold type_of_equality. destruct (disjoint_tys ta tb) eqn:Ed.
  - rewrite (disjoint_not_equal _ _ _ _ Ed Hva Hvb). constructor.
  - destruct (replace_action env a) eqn:Ra; try constructor.
    destruct (replace_action env b) eqn:Rb; try constructor.
    rewrite (replace_action_lit _ _ es _ _ Henv Ra) in He. rewrite (replace_action_lit _ _ es _ _ Henv Rb) in He2.
    inversion He; inversion He2; subst. cbn [value_eqb]. unfold ty_singleton. destruct (prim_eqb p p0); constructor.
Qed.

(* ---------------------------------------------------------------------------------------
   literals and variables *)
Lemma euid_literal_ty_inv sch u t : euid_literal_ty sch u = Some t -> t = ty_entity (uty u).
Proof.
  unfold euid_literal_ty. destruct (is_action_type (uty u)).
  - destruct (known_action sch u); intros H; inversion H; reflexivity.
  - destruct (find_etype sch (uty u)); intros H; inversion H; reflexivity.
Qed.

Lemma conf_entity_single u : TypeConforms (VEntity u) (ty_entity (uty u)).
Proof. apply TC_entity. left. reflexivity. Qed.

Lemma sound_lit m sch env q es p : IHfor m sch env q es (Lit p).
Proof.
  intros cs t cs' _ Htc.
  assert (Hnil : cs' = []).
  { destruct p; cbn [tc] in Htc; try (inversion Htc; reflexivity).
    destruct (euid_literal_ty sch u); inversion Htc; reflexivity. }
  subst cs'. split; [intros _; apply caps_hold_nil|].
  right. exists (VPrim p). split; [reflexivity|]. split; [|intros _; apply caps_hold_nil].
  destruct p; cbn [tc] in Htc.
  - inversion Htc; subst. destruct b; constructor.
  - inversion Htc; subst. constructor.
  - inversion Htc; subst. constructor.
  - destruct (euid_literal_ty sch u) eqn:E; [|discriminate]. inversion Htc; subst.
    apply euid_literal_ty_inv in E. subst. apply conf_entity_single.
Qed.

Lemma sound_var m sch env q es v : env_ok env q -> IHfor m sch env q es (Var v).
Proof.
  intros [Hp Ha Hr Hc] cs t cs' _ Htc.
  cbn [tc] in Htc. destruct (ty_of_var sch env v) eqn:E; [|discriminate]. inversion Htc; subst.
  split; [intros _; apply caps_hold_nil|].
  right. exists (eval_var q v). split; [reflexivity|]. split; [|intros _; apply caps_hold_nil].
  destruct v; cbn [ty_of_var eval_var] in *.
  - inversion E; subst. rewrite <- Hp. apply conf_entity_single.
  - apply euid_literal_ty_inv in E. subst. rewrite <- Ha. apply conf_entity_single.
  - inversion E; subst. rewrite <- Hr. apply conf_entity_single.
  - inversion E; subst. exact Hc.
Qed.

