(* ExtDurationProofs.v — C07: characterisation of the duration parser *)
From Coq Require Import Lia ZArith NArith List Bool.
From Cedar Require Import ExtParse ExtParseProofs.
Import ListNotations.
Open Scope list_scope.
Open Scope Z_scope.

Definition grp (c : option str) (u : str) : str :=
  match c with Some ds => ds ++ u | None => [] end.

Fixpoint render (us : list str) (caps : list (option str)) : str :=
  match us, caps with
  | u :: us', c :: caps' => grp c u ++ render us' caps'
  | _, _ => []
  end.

Definition cap_wf (c : option str) : Prop :=
  match c with Some ds => ds <> [] /\ all_ascii_digits ds = true | None => True end.

Definition nondigit_head (s : str) : Prop :=
  exists c t, s = c :: t /\ is_ascii_digit c = false.

Lemma strip_prefix_sound u : forall s r, strip_prefix u s = Some r -> s = u ++ r.
Proof.
  induction u as [|a u IH]; intros s r H; cbn in H.
  - inversion H; reflexivity.
  - destruct s as [|b s]; [discriminate|]. destruct (N.eqb_spec a b); [|discriminate].
    subst. cbn. f_equal. apply IH; assumption.
Qed.

Lemma strip_prefix_complete u r : strip_prefix u (u ++ r) = Some r.
Proof. induction u as [|a u IH]; cbn; [reflexivity|]. rewrite N.eqb_refl. exact IH. Qed.

Lemma take_group_sound u s ds r :
  take_group u s = Some (ds, r) -> s = ds ++ u ++ r /\ ds <> [] /\ all_ascii_digits ds = true.
Proof.
  unfold take_group. destruct (span is_ascii_digit s) as [a b] eqn:S.
  apply span_spec in S. destruct S as (E & F & _).
  destruct a as [|a0 a']; [discriminate|].
  destruct (strip_prefix u b) as [r'|] eqn:P; [|discriminate].
  intros H; inversion H; subst. apply strip_prefix_sound in P. subst b.
  rewrite all_ascii_digits_forallb. repeat split; auto. discriminate.
Qed.

Lemma take_group_complete u ds r :
  ds <> [] -> all_ascii_digits ds = true -> nondigit_head u ->
  take_group u (ds ++ u ++ r) = Some (ds, r).
Proof.
  intros Hne Hd (c & t & -> & Hc). unfold take_group.
  rewrite all_ascii_digits_forallb in Hd.
  rewrite (span_exact is_ascii_digit ds ((c :: t) ++ r) Hd) by (cbn; exact Hc).
  destruct ds; [congruence|]. rewrite strip_prefix_complete. reflexivity.
Qed.

Lemma mg_sound : forall us s caps,
  match_groups us s = Some caps ->
  length caps = length us /\ s = render us caps /\ Forall cap_wf caps.
Proof.
  induction us as [|u us IH]; intros s caps H; cbn [match_groups] in H.
  - destruct s; [|discriminate]. inversion H; subst. cbn. auto.
  - assert (SK : forall caps0, match_groups us s = Some caps0 ->
                 length (None :: caps0) = length (u :: us) /\ s = render (u :: us) (None :: caps0) /\ Forall cap_wf (None :: caps0)).
    { intros caps0 M. destruct (IH _ _ M) as (L & E & W). cbn. repeat split; auto. constructor; cbn; auto. }
    destruct (take_group u s) as [[ds r]|] eqn:T.
    + destruct (match_groups us r) as [caps0|] eqn:M.
      * inversion H; subst. destruct (IH _ _ M) as (L & E & W).
        destruct (take_group_sound _ _ _ _ T) as (Es & N0 & D).
        cbn. repeat split; auto.
        -- rewrite Es, E, <- app_assoc. reflexivity.
        -- constructor; cbn; auto.
      * destruct (match_groups us s) as [caps0|] eqn:M'; [|discriminate]. inversion H; subst. apply SK; reflexivity.
    + destruct (match_groups us s) as [caps0|] eqn:M'; [|discriminate]. inversion H; subst. apply SK; reflexivity.
Qed.

Lemma mg_none_head : forall us s, nondigit_head s -> match_groups us s = None.
Proof.
  induction us as [|u us IH]; intros s (c & t & -> & Hc); cbn [match_groups]; [reflexivity|].
  assert (T : take_group u (c :: t) = None) by (unfold take_group; cbn; rewrite Hc; reflexivity).
  rewrite T. rewrite IH by (exists c, t; auto). reflexivity.
Qed.

Lemma digit_run_unique : forall a b x y,
  all_ascii_digits a = true -> all_ascii_digits b = true -> nondigit_head x -> nondigit_head y ->
  a ++ x = b ++ y -> a = b /\ x = y.
Proof.
  induction a as [|c a IH]; intros b x y Ha Hb Hx Hy E.
  - destruct b as [|c' b]; [auto|]. exfalso. destruct Hx as (cx & tx & -> & Hcx). cbn in E. inversion E; subst.
    cbn in Hb. rewrite Hcx in Hb. discriminate.
  - destruct b as [|c' b].
    + exfalso. destruct Hy as (cy & ty & -> & Hcy). cbn in E. inversion E; subst.
      cbn in Ha. rewrite Hcy in Ha. discriminate.
    + cbn in E. inversion E; subst. cbn in Ha, Hb. apply andb_true_iff in Ha, Hb.
      destruct (IH b x y) as [-> ->]; tauto.
Qed.

(* when u and a later unit u'' both continue the same text, what follows u is not a digit *)
Definition sep_ok (u u'' : str) : Prop :=
  forall r' rest'', u ++ r' = u'' ++ rest'' -> nondigit_head r'.

Fixpoint units_ok (us : list str) : Prop :=
  match us with
  | [] => True
  | u :: us' => nondigit_head u /\ Forall (sep_ok u) us' /\ units_ok us'
  end.

Lemma units_ok_heads us : units_ok us -> Forall nondigit_head us.
Proof. induction us as [|u us IH]; cbn; [constructor|]. intros (H & _ & R). constructor; auto. Qed.

Lemma nondigit_head_app u r : nondigit_head u -> nondigit_head (u ++ r).
Proof. intros (c & t & -> & H). exists c, (t ++ r). auto. Qed.

Lemma skip_ok u : nondigit_head u -> forall us' caps',
  Forall cap_wf caps' -> Forall (sep_ok u) us' -> Forall nondigit_head us' ->
  forall ds' r', render us' caps' = ds' ++ u ++ r' -> ds' <> [] -> all_ascii_digits ds' = true ->
  nondigit_head r'.
Proof.
  intros Hu. induction us' as [|u'' us'' IH]; intros caps' W Sp Hd ds' r' E N0 D.
  - cbn in E. symmetry in E. apply app_eq_nil in E. tauto.
  - destruct caps' as [|c'' caps'']; [cbn in E; symmetry in E; apply app_eq_nil in E; tauto|].
    inversion W; subst. inversion Sp; subst. inversion Hd; subst.
    destruct c'' as [ds''|]; cbn [render grp] in E.
    + rewrite <- app_assoc in E. destruct H1 as [N1 D1].
      destruct (digit_run_unique ds'' ds' (u'' ++ render us'' caps'') (u ++ r') D1 D) as [_ E2]; auto using nondigit_head_app.
      symmetry in E2. exact (H3 _ _ E2).
    + cbn in E. eapply IH; eauto.
Qed.

Lemma mg_complete : forall us caps s,
  units_ok us -> length caps = length us -> Forall cap_wf caps -> s = render us caps ->
  match_groups us s = Some caps.
Proof.
  induction us as [|u us IH]; intros caps s U L W E.
  - destruct caps; [|discriminate]. subst. reflexivity.
  - destruct caps as [|c caps]; [discriminate|]. cbn in L. inversion W; subst.
    destruct U as (Hu & Sp & U'). cbn [match_groups].
    destruct c as [ds|]; cbn [render grp].
    + destruct H1 as [N0 D]. rewrite <- app_assoc. rewrite (take_group_complete u ds _ N0 D Hu).
      rewrite (IH caps _ U' ltac:(lia) H2 eq_refl). reflexivity.
    + cbn [app]. rewrite (IH caps _ U' ltac:(lia) H2 eq_refl).
      destruct (take_group u (render us caps)) as [[ds' r']|] eqn:T; [|reflexivity].
      destruct (take_group_sound _ _ _ _ T) as (Es & N0 & D).
      pose proof (skip_ok u Hu us caps H2 Sp (units_ok_heads _ U') ds' r' Es N0 D) as Hr.
      rewrite (mg_none_head us r' Hr). reflexivity.
Qed.

Lemma duration_units_ok : units_ok duration_units.
Proof.
  unfold duration_units. cbn [units_ok].
  repeat split; try (eexists _, _; split; [reflexivity|reflexivity]);
    repeat constructor;
    intros r' rest'' H; cbn in H; inversion H; subst; eexists _, _; split; reflexivity.
Qed.

(* ------------------------------------------------------------------ arithmetic *)
Definition cap_val (c : option str) : Z :=
  match c with Some ds => digits_val ds | None => 0 end.

Definition dur_total (neg : bool) (d h m sec ms : Z) : Z :=
  (if neg then -1 else 1) * (d * 86400000 + h * 3600000 + m * 60000 + sec * 1000 + ms).

Lemma cap_val_nonneg c : cap_wf c -> 0 <= cap_val c.
Proof. destruct c as [ds|]; cbn; [intros [_ D]; apply digits_val_nonneg; exact D|lia]. Qed.

Lemma get_number_spec c :
  get_number c = if cap_val c <=? u64_max then Some (cap_val c) else None.
Proof. destruct c; reflexivity. Qed.

Lemma in_i64_false z : in_i64 z = false <-> z < -9223372036854775808 \/ 9223372036854775807 < z.
Proof.
  unfold in_i64, i64_min, i64_max. rewrite andb_false_iff, !Z.leb_gt. tauto.
Qed.

Definition dur_chain (neg : bool) (d h m sec ms : Z) : option Z :=
  let? ms0 := (let v := if neg then - ms else ms in if in_i64 v then Some v else None) in
  let? a := dur_checked_op neg ms0 sec 1000 in
  let? a := dur_checked_op neg a m 60000 in
  let? a := dur_checked_op neg a h 3600000 in
  dur_checked_op neg a d 86400000.

Ltac conv :=
  repeat match goal with
  | H : in_i64 _ = true |- _ => apply in_i64_bounds in H
  | H : in_i64 _ = false |- _ => apply in_i64_false in H
  | H : negb _ = true |- _ => apply negb_true_iff in H
  | H : negb _ = false |- _ => apply negb_false_iff in H
  | H : (_ <? _) = true |- _ => apply Z.ltb_lt in H
  | H : (_ <? _) = false |- _ => apply Z.ltb_ge in H
  end.

Lemma dur_chain_spec neg d h m sec ms v :
  0 <= d -> 0 <= h -> 0 <= m -> 0 <= sec -> 0 <= ms ->
  (dur_chain neg d h m sec ms = Some v <-> v = dur_total neg d h m sec ms /\ in_i64 v = true).
Proof.
  intros Hd Hh Hm Hs Hms. unfold dur_chain, obind, dur_checked_op, dur_total, i64_max.
  destruct neg; cbv zeta;
    repeat (match goal with |- context [if ?c then _ else _] =>
              let E := fresh "E" in destruct c eqn:E end; cbv beta iota);
    (split; [intros H; first [discriminate | (inversion H; subst; clear H; conv; split; [lia|apply in_i64_bounds; lia])]
            | intros [-> I]; conv; try (exfalso; lia); f_equal; lia]).
Qed.

(* ------------------------------------------------------------------ the parser *)
Definition strip_minus (s : str) : str := match s with 45%N :: r => r | _ => s end.

Definition dur_body (s : str) : option Z :=
  match duration_regex s with
  | Some [cd; ch; cm; cs; cms] =>
      let? d := get_number cd in
      let? h := get_number ch in
      let? m := get_number cm in
      let? sec := get_number cs in
      let? ms := get_number cms in
      dur_chain (starts_with_minus s) d h m sec ms
  | _ => None
  end.

Lemma duration_parse_unfold s : s <> [] -> s <> [45%N] -> duration_parse s = dur_body s.
Proof.
  intros N1 N2. destruct s as [|c [|c' t]]; [congruence| |].
  - bits c ltac:(try reflexivity; try congruence).
  - bits c ltac:(try reflexivity; try congruence).
Qed.

Lemma strip_minus_eq s :
  s = (if starts_with_minus s then [45%N] else []) ++ strip_minus s.
Proof.
  destruct s as [|c t]; [reflexivity|]. destruct (N.eq_dec c 45) as [->|N]; [reflexivity|].
  rewrite (starts_with_minus_neq c t N). unfold strip_minus. bits c ltac:(try reflexivity; try congruence).
Qed.

Lemma render_nil : forall us caps,
  length caps = length us -> Forall cap_wf caps -> render us caps = [] -> Forall (fun c => c = None) caps.
Proof.
  induction us as [|u us IH]; intros caps L W E; destruct caps as [|c caps]; try discriminate; [constructor|].
  inversion W; subst. cbn in E. apply app_eq_nil in E. destruct E as [E1 E2].
  constructor; [|apply IH; auto].
  destruct c as [ds|]; [|reflexivity]. cbn in E1. apply app_eq_nil in E1. destruct H1. tauto.
Qed.

Lemma render_head : forall us caps c t,
  Forall cap_wf caps -> render us caps = c :: t -> is_ascii_digit c = true.
Proof.
  induction us as [|u us IH]; intros caps c t W E; [discriminate|].
  destruct caps as [|c0 caps]; [discriminate|]. inversion W; subst. cbn in E.
  destruct c0 as [ds|]; cbn in E; [|eapply IH; eauto].
  destruct H1 as [N0 D]. destruct ds as [|d0 ds']; [congruence|]. cbn in E. inversion E; subst.
  cbn in D. apply andb_true_iff in D. tauto.
Qed.

Definition dur_spec (s : str) (v : Z) : Prop :=
  exists (neg : bool) (cd ch cm cs cms : option str),
    s = (if neg then [45%N] else []) ++ render duration_units [cd; ch; cm; cs; cms] /\
    Forall cap_wf [cd; ch; cm; cs; cms] /\
    (exists c, In c [cd; ch; cm; cs; cms] /\ c <> None) /\
    v = dur_total neg (cap_val cd) (cap_val ch) (cap_val cm) (cap_val cs) (cap_val cms) /\
    in_i64 v = true.

Theorem duration_parse_sound s v : duration_parse s = Some v -> dur_spec s v.
Proof.
  intros H.
  assert (N1 : s <> []) by (intros ->; discriminate).
  assert (N2 : s <> [45%N]) by (intros ->; discriminate).
  rewrite (duration_parse_unfold s N1 N2) in H. unfold dur_body in H.
  destruct (duration_regex s) as [caps|] eqn:R; [|discriminate].
  destruct caps as [|cd [|ch [|cm [|cs [|cms [|x caps]]]]]]; try discriminate.
  unfold duration_regex in R. fold (strip_minus s) in R.
  destruct (mg_sound _ _ _ R) as (_ & E & W).
  rewrite !get_number_spec in H. unfold obind in H.
  repeat match type of H with context [if ?c then _ else _] => destruct c; [cbv beta iota in H|discriminate] end.
  inversion W as [|? ? W1 W']; subst. inversion W' as [|? ? W2 W'']; subst. inversion W'' as [|? ? W3 W''']; subst.
  inversion W''' as [|? ? W4 W'''']; subst. inversion W'''' as [|? ? W5 _]; subst.
  apply dur_chain_spec in H; auto using cap_val_nonneg. destruct H as [Ev Iv].
  exists (starts_with_minus s), cd, ch, cm, cs, cms. repeat split; auto.
  - rewrite <- E. apply strip_minus_eq.
  - destruct cd as [x|]; [exists (Some x); split; [cbn; auto|discriminate]|].
    destruct ch as [x|]; [exists (Some x); split; [cbn; auto|discriminate]|].
    destruct cm as [x|]; [exists (Some x); split; [cbn; auto|discriminate]|].
    destruct cs as [x|]; [exists (Some x); split; [cbn; auto|discriminate]|].
    destruct cms as [x|]; [exists (Some x); split; [cbn; tauto|discriminate]|].
    exfalso. cbn in E. pose proof (strip_minus_eq s) as S. rewrite E in S.
    destruct (starts_with_minus s); cbn in S; congruence.
Qed.

Theorem duration_parse_complete s v : dur_spec s v -> duration_parse s = Some v.
Proof.
  intros (neg & cd & ch & cm & cs & cms & Es & W & (c & Hin & Hc) & Ev & Iv).
  set (r := render duration_units [cd; ch; cm; cs; cms]) in *.
  assert (Rne : r <> []).
  { intros E. pose proof (render_nil duration_units [cd; ch; cm; cs; cms] eq_refl W E) as F.
    rewrite Forall_forall in F. apply Hc. apply F. exact Hin. }
  destruct r as [|r0 rt] eqn:Er; [congruence|].
  pose proof (render_head duration_units [cd; ch; cm; cs; cms] r0 rt W Er) as Hr0.
  assert (Nr0 : r0 <> 45%N) by (intros ->; discriminate).
  assert (Sm : strip_minus s = r0 :: rt /\ starts_with_minus s = neg).
  { subst s. destruct neg; cbn [app]; [split; reflexivity|].
    split; [|apply starts_with_minus_neq; exact Nr0].
    unfold strip_minus. bits r0 ltac:(try reflexivity; try congruence). }
  destruct Sm as [Sm Sn].
  assert (N1 : s <> []) by (subst s; destruct neg; discriminate).
  assert (N2 : s <> [45%N]).
  { subst s. destruct neg; cbn; [intros E; inversion E|intros E; inversion E; congruence]. }
  rewrite (duration_parse_unfold s N1 N2). unfold dur_body, duration_regex. fold (strip_minus s).
  rewrite Sm, <- Er. unfold r.
  rewrite (mg_complete duration_units [cd; ch; cm; cs; cms] _ duration_units_ok eq_refl W eq_refl).
  inversion W as [|? ? W1 W']; subst. inversion W' as [|? ? W2 W'']; subst. inversion W'' as [|? ? W3 W''']; subst.
  inversion W''' as [|? ? W4 W'''']; subst. inversion W'''' as [|? ? W5 _]; subst.
  pose proof (cap_val_nonneg _ W1). pose proof (cap_val_nonneg _ W2). pose proof (cap_val_nonneg _ W3).
  pose proof (cap_val_nonneg _ W4). pose proof (cap_val_nonneg _ W5).
  assert (B := Iv). apply in_i64_bounds in B. unfold dur_total in B.
  rewrite !get_number_spec. unfold u64_max.
  replace (cap_val cd <=? 18446744073709551615) with true by (symmetry; apply Z.leb_le; destruct neg; lia).
  replace (cap_val ch <=? 18446744073709551615) with true by (symmetry; apply Z.leb_le; destruct neg; lia).
  replace (cap_val cm <=? 18446744073709551615) with true by (symmetry; apply Z.leb_le; destruct neg; lia).
  replace (cap_val cs <=? 18446744073709551615) with true by (symmetry; apply Z.leb_le; destruct neg; lia).
  replace (cap_val cms <=? 18446744073709551615) with true by (symmetry; apply Z.leb_le; destruct neg; lia).
  cbn [obind]. rewrite Sn. apply dur_chain_spec; auto.
Qed.

Theorem duration_parse_spec s v : duration_parse s = Some v <-> dur_spec s v.
Proof. split; [apply duration_parse_sound | apply duration_parse_complete]. Qed.
