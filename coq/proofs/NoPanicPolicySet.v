(* NoPanicPolicySet.v — C20 x C08: the panic!() sites of ast::PolicySet::{unlink, remove_template} and of
   cedar_policy::PolicySet::{link, unlink, remove_template} (modelled as the outcome `OErr EPanic` in
   model/PolicySet.v) are unreachable: under the well-formedness invariant of C08 (PolicySetWF.WF / WFapi), and
   therefore along every history of API operations starting from the empty policy set. *)
From Coq Require Import List Bool.
Import ListNotations.
From Cedar Require Import PolicySet ValueProofs PolicySetWF.

Lemma ps_unlink_no_panic s i : WF s -> ps_unlink s i <> OErr EPanic.
Proof.
  intros W. unfold ps_unlink.
  destruct (amem i (ps_templates s)); [discriminate|].
  destruct (alookup i (ps_links s)) as [p|] eqn:EL; [|discriminate].
  destruct (alookup (tid (ptemplate p)) (ps_t2l s)) eqn:EM; [discriminate|].
  exfalso. destruct (wf_link _ W _ _ EL) as [_ [B _]]. apply (wf_t2l_dom _ W) in EM. congruence.
Qed.

Lemma ps_remove_template_no_panic s i : WF s -> ps_remove_template s i <> OErr EPanic.
Proof.
  intros W. unfold ps_remove_template.
  destruct (amem i (ps_links s)); [discriminate|].
  destruct (alookup i (ps_t2l s)) as [[|x l]|] eqn:EM; try discriminate.
  destruct (amem i (ps_templates s)) eqn:ET; [discriminate|].
  exfalso. apply amem_false in ET. apply (wf_t2l_dom _ W) in ET. congruence.
Qed.

Lemma ps_add_err s p e : ps_add s p = OErr e -> e = EOccupied.
Proof.
  unfold ps_add. destruct (alookup _ (ps_templates s)).
  - destruct (negb _); [intros H; inversion H; reflexivity|].
    destruct (amem _ _); intros H; inversion H; reflexivity.
  - destruct (amem _ _); intros H; inversion H; reflexivity.
Qed.

Lemma ps_add_template_err s t e : ps_add_template s t = OErr e -> e = EOccupied.
Proof.
  unfold ps_add_template. destruct (amem _ (ps_links s)); [intros H; inversion H; reflexivity|].
  destruct (amem _ _); intros H; inversion H; reflexivity.
Qed.

Lemma api_add_no_panic a p : api_add a p <> OErr EPanic.
Proof.
  unfold api_add. destruct (p_is_static p); [|discriminate].
  destruct (ps_add (a_ast a) p) eqn:E; [discriminate|]. apply ps_add_err in E. subst. discriminate.
Qed.

Lemma api_add_template_no_panic a t : api_add_template a t <> OErr EPanic.
Proof.
  unfold api_add_template. destruct (ps_add_template (a_ast a) t) eqn:E; [discriminate|].
  apply ps_add_template_err in E. subst. discriminate.
Qed.

(* the link that ps_link just inserted is found again: the `expect` in cedar_policy::PolicySet::link *)
Lemma api_link_no_panic a tmpl new env : api_link a tmpl new env <> OErr EPanic.
Proof.
  unfold api_link. destruct (alookup tmpl (a_templates a)) as [t0|]; [|destruct (amem _ _); discriminate].
  unfold ps_link. destruct (alookup tmpl (ps_templates (a_ast a))) as [t|]; [|discriminate].
  destruct (t_is_static t && amem tmpl (ps_links (a_ast a))); [discriminate|].
  destruct (negb (check_binding t env)); [discriminate|].
  destruct (amem new (ps_links (a_ast a))); [discriminate|].
  destruct (amem new (ps_templates (a_ast a))); [discriminate|].
  cbn [ps_links]. rewrite alookup_ainsert, str_eqb_refl. discriminate.
Qed.

Lemma api_unlink_no_panic a i : WFapi a -> api_unlink a i <> OErr EPanic.
Proof.
  intros WA. unfold api_unlink.
  destruct (alookup i (a_policies a)) as [p|] eqn:EP; [|discriminate].
  rewrite (wa_pol _ WA) in EP.
  pose proof (ps_unlink_no_panic (a_ast a) i (wa_ast _ WA)) as NP.
  unfold ps_unlink in *. destruct (amem i (ps_templates (a_ast a))); [discriminate|].
  rewrite EP in *.
  destruct (alookup (tid (ptemplate p)) (ps_t2l (a_ast a))); [discriminate|]. congruence.
Qed.

Lemma api_remove_template_no_panic a i : WFapi a -> api_remove_template a i <> OErr EPanic.
Proof.
  intros WA. unfold api_remove_template.
  destruct (alookup i (a_templates a)) as [t0|] eqn:ET; [|discriminate].
  rewrite (wa_tpl _ WA) in ET.
  destruct (alookup i (ps_templates (a_ast a))) as [t|] eqn:ET'; [|discriminate].
  pose proof (ps_remove_template_no_panic (a_ast a) i (wa_ast _ WA)) as NP.
  unfold ps_remove_template in *. destruct (amem i (ps_links (a_ast a))); [discriminate|].
  destruct (alookup i (ps_t2l (a_ast a))) as [[|x l]|] eqn:EM.
  - destruct (amem i (ps_templates (a_ast a))); [discriminate|congruence].
  - discriminate.
  - exfalso. apply (wf_t2l_dom _ (wa_ast _ WA)) in EM. congruence.
Qed.

Lemma api_step_no_panic h o : Hinv h -> no_merge o -> fst (snd (api_step h o)) <> OErr EPanic.
Proof.
  intros [WA FS] NM. destruct o; cbn [api_step]; try contradiction.
  - destruct (t_is_static t); [|cbn; discriminate].
    pose proof (api_add_no_panic (h_api h) (static_of t)) as NP.
    destruct (api_add (h_api h) (static_of t)); cbn; [discriminate|congruence].
  - destruct (t_is_static t); [|cbn; discriminate].
    pose proof (api_add_no_panic (h_api h) (static_of t)) as NP.
    destruct (api_add (h_api h) (static_of t)); cbn; [discriminate|congruence].
  - destruct (t_is_static t); [cbn; discriminate|].
    pose proof (api_add_template_no_panic (h_api h) t) as NP.
    destruct (api_add_template (h_api h) t); cbn; [discriminate|congruence].
  - pose proof (api_link_no_panic (h_api h) tmpl new env) as NP.
    destruct (api_link (h_api h) tmpl new env); cbn; [discriminate|congruence].
  - pose proof (api_unlink_no_panic (h_api h) i WA) as NP.
    destruct (api_unlink (h_api h) i) as [[a p]|]; cbn; [discriminate|congruence].
  - unfold api_remove_static.
    destruct (alookup i (a_policies (h_api h))); [|cbn; discriminate].
    destruct (ps_remove_static (a_ast (h_api h)) i) as [[a p0]|]; cbn; discriminate.
  - pose proof (api_remove_template_no_panic (h_api h) i WA) as NP.
    destruct (api_remove_template (h_api h) i); cbn; [discriminate|congruence].
  - destruct (h_stash h) as [|p0 st]; [cbn; discriminate|].
    match goal with |- context [api_add ?a ?p] => pose proof (api_add_no_panic a p) as NP; destruct (api_add a p) end;
      cbn; [discriminate|congruence].
Qed.

(* every step of every merge-free history from the empty policy set: no panic!() site is reached *)
Theorem api_history_no_panic : forall pre o,
  Forall no_merge pre -> no_merge o ->
  fst (snd (api_step (run_ops api_step pre empty_h) o)) <> OErr EPanic.
Proof.
  intros pre o F NM. apply api_step_no_panic; [|exact NM].
  apply api_history_Hinv; [exact Hinv_empty|exact F].
Qed.
