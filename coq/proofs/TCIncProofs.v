(* TCIncProofs.v — the incremental layer (C04): repair_tc as coded computes the closure.
   (b) repair on the touched entities computes exactly reachability, given a sound store whose
       untouched entities are complete and an acyclic parent graph;
   (a) for add (any batch) and remove (one uid) the edit phase establishes those preconditions;
   (c) in the acyclic case the self-loop test on touched nodes passes. *)
From Coq Require Import Lia.
From Cedar Require Import TC TCProofs.
Open Scope N_scope.

(* ------------------------------------------------------------------ reachability *)
Lemma reach_trans g a b c : reach g a b -> reach g b c -> reach g a c.
Proof.
  intros Hab Hbc. induction Hbc as [p Hp | x p Hx IH Hp].
  - eapply reach_step; eassumption.
  - eapply reach_step; eassumption.
Qed.

Lemma reach_inv_first g u y : reach g u y ->
  In y (parents_of g u) \/ exists p, In p (parents_of g u) /\ reach g p y.
Proof.
  induction 1 as [p Hp | b p Hb IH Hp].
  - left; exact Hp.
  - right. destruct IH as [Hb1 | [q [Hq Hqb]]].
    + exists b. split; [exact Hb1 | apply reach_parent; exact Hp].
    + exists q. split; [exact Hq | eapply reach_step; eassumption].
Qed.

Lemma reach_in_parents g u a : reach g u a -> In a (flat_map snd g).
Proof. destruct 1 as [p Hp | b p _ Hp]; eapply parents_of_incl; exact Hp. Qed.

Definition acyclic (g : graph) : Prop := forall x, ~ reach g x x.

(* ------------------------------------------------------------------ store facts *)
Lemma find_update_same u f s : find u (update u f s) = option_map f (find u s).
Proof.
  unfold update. induction s as [|[k n] s IH]; cbn [map find fst snd option_map]; [reflexivity|].
  destruct (N.eqb u k) eqn:E; cbn [fst snd find]; rewrite E; [reflexivity | exact IH].
Qed.

Lemma find_update_other u x f s : x <> u -> find x (update u f s) = find x s.
Proof.
  intros Hx. unfold update. induction s as [|[k n] s IH]; cbn [map find fst snd]; [reflexivity|].
  destruct (N.eqb u k) eqn:E; cbn [fst snd find].
  - apply N.eqb_eq in E. subst. destruct (N.eqb x k) eqn:E2; [apply N.eqb_eq in E2; contradiction | exact IH].
  - destruct (N.eqb x k); [reflexivity | exact IH].
Qed.

Lemma graph_of_update u f s : (forall n, n_parents (f n) = n_parents n) -> graph_of (update u f s) = graph_of s.
Proof.
  intros Hf. unfold update, graph_of. rewrite map_map. apply map_ext. intros [k n]. cbn [fst snd].
  destruct (N.eqb u k); cbn [fst snd]; [rewrite Hf|]; reflexivity.
Qed.

Lemma add_indirect_parents n a : n_parents (add_indirect n a) = n_parents n.
Proof. unfold add_indirect. destruct (mem a (n_parents n)); reflexivity. Qed.

Lemma fold_add_indirect_parents acc : forall n, n_parents (fold_left add_indirect acc n) = n_parents n.
Proof. induction acc as [|a acc IH]; intros n; cbn [fold_left]; [reflexivity|]. rewrite IH. apply add_indirect_parents. Qed.

Lemma add_set_In x y l : In y (add_set x l) <-> y = x \/ In y l.
Proof.
  unfold add_set. destruct (mem x l) eqn:M.
  - apply mem_In in M. split; [auto|]. intros [-> | H]; assumption.
  - rewrite in_app_iff. cbn [In]. intuition.
Qed.

Lemma add_indirect_anc n a y : In y (ancestors (add_indirect n a)) <-> In y (ancestors n) \/ y = a.
Proof.
  unfold add_indirect, ancestors. destruct (mem a (n_parents n)) eqn:M.
  - apply mem_In in M. rewrite in_app_iff. split; [auto|]. intros [H | ->]; [exact H | left; exact M].
  - cbn [n_parents n_indirect]. rewrite !in_app_iff, add_set_In. tauto.
Qed.

Lemma fold_add_indirect_anc acc : forall n y,
  In y (ancestors (fold_left add_indirect acc n)) <-> In y (ancestors n) \/ In y acc.
Proof.
  induction acc as [|a acc IH]; intros n y; cbn [fold_left In]; [tauto|].
  rewrite IH, add_indirect_anc. intuition.
Qed.

Lemma parents_of_graph_of s u n : find u s = Some n -> parents_of (graph_of s) u = n_parents n.
Proof. intros F. unfold parents_of. rewrite find_gfind, F. reflexivity. Qed.

Lemma same_graph_find_some s s' u n : graph_of s' = graph_of s -> find u s = Some n ->
  exists n', find u s' = Some n' /\ n_parents n' = n_parents n.
Proof.
  intros G F. pose proof (find_gfind s u) as A. pose proof (find_gfind s' u) as B.
  rewrite G, A, F in B. destruct (find u s') as [n'|]; cbn in B; [|discriminate].
  exists n'. split; [reflexivity | congruence].
Qed.

(* ------------------------------------------------------------------ invariants of the DFS *)
Definition Sound (g : graph) (s : store) : Prop :=
  forall u n, find u s = Some n -> forall a, In a (ancestors n) -> reach g u a.
Definition complete (g : graph) (s : store) (x : uid) : Prop :=
  forall n, find x s = Some n -> forall a, reach g x a -> In a (ancestors n).
Definition mono (s s' : store) : Prop :=
  forall x n, find x s = Some n -> exists n', find x s' = Some n' /\ incl (ancestors n) (ancestors n').
Definition St (g : graph) (s : store) : Prop := graph_of s = g /\ Sound g s.

Lemma mono_refl s : mono s s.
Proof. intros x n F. exists n. split; [exact F | apply incl_refl]. Qed.

Lemma mono_trans s1 s2 s3 : mono s1 s2 -> mono s2 s3 -> mono s1 s3.
Proof.
  intros A B x n F. destruct (A x n F) as [n2 [F2 I2]]. destruct (B x n2 F2) as [n3 [F3 I3]].
  exists n3. split; [exact F3 | eapply incl_tran; eassumption].
Qed.

Lemma complete_mono g s s' x : graph_of s = g -> graph_of s' = g -> mono s s' -> complete g s x -> complete g s' x.
Proof.
  intros G G' M C n' F' a Hr.
  destruct (find x s) as [n|] eqn:F.
  - destruct (M x n F) as [n2 [F2 I2]]. assert (n2 = n') by congruence. subst n2.
    apply I2. eapply C; [exact F | exact Hr].
  - exfalso. rewrite <- G in Hr. eapply absent_no_reach; eassumption.
Qed.

(* the loop of add_ancestors over the snapshot of out-edges, with the recursive call abstracted *)
Definition loop_f (rec : uid -> store -> list uid -> option (store * list uid)) :=
  fix loop (edges : list uid) (s : store) (seen explored acc : list uid)
      : option (store * list uid * list uid) :=
    match edges with
    | [] => Some (s, seen, acc)
    | a :: rest =>
        match (if mem a seen then Some (s, seen) else rec a s (a :: seen)) with
        | None => None
        | Some (s', seen') =>
            if mem a explored then loop rest s' seen' explored acc
            else loop rest s' seen' (a :: explored)
                   (match find a s' with Some an => acc ++ ancestors an | None => acc end)
        end
    end.

Lemma add_anc_S f u s seen :
  add_anc (Datatypes.S f) u s seen =
  match find u s with
  | None => Some (s, seen)
  | Some n =>
      match loop_f (add_anc f) (ancestors n) s seen [] [] with
      | None => None
      | Some (s', seen', acc) => Some (update u (fun m => fold_left add_indirect acc m) s', seen')
      end
  end.
Proof. reflexivity. Qed.

(* the measure: uids that can still be inserted into `seen` *)
Definition cnt (g : graph) (seen : list uid) : nat :=
  length (filter (fun x => negb (mem x seen)) (flat_map snd g)).

Lemma filter_length_le {A} (f h : A -> bool) l :
  (forall x, f x = true -> h x = true) -> (length (filter f l) <= length (filter h l))%nat.
Proof.
  intros Hfh. induction l as [|x l IH]; cbn [filter length]; [lia|].
  destruct (f x) eqn:Fx.
  - rewrite (Hfh x Fx). cbn [length]. lia.
  - destruct (h x); cbn [length]; lia.
Qed.

Lemma filter_length_lt {A} (f h : A -> bool) l a :
  (forall x, f x = true -> h x = true) -> In a l -> f a = false -> h a = true ->
  (length (filter f l) < length (filter h l))%nat.
Proof.
  intros Hfh Hin Fa Ha. induction l as [|x l IH]; [destruct Hin|].
  cbn [filter]. destruct Hin as [-> | Hin].
  - rewrite Fa, Ha. cbn [length]. pose proof (filter_length_le f h l Hfh). lia.
  - specialize (IH Hin). destruct (f x) eqn:Fx.
    + rewrite (Hfh x Fx). cbn [length]. lia.
    + destruct (h x); cbn [length]; lia.
Qed.

Lemma cnt_antitone g seen seen' : incl seen seen' -> (cnt g seen' <= cnt g seen)%nat.
Proof.
  intros I. unfold cnt. apply filter_length_le. intros x H.
  apply negb_true_iff, mem_false in H. apply negb_true_iff, mem_false. intros Hx. apply H, I, Hx.
Qed.

Lemma cnt_strict g seen a : In a (flat_map snd g) -> ~ In a seen -> (cnt g (a :: seen) < cnt g seen)%nat.
Proof.
  intros Ha Hn. unfold cnt. apply filter_length_lt with (a := a).
  - intros x H. apply negb_true_iff, mem_false in H. apply negb_true_iff, mem_false.
    intros Hx. apply H. right; exact Hx.
  - exact Ha.
  - apply negb_false_iff, mem_In. left; reflexivity.
  - apply negb_true_iff, mem_false. exact Hn.
Qed.

Section DFS.
Variable g : graph.
Hypothesis acy : acyclic g.

Definition Pre (u : uid) (s : store) (seen : list uid) : Prop :=
  forall x, In x seen -> x = u \/ complete g s x \/ reach g x u.
Definition Post (u : uid) (s : store) (seen : list uid) (s' : store) (seen' : list uid) : Prop :=
  St g s' /\ mono s s' /\ incl seen seen' /\ complete g s' u
  /\ (forall x, In x seen' -> In x seen \/ complete g s' x).
Definition RecSpec (rec : uid -> store -> list uid -> option (store * list uid)) (k : nat) : Prop :=
  forall a s seen, St g s -> Pre a s seen -> (cnt g seen < k)%nat ->
    exists s' seen', rec a s seen = Some (s', seen') /\ Post a s seen s' seen'.

Lemma loop_spec rec k u : RecSpec rec k ->
  forall edges s seen explored acc,
    St g s -> Pre u s seen -> (cnt g seen <= k)%nat ->
    (forall a, In a edges -> reach g u a) ->
    (forall y, In y acc -> reach g u y) ->
    (forall a, In a explored -> forall y, reach g a y -> In y acc) ->
    exists s' seen' acc',
      loop_f rec edges s seen explored acc = Some (s', seen', acc')
      /\ St g s' /\ mono s s' /\ incl seen seen'
      /\ (forall x, In x seen' -> In x seen \/ complete g s' x)
      /\ (forall y, In y acc' -> reach g u y)
      /\ incl acc acc'
      /\ (forall a, In a edges -> forall y, reach g a y -> In y acc').
Proof.
  intros HR. induction edges as [|a rest IH]; intros s seen explored acc HSt HPre Hk Hedges Hacc Hexp.
  - exists s, seen, acc. cbn [loop_f]. split; [reflexivity|]. split; [exact HSt|]. split; [apply mono_refl|].
    split; [apply incl_refl|]. split; [intros x Hx; left; exact Hx|]. split; [exact Hacc|].
    split; [apply incl_refl | intros a []].
  - assert (Hua : reach g u a) by (apply Hedges; left; reflexivity).
    assert (Hstep : exists s1 seen1,
               (if mem a seen then Some (s, seen) else rec a s (a :: seen)) = Some (s1, seen1)
               /\ St g s1 /\ mono s s1 /\ incl seen seen1 /\ complete g s1 a
               /\ (forall x, In x seen1 -> In x seen \/ complete g s1 x)).
    { destruct (mem a seen) eqn:M.
      - exists s, seen. split; [reflexivity|]. split; [exact HSt|]. split; [apply mono_refl|].
        split; [apply incl_refl|]. split; [|intros x Hx; left; exact Hx].
        apply mem_In in M. destruct (HPre a M) as [E | [C | R]].
        + subst. exfalso. eapply acy; exact Hua.
        + exact C.
        + exfalso. apply (acy a). eapply reach_trans; eassumption.
      - apply mem_false in M.
        destruct (HR a s (a :: seen) HSt) as [s1 [seen1 [E [HSt1 [HM1 [HI1 [HC1 HN1]]]]]]].
        + intros x [<- | Hx]; [left; reflexivity|].
          destruct (HPre x Hx) as [-> | [C | R]].
          * right; right; exact Hua.
          * right; left; exact C.
          * right; right. eapply reach_trans; eassumption.
        + pose proof (cnt_strict g seen a (reach_in_parents g u a Hua) M). lia.
        + exists s1, seen1. split; [exact E|]. split; [exact HSt1|]. split; [exact HM1|].
          split; [intros x Hx; apply HI1; right; exact Hx|]. split; [exact HC1|].
          intros x Hx. destruct (HN1 x Hx) as [[<- | H]|H]; [right; exact HC1 | left; exact H | right; exact H]. }
    destruct Hstep as [s1 [seen1 [E [HSt1 [HM1 [HI1 [HC1 HN1]]]]]]].
    assert (HPre1 : Pre u s1 seen1).
    { intros x Hx. destruct (HN1 x Hx) as [H|H]; [|right; left; exact H].
      destruct (HPre x H) as [-> | [C | R]]; [left; reflexivity | | right; right; exact R].
      right; left. eapply complete_mono; [apply HSt | apply HSt1 | exact HM1 | exact C]. }
    assert (Hk1 : (cnt g seen1 <= k)%nat) by (pose proof (cnt_antitone g seen seen1 HI1); lia).
    assert (Hedges1 : forall b, In b rest -> reach g u b) by (intros b Hb; apply Hedges; right; exact Hb).
    cbn [loop_f]. rewrite E. fold (loop_f rec).
    destruct (mem a explored) eqn:ME.
    + apply mem_In in ME.
      destruct (IH s1 seen1 explored acc HSt1 HPre1 Hk1 Hedges1 Hacc Hexp)
        as [s' [seen' [acc' [EL [HSt' [HM' [HI' [HN' [Hacc' [Hinc' Hed']]]]]]]]]].
      exists s', seen', acc'. split; [exact EL|]. split; [exact HSt'|].
      split; [eapply mono_trans; eassumption|]. split; [eapply incl_tran; eassumption|].
      split; [|split; [exact Hacc'|split; [exact Hinc'|]]].
      * intros x Hx. destruct (HN' x Hx) as [H|H]; [|right; exact H].
        destruct (HN1 x H) as [H1|H1]; [left; exact H1|].
        right. eapply complete_mono; [apply HSt1 | apply HSt' | exact HM' | exact H1].
      * intros b [<- | Hb] y Hy; [|eapply Hed'; eassumption].
        apply Hinc'. eapply Hexp; eassumption.
    + set (acc1 := match find a s1 with Some an => acc ++ ancestors an | None => acc end).
      assert (Hinc1 : incl acc acc1).
      { unfold acc1. destruct (find a s1); [apply incl_appl|]; apply incl_refl. }
      assert (Hacc1 : forall y, In y acc1 -> reach g u y).
      { intros y Hy. unfold acc1 in Hy. destruct (find a s1) as [an|] eqn:Fa; [|apply Hacc; exact Hy].
        apply in_app_or in Hy as [Hy|Hy]; [apply Hacc; exact Hy|].
        eapply reach_trans; [exact Hua|]. destruct HSt1 as [_ HS1]. eapply HS1; eassumption. }
      assert (Hexp1 : forall b, In b (a :: explored) -> forall y, reach g b y -> In y acc1).
      { intros b [<- | Hb] y Hy.
        - unfold acc1. destruct (find a s1) as [an|] eqn:Fa.
          + apply in_or_app; right. eapply HC1; [exact Fa | exact Hy].
          + exfalso. destruct HSt1 as [G1 _]. rewrite <- G1 in Hy. eapply absent_no_reach; eassumption.
        - apply Hinc1. eapply Hexp; eassumption. }
      destruct (IH s1 seen1 (a :: explored) acc1 HSt1 HPre1 Hk1 Hedges1 Hacc1 Hexp1)
        as [s' [seen' [acc' [EL [HSt' [HM' [HI' [HN' [Hacc' [Hinc' Hed']]]]]]]]]].
      exists s', seen', acc'. split; [exact EL|]. split; [exact HSt'|].
      split; [eapply mono_trans; eassumption|]. split; [eapply incl_tran; eassumption|].
      split; [|split; [exact Hacc'|split; [eapply incl_tran; eassumption|]]].
      * intros x Hx. destruct (HN' x Hx) as [H|H]; [|right; exact H].
        destruct (HN1 x H) as [H1|H1]; [left; exact H1|].
        right. eapply complete_mono; [apply HSt1 | apply HSt' | exact HM' | exact H1].
      * intros b [<- | Hb] y Hy; [|eapply Hed'; eassumption].
        apply Hinc'. apply (Hexp1 a); [left; reflexivity | exact Hy].
Qed.

Lemma add_anc_spec : forall fuel, RecSpec (add_anc fuel) fuel.
Proof.
  induction fuel as [|f IH]; intros u s seen HSt HPre Hk; [lia|].
  rewrite add_anc_S. destruct (find u s) as [n|] eqn:F.
  - destruct HSt as [G HS].
    assert (Hedges : forall a, In a (ancestors n) -> reach g u a) by (intros a Ha; eapply HS; eassumption).
    destruct (loop_spec (add_anc f) f u IH (ancestors n) s seen [] [] (conj G HS) HPre ltac:(lia) Hedges
                ltac:(intros y []) ltac:(intros a []))
      as [s' [seen' [acc' [EL [[G' HS'] [HM' [HI' [HN' [Hacc' [_ Hed']]]]]]]]]].
    rewrite EL. eexists; eexists. split; [reflexivity|].
    set (s'' := update u (fun m => fold_left add_indirect acc' m) s').
    destruct (HM' u n F) as [n' [F' I']].
    assert (G'' : graph_of s'' = g).
    { unfold s''. rewrite graph_of_update; [exact G' | apply fold_add_indirect_parents]. }
    assert (Fu : find u s'' = Some (fold_left add_indirect acc' n')).
    { unfold s''. rewrite find_update_same, F'. reflexivity. }
    assert (M'' : mono s' s'').
    { intros x m Fx. destruct (N.eq_dec x u) as [-> | Hx].
      - rewrite F' in Fx. inversion Fx; subst. eexists. split; [exact Fu|].
        intros y Hy. apply fold_add_indirect_anc. left; exact Hy.
      - exists m. split; [unfold s''; rewrite find_update_other; assumption | apply incl_refl]. }
    split; [split; [exact G''|]|split; [|split; [exact HI'|split]]].
    + intros x m Fx a Ha. destruct (N.eq_dec x u) as [-> | Hx].
      * rewrite Fu in Fx. inversion Fx; subst. apply fold_add_indirect_anc in Ha as [Ha|Ha].
        -- eapply HS'; eassumption.
        -- apply Hacc'; exact Ha.
      * unfold s'' in Fx. rewrite find_update_other in Fx by assumption. eapply HS'; eassumption.
    + eapply mono_trans; eassumption.
    + intros m Fm y Hy. rewrite Fu in Fm. inversion Fm; subst. apply fold_add_indirect_anc.
      assert (P : parents_of g u = n_parents n) by (rewrite <- G; apply parents_of_graph_of; exact F).
      destruct (reach_inv_first g u y Hy) as [H | [p [Hp Hpy]]].
      * left. apply I'. unfold ancestors. apply in_or_app; left. rewrite <- P; exact H.
      * right. apply (Hed' p); [|exact Hpy]. unfold ancestors. apply in_or_app; left. rewrite <- P; exact Hp.
    + intros x Hx. destruct (HN' x Hx) as [H|H]; [left; exact H|].
      right. eapply complete_mono; [exact G' | exact G'' | exact M'' | exact H].
  - exists s, seen. split; [reflexivity|]. split; [exact HSt|]. split; [apply mono_refl|].
    split; [apply incl_refl|]. split; [intros n Fn; congruence | intros x Hx; left; exact Hx].
Qed.

(* the top-level loop of compute_tc_internal over the nodes to fix *)
Lemma repair_fold fuel : forall T s seen,
  St g s -> (forall x, In x seen -> complete g s x) -> (length (flat_map snd g) < fuel)%nat ->
  exists s' seen',
    fold_left (fun acc t => match acc with
                            | None => None
                            | Some (s, seen) => add_anc fuel t s seen
                            end) T (Some (s, seen)) = Some (s', seen')
    /\ St g s' /\ mono s s' /\ (forall x, In x seen -> In x seen')
    /\ (forall x, In x seen' -> complete g s' x) /\ (forall t, In t T -> complete g s' t).
Proof.
  induction T as [|t T IH]; intros s seen HSt HC Hf; cbn [fold_left].
  - exists s, seen. repeat split; try apply HSt; auto using mono_refl. intros t [].
  - assert (Hc : (cnt g seen < fuel)%nat).
    { unfold cnt. pose proof (filter_length_le (fun x => negb (mem x seen)) (fun _ => true) (flat_map snd g) ltac:(auto)) as L.
      assert (E : filter (fun _ : uid => true) (flat_map snd g) = flat_map snd g).
      { clear. induction (flat_map snd g) as [|x l IHl]; cbn [filter]; [reflexivity | rewrite IHl; reflexivity]. }
      rewrite E in L. lia. }
    destruct (add_anc_spec fuel t s seen HSt ltac:(intros x Hx; right; left; apply HC; exact Hx) Hc)
      as [s1 [seen1 [E [HSt1 [HM1 [HI1 [HC1 HN1]]]]]]].
    rewrite E.
    destruct (IH s1 seen1 HSt1) as [s' [seen' [EF [HSt' [HM' [HI' [HC' HT']]]]]]].
    + intros x Hx. destruct (HN1 x Hx) as [H|H]; [|exact H].
      eapply complete_mono; [apply HSt | apply HSt1 | exact HM1 | apply HC; exact H].
    + exact Hf.
    + exists s', seen'. split; [exact EF|]. split; [exact HSt'|]. split; [eapply mono_trans; eassumption|].
      split; [intros x Hx; apply HI', HI1, Hx|]. split; [exact HC'|].
      intros x [<- | Hx]; [|apply HT'; exact Hx].
      eapply complete_mono; [apply HSt1 | apply HSt' | exact HM' | exact HC1].
Qed.
End DFS.

Lemma length_parents_le_all_uids s : (length (flat_map snd (graph_of s)) <= length (all_uids s))%nat.
Proof.
  unfold all_uids. rewrite app_length.
  assert (length (flat_map snd (graph_of s)) <= length (flat_map (fun kn => ancestors (snd kn)) s))%nat; [|lia].
  unfold graph_of. induction s as [|[k n] s IH]; cbn [map flat_map fst snd]; [lia|].
  rewrite !app_length. unfold ancestors at 1. rewrite app_length. lia.
Qed.

(* (b) + (c, acyclic case): repair_tc on the touched set yields exactly reachability *)
Lemma repair_correct s T :
  Sound (graph_of s) s ->
  (forall x, In x (keys s) -> ~ In x T -> complete (graph_of s) s x) ->
  acyclic (graph_of s) ->
  exists s', repair T s = TOk s' /\ graph_of s' = graph_of s
             /\ forall u n, find u s' = Some n -> forall a, In a (ancestors n) <-> reach (graph_of s) u a.
Proof.
  intros HS HU Hacy. unfold repair.
  set (fuel := Datatypes.S (Datatypes.S (length (all_uids s)))).
  set (seen0 := filter (fun k => negb (mem k T)) (keys s)).
  destruct (repair_fold (graph_of s) Hacy fuel T s seen0) as [s' [seen' [EF [[G' HS'] [HM' [HI' [HC' HT']]]]]]].
  - split; [reflexivity | exact HS].
  - intros x Hx. unfold seen0 in Hx. apply filter_In in Hx as [Hk Hm].
    apply negb_true_iff, mem_false in Hm. apply HU; assumption.
  - pose proof (length_parents_le_all_uids s). unfold fuel. lia.
  - rewrite EF.
    assert (Hall : forall u n, find u s' = Some n -> forall a, In a (ancestors n) <-> reach (graph_of s) u a).
    { intros u n F a. split; [eapply HS'; exact F|]. intros Hr.
      assert (C : complete (graph_of s) s' u).
      { destruct (mem u T) eqn:M.
        - apply HT'. apply mem_In; exact M.
        - apply HC', HI'. unfold seen0. apply filter_In. split; [|rewrite M; reflexivity].
          (* u is a key of s since graphs agree *)
          destruct (find u s) as [m|] eqn:Fs.
          + apply find_some_in in Fs. unfold keys. apply in_map_iff. exists (u, m). split; [reflexivity | exact Fs].
          + exfalso. apply (same_graph_find s' s u G') in Fs. congruence. }
      eapply C; eassumption. }
    assert (D : enforce_dag_for T s' = true).
    { unfold enforce_dag_for. apply forallb_forall. intros t Ht. destruct (find t s') as [n|] eqn:F; [|reflexivity].
      apply negb_true_iff. destruct (is_desc n t) eqn:E; [|reflexivity].
      exfalso. apply is_desc_In in E. apply (Hacy t). eapply Hall; eassumption. }
    rewrite D. exists s'. split; [reflexivity|]. split; [exact G' | exact Hall].
Qed.

(* ------------------------------------------------------------------ incremental = spec, given the edit-phase facts *)
Definition agree (si ss : store) : Prop :=
  graph_of si = graph_of ss /\
  forall u ni ns, find u si = Some ni -> find u ss = Some ns -> forall a, In a (ancestors ni) <-> In a (ancestors ns).

Lemma Inv_acyclic s : Inv s -> acyclic (graph_of s).
Proof.
  intros [ND HI] x Hr. destruct (find x s) as [n|] eqn:F.
  - apply find_some_in in F. destruct (HI x n F) as [Hanc [Hno _]]. apply Hno, Hanc, Hr.
  - eapply absent_no_reach; eassumption.
Qed.

Lemma Inv_Sound s : Inv s -> Sound (graph_of s) s.
Proof. intros [ND HI] u n F a Ha. apply find_some_in in F. apply (HI u n F); exact Ha. Qed.

Lemma Inv_complete s x : Inv s -> complete (graph_of s) s x.
Proof. intros [ND HI] n F a Hr. apply find_some_in in F. apply (HI x n F); exact Hr. Qed.

Lemma refine_finish s1 T sp :
  NoDup (keys sp) -> graph_of sp = graph_of s1 ->
  Sound (graph_of s1) s1 ->
  (forall x, In x (keys s1) -> ~ In x T -> complete (graph_of s1) s1 x) ->
  acyclic (graph_of s1) ->
  exists si ss, repair T s1 = TOk si /\ recompute (graph_of sp) = TOk ss /\ agree si ss.
Proof.
  intros ND G HS HU Hacy.
  destruct (repair_correct s1 T HS HU Hacy) as [si [ER [Gi Hi]]].
  destruct (recompute (graph_of sp)) as [ss|e] eqn:ES.
  - exists si, ss. split; [exact ER|]. split; [reflexivity|].
    apply recompute_inv in ES; [|rewrite keys_graph_of; exact ND]. destruct ES as [[NDs HIs] Gs].
    split; [congruence|]. intros u ni ns Fi Fs a. rewrite (Hi u ni Fi a).
    apply find_some_in in Fs. destruct (HIs u ns Fs) as [Hanc _]. rewrite Hanc, Gs, G. tauto.
  - exfalso. apply recompute_nodes_err in ES as [_ [u [_ Hr]]]. rewrite G in Hr. eapply Hacy; exact Hr.
Qed.

(* ------------------------------------------------------------------ (a) add_entities: edit phase *)
Lemma find_app u s t : find u (s ++ t) = match find u s with Some n => Some n | None => find u t end.
Proof.
  induction s as [|[k n] s IH]; cbn [app find]; [reflexivity|]. destruct (N.eqb u k); [reflexivity | exact IH].
Qed.

Lemma not_in_keys_find s u : ~ In u (keys s) -> find u s = None.
Proof.
  induction s as [|[k n] s IH]; cbn [keys map fst find]; intros H; [reflexivity|].
  destruct (N.eqb u k) eqn:E.
  - apply N.eqb_eq in E. subst. exfalso. apply H. left; reflexivity.
  - apply IH. intros Hin. apply H. right; exact Hin.
Qed.

Lemma insert_all_shape : forall es s s1, insert_all s es = TOk s1 ->
  exists news, s1 = s ++ news /\ forall k n, In (k, n) news -> In k (map fst es) /\ n_indirect n = [].
Proof.
  induction es as [|e es IH]; intros s s1 H; cbn [insert_all] in H.
  - inversion H; subst. exists []. split; [rewrite app_nil_r; reflexivity | intros k n []].
  - destruct (upd_noover s e) as [s2|x] eqn:U; [|discriminate].
    destruct (IH s2 s1 H) as [news [E Hn]]. unfold upd_noover in U.
    destruct (find (fst e) s) as [old|].
    + destruct (set_eqb _ _); [|discriminate]. inversion U; subst s2.
      exists news. split; [exact E|]. intros k n Hk. destruct (Hn k n Hk) as [A B]. split; [right; exact A | exact B].
    + inversion U; subst s2. exists ((fst e, mkNode (snd e) []) :: news).
      split; [rewrite E, <- app_assoc; reflexivity|].
      intros k n [Hk|Hk].
      * inversion Hk; subst. split; [left; reflexivity | reflexivity].
      * destruct (Hn k n Hk) as [A B]. split; [right; exact A | exact B].
Qed.

Lemma i_add_loop_touched : forall es s t s1 t1, i_add_loop s t es = TOk (s1, t1) ->
  (forall x, In x t -> In x t1) /\ (forall k, In k (map fst es) -> In k t1).
Proof.
  induction es as [|e es IH]; intros s t s1 t1 H; cbn [i_add_loop] in H.
  - inversion H; subst. split; [auto | intros k []].
  - destruct (upd_noover s e) as [s2|x]; [|discriminate].
    destruct (IH _ _ _ _ H) as [A B]. split.
    + intros x Hx. apply A. apply add_set_In. right; exact Hx.
    + intros k [<- | Hk]; [apply A, add_set_In; left; reflexivity | apply B; exact Hk].
Qed.

Lemma td_mono : forall s T x, In x T -> In x (touch_descendants T s).
Proof.
  unfold touch_descendants. induction s as [|[k n] s IH]; intros T x Hx; cbn [fold_left]; [exact Hx|].
  apply IH. cbn [fst snd]. destruct (existsb _ _); [apply add_set_In; right|]; exact Hx.
Qed.

Lemma td_desc : forall s T u n a, In (u, n) s -> In a (ancestors n) -> In a T -> In u (touch_descendants T s).
Proof.
  unfold touch_descendants. induction s as [|[k m] s IH]; intros T u n a Hin Ha HT; [destruct Hin|].
  cbn [fold_left fst snd]. destruct Hin as [Hin|Hin].
  - inversion Hin; subst. 
    assert (E : existsb (fun a0 => mem a0 T) (ancestors n) = true).
    { apply existsb_exists. exists a. split; [exact Ha | apply mem_In; exact HT]. }
    rewrite E. apply (td_mono s). apply add_set_In. left; reflexivity.
  - eapply IH; [exact Hin | exact Ha |].
    destruct (existsb _ _); [apply add_set_In; right|]; exact HT.
Qed.

Lemma gfind_app_some u g h ps : gfind u g = Some ps -> gfind u (g ++ h) = Some ps.
Proof.
  induction g as [|[k qs] g IH]; cbn [app gfind]; intros H; [discriminate|].
  destruct (N.eqb u k); [exact H | apply IH; exact H].
Qed.

Lemma gfind_app_none u g h : gfind u g = None -> gfind u (g ++ h) = gfind u h.
Proof.
  induction g as [|[k qs] g IH]; cbn [app gfind]; intros H; [reflexivity|].
  destruct (N.eqb u k); [discriminate | apply IH; exact H].
Qed.

Lemma graph_of_app s t : graph_of (s ++ t) = graph_of s ++ graph_of t.
Proof. unfold graph_of. apply map_app. Qed.

Lemma parents_of_app_l g h u p : In p (parents_of g u) -> In p (parents_of (g ++ h) u).
Proof.
  unfold parents_of. destruct (gfind u g) as [ps|] eqn:E; [|intros []].
  rewrite (gfind_app_some u g h ps E). auto.
Qed.

Lemma reach_app_l g h u a : reach g u a -> reach (g ++ h) u a.
Proof.
  induction 1 as [p Hp | b p Hb IH Hp].
  - apply reach_parent. apply parents_of_app_l; exact Hp.
  - eapply reach_step; [exact IH | apply parents_of_app_l; exact Hp].
Qed.

Lemma nodup_app_r (l r : list uid) : NoDup (l ++ r) -> NoDup r.
Proof. induction l as [|x l IH]; cbn [app]; intros H; [exact H | inversion H; subst; apply IH; assumption]. Qed.

Lemma inc_refines_add s es s1 :
  Inv s -> insert_all s es = TOk s1 -> acyclic (graph_of s1) ->
  exists si ss, i_add true s es = TOk si /\ s_compute s (OAdd true es) = TOk ss /\ agree si ss.
Proof.
  intros HI E Hacy.
  assert (ND1 : NoDup (keys s1)) by (eapply insert_all_keys; [apply HI | exact E]).
  destruct (insert_all_shape es s s1 E) as [news [Es Hnews]].
  unfold i_add, s_compute. cbn [s_edit]. rewrite E.
  pose proof (i_add_loop_insert_all es s []) as HL.
  destruct (i_add_loop s [] es) as [[s1' t]|e] eqn:EL; [|congruence].
  assert (s1' = s1) by congruence. subst s1'.
  destruct (i_add_loop_touched es s [] s1 t EL) as [_ Ht].
  unfold finish.
  apply refine_finish; try assumption; try reflexivity.
  - (* Sound *)
    intros u n F a Ha. rewrite Es in F. rewrite find_app in F. rewrite Es, graph_of_app.
    destruct (find u s) as [n0|] eqn:F0.
    + inversion F; subst n0. apply reach_app_l. eapply Inv_Sound; eassumption.
    + apply find_some_in in F. destruct (Hnews u n F) as [_ Hind].
      apply reach_parent. unfold parents_of.
      rewrite gfind_app_none by (apply gfind_graph_of_none; exact F0).
      assert (ND2 : NoDup (keys news)).
      { rewrite Es, keys_app in ND1. apply nodup_app_r in ND1. exact ND1. }
      rewrite (gfind_in (graph_of news)) with (ps := n_parents n).
      * unfold ancestors in Ha. rewrite Hind, app_nil_r in Ha. exact Ha.
      * rewrite keys_graph_of; exact ND2.
      * apply in_graph_of; exact F.
  - (* untouched entities are complete *)
    intros x Hx HnT n F a Hr.
    assert (HxT : ~ In x (map fst es)) by (intros H; apply HnT, td_mono, Ht, H).
    assert (F0 : find x s = Some n).
    { rewrite Es, find_app in F. destruct (find x s) as [n0|]; [exact F|].
      apply find_some_in in F. destruct (Hnews x n F) as [A _]. contradiction. }
    assert (Hnew : forall b, ~ In b (map fst es) -> gfind b (graph_of news) = None).
    { intros b Hb. apply gfind_graph_of_none, not_in_keys_find. intros Hk.
      unfold keys in Hk. apply in_map_iff in Hk as [[k m] [Hk1 Hk2]]. cbn [fst] in Hk1. subst k.
      apply Hb. apply (Hnews b m Hk2). }
    assert (Hpar : forall b p, ~ In b (map fst es) -> In p (parents_of (graph_of s1) b) -> In p (parents_of (graph_of s) b)).
    { intros b p Hb Hp. rewrite Es, graph_of_app in Hp. unfold parents_of in *.
      destruct (gfind b (graph_of s)) as [ps|] eqn:Gb.
      - rewrite (gfind_app_some _ _ _ _ Gb) in Hp. exact Hp.
      - rewrite gfind_app_none, Hnew in Hp by assumption. destruct Hp. }
    assert (R0 : reach (graph_of s) x a).
    { induction Hr as [p Hp | b p Hb IH Hp].
      - apply reach_parent. apply Hpar; assumption.
      - eapply reach_step; [exact IH|]. apply Hpar; [|exact Hp].
        intros HbT. apply HnT. apply (td_desc s1 t x n b).
        + apply find_some_in; exact F.
        + eapply Inv_complete; eassumption.
        + apply Ht; exact HbT. }
    eapply Inv_complete; eassumption.
Qed.

Lemma inc_add_error s es e : insert_all s es = TErr e ->
  i_add true s es = TErr e /\ s_compute s (OAdd true es) = TErr e.
Proof.
  intros E. unfold i_add, s_compute. cbn [s_edit]. rewrite E.
  pose proof (i_add_loop_insert_all es s []) as HL.
  destruct (i_add_loop s [] es) as [[s1' t]|e']; [congruence|].
  split; [congruence | reflexivity].
Qed.

(* ------------------------------------------------------------------ (a) remove_entities, one uid: edit phase *)
Lemma remove_set_In u l y : In y (remove_set u l) <-> In y l /\ y <> u.
Proof.
  unfold remove_set. rewrite filter_In. split; intros [A B]; split; try exact A.
  - intros ->. rewrite N.eqb_refl in B. discriminate.
  - apply negb_true_iff. apply N.eqb_neq. intros ->. apply B; reflexivity.
Qed.

Lemma parents_of_g_remove u g x :
  parents_of (g_remove u g) x = if N.eqb x u then [] else remove_set u (parents_of g x).
Proof.
  unfold parents_of, g_remove. induction g as [|[k ps] g IH]; cbn [filter map gfind fst snd].
  - destruct (N.eqb x u); reflexivity.
  - destruct (N.eqb u k) eqn:E; cbn [negb map gfind fst snd].
    + apply N.eqb_eq in E. subst k. rewrite IH. destruct (N.eqb x u) eqn:E2; reflexivity.
    + destruct (N.eqb x k) eqn:E2.
      * apply N.eqb_eq in E2. subst k. rewrite N.eqb_sym, E. reflexivity.
      * exact IH.
Qed.

Lemma reach_g_remove u g x y : reach (g_remove u g) x y -> reach g x y.
Proof.
  induction 1 as [p Hp | b p Hb IH Hp].
  - rewrite parents_of_g_remove in Hp. destruct (N.eqb x u); [destruct Hp|].
    apply remove_set_In in Hp as [Hp _]. apply reach_parent; exact Hp.
  - rewrite parents_of_g_remove in Hp. destruct (N.eqb b u); [destruct Hp|].
    apply remove_set_In in Hp as [Hp _]. eapply reach_step; eassumption.
Qed.

(* a path that neither starts below u nor ends above u survives the removal of u *)
Lemma path_avoid u g x a :
  x <> u -> reach g x a -> a <> u -> (~ reach g x u \/ ~ reach g u a) -> reach (g_remove u g) x a.
Proof.
  intros Hx Hr. induction Hr as [p Hp | b p Hb IH Hp]; intros Ha Hc.
  - apply reach_parent. rewrite parents_of_g_remove.
    destruct (N.eqb x u) eqn:E; [apply N.eqb_eq in E; contradiction|].
    apply remove_set_In. split; assumption.
  - assert (Hbu : b <> u).
    { intros ->. destruct Hc as [Hc|Hc]; [apply Hc; exact Hb | apply Hc; apply reach_parent; exact Hp]. }
    assert (Hcb : ~ reach g x u \/ ~ reach g u b).
    { destruct Hc as [Hc|Hc]; [left; exact Hc|]. right. intros H. apply Hc. eapply reach_step; eassumption. }
    eapply reach_step; [apply IH; assumption|].
    rewrite parents_of_g_remove. destruct (N.eqb b u) eqn:E; [apply N.eqb_eq in E; contradiction|].
    apply remove_set_In. split; assumption.
Qed.

Lemma fold_remove_indirect_ind l : forall n a,
  In a (n_indirect (fold_left remove_indirect l n)) <-> In a (n_indirect n) /\ ~ In a l.
Proof.
  induction l as [|y l IH]; intros n a; cbn [fold_left In]; [tauto|].
  rewrite IH. unfold remove_indirect at 1. cbn [n_indirect]. rewrite remove_set_In. intuition.
Qed.

Definition rm_node (u : uid) (rem : node) (n : node) : node :=
  if is_desc n u
  then fold_left remove_indirect (ancestors rem) (remove_parent (remove_indirect n u) u)
  else n.

Lemma find_rm_store u rem : forall s x,
  find x (map (fun kn => if is_desc (snd kn) u
                         then (fst kn, fold_left remove_indirect (ancestors rem)
                                         (remove_parent (remove_indirect (snd kn) u) u))
                         else kn) (delete u s))
  = if N.eqb x u then None else option_map (rm_node u rem) (find x s).
Proof.
  unfold delete, rm_node. induction s as [|[k n] s IH]; intros x; cbn [filter map find fst snd option_map].
  - destruct (N.eqb x u); reflexivity.
  - destruct (N.eqb u k) eqn:E; cbn [negb].
    + apply N.eqb_eq in E. subst k. rewrite IH. destruct (N.eqb x u); reflexivity.
    + cbn [map find fst snd]. destruct (is_desc n u) eqn:D; cbn [fst snd find].
      * destruct (N.eqb x k) eqn:E2.
        -- apply N.eqb_eq in E2. subst k. rewrite N.eqb_sym, E. cbn [option_map]. rewrite D. reflexivity.
        -- apply IH.
      * destruct (N.eqb x k) eqn:E2.
        -- apply N.eqb_eq in E2. subst k. rewrite N.eqb_sym, E. cbn [option_map]. rewrite D. reflexivity.
        -- apply IH.
Qed.

Lemma fold_cond_add (c : uid * node -> bool) x : forall l tch,
  (In x tch \/ exists kn, In kn l /\ c kn = true /\ fst kn = x) ->
  In x (fold_left (fun tch kn => if c kn then add_set (fst kn) tch else tch) l tch).
Proof.
  induction l as [|kn l IH]; intros tch H; cbn [fold_left].
  - destruct H as [H | [kn [[] _]]]. exact H.
  - apply IH. destruct H as [H | [kn' [[<- | Hin] [Hc Hf]]]].
    + left. destruct (c kn); [apply add_set_In; right|]; exact H.
    + left. rewrite Hc. apply add_set_In. left. symmetry; exact Hf.
    + right. exists kn'. auto.
Qed.

Lemma inc_refines_remove_one s u :
  Inv s ->
  exists si ss, i_remove true s [u] = TOk si /\ s_compute s (ORemove true [u]) = TOk ss /\ agree si ss.
Proof.
  intros HI. pose proof HI as [ND HIn].
  unfold i_remove, s_compute. cbn [fold_left s_edit].
  destruct (find u s) as [rem|] eqn:Fu.
  - (* u present *)
    assert (Gspec : graph_of (edit_remove s u) = g_remove u (graph_of s)) by (apply spec_remove_graph; congruence).
    pose proof (inc_remove_graph s [] u ltac:(congruence)) as Ginc.
    destruct (i_remove_one (s, []) u) as [s1 T] eqn:E1. cbn [fst] in Ginc.
    unfold i_remove_one in E1. rewrite Fu in E1. injection E1 as Es ET.
    assert (Ffind : forall x, find x s1 = if N.eqb x u then None else option_map (rm_node u rem) (find x s)).
    { intros x. rewrite <- Es. apply find_rm_store. }
    unfold finish. apply refine_finish.
    + apply edit_remove_keys; exact ND.
    + congruence.
    + (* Sound *)
      rewrite Ginc. intros x n1 F1 a Ha. rewrite Ffind in F1.
      destruct (N.eqb x u) eqn:Exu; [discriminate|]. apply N.eqb_neq in Exu.
      destruct (find x s) as [n0|] eqn:F0; [|discriminate]. cbn [option_map] in F1. inversion F1; subst n1. clear F1.
      pose proof (Inv_Sound s HI x n0 F0) as S0. pose proof (Inv_complete s x HI n0 F0) as C0.
      unfold rm_node in Ha. destruct (is_desc n0 u) eqn:D.
      * unfold ancestors in Ha. rewrite fold_remove_indirect_parents in Ha. cbn [remove_parent remove_indirect n_parents] in Ha.
        apply in_app_or in Ha as [Ha|Ha].
        -- apply remove_set_In in Ha as [Ha Hau]. apply reach_parent. rewrite parents_of_g_remove.
           destruct (N.eqb x u) eqn:E; [apply N.eqb_eq in E; contradiction|].
           apply remove_set_In. split; [|exact Hau]. rewrite (parents_of_graph_of s x n0 F0). exact Ha.
        -- apply fold_remove_indirect_ind in Ha as [Ha Hnr]. cbn [remove_parent remove_indirect n_indirect] in Ha.
           apply remove_set_In in Ha as [Ha Hau].
           apply path_avoid; [exact Exu | | exact Hau |].
           ++ apply S0. unfold ancestors. apply in_or_app; right; exact Ha.
           ++ right. intros Hr. apply Hnr. eapply Inv_complete; eassumption.
      * assert (Hnu : ~ reach (graph_of s) x u).
        { intros Hr. apply C0 in Hr. apply is_desc_In in Hr. congruence. }
        apply path_avoid; [exact Exu | apply S0; exact Ha | | left; exact Hnu].
        intros ->. apply is_desc_In in Ha. congruence.
    + (* untouched entities are complete *)
      rewrite Ginc. intros x Hx HnT n1 F1 a Hr. rewrite Ffind in F1.
      destruct (N.eqb x u) eqn:Exu; [discriminate|].
      destruct (find x s) as [n0|] eqn:F0; [|discriminate]. cbn [option_map] in F1. inversion F1; subst n1. clear F1.
      unfold rm_node. destruct (is_desc n0 u) eqn:D.
      * exfalso. apply HnT. rewrite <- ET. apply fold_cond_add with (c := fun kn => is_desc (snd kn) u).
        right. exists (x, n0). split; [|split; [exact D | reflexivity]].
        unfold delete. apply filter_In. split; [apply find_some_in; exact F0|].
        cbn [fst]. rewrite N.eqb_sym, Exu. reflexivity.
      * apply reach_g_remove in Hr. eapply Inv_complete; eassumption.
    + rewrite Ginc. intros x Hr. apply reach_g_remove in Hr. eapply Inv_acyclic; eassumption.
  - (* u absent: nothing changes *)
    unfold i_remove_one, edit_remove. rewrite Fu. unfold finish. apply refine_finish.
    + exact ND.
    + reflexivity.
    + apply Inv_Sound; exact HI.
    + intros x _ _. apply Inv_complete; exact HI.
    + apply Inv_acyclic; exact HI.
Qed.

(* ------------------------------------------------------------------ soundness of repair on ANY graph (cyclic included):
   whatever the DFS adds is justified by a path, so a self-loop it reports is a real cycle *)
Lemma loop_sound g rec u :
  (forall a s seen s' seen', rec a s seen = Some (s', seen') -> St g s -> St g s') ->
  forall edges s seen explored acc s' seen' acc',
    loop_f rec edges s seen explored acc = Some (s', seen', acc') ->
    St g s -> (forall a, In a edges -> reach g u a) -> (forall y, In y acc -> reach g u y) ->
    St g s' /\ (forall y, In y acc' -> reach g u y).
Proof.
  intros HR. induction edges as [|a rest IH]; intros s seen explored acc s' seen' acc' H HSt Hed Hacc.
  - cbn [loop_f] in H. inversion H; subst. split; assumption.
  - cbn [loop_f] in H. fold (loop_f rec) in H.
    assert (Hua : reach g u a) by (apply Hed; left; reflexivity).
    assert (Hed1 : forall b, In b rest -> reach g u b) by (intros b Hb; apply Hed; right; exact Hb).
    destruct (if mem a seen then Some (s, seen) else rec a s (a :: seen)) as [[s1 seen1]|] eqn:E; [|discriminate].
    assert (HSt1 : St g s1).
    { destruct (mem a seen); [inversion E; subst; exact HSt | eapply HR; eassumption]. }
    destruct (mem a explored).
    + eapply IH; eassumption.
    + eapply IH; [exact H | exact HSt1 | exact Hed1 |].
      intros y Hy. destruct (find a s1) as [an|] eqn:Fa; [|apply Hacc; exact Hy].
      apply in_app_or in Hy as [Hy|Hy]; [apply Hacc; exact Hy|].
      eapply reach_trans; [exact Hua|]. destruct HSt1 as [_ HS1]. eapply HS1; eassumption.
Qed.

Lemma add_anc_sound g : forall fuel u s seen s' seen',
  add_anc fuel u s seen = Some (s', seen') -> St g s -> St g s'.
Proof.
  induction fuel as [|f IH]; intros u s seen s' seen' H HSt; [discriminate|].
  rewrite add_anc_S in H. destruct (find u s) as [n|] eqn:F; [|inversion H; subst; exact HSt].
  destruct (loop_f (add_anc f) (ancestors n) s seen [] []) as [[[s1 seen1] acc1]|] eqn:EL; [|discriminate].
  inversion H; subst. clear H.
  destruct (loop_sound g (add_anc f) u IH _ _ _ _ _ _ _ _ EL HSt) as [[G1 HS1] Hacc1].
  - intros a Ha. destruct HSt as [_ HS]. eapply HS; eassumption.
  - intros y [].
  - split.
    + rewrite graph_of_update; [exact G1 | apply fold_add_indirect_parents].
    + intros x m Fx a Ha. destruct (N.eq_dec x u) as [-> | Hx].
      * rewrite find_update_same in Fx. destruct (find u s1) as [n1|] eqn:F1; [|discriminate].
        cbn [option_map] in Fx. inversion Fx; subst m. apply fold_add_indirect_anc in Ha as [Ha|Ha].
        -- eapply HS1; eassumption.
        -- apply Hacc1; exact Ha.
      * rewrite find_update_other in Fx by assumption. eapply HS1; eassumption.
Qed.

Lemma forallb_false_ex {A} (f : A -> bool) l : forallb f l = false -> exists x, In x l /\ f x = false.
Proof.
  induction l as [|x l IH]; cbn [forallb]; [discriminate|].
  destruct (f x) eqn:E; cbn [andb].
  - intros H. destruct (IH H) as [y [Hy Fy]]. exists y. split; [right; exact Hy | exact Fy].
  - intros _. exists x. split; [left; reflexivity | exact E].
Qed.

Lemma repair_sound s T :
  Sound (graph_of s) s ->
  match repair T s with
  | TOk s' => graph_of s' = graph_of s /\ Sound (graph_of s) s'
  | TErr ECycle => exists t, In t (keys s) /\ reach (graph_of s) t t
  | TErr _ => True
  end.
Proof.
  intros HS. unfold repair.
  set (fuel := Datatypes.S (Datatypes.S (length (all_uids s)))).
  set (F := fun acc t => match acc with None => None | Some (s0, seen) => add_anc fuel t s0 seen end).
  assert (HF : forall T0 st, St (graph_of s) (fst st) ->
             match fold_left F T0 (Some st) with Some (s', _) => St (graph_of s) s' | None => True end).
  { induction T0 as [|t T0 IH]; intros [s0 seen0] H0; cbn [fold_left fst].
    - exact H0.
    - unfold F at 2. destruct (add_anc fuel t s0 seen0) as [[s1 seen1]|] eqn:E.
      + apply (IH (s1, seen1)). eapply add_anc_sound; eassumption.
      + assert (N : fold_left F T0 None = None) by (clear; induction T0; cbn; auto). rewrite N. exact I. }
  specialize (HF T (s, filter (fun k => negb (mem k T)) (keys s)) (conj eq_refl HS)).
  fold fuel. fold F.
  destruct (fold_left F T (Some (s, filter (fun k => negb (mem k T)) (keys s)))) as [[s' seen']|]; [|exact I].
  destruct HF as [G' HS'].
  destruct (enforce_dag_for T s') eqn:D; [split; assumption|].
  unfold enforce_dag_for in D. apply forallb_false_ex in D. destruct D as [t [_ Ht]].
  destruct (find t s') as [n|] eqn:Ft; [|discriminate].
  apply negb_false_iff, is_desc_In in Ht. exists t. split; [|eapply HS'; eassumption].
  destruct (find t s) as [m|] eqn:Fs.
  - apply find_some_in in Fs. unfold keys. apply in_map_iff. exists (t, m). split; [reflexivity | exact Fs].
  - apply (same_graph_find s' s t G') in Fs. congruence.
Qed.

(* ------------------------------------------------------------------ add: facts that do not need acyclicity *)
Lemma add_edit_sound s es s1 : Inv s -> insert_all s es = TOk s1 -> Sound (graph_of s1) s1.
Proof.
  intros HI E.
  assert (ND1 : NoDup (keys s1)) by (eapply insert_all_keys; [apply HI | exact E]).
  destruct (insert_all_shape es s s1 E) as [news [Es Hnews]].
  intros u n F a Ha. rewrite Es in F. rewrite find_app in F. rewrite Es, graph_of_app.
  destruct (find u s) as [n0|] eqn:F0.
  - inversion F; subst n0. apply reach_app_l. eapply Inv_Sound; eassumption.
  - apply find_some_in in F. destruct (Hnews u n F) as [_ Hind].
    apply reach_parent. unfold parents_of.
    rewrite gfind_app_none by (apply gfind_graph_of_none; exact F0).
    assert (ND2 : NoDup (keys news)).
    { rewrite Es, keys_app in ND1. apply nodup_app_r in ND1. exact ND1. }
    rewrite (gfind_in (graph_of news)) with (ps := n_parents n).
    + unfold ancestors in Ha. rewrite Hind, app_nil_r in Ha. exact Ha.
    + rewrite keys_graph_of; exact ND2.
    + apply in_graph_of; exact F.
Qed.

Lemma add_untouched_reach s es s1 t x n a :
  Inv s -> insert_all s es = TOk s1 -> (forall k, In k (map fst es) -> In k t) ->
  ~ In x (touch_descendants t s1) -> find x s1 = Some n -> reach (graph_of s1) x a ->
  find x s = Some n /\ reach (graph_of s) x a.
Proof.
  intros HI E Ht HnT F Hr.
  destruct (insert_all_shape es s s1 E) as [news [Es Hnews]].
  assert (HxT : ~ In x (map fst es)) by (intros H; apply HnT, td_mono, Ht, H).
  assert (F0 : find x s = Some n).
  { rewrite Es, find_app in F. destruct (find x s) as [n0|]; [exact F|].
    apply find_some_in in F. destruct (Hnews x n F) as [A _]. contradiction. }
  split; [exact F0|].
  assert (Hnew : forall b, ~ In b (map fst es) -> gfind b (graph_of news) = None).
  { intros b Hb. apply gfind_graph_of_none, not_in_keys_find. intros Hk.
    unfold keys in Hk. apply in_map_iff in Hk as [[k m] [Hk1 Hk2]]. cbn [fst] in Hk1. subst k.
    apply Hb. apply (Hnews b m Hk2). }
  assert (Hpar : forall b p, ~ In b (map fst es) -> In p (parents_of (graph_of s1) b) -> In p (parents_of (graph_of s) b)).
  { intros b p Hb Hp. rewrite Es, graph_of_app in Hp. unfold parents_of in *.
    destruct (gfind b (graph_of s)) as [ps|] eqn:Gb.
    - rewrite (gfind_app_some _ _ _ _ Gb) in Hp. exact Hp.
    - rewrite gfind_app_none, Hnew in Hp by assumption. destruct Hp. }
  induction Hr as [p Hp | b p Hb IH Hp].
  - apply reach_parent. apply Hpar; assumption.
  - eapply reach_step; [exact IH|]. apply Hpar; [|exact Hp].
    intros HbT. apply HnT. apply (td_desc s1 t x n b).
    + apply find_some_in; exact F.
    + eapply Inv_complete; eassumption.
    + apply Ht; exact HbT.
Qed.

(* (c), graph level: every cycle of the edited graph runs through touched entities only *)
Lemma add_cycles_touched s es s1 t :
  Inv s -> i_add_loop s [] es = TOk (s1, t) ->
  forall x, reach (graph_of s1) x x -> In x (touch_descendants t s1).
Proof.
  intros HI EL x Hr.
  pose proof (i_add_loop_insert_all es s []) as HL. rewrite EL in HL.
  destruct (i_add_loop_touched es s [] s1 t EL) as [_ Ht].
  destruct (mem x (touch_descendants t s1)) eqn:M; [apply mem_In; exact M|].
  apply mem_false in M. exfalso.
  destruct (find x s1) as [n|] eqn:F; [|eapply absent_no_reach; eassumption].
  destruct (add_untouched_reach s es s1 t x n x HI HL Ht M F Hr) as [_ R0].
  eapply Inv_acyclic; eassumption.
Qed.

(* a cycle reported by the incremental layer is a real cycle: the spec layer rejects too *)
Lemma inc_add_cycle s es s1 :
  Inv s -> insert_all s es = TOk s1 -> i_add true s es = TErr ECycle ->
  s_compute s (OAdd true es) = TErr ECycle.
Proof.
  intros HI E H. unfold i_add in H.
  pose proof (i_add_loop_insert_all es s []) as HL.
  destruct (i_add_loop s [] es) as [[s1' t]|e] eqn:EL; [|congruence].
  assert (s1' = s1) by congruence. subst s1'. unfold finish in H.
  pose proof (repair_sound s1 (touch_descendants t s1) (add_edit_sound s es s1 HI E)) as RS.
  rewrite H in RS. destruct RS as [x [Hk Hr]].
  eapply spec_op_cycle_rejected; [cbn [s_edit]; exact E | exact Hk | exact Hr].
Qed.

(* same for remove of one uid is vacuous (no cycle can arise); for any op: what repair accepts is sound *)

(* ------------------------------------------------------------------ (a) upsert_entities, one entity: edit phase *)
Lemma find_map_keep (h : uid * node -> uid * node) : (forall kn, fst (h kn) = fst kn) ->
  forall s x, find x (map h s) = option_map (fun n => snd (h (x, n))) (find x s).
Proof.
  intros Hh. induction s as [|[k n] s IH]; intros x; cbn [map find option_map]; [reflexivity|].
  destruct (h (k, n)) as [k' n'] eqn:E. pose proof (Hh (k, n)) as Hk. rewrite E in Hk. cbn [fst] in Hk. subst k'.
  destruct (N.eqb x k) eqn:E2.
  - apply N.eqb_eq in E2. subst x. cbn [option_map]. rewrite E. reflexivity.
  - apply IH.
Qed.

Lemma parents_of_g_upd g e x : gfind (fst e) g <> None ->
  parents_of (g_upd g e) x = if N.eqb x (fst e) then snd e else parents_of g x.
Proof.
  intros Hk. unfold g_upd. destruct (gfind (fst e) g) as [q|] eqn:Gq; [|congruence]. clear Hk.
  unfold parents_of. revert q Gq. induction g as [|[k ps] g IH]; intros q Gq; cbn [gfind] in Gq; [discriminate|].
  cbn [map gfind fst snd]. destruct (N.eqb (fst e) k) eqn:E.
  - apply N.eqb_eq in E. subst k. cbn [gfind fst snd]. destruct (N.eqb x (fst e)) eqn:E2; [reflexivity|].
    (* below the first occurrence the map may or may not change later entries; lookups of x <> u agree *)
    clear IH Gq. induction g as [|[k2 ps2] g IH2]; cbn [map gfind fst snd]; [reflexivity|].
    destruct (N.eqb (fst e) k2) eqn:E3; cbn [gfind fst snd].
    + apply N.eqb_eq in E3. subst k2. rewrite E2. exact IH2.
    + destruct (N.eqb x k2); [reflexivity | exact IH2].
  - cbn [gfind fst snd]. destruct (N.eqb x k) eqn:E2.
    + apply N.eqb_eq in E2. subst k. destruct (N.eqb x (fst e)) eqn:E3; [|reflexivity].
      apply N.eqb_eq in E3. subst x. rewrite N.eqb_refl in E. discriminate.
    + eapply IH; exact Gq.
Qed.

(* paths that do not both start below u and end above u are unaffected by re-routing u *)
Lemma upd_path_avoid u g g1 x a :
  (forall b, b <> u -> parents_of g1 b = parents_of g b) ->
  x <> u -> reach g x a -> (~ reach g x u \/ ~ reach g u a) -> reach g1 x a.
Proof.
  intros Hsame Hx Hr. induction Hr as [p Hp | b p Hb IH Hp]; intros Hc.
  - apply reach_parent. rewrite Hsame by exact Hx. exact Hp.
  - assert (Hbu : b <> u).
    { intros ->. destruct Hc as [Hc|Hc]; [apply Hc; exact Hb | apply Hc; apply reach_parent; exact Hp]. }
    assert (Hcb : ~ reach g x u \/ ~ reach g u b).
    { destruct Hc as [Hc|Hc]; [left; exact Hc|]. right. intros H. apply Hc. eapply reach_step; eassumption. }
    eapply reach_step; [apply IH; exact Hcb|]. rewrite Hsame by exact Hbu. exact Hp.
Qed.

Definition up_node (u : uid) (old_anc : list uid) (n : node) : node :=
  if is_desc n u then strip n u old_anc else n.

Section UpsertOne.
Variables (s : store) (u : uid) (ps : list uid) (old : node).
Hypothesis HI : Inv s.
Hypothesis Fu : find u s = Some old.

Let e : ent := (u, ps).
Let s1 : store := fst (i_upsert_one (s, []) e).
Let T : list uid := snd (i_upsert_one (s, []) e).
Let g0 := graph_of s.
Let g1 := graph_of s1.

Lemma up1_graph : g1 = g_upd g0 e.
Proof. apply inc_upsert_graph. Qed.

Lemma up1_parents x : parents_of g1 x = if N.eqb x u then ps else parents_of g0 x.
Proof.
  rewrite up1_graph. rewrite parents_of_g_upd; [reflexivity|].
  unfold g0. rewrite find_gfind. unfold e; cbn [fst snd]. rewrite Fu. discriminate.
Qed.

Lemma up1_find x :
  find x s1 = if N.eqb x u then Some (mkNode ps []) else option_map (up_node u (ancestors old)) (find x s).
Proof.
  unfold s1, i_upsert_one. unfold e; cbn [fst snd]. rewrite Fu. cbn [fst].
  set (h := fun kn : uid * node => if negb (N.eqb (fst kn) u) && is_desc (snd kn) u
                                   then (fst kn, strip (snd kn) u (ancestors old)) else kn).
  assert (Hh : forall kn, fst (h kn) = fst kn) by (intros kn; unfold h; destruct (_ && _); reflexivity).
  unfold upd_over. cbn [fst snd]. rewrite (find_map_keep h Hh), Fu. cbn [option_map].
  destruct (N.eqb x u) eqn:E.
  - apply N.eqb_eq in E. subst x. rewrite find_update_same, (find_map_keep h Hh), Fu. reflexivity.
  - rewrite find_update_other by (apply N.eqb_neq; exact E). rewrite (find_map_keep h Hh).
    destruct (find x s) as [n|]; [|reflexivity]. cbn [option_map]. unfold h, up_node. cbn [fst snd]. rewrite E. cbn [negb andb].
    destruct (is_desc n u); reflexivity.
Qed.

Lemma up1_touched x n : find x s = Some n -> x <> u -> is_desc n u = true -> In x T.
Proof.
  intros F Hx D. unfold T, i_upsert_one. unfold e; cbn [fst snd]. rewrite Fu. cbn [snd].
  apply add_set_In. right.
  apply fold_cond_add with (c := fun kn => negb (N.eqb (fst kn) u) && is_desc (snd kn) u).
  right. exists (x, n). split; [apply find_some_in; exact F|]. split; [|reflexivity].
  cbn [fst snd]. rewrite D. apply N.eqb_neq in Hx. rewrite Hx. reflexivity.
Qed.

Lemma up1_u_touched : In u T.
Proof. unfold T, i_upsert_one. unfold e; cbn [fst snd]. rewrite Fu. cbn [snd]. apply add_set_In. left; reflexivity. Qed.

Lemma up1_sound : Sound g1 s1.
Proof.
  intros x n1 F1 a Ha. rewrite up1_find in F1. destruct (N.eqb x u) eqn:Exu.
  - apply N.eqb_eq in Exu. subst x. inversion F1; subst n1. apply reach_parent. rewrite up1_parents, N.eqb_refl.
    unfold ancestors in Ha. cbn [n_parents n_indirect] in Ha. rewrite app_nil_r in Ha. exact Ha.
  - apply N.eqb_neq in Exu. destruct (find x s) as [n0|] eqn:F0; [|discriminate]. cbn [option_map] in F1.
    inversion F1; subst n1. clear F1.
    pose proof (Inv_Sound s HI x n0 F0) as S0. pose proof (Inv_complete s x HI n0 F0) as C0.
    assert (Hsame : forall b, b <> u -> parents_of g1 b = parents_of g0 b).
    { intros b Hb. rewrite up1_parents. apply N.eqb_neq in Hb. rewrite Hb. reflexivity. }
    unfold up_node in Ha. destruct (is_desc n0 u) eqn:D.
    + unfold ancestors in Ha. rewrite strip_parents in Ha. apply in_app_or in Ha as [Ha|Ha].
      * apply reach_parent. rewrite Hsame by exact Exu. unfold g0. rewrite (parents_of_graph_of s x n0 F0). exact Ha.
      * unfold strip in Ha. apply fold_remove_indirect_ind in Ha as [Ha Hnr]. cbn [remove_indirect n_indirect] in Ha.
        apply remove_set_In in Ha as [Ha _].
        eapply (upd_path_avoid u g0 g1); [exact Hsame | exact Exu | |].
        -- apply S0. unfold ancestors. apply in_or_app; right; exact Ha.
        -- right. intros Hr. apply Hnr. eapply Inv_complete; eassumption.
    + eapply (upd_path_avoid u g0 g1); [exact Hsame | exact Exu | apply S0; exact Ha |].
      left. intros Hr. apply C0 in Hr. apply is_desc_In in Hr. congruence.
Qed.

Lemma up1_untouched x : In x (keys s1) -> ~ In x (touch_descendants T s1) -> complete g1 s1 x.
Proof.
  intros _ HnT n1 F1 a Hr.
  assert (HxT : ~ In x T) by (intros H; apply HnT, td_mono, H).
  rewrite up1_find in F1. destruct (N.eqb x u) eqn:Exu.
  - apply N.eqb_eq in Exu. subst x. exfalso. apply HxT, up1_u_touched.
  - apply N.eqb_neq in Exu. destruct (find x s) as [n0|] eqn:F0; [|discriminate]. cbn [option_map] in F1.
    inversion F1; subst n1. clear F1. unfold up_node.
    destruct (is_desc n0 u) eqn:D; [exfalso; apply HxT; eapply up1_touched; eassumption|].
    pose proof (Inv_complete s x HI n0 F0) as C0.
    assert (R0 : reach g0 x a).
    { induction Hr as [p Hp | b p Hb IH Hp].
      - apply reach_parent. rewrite up1_parents in Hp. apply N.eqb_neq in Exu. rewrite Exu in Hp. exact Hp.
      - eapply reach_step; [exact IH|]. rewrite up1_parents in Hp.
        destruct (N.eqb b u) eqn:Eb; [|exact Hp].
        apply N.eqb_eq in Eb. subst b. apply C0 in IH. apply is_desc_In in IH. congruence. }
    apply C0; exact R0.
Qed.

Lemma up1_spec_graph : graph_of (upd_over s e) = g1.
Proof. rewrite graph_of_upd_over. symmetry. apply up1_graph. Qed.

Lemma up1_refines : acyclic g1 ->
  exists si ss, i_upsert true s [e] = TOk si /\ s_compute s (OUpsert true [e]) = TOk ss /\ agree si ss.
Proof.
  intros Hacy. unfold i_upsert, s_compute. cbn [fold_left s_edit latest_versions existsb].
  rewrite (surjective_pairing (i_upsert_one (s, []) e)). fold s1. fold T. cbv beta iota.
  unfold finish. apply refine_finish.
  - apply upd_over_keys. apply HI.
  - apply up1_spec_graph.
  - apply up1_sound.
  - apply up1_untouched.
  - exact Hacy.
Qed.

Lemma up1_cycle : i_upsert true s [e] = TErr ECycle -> s_compute s (OUpsert true [e]) = TErr ECycle.
Proof.
  intros H. unfold i_upsert in H. cbn [fold_left latest_versions existsb] in H.
  rewrite (surjective_pairing (i_upsert_one (s, []) e)) in H. fold s1 in H. fold T in H. cbv beta iota in H.
  unfold finish in H. pose proof (repair_sound s1 (touch_descendants T s1) up1_sound) as RS.
  rewrite H in RS. destruct RS as [x [Hk Hr]].
  eapply spec_op_cycle_rejected with (s1 := upd_over s e) (u := x); [reflexivity | |].
  - (* same keys *)
    assert (G : graph_of (upd_over s e) = graph_of s1) by apply up1_spec_graph.
    rewrite <- keys_graph_of, G, keys_graph_of. exact Hk.
  - rewrite up1_spec_graph. exact Hr.
Qed.
End UpsertOne.

Lemma upsert_absent_is_add s e : find (fst e) s = None ->
  i_upsert true s [e] = i_add true s [e]
  /\ s_compute s (OUpsert true [e]) = s_compute s (OAdd true [e])
  /\ insert_all s [e] = TOk (upd_over s e).
Proof.
  intros F. unfold i_upsert, i_add, s_compute. cbn [fold_left s_edit i_add_loop insert_all latest_versions existsb].
  unfold i_upsert_one, upd_noover, upd_over. rewrite !F. cbn [fst snd]. rewrite ?F. repeat split; rewrite ?F; reflexivity.
Qed.

Lemma inc_refines_upsert_one s e :
  Inv s ->
  (acyclic (graph_of (upd_over s e)) ->
   exists si ss, i_upsert true s [e] = TOk si /\ s_compute s (OUpsert true [e]) = TOk ss /\ agree si ss)
  /\ (i_upsert true s [e] = TErr ECycle -> s_compute s (OUpsert true [e]) = TErr ECycle).
Proof.
  intros HI. destruct e as [u ps]. destruct (find u s) as [old|] eqn:Fu.
  - split.
    + intros Hacy. apply (up1_refines s u ps old HI Fu).
      rewrite <- (up1_spec_graph s u ps). exact Hacy.
    + apply (up1_cycle s u ps old HI Fu).
  - destruct (upsert_absent_is_add s (u, ps) Fu) as [E1 [E2 E3]]. split.
    + intros Hacy. destruct (inc_refines_add s [(u, ps)] _ HI E3 Hacy) as [si [ss [A [B C]]]].
      exists si, ss. split; [exact (eq_trans E1 A) | split; [exact (eq_trans E2 B) | exact C]].
    + intros H. refine (eq_trans E2 _). eapply inc_add_cycle; [exact HI | exact E3 | exact (eq_trans (eq_sym E1) H)].
Qed.
