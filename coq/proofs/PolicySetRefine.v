(* PolicySetRefine.v — refinement of the policy-set model to the abstract finite map
   id -> static body | template | link (template id, slot values)   (C08) *)
From Cedar Require Import PolicySet ValueProofs PolicySetWF.

Inductive aentry :=
| AStatic (t : template)
| ATemplate (t : template)
| ALink (tmpl : str) (env : slotenv).

(* the abstraction function *)
Definition abs_of (s : pset) (i : str) : option aentry :=
  match alookup i (ps_links s) with
  | Some p => Some (match plink p with
                    | None => AStatic (ptemplate p)
                    | Some _ => ALink (tid (ptemplate p)) (penv p)
                    end)
  | None => match alookup i (ps_templates s) with
            | Some t => Some (ATemplate t)
            | None => None
            end
  end.

(* the abstract operations *)
Definition aput (m : str -> option aentry) (k : str) (v : aentry) : str -> option aentry :=
  fun i => if str_eqb i k then Some v else m i.
Definition adel (m : str -> option aentry) (k : str) : str -> option aentry :=
  fun i => if str_eqb i k then None else m i.

(* `policies s` (what authorization iterates over) = exactly the static bodies and links of the map *)
Lemma policies_exact s i p :
  alookup i (ps_links s) = Some p ->
  abs_of s i = Some (match plink p with None => AStatic (ptemplate p) | Some _ => ALink (tid (ptemplate p)) (penv p) end).
Proof. intros H. unfold abs_of. rewrite H. reflexivity. Qed.

Lemma policies_only s i :
  alookup i (ps_links s) = None -> (abs_of s i = None \/ exists t, abs_of s i = Some (ATemplate t)).
Proof. intros H. unfold abs_of. rewrite H. destruct (alookup i (ps_templates s)); eauto. Qed.

Lemma abs_none s i : abs_of s i = None <-> (alookup i (ps_links s) = None /\ alookup i (ps_templates s) = None).
Proof.
  unfold abs_of. destruct (alookup i (ps_links s)); [split; [discriminate|intros [? _]; discriminate]|].
  destruct (alookup i (ps_templates s)); split; try discriminate; intuition discriminate.
Qed.

(* ------------------------------------------------------------------ each operation refines its abstract counterpart *)
Lemma add_static_refines s t s' :
  ps_add_static s t = OOk s' -> forall i, abs_of s' i = aput (abs_of s) (tid t) (AStatic t) i.
Proof.
  unfold ps_add_static. destruct (amem (tid t) (ps_templates s)); [discriminate|].
  destruct (amem (tid t) (ps_links s)); [discriminate|]. intros H i. inversion H; subst; clear H.
  unfold abs_of, aput. cbn [ps_links ps_templates]. rewrite !alookup_ainsert.
  destruct (str_eqb i (tid t)); reflexivity.
Qed.

Lemma add_static_ok_iff s t :
  (exists s', ps_add_static s t = OOk s') <-> abs_of s (tid t) = None.
Proof.
  rewrite abs_none. unfold ps_add_static. rewrite <- !amem_false.
  destruct (amem (tid t) (ps_templates s)), (amem (tid t) (ps_links s)); split;
    try (intros [? H]; discriminate H); try (intros [? ?]; discriminate); eauto.
Qed.

Lemma add_template_refines s t s' :
  ps_add_template s t = OOk s' -> forall i, abs_of s' i = aput (abs_of s) (tid t) (ATemplate t) i.
Proof.
  unfold ps_add_template. destruct (amem (tid t) (ps_links s)) eqn:EL; [discriminate|].
  destruct (amem (tid t) (ps_templates s)); [discriminate|]. intros H i. inversion H; subst; clear H.
  apply amem_false in EL.
  unfold abs_of, aput. cbn [ps_links ps_templates]. rewrite alookup_ainsert.
  destruct (str_eqb i (tid t)) eqn:E; [|reflexivity]. apply str_eqb_eq in E. subst i. rewrite EL. reflexivity.
Qed.

Lemma add_template_ok_iff s t :
  (exists s', ps_add_template s t = OOk s') <-> abs_of s (tid t) = None.
Proof.
  rewrite abs_none. unfold ps_add_template. rewrite <- !amem_false.
  destruct (amem (tid t) (ps_templates s)), (amem (tid t) (ps_links s)); split;
    try (intros [? H]; discriminate H); try (intros [? ?]; discriminate); eauto.
Qed.

Lemma link_refines s tmpl new env s' :
  WF s -> ps_link s tmpl new env = OOk s' -> forall i, abs_of s' i = aput (abs_of s) new (ALink tmpl env) i.
Proof.
  intros W. unfold ps_link. destruct (alookup tmpl (ps_templates s)) as [t|] eqn:ET; [|discriminate].
  destruct (t_is_static t && amem tmpl (ps_links s)); [discriminate|].
  destruct (check_binding t env); cbn; [|discriminate].
  destruct (amem new (ps_links s)); [discriminate|].
  destruct (amem new (ps_templates s)) eqn:EN; [discriminate|]. intros H i. inversion H; subst; clear H.
  unfold abs_of, aput. cbn [ps_links ps_templates]. rewrite alookup_ainsert.
  destruct (str_eqb i new) eqn:E; [|reflexivity]. cbn. rewrite (wf_tid _ W _ _ ET). reflexivity.
Qed.

(* link is Ok iff the abstract map has a template there (for a slot-less one: not shadowed by a static
   policy, i.e. the entry really is "template"), exactly its slots are bound and the new id is free *)
Lemma link_ok_iff s tmpl new env :
  WF s ->
  ((exists s', ps_link s tmpl new env = OOk s') <->
   (exists t, abs_of s tmpl = Some (ATemplate t) /\ check_binding t env = true /\ abs_of s new = None)).
Proof.
  intros W. split.
  - intros [s' H]. unfold ps_link in H. destruct (alookup tmpl (ps_templates s)) as [t|] eqn:ET; [|discriminate].
    exists t. destruct (alookup tmpl (ps_links s)) as [p|] eqn:EL.
    + exfalso. assert (HT : alookup tmpl (ps_templates s) <> None) by congruence.
      pose proof (wf_disj _ W _ _ EL HT) as Hs.
      destruct (wf_link _ W _ _ EL) as [Hpid [HB [_ G]]]. rewrite (static_pid _ Hs) in Hpid.
      rewrite Hpid, ET in HB. inversion HB; subst t. unfold p_is_static in G. rewrite Hs in G.
      assert (A : amem tmpl (ps_links s) = true) by (apply amem_true; congruence).
      rewrite G, A in H. discriminate H.
    + destruct (t_is_static t && amem tmpl (ps_links s)); [discriminate|].
      destruct (check_binding t env) eqn:EB; cbn in H; [|discriminate].
      destruct (amem new (ps_links s)) eqn:A1; [discriminate|].
      destruct (amem new (ps_templates s)) eqn:A2; [discriminate|].
      split; [unfold abs_of; rewrite EL, ET; reflexivity|]. split; [reflexivity|].
      apply abs_none. split; apply amem_false; assumption.
  - intros [t [HA [HB HN]]]. apply abs_none in HN. destruct HN as [HL HT].
    apply (proj2 (amem_false _ _)) in HL. apply (proj2 (amem_false _ _)) in HT.
    unfold abs_of in HA. unfold ps_link.
    destruct (alookup tmpl (ps_links s)) as [p|] eqn:EL; [destruct (plink p); discriminate HA|].
    destruct (alookup tmpl (ps_templates s)) as [t0|] eqn:ET; [|discriminate HA]. inversion HA; subst t0.
    assert (A : amem tmpl (ps_links s) = false) by (apply amem_false; exact EL).
    rewrite A, Bool.andb_false_r, HB, HL, HT. cbn. eauto.
Qed.

Lemma unlink_refines s i s' p :
  ps_unlink s i = OOk (s', p) -> forall j, abs_of s' j = adel (abs_of s) i j.
Proof.
  unfold ps_unlink. destruct (amem i (ps_templates s)) eqn:ET; [discriminate|].
  destruct (alookup i (ps_links s)) as [p0|]; [|discriminate].
  destruct (alookup (tid (ptemplate p0)) (ps_t2l s)); [|discriminate]. intros H j. inversion H; subst; clear H.
  apply amem_false in ET.
  unfold abs_of, adel. cbn [ps_links ps_templates]. rewrite alookup_aremove.
  destruct (str_eqb j i) eqn:E; [|reflexivity]. apply str_eqb_eq in E. subst j. rewrite ET. reflexivity.
Qed.

Lemma unlink_ok_iff s i :
  WF s -> ((exists r, ps_unlink s i = OOk r) <-> (exists t e, abs_of s i = Some (ALink t e))).
Proof.
  intros W. unfold ps_unlink, abs_of. split.
  - intros [r H]. destruct (amem i (ps_templates s)) eqn:ET; [discriminate|]. apply amem_false in ET.
    destruct (alookup i (ps_links s)) as [p|] eqn:EL; [|discriminate].
    destruct (plink p) eqn:Ep; [eauto|]. exfalso.
    destruct (wf_link _ W _ _ EL) as [Hpid [HB _]]. rewrite (static_pid _ Ep) in Hpid. rewrite Hpid in HB. congruence.
  - intros [t [e H]]. destruct (alookup i (ps_links s)) as [p|] eqn:EL.
    + destruct (plink p) eqn:Ep; [|discriminate].
      assert (ET : amem i (ps_templates s) = false).
      { destruct (amem i (ps_templates s)) eqn:A; [|reflexivity]. apply amem_true in A.
        pose proof (wf_disj _ W _ _ EL A). congruence. }
      rewrite ET. destruct (wf_link _ W _ _ EL) as [_ [HB _]].
      destruct (alookup (tid (ptemplate p)) (ps_t2l s)) eqn:EM; [eauto|].
      apply (wf_t2l_dom _ W) in EM. congruence.
    + destruct (alookup i (ps_templates s)); discriminate.
Qed.

Lemma remove_static_refines s i s' p :
  ps_remove_static s i = OOk (s', p) -> forall j, abs_of s' j = adel (abs_of s) i j.
Proof.
  unfold ps_remove_static. destruct (alookup i (ps_links s)) as [p0|]; [|discriminate].
  destruct (amem i (ps_templates s)); [|discriminate]. intros H j. inversion H; subst; clear H.
  unfold abs_of, adel. cbn [ps_links ps_templates]. rewrite alookup_aremove. rewrite alookup_aremove.
  destruct (str_eqb j i); reflexivity.
Qed.

Lemma remove_static_ok_iff s i :
  WF s -> ((exists r, ps_remove_static s i = OOk r) <-> (exists t, abs_of s i = Some (AStatic t))).
Proof.
  intros W. unfold ps_remove_static, abs_of. split.
  - intros [r H]. destruct (alookup i (ps_links s)) as [p|] eqn:EL; [|discriminate].
    destruct (amem i (ps_templates s)) eqn:ET; [|discriminate]. apply amem_true in ET.
    rewrite (wf_disj _ W _ _ EL ET). eauto.
  - intros [t H]. destruct (alookup i (ps_links s)) as [p|] eqn:EL.
    + destruct (plink p) eqn:Ep; [discriminate|].
      destruct (wf_link _ W _ _ EL) as [Hpid [HB _]]. rewrite (static_pid _ Ep) in Hpid. rewrite Hpid in HB.
      assert (A : amem i (ps_templates s) = true) by (apply amem_true; congruence). rewrite A. eauto.
    + destruct (alookup i (ps_templates s)); discriminate.
Qed.

Lemma remove_template_refines s i s' :
  ps_remove_template s i = OOk s' -> forall j, abs_of s' j = adel (abs_of s) i j.
Proof.
  unfold ps_remove_template. destruct (amem i (ps_links s)) eqn:EL; [discriminate|].
  destruct (alookup i (ps_t2l s)) as [[|]|]; try discriminate.
  destruct (amem i (ps_templates s)); [|discriminate]. intros H j. inversion H; subst; clear H.
  apply amem_false in EL.
  unfold abs_of, adel. cbn [ps_links ps_templates]. rewrite alookup_aremove.
  destruct (str_eqb j i) eqn:E; [|reflexivity]. apply str_eqb_eq in E. subst j. rewrite EL. reflexivity.
Qed.

(* remove_template is Ok iff the entry is a template and no link of the map names it *)
Lemma remove_template_ok_iff s i :
  WF s ->
  ((exists s', ps_remove_template s i = OOk s') <->
   ((exists t, abs_of s i = Some (ATemplate t)) /\ forall j e, abs_of s j <> Some (ALink i e))).
Proof.
  intros W. unfold ps_remove_template. split.
  - intros [s' H]. destruct (amem i (ps_links s)) eqn:EL; [discriminate|]. apply amem_false in EL.
    destruct (alookup i (ps_t2l s)) as [[|]|] eqn:EM; try discriminate.
    destruct (amem i (ps_templates s)) eqn:ET; [|discriminate]. apply amem_true in ET. split.
    + unfold abs_of. rewrite EL. destruct (alookup i (ps_templates s)); [eauto|congruence].
    + intros j e HA. unfold abs_of in HA. destruct (alookup j (ps_links s)) as [p|] eqn:EJ.
      * destruct (plink p); [|discriminate]. inversion HA; subst.
        exact (proj2 (wf_t2l _ W _ _ j EM) (ex_intro _ p (conj EJ eq_refl))).
      * destruct (alookup j (ps_templates s)); discriminate.
  - intros [[t HA] HN]. unfold abs_of in HA.
    destruct (alookup i (ps_links s)) as [p|] eqn:EL; [destruct (plink p); discriminate HA|].
    destruct (alookup i (ps_templates s)) as [t0|] eqn:ET; [|discriminate HA].
    assert (A : amem i (ps_links s) = false) by (apply amem_false; exact EL). rewrite A.
    destruct (alookup i (ps_t2l s)) as [ids|] eqn:EM.
    + destruct ids as [|j ids].
      * assert (B : amem i (ps_templates s) = true) by (apply amem_true; congruence). rewrite B. eauto.
      * exfalso. destruct (proj1 (wf_t2l _ W _ _ j EM) (or_introl eq_refl)) as [p [EJ Ht]].
        destruct (plink p) eqn:Ep.
        -- apply (HN j (penv p)). unfold abs_of. rewrite EJ, Ep, Ht. reflexivity.
        -- destruct (wf_link _ W _ _ EJ) as [Hpid _]. rewrite (static_pid _ Ep), Ht in Hpid. subst j. congruence.
    + apply (wf_t2l_dom _ W) in EM. congruence.
Qed.

(* ------------------------------------------------------------------ merge: the two result-class facts *)
Lemma ps_merge_norename a b s' r : ps_merge a b false = OOk (s', r) -> r = [].
Proof.
  unfold ps_merge. cbv zeta.
  match goal with |- context [match fst ?st with _ => _ end] => destruct (fst st) eqn:E end.
  - intros H. inversion H. reflexivity.
  - discriminate.
Qed.
Lemma ps_merge_rename_total a b : exists s' r, ps_merge a b true = OOk (s', r).
Proof. unfold ps_merge. cbv zeta. eexists. eexists. reflexivity. Qed.
