(* SymLitProofs.v — lemmas for C18 (coq/model/SymLit.v). *)
From Coq Require Import Lia ZArith Bool List.
From Coq Require Import ZifyBool.
From Cedar Require Import SymLit ValueProofs.
Import ListNotations.
Open Scope Z_scope.

Ltac zmod := unfold two64, two63, i64_min, i64_max in *; Z.div_mod_to_equations; lia.

(* ---------- bit-vectors ---------- *)
Lemma in_i64_bounds : forall z, in_i64 z = true <-> (-9223372036854775808 <= z <= 9223372036854775807).
Proof. intros z. unfold in_i64, i64_min, i64_max. lia. Qed.

Lemma bv_of_int_range : forall z, 0 <= bv_of_int z < two64.
Proof. intros z. unfold bv_of_int. zmod. Qed.

Lemma bv_to_of : forall z, in_i64 z = true -> bv_to_int (bv_of_int z) = z.
Proof.
  intros z H. apply in_i64_bounds in H. unfold bv_to_int, bv_of_int.
  destruct (Z.ltb_spec (z mod two64) two63); zmod.
Qed.

Lemma bv_overflows_in_i64 : forall i, bv_overflows i = negb (in_i64 i).
Proof. intros i. unfold bv_overflows, in_i64. lia. Qed.

Lemma bvadd_hom : forall a b, bvadd (bv_of_int a) (bv_of_int b) = bv_of_int (a + b).
Proof. intros. unfold bvadd, bv_of_int. symmetry. apply Zplus_mod. Qed.

Lemma bvmul_hom : forall a b, bvmul (bv_of_int a) (bv_of_int b) = bv_of_int (a * b).
Proof. intros. unfold bvmul, bv_of_int. symmetry. apply Zmult_mod. Qed.

Lemma bvneg_hom : forall a, bvneg (bv_of_int a) = bv_of_int (- a).
Proof. intros. unfold bvneg, bvadd, bvnot, bv_of_int. zmod. Qed.

Lemma bvsub_hom : forall a b, bvsub (bv_of_int a) (bv_of_int b) = bv_of_int (a - b).
Proof.
  intros. unfold bvsub. rewrite bvneg_hom, bvadd_hom. reflexivity.
Qed.

(* the overflow predicates are the evaluator's range tests; the wrapped result is the exact one otherwise *)
Lemma bv_arith : forall a b, in_i64 a = true -> in_i64 b = true ->
  bvsaddo (bv_of_int a) (bv_of_int b) = negb (in_i64 (a + b)) /\
  bvssubo (bv_of_int a) (bv_of_int b) = negb (in_i64 (a - b)) /\
  bvsmulo (bv_of_int a) (bv_of_int b) = negb (in_i64 (a * b)) /\
  bvnego (bv_of_int a) = negb (in_i64 (- a)) /\
  bvadd (bv_of_int a) (bv_of_int b) = bv_of_int (a + b) /\
  bvsub (bv_of_int a) (bv_of_int b) = bv_of_int (a - b) /\
  bvmul (bv_of_int a) (bv_of_int b) = bv_of_int (a * b) /\
  bvneg (bv_of_int a) = bv_of_int (- a) /\
  (in_i64 (a + b) = true -> bv_to_int (bvadd (bv_of_int a) (bv_of_int b)) = a + b) /\
  (in_i64 (a - b) = true -> bv_to_int (bvsub (bv_of_int a) (bv_of_int b)) = a - b) /\
  (in_i64 (a * b) = true -> bv_to_int (bvmul (bv_of_int a) (bv_of_int b)) = a * b) /\
  (in_i64 (- a) = true -> bv_to_int (bvneg (bv_of_int a)) = - a).
Proof.
  intros a b Ha Hb.
  unfold bvsaddo, bvssubo, bvsmulo, bvnego.
  rewrite !bv_to_of by assumption. rewrite !bv_overflows_in_i64.
  rewrite bvadd_hom, bvsub_hom, bvmul_hom, bvneg_hom.
  repeat split; auto using bv_to_of.
Qed.

Lemma bv_of_int_inj : forall a b, in_i64 a = true -> in_i64 b = true -> bv_of_int a = bv_of_int b -> a = b.
Proof.
  intros a b Ha Hb H. rewrite <- (bv_to_of a Ha), <- (bv_to_of b Hb). now rewrite H.
Qed.

Lemma bv_cmp : forall a b, in_i64 a = true -> in_i64 b = true ->
  bvslt (bv_of_int a) (bv_of_int b) = (a <? b) /\
  bvsle (bv_of_int a) (bv_of_int b) = (a <=? b) /\
  lit_eqb (LBv (bv_of_int a)) (LBv (bv_of_int b)) = (a =? b).
Proof.
  intros a b Ha Hb. unfold bvslt, bvsle. rewrite !bv_to_of by assumption. repeat split.
  cbn [lit_eqb]. destruct (Z.eqb_spec a b) as [->|N].
  - apply Z.eqb_refl.
  - apply Z.eqb_neq. intro E. apply N. now apply bv_of_int_inj.
Qed.

(* ---------- verify_* ---------- *)
Lemma existsb_negb_all_true : forall l, forallb (fun b => b) l = true -> existsb negb l = false.
Proof. induction l as [|x l IH]; cbn; auto. intros H. apply andb_prop in H as [-> H]. cbn. auto. Qed.

Lemma verdict_vc : forall enf phi, forallb (fun b => b) enf = true ->
  (verdict_of (vc enf phi) = Unsat <-> phi = true).
Proof.
  intros enf phi H. unfold vc, verdict_of. destruct phi; cbn.
  - tauto.
  - rewrite existsb_app, existsb_negb_all_true by assumption. cbn. split; discriminate.
Qed.

Lemma matches_t_iff : forall t, matches_t t = true <-> t = TSome (LBool true).
Proof.
  intros [l|ty]; cbn.
  - destruct l as [[|]| | |]; cbn; split; intro H; try discriminate; try reflexivity; inversion H.
  - split; discriminate.
Qed.

Lemma verify_single : forall enf t, forallb (fun b => b) enf = true ->
  (verdict_of (verify_never_errors enf t) = Unsat <-> exists l, t = TSome l) /\
  (verdict_of (verify_always_matches enf t) = Unsat <-> t = TSome (LBool true)) /\
  (verdict_of (verify_never_matches enf t) = Unsat <-> t <> TSome (LBool true)).
Proof.
  intros enf t H. unfold verify_never_errors, verify_always_matches, verify_never_matches.
  rewrite !verdict_vc by assumption. repeat split.
  - destruct t; cbn; intro E; [eauto | discriminate].
  - intros [l ->]. reflexivity.
  - apply matches_t_iff.
  - apply matches_t_iff.
  - intros E C. apply matches_t_iff in C. rewrite C in E. discriminate.
  - intro N. destruct (matches_t t) eqn:E; auto. apply matches_t_iff in E. contradiction.
Qed.

Lemma verify_pair : forall enf t1 t2, forallb (fun b => b) enf = true ->
  (verdict_of (verify_matches_equivalent enf t1 t2) = Unsat <-> matches_t t1 = matches_t t2) /\
  (verdict_of (verify_matches_implies enf t1 t2) = Unsat <-> (matches_t t1 = true -> matches_t t2 = true)) /\
  (verdict_of (verify_matches_disjoint enf t1 t2) = Unsat <-> ~ (matches_t t1 = true /\ matches_t t2 = true)).
Proof.
  intros enf t1 t2 H. unfold verify_matches_equivalent, verify_matches_implies, verify_matches_disjoint.
  rewrite !verdict_vc by assumption.
  destruct (matches_t t1), (matches_t t2); cbn; repeat split; try tauto; try discriminate; intuition discriminate.
Qed.

Lemma verify_authz : forall enf d1 d2, forallb (fun b => b) enf = true ->
  (verdict_of (verify_always_allows enf d1) = Unsat <-> d1 = true) /\
  (verdict_of (verify_always_denies enf d1) = Unsat <-> d1 = false) /\
  (verdict_of (verify_implies enf d1 d2) = Unsat <-> (d1 = true -> d2 = true)) /\
  (verdict_of (verify_equivalent enf d1 d2) = Unsat <-> d1 = d2) /\
  (verdict_of (verify_disjoint enf d1 d2) = Unsat <-> ~ (d1 = true /\ d2 = true)).
Proof.
  intros enf d1 d2 H.
  unfold verify_always_allows, verify_always_denies, verify_implies, verify_equivalent, verify_disjoint.
  rewrite !verdict_vc by assumption.
  destruct d1, d2; cbn; repeat split; try tauto; try discriminate; intuition discriminate.
Qed.

(* ---------- compile_lit vs eval on the covered fragment ---------- *)
Fixpoint lits_ok (e : expr) : bool :=
  match e with
  | Lit (PLong z) => in_i64 z
  | If a b c => lits_ok a && lits_ok b && lits_ok c
  | And a b | Or a b | BinApp _ a b => lits_ok a && lits_ok b
  | UnApp _ a | Like a _ | Is a _ => lits_ok a
  | _ => true
  end.

(* the literal term of a value of the fragment; Long values are in range (invariant of the evaluator) *)
Definition rel (r : res value) (t : oterm) : Prop :=
  match r with
  | Ok (VPrim (PLong z)) => in_i64 z = true /\ t = TSome (LBv (bv_of_int z))
  | Ok (VPrim p) => t = TSome (lit_of_prim p)
  | Ok _ => False
  | Err _ => exists ty, t = TNone ty
  end.

Lemma rel_some_inv : forall r l, rel r (TSome l) ->
  exists p, r = Ok (VPrim p) /\ l = lit_of_prim p /\ (forall z, p = PLong z -> in_i64 z = true).
Proof.
  intros [v|e] l H; cbn in H.
  - destruct v as [p| | |]; try contradiction. destruct p; try (inversion H; subst; eexists; repeat split; congruence).
    destruct H as [R H]. inversion H; subst. eexists; repeat split. intros z0 E. inversion E; subst; auto.
  - destruct H as [ty H]. discriminate.
Qed.

Lemma rel_none_inv : forall r ty, rel r (TNone ty) -> exists e, r = Err e.
Proof.
  intros [v|e] ty H; cbn in H; eauto.
  destruct v as [p| | |]; try contradiction. destruct p; try discriminate. destruct H; discriminate.
Qed.

Lemma rel_prim : forall p, (forall z, p = PLong z -> in_i64 z = true) -> rel (Ok (VPrim p)) (TSome (lit_of_prim p)).
Proof. intros [b|z|s|u] H; cbn; auto. Qed.

Lemma prim_lit_eqb : forall p q,
  (forall z, p = PLong z -> in_i64 z = true) -> (forall z, q = PLong z -> in_i64 z = true) ->
  lit_eqb (lit_of_prim p) (lit_of_prim q) = prim_eqb p q.
Proof.
  intros [a|a|a|a] [b|b|b|b] Hp Hq; cbn; auto.
  destruct (bv_cmp a b (Hp _ eq_refl) (Hq _ eq_refl)) as (_ & _ & C). exact C.
Qed.

Lemma app2_ok : forall es op p1 p2 rty,
  (forall z, p1 = PLong z -> in_i64 z = true) -> (forall z, p2 = PLong z -> in_i64 z = true) ->
  binop_covered op = true ->
  app2_ty op (lit_ty (lit_of_prim p1)) (lit_ty (lit_of_prim p2)) = Some rty ->
  rel (binary_app es op (VPrim p1) (VPrim p2)) (app2_val op (lit_of_prim p1) (lit_of_prim p2)).
Proof.
  intros es op p1 p2 rty H1 H2 Hc Ht.
  destruct op; try discriminate; cbn [binary_app].
  - (* Eq *) cbn [app2_val value_eqb]. rewrite prim_lit_eqb by assumption. cbn. reflexivity.
  - destruct p1, p2; try discriminate. destruct (bv_cmp z z0 (H1 _ eq_refl) (H2 _ eq_refl)) as (A & B & C). cbn. rewrite A. reflexivity.
  - destruct p1, p2; try discriminate. destruct (bv_cmp z z0 (H1 _ eq_refl) (H2 _ eq_refl)) as (A & B & C). cbn. rewrite B. reflexivity.
  - destruct p1, p2; try discriminate. cbn. unfold checked.
    destruct (bv_arith z z0 (H1 _ eq_refl) (H2 _ eq_refl)) as (A & _ & _ & _ & B & _).
    rewrite A, B. destruct (in_i64 (z + z0)) eqn:E; cbn; eauto.
  - destruct p1, p2; try discriminate. cbn. unfold checked.
    destruct (bv_arith z z0 (H1 _ eq_refl) (H2 _ eq_refl)) as (_ & A & _ & _ & _ & B & _).
    rewrite A, B. destruct (in_i64 (z - z0)) eqn:E; cbn; eauto.
  - destruct p1, p2; try discriminate. cbn. unfold checked.
    destruct (bv_arith z z0 (H1 _ eq_refl) (H2 _ eq_refl)) as (_ & _ & A & _ & _ & _ & B & _).
    rewrite A, B. destruct (in_i64 (z * z0)) eqn:E; cbn; eauto.
Qed.

Lemma app1_ok : forall op p rty,
  (forall z, p = PLong z -> in_i64 z = true) ->
  app1_ty op (lit_ty (lit_of_prim p)) = Some rty ->
  rel (unary_app op (VPrim p)) (app1_val op (lit_of_prim p)).
Proof.
  intros op p rty H Ht. destruct op, p; try discriminate; cbn.
  - reflexivity.
  - unfold checked.
    destruct (bv_arith z 0 (H _ eq_refl) eq_refl) as (_ & _ & _ & A & _ & _ & _ & B & _).
    rewrite A, B. destruct (in_i64 (- z)) eqn:E; cbn; eauto.
Qed.

Lemma name_eqb_sym : forall a b, name_eqb a b = name_eqb b a.
Proof.
  intros a b. unfold name_eqb.
  destruct (strs_eqb a b) eqn:E1, (strs_eqb b a) eqn:E2; auto.
  - apply strs_eqb_eq in E1. subst. rewrite (proj2 (strs_eqb_eq b b) eq_refl) in E2. discriminate.
  - apply strs_eqb_eq in E2. subst. rewrite (proj2 (strs_eqb_eq a a) eq_refl) in E1. discriminate.
Qed.

Lemma lit_of_prim_bool : forall p b, LBool b = lit_of_prim p -> p = PBool b.
Proof. intros [x|x|x|x] b H; inversion H; reflexivity. Qed.
Lemma lit_of_prim_str : forall p s, LStr s = lit_of_prim p -> p = PString s.
Proof. intros [x|x|x|x] b H; inversion H; reflexivity. Qed.
Lemma lit_of_prim_ent_ty : forall p t, lit_ty (lit_of_prim p) = TyEnt t -> exists u, p = PEntity u /\ uty u = t.
Proof. intros [x|x|x|x] t H; inversion H; eauto. Qed.
Lemma lit_ty_bool : forall p, lit_ty (lit_of_prim p) = TyBool -> exists b, p = PBool b.
Proof. intros [x|x|x|x] H; inversion H; eauto. Qed.

Lemma compile_eval : forall valid sl q es e t,
  lits_ok e = true -> compile_lit valid q e = COk t -> rel (eval sl q es e) t.
Proof.
  intros valid sl q es.
  induction e as [p|v|s|n ty|e1 IHe1 e2 IHe2 e3 IHe3|e1 IHe1 e2 IHe2|e1 IHe1 e2 IHe2|op e IHe|op e1 IHe1 e2 IHe2|fn args|e IHe at_|e IHe at_|e IHe pat|e IHe ety|items|items]; intros t L C; cbn [compile_lit] in C; cbn [lits_ok] in L.
  - (* Lit *) destruct p; try (inversion C; subst; cbn; auto; fail).
    destruct (valid u); inversion C; subst. cbn. reflexivity.
  - (* Var *) destruct v; inversion C; subst; cbn; reflexivity.
  - discriminate.
  - discriminate.
  - (* If *)
    apply andb_prop in L as [L L3]. apply andb_prop in L as [L1 L2].
    destruct (compile_lit valid q e1) as [t1| |] eqn:C1; try discriminate.
    specialize (IHe1 t1 L1 eq_refl). cbn [eval].
    destruct t1 as [l1|ty1].
    + destruct (rel_some_inv _ _ IHe1) as (p & E & -> & _). rewrite E. cbn [bind].
      destruct p as [[|]| | |]; cbn in C |- *; try discriminate; auto.
    + destruct (rel_none_inv _ _ IHe1) as (er & E). rewrite E. cbn [bind].
      cbn in C. destruct ty1; try discriminate.
      destruct (compile_lit valid q e2); try discriminate.
      destruct (compile_lit valid q e3); try discriminate.
      destruct (tty_eqb _ _); inversion C. cbn. eauto.
  - (* And *)
    apply andb_prop in L as [L1 L2].
    destruct (compile_lit valid q e1) as [t1| |] eqn:C1; try discriminate.
    specialize (IHe1 t1 L1 eq_refl). cbn [eval].
    destruct t1 as [l1|ty1].
    + destruct (rel_some_inv _ _ IHe1) as (p & E & -> & _). rewrite E. cbn [bind].
      destruct p as [[|]| | |]; cbn in C |- *; try discriminate.
      * destruct (compile_lit valid q e2) as [t2| |] eqn:C2; try discriminate.
        specialize (IHe2 t2 L2 eq_refl).
        destruct t2 as [l2|ty2]; cbn in C.
        -- destruct (rel_some_inv _ _ IHe2) as (p2 & E2 & -> & _). rewrite E2. cbn [bind].
           destruct (lit_ty (lit_of_prim p2)) eqn:T; try discriminate. inversion C; subst.
           destruct (lit_ty_bool _ T) as (b & ->). cbn. reflexivity.
        -- destruct (rel_none_inv _ _ IHe2) as (er & E2). rewrite E2. cbn [bind].
           destruct ty2; inversion C. cbn. eauto.
      * inversion C; subst. reflexivity.
    + destruct (rel_none_inv _ _ IHe1) as (er & E). rewrite E. cbn [bind].
      cbn in C. destruct ty1; try discriminate.
      destruct (compile_lit valid q e2) as [t2| |]; try discriminate.
      destruct (oterm_ty t2); inversion C. cbn. eauto.
  - (* Or *)
    apply andb_prop in L as [L1 L2].
    destruct (compile_lit valid q e1) as [t1| |] eqn:C1; try discriminate.
    specialize (IHe1 t1 L1 eq_refl). cbn [eval].
    destruct t1 as [l1|ty1].
    + destruct (rel_some_inv _ _ IHe1) as (p & E & -> & _). rewrite E. cbn [bind].
      destruct p as [[|]| | |]; cbn in C |- *; try discriminate.
      * inversion C; subst. reflexivity.
      * destruct (compile_lit valid q e2) as [t2| |] eqn:C2; try discriminate.
        specialize (IHe2 t2 L2 eq_refl).
        destruct t2 as [l2|ty2]; cbn in C.
        -- destruct (rel_some_inv _ _ IHe2) as (p2 & E2 & -> & _). rewrite E2. cbn [bind].
           destruct (lit_ty (lit_of_prim p2)) eqn:T; try discriminate. inversion C; subst.
           destruct (lit_ty_bool _ T) as (b & ->). cbn. reflexivity.
        -- destruct (rel_none_inv _ _ IHe2) as (er & E2). rewrite E2. cbn [bind].
           destruct ty2; inversion C. cbn. eauto.
    + destruct (rel_none_inv _ _ IHe1) as (er & E). rewrite E. cbn [bind].
      cbn in C. destruct ty1; try discriminate.
      destruct (compile_lit valid q e2) as [t2| |]; try discriminate.
      destruct (oterm_ty t2); inversion C. cbn. eauto.
  - (* UnApp *)
    destruct op; try discriminate;
    (destruct (compile_lit valid q e) as [t1| |] eqn:C1; try discriminate;
     specialize (IHe t1 L eq_refl); cbn [eval];
     destruct t1 as [l1|ty1];
     [ destruct (rel_some_inv _ _ IHe) as (p & E & -> & R); rewrite E; cbn [bind];
       cbn [oterm_ty] in C;
       match type of C with match ?x with _ => _ end = _ => destruct x eqn:T; try discriminate end;
       inversion C; subst; eapply app1_ok; eauto
     | destruct (rel_none_inv _ _ IHe) as (er & E); rewrite E; cbn [bind];
       match type of C with match ?x with _ => _ end = _ => destruct x; try discriminate end;
       inversion C; cbn; eauto ]).
  - (* BinApp *)
    apply andb_prop in L as [L1 L2].
    destruct (binop_covered op) eqn:Hc; try discriminate.
    destruct (compile_lit valid q e1) as [t1| |] eqn:C1; try discriminate.
    destruct (compile_lit valid q e2) as [t2| |] eqn:C2; try discriminate.
    specialize (IHe1 t1 L1 eq_refl). specialize (IHe2 t2 L2 eq_refl). cbn [eval].
    destruct (app2_ty op (oterm_ty t1) (oterm_ty t2)) as [rty|] eqn:T; try discriminate.
    inversion C; subst; clear C.
    destruct t1 as [l1|ty1].
    + destruct (rel_some_inv _ _ IHe1) as (p1 & E1 & -> & R1). rewrite E1. cbn [bind].
      destruct t2 as [l2|ty2].
      * destruct (rel_some_inv _ _ IHe2) as (p2 & E2 & -> & R2). rewrite E2. cbn [bind].
        eapply app2_ok; eauto.
      * destruct (rel_none_inv _ _ IHe2) as (er & E2). rewrite E2. cbn. eauto.
    + destruct (rel_none_inv _ _ IHe1) as (er & E1). rewrite E1. cbn. eauto.
  - discriminate.
  - discriminate.
  - discriminate.
  - (* Like *)
    destruct (compile_lit valid q e) as [t1| |] eqn:C1; try discriminate.
    specialize (IHe t1 L eq_refl). cbn [eval].
    destruct t1 as [l1|ty1].
    + destruct (rel_some_inv _ _ IHe) as (p1 & E1 & -> & R1). rewrite E1. cbn [bind].
      destruct p1; cbn in C; try discriminate. inversion C; subst. cbn. reflexivity.
    + destruct (rel_none_inv _ _ IHe) as (er & E1). rewrite E1. cbn [bind].
      cbn in C. destruct ty1; inversion C. cbn. eauto.
  - (* Is *)
    destruct (compile_lit valid q e) as [t1| |] eqn:C1; try discriminate.
    specialize (IHe t1 L eq_refl). cbn [eval].
    destruct t1 as [l1|ty1].
    + destruct (rel_some_inv _ _ IHe) as (p1 & E1 & -> & R1). rewrite E1. cbn [bind].
      destruct p1; cbn in C; try discriminate. inversion C; subst. cbn. rewrite name_eqb_sym. reflexivity.
    + destruct (rel_none_inv _ _ IHe) as (er & E1). rewrite E1. cbn [bind].
      cbn in C. destruct ty1; inversion C. cbn. eauto.
  - discriminate.
  - discriminate.
Qed.
