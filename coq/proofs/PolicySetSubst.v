(* PolicySetSubst.v — a template-linked policy evaluates like the hand-substituted static policy (C08) *)
From Cedar Require Import PolicySet.

Lemma bind_assoc {A B C} (m : res A) (g : A -> res B) (k : B -> res C) :
  bind (bind m g) k = bind m (fun x => bind (g x) k).
Proof. destruct m; reflexivity. Qed.

Section Subst.
  Variable q : request.
  Variable es : entities.

  Lemma eval_mk_and sl a b : eval sl q es (mk_and a b) = eval sl q es (And a b).
  Proof.
    destruct a as [[x| | |]| | | | | | | | | | | | | | |]; try reflexivity.
    destruct b as [[y| | |]| | | | | | | | | | | | | | |]; try reflexivity.
    destruct x, y; reflexivity.
  Qed.

  Lemma and_congr sl sl' a a' b b' :
    eval sl q es a = eval sl' q es a' -> eval sl q es b = eval sl' q es b' ->
    eval sl q es (And a b) = eval sl' q es (And a' b').
  Proof. intros H1 H2. cbn [eval]. rewrite H1, H2. reflexivity. Qed.

  Lemma mk_and_congr sl sl' a a' b b' :
    eval sl q es a = eval sl' q es a' -> eval sl q es b = eval sl' q es b' ->
    eval sl q es (mk_and a b) = eval sl' q es (mk_and a' b').
  Proof. intros H1 H2. rewrite !eval_mk_and. apply and_congr; assumption. Qed.

  Lemma eval_eref env s r :
    eval env q es (eref_expr s r) = eval [] q es (eref_expr s (subst_ref s env r)).
  Proof.
    destruct r as [u|]; cbn; [reflexivity|].
    destruct (slot_lookup s env) as [u|] eqn:E; cbn; reflexivity.
  Qed.

  Lemma eval_pc env v s c :
    eval env q es (prconstraint_expr v s c) = eval [] q es (prconstraint_expr v s (subst_pc s env c)).
  Proof.
    destruct c as [|r|r|t r|t]; cbn [prconstraint_expr subst_pc]; try reflexivity.
    - cbn [eval]. rewrite (eval_eref env s r). reflexivity.
    - cbn [eval]. rewrite (eval_eref env s r). reflexivity.
    - apply mk_and_congr; [reflexivity|]. cbn [eval]. rewrite (eval_eref env s r). reflexivity.
  Qed.

  Lemma eval_lits sl us :
    eval sl q es (SetE (map (fun u => Lit (PEntity u)) us)) = eval [] q es (SetE (map (fun u => Lit (PEntity u)) us)).
  Proof.
    cbn [eval]. generalize (fun vs : list value => @Ok value (VSet vs)). 
    induction us as [|u us IH]; intros k; cbn; [reflexivity|].
    rewrite !bind_assoc. apply IH.
  Qed.

  Lemma eval_ac sl c : eval sl q es (aconstraint_expr c) = eval [] q es (aconstraint_expr c).
  Proof.
    destruct c as [|us|u]; cbn [aconstraint_expr]; try reflexivity.
    cbn [eval]. change (eval sl q es (SetE (map (fun u => Lit (PEntity u)) us))) with (eval sl q es (SetE (map (fun u => Lit (PEntity u)) us))).
    pose proof (eval_lits sl us) as H. cbn [eval] in H. rewrite H. reflexivity.
  Qed.

  (* the when/unless body does not mention slots (the parser rejects them there): stated semantically *)
  Definition body_closed (t : template) : Prop :=
    forall sl e, tbody t = Some e -> eval sl q es e = eval [] q es e.

  Lemma link_subst t env i :
    body_closed t ->
    eval_policy q es (mkPolicy t (Some i) env) = eval_policy q es (static_of (subst_slots env t)).
  Proof.
    intros BC. unfold eval_policy, pcondition, condition. cbn [penv ptemplate static_of subst_slots tprincipal taction tresource tbody].
    f_equal. apply mk_and_congr; [apply eval_pc|]. apply mk_and_congr; [apply eval_ac|].
    apply mk_and_congr; [apply eval_pc|]. destruct (tbody t) eqn:E; [apply BC; exact E|reflexivity].
  Qed.
End Subst.
