(* ParseProofs.v — C05: parse (print_toks e) = e on the fragment.  Part 1: descent through the
   grammar levels when the next token does not belong to them. *)
From Coq Require Import Lia String.
From Cedar Require Import Unescape UnescapeProofs Printable.
Open Scope N_scope.

Definition head_plain (ts : list token) : bool :=
  match ts with TBang :: _ | TMinus :: _ => false | _ => true end.
Definition not_if_head (ts : list token) : bool :=
  match ts with TIdent s :: _ => negb (kw "if" s) | _ => true end.

  Lemma follow_mono L K rest : follow_ok L rest = true -> (L <= K)%nat -> follow_ok K rest = true.
  Proof.
    unfold follow_ok. destruct rest as [|t ?]; [reflexivity|]. destruct (cont_level t); [|reflexivity].
    intros H HL. apply Nat.ltb_lt in H. apply Nat.ltb_lt. lia.
  Qed.
  Lemma follow_mul rest : follow_ok 5 rest = true -> mul_start rest = false.
  Proof. destruct rest as [|[] ?]; cbn; intros H; try reflexivity; discriminate. Qed.
  Lemma follow_add rest : follow_ok 4 rest = true -> add_start rest = false.
  Proof. destruct rest as [|[] ?]; cbn; intros H; try reflexivity; discriminate. Qed.
  Lemma follow_rel rest : follow_ok 3 rest = true -> rel_continues rest = false.
  Proof.
    destruct rest as [|t ?]; [reflexivity|]. unfold follow_ok, rel_continues.
    destruct t; cbn; intros H; try reflexivity; try discriminate.
    destruct (kw "in" s); [discriminate|]. cbn.
    destruct (kw "has" s || kw "like" s || kw "is" s); [discriminate|reflexivity].
  Qed.
  Lemma follow_and rest : follow_ok 2 rest = true -> match rest with TAndAnd :: _ => False | _ => True end.
  Proof. destruct rest as [|[] ?]; cbn; intros H; try exact I; discriminate. Qed.
  Lemma follow_or rest : follow_ok 1 rest = true -> match rest with TOrOr :: _ => False | _ => True end.
  Proof. destruct rest as [|[] ?]; cbn; intros H; try exact I; discriminate. Qed.

Section Descent.
  Variable rec : list token -> pres.
  Variable fuel : nat.


  Lemma step6 ts r rest :
    parse_member rec fuel ts = Some (r, rest) -> head_plain ts = true -> parse_unary rec fuel ts = Some (r, rest).
  Proof.
    intros H Hp. unfold parse_unary.
    destruct ts as [|t ts']; [cbn; exact H|].
    destruct t; try discriminate Hp; cbn [count_tok is_bang is_minus]; exact H.
  Qed.


  Lemma step5 ts r rest :
    parse_unary rec fuel ts = Some (r, rest) -> follow_ok 5 rest = true -> parse_mul rec fuel ts = Some (r, rest).
  Proof. intros H Hf. unfold parse_mul. rewrite H, (follow_mul _ Hf). reflexivity. Qed.
  Lemma step4 ts r rest :
    parse_mul rec fuel ts = Some (r, rest) -> follow_ok 4 rest = true -> parse_add rec fuel ts = Some (r, rest).
  Proof. intros H Hf. unfold parse_add. rewrite H, (follow_add _ Hf). reflexivity. Qed.
  Lemma step3 ts r rest :
    parse_add rec fuel ts = Some (r, rest) -> follow_ok 3 rest = true -> parse_rel rec fuel ts = Some (r, rest).
  Proof.
    intros H Hf. unfold parse_rel. rewrite H. pose proof (follow_rel _ Hf) as Hc.
    destruct rest as [|t ts2]; [reflexivity|]. unfold rel_continues in Hc.
    destruct (relop_of t); [discriminate|].
    destruct t; try reflexivity.
    apply orb_false_elim in Hc. destruct Hc as [Hc H3]. apply orb_false_elim in Hc. destruct Hc as [H1 H2].
    rewrite H1, H2, H3. reflexivity.
  Qed.
  Lemma step2 ts r rest :
    parse_rel rec fuel ts = Some (r, rest) -> follow_ok 2 rest = true -> parse_and rec fuel ts = Some (r, rest).
  Proof.
    intros H Hf. unfold parse_and. rewrite H. pose proof (follow_and _ Hf) as Hc.
    destruct rest as [|[] ?]; try reflexivity; contradiction.
  Qed.
  Lemma step1 ts r rest :
    parse_and rec fuel ts = Some (r, rest) -> follow_ok 1 rest = true -> parse_or rec fuel ts = Some (r, rest).
  Proof.
    intros H Hf. unfold parse_or. rewrite H. pose proof (follow_or _ Hf) as Hc.
    destruct rest as [|[] ?]; try reflexivity; contradiction.
  Qed.
  Lemma step0 ts r rest :
    parse_or rec fuel ts = Some (r, rest) -> not_if_head ts = true -> parse_expr_body rec fuel ts = Some (r, rest).
  Proof.
    intros H Hn. unfold parse_expr_body. destruct ts as [|[] ?]; try exact H.
    cbn in Hn. apply negb_true_iff in Hn. rewrite Hn. exact H.
  Qed.

  (* from level K down to level L *)
  Lemma descend K L ts r rest :
    parse_at K rec fuel ts = Some (r, rest) -> (L <= K)%nat -> (K <= 7)%nat ->
    follow_ok L rest = true -> (K = 7%nat -> head_plain ts = true) -> not_if_head ts = true ->
    parse_at L rec fuel ts = Some (r, rest).
  Proof.
    intros H HLK HK Hf Hp Hn.
    assert (forall M, (M <= 7)%nat -> follow_ok M rest = true \/ (M < L)%nat) as Hfm.
    { intros M _. destruct (Nat.le_gt_cases L M) as [Hle|Hgt]; [left; eapply follow_mono; eauto|right; lia]. }
    assert (K = 7 \/ K = 6 \/ K = 5 \/ K = 4 \/ K = 3 \/ K = 2 \/ K = 1 \/ K = 0)%nat as HKc by lia.
    assert (L = 7 \/ L = 6 \/ L = 5 \/ L = 4 \/ L = 3 \/ L = 2 \/ L = 1 \/ L = 0)%nat as HLc by lia.
    assert (forall M, (L <= M)%nat -> follow_ok M rest = true) as Hfo by (intros; eapply follow_mono; eauto).
    pose proof (Hfo 0%nat) as F0. pose proof (Hfo 1%nat) as F1. pose proof (Hfo 2%nat) as F2.
    pose proof (Hfo 3%nat) as F3. pose proof (Hfo 4%nat) as F4. pose proof (Hfo 5%nat) as F5.
    repeat match goal with H : _ \/ _ |- _ => destruct H end; subst; try lia; cbn [parse_at] in *;
      try exact H;
      repeat first
        [ exact H
        | apply step0; [|exact Hn]
        | apply step1; [|apply F1; lia]
        | apply step2; [|apply F2; lia]
        | apply step3; [|apply F3; lia]
        | apply step4; [|apply F4; lia]
        | apply step5; [|apply F5; lia]
        | apply step6; [|apply Hp; reflexivity] ].
  Qed.
End Descent.
