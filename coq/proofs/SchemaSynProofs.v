(* SchemaSynProofs.v — lemmas about schema fragments and their resolution (C09). *)
From Coq Require Import String Permutation Lia.
From Cedar Require Import SchemaSyn.

(* ------------------------------------------------------------------------------------------
   Name resolution depends on the sets of definitions only *)
Lemma resolve_in_ext k c1 e1 c2 e2 ps :
  (forall n, mem_name n c1 = mem_name n c2) ->
  (forall n, mem_name n e1 = mem_name n e2) ->
  resolve_in k c1 e1 ps = resolve_in k c2 e2 ps.
Proof.
  intros Hc He. induction ps as [|p ps IH]; cbn [resolve_in]; [reflexivity|].
  rewrite (Hc p), (He p), IH. reflexivity.
Qed.

Lemma qual_ty_ext c1 e1 c2 e2 ns :
  (forall n, mem_name n c1 = mem_name n c2) ->
  (forall n, mem_name n e1 = mem_name n e2) ->
  forall t, qual_ty c1 e1 ns t = qual_ty c2 e2 ns t.
Proof.
  intros Hc He.
  fix IH 1. intros t. destruct t as [p|n|e|attrs o|n|n|n]; cbn [qual_ty]; try reflexivity.
  - rewrite (IH e). reflexivity.
  - f_equal.
    induction attrs as [|[k [a r]] l IHl]; [reflexivity|].
    rewrite (IH a), IHl. reflexivity.
  - unfold resolve_name. rewrite (resolve_in_ext REntity c1 e1 c2 e2 _ Hc He). reflexivity.
  - unfold resolve_name. rewrite (resolve_in_ext RCommon c1 e1 c2 e2 _ Hc He). reflexivity.
  - unfold resolve_name. rewrite (resolve_in_ext RBoth c1 e1 c2 e2 _ Hc He). reflexivity.
Qed.

Lemma existsb_perm {A} (p : A -> bool) l l' : Permutation l l' -> existsb p l = existsb p l'.
Proof.
  intros H. induction H; cbn [existsb].
  - reflexivity.
  - rewrite IHPermutation. reflexivity.
  - destruct (p x), (p y); reflexivity.
  - congruence.
Qed.

Lemma existsb_ext9 {A} (p q : A -> bool) l : (forall x, p x = q x) -> existsb p l = existsb q l.
Proof. intros H. induction l as [|x l IH]; cbn [existsb]; [reflexivity|]. rewrite (H x), IH. reflexivity. Qed.

Lemma mem_name_perm n l l' : Permutation l l' -> mem_name n l = mem_name n l'.
Proof. apply existsb_perm. Qed.

Lemma entity_defs_perm f f' : Permutation f f' -> Permutation (entity_defs f) (entity_defs f').
Proof. apply Permutation_flat_map. Qed.
Lemma common_defs_perm f f' : Permutation f f' -> Permutation (common_defs f) (common_defs f').
Proof. apply Permutation_flat_map. Qed.
Lemma action_defs_perm f f' : Permutation f f' -> Permutation (action_defs f) (action_defs f').
Proof. apply Permutation_flat_map. Qed.
Lemma action_types_perm f f' : Permutation f f' -> Permutation (action_types f) (action_types f').
Proof. apply Permutation_flat_map. Qed.

Lemma mem_name_app n a b : mem_name n (a ++ b) = mem_name n a || mem_name n b.
Proof. apply existsb_app. Qed.

(* the alias definitions depend only on which names are defined *)
Lemma alias_commons_ext e1 c1 e2 c2 :
  (forall n, mem_name n e1 = mem_name n e2) ->
  (forall n, mem_name n c1 = mem_name n c2) ->
  alias_commons e1 c1 = alias_commons e2 c2.
Proof.
  intros He Hc. unfold alias_commons.
  induction (map fst prim_names ++ ext_names) as [|t l IH]; cbn [flat_map]; [reflexivity|].
  rewrite (He [t]), (Hc [t]), IH. reflexivity.
Qed.

(* Declaration order (of namespaces) does not matter for what a reference resolves to:
   the definition sets of a permuted fragment are the same sets, hence every type reference and every
   alias is resolved identically. *)
Lemma resolution_order_independent :
  forall (f f' : fragment), Permutation f f' ->
    (forall n, mem_name n (entity_defs f ++ action_types f) = mem_name n (entity_defs f' ++ action_types f')) /\
    (forall n, mem_name n (common_defs f) = mem_name n (common_defs f')) /\
    alias_commons (entity_defs f) (common_defs f) = alias_commons (entity_defs f') (common_defs f') /\
    (forall extra ns t,
        qual_ty (common_defs f ++ extra) (entity_defs f ++ action_types f) ns t =
        qual_ty (common_defs f' ++ extra) (entity_defs f' ++ action_types f') ns t) /\
    rfc70_type_violation (entity_defs f ++ common_defs f) = rfc70_type_violation (entity_defs f' ++ common_defs f') /\
    rfc70_action_violation (action_defs f) = rfc70_action_violation (action_defs f').
Proof.
  intros f f' HP.
  assert (He : forall n, mem_name n (entity_defs f ++ action_types f) = mem_name n (entity_defs f' ++ action_types f')).
  { intros n. apply mem_name_perm. apply Permutation_app; [apply entity_defs_perm | apply action_types_perm]; exact HP. }
  assert (Hc : forall n, mem_name n (common_defs f) = mem_name n (common_defs f')).
  { intros n. apply mem_name_perm, common_defs_perm, HP. }
  assert (He0 : forall n, mem_name n (entity_defs f) = mem_name n (entity_defs f')).
  { intros n. apply mem_name_perm, entity_defs_perm, HP. }
  split; [exact He|]. split; [exact Hc|]. split; [apply alias_commons_ext; assumption|].
  split.
  { intros extra ns t. apply qual_ty_ext; [|exact He].
    intros n. rewrite !mem_name_app, (Hc n). reflexivity. }
  assert (HPn : Permutation (entity_defs f ++ common_defs f) (entity_defs f' ++ common_defs f')).
  { apply Permutation_app; [apply entity_defs_perm | apply common_defs_perm]; exact HP. }
  split.
  - unfold rfc70_type_violation.
    rewrite (existsb_perm _ _ _ HPn).
    apply existsb_ext9. intros u. rewrite (existsb_perm _ _ _ HPn). reflexivity.
  - unfold rfc70_action_violation.
    pose proof (action_defs_perm _ _ HP) as HPa.
    rewrite (existsb_perm _ _ _ HPa).
    apply existsb_ext9. intros u. rewrite (existsb_perm _ _ _ HPa). reflexivity.
Qed.

(* ------------------------------------------------------------------------------------------
   The reference form does not matter when no candidate name collides.
   A must-be-entity reference (JSON {"type":"Entity"}) and a must-be-common reference (JSON {"type": name})
   are both written as a bare name in the Cedar syntax and read back as entity-or-common. *)
Lemma resolve_in_entity_as_both cdefs edefs ps :
  (forall p, In p ps -> mem_name p cdefs = false) ->
  resolve_in RBoth cdefs edefs ps = resolve_in REntity cdefs edefs ps.
Proof.
  induction ps as [|p ps IH]; intros H; cbn [resolve_in]; [reflexivity|].
  rewrite (H p (or_introl eq_refl)). cbn [orb].
  rewrite IH; [reflexivity|]. intros q Hq. apply H. right. exact Hq.
Qed.

Lemma resolve_in_common_as_both cdefs edefs ps :
  (forall p, In p ps -> mem_name p edefs = false) ->
  resolve_in RBoth cdefs edefs ps = resolve_in RCommon cdefs edefs ps.
Proof.
  induction ps as [|p ps IH]; intros H; cbn [resolve_in]; [reflexivity|].
  rewrite (H p (or_introl eq_refl)). rewrite Bool.orb_false_r.
  rewrite IH; [reflexivity|]. intros q Hq. apply H. right. exact Hq.
Qed.

Lemma reference_form_insensitive :
  forall cdefs edefs ns n,
    ((forall p, In p (possibilities ns n) -> mem_name p cdefs = false) ->
     resolve_name RBoth cdefs edefs ns n = resolve_name REntity cdefs edefs ns n) /\
    ((forall p, In p (possibilities ns n) -> mem_name p edefs = false) ->
     resolve_name RBoth cdefs edefs ns n = resolve_name RCommon cdefs edefs ns n).
Proof.
  intros. unfold resolve_name. split; intros H.
  - apply resolve_in_entity_as_both, H.
  - apply resolve_in_common_as_both, H.
Qed.

(* equal resolved schemas => equal verdicts of anything computed from the schema *)
Lemma validation_same :
  forall (f f' : fragment) (s s' : schema) (A : Type) (verdict : schema -> A),
    resolve f = SOk s -> resolve f' = SOk s' -> s = s' -> verdict s = verdict s'.
Proof. intros. subst. reflexivity. Qed.

(* ------------------------------------------------------------------------------------------
   The full round-trip statement is FALSE of the faithful model: fmt.rs's collision test skips the empty
   namespace, so a must-be-entity reference to `Foo` is printed as the bare name `Foo`, which the Cedar parser
   reads as entity-or-common and resolves to the common type `Foo`. *)
Definition collision_witness : fragment :=
  [mkNs [] [(s2str "Foo", XPrim PLong)]
        [(s2str "Foo", EStd [] (XRecord [] false) None);
         (s2str "Bar", EStd [] (XRecord [(s2str "a", (XEntity [s2str "Foo"], true))] false) None)]
        []].

Lemma cedar_roundtrip_refuted :
  exists f f' s s',
    cedar_roundtrip f = Some f' /\ resolve f = SOk s /\ resolve f' = SOk s' /\ s <> s'.
Proof.
  exists collision_witness. eexists. eexists. eexists.
  split; [vm_compute; reflexivity|].
  split; [vm_compute; reflexivity|].
  split; [vm_compute; reflexivity|].
  intro H. discriminate H.
Qed.

(* the same fragment with the collision in a NON-empty namespace is refused by the printer *)
Lemma collision_in_namespace_refused :
  cedar_roundtrip (map (fun ns => mkNs [s2str "NS"] (ns_commons ns) (ns_entities ns) (ns_actions ns)) collision_witness) = None.
Proof. vm_compute. reflexivity. Qed.

(* ------------------------------------------------------------------------------------------
   Lifting to types.  `to_eoc` forgets the reference form (what a trip through the Cedar syntax does to the
   references; primitives are kept here).  `refs_free` says that no candidate name of a must-be-entity
   reference is a common type and no candidate of a must-be-common reference is an entity type. *)
Fixpoint to_eoc (t : tyx) : tyx :=
  match t with
  | XPrim _ | XExt _ | XEoc _ => t
  | XSet e => XSet (to_eoc e)
  | XRecord attrs o =>
      XRecord ((fix go (l : list (str * (tyx * bool))) : list (str * (tyx * bool)) :=
                  match l with [] => [] | (k, (a, r)) :: l' => (k, (to_eoc a, r)) :: go l' end) attrs) o
  | XEntity n => XEoc n
  | XCommon n => XEoc n
  end.

Fixpoint refs_free (cdefs edefs : list name) (ns : name) (t : tyx) : bool :=
  match t with
  | XPrim _ | XExt _ | XEoc _ => true
  | XSet e => refs_free cdefs edefs ns e
  | XRecord attrs _ =>
      (fix go (l : list (str * (tyx * bool))) : bool :=
         match l with [] => true | (_, (a, _)) :: l' => refs_free cdefs edefs ns a && go l' end) attrs
  | XEntity n => forallb (fun p => negb (mem_name p cdefs)) (possibilities ns n)
  | XCommon n => forallb (fun p => negb (mem_name p edefs)) (possibilities ns n)
  end.

Lemma forallb_negb_false {A} (f : A -> bool) l :
  forallb (fun p => negb (f p)) l = true -> forall p, In p l -> f p = false.
Proof.
  intros H p Hp. rewrite forallb_forall in H. specialize (H p Hp).
  destruct (f p); [discriminate H | reflexivity].
Qed.

Lemma qual_ty_to_eoc cdefs edefs ns :
  forall t, refs_free cdefs edefs ns t = true ->
            qual_ty cdefs edefs ns (to_eoc t) = option_map to_eoc (qual_ty cdefs edefs ns t).
Proof.
  fix IH 1. intros t. destruct t as [p|n|e|attrs o|n|n|n]; cbn [to_eoc refs_free qual_ty]; intros H.
  - reflexivity.
  - reflexivity.
  - rewrite (IH e H). destruct (qual_ty cdefs edefs ns e); reflexivity.
  - match goal with |- option_map _ ?X = option_map _ (option_map _ ?Y) =>
      assert (HX : X = option_map (fix go (l : list (str * (tyx * bool))) : list (str * (tyx * bool)) :=
                                     match l with [] => [] | (k, (a, r)) :: l' => (k, (to_eoc a, r)) :: go l' end) Y)
    end.
    { induction attrs as [|[k [a r]] l IHl]; [reflexivity|].
      simpl in H |- *.
      apply Bool.andb_true_iff in H. destruct H as [Ha Hl].
      rewrite (IH a Ha), (IHl Hl).
      destruct (qual_ty cdefs edefs ns a); [|reflexivity]. simpl.
      lazymatch goal with |- context [option_map _ (?G l)] => destruct (G l) end; reflexivity. }
    rewrite HX.
    lazymatch goal with |- context [option_map _ (option_map _ (?G attrs))] => destruct (G attrs) end; reflexivity.
  - destruct (reference_form_insensitive cdefs edefs ns n) as [He _].
    rewrite (He (forallb_negb_false _ _ H)).
    destruct (resolve_name REntity cdefs edefs ns n); reflexivity.
  - destruct (reference_form_insensitive cdefs edefs ns n) as [_ Hc].
    rewrite (Hc (forallb_negb_false _ _ H)).
    destruct (resolve_name RCommon cdefs edefs ns n); reflexivity.
  - destruct (resolve_name RBoth cdefs edefs ns n); reflexivity.
Qed.
