(* SchemaSynProofs.v — lemmas about schema fragments and their resolution (C09). *)
From Coq Require Import String Permutation Lia.
From Cedar Require Import SchemaSyn.

(* ------------------------------------------------------------------------------------------
   Name resolution depends on the sets of definitions only *)
Lemma resolve_in_ext k c1 e1 c2 e2 ps :
  (forall n, mem_name n c1 = mem_name n c2) ->
  (forall n, mem_name n e1 = mem_name n e2) ->
  resolve_in k c1 e1 ps = resolve_in k c2 e2 ps.
Proof.
  intros Hc He. induction ps as [|p ps IH]; cbn [resolve_in]; [reflexivity|].
  rewrite (Hc p), (He p), IH. reflexivity.
Qed.

Lemma qual_ty_ext c1 e1 c2 e2 ns :
  (forall n, mem_name n c1 = mem_name n c2) ->
  (forall n, mem_name n e1 = mem_name n e2) ->
  forall t, qual_ty c1 e1 ns t = qual_ty c2 e2 ns t.
Proof.
  intros Hc He.
  fix IH 1. intros t. destruct t as [p|n|e|attrs o|n|n|n]; cbn [qual_ty]; try reflexivity.
  - rewrite (IH e). reflexivity.
  - f_equal.
    induction attrs as [|[k [a r]] l IHl]; [reflexivity|].
    rewrite (IH a), IHl. reflexivity.
  - unfold resolve_name. rewrite (resolve_in_ext REntity c1 e1 c2 e2 _ Hc He). reflexivity.
  - unfold resolve_name. rewrite (resolve_in_ext RCommon c1 e1 c2 e2 _ Hc He). reflexivity.
  - unfold resolve_name. rewrite (resolve_in_ext RBoth c1 e1 c2 e2 _ Hc He). reflexivity.
Qed.

Lemma existsb_perm {A} (p : A -> bool) l l' : Permutation l l' -> existsb p l = existsb p l'.
Proof.
  intros H. induction H; cbn [existsb].
  - reflexivity.
  - rewrite IHPermutation. reflexivity.
  - destruct (p x), (p y); reflexivity.
  - congruence.
Qed.

Lemma existsb_ext9 {A} (p q : A -> bool) l : (forall x, p x = q x) -> existsb p l = existsb q l.
Proof. intros H. induction l as [|x l IH]; cbn [existsb]; [reflexivity|]. rewrite (H x), IH. reflexivity. Qed.

Lemma mem_name_perm n l l' : Permutation l l' -> mem_name n l = mem_name n l'.
Proof. apply existsb_perm. Qed.

Lemma entity_defs_perm f f' : Permutation f f' -> Permutation (entity_defs f) (entity_defs f').
Proof. apply Permutation_flat_map. Qed.
Lemma common_defs_perm f f' : Permutation f f' -> Permutation (common_defs f) (common_defs f').
Proof. apply Permutation_flat_map. Qed.
Lemma action_defs_perm f f' : Permutation f f' -> Permutation (action_defs f) (action_defs f').
Proof. apply Permutation_flat_map. Qed.
Lemma action_types_perm f f' : Permutation f f' -> Permutation (action_types f) (action_types f').
Proof. apply Permutation_flat_map. Qed.

Lemma mem_name_app n a b : mem_name n (a ++ b) = mem_name n a || mem_name n b.
Proof. apply existsb_app. Qed.

(* the alias definitions depend only on which names are defined *)
Lemma alias_commons_ext e1 c1 e2 c2 :
  (forall n, mem_name n e1 = mem_name n e2) ->
  (forall n, mem_name n c1 = mem_name n c2) ->
  alias_commons e1 c1 = alias_commons e2 c2.
Proof.
  intros He Hc. unfold alias_commons.
  induction (map fst prim_names ++ ext_names) as [|t l IH]; cbn [flat_map]; [reflexivity|].
  rewrite (He [t]), (Hc [t]), IH. reflexivity.
Qed.

(* Declaration order (of namespaces) does not matter for what a reference resolves to:
   the definition sets of a permuted fragment are the same sets, hence every type reference and every
   alias is resolved identically. *)
Lemma resolution_order_independent :
  forall (f f' : fragment), Permutation f f' ->
    (forall n, mem_name n (entity_defs f ++ action_types f) = mem_name n (entity_defs f' ++ action_types f')) /\
    (forall n, mem_name n (common_defs f) = mem_name n (common_defs f')) /\
    alias_commons (entity_defs f) (common_defs f) = alias_commons (entity_defs f') (common_defs f') /\
    (forall extra ns t,
        qual_ty (common_defs f ++ extra) (entity_defs f ++ action_types f) ns t =
        qual_ty (common_defs f' ++ extra) (entity_defs f' ++ action_types f') ns t) /\
    rfc70_type_violation (entity_defs f ++ common_defs f) = rfc70_type_violation (entity_defs f' ++ common_defs f') /\
    rfc70_action_violation (action_defs f) = rfc70_action_violation (action_defs f').
Proof.
  intros f f' HP.
  assert (He : forall n, mem_name n (entity_defs f ++ action_types f) = mem_name n (entity_defs f' ++ action_types f')).
  { intros n. apply mem_name_perm. apply Permutation_app; [apply entity_defs_perm | apply action_types_perm]; exact HP. }
  assert (Hc : forall n, mem_name n (common_defs f) = mem_name n (common_defs f')).
  { intros n. apply mem_name_perm, common_defs_perm, HP. }
  assert (He0 : forall n, mem_name n (entity_defs f) = mem_name n (entity_defs f')).
  { intros n. apply mem_name_perm, entity_defs_perm, HP. }
  split; [exact He|]. split; [exact Hc|]. split; [apply alias_commons_ext; assumption|].
  split.
  { intros extra ns t. apply qual_ty_ext; [|exact He].
    intros n. rewrite !mem_name_app, (Hc n). reflexivity. }
  assert (HPn : Permutation (entity_defs f ++ common_defs f) (entity_defs f' ++ common_defs f')).
  { apply Permutation_app; [apply entity_defs_perm | apply common_defs_perm]; exact HP. }
  split.
  - unfold rfc70_type_violation.
    rewrite (existsb_perm _ _ _ HPn).
    apply existsb_ext9. intros u. rewrite (existsb_perm _ _ _ HPn). reflexivity.
  - unfold rfc70_action_violation.
    pose proof (action_defs_perm _ _ HP) as HPa.
    rewrite (existsb_perm _ _ _ HPa).
    apply existsb_ext9. intros u. rewrite (existsb_perm _ _ _ HPa). reflexivity.
Qed.

(* ------------------------------------------------------------------------------------------
   The reference form does not matter when no candidate name collides.
   A must-be-entity reference (JSON {"type":"Entity"}) and a must-be-common reference (JSON {"type": name})
   are both written as a bare name in the Cedar syntax and read back as entity-or-common. *)
Lemma resolve_in_entity_as_both cdefs edefs ps :
  (forall p, In p ps -> mem_name p cdefs = false) ->
  resolve_in RBoth cdefs edefs ps = resolve_in REntity cdefs edefs ps.
Proof.
  induction ps as [|p ps IH]; intros H; cbn [resolve_in]; [reflexivity|].
  rewrite (H p (or_introl eq_refl)). cbn [orb].
  rewrite IH; [reflexivity|]. intros q Hq. apply H. right. exact Hq.
Qed.

Lemma resolve_in_common_as_both cdefs edefs ps :
  (forall p, In p ps -> mem_name p edefs = false) ->
  resolve_in RBoth cdefs edefs ps = resolve_in RCommon cdefs edefs ps.
Proof.
  induction ps as [|p ps IH]; intros H; cbn [resolve_in]; [reflexivity|].
  rewrite (H p (or_introl eq_refl)). rewrite Bool.orb_false_r.
  rewrite IH; [reflexivity|]. intros q Hq. apply H. right. exact Hq.
Qed.

Lemma reference_form_insensitive :
  forall cdefs edefs ns n,
    ((forall p, In p (possibilities ns n) -> mem_name p cdefs = false) ->
     resolve_name RBoth cdefs edefs ns n = resolve_name REntity cdefs edefs ns n) /\
    ((forall p, In p (possibilities ns n) -> mem_name p edefs = false) ->
     resolve_name RBoth cdefs edefs ns n = resolve_name RCommon cdefs edefs ns n).
Proof.
  intros. unfold resolve_name. split; intros H.
  - apply resolve_in_entity_as_both, H.
  - apply resolve_in_common_as_both, H.
Qed.

(* equal resolved schemas => equal verdicts of anything computed from the schema *)
Lemma validation_same :
  forall (f f' : fragment) (s s' : schema) (A : Type) (verdict : schema -> A),
    resolve f = SOk s -> resolve f' = SOk s' -> s = s' -> verdict s = verdict s'.
Proof. intros. subst. reflexivity. Qed.

(* ------------------------------------------------------------------------------------------
   The full round-trip statement is FALSE of the faithful model: fmt.rs's collision test skips the empty
   namespace, so a must-be-entity reference to `Foo` is printed as the bare name `Foo`, which the Cedar parser
   reads as entity-or-common and resolves to the common type `Foo`. *)
Definition collision_witness : fragment :=
  [mkNs [] [(s2str "Foo", XPrim PLong)]
        [(s2str "Foo", EStd [] (XRecord [] false) None);
         (s2str "Bar", EStd [] (XRecord [(s2str "a", (XEntity [s2str "Foo"], true))] false) None)]
        []].

Lemma cedar_roundtrip_refuted :
  exists f f' s s',
    cedar_roundtrip f = Some f' /\ resolve f = SOk s /\ resolve f' = SOk s' /\ s <> s'.
Proof.
  exists collision_witness. eexists. eexists. eexists.
  split; [vm_compute; reflexivity|].
  split; [vm_compute; reflexivity|].
  split; [vm_compute; reflexivity|].
  intro H. discriminate H.
Qed.

(* the same fragment with the collision in a NON-empty namespace is refused by the printer *)
Lemma collision_in_namespace_refused :
  cedar_roundtrip (map (fun ns => mkNs [s2str "NS"] (ns_commons ns) (ns_entities ns) (ns_actions ns)) collision_witness) = None.
Proof. vm_compute. reflexivity. Qed.

(* ------------------------------------------------------------------------------------------
   Lifting to types.  `to_eoc` forgets the reference form (what a trip through the Cedar syntax does to the
   references; primitives are kept here).  `refs_free` says that no candidate name of a must-be-entity
   reference is a common type and no candidate of a must-be-common reference is an entity type. *)
Fixpoint to_eoc (t : tyx) : tyx :=
  match t with
  | XPrim _ | XExt _ | XEoc _ => t
  | XSet e => XSet (to_eoc e)
  | XRecord attrs o =>
      XRecord ((fix go (l : list (str * (tyx * bool))) : list (str * (tyx * bool)) :=
                  match l with [] => [] | (k, (a, r)) :: l' => (k, (to_eoc a, r)) :: go l' end) attrs) o
  | XEntity n => XEoc n
  | XCommon n => XEoc n
  end.

Fixpoint refs_free (cdefs edefs : list name) (ns : name) (t : tyx) : bool :=
  match t with
  | XPrim _ | XExt _ | XEoc _ => true
  | XSet e => refs_free cdefs edefs ns e
  | XRecord attrs _ =>
      (fix go (l : list (str * (tyx * bool))) : bool :=
         match l with [] => true | (_, (a, _)) :: l' => refs_free cdefs edefs ns a && go l' end) attrs
  | XEntity n => forallb (fun p => negb (mem_name p cdefs)) (possibilities ns n)
  | XCommon n => forallb (fun p => negb (mem_name p edefs)) (possibilities ns n)
  end.

Lemma forallb_negb_false {A} (f : A -> bool) l :
  forallb (fun p => negb (f p)) l = true -> forall p, In p l -> f p = false.
Proof.
  intros H p Hp. rewrite forallb_forall in H. specialize (H p Hp).
  destruct (f p); [discriminate H | reflexivity].
Qed.

Lemma qual_ty_to_eoc cdefs edefs ns :
  forall t, refs_free cdefs edefs ns t = true ->
            qual_ty cdefs edefs ns (to_eoc t) = option_map to_eoc (qual_ty cdefs edefs ns t).
Proof.
  fix IH 1. intros t. destruct t as [p|n|e|attrs o|n|n|n]; cbn [to_eoc refs_free qual_ty]; intros H.
  - reflexivity.
  - reflexivity.
  - rewrite (IH e H). destruct (qual_ty cdefs edefs ns e); reflexivity.
  - match goal with |- option_map _ ?X = option_map _ (option_map _ ?Y) =>
      assert (HX : X = option_map (fix go (l : list (str * (tyx * bool))) : list (str * (tyx * bool)) :=
                                     match l with [] => [] | (k, (a, r)) :: l' => (k, (to_eoc a, r)) :: go l' end) Y)
    end.
    { induction attrs as [|[k [a r]] l IHl]; [reflexivity|].
      simpl in H |- *.
      apply Bool.andb_true_iff in H. destruct H as [Ha Hl].
      rewrite (IH a Ha), (IHl Hl).
      destruct (qual_ty cdefs edefs ns a); [|reflexivity]. simpl.
      lazymatch goal with |- context [option_map _ (?G l)] => destruct (G l) end; reflexivity. }
    rewrite HX.
    lazymatch goal with |- context [option_map _ (option_map _ (?G attrs))] => destruct (G attrs) end; reflexivity.
  - destruct (reference_form_insensitive cdefs edefs ns n) as [He _].
    rewrite (He (forallb_negb_false _ _ H)).
    destruct (resolve_name REntity cdefs edefs ns n); reflexivity.
  - destruct (reference_form_insensitive cdefs edefs ns n) as [_ Hc].
    rewrite (Hc (forallb_negb_false _ _ H)).
    destruct (resolve_name RCommon cdefs edefs ns n); reflexivity.
  - destruct (resolve_name RBoth cdefs edefs ns n); reflexivity.
Qed.

(* ==========================================================================================
   The positive direction, at the level of TYPES: a type written in the Cedar syntax (`cedar_form`) is
   qualified and converted to the same validator type as the original, under the exact side conditions. *)

(* ---- equations of `conv` (the nested fixpoint never has to be unfolded below) *)
Fixpoint conv_attrs (fuel : nat) (cd : list (name * tyx)) (l : list (str * (tyx * bool))) : sres attrs_ty :=
  match l with
  | [] => SOk []
  | (k, (a, r)) :: l' => sdo x <- conv fuel cd a; sdo rest <- conv_attrs fuel cd l'; SOk ((k, (x, r)) :: rest)
  end.

Lemma conv_prim fuel cd p :
  conv fuel cd (XPrim p) = SOk (match p with PLong => TLong | PString => TString | PBool => TBool BAny end).
Proof. destruct fuel, p; reflexivity. Qed.
Lemma conv_ext fuel cd n :
  conv fuel cd (XExt n) = if mem_str n ext_names then SOk (TExt [n]) else SErr SUnknownExtensionType.
Proof. destruct fuel; reflexivity. Qed.
Lemma conv_set fuel cd e : conv fuel cd (XSet e) = sdo x <- conv fuel cd e; SOk (ty_set x).
Proof. destruct fuel; reflexivity. Qed.
Lemma conv_entity fuel cd n :
  conv fuel cd (XEntity n) = if is_reserved n then SErr SReservedName else SOk (ty_entity n).
Proof. destruct fuel; reflexivity. Qed.
Lemma conv_common fuel cd n :
  conv fuel cd (XCommon n) =
  match assoc_name n cd with
  | Some b => match fuel with O => SErr SOutOfFuel | S f => conv f cd b end
  | None => SErr SInvariant
  end.
Proof. destruct fuel; reflexivity. Qed.
Lemma conv_eoc fuel cd n :
  conv fuel cd (XEoc n) =
  match assoc_name n cd with
  | Some b => match fuel with O => SErr SOutOfFuel | S f => conv f cd b end
  | None => if is_reserved n then SErr SReservedName else SOk (ty_entity n)
  end.
Proof. destruct fuel; reflexivity. Qed.
Lemma conv_record fuel cd attrs o :
  conv fuel cd (XRecord attrs o) = sdo a <- conv_attrs fuel cd attrs; SOk (TRecord (sort_assoc a) o).
Proof.
  assert (E : conv fuel cd (XRecord attrs o) =
              sdo a <- (fix goa (l : list (str * (tyx * bool))) : sres attrs_ty :=
                          match l with
                          | [] => SOk []
                          | (k, (a, r)) :: l' => sdo x <- conv fuel cd a; sdo rest <- goa l'; SOk ((k, (x, r)) :: rest)
                          end) attrs;
              SOk (TRecord (sort_assoc a) o)).
  { destruct fuel; reflexivity. }
  rewrite E.
  match goal with |- sbind (?G attrs) _ = _ =>
    assert (HG : G attrs = conv_attrs fuel cd attrs);
      [ clear E; induction attrs as [|[k [a r]] l IH]; [reflexivity | cbn [conv_attrs]; rewrite <- IH; reflexivity] | ]
  end.
  rewrite HG. reflexivity.
Qed.

(* ---- side conditions *)
(* no must-be-entity reference (already qualified) names a common type, and every record is closed (the Cedar
   syntax has no `additionalAttributes`) *)
Fixpoint ent_ok (cd : list (name * tyx)) (t : tyx) : bool :=
  match t with
  | XEntity n => match assoc_name n cd with None => true | Some _ => false end
  | XSet e => ent_ok cd e
  | XRecord attrs o =>
      negb o &&
      (fix go (l : list (str * (tyx * bool))) : bool :=
         match l with [] => true | (_, (a, _)) :: l' => ent_ok cd a && go l' end) attrs
  | _ => true
  end.

(* the common-type definitions of the translated fragment, relative to those of the original: every body is kept
   or rewritten by `cedar_form`; nothing is added; the `__cedar` definitions are there *)
Record cd_rel (cd cd' : list (name * tyx)) : Prop := mkCdRel {
  rel_some : forall n b, assoc_name n cd = Some b ->
                         exists b', assoc_name n cd' = Some b' /\ (b' = b \/ b' = cedar_form b);
  rel_none : forall n, assoc_name n cd = None -> assoc_name n cd' = None;
  rel_prim : forall p, assoc_name [cedar_id; prim_name p] cd' = Some (XPrim p);
  rel_ext : forall n, mem_str n ext_names = true -> assoc_name [cedar_id; n] cd' = Some (XExt n);
  rel_ent : forall n b, assoc_name n cd = Some b -> ent_ok cd b = true
}.

Definition conv_preserved (cd cd' : list (name * tyx)) (fuel : nat) : Prop :=
  forall q r, ent_ok cd q = true -> conv fuel cd q = SOk r ->
              conv (S fuel) cd' q = SOk r /\ conv (S fuel) cd' (cedar_form q) = SOk r.

Lemma conv_attrs_preserved cd cd' fuel attrs :
  forall ra,
    (fix go (l : list (str * (tyx * bool))) : bool :=
       match l with [] => true | (_, (a, _)) :: l' => ent_ok cd a && go l' end) attrs = true ->
    conv_attrs fuel cd attrs = SOk ra ->
    (forall k a r, In (k, (a, r)) attrs -> forall x, ent_ok cd a = true -> conv fuel cd a = SOk x ->
                   conv (S fuel) cd' a = SOk x /\ conv (S fuel) cd' (cedar_form a) = SOk x) ->
    conv_attrs (S fuel) cd' attrs = SOk ra /\
    conv_attrs (S fuel) cd'
      ((fix go (l : list (str * (tyx * bool))) : list (str * (tyx * bool)) :=
          match l with [] => [] | (k, (a, r)) :: l' => (k, (cedar_form a, r)) :: go l' end) attrs) = SOk ra.
Proof.
  induction attrs as [|[k [a r]] l IH]; intros ra Hok Hc Hel.
  - cbn [conv_attrs] in *. split; exact Hc.
  - simpl in Hok. apply Bool.andb_true_iff in Hok. destruct Hok as [Ha Hl].
    cbn [conv_attrs] in Hc.
    destruct (conv fuel cd a) as [x|e] eqn:Ea; [|discriminate Hc]. cbn [sbind] in Hc.
    destruct (conv_attrs fuel cd l) as [rest|e] eqn:El; [|discriminate Hc]. cbn [sbind] in Hc.
    destruct (Hel k a r (or_introl eq_refl) x Ha Ea) as [H1 H2].
    destruct (IH rest Hl eq_refl (fun k' a' r' Hin => Hel k' a' r' (or_intror Hin))) as [H3 H4].
    split.
    + cbn [conv_attrs]. rewrite H1. cbn [sbind]. rewrite H3. exact Hc.
    + cbn [conv_attrs]. rewrite H2. cbn [sbind]. rewrite H4. exact Hc.
Qed.

Lemma sbind_ok {A B} (r : sres A) (f : A -> sres B) (b : B) :
  sbind r f = SOk b -> exists a, r = SOk a /\ f a = SOk b.
Proof. destruct r as [a|e]; cbn [sbind]; intros H; [exists a; split; [reflexivity|exact H] | discriminate H]. Qed.

(* one step: if conversion is preserved for every smaller fuel, it is preserved for this fuel *)
Lemma conv_preserved_step cd cd' :
  cd_rel cd cd' ->
  forall fuel, (forall f, fuel = S f -> conv_preserved cd cd' f) -> conv_preserved cd cd' fuel.
Proof.
  intros R fuel IHf. unfold conv_preserved.
  assert (JUMP : forall n b r, assoc_name n cd = Some b ->
                   match fuel with O => SErr SOutOfFuel | S f => conv f cd b end = SOk r ->
                   exists b', assoc_name n cd' = Some b' /\ conv fuel cd' b' = SOk r).
  { intros n b r Hn Hc. destruct fuel as [|f]; [discriminate Hc|].
    destruct (rel_some _ _ R n b Hn) as [b' [Hb' Hor]]. exists b'. split; [exact Hb'|].
    destruct (IHf f eq_refl b r (rel_ent _ _ R n b Hn) Hc) as [H1 H2].
    destruct Hor as [E|E]; subst b'; assumption. }
  fix IHq 1. intros q r Hok Hc. destruct q as [p|n|e|attrs o|n|n|n]; cbn [cedar_form].
  - (* XPrim *)
    rewrite conv_prim in Hc. split; [rewrite conv_prim; exact Hc|].
    rewrite conv_eoc, (rel_prim _ _ R p), conv_prim. exact Hc.
  - (* XExt *)
    rewrite conv_ext in Hc. split; [rewrite conv_ext; exact Hc|].
    destruct (mem_str n ext_names) eqn:E; [|discriminate Hc].
    rewrite conv_eoc, (rel_ext _ _ R n E), conv_ext, E. exact Hc.
  - (* XSet *)
    rewrite conv_set in Hc. destruct (sbind_ok _ _ _ Hc) as [x [Hx Hr]].
    cbn [ent_ok] in Hok. destruct (IHq e x Hok Hx) as [H1 H2].
    split; rewrite conv_set; [rewrite H1 | rewrite H2]; exact Hr.
  - (* XRecord *)
    rewrite conv_record in Hc. destruct (sbind_ok _ _ _ Hc) as [ra [Hra Hr]].
    cbn [ent_ok] in Hok. apply Bool.andb_true_iff in Hok. destruct Hok as [Ho Hok].
    apply Bool.negb_true_iff in Ho. subst o.
    assert (HA : conv_attrs (S fuel) cd' attrs = SOk ra /\
                 conv_attrs (S fuel) cd'
                   ((fix go (l : list (str * (tyx * bool))) : list (str * (tyx * bool)) :=
                       match l with [] => [] | (k, (a, r)) :: l' => (k, (cedar_form a, r)) :: go l' end) attrs) = SOk ra).
    { clear Hc Hr. revert ra Hok Hra.
      induction attrs as [|[k [a r0]] l IHl]; intros ra Hok Hra.
      - cbn [conv_attrs] in *. split; exact Hra.
      - simpl in Hok. apply Bool.andb_true_iff in Hok. destruct Hok as [Ha Hl].
        cbn [conv_attrs] in Hra.
        destruct (sbind_ok _ _ _ Hra) as [x [Hx Hra']].
        destruct (sbind_ok _ _ _ Hra') as [rest [Hrest Hra'']].
        destruct (IHq a x Ha Hx) as [H1 H2].
        destruct (IHl rest Hl Hrest) as [H3 H4].
        split; cbn [conv_attrs]; [rewrite H1 | rewrite H2]; cbn [sbind]; [rewrite H3 | rewrite H4]; exact Hra''. }
    destruct HA as [H1 H2].
    split; rewrite conv_record; [rewrite H1 | rewrite H2]; exact Hr.
  - (* XEntity: after the trip it is an entity-or-common reference; it names no common type *)
    rewrite conv_entity in Hc. split; [rewrite conv_entity; exact Hc|].
    cbn [ent_ok] in Hok. destruct (assoc_name n cd) eqn:E; [discriminate Hok|].
    rewrite conv_eoc, (rel_none _ _ R n E). exact Hc.
  - (* XCommon *)
    rewrite conv_common in Hc. destruct (assoc_name n cd) as [b|] eqn:E; [|discriminate Hc].
    destruct (JUMP n b r E Hc) as [b' [Hb' Hcb']].
    split; [rewrite conv_common | rewrite conv_eoc]; rewrite Hb'; exact Hcb'.
  - (* XEoc *)
    rewrite conv_eoc in Hc. destruct (assoc_name n cd) as [b|] eqn:E.
    + destruct (JUMP n b r E Hc) as [b' [Hb' Hcb']].
      split; rewrite conv_eoc, Hb'; exact Hcb'.
    + split; rewrite conv_eoc, (rel_none _ _ R n E); exact Hc.
Qed.

Lemma conv_preserved_all cd cd' : cd_rel cd cd' -> forall fuel, conv_preserved cd cd' fuel.
Proof.
  intros R. induction fuel as [|f IH].
  - apply (conv_preserved_step cd cd' R). intros f E. discriminate E.
  - apply (conv_preserved_step cd cd' R). intros f' E. injection E as E. subst f'. exact IH.
Qed.

(* ---- qualification commutes with `cedar_form` *)
Fixpoint exts_known (t : tyx) : bool :=
  match t with
  | XExt n => mem_str n ext_names
  | XSet e => exts_known e
  | XRecord attrs _ =>
      (fix go (l : list (str * (tyx * bool))) : bool :=
         match l with [] => true | (_, (a, _)) :: l' => exts_known a && go l' end) attrs
  | _ => true
  end.

Definition builtins_defined (cdefs : list name) : Prop :=
  (forall p, mem_name [cedar_id; prim_name p] cdefs = true) /\
  (forall n, mem_str n ext_names = true -> mem_name [cedar_id; n] cdefs = true).

Lemma qual_ty_cedar_form cdefs edefs ns :
  builtins_defined cdefs ->
  forall t, refs_free cdefs edefs ns t = true -> exts_known t = true ->
            qual_ty cdefs edefs ns (cedar_form t) = option_map cedar_form (qual_ty cdefs edefs ns t).
Proof.
  intros [HP HE].
  fix IH 1. intros t. destruct t as [p|n|e|attrs o|n|n|n]; cbn [cedar_form refs_free exts_known qual_ty]; intros H HX.
  - unfold resolve_name, possibilities. cbn [is_unqualified resolve_in]. rewrite (HP p). reflexivity.
  - unfold resolve_name, possibilities. cbn [is_unqualified resolve_in]. rewrite (HE n HX). reflexivity.
  - rewrite (IH e H HX). destruct (qual_ty cdefs edefs ns e); reflexivity.
  - match goal with |- option_map _ ?X = option_map _ (option_map _ ?Y) =>
      assert (HA : X = option_map (fix go (l : list (str * (tyx * bool))) : list (str * (tyx * bool)) :=
                                     match l with [] => [] | (k, (a, r)) :: l' => (k, (cedar_form a, r)) :: go l' end) Y)
    end.
    { induction attrs as [|[k [a r]] l IHl]; [reflexivity|].
      simpl in H, HX |- *.
      apply Bool.andb_true_iff in H. destruct H as [Ha Hl].
      apply Bool.andb_true_iff in HX. destruct HX as [HXa HXl].
      rewrite (IH a Ha HXa), (IHl Hl HXl).
      destruct (qual_ty cdefs edefs ns a); [|reflexivity]. simpl.
      lazymatch goal with |- context [option_map _ (?G l)] => destruct (G l) end; reflexivity. }
    rewrite HA.
    lazymatch goal with |- context [option_map _ (option_map _ (?G attrs))] => destruct (G attrs) end; reflexivity.
  - destruct (reference_form_insensitive cdefs edefs ns n) as [He _].
    rewrite (He (forallb_negb_false _ _ H)).
    destruct (resolve_name REntity cdefs edefs ns n); reflexivity.
  - destruct (reference_form_insensitive cdefs edefs ns n) as [_ Hc].
    rewrite (Hc (forallb_negb_false _ _ H)).
    destruct (resolve_name RCommon cdefs edefs ns n); reflexivity.
  - destruct (resolve_name RBoth cdefs edefs ns n); reflexivity.
Qed.

(* ---- the round trip of one type expression through the Cedar syntax *)
Lemma cedar_roundtrip_type :
  forall cdefs edefs ns cd cd' fuel t q r,
    builtins_defined cdefs -> cd_rel cd cd' ->
    refs_free cdefs edefs ns t = true -> exts_known t = true ->
    qual_ty cdefs edefs ns t = Some q -> ent_ok cd q = true -> conv fuel cd q = SOk r ->
    exists q', qual_ty cdefs edefs ns (cedar_form t) = Some q' /\ conv (S fuel) cd' q' = SOk r.
Proof.
  intros cdefs edefs ns cd cd' fuel t q r HB R Hfree Hext Hq Hok Hc.
  exists (cedar_form q). split.
  - rewrite (qual_ty_cedar_form cdefs edefs ns HB t Hfree Hext), Hq. reflexivity.
  - exact (proj2 (conv_preserved_all cd cd' R fuel q r Hok Hc)).
Qed.

(* second refutation: the implicit entity type NS::Action against a common type `Action` of the same namespace —
   not a collision between DECLARED names, so even a collision test over all namespaces misses it *)
Definition action_collision_witness : fragment :=
  [mkNs [s2str "NS"] [(s2str "Action", XPrim PLong)]
        [(s2str "U", EStd [] (XRecord [(s2str "a", (XEntity [s2str "Action"], true))] false) None)]
        [(s2str "act", mkActDecl None None)]].

Lemma cedar_roundtrip_refuted_action :
  exists f' s s',
    cedar_roundtrip action_collision_witness = Some f' /\ resolve action_collision_witness = SOk s /\
    resolve f' = SOk s' /\ s <> s'.
Proof.
  eexists. eexists. eexists.
  split; [vm_compute; reflexivity|].
  split; [vm_compute; reflexivity|].
  split; [vm_compute; reflexivity|].
  intro H. discriminate H.
Qed.

(* non-vacuity of cd_rel: the definitions of the `__cedar` namespace are related to themselves *)
Definition builtin_cd : list (name * tyx) := map (fun c => (fst c, snd (snd c))) builtin_commons.

From Cedar Require Import ValueProofs.

Lemma cd_rel_builtin : cd_rel builtin_cd builtin_cd.
Proof.
  constructor.
  - intros n b H. exists b. split; [exact H | left; reflexivity].
  - intros n H. exact H.
  - intros p. destruct p; reflexivity.
  - intros n H. unfold mem_str, ext_names in H. cbn [map existsb] in H.
    repeat (apply Bool.orb_true_iff in H; destruct H as [H|H]);
      try discriminate H; apply str_eqb_eq in H; subst n; reflexivity.
  - intros n b H. unfold builtin_cd, builtin_commons in H. cbn in H.
    repeat match type of H with
           | (if ?c then _ else _) = _ => destruct c; [inversion H; reflexivity|]
           end.
    discriminate H.
Qed.
