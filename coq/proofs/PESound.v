(* PESound.v — soundness of the partial evaluator peval (property C13).
   Small lemmas per peval arm; the main theorem is the dispatching induction. *)
From Coq Require Import Lia.
From Cedar Require Import PE ValueProofs PEProofs.

(* ---- induction principle for expressions with the nested lists ---- *)
Section ExprInd.
  Variable P : expr -> Prop.
  Hypothesis HLit : forall p, P (Lit p).
  Hypothesis HVar : forall v, P (Var v).
  Hypothesis HSlot : forall s, P (Slot s).
  Hypothesis HUnknown : forall n ty, P (Unknown n ty).
  Hypothesis HIf : forall c t f, P c -> P t -> P f -> P (If c t f).
  Hypothesis HAnd : forall a b, P a -> P b -> P (And a b).
  Hypothesis HOr : forall a b, P a -> P b -> P (Or a b).
  Hypothesis HUn : forall op a, P a -> P (UnApp op a).
  Hypothesis HBin : forall op a b, P a -> P b -> P (BinApp op a b).
  Hypothesis HExt : forall fn args, Forall P args -> P (ExtCall fn args).
  Hypothesis HGet : forall e a, P e -> P (GetAttr e a).
  Hypothesis HHas : forall e a, P e -> P (HasAttr e a).
  Hypothesis HLike : forall e p, P e -> P (Like e p).
  Hypothesis HIs : forall e t, P e -> P (Is e t).
  Hypothesis HSet : forall items, Forall P items -> P (SetE items).
  Hypothesis HRec : forall items, Forall P (map snd items) -> P (RecordE items).

  Fixpoint expr_ind' (e : expr) : P e :=
    match e with
    | Lit p => HLit p
    | Var v => HVar v
    | Slot s => HSlot s
    | Unknown n ty => HUnknown n ty
    | If c t f => HIf c t f (expr_ind' c) (expr_ind' t) (expr_ind' f)
    | And a b => HAnd a b (expr_ind' a) (expr_ind' b)
    | Or a b => HOr a b (expr_ind' a) (expr_ind' b)
    | UnApp op a => HUn op a (expr_ind' a)
    | BinApp op a b => HBin op a b (expr_ind' a) (expr_ind' b)
    | ExtCall fn args =>
        HExt fn args ((fix go (l : list expr) : Forall P l :=
                         match l with [] => Forall_nil P | x :: l' => Forall_cons x (expr_ind' x) (go l') end) args)
    | GetAttr x a => HGet x a (expr_ind' x)
    | HasAttr x a => HHas x a (expr_ind' x)
    | Like x p => HLike x p (expr_ind' x)
    | Is x t => HIs x t (expr_ind' x)
    | SetE items =>
        HSet items ((fix go (l : list expr) : Forall P l :=
                       match l with [] => Forall_nil P | x :: l' => Forall_cons x (expr_ind' x) (go l') end) items)
    | RecordE items =>
        HRec items ((fix go (l : list (str * expr)) : Forall P (map snd l) :=
                       match l with
                       | [] => Forall_nil P
                       | (k, x) :: l' => Forall_cons x (expr_ind' x) (go l')
                       end) items)
    end.
End ExprInd.

(* ---- results that agree: equal values, or both errors (the error class may differ) ---- *)
Definition agree {A} (a b : res A) : Prop :=
  match a, b with
  | Ok x, Ok y => x = y
  | Err _, Err _ => True
  | _, _ => False
  end.

Lemma agree_refl {A} (a : res A) : agree a a.
Proof. destruct a; cbn; auto. Qed.

Lemma agree_bind {A B} (a b : res A) (f : A -> res B) : agree a b -> agree (bind a f) (bind b f).
Proof. destruct a, b; cbn; intros H; try contradiction; subst; auto using agree_refl. Qed.

Lemma agree_ok_r {A} (a : res A) v : agree a (Ok v) -> a = Ok v.
Proof. destruct a; cbn; intros H; [subst; reflexivity | contradiction]. Qed.

Lemma agree_err_r {A} (a : res A) x : agree a (Err x) -> exists y, a = Err y.
Proof. destruct a; cbn; intros H; [contradiction | eauto]. Qed.

Lemma agree_trans {A} (a b c : res A) : agree a b -> agree b c -> agree a c.
Proof. destruct a, b, c; cbn; intros; try contradiction; subst; auto. Qed.

Lemma agree_sym {A} (a b : res A) : agree a b -> agree b a.
Proof. destruct a, b; cbn; intros; try contradiction; subst; auto. Qed.

Section Sound.
  Variable sg : mapper.
  Variable sl : slotenv.
  Variable q : request.
  Variable es : entities.
  Notation ev := (eval sl q es).
  Notation S := (subst sg).
  Notation wt := (wt_expr sg).

  (* ---- closed forms of the nested fixpoints ---- *)
  Lemma eval_set l : ev (SetE l) = do vs <- mapM ev l; Ok (VSet vs).
  Proof.
    cbn [eval].
    match goal with |- bind ?a _ = _ => assert (E : a = mapM ev l) end.
    { induction l as [|x l IH]; [reflexivity|]. cbn [mapM]. rewrite <- IH. reflexivity. }
    rewrite E. reflexivity.
  Qed.

  Lemma eval_ext fn l : ev (ExtCall fn l) = do vs <- mapM ev l; call_ext fn vs.
  Proof.
    cbn [eval].
    match goal with |- bind ?a _ = _ => assert (E : a = mapM ev l) end.
    { induction l as [|x l IH]; [reflexivity|]. cbn [mapM]. rewrite <- IH. reflexivity. }
    rewrite E. reflexivity.
  Qed.

  Lemma eval_record l :
    ev (RecordE l) = do vs <- mapM ev (map snd l); Ok (VRecord (combine (map fst l) vs)).
  Proof.
    cbn [eval].
    match goal with |- bind ?a _ = _ =>
      assert (E : a = do vs <- mapM ev (map snd l); Ok (combine (map fst l) vs)) end.
    { induction l as [|[k x] l IH]; [reflexivity|]. cbn [map mapM fst snd]. rewrite IH.
      destruct (ev x); cbn [bind]; [|reflexivity]. destruct (mapM ev (map snd l)); reflexivity. }
    rewrite E. destruct (mapM ev (map snd l)); reflexivity.
  Qed.

  Lemma wt_list_closed (l : list expr) :
    (fix go (l : list expr) : bool := match l with [] => true | x :: l' => wt x && go l' end) l = forallb wt l.
  Proof. induction l as [|x l IH]; [reflexivity|]. cbn [forallb]. rewrite <- IH. reflexivity. Qed.

  Lemma wt_set l : wt (SetE l) = forallb wt l.
  Proof. cbn [wt_expr]. apply wt_list_closed. Qed.
  Lemma wt_ext fn l : wt (ExtCall fn l) = forallb wt l.
  Proof. cbn [wt_expr]. apply wt_list_closed. Qed.
  Lemma wt_record l : wt (RecordE l) = forallb wt (map snd l).
  Proof.
    cbn [wt_expr]. induction l as [|[k x] l IH]; [reflexivity|]. cbn [map forallb snd]. rewrite <- IH. reflexivity.
  Qed.

  Lemma subst_record l : S (RecordE l) = RecordE (map (fun kx => (fst kx, S (snd kx))) l).
  Proof. reflexivity. Qed.

  Lemma map_fst_subst (l : list (str * expr)) : map fst (map (fun kx => (fst kx, S (snd kx))) l) = map fst l.
  Proof. rewrite map_map. reflexivity. Qed.
  Lemma map_snd_subst (l : list (str * expr)) : map snd (map (fun kx => (fst kx, S (snd kx))) l) = map S (map snd l).
  Proof. rewrite !map_map. reflexivity. Qed.

  (* ---- From<Value> for Expr: denotes the value, closed, well-typed ---- *)
  Fixpoint vsize (v : value) : nat :=
    match v with
    | VSet l => Datatypes.S ((fix go (l : list value) : nat := match l with [] => O | x :: l' => (vsize x + go l')%nat end) l)
    | VRecord l => Datatypes.S ((fix go (l : list (str * value)) : nat := match l with [] => O | (_, x) :: l' => (vsize x + go l')%nat end) l)
    | _ => 1%nat
    end.

  Definition v2e_good (v : value) (x : expr) : Prop := ev x = Ok v /\ S x = x /\ wt x = true.

  Lemma v2e_props_n : forall n v, (vsize v < n)%nat -> forall x, v2e v = Some x -> v2e_good v x.
  Proof.
    induction n as [|n IH]; [lia|]. intros v Hn x H. destruct v as [p | l | l | xx]; cbn [v2e] in H.
    - inversion H; subst. repeat split.
    - match type of H with option_map _ (?g l) = _ => remember g as go eqn:Ego end.
      destruct (go l) as [xs|] eqn:G; cbn in H; inversion H; subst x.
      assert (L : mapM ev xs = Ok l /\ map S xs = xs /\ forallb wt xs = true).
      { clear H. revert xs G. cbn [vsize] in Hn.
        induction l as [|v0 l IHl]; intros xs G.
        - rewrite Ego in G. inversion G. repeat split.
        - rewrite Ego in G. rewrite <- Ego in G.
          destruct (v2e v0) as [e0|] eqn:E0; [|discriminate].
          destruct (go l) as [xs'|] eqn:G'; [|discriminate]. inversion G; subst xs.
          destruct (IH v0 ltac:(lia) e0 E0) as [A [B C]].
          destruct (IHl ltac:(lia) xs' eq_refl) as [A' [B' C']].
          cbn [map mapM forallb]. rewrite A, B, C, A', B', C'. repeat split. }
      destruct L as [A [B C]]. unfold v2e_good. rewrite eval_set, wt_set. cbn [subst]. rewrite A, B, C. repeat split.
    - match type of H with option_map _ (?g l) = _ => remember g as go eqn:Ego end.
      destruct (go l) as [xs|] eqn:G; cbn in H; inversion H; subst x.
      assert (L : mapM ev (map snd xs) = Ok (map snd l) /\ map fst xs = map fst l /\
                  map (fun kx => (fst kx, S (snd kx))) xs = xs /\ forallb wt (map snd xs) = true).
      { clear H. revert xs G. cbn [vsize] in Hn.
        induction l as [|[k0 v0] l IHl]; intros xs G.
        - rewrite Ego in G. inversion G. repeat split.
        - rewrite Ego in G. rewrite <- Ego in G.
          destruct (v2e v0) as [e0|] eqn:E0; [|discriminate].
          destruct (go l) as [xs'|] eqn:G'; [|discriminate]. inversion G; subst xs.
          destruct (IH v0 ltac:(lia) e0 E0) as [A [B C]].
          destruct (IHl ltac:(lia) xs' eq_refl) as [A' [F' [B' C']]].
          cbn [map mapM forallb fst snd]. rewrite A, B, C, A', B', C', F'. repeat split. }
      destruct L as [A [F [B C]]]. unfold v2e_good. rewrite eval_record, wt_record, subst_record. rewrite A, B, C, F.
      cbn [bind]. repeat split. f_equal. f_equal.
      clear. induction l as [|[k v] l IH]; [reflexivity|]. cbn. rewrite IH. reflexivity.
    - discriminate.
  Qed.

  Lemma v2e_props v x : v2e v = Some x -> v2e_good v x.
  Proof. apply (v2e_props_n (Datatypes.S (vsize v))). lia. Qed.

  Lemma v2e_sound v x : v2e v = Some x -> ev (S x) = Ok v.
  Proof. intros H. destruct (v2e_props v x H) as [A [B _]]. rewrite B. exact A. Qed.
  Lemma v2e_wt v x : v2e v = Some x -> wt x = true.
  Proof. intros H. apply (v2e_props v x H). Qed.
End Sound.

(* ------------------------------------------------------------------------------------------ *)
(* peval is sound for every complete, well-typed substitution sg that extends the mapper mu     *)
(* ------------------------------------------------------------------------------------------ *)
Section Frag.
  Variable sg mu : mapper.
  Variable sl : slotenv.
  Variable pq : prequest.
  Variable pes : pentities.
  Variable q : request.
  Variable es : entities.
  Notation ev := (eval sl q es).
  Notation S := (subst sg).
  Notation wt := (wt_expr sg).
  Notation pe := (peval mu sl pq pes).

  (* what a partial result promises about a concrete result c *)
  Definition sound_res (p : pres) (c : res value) : Prop :=
    match p with
    | PV v => c = Ok v
    | PR r => agree (ev (S r)) c /\ wt r = true
    | PErr _ => exists x, c = Err x
    | POut => True
    end.
  (* ... about the concrete evaluation of (sg e) *)
  Definition sound_pres (p : pres) (e : expr) : Prop := sound_res p (ev (S e)).

  (* one-step equations of the concrete evaluator *)
  Lemma ev_if c t f : ev (If c t f) = do vc <- ev c; do b <- as_bool vc; if b then ev t else ev f.
  Proof. reflexivity. Qed.
  Lemma ev_and a b : ev (And a b) =
    do va <- ev a; do x <- as_bool va;
    if x then (do vb <- ev b; do y <- as_bool vb; Ok (VBool y)) else Ok (VBool false).
  Proof. reflexivity. Qed.
  Lemma ev_or a b : ev (Or a b) =
    do va <- ev a; do x <- as_bool va;
    if x then Ok (VBool true) else (do vb <- ev b; do y <- as_bool vb; Ok (VBool y)).
  Proof. reflexivity. Qed.
  Lemma ev_unapp op a : ev (UnApp op a) = do v <- ev a; unary_app op v. Proof. reflexivity. Qed.
  Lemma ev_binapp op a b : ev (BinApp op a b) = do va <- ev a; do vb <- ev b; binary_app es op va vb.
  Proof. reflexivity. Qed.
  Lemma ev_getattr x a : ev (GetAttr x a) = do v <- ev x; get_attr es v a. Proof. reflexivity. Qed.
  Lemma ev_hasattr x a : ev (HasAttr x a) = do v <- ev x; has_attr es v a. Proof. reflexivity. Qed.
  Lemma ev_like x p : ev (Like x p) = do v <- ev x; do s <- as_string v; Ok (VBool (wildcard p s)).
  Proof. reflexivity. Qed.
  Lemma ev_is x t : ev (Is x t) = do v <- ev x; do u <- as_entity v; Ok (VBool (name_eqb (uty u) t)).
  Proof. reflexivity. Qed.

  Lemma sound_of_res r : sound_res (of_res r) r.
  Proof. destruct r; cbn; eauto. Qed.

  (* ---- the folding builders ---- *)
  Lemma eval_mk_and a b : ev (mk_and a b) = ev (And a b).
  Proof.
    destruct a; try reflexivity. destruct p; try reflexivity.
    destruct b; try reflexivity. destruct p; try reflexivity. destruct b0, b; reflexivity.
  Qed.
  Lemma eval_mk_or a b : ev (mk_or a b) = ev (Or a b).
  Proof.
    destruct a; try reflexivity. destruct p; try reflexivity.
    destruct b; try reflexivity. destruct p; try reflexivity. destruct b0, b; reflexivity.
  Qed.
  Lemma mk_and_cases a b :
    (exists x y, a = Lit (PBool x) /\ b = Lit (PBool y)) \/ mk_and a b = And a b.
  Proof.
    destruct a; try (right; reflexivity). destruct p; try (right; reflexivity).
    destruct b; try (right; reflexivity). destruct p; try (right; reflexivity). left; eauto.
  Qed.
  Lemma mk_or_cases a b :
    (exists x y, a = Lit (PBool x) /\ b = Lit (PBool y)) \/ mk_or a b = Or a b.
  Proof.
    destruct a; try (right; reflexivity). destruct p; try (right; reflexivity).
    destruct b; try (right; reflexivity). destruct p; try (right; reflexivity). left; eauto.
  Qed.
  Lemma subst_mk_and a b : ev (S (mk_and a b)) = ev (And (S a) (S b)).
  Proof.
    destruct (mk_and_cases a b) as [[x [y [Ea Eb]]] | E].
    - subst. destruct x, y; reflexivity.
    - rewrite E. cbn [subst]. apply eval_mk_and.
  Qed.
  Lemma subst_mk_or a b : ev (S (mk_or a b)) = ev (Or (S a) (S b)).
  Proof.
    destruct (mk_or_cases a b) as [[x [y [Ea Eb]]] | E].
    - subst. destruct x, y; reflexivity.
    - rewrite E. cbn [subst]. apply eval_mk_or.
  Qed.
  Lemma wt_mk_and a b : wt (mk_and a b) = wt a && wt b.
  Proof.
    destruct (mk_and_cases a b) as [[x [y [Ea Eb]]] | E]; [subst; reflexivity | rewrite E; reflexivity].
  Qed.
  Lemma wt_mk_or a b : wt (mk_or a b) = wt a && wt b.
  Proof.
    destruct (mk_or_cases a b) as [[x [y [Ea Eb]]] | E]; [subst; reflexivity | rewrite E; reflexivity].
  Qed.

  (* congruences of `agree` for the short-circuiting constructs *)
  Lemma and_agree (x x' y y' : res value) : agree x x' -> agree y y' ->
    agree (do va <- x; do bx <- as_bool va;
           if bx then (do vb <- y; do b' <- as_bool vb; Ok (VBool b')) else Ok (VBool false))
          (do va <- x'; do bx <- as_bool va;
           if bx then (do vb <- y'; do b' <- as_bool vb; Ok (VBool b')) else Ok (VBool false)).
  Proof.
    intros H1 H2. destruct x, x'; cbn in H1; try contradiction; subst; cbn [bind]; auto.
    destruct (as_bool a0) as [[|]|]; cbn [bind]; auto using agree_refl.
    apply agree_bind. exact H2.
  Qed.
  Lemma or_agree (x x' y y' : res value) : agree x x' -> agree y y' ->
    agree (do va <- x; do bx <- as_bool va;
           if bx then Ok (VBool true) else (do vb <- y; do b' <- as_bool vb; Ok (VBool b')))
          (do va <- x'; do bx <- as_bool va;
           if bx then Ok (VBool true) else (do vb <- y'; do b' <- as_bool vb; Ok (VBool b'))).
  Proof.
    intros H1 H2. destruct x, x'; cbn in H1; try contradiction; subst; cbn [bind]; auto.
    destruct (as_bool a0) as [[|]|]; cbn [bind]; auto using agree_refl.
    apply agree_bind. exact H2.
  Qed.
  Lemma if_agree (c c' t t' f f' : res value) : agree c c' -> agree t t' -> agree f f' ->
    agree (do vc <- c; do b <- as_bool vc; if b then t else f)
          (do vc <- c'; do b <- as_bool vc; if b then t' else f').
  Proof.
    intros H1 H2 H3. destruct c, c'; cbn in H1; try contradiction; subst; cbn [bind]; auto.
    destruct (as_bool a0) as [[|]|]; cbn [bind]; auto using agree_refl.
  Qed.

  (* the operand a residual keeps for a best-effort sub-evaluation agrees with the source *)
  Lemma pres_expr_sound b pb b' :
    sound_pres pb b -> wt b = true -> pres_expr b pb = Some b' ->
    agree (ev (S b')) (ev (S b)) /\ wt b' = true.
  Proof.
    unfold sound_pres. destruct pb; cbn [sound_res pres_expr]; intros Sd W E.
    - rewrite Sd. rewrite (v2e_sound sg sl q es v b' E). split; [reflexivity | exact (v2e_wt sg sl q es v b' E)].
    - inversion E; subst. exact Sd.
    - inversion E; subst. split; [apply agree_refl | exact W].
    - discriminate.
  Qed.

  Hypothesis Hmu : forall n v, mu n = Some v -> sg n = Some v.
  (* q is a sg-completion of pq: the partial value of every request variable is sound *)
  Hypothesis Hvar : forall v, sound_pres (peval_var pq v) (Var v).

  (* ---- arms ---- *)
  Lemma arm_lit p : sound_pres (pe (Lit p)) (Lit p).
  Proof. reflexivity. Qed.

  Lemma arm_slot s : sound_pres (pe (Slot s)) (Slot s).
  Proof. unfold sound_pres. cbn [peval subst eval]. destruct (slot_lookup s sl); cbn; eauto. Qed.

  Lemma arm_unknown n ty : wt (Unknown n ty) = true -> sound_pres (unknown_to_pv mu n ty) (Unknown n ty).
  Proof.
    intros W. unfold unknown_to_pv, sound_pres. destruct (mu n) as [v|] eqn:M.
    - apply Hmu in M. cbn [wt_expr] in W. cbn [subst]. rewrite M in *.
      destruct (v2e v) as [x|] eqn:V; [|discriminate].
      destruct (v2e_props sg sl q es v x V) as [A _].
      destruct ty as [t|]; [rewrite W|]; exact A.
    - split; [apply agree_refl | exact W].
  Qed.

  Lemma arm_unapp op a : sound_pres (pe a) a -> sound_pres (pe (UnApp op a)) (UnApp op a).
  Proof.
    unfold sound_pres. cbn [peval subst]. rewrite ev_unapp.
    destruct (pe a) as [v|r|x|]; cbn [sound_res]; intros H; auto.
    - rewrite H. apply sound_of_res.
    - destruct H as [H W]. cbn [subst wt_expr]. rewrite ev_unapp. split; [apply agree_bind; exact H | exact W].
    - destruct H as [y H]. rewrite H. cbn. eauto.
  Qed.

  Lemma arm_like a p : sound_pres (pe a) a -> sound_pres (pe (Like a p)) (Like a p).
  Proof.
    unfold sound_pres. cbn [peval subst]. rewrite ev_like.
    destruct (pe a) as [v|r|x|]; cbn [sound_res]; intros H; auto.
    - rewrite H. cbn [bind]. destruct (as_string v); cbn; eauto.
    - destruct H as [H W]. cbn [subst wt_expr]. rewrite ev_like. split; [apply agree_bind; exact H | exact W].
    - destruct H as [y H]. rewrite H. cbn. eauto.
  Qed.

  (* a well-typed unknown of entity type t evaluates to an entity of type t *)
  Lemma typed_unknown_entity n t c :
    wt (Unknown n (Some (RTEntity t))) = true -> agree (ev (S (Unknown n (Some (RTEntity t))))) c ->
    exists u, c = Ok (VEntity u) /\ uty u = t.
  Proof.
    cbn [wt_expr subst]. destruct (sg n) as [v|]; [|discriminate].
    destruct (v2e v) as [x|] eqn:V; [|discriminate]. intros W A.
    destruct (v2e_props sg sl q es v x V) as [E _]. rewrite E in A.
    destruct c; cbn in A; [subst|contradiction].
    destruct a as [[| | |u]| | |]; cbn in W; try discriminate. exists u. split; [reflexivity|].
    apply strs_eqb_eq. exact W.
  Qed.

  Lemma arm_is a t : sound_pres (pe a) a -> sound_pres (pe (Is a t)) (Is a t).
  Proof.
    unfold sound_pres. cbn [peval subst]. rewrite ev_is.
    destruct (pe a) as [v|r|x|]; cbn [sound_res]; intros H; auto.
    - rewrite H. cbn [bind]. destruct (as_entity v); cbn; eauto.
    - destruct H as [H W].
      assert (G : sound_res (PR (Is r t)) (do v <- ev (S a); do u <- as_entity v; Ok (VBool (name_eqb (uty u) t)))).
      { cbn [sound_res subst wt_expr]. rewrite ev_is. split; [apply agree_bind; exact H | exact W]. }
      destruct r; try exact G. destruct ty as [[| | | | |t'|]|]; try exact G.
      destruct (typed_unknown_entity n t' _ W H) as [u [E Ht]]. cbn [sound_res]. rewrite E. cbn. rewrite Ht. reflexivity.
    - destruct H as [y H]. rewrite H. cbn. eauto.
  Qed.

  Lemma arm_and a b : wt b = true ->
    sound_pres (pe a) a -> sound_pres (pe b) b -> sound_pres (pe (And a b)) (And a b).
  Proof.
    intros Wb Ha Hb. pose proof (pres_expr_sound b (pe b)) as PB.
    unfold sound_pres in *. cbn [peval subst]. rewrite eval_mk_and, ev_and.
    destruct (pe a) as [v|ra|x|]; cbn [sound_res] in *; auto.
    - rewrite Ha. cbn [bind]. destruct (as_bool v) as [[|]|x]; cbn [bind sound_res]; eauto.
      destruct (pe b) as [v'|rb|x|]; cbn [sound_res] in *; auto.
      + rewrite Hb. cbn [bind]. destruct (as_bool v'); cbn; eauto.
      + destruct Hb as [Hb W]. rewrite subst_mk_and, ev_and, wt_mk_and. cbn [subst eval bind as_bool wt_expr andb].
        split; [apply agree_bind; exact Hb | exact W].
      + destruct Hb as [y Hb]. rewrite Hb. cbn. eauto.
    - destruct Ha as [Ha Wa]. destruct (pres_expr b (pe b)) as [b'|] eqn:E; [|exact I].
      destruct (PB b' Hb Wb eq_refl) as [A W']. cbn [sound_res]. rewrite subst_mk_and, ev_and, wt_mk_and, Wa, W'.
      split; [apply and_agree; assumption | reflexivity].
    - destruct Ha as [y Ha]. rewrite Ha. cbn. eauto.
  Qed.

  Lemma arm_or a b : wt b = true ->
    sound_pres (pe a) a -> sound_pres (pe b) b -> sound_pres (pe (Or a b)) (Or a b).
  Proof.
    intros Wb Ha Hb. pose proof (pres_expr_sound b (pe b)) as PB.
    unfold sound_pres in *. cbn [peval subst]. rewrite eval_mk_or, ev_or.
    destruct (pe a) as [v|ra|x|]; cbn [sound_res] in *; auto.
    - rewrite Ha. cbn [bind]. destruct (as_bool v) as [[|]|x]; cbn [bind sound_res]; eauto.
      destruct (pe b) as [v'|rb|x|]; cbn [sound_res] in *; auto.
      + rewrite Hb. cbn [bind]. destruct (as_bool v'); cbn; eauto.
      + destruct Hb as [Hb W]. rewrite subst_mk_or, ev_or, wt_mk_or. cbn [subst eval bind as_bool wt_expr andb].
        split; [apply agree_bind; exact Hb | exact W].
      + destruct Hb as [y Hb]. rewrite Hb. cbn. eauto.
    - destruct Ha as [Ha Wa]. destruct (pres_expr b (pe b)) as [b'|] eqn:E; [|exact I].
      destruct (PB b' Hb Wb eq_refl) as [A W']. cbn [sound_res]. rewrite subst_mk_or, ev_or, wt_mk_or, Wa, W'.
      split; [apply or_agree; assumption | reflexivity].
    - destruct Ha as [y Ha]. rewrite Ha. cbn. eauto.
  Qed.

  Lemma arm_if c t f : wt t = true -> wt f = true ->
    sound_pres (pe c) c -> sound_pres (pe t) t -> sound_pres (pe f) f -> sound_pres (pe (If c t f)) (If c t f).
  Proof.
    intros Wt Wf Hc Ht Hf.
    pose proof (pres_expr_sound t (pe t)) as PT. pose proof (pres_expr_sound f (pe f)) as PF.
    unfold sound_pres in *. cbn [peval subst]. rewrite ev_if.
    destruct (pe c) as [v|g|x|]; cbn [sound_res] in *; auto.
    - rewrite Hc. cbn [bind]. destruct (as_bool v) as [[|]|x]; cbn [bind sound_res]; eauto.
    - destruct Hc as [Hc Wg].
      destruct (pres_expr t (pe t)) as [t'|] eqn:E2; [|exact I].
      destruct (pres_expr f (pe f)) as [f'|] eqn:E3; [|exact I].
      destruct (PT t' Ht Wt eq_refl) as [A2 W2]. destruct (PF f' Hf Wf eq_refl) as [A3 W3].
      cbn [sound_res subst wt_expr]. rewrite ev_if, Wg, W2, W3. split; [apply if_agree; assumption | reflexivity].
    - destruct Hc as [y Hc]. rewrite Hc. cbn. eauto.
  Qed.

  (* ---- the store: es is a sg-completion of pes ---- *)
  Definition attr_complete (pv : option pval) (cv : option value) : Prop :=
    match pv with
    | None => cv = None
    | Some (PVal v) => cv = Some v
    | Some (PRes e) => exists v, cv = Some v /\ ev (S e) = Ok v /\ wt e = true
    end.
  Definition store_complete : Prop :=
    forall u,
      match find_pentity u pes with
      | None => find_entity u es = None
      | Some pd => exists d, find_entity u es = Some d /\ etags d = ptags pd /\ eancestors d = pancestors pd /\
                             forall k, attr_complete (lookup k (pattrs pd)) (lookup k (eattrs d))
      end.
  Hypothesis Hstore : store_complete.

  Lemma find_erase u :
    find_entity u (erase_entities pes) =
    option_map (fun d => mkEdata [] (ptags d) (pancestors d)) (find_pentity u pes).
  Proof.
    unfold erase_entities. induction pes as [|[u' d] l IH]; [reflexivity|].
    cbn [map find_entity find_pentity fst snd]. destruct (uid_eqb u u'); [reflexivity | exact IH].
  Qed.

  Lemma binary_app_erase op a b : binary_app (erase_entities pes) op a b = binary_app es op a b.
  Proof.
    destruct op; try reflexivity; cbn [binary_app].
    - (* in *)
      destruct (as_entity a) as [u|]; cbn [bind]; [|reflexivity]. unfold eval_in.
      rewrite find_erase. pose proof (Hstore u) as H. destruct (find_pentity u pes) as [pd|].
      + destruct H as [d [F [_ [A _]]]]. rewrite F. cbn [option_map]. unfold is_descendant_of. cbn [eancestors]. rewrite A. reflexivity.
      + rewrite H. reflexivity.
    - (* getTag *)
      destruct (as_entity a) as [u|]; cbn [bind]; [|reflexivity]. destruct (as_string b); cbn [bind]; [|reflexivity].
      rewrite find_erase. pose proof (Hstore u) as H. destruct (find_pentity u pes) as [pd|].
      + destruct H as [d [F [T _]]]. rewrite F. cbn [option_map etags]. rewrite T. reflexivity.
      + rewrite H. reflexivity.
    - (* hasTag *)
      destruct (as_entity a) as [u|]; cbn [bind]; [|reflexivity]. destruct (as_string b); cbn [bind]; [|reflexivity].
      rewrite find_erase. pose proof (Hstore u) as H. destruct (find_pentity u pes) as [pd|].
      + destruct H as [d [F [T _]]]. rewrite F. cbn [option_map etags]. rewrite T. reflexivity.
      + rewrite H. reflexivity.
  Qed.

  Lemma binapp_agree op (x x' y y' : res value) : agree x x' -> agree y y' ->
    agree (do va <- x; do vb <- y; binary_app es op va vb) (do va <- x'; do vb <- y'; binary_app es op va vb).
  Proof.
    intros H1 H2. destruct x, x'; cbn in H1; try contradiction; subst; cbn [bind].
    - apply agree_bind. exact H2.
    - exact I.
  Qed.

  (* the three type-based short circuits only ever answer `false` for `==` on entities of
     different types *)
  Lemma sc_value_residual_sound op v1 e2 r c2 :
    sc_value_residual op v1 e2 = Some r -> agree (ev (S e2)) c2 -> wt e2 = true ->
    op = BEq /\ r = PV (VBool false) /\ exists v2, c2 = Ok v2 /\ value_eqb v1 v2 = false /\ value_eqb v2 v1 = false.
  Proof.
    unfold sc_value_residual. destruct op; try discriminate. destruct v1 as [[| | |u]| | |]; try discriminate.
    destruct e2; try discriminate. destruct ty as [[| | | | |t|]|]; try discriminate.
    destruct (name_eqb (uty u) t) eqn:N; [discriminate|]. intros E A W. inversion E; subst r.
    destruct (typed_unknown_entity n t c2 W A) as [u' [Ec Ht]]. subst t.
    split; [reflexivity|]. split; [reflexivity|]. exists (VEntity u'). split; [exact Ec|].
    cbn [value_eqb VEntity prim_eqb]. unfold uid_eqb.
    assert (N' : name_eqb (uty u') (uty u) = false).
    { destruct (name_eqb (uty u') (uty u)) eqn:X; [|reflexivity]. apply strs_eqb_eq in X. rewrite X in N.
      unfold name_eqb in N. rewrite (proj2 (strs_eqb_eq _ _) eq_refl) in N. discriminate. }
    rewrite N, N'. split; reflexivity.
  Qed.

  Lemma arm_binapp op a b :
    sound_pres (pe a) a -> sound_pres (pe b) b -> sound_pres (pe (BinApp op a b)) (BinApp op a b).
  Proof.
    intros Ha Hb. unfold sound_pres in *. cbn [peval subst]. rewrite ev_binapp.
    destruct (pe a) as [v1|e1|x|]; cbn [sound_res] in Ha.
    - (* value, _ *)
      rewrite Ha. cbn [bind].
      destruct (pe b) as [v2|e2|x|]; cbn [sound_res] in Hb.
      + rewrite Hb. cbn [bind]. rewrite binary_app_erase. apply sound_of_res.
      + destruct Hb as [Hb W2].
        destruct (sc_value_residual op v1 e2) as [r|] eqn:SC.
        * destruct (sc_value_residual_sound _ _ _ _ _ SC Hb W2) as [Eo [Er [v2 [Ec [N _]]]]]. subst op r.
          rewrite Ec. cbn. rewrite N. reflexivity.
        * destruct (v2e v1) as [x1|] eqn:V; [|exact I].
          cbn [sound_res subst wt_expr]. rewrite ev_binapp, (v2e_sound sg sl q es v1 x1 V), (v2e_wt sg sl q es v1 x1 V), W2.
          cbn [bind]. split; [apply agree_bind; exact Hb | reflexivity].
      + destruct Hb as [y Hb]. rewrite Hb. cbn. eauto.
      + exact I.
    - (* residual, _ *)
      destruct Ha as [Ha W1].
      destruct (pe b) as [v2|e2|x|]; cbn [sound_res] in Hb.
      + rewrite Hb.
        destruct (sc_residual_value op e1 v2) as [r|] eqn:SC.
        * assert (SC' : sc_value_residual op v2 e1 = Some r) by (unfold sc_residual_value in SC; destruct op; try discriminate; exact SC).
          destruct (sc_value_residual_sound _ _ _ _ _ SC' Ha W1) as [Eo [Er [v1 [Ec [_ N]]]]]. subst op r.
          rewrite Ec. cbn. rewrite N. reflexivity.
        * destruct (v2e v2) as [x2|] eqn:V; [|exact I].
          cbn [sound_res subst wt_expr]. rewrite ev_binapp, (v2e_sound sg sl q es v2 x2 V), (v2e_wt sg sl q es v2 x2 V), W1.
          split; [apply binapp_agree; [exact Ha | reflexivity] | reflexivity].
      + destruct Hb as [Hb W2].
        destruct (sc_two_residuals op e1 e2) as [r|] eqn:SC.
        * unfold sc_two_residuals in SC. destruct op; try discriminate.
          destruct e1; try discriminate. destruct ty as [[| | | | |t1|]|]; try discriminate.
          destruct e2; try discriminate. destruct ty as [[| | | | |t2|]|]; try discriminate.
          destruct (name_eqb t1 t2) eqn:N; [discriminate|]. inversion SC; subst r.
          destruct (typed_unknown_entity n t1 _ W1 Ha) as [u1 [E1 T1]].
          destruct (typed_unknown_entity n0 t2 _ W2 Hb) as [u2 [E2 T2]].
          cbn [sound_res]. rewrite E1, E2. cbn. unfold uid_eqb. rewrite T1, T2, N. reflexivity.
        * cbn [sound_res subst wt_expr]. rewrite ev_binapp, W1, W2.
          split; [apply binapp_agree; assumption | reflexivity].
      + (* the right operand errors: so does the whole application, whatever the left one does *)
        destruct Hb as [y Hb]. rewrite Hb. cbn [sound_res]. destruct (ev (S a)); cbn; eauto.
      + exact I.
    - destruct Ha as [y Ha]. rewrite Ha. cbn. eauto.
    - exact I.
  Qed.


  (* ---- list-valued arms: set / record literals, extension calls ---- *)
  Lemma cons_agree (a b : res value) (la lb : res (list value)) : agree a b -> agree la lb ->
    agree (do v <- a; do vs <- la; Ok (v :: vs)) (do v <- b; do vs <- lb; Ok (v :: vs)).
  Proof.
    intros H1 H2. destruct a, b; cbn in H1; try contradiction; subst; cbn [bind]; [|exact I].
    apply agree_bind. exact H2.
  Qed.

  Definition sound_plist (pl : plist) (items : list expr) : Prop :=
    match pl with
    | PLErr _ => exists x, mapM ev (map S items) = Err x
    | PLOut => True
    | PLOk l =>
        (forall vs, all_vals l = Some vs -> mapM ev (map S items) = Ok vs) /\
        (forall xs, to_exprs l = Some xs ->
                    agree (mapM ev (map S xs)) (mapM ev (map S items)) /\ forallb wt xs = true /\
                    length xs = length items)
    end.

  Lemma pmapM_sound f items :
    Forall (fun x => sound_pres (f x) x) items -> sound_plist (pmapM f items) items.
  Proof.
    induction 1 as [|x l Hx Hl IH]; [cbn; split; intros ? E; inversion E; cbn; auto|].
    cbn [pmapM]. unfold sound_pres in Hx.
    destruct (f x) as [v|r|e|]; cbn [sound_res] in Hx.
    - destruct (pmapM f l) as [pl|e|]; cbn [sound_plist map mapM] in *; try rewrite Hx; cbn [bind]; auto.
      + destruct IH as [IH1 IH2]. split.
        * intros vs E. cbn [all_vals] in E. destruct (all_vals pl) as [vs'|]; [|discriminate]. inversion E; subst.
          rewrite (IH1 vs' eq_refl). reflexivity.
        * intros xs E. cbn [to_exprs] in E. destruct (v2e v) as [e0|] eqn:V; [|discriminate].
          destruct (to_exprs pl) as [xs'|]; [|discriminate]. inversion E; subst.
          destruct (IH2 xs' eq_refl) as [A [W Ln]]. cbn [map mapM forallb length].
          rewrite (v2e_sound sg sl q es v e0 V), (v2e_wt sg sl q es v e0 V), W, Ln. cbn [bind].
          split; [apply agree_bind; exact A | split; reflexivity].
      + destruct IH as [y IH]. rewrite IH. cbn. eauto.
    - destruct Hx as [Hx Wr].
      destruct (pmapM f l) as [pl|e|]; cbn [sound_plist map mapM] in *; auto.
      + destruct IH as [IH1 IH2]. split.
        * intros vs E. discriminate E.
        * intros xs E. cbn [to_exprs] in E. destruct (to_exprs pl) as [xs'|]; [|discriminate]. inversion E; subst.
          destruct (IH2 xs' eq_refl) as [A [W Ln]]. cbn [map mapM forallb length]. rewrite Wr, W, Ln.
          split; [apply cons_agree; assumption | split; reflexivity].
      + destruct IH as [y IH]. rewrite IH. destruct (ev (S x)); cbn; eauto.
    - destruct Hx as [y Hx]. cbn [sound_plist map mapM]. rewrite Hx. cbn. eauto.
    - exact I.
  Qed.

  Lemma pmapM_rec_map f items : pmapM_rec f items = pmapM f (map snd items).
  Proof.
    induction items as [|[k x] l IH]; [reflexivity|]. cbn [pmapM_rec pmapM map snd]. rewrite IH. reflexivity.
  Qed.

  Lemma finish_sound pl items mkv mke (k : list value -> res value) :
    sound_plist pl items ->
    (forall vs, sound_res (mkv vs) (k vs)) ->
    (forall xs, length xs = length items ->
                ev (S (mke xs)) = (do vs <- mapM ev (map S xs); k vs) /\ wt (mke xs) = forallb wt xs) ->
    sound_res (finish pl mkv mke) (do vs <- mapM ev (map S items); k vs).
  Proof.
    intros H Hv He. unfold finish. destruct pl as [l|e|]; cbn [sound_plist] in H.
    - destruct H as [H1 H2]. destruct (all_vals l) as [vs|].
      + rewrite (H1 vs eq_refl). cbn [bind]. apply Hv.
      + destruct (to_exprs l) as [xs|]; [|exact I]. destruct (H2 xs eq_refl) as [A [W Ln]].
        destruct (He xs Ln) as [E1 E2]. cbn [sound_res]. rewrite E1, E2. split; [apply agree_bind; exact A | exact W].
    - destruct H as [y H]. rewrite H. cbn. eauto.
    - exact I.
  Qed.

  Lemma arm_set f items :
    Forall (fun x => sound_pres (f x) x) items ->
    sound_res (finish (pmapM f items) (fun vs => PV (VSet vs)) SetE) (ev (S (SetE items))).
  Proof.
    intros H. cbn [subst]. rewrite eval_set.
    apply finish_sound; [apply pmapM_sound; exact H | intros vs; reflexivity |].
    intros xs _. cbn [subst]. rewrite eval_set, wt_set. split; reflexivity.
  Qed.

  Lemma arm_ext f fn items :
    Forall (fun x => sound_pres (f x) x) items ->
    sound_res (finish (pmapM f items) (fun vs => of_res (call_ext fn vs)) (ExtCall fn)) (ev (S (ExtCall fn items))).
  Proof.
    intros H. cbn [subst]. rewrite eval_ext.
    apply finish_sound; [apply pmapM_sound; exact H | intros vs; apply sound_of_res |].
    intros xs _. cbn [subst]. rewrite eval_ext, wt_ext. split; reflexivity.
  Qed.

  Lemma combine_fst_snd {A B} (ks : list A) (xs : list B) :
    length xs = length ks -> map fst (combine ks xs) = ks /\ map snd (combine ks xs) = xs.
  Proof.
    revert xs. induction ks as [|k ks IH]; intros [|x xs] L; cbn in *; try discriminate; auto.
    destruct (IH xs ltac:(lia)) as [E1 E2]. rewrite E1, E2. auto.
  Qed.

  Lemma arm_record f items :
    Forall (fun x => sound_pres (f x) x) (map snd items) ->
    sound_res (finish (pmapM_rec f items) (fun vs => PV (VRecord (zip_keys items vs)))
                      (fun xs => RecordE (zip_keys items xs)))
              (ev (S (RecordE items))).
  Proof.
    intros H. rewrite subst_record, eval_record, map_fst_subst, map_snd_subst, pmapM_rec_map.
    apply (finish_sound _ (map snd items) _ _ (fun vs => Ok (VRecord (combine (map fst items) vs))));
      [apply pmapM_sound; exact H | intros vs; reflexivity |].
    intros xs Ln. unfold zip_keys. rewrite subst_record, eval_record, wt_record, map_fst_subst, map_snd_subst.
    rewrite map_length in Ln.
    destruct (combine_fst_snd (map fst items) xs ltac:(rewrite map_length; exact Ln)) as [A B0].
    rewrite A, B0. split; reflexivity.
  Qed.

  (* ---- projectable residual records ---- *)
  Lemma proj_list_closed (l : list expr) :
    (fix go (l : list expr) : bool := match l with [] => true | x :: l' => is_projectable x && go l' end) l
    = forallb is_projectable l.
  Proof. induction l as [|x l IH]; [reflexivity|]. cbn [forallb]. rewrite <- IH. reflexivity. Qed.
  Lemma proj_record l : is_projectable (RecordE l) = forallb is_projectable (map snd l).
  Proof.
    cbn [is_projectable]. induction l as [|[k x] l IH]; [reflexivity|]. cbn [map forallb snd]. rewrite <- IH. reflexivity.
  Qed.

  (* a projectable, well-typed expression cannot fail *)
  Lemma projectable_total r : is_projectable r = true -> wt r = true -> exists v, ev (S r) = Ok v.
  Proof.
    induction r using expr_ind'; intros P W; try discriminate P.
    - eexists; reflexivity.
    - eexists; reflexivity.
    - cbn [wt_expr subst] in *. destruct (sg n) as [v|]; [|discriminate]. destruct (v2e v) as [x|] eqn:V; [|discriminate].
      exists v. apply (v2e_props sg sl q es v x V).
    - cbn [is_projectable] in P. rewrite proj_list_closed in P. rewrite wt_set in W. cbn [subst]. rewrite eval_set.
      assert (L : exists vs, mapM ev (map S items) = Ok vs).
      { induction H as [|x l Hx Hl IH]; [eexists; reflexivity|]. cbn [forallb] in P, W.
        apply andb_prop in P. destruct P as [P1 P2]. apply andb_prop in W. destruct W as [W1 W2].
        destruct (Hx P1 W1) as [v E]. destruct (IH P2 W2) as [vs E']. cbn [map mapM]. rewrite E, E'. eexists; reflexivity. }
      destruct L as [vs E]. rewrite E. eexists; reflexivity.
    - rewrite proj_record in P. rewrite wt_record in W. rewrite subst_record, eval_record, map_snd_subst.
      assert (L : exists vs, mapM ev (map S (map snd items)) = Ok vs).
      { induction H as [|x l Hx Hl IH]; [eexists; reflexivity|]. cbn [forallb] in P, W.
        apply andb_prop in P. destruct P as [P1 P2]. apply andb_prop in W. destruct W as [W1 W2].
        destruct (Hx P1 W1) as [v E]. destruct (IH P2 W2) as [vs E']. cbn [map mapM]. rewrite E, E'. eexists; reflexivity. }
      destruct L as [vs E]. rewrite E. eexists; reflexivity.
  Qed.

  (* the value of a record literal, attribute by attribute *)
  Lemma record_lookup (m : list (str * expr)) a : forall vs,
    mapM ev (map S (map snd m)) = Ok vs ->
    match lookup a m with
    | None => lookup a (combine (map fst m) vs) = None
    | Some y => exists v, lookup a (combine (map fst m) vs) = Some v /\ ev (S y) = Ok v
    end.
  Proof.
    induction m as [|[k x] m IH]; intros vs E; [reflexivity|].
    cbn [map mapM fst snd] in E. destruct (ev (S x)) as [v|] eqn:Ex; cbn [bind] in E; [|discriminate].
    destruct (mapM ev (map S (map snd m))) as [vs'|] eqn:E'; cbn [bind] in E; [|discriminate]. inversion E; subst.
    cbn [lookup map fst combine]. destruct (str_eqb a k).
    - exists v. auto.
    - apply IH. reflexivity.
  Qed.

  Lemma has_key_record (m : list (str * expr)) a vs :
    mapM ev (map S (map snd m)) = Ok vs -> has_key a (combine (map fst m) vs) = has_key a m.
  Proof.
    intros E. pose proof (record_lookup m a vs E) as H. unfold has_key.
    destruct (lookup a m); [destruct H as [v [H _]]|]; rewrite H; reflexivity.
  Qed.

  Lemma lookup_wt (m : list (str * expr)) a y :
    forallb wt (map snd m) = true -> lookup a m = Some y -> wt y = true.
  Proof.
    induction m as [|[k x] m IH]; [discriminate|]. cbn [map forallb snd lookup]. intros W L.
    apply andb_prop in W. destruct W as [W1 W2]. destruct (str_eqb a k); [inversion L; subst; exact W1 | auto].
  Qed.

  (* partial_interpret restricted to projectable expressions *)
  Lemma proj_sound y : wt y = true -> sound_pres (peval_proj mu pq y) y.
  Proof.
    induction y using expr_ind'; intros W; try exact I.
    - reflexivity.
    - apply Hvar.
    - apply arm_unknown. exact W.
    - cbn [peval_proj]. apply arm_set. rewrite wt_set in W.
      induction H as [|x l Hx Hl IH]; constructor; cbn [forallb] in W; apply andb_prop in W; destruct W; auto.
    - cbn [peval_proj]. apply arm_record. rewrite wt_record in W.
      induction H as [|x l Hx Hl IH]; constructor; cbn [forallb] in W; apply andb_prop in W; destruct W; auto.
  Qed.

  (* ---- getAttr / hasAttr ---- *)
  Lemma arm_getattr x a : sound_pres (pe x) x -> sound_pres (pe (GetAttr x a)) (GetAttr x a).
  Proof.
    unfold sound_pres. cbn [peval subst]. rewrite ev_getattr.
    destruct (pe x) as [v|r|e|]; cbn [sound_res]; intros H; auto.
    - rewrite H. cbn [bind]. destruct v as [[| | |u]|l|l|]; try (cbn; eauto; fail).
      + (* entity *)
        cbn [get_attr]. pose proof (Hstore u) as St. destruct (find_pentity u pes) as [pd|].
        * destruct St as [d [F [_ [_ At]]]]. rewrite F. specialize (At a). unfold attr_complete in At.
          destruct (lookup a (pattrs pd)) as [[v|e]|].
          -- rewrite At. reflexivity.
          -- destruct At as [v [L [E W]]]. rewrite L.
             assert (G : sound_res (PR e) (Ok v)) by (cbn; rewrite E; split; [reflexivity | exact W]).
             destruct e; try exact G. cbn [peval_entity_attr]. rewrite <- E. apply arm_unknown. exact W.
          -- rewrite At. cbn. eauto.
        * rewrite St. cbn. eauto.
      + (* record *)
        cbn [get_attr]. destruct (lookup a l); cbn; eauto.
    - destruct H as [H W].
      assert (G : sound_res (PR (GetAttr r a)) (do v <- ev (S x); get_attr es v a)).
      { cbn [sound_res subst wt_expr]. rewrite ev_getattr. split; [apply agree_bind; exact H | exact W]. }
      destruct r; try exact G.
      (* the residual is a record literal *)
      rewrite subst_record, eval_record, map_snd_subst, map_fst_subst in H.
      destruct (is_projectable (RecordE items)) eqn:P.
      + destruct (projectable_total _ P W) as [rv E]. rewrite subst_record, eval_record, map_snd_subst, map_fst_subst in E.
        destruct (mapM ev (map S (map snd items))) as [vs|] eqn:M; cbn [bind] in E, H; [|discriminate].
        apply agree_sym, agree_ok_r in H. rewrite H. cbn [bind get_attr].
        pose proof (record_lookup items a vs M) as L. destruct (lookup a items) as [y|] eqn:LK.
        * destruct L as [v [L E']]. rewrite L. rewrite <- E'. apply proj_sound.
          rewrite wt_record in W. exact (lookup_wt items a y W LK).
        * rewrite L. cbn. eauto.
      + destruct (has_key a items) eqn:K; [exact G|].
        destruct (mapM ev (map S (map snd items))) as [vs|] eqn:M; cbn [bind] in H.
        * apply agree_sym, agree_ok_r in H. rewrite H. cbn [bind get_attr].
          rewrite <- (has_key_record items a vs M) in K. unfold has_key in K.
          destruct (lookup a (combine (map fst items) vs)); [discriminate|]. cbn. eauto.
        * destruct (ev (S x)); cbn in H; [contradiction|]. cbn. eauto.
    - destruct H as [y H]. rewrite H. cbn. eauto.
  Qed.


  Lemma has_key_complete pd d a :
    (forall k, attr_complete (lookup k (pattrs pd)) (lookup k (eattrs d))) ->
    has_key a (eattrs d) = has_key a (pattrs pd).
  Proof.
    intros At. specialize (At a). unfold has_key, attr_complete in *.
    destruct (lookup a (pattrs pd)) as [[v|e]|]; [| destruct At as [v [At _]] |]; rewrite At; reflexivity.
  Qed.

  Lemma arm_hasattr x a : sound_pres (pe x) x -> sound_pres (pe (HasAttr x a)) (HasAttr x a).
  Proof.
    unfold sound_pres. cbn [peval subst]. rewrite ev_hasattr.
    destruct (pe x) as [v|r|e|]; cbn [sound_res]; intros H; auto.
    - rewrite H. cbn [bind]. destruct v as [[| | |u]|l|l|]; try (cbn; eauto; fail).
      cbn [has_attr]. pose proof (Hstore u) as St. destruct (find_pentity u pes) as [pd|].
      + destruct St as [d [F [_ [_ At]]]]. rewrite F. cbn [sound_res]. rewrite (has_key_complete pd d a At). reflexivity.
      + rewrite St. reflexivity.
    - destruct H as [H W].
      assert (G : sound_res (PR (HasAttr r a)) (do v <- ev (S x); has_attr es v a)).
      { cbn [sound_res subst wt_expr]. rewrite ev_hasattr. split; [apply agree_bind; exact H | exact W]. }
      destruct r; try exact G.
      destruct (is_projectable (RecordE items)) eqn:P; [|exact G].
      destruct (projectable_total _ P W) as [rv E].
      rewrite subst_record, eval_record, map_snd_subst, map_fst_subst in E, H.
      destruct (mapM ev (map S (map snd items))) as [vs|] eqn:M; cbn [bind] in E, H; [|discriminate].
      apply agree_sym, agree_ok_r in H. rewrite H. cbn [bind has_attr sound_res].
      rewrite (has_key_record items a vs M). reflexivity.
    - destruct H as [y H]. rewrite H. cbn. eauto.
  Qed.

  (* ---- the dispatching induction: every construct of the expression language ---- *)
  Lemma Forall_wt (P : expr -> Prop) l :
    Forall (fun x => wt x = true -> P x) l -> forallb wt l = true -> Forall P l.
  Proof.
    induction 1 as [|x l Hx Hl IH]; intros W; constructor; cbn [forallb] in W; apply andb_prop in W; destruct W; auto.
  Qed.

  Theorem peval_sound e : wt e = true -> sound_pres (pe e) e.
  Proof.
    induction e using expr_ind'; intros W.
    - apply arm_lit.
    - apply Hvar.
    - apply arm_slot.
    - apply arm_unknown. exact W.
    - cbn [wt_expr] in W. apply andb_prop in W. destruct W as [W W3]. apply andb_prop in W. destruct W as [W1 W2].
      apply arm_if; auto.
    - cbn [wt_expr] in W. apply andb_prop in W. destruct W as [W1 W2]. apply arm_and; auto.
    - cbn [wt_expr] in W. apply andb_prop in W. destruct W as [W1 W2]. apply arm_or; auto.
    - apply arm_unapp; auto.
    - cbn [wt_expr] in W. apply andb_prop in W. destruct W as [W1 W2]. apply arm_binapp; auto.
    - unfold sound_pres. cbn [peval]. apply arm_ext. rewrite wt_ext in W. apply Forall_wt; assumption.
    - apply arm_getattr; auto.
    - apply arm_hasattr; auto.
    - apply arm_like; auto.
    - apply arm_is; auto.
    - unfold sound_pres. cbn [peval]. apply arm_set. rewrite wt_set in W. apply Forall_wt; assumption.
    - unfold sound_pres. cbn [peval]. apply arm_record. rewrite wt_record in W. apply Forall_wt; assumption.
  Qed.
End Frag.

(* ---- lifted to policies: the status the authorizer loop records is sound ---- *)
(* the concrete outcome of the policy under the substitution: evaluate (sg condition) *)
Definition eval_policy_subst (sg : mapper) (q : request) (es : entities) (p : policy) : res bool :=
  do v <- eval (penv p) q es (subst sg (pcondition p)); as_bool v.

Lemma policy_status_sound (sg mu : mapper) pq pes q es p :
  (forall n v, mu n = Some v -> sg n = Some v) ->
  (forall sl v, sound_pres sg sl q es (peval_var pq v) (Var v)) ->
  (forall sl, store_complete sg sl pes q es) ->
  wt_expr sg (pcondition p) = true ->
  peval_policy mu (penv p) pq pes p <> SOut ->
  status_sound (peval_policy mu (penv p) pq pes p) (eval_policy_subst sg q es p).
Proof.
  intros Hmu Hvar Hst W N.
  pose proof (peval_sound sg mu (penv p) pq pes q es Hmu (Hvar (penv p)) (Hst (penv p)) (pcondition p) W) as H.
  unfold peval_policy, eval_policy_subst, sound_pres in *.
  destruct (peval mu (penv p) pq pes (pcondition p)) as [v|r|e|]; cbn [sound_res] in H.
  - rewrite H. cbn [bind]. destruct (as_bool v) as [[|]|]; cbn; eauto.
  - exact I.
  - destruct H as [x H]. rewrite H. cbn. eauto.
  - congruence.
Qed.

(* (q, es) is a sg-completion of (pq, pes), and sg is complete and well-typed for the policies ps
   (whose partial evaluation stays inside the model) *)
Definition completion (sg : mapper) (pq : prequest) (pes : pentities) (q : request) (es : entities)
                      (ps : list policy) : Prop :=
  (forall sl v, sound_pres sg sl q es (peval_var pq v) (Var v)) /\
  (forall sl, store_complete sg sl pes q es) /\
  (forall p, In p ps -> wt_expr sg (pcondition p) = true /\
                        peval_policy no_mapping (penv p) pq pes p <> SOut).

(* glue: instantiate the view lemmas with the proved per-policy soundness *)
Lemma completion_sound sg pq pes q es ps :
  completion sg pq pes q es ps ->
  forall p, In p ps -> status_sound (peval_policy no_mapping (penv p) pq pes p) (eval_policy_subst sg q es p).
Proof.
  intros [Hv [Hs Hp]] p I. destruct (Hp p I) as [W N].
  apply policy_status_sound; auto. intros n v E; discriminate E.
Qed.

Lemma decision_final sg pq pes q es ps d :
  completion sg pq pes q es ps ->
  pdecision (pitems (is_authorized_partial ps pq pes)) = Some d ->
  rdecision (authorize_with (eval_policy_subst sg q es) ps) = d.
Proof.
  intros C. apply decision_sound. intros p I. apply status_sound_weak. apply (completion_sound _ _ _ _ _ _ C p I).
Qed.

Lemma determining_final sg pq pes q es ps i :
  completion sg pq pes q es ps ->
  (In i (must_be_determining (pitems (is_authorized_partial ps pq pes))) ->
   In i (rreasons (authorize_with (eval_policy_subst sg q es) ps))) /\
  (In i (rreasons (authorize_with (eval_policy_subst sg q es) ps)) ->
   In i (may_be_determining (pitems (is_authorized_partial ps pq pes)))).
Proof.
  intros C. split; [apply must_sound | apply may_sound];
    intros p I; apply status_sound_weak; apply (completion_sound _ _ _ _ _ _ C p I).
Qed.

Lemma definitely_final sg pq pes q es ps i :
  completion sg pq pes q es ps ->
  (In i (definitely_satisfied (pitems (is_authorized_partial ps pq pes))) ->
   exists p, In p ps /\ pid p = i /\ eval_policy_subst sg q es p = Ok true) /\
  (In i (definitely_errored (pitems (is_authorized_partial ps pq pes))) ->
   exists p e, In p ps /\ pid p = i /\ eval_policy_subst sg q es p = Err e) /\
  (In i (trivially_false (pitems (is_authorized_partial ps pq pes))) ->
   exists p, In p ps /\ pid p = i /\ eval_policy_subst sg q es p = Ok false).
Proof.
  intros C. repeat split; [apply satisfied_sound | apply errored_sound | apply false_sound];
    intros p I; apply (completion_sound _ _ _ _ _ _ C p I).
Qed.
