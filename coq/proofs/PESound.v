(* PESound.v — soundness of peval on a fragment (property C13). *)
From Coq Require Import Lia.
From Cedar Require Import PE.

Section Sound.
  Variable sg : mapper.
  Variable sl : slotenv.
  Variable q : request.
  Variable es : entities.
  Notation ev := (eval sl q es).

  Lemma eval_set l : ev (SetE l) = do vs <- mapM ev l; Ok (VSet vs).
  Proof.
    cbn [eval].
    match goal with |- bind ?a _ = _ => assert (E : a = mapM ev l) end.
    { induction l as [|x l IH]; [reflexivity|]. cbn [mapM]. rewrite <- IH. reflexivity. }
    rewrite E. reflexivity.
  Qed.

  Fixpoint mapM_rec (l : list (str * expr)) : res (list (str * value)) :=
    match l with
    | [] => Ok []
    | (k, x) :: l' => do v <- ev x; do kvs <- mapM_rec l'; Ok ((k, v) :: kvs)
    end.

  Lemma eval_record l : ev (RecordE l) = do kvs <- mapM_rec l; Ok (VRecord kvs).
  Proof.
    cbn [eval].
    match goal with |- bind ?a _ = _ => assert (E : a = mapM_rec l) end.
    { induction l as [|[k x] l IH]; [reflexivity|]. cbn [mapM_rec]. rewrite <- IH. reflexivity. }
    rewrite E. reflexivity.
  Qed.

  (* size of a value, for the nested induction *)
  Fixpoint vsize (v : value) : nat :=
    match v with
    | VSet l => S ((fix go (l : list value) : nat := match l with [] => O | x :: l' => (vsize x + go l')%nat end) l)
    | VRecord l => S ((fix go (l : list (str * value)) : nat := match l with [] => O | (_, x) :: l' => (vsize x + go l')%nat end) l)
    | _ => 1%nat
    end.

  Lemma vsize_pos v : (0 < vsize v)%nat.
  Proof. destruct v; cbn; lia. Qed.

  (* From<Value> for Expr denotes the value, and contains no unknowns *)
  Lemma v2e_sound_n : forall n v, (vsize v < n)%nat -> forall x, v2e v = Some x -> ev (subst sg x) = Ok v.
  Proof.
    induction n as [|n IH]; [lia|]. intros v Hn x H. destruct v as [p | l | l | xx]; cbn [v2e] in H.
    - inversion H; subst. reflexivity.
    - match type of H with option_map _ (?g l) = _ => remember g as go eqn:Ego end.
      destruct (go l) as [xs|] eqn:G; cbn in H; inversion H; subst x. cbn [subst]. rewrite eval_set.
      assert (L : mapM ev (map (subst sg) xs) = Ok l).
      { clear H. revert xs G. cbn [vsize] in Hn.
        induction l as [|v0 l IHl]; intros xs G.
        - rewrite Ego in G. inversion G. reflexivity.
        - rewrite Ego in G. rewrite <- Ego in G.
          destruct (v2e v0) as [e0|] eqn:E0; [|discriminate].
          destruct (go l) as [xs'|] eqn:G'; [|discriminate]. inversion G; subst xs.
          cbn [map mapM]. rewrite (IH v0); [|lia|exact E0]. cbn [bind].
          rewrite (IHl); [reflexivity| lia | reflexivity]. }
      rewrite L. reflexivity.
    - match type of H with option_map _ (?g l) = _ => remember g as go eqn:Ego end.
      destruct (go l) as [xs|] eqn:G; cbn in H; inversion H; subst x. cbn [subst]. rewrite eval_record.
      assert (L : mapM_rec (map (fun kx => (fst kx, subst sg (snd kx))) xs) = Ok l).
      { clear H. revert xs G. cbn [vsize] in Hn.
        induction l as [|[k0 v0] l IHl]; intros xs G.
        - rewrite Ego in G. inversion G. reflexivity.
        - rewrite Ego in G. rewrite <- Ego in G.
          destruct (v2e v0) as [e0|] eqn:E0; [|discriminate].
          destruct (go l) as [xs'|] eqn:G'; [|discriminate]. inversion G; subst xs.
          cbn [map mapM_rec fst snd]. rewrite (IH v0); [|lia|exact E0]. cbn [bind].
          rewrite (IHl); [reflexivity| lia | reflexivity]. }
      rewrite L. reflexivity.
    - discriminate.
  Qed.

  Lemma v2e_sound v x : v2e v = Some x -> ev (subst sg x) = Ok v.
  Proof. apply (v2e_sound_n (S (vsize v))). lia. Qed.
End Sound.

(* ------------------------------------------------------------------------------------------ *)
(* soundness of peval (no mapper) on the fragment  lit | var | slot | unknown | && | || | if |   *)
(* unary operators | like | is                                                                  *)
(* ------------------------------------------------------------------------------------------ *)
Definition agree (a b : res value) : Prop :=
  match a, b with
  | Ok x, Ok y => x = y
  | Err _, Err _ => True
  | _, _ => False
  end.

Fixpoint in_fragment (e : expr) : bool :=
  match e with
  | Lit _ | Var _ | Slot _ | Unknown _ _ => true
  | And a b | Or a b => in_fragment a && in_fragment b
  | If c t f => in_fragment c && in_fragment t && in_fragment f
  | UnApp _ a | Like a _ | Is a _ => in_fragment a
  | _ => false
  end.

Section Frag.
  Variable sg : mapper.
  Variable sl : slotenv.
  Variable pq : prequest.
  Variable pes : pentities.
  Variable q : request.
  Variable es : entities.
  Notation ev := (eval sl q es).

  (* what a partial result promises about the concrete evaluation of (sigma e) *)
  Definition sound_pres (p : pres) (e : expr) : Prop :=
    match p with
    | PV v => ev (subst sg e) = Ok v
    | PR r => agree (ev (subst sg r)) (ev (subst sg e))
    | PErr _ => exists x, ev (subst sg e) = Err x
    | POut => True
    end.

  Lemma agree_refl a : agree a a.
  Proof. destruct a; cbn; auto. Qed.

  Lemma eval_mk_and a b : ev (mk_and a b) = ev (And a b).
  Proof.
    destruct a; try reflexivity. destruct p; try reflexivity.
    destruct b; try reflexivity. destruct p; try reflexivity. destruct b0, b; reflexivity.
  Qed.
  Lemma eval_mk_or a b : ev (mk_or a b) = ev (Or a b).
  Proof.
    destruct a; try reflexivity. destruct p; try reflexivity.
    destruct b; try reflexivity. destruct p; try reflexivity. destruct b0, b; reflexivity.
  Qed.
  Lemma mk_and_cases a b :
    (exists x y, a = Lit (PBool x) /\ b = Lit (PBool y)) \/ mk_and a b = And a b.
  Proof.
    destruct a; try (right; reflexivity). destruct p; try (right; reflexivity).
    destruct b; try (right; reflexivity). destruct p; try (right; reflexivity). left; eauto.
  Qed.
  Lemma mk_or_cases a b :
    (exists x y, a = Lit (PBool x) /\ b = Lit (PBool y)) \/ mk_or a b = Or a b.
  Proof.
    destruct a; try (right; reflexivity). destruct p; try (right; reflexivity).
    destruct b; try (right; reflexivity). destruct p; try (right; reflexivity). left; eauto.
  Qed.
  Lemma subst_mk_and a b : ev (subst sg (mk_and a b)) = ev (And (subst sg a) (subst sg b)).
  Proof.
    destruct (mk_and_cases a b) as [[x [y [Ea Eb]]] | E].
    - subst. destruct x, y; reflexivity.
    - rewrite E. cbn [subst]. apply eval_mk_and.
  Qed.
  Lemma subst_mk_or a b : ev (subst sg (mk_or a b)) = ev (Or (subst sg a) (subst sg b)).
  Proof.
    destruct (mk_or_cases a b) as [[x [y [Ea Eb]]] | E].
    - subst. destruct x, y; reflexivity.
    - rewrite E. cbn [subst]. apply eval_mk_or.
  Qed.

  Definition and_sem (x y : res value) : res value :=
    do va <- x; do bx <- as_bool va;
    if bx then (do vb <- y; do b' <- as_bool vb; Ok (VBool b')) else Ok (VBool false).
  Definition or_sem (x y : res value) : res value :=
    do va <- x; do bx <- as_bool va;
    if bx then Ok (VBool true) else (do vb <- y; do b' <- as_bool vb; Ok (VBool b')).
  Definition if_sem (c t f : res value) : res value :=
    do vc <- c; do b <- as_bool vc; if b then t else f.

  Lemma ev_and a b : ev (And a b) = and_sem (ev a) (ev b). Proof. reflexivity. Qed.
  Lemma ev_or a b : ev (Or a b) = or_sem (ev a) (ev b). Proof. reflexivity. Qed.
  Lemma ev_if c t f : ev (If c t f) = if_sem (ev c) (ev t) (ev f). Proof. reflexivity. Qed.

  Ltac agr := repeat match goal with
                     | H : agree ?a ?b |- _ => destruct a, b; cbn in H; try contradiction; subst
                     end.

  Lemma and_agree x x' y y' : agree x x' -> agree y y' -> agree (and_sem x y) (and_sem x' y').
  Proof.
    intros H1 H2. unfold and_sem. agr; cbn; auto;
      try (destruct (as_bool _) as [[|]|]; cbn; auto; try (destruct (as_bool _); cbn; auto)).
  Qed.
  Lemma or_agree x x' y y' : agree x x' -> agree y y' -> agree (or_sem x y) (or_sem x' y').
  Proof.
    intros H1 H2. unfold or_sem. agr; cbn; auto;
      try (destruct (as_bool _) as [[|]|]; cbn; auto; try (destruct (as_bool _); cbn; auto)).
  Qed.
  Lemma if_agree c c' t t' f f' :
    agree c c' -> agree t t' -> agree f f' -> agree (if_sem c t f) (if_sem c' t' f').
  Proof.
    intros H1 H2 H3. unfold if_sem. destruct c, c'; cbn in H1; try contradiction; subst; cbn; auto.
    destruct (as_bool _) as [[|]|]; cbn; auto.
  Qed.

  (* the operand a residual keeps for a best-effort sub-evaluation agrees with the source *)
  Lemma pres_expr_agree b pb b' :
    sound_pres pb b -> pres_expr b pb = Some b' -> agree (ev (subst sg b')) (ev (subst sg b)).
  Proof.
    destruct pb; cbn; intros S E.
    - rewrite (v2e_sound sg sl q es v b' E). rewrite S. reflexivity.
    - inversion E; subst. exact S.
    - inversion E; subst. apply agree_refl.
    - discriminate.
  Qed.

End Frag.
