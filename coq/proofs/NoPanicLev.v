(* NoPanicLev.v — C20: the matrix code of fuzzy_match.rs levenshtein_distance (NoPanic.levenshtein, index level, with
   checked accesses) computes the Wagner-Fischer recurrence `lev_rec` over prefixes of the two words: a refinement of the
   imperative loops to the textbook recursive definition, for all words. *)
From Coq Require Import String Lia.
From Cedar Require Import NoPanic NoPanicProofs.

(* distance between the first i chars of w1 and the first j chars of w2 *)
Fixpoint lev_rec (w1 w2 : str) (j : nat) : nat -> N :=
  match j with
  | O => fun i => N.of_nat i
  | S j' => fix row (i : nat) : N :=
      match i with
      | O => N.of_nat (S j')
      | S i' => match nth_error w1 i', nth_error w2 j' with
                | Some c1, Some c2 =>
                    if N.eqb c1 c2 then lev_rec w1 w2 j' i'
                    else (1 + N.min (N.min (row i') (lev_rec w1 w2 j' (S i'))) (lev_rec w1 w2 j' i'))%N
                | _, _ => 0%N
                end
      end
  end.

Lemma lev_rec_0 w1 w2 i : lev_rec w1 w2 0 i = N.of_nat i.
Proof. reflexivity. Qed.
Lemma lev_rec_S0 w1 w2 j : lev_rec w1 w2 (S j) 0 = N.of_nat (S j).
Proof. reflexivity. Qed.
Lemma lev_rec_SS w1 w2 j i c1 c2 : nth_error w1 i = Some c1 -> nth_error w2 j = Some c2 ->
  lev_rec w1 w2 (S j) (S i) =
  if N.eqb c1 c2 then lev_rec w1 w2 j i
  else (1 + N.min (N.min (lev_rec w1 w2 (S j) i) (lev_rec w1 w2 j (S i))) (lev_rec w1 w2 j i))%N.
Proof. intros H1 H2. cbn [lev_rec]. rewrite H1, H2. reflexivity. Qed.

(* ------------------------------------------------------------------ indexed store *)
Lemma nth_error_firstn_lt {A} : forall (l : list A) i k, (k < i)%nat -> nth_error (firstn i l) k = nth_error l k.
Proof.
  induction l as [|a l IH]; intros i k H; destruct i; try lia; cbn [firstn]; [destruct k; reflexivity|].
  destruct k; cbn [nth_error]; [reflexivity|]. apply IH. lia.
Qed.

Lemma nth_error_skipn_add {A} : forall (l : list A) i k, nth_error (skipn i l) k = nth_error l (i + k).
Proof.
  induction l as [|a l IH]; intros i k; destruct i; cbn [skipn plus]; try reflexivity.
  - destruct k; reflexivity.
  - cbn [nth_error]. apply IH.
Qed.

Lemma nth_error_upd {A} (l : list A) i v k : (i < List.length l)%nat ->
  nth_error (firstn i l ++ v :: skipn (S i) l) k = if Nat.eqb k i then Some v else nth_error l k.
Proof.
  intros Hi. assert (List.length (firstn i l) = i) as Hf by (rewrite firstn_length; lia).
  destruct (Nat.eqb_spec k i) as [->|Hne].
  - rewrite nth_error_app2 by lia. rewrite Hf, Nat.sub_diag. reflexivity.
  - destruct (Nat.lt_ge_cases k i) as [Hlt|Hge].
    + rewrite nth_error_app1 by lia. apply nth_error_firstn_lt. exact Hlt.
    + rewrite nth_error_app2 by lia. rewrite Hf.
      destruct (k - i)%nat as [|d] eqn:Ed; [lia|]. cbn [nth_error].
      rewrite nth_error_skipn_add. f_equal. lia.
Qed.

Lemma upd_spec {A} (l : list A) i v site l' : upd l i v site = POk l' ->
  forall k, nth_error l' k = if Nat.eqb k i then Some v else nth_error l k.
Proof.
  unfold upd. destruct (Nat.ltb_spec i (List.length l)) as [Hi|]; [|discriminate].
  intros H k. assert (l' = firstn i l ++ v :: skipn (S i) l) as -> by congruence.
  apply nth_error_upd. exact Hi.
Qed.

Lemma get2_set2 l2 l1 m j i v m' j' i' :
  dims l2 l1 m -> (j < l2)%nat -> (i < l1)%nat -> set2 m j i v = POk m' ->
  get2 m' j' i' = if Nat.eqb j' j && Nat.eqb i' i then POk v else get2 m j' i'.
Proof.
  intros [Hl Hr] Hj Hi H. unfold set2 in H.
  destruct (idx_ok m j "levenshtein: matrix row") as [row [E Hn]]; [lia|]. rewrite E in H. cbn [pbind] in H.
  destruct (upd row i v "levenshtein: matrix column") as [row'|] eqn:U1; [|discriminate]. cbn [pbind] in H.
  pose proof (upd_spec _ _ _ _ _ U1) as S1. pose proof (upd_spec _ _ _ _ _ H) as S2.
  unfold get2, idx. rewrite S2.
  destruct (Nat.eqb_spec j' j) as [->|Hne]; cbn [andb pbind].
  - rewrite S1. destruct (Nat.eqb_spec i' i) as [->|Hne]; [reflexivity|].
    rewrite Hn. cbn [pbind]. reflexivity.
  - reflexivity.
Qed.

(* `for k in a..a+n` with an invariant indexed by the loop counter *)
Lemma pfold_seq_inv {S} (P : nat -> S -> Prop) (f : S -> nat -> pres S) : forall n a s,
  P a s ->
  (forall k s0, (a <= k < a + n)%nat -> P k s0 -> exists s', f s0 k = POk s' /\ P (Datatypes.S k) s') ->
  exists s', pfold f (seq a n) s = POk s' /\ P (a + n)%nat s'.
Proof.
  induction n as [|n IH]; intros a s H0 Hstep; cbn [seq pfold].
  - exists s. split; [reflexivity|]. replace (a + 0)%nat with a by lia. exact H0.
  - destruct (Hstep a s) as [s1 [E1 P1]]; [lia|exact H0|]. rewrite E1. cbn [pbind].
    destruct (IH (Datatypes.S a) s1 P1) as [s' [E' P']].
    { intros k s0 Hk. apply Hstep. lia. }
    exists s'. split; [exact E'|]. replace (a + Datatypes.S n)%nat with (Datatypes.S a + n)%nat by lia. exact P'.
Qed.

Lemma nth_error_repeat_lt {A} (x : A) : forall n k, (k < n)%nat -> nth_error (repeat x n) k = Some x.
Proof. induction n as [|n IH]; intros k H; [lia|]. destruct k; cbn; [reflexivity|apply IH; lia]. Qed.

Lemma get2_zero l2 l1 j i : (j < l2)%nat -> (i < l1)%nat -> get2 (repeat (repeat 0%N l1) l2) j i = POk 0%N.
Proof.
  intros Hj Hi. unfold get2, idx. rewrite nth_error_repeat_lt by exact Hj. cbn [pbind].
  rewrite nth_error_repeat_lt by exact Hi. reflexivity.
Qed.

Section Lev.
  Variables w1 w2 : str.
  Let l1 := S (List.length w1).
  Let l2 := S (List.length w2).
  Notation D := (lev_rec w1 w2).
  Ltac ll := unfold l1, l2 in *; lia.

  (* phase 1: row 0 *)
  Definition P1 (k : nat) (m : matrix) : Prop :=
    dims l2 l1 m /\ forall i', (i' < k)%nat -> (i' < l1)%nat -> get2 m 0 i' = POk (D 0 i').

  Lemma phase1 : exists m1, pfold (fun m i => set2 m 0 i (N.of_nat i)) (range1 l1) (repeat (repeat 0%N l1) l2) = POk m1
                            /\ P1 l1 m1.
  Proof.
    unfold range1.
    destruct (pfold_seq_inv P1 (fun m i => set2 m 0 i (N.of_nat i)) (l1 - 1) 1 (repeat (repeat 0%N l1) l2)) as [m1 [E H]].
    - split; [apply dims_init|]. intros i' H1 H2. assert (i' = 0)%nat as -> by lia.
      rewrite get2_zero by (ll). reflexivity.
    - intros k m Hk [Hd Hrow].
      destruct (set2_ok l2 l1 m 0 k (N.of_nat k) Hd) as [m' [E' Hd']]; [ll|lia|].
      exists m'. split; [exact E'|]. split; [exact Hd'|].
      intros i' H1 H2. rewrite (get2_set2 l2 l1 m 0 k _ m' 0 i' Hd) by (try exact E'; ll).
      cbn [Nat.eqb andb]. destruct (Nat.eqb_spec i' k) as [->|Hne]; [reflexivity|]. apply Hrow; lia.
    - exists m1. split; [exact E|]. replace l1 with (1 + (l1 - 1))%nat at 1 by (ll). exact H.
  Qed.

  (* phase 2: column 0 *)
  Definition P2 (k : nat) (m : matrix) : Prop :=
    dims l2 l1 m /\ (forall i', (i' < l1)%nat -> get2 m 0 i' = POk (D 0 i')) /\
    forall j', (j' < k)%nat -> (j' < l2)%nat -> get2 m j' 0 = POk (D j' 0).

  Lemma D_col0 j : D j 0 = N.of_nat j.
  Proof. destruct j; reflexivity. Qed.

  Lemma phase2 m1 : P1 l1 m1 ->
    exists m2, pfold (fun m j => set2 m j 0 (N.of_nat j)) (range1 l2) m1 = POk m2 /\ P2 l2 m2.
  Proof.
    intros [Hd1 Hrow1]. unfold range1.
    destruct (pfold_seq_inv P2 (fun m j => set2 m j 0 (N.of_nat j)) (l2 - 1) 1 m1) as [m2 [E H]].
    - split; [exact Hd1|]. split; [intros i' Hi; apply Hrow1; lia|].
      intros j' H1 H2. assert (j' = 0)%nat as -> by lia. apply Hrow1; ll.
    - intros k m Hk [Hd [Hrow Hcol]].
      destruct (set2_ok l2 l1 m k 0 (N.of_nat k) Hd) as [m' [E' Hd']]; [lia|ll|].
      exists m'. split; [exact E'|]. split; [exact Hd'|]. split.
      + intros i' Hi. rewrite (get2_set2 l2 l1 m k 0 _ m' 0 i' Hd) by (try exact E'; ll).
        destruct (Nat.eqb_spec 0 k) as [Hz|Hz]; [lia|]. cbn [andb]. apply Hrow. exact Hi.
      + intros j' H1 H2. rewrite (get2_set2 l2 l1 m k 0 _ m' j' 0 Hd) by (try exact E'; ll).
        cbn [Nat.eqb]. destruct (Nat.eqb_spec j' k) as [->|Hne]; cbn [andb]; [rewrite D_col0; reflexivity|].
        apply Hcol; lia.
    - exists m2. split; [exact E|]. replace l2 with (1 + (l2 - 1))%nat at 1 by (ll). exact H.
  Qed.

  (* phase 3: the double loop *)
  Definition P3 (j : nat) (m : matrix) : Prop :=
    dims l2 l1 m /\
    (forall j' i', (j' < j)%nat -> (j' < l2)%nat -> (i' < l1)%nat -> get2 m j' i' = POk (D j' i')) /\
    (forall j', (j' < l2)%nat -> get2 m j' 0 = POk (D j' 0)).

  Definition Q3 (j i : nat) (m : matrix) : Prop :=
    P3 j m /\ forall i', (i' < i)%nat -> (i' < l1)%nat -> get2 m j i' = POk (D j i').

  Lemma cell_step j i m : (1 <= j < l2)%nat -> (1 <= i < l1)%nat -> Q3 j i m ->
    exists m', lev_cell w1 w2 j m i = POk m' /\ Q3 j (S i) m'.
  Proof.
    intros Hj Hi [[Hd [Hrows Hcol]] Hrow].
    destruct j as [|j0]; [lia|]. destruct i as [|i0]; [lia|].
    unfold lev_cell. rewrite (psub_ok (S i0) 1) by lia. cbn [pbind]. rewrite (psub_ok (S j0) 1) by lia. cbn [pbind].
    replace (S i0 - 1)%nat with i0 by lia. replace (S j0 - 1)%nat with j0 by lia.
    destruct (idx_ok w1 i0 "levenshtein: w1[i - 1]") as [c1 [Ec1 N1]]; [ll|]. rewrite Ec1. cbn [pbind].
    destruct (idx_ok w2 j0 "levenshtein: w2[j - 1]") as [c2 [Ec2 N2]]; [ll|]. rewrite Ec2. cbn [pbind].
    rewrite (Hrows j0 i0) by lia. rewrite (Hrow i0) by lia. rewrite (Hrows j0 (S i0)) by lia.
    set (x := if N.eqb c1 c2 then D j0 i0 else (1 + N.min (N.min (D (S j0) i0) (D j0 (S i0))) (D j0 i0))%N).
    assert ((if N.eqb c1 c2 then POk (D j0 i0)
             else pdo a <- POk (D (S j0) i0); pdo b <- POk (D j0 (S i0)); pdo c <- POk (D j0 i0);
                  POk (1 + N.min (N.min a b) c)%N) = POk x) as Hx by (subst x; destruct (N.eqb c1 c2); reflexivity).
    rewrite Hx. cbn [pbind].
    destruct (set2_ok l2 l1 m (S j0) (S i0) x Hd) as [m' [E' Hd']]; [lia|lia|].
    exists m'. split; [exact E'|].
    assert (forall j' i', get2 m' j' i' = if Nat.eqb j' (S j0) && Nat.eqb i' (S i0) then POk x else get2 m j' i') as G.
    { intros j' i'. apply (get2_set2 l2 l1 m (S j0) (S i0) x m' j' i' Hd); [lia|lia|exact E']. }
    split; [split; [exact Hd'|split]|].
    - intros j' i' H1 H2 H3. rewrite G. destruct (Nat.eqb_spec j' (S j0)); [lia|]. cbn [andb]. apply Hrows; assumption.
    - intros j' H2. rewrite G. cbn [Nat.eqb]. rewrite Bool.andb_false_r. apply Hcol. exact H2.
    - intros i' H1 H2. rewrite G. rewrite Nat.eqb_refl. cbn [andb].
      destruct (Nat.eqb_spec i' (S i0)) as [->|Hne].
      + f_equal. subst x. symmetry. apply lev_rec_SS; assumption.
      + apply Hrow; lia.
  Qed.

  Lemma row_step j m : (1 <= j < l2)%nat -> P3 j m ->
    exists m', pfold (lev_cell w1 w2 j) (range1 l1) m = POk m' /\ P3 (S j) m'.
  Proof.
    intros Hj HP. unfold range1.
    destruct (pfold_seq_inv (Q3 j) (lev_cell w1 w2 j) (l1 - 1) 1 m) as [m' [E [HP' Hrow]]].
    - split; [exact HP|]. intros i' H1 H2. assert (i' = 0)%nat as -> by lia.
      destruct HP as [_ [_ Hcol]]. apply Hcol. lia.
    - intros k m0 Hk HQ. apply cell_step; [exact Hj|lia|exact HQ].
    - exists m'. split; [exact E|]. destruct HP' as [Hd [Hrows Hcol]].
      split; [exact Hd|]. split; [|exact Hcol].
      intros j' i' H1 H2 H3. destruct (Nat.eq_dec j' j) as [->|Hne].
      + apply Hrow; [ll|exact H3].
      + apply Hrows; lia.
  Qed.

  Theorem levenshtein_refines : levenshtein w1 w2 = POk (D (List.length w2) (List.length w1)).
  Proof.
    unfold levenshtein. fold l1 l2.
    destruct phase1 as [m1 [E1 H1]]. rewrite E1. cbn [pbind].
    destruct (phase2 m1 H1) as [m2 [E2 [Hd2 [Hrow2 Hcol2]]]]. rewrite E2. cbn [pbind].
    destruct (pfold_seq_inv P3 (fun m j => pfold (lev_cell w1 w2 j) (range1 l1) m) (l2 - 1) 1 m2) as [m3 [E3 H3]].
    - split; [exact Hd2|]. split; [|intros j' Hj'; apply Hcol2; lia].
      intros j' i' Ha Hb Hc. assert (j' = 0)%nat as -> by lia. apply Hrow2. exact Hc.
    - intros k m Hk HP. apply row_step; [lia|exact HP].
    - change (range1 l2) with (seq 1 (l2 - 1)). rewrite E3. cbn [pbind].
      rewrite (psub_ok l2 1) by (ll). cbn [pbind]. rewrite (psub_ok l1 1) by (ll). cbn [pbind].
      destruct H3 as [_ [Hrows _]]. replace (1 + (l2 - 1))%nat with l2 in Hrows by (ll).
      rewrite Hrows by (ll). unfold l1, l2. f_equal. f_equal; lia.
  Qed.
End Lev.

(* sanity of the specification: a word is at distance 0 from itself *)
Lemma lev_rec_diag w : forall n, (n <= List.length w)%nat -> lev_rec w w n n = 0%N.
Proof.
  induction n as [|n IH]; intros H; [reflexivity|].
  destruct (nth_error w n) as [c|] eqn:E; [|apply nth_error_None in E; lia].
  rewrite (lev_rec_SS w w n n c c E E). rewrite N.eqb_refl. apply IH. lia.
Qed.

Theorem levenshtein_self : forall w, levenshtein w w = POk 0%N.
Proof. intros w. rewrite levenshtein_refines. f_equal. apply lev_rec_diag. lia. Qed.

(* ... and at distance |w| from the empty word *)
Theorem levenshtein_empty_r : forall w, levenshtein w [] = POk (N.of_nat (List.length w)).
Proof. intros w. rewrite levenshtein_refines. reflexivity. Qed.
