(* ExtIpProofs.v — C07: isInRange <-> range inclusion; loopback / multicast as inclusions *)
From Coq Require Import Lia ZArith NArith List Bool.
From Cedar Require Import ExtParse.
Import ListNotations.
Open Scope N_scope.

(* ------------------------------------------------------------------ bits *)
Lemma ones_bit k n : N.testbit (N.ones k) n = (n <? k).
Proof.
  destruct (N.ltb_spec n k); [apply N.ones_spec_low | apply N.ones_spec_high]; assumption.
Qed.

Lemma small_bit a w n : a < 2 ^ w -> w <= n -> N.testbit a n = false.
Proof.
  intros Ha Hn. apply N.testbit_false. rewrite N.div_small; [reflexivity|].
  eapply N.lt_le_trans; [exact Ha|]. apply N.pow_le_mono_r; lia.
Qed.

Lemma pow2_pos n : 0 < 2 ^ n.
Proof. apply N.neq_0_lt_0. apply N.pow_nonzero. lia. Qed.

Lemma ip_max_ones v6 : ip_max v6 = N.ones (ip_width v6).
Proof. unfold ip_max. rewrite N.ones_equiv, N.pred_sub. reflexivity. Qed.

Lemma width_pos v6 : 0 < ip_width v6.
Proof. destruct v6; reflexivity. Qed.

(* network address: addr with the host bits cleared = (addr / 2^sh) * 2^sh *)
Lemma net_formula v6 addr p :
  addr < 2 ^ ip_width v6 -> p <= ip_width v6 ->
  N.land addr (netmask v6 p) = (addr / 2 ^ (ip_width v6 - p)) * 2 ^ (ip_width v6 - p).
Proof.
  intros Ha Hp. set (w := ip_width v6) in *. set (sh := w - p).
  assert (E : N.land addr (netmask v6 p) = N.ldiff addr (N.ones sh)).
  { unfold netmask. fold w. fold sh. rewrite ip_max_ones. fold w.
    destruct (N.leb_spec w sh) as [L|L].
    - (* p = 0 *) assert (sh = w) by lia. rewrite N.land_0_r. symmetry.
      rewrite N.ldiff_ones_r, N.shiftr_div_pow2, N.shiftl_mul_pow2. rewrite H, N.div_small by assumption. reflexivity.
    - apply N.bits_inj. intros n. rewrite !N.land_spec, N.ldiff_spec, !ones_bit.
      destruct (N.ltb_spec n sh) as [A|A].
      + rewrite N.shiftl_spec_low by assumption. cbn. rewrite andb_false_r. reflexivity.
      + rewrite N.shiftl_spec_high' by assumption. rewrite ones_bit.
        destruct (N.ltb_spec n w) as [B|B].
        * replace (n - sh <? w) with true by (symmetry; apply N.ltb_lt; lia). cbn. rewrite andb_true_r. reflexivity.
        * rewrite (small_bit addr w n Ha B). reflexivity. }
  rewrite E, N.ldiff_ones_r, N.shiftr_div_pow2, N.shiftl_mul_pow2. reflexivity.
Qed.

(* broadcast address: addr with the host bits set *)
Lemma bc_formula v6 addr p :
  p <= ip_width v6 ->
  N.lor addr (hostmask v6 p) =
  (addr / 2 ^ (ip_width v6 - p)) * 2 ^ (ip_width v6 - p) + (2 ^ (ip_width v6 - p) - 1).
Proof.
  intros Hp. set (w := ip_width v6) in *. set (sh := w - p).
  assert (H : hostmask v6 p = N.ones sh).
  { unfold hostmask. fold w. rewrite ip_max_ones. fold w.
    destruct (N.leb_spec w p) as [L|L].
    - assert (sh = 0) by lia. rewrite H. reflexivity.
    - rewrite N.shiftr_div_pow2, N.ones_div_pow2 by lia. reflexivity. }
  rewrite H.
  assert (E : N.lor addr (N.ones sh) = N.lor (N.ldiff addr (N.ones sh)) (N.ones sh)).
  { apply N.bits_inj. intros n. rewrite !N.lor_spec, N.ldiff_spec.
    destruct (N.testbit addr n), (N.testbit (N.ones sh) n); reflexivity. }
  rewrite E.
  assert (D : N.land (N.ldiff addr (N.ones sh)) (N.ones sh) = 0).
  { apply N.bits_inj. intros n. rewrite N.land_spec, N.ldiff_spec, N.bits_0.
    destruct (N.testbit addr n), (N.testbit (N.ones sh) n); reflexivity. }
  rewrite <- (N.lxor_lor _ _ D), <- (N.add_nocarry_lxor _ _ D).
  rewrite N.ldiff_ones_r, N.shiftr_div_pow2, N.shiftl_mul_pow2, N.ones_equiv, N.pred_sub. reflexivity.
Qed.

(* ------------------------------------------------------------------ ranges *)
Definition ip_wf (a : ipaddr) : Prop :=
  ip_addr a < 2 ^ ip_width (ip_v6 a) /\ ip_prefix a <= ip_width (ip_v6 a).

(* x is an address of a's family sharing the first `prefix` bits with a's address *)
Definition in_ip_range (a : ipaddr) (x : N) : Prop :=
  x < 2 ^ ip_width (ip_v6 a) /\
  x / 2 ^ (ip_width (ip_v6 a) - ip_prefix a) = ip_addr a / 2 ^ (ip_width (ip_v6 a) - ip_prefix a).

Lemma div_eq_iff x A q : 0 < A -> (x / A = q <-> q * A <= x < q * A + A).
Proof.
  intros HA. split.
  - intros <-. pose proof (N.mul_div_le x A ltac:(lia)). pose proof (N.mul_succ_div_gt x A ltac:(lia)). lia.
  - intros [L U]. symmetry. apply N.div_unique with (r := x - q * A); lia.
Qed.

Lemma range_block_fits w p addr :
  p <= w -> addr < 2 ^ w ->
  (addr / 2 ^ (w - p)) * 2 ^ (w - p) + 2 ^ (w - p) <= 2 ^ w.
Proof.
  intros Hp Ha. set (A := 2 ^ (w - p)).
  assert (PA : 2 ^ w = 2 ^ p * A) by (unfold A; rewrite <- N.pow_add_r; f_equal; lia).
  assert (HA : 0 < A) by apply pow2_pos.
  assert (Q : addr / A < 2 ^ p) by (apply N.div_lt_upper_bound; [lia|]; rewrite N.mul_comm, <- PA; exact Ha).
  rewrite PA. replace (addr / A * A + A) with ((addr / A + 1) * A) by lia.
  apply N.mul_le_mono_r. lia.
Qed.

Theorem ip_in_range_iff a b :
  ip_wf a -> ip_wf b ->
  (ip_is_in_range a b = true <->
   ip_v6 a = ip_v6 b /\ forall x, in_ip_range a x -> in_ip_range b x).
Proof.
  intros [Wa Pa] [Wb Pb]. unfold ip_is_in_range.
  destruct (Bool.eqb (ip_v6 a) (ip_v6 b)) eqn:F.
  2: { split; [discriminate|]. intros [E _]. rewrite E, eqb_reflx in F. discriminate. }
  apply eqb_prop in F. unfold in_ip_range. rewrite <- F in *.
  set (w := ip_width (ip_v6 a)) in *.
  rewrite (net_formula _ _ _ Wa Pa), (net_formula _ _ _ Wb Pb), (bc_formula _ (ip_addr a) _ Pa), (bc_formula _ (ip_addr b) _ Pb).
  fold w. set (A := 2 ^ (w - ip_prefix a)). set (B := 2 ^ (w - ip_prefix b)).
  set (qa := ip_addr a / A). set (qb := ip_addr b / B).
  assert (HA : 0 < A) by apply pow2_pos. assert (HB : 0 < B) by apply pow2_pos.
  pose proof (range_block_fits w (ip_prefix a) (ip_addr a) Pa Wa) as Fa. fold A qa in Fa.
  rewrite andb_true_iff, !N.leb_le.
  split.
  - intros [L U]. split; [reflexivity|]. intros x [Hx Ex]. split; [exact Hx|].
    apply (div_eq_iff x A qa HA) in Ex. apply (div_eq_iff x B qb HB). lia.
  - intros [_ H]. 
    assert (I1 : qa * A < 2 ^ w /\ qa * A / A = qa).
    { split; [lia|]. apply (div_eq_iff _ A qa HA). lia. }
    assert (I2 : qa * A + (A - 1) < 2 ^ w /\ (qa * A + (A - 1)) / A = qa).
    { split; [lia|]. apply (div_eq_iff _ A qa HA). lia. }
    destruct (H _ I1) as [_ E1]. destruct (H _ I2) as [_ E2].
    apply (div_eq_iff _ B qb HB) in E1. apply (div_eq_iff _ B qb HB) in E2. lia.
Qed.

(* in range of an aligned block  k * 2^sh / pb  <->  prefix at least pb and the first pb bits are k *)
Lemma in_aligned_range a k pb :
  ip_wf a -> pb <= ip_width (ip_v6 a) -> k < 2 ^ pb ->
  ip_is_in_range a (mkIp (ip_v6 a) (k * 2 ^ (ip_width (ip_v6 a) - pb)) pb) =
  (pb <=? ip_prefix a) && (ip_addr a / 2 ^ (ip_width (ip_v6 a) - pb) =? k).
Proof.
  intros [Wa Pa] Pb Hk. unfold ip_is_in_range. cbn [ip_v6 ip_addr ip_prefix]. rewrite eqb_reflx.
  set (w := ip_width (ip_v6 a)) in *.
  assert (Wb : k * 2 ^ (w - pb) < 2 ^ w).
  { replace (2 ^ w) with (2 ^ pb * 2 ^ (w - pb)) by (rewrite <- N.pow_add_r; f_equal; lia).
    apply N.mul_lt_mono_pos_r; [apply pow2_pos|exact Hk]. }
  rewrite (net_formula _ _ _ Wa Pa), (net_formula _ _ _ Wb Pb), (bc_formula _ (ip_addr a) _ Pa), (bc_formula _ _ _ Pb).
  fold w. set (A := 2 ^ (w - ip_prefix a)). set (B := 2 ^ (w - pb)).
  assert (HA : 0 < A) by apply pow2_pos. assert (HB : 0 < B) by apply pow2_pos.
  rewrite (N.div_mul k B) by lia.
  set (qa := ip_addr a / A).
  pose proof (N.mul_div_le (ip_addr a) A ltac:(lia)) as L1.
  pose proof (N.mul_succ_div_gt (ip_addr a) A ltac:(lia)) as L2. fold qa in L1, L2.
  apply eq_true_iff_eq. rewrite !andb_true_iff, !N.leb_le, N.eqb_eq. split.
  - intros [L U]. assert (AB : A <= B) by lia.
    split.
    + unfold A, B in AB. apply N.pow_le_mono_r_iff in AB; lia.
    + apply (div_eq_iff _ B k HB). lia.
  - intros [Pp E]. apply (div_eq_iff _ B k HB) in E.
    assert (BD : B = 2 ^ (ip_prefix a - pb) * A) by (unfold A, B; rewrite <- N.pow_add_r; f_equal; lia).
    set (D := 2 ^ (ip_prefix a - pb)) in *.
    assert (Q1 : k * D <= qa).
    { unfold qa. apply N.div_le_lower_bound; [lia|]. rewrite BD in E. lia. }
    assert (Q2 : qa < (k + 1) * D).
    { unfold qa. apply N.div_lt_upper_bound; [lia|]. rewrite BD in E. lia. }
    rewrite BD. split.
    + replace (k * (D * A)) with (k * D * A) by lia. apply N.mul_le_mono_r. exact Q1.
    + assert (qa + 1 <= (k + 1) * D) by lia.
      assert ((qa + 1) * A <= (k + 1) * D * A) by (apply N.mul_le_mono_r; assumption).
      lia.
Qed.

Definition loopback_block (v6 : bool) : ipaddr :=
  if v6 then mkIp true 1 128 (* ::1/128 *) else mkIp false 2130706432 8 (* 127.0.0.0/8 *).
Definition multicast_block (v6 : bool) : ipaddr :=
  if v6 then mkIp true 338953138925153547590470800371487866880 8 (* ff00::/8 *)
  else mkIp false 3758096384 4 (* 224.0.0.0/4 *).

Theorem ip_loopback_is_range a : ip_wf a ->
  ip_is_loopback a = ip_is_in_range a (loopback_block (ip_v6 a)).
Proof.
  intros W. unfold ip_is_loopback, loopback_block. destruct a as [v6 addr p]. cbn [ip_v6 ip_addr ip_prefix] in *.
  destruct v6.
  - pose proof (in_aligned_range (mkIp true addr p) 1 128 W) as G. cbn [ip_v6 ip_addr ip_prefix ip_width] in G.
    change (1 * 2 ^ (128 - 128)) with 1 in G. rewrite G by (try reflexivity; lia).
    change (2 ^ (128 - 128)) with 1. rewrite N.div_1_r. apply andb_comm.
  - pose proof (in_aligned_range (mkIp false addr p) 127 8 W) as G. cbn [ip_v6 ip_addr ip_prefix ip_width] in G.
    change (127 * 2 ^ (32 - 8)) with 2130706432 in G. rewrite G by (try reflexivity; lia).
    rewrite N.shiftr_div_pow2. change (32 - 8) with 24. apply andb_comm.
Qed.

Theorem ip_multicast_is_range a : ip_wf a ->
  ip_is_multicast a = ip_is_in_range a (multicast_block (ip_v6 a)).
Proof.
  intros W. unfold ip_is_multicast, multicast_block. destruct a as [v6 addr p]. cbn [ip_v6 ip_addr ip_prefix] in *.
  destruct v6.
  - pose proof (in_aligned_range (mkIp true addr p) 255 8 W) as G. cbn [ip_v6 ip_addr ip_prefix ip_width] in G.
    change (255 * 2 ^ (128 - 8)) with 338953138925153547590470800371487866880 in G.
    rewrite G by (try reflexivity; lia).
    rewrite N.shiftr_div_pow2. change (128 - 8) with 120. apply andb_comm.
  - pose proof (in_aligned_range (mkIp false addr p) 14 4 W) as G. cbn [ip_v6 ip_addr ip_prefix ip_width] in G.
    change (14 * 2 ^ (32 - 4)) with 3758096384 in G. rewrite G by (try reflexivity; lia).
    rewrite N.shiftr_div_pow2. change (32 - 4) with 28.
    rewrite andb_comm. f_equal.
    change (2 ^ 28) with (2 ^ 24 * 16). rewrite <- N.div_div by lia.
    set (o := addr / 2 ^ 24). apply eq_true_iff_eq. rewrite andb_true_iff, !N.leb_le, N.eqb_eq.
    rewrite (div_eq_iff o 16 14) by lia. lia.
Qed.
