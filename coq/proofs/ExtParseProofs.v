(* ExtParseProofs.v — C07 lemmas about coq/model/ExtParse.v *)
From Coq Require Import Lia ZArith NArith List Bool.
From Cedar Require Import ExtParse.
Import ListNotations.
Open Scope list_scope.
Open Scope Z_scope.

(* ------------------------------------------------------------------ generic string lemmas *)
Lemma span_spec p s a b :
  span p s = (a, b) ->
  s = a ++ b /\ forallb p a = true /\ match b with [] => True | c :: _ => p c = false end.
Proof.
  revert a b. induction s as [|c s IH]; intros a b H; cbn in H.
  - inversion H; subst. cbn. auto.
  - destruct (p c) eqn:Hc.
    + destruct (span p s) as [a' b'] eqn:Hs. inversion H; subst.
      destruct (IH a' b eq_refl) as (E & F & G). subst s. cbn. rewrite Hc. auto.
    + inversion H; subst. cbn. rewrite Hc. auto.
Qed.

Lemma span_exact p a b :
  forallb p a = true -> match b with [] => True | c :: _ => p c = false end ->
  span p (a ++ b) = (a, b).
Proof.
  induction a as [|c a IH]; intros Ha Hb; cbn in *.
  - destruct b as [|c b]; [reflexivity|]. cbn. rewrite Hb. reflexivity.
  - apply andb_true_iff in Ha. destruct Ha as [Hc Ha]. rewrite Hc, (IH Ha Hb). reflexivity.
Qed.

Lemma all_ascii_digits_forallb s : all_ascii_digits s = forallb is_ascii_digit s.
Proof. induction s; cbn; congruence. Qed.

Lemma digit_val_range c : is_ascii_digit c = true -> 0 <= digit_val c <= 9.
Proof. unfold is_ascii_digit, digit_val. intros H. apply andb_true_iff in H. destruct H as [A B].
  apply N.leb_le in A. apply N.leb_le in B. lia. Qed.

Lemma fold_digits_nonneg s : forall acc, all_ascii_digits s = true -> 0 <= acc ->
  acc <= fold_left (fun a c => a * 10 + digit_val c) s acc.
Proof.
  induction s as [|c s IH]; intros acc H Hacc; cbn in *; [lia|].
  apply andb_true_iff in H. destruct H as [Hc Hs]. pose proof (digit_val_range c Hc).
  specialize (IH (acc * 10 + digit_val c) Hs). lia.
Qed.

Lemma digits_val_nonneg s : all_ascii_digits s = true -> 0 <= digits_val s.
Proof. intros H. unfold digits_val. apply (fold_digits_nonneg s 0 H). lia. Qed.

Lemma byte_len_ascii_digits s : all_ascii_digits s = true -> byte_len s = Z.of_nat (length s).
Proof.
  induction s as [|c s IH]; intros H; [reflexivity|]. cbn [byte_len length all_ascii_digits] in *.
  apply andb_true_iff in H. destruct H as [Hc Hs]. rewrite (IH Hs).
  unfold is_ascii_digit in Hc. apply andb_true_iff in Hc. destruct Hc as [A B].
  apply N.leb_le in A. apply N.leb_le in B. unfold utf8_len.
  destruct (c <? 128)%N eqn:E; [lia|]. apply N.ltb_ge in E. lia.
Qed.

Lemma utf8_len_pos c : 1 <= utf8_len c.
Proof. unfold utf8_len. repeat match goal with |- context [if ?b then _ else _] => destruct b end; lia. Qed.

Lemma byte_len_ge_length s : Z.of_nat (length s) <= byte_len s.
Proof. induction s as [|c s IH]; cbn [byte_len length]; [lia|]. pose proof (utf8_len_pos c). lia. Qed.

(* ------------------------------------------------------------------ decimal *)
Definition nd_ok (nd : N -> bool) : Prop :=
  forall c, (c <? 128)%N = true -> nd c = is_ascii_digit c.

Lemma is_nd_ok : nd_ok is_nd.
Proof.
  assert (H : forallb (fun n => Bool.eqb (is_nd (N.of_nat n)) (is_ascii_digit (N.of_nat n))) (seq 0 128) = true)
    by (vm_compute; reflexivity).
  intros c Hc. apply N.ltb_lt in Hc. rewrite forallb_forall in H.
  specialize (H (N.to_nat c)). rewrite N2Nat.id in H. apply eqb_prop. apply H.
  apply in_seq. lia.
Qed.

Definition dec_value (neg : bool) (ip fp : str) : Z :=
  (if neg then -1 else 1) *
  (digits_val ip * 10000 + digits_val fp * 10 ^ (4 - Z.of_nat (length fp))).

(* the documented form: optional '-', digits, '.', 1 to 4 digits; exact value; in range *)
Definition dec_spec (s : str) (v : Z) : Prop :=
  exists (neg : bool) (ip fp : str),
    s = (if neg then [45%N] else []) ++ ip ++ 46%N :: fp /\
    ip <> [] /\ fp <> [] /\ all_ascii_digits ip = true /\ all_ascii_digits fp = true /\
    (length fp <= 4)%nat /\ v = dec_value neg ip fp /\ in_i64 v = true.

Lemma parse_i64_digits ds :
  all_ascii_digits ds = true -> ds <> [] ->
  parse_i64 ds = if in_i64 (digits_val ds) then Some (digits_val ds) else None.
Proof.
  intros H Hne. unfold parse_i64.
  destruct ds as [|c r]; [congruence|].
  assert (Hc : is_ascii_digit c = true) by (cbn in H; apply andb_true_iff in H; tauto).
  assert (c <> 45%N /\ c <> 43%N) as [N1 N2].
  { unfold is_ascii_digit in Hc. apply andb_true_iff in Hc. destruct Hc as [A B].
    apply N.leb_le in A. apply N.leb_le in B. lia. }
  destruct c as [|p]; [exfalso; cbn in Hc; discriminate|].
  do 6 (destruct p as [p|p|]; try (exfalso; cbn in Hc; discriminate); try congruence; try (rewrite H; reflexivity)).
Qed.

Lemma parse_i64_neg ds :
  parse_i64 (45%N :: ds) =
  match ds with
  | [] => None
  | _ => if all_ascii_digits ds then (if in_i64 (- digits_val ds) then Some (- digits_val ds) else None) else None
  end.
Proof. reflexivity. Qed.

Lemma parse_i64_some_digits ds v c r :
  ds = c :: r -> c <> 45%N -> c <> 43%N -> parse_i64 ds = Some v ->
  all_ascii_digits ds = true /\ v = digits_val ds /\ in_i64 v = true.
Proof.
  intros -> N1 N2 H. unfold parse_i64 in H.
  destruct c as [|p].
  2: do 6 (try (destruct p as [p|p|]; try congruence)).
  all: cbv beta iota zeta in H;
    match type of H with context [all_ascii_digits ?l] => destruct (all_ascii_digits l) eqn:A; [|discriminate] end;
    match type of H with context [in_i64 ?z] => destruct (in_i64 z) eqn:I; inversion H; subst; auto end.
Qed.

Lemma small_digits fp :
  all_ascii_digits fp = true -> fp <> [] -> (length fp <= 4)%nat ->
  0 <= digits_val fp * 10 ^ (4 - Z.of_nat (length fp)) < 10000 /\ 0 <= digits_val fp < 10000.
Proof.
  intros H Hne Hl.
  destruct fp as [|a [|b [|c [|d [|e r]]]]]; try congruence; cbn in Hl; try lia;
    cbn [all_ascii_digits] in H; repeat rewrite andb_true_iff in H;
    repeat match goal with H : _ /\ _ |- _ => destruct H end;
    repeat match goal with H : is_ascii_digit _ = true |- _ => apply digit_val_range in H end;
    unfold digits_val; cbn [fold_left length]; 
    [ change (10 ^ (4 - Z.of_nat 1)) with 1000 | change (10 ^ (4 - Z.of_nat 2)) with 100
    | change (10 ^ (4 - Z.of_nat 3)) with 10 | change (10 ^ (4 - Z.of_nat 4)) with 1 ]; lia.
Qed.

Ltac bits c tac :=
  destruct c as [|?p]; [tac| do 7 (try (match goal with p : positive |- _ => destruct p as [p|p|] end; tac))].

Lemma nd_ascii nd c : nd_ok nd -> is_ascii_digit c = true -> nd c = true.
Proof.
  intros Hnd H. rewrite Hnd; [exact H|]. unfold is_ascii_digit in H. apply andb_true_iff in H.
  destruct H as [A B]. apply N.leb_le in B. apply N.ltb_lt. lia.
Qed.

Lemma nd_true_not_sign nd c : nd_ok nd -> nd c = true -> c <> 45%N /\ c <> 43%N /\ c <> 46%N.
Proof.
  intros Hnd H. repeat split; intros ->; rewrite Hnd in H by reflexivity; discriminate.
Qed.

Lemma forallb_nd nd s : nd_ok nd -> all_ascii_digits s = true -> forallb nd s = true.
Proof.
  intros Hnd. induction s as [|c s IH]; cbn; [reflexivity|]. intros H. apply andb_true_iff in H.
  destruct H as [A B]. rewrite (nd_ascii nd c Hnd A), (IH B). reflexivity.
Qed.

Lemma span_all p a : forallb p a = true -> span p a = (a, []).
Proof. intros H. rewrite <- (app_nil_r a) at 1. apply span_exact; auto. Qed.

Lemma starts_with_minus_neq c r : c <> 45%N -> starts_with_minus (c :: r) = false.
Proof. intros N. unfold starts_with_minus. bits c ltac:(try reflexivity; try congruence). Qed.

Lemma lead_minus_split (s : str) :
  (exists r, s = 45%N :: r /\ (match s with 45%N :: r => (true, r) | _ => (false, s) end) = (true, r)) \/
  ((match s with 45%N :: r => (true, r) | _ => (false, s) end) = (false, s) /\ forall r, s <> 45%N :: r).
Proof.
  destruct s as [|c r]; [right; split; [reflexivity|congruence]|].
  destruct (N.eq_dec c 45) as [->|N]; [left; eauto|].
  right. split; [|congruence]. bits c ltac:(try reflexivity; try congruence).
Qed.

Theorem decimal_parse_sound nd s v :
  nd_ok nd -> decimal_parse_with nd s = Some v -> dec_spec s v.
Proof.
  intros Hnd H. unfold decimal_parse_with in H.
  destruct (decimal_regex nd s) as [[l_str r_str]|] eqn:R; [|discriminate].
  unfold decimal_regex in R.
  destruct (lead_minus_split s) as [(r0 & Es & Epr)|(Epr & Hnm)]; rewrite Epr in R; clear Epr.
  - (* leading '-' *)
    destruct (span nd r0) as [ds r1] eqn:S1.
    destruct ds as [|d0 ds']; [discriminate|]. destruct r1 as [|c1 r2]; [discriminate|].
    destruct (N.eq_dec c1 46) as [->|N46].
    2: { exfalso. bits c1 ltac:(try discriminate; try congruence). }
    cbv beta iota zeta in R.
    destruct (span nd r2) as [fs r3] eqn:S2.
    destruct fs as [|f0 fs']; [discriminate|]. destruct r3; [|discriminate].
    inversion R; subst l_str r_str; clear R.
    apply span_spec in S1. apply span_spec in S2. destruct S1 as (E1 & F1 & _). destruct S2 as (E2 & F2 & _).
    rewrite app_nil_r in E2. subst r2 r0.
    cbn [forallb] in F2. apply andb_true_iff in F2. destruct F2 as [F2 _].
    destruct (nd_true_not_sign nd f0 Hnd F2) as (Nf1 & Nf2 & _).
    unfold obind in H. rewrite parse_i64_neg in H.
    destruct (all_ascii_digits (d0 :: ds')) eqn:AD; [|discriminate].
    destruct (in_i64 (- digits_val (d0 :: ds'))) eqn:IL; [|discriminate].
    destruct (checked_mul_pow (- digits_val (d0 :: ds')) 4) as [l4|] eqn:ML; [|discriminate].
    destruct (4 <? byte_len (f0 :: fs')) eqn:LEN; [discriminate|].
    destruct (parse_i64 (f0 :: fs')) as [r|] eqn:PR; [|discriminate].
    destruct (parse_i64_some_digits _ _ _ _ eq_refl Nf1 Nf2 PR) as (AF & -> & IR).
    rewrite (byte_len_ascii_digits _ AF) in *. apply Z.ltb_ge in LEN.
    destruct (checked_mul_pow (digits_val (f0 :: fs')) _) as [r4|] eqn:MR; [|discriminate].
    cbn [starts_with_minus] in H.
    destruct (in_i64 (l4 - r4)) eqn:IV; [|discriminate]. inversion H; subst v; clear H.
    unfold checked_mul_pow in ML, MR. change (10 ^ Z.of_nat 4) with 10000 in ML.
    destruct (in_i64 (- digits_val (d0 :: ds') * 10000)); [|discriminate]. inversion ML; subst l4; clear ML.
    rewrite Z2Nat.id in MR by lia.
    set (P := 10 ^ (4 - Z.of_nat (length (f0 :: fs')))) in *.
    destruct (in_i64 _) in MR; [|discriminate]. inversion MR; subst r4; clear MR.
    exists true, (d0 :: ds'), (f0 :: fs'). subst s.
    repeat split; try congruence; try assumption; try lia.
    + unfold dec_value. fold P. lia.
  - (* no leading '-' *)
    destruct (span nd s) as [ds r1] eqn:S1.
    destruct ds as [|d0 ds']; [discriminate|]. destruct r1 as [|c1 r2]; [discriminate|].
    destruct (N.eq_dec c1 46) as [->|N46].
    2: { exfalso. bits c1 ltac:(try discriminate; try congruence). }
    cbv beta iota zeta in R.
    destruct (span nd r2) as [fs r3] eqn:S2.
    destruct fs as [|f0 fs']; [discriminate|]. destruct r3; [|discriminate].
    inversion R; subst l_str r_str; clear R.
    apply span_spec in S1. apply span_spec in S2. destruct S1 as (E1 & F1 & _). destruct S2 as (E2 & F2 & _).
    rewrite app_nil_r in E2. subst r2.
    cbn [forallb] in F1, F2. apply andb_true_iff in F1. destruct F1 as [F1 _].
    apply andb_true_iff in F2. destruct F2 as [F2 _].
    destruct (nd_true_not_sign nd f0 Hnd F2) as (Nf1 & Nf2 & _).
    destruct (nd_true_not_sign nd d0 Hnd F1) as (Nd1 & Nd2 & _).
    unfold obind in H.
    destruct (parse_i64 (d0 :: ds')) as [l|] eqn:PL; [|discriminate].
    destruct (parse_i64_some_digits _ _ _ _ eq_refl Nd1 Nd2 PL) as (AD & -> & IL).
    destruct (checked_mul_pow (digits_val (d0 :: ds')) 4) as [l4|] eqn:ML; [|discriminate].
    destruct (4 <? byte_len (f0 :: fs')) eqn:LEN; [discriminate|].
    destruct (parse_i64 (f0 :: fs')) as [r|] eqn:PR; [|discriminate].
    destruct (parse_i64_some_digits _ _ _ _ eq_refl Nf1 Nf2 PR) as (AF & -> & IR).
    rewrite (byte_len_ascii_digits _ AF) in *. apply Z.ltb_ge in LEN.
    destruct (checked_mul_pow (digits_val (f0 :: fs')) _) as [r4|] eqn:MR; [|discriminate].
    rewrite (starts_with_minus_neq d0 ds' Nd1) in H.
    destruct (in_i64 (l4 + r4)) eqn:IV; [|discriminate]. inversion H; subst v; clear H.
    unfold checked_mul_pow in ML, MR. change (10 ^ Z.of_nat 4) with 10000 in ML.
    destruct (in_i64 (digits_val (d0 :: ds') * 10000)); [|discriminate]. inversion ML; subst l4; clear ML.
    rewrite Z2Nat.id in MR by lia.
    set (P := 10 ^ (4 - Z.of_nat (length (f0 :: fs')))) in *.
    destruct (in_i64 _) in MR; [|discriminate]. inversion MR; subst r4; clear MR.
    exists false, (d0 :: ds'), (f0 :: fs'). subst s.
    repeat split; try congruence; try assumption; try lia.
    + unfold dec_value. fold P. lia.
Qed.

Lemma in_i64_bounds z : in_i64 z = true <-> -9223372036854775808 <= z <= 9223372036854775807.
Proof. unfold in_i64, i64_min, i64_max. rewrite andb_true_iff, !Z.leb_le. tauto. Qed.

Theorem decimal_parse_complete nd s v :
  nd_ok nd -> dec_spec s v -> decimal_parse_with nd s = Some v.
Proof.
  intros Hnd (neg & ip & fp & Es & Hip & Hfp & Dip & Dfp & Lfp & Ev & Iv).
  destruct ip as [|i0 ip']; [congruence|]. destruct fp as [|f0 fp']; [congruence|].
  pose proof (forallb_nd nd _ Hnd Dip) as Fip. pose proof (forallb_nd nd _ Hnd Dfp) as Ffp.
  assert (Di0 : is_ascii_digit i0 = true) by (cbn in Dip; apply andb_true_iff in Dip; tauto).
  assert (Df0 : is_ascii_digit f0 = true) by (cbn in Dfp; apply andb_true_iff in Dfp; tauto).
  assert (Ni0 : i0 <> 45%N) by (intros ->; discriminate).
  assert (Hdot : nd 46%N = false) by (rewrite Hnd; reflexivity).
  assert (R : decimal_regex nd s = Some (if neg then 45%N :: i0 :: ip' else i0 :: ip', f0 :: fp')).
  { unfold decimal_regex. subst s. destruct neg.
    - change ([45%N] ++ (i0 :: ip') ++ 46%N :: f0 :: fp') with (45%N :: ((i0 :: ip') ++ 46%N :: f0 :: fp')).
      cbv beta iota zeta.
      rewrite (span_exact nd (i0 :: ip') (46%N :: f0 :: fp') Fip Hdot).
      cbv beta iota zeta. rewrite (span_all nd _ Ffp). reflexivity.
    - change ([] ++ (i0 :: ip') ++ 46%N :: f0 :: fp') with ((i0 :: ip') ++ 46%N :: f0 :: fp').
      destruct (lead_minus_split ((i0 :: ip') ++ 46%N :: f0 :: fp')) as [(r0 & E & _)|(E & _)].
      + inversion E. congruence.
      + rewrite E.
        rewrite (span_exact nd (i0 :: ip') (46%N :: f0 :: fp') Fip Hdot).
        cbv beta iota zeta. rewrite (span_all nd _ Ffp). reflexivity. }
  unfold decimal_parse_with. rewrite R. clear R.
  pose proof (digits_val_nonneg _ Dip) as Pip.
  destruct (small_digits _ Dfp Hfp Lfp) as [Sf1 Sf2].
  set (P := 10 ^ (4 - Z.of_nat (length (f0 :: fp')))) in *.
  apply in_i64_bounds in Iv. unfold dec_value in Ev. fold P in Ev.
  assert (IR : in_i64 (digits_val (f0 :: fp')) = true) by (apply in_i64_bounds; lia).
  assert (PR : parse_i64 (f0 :: fp') = Some (digits_val (f0 :: fp')))
    by (rewrite parse_i64_digits by (auto; congruence); rewrite IR; reflexivity).
  assert (LEN : 4 <? byte_len (f0 :: fp') = false)
    by (rewrite (byte_len_ascii_digits _ Dfp); apply Z.ltb_ge; lia).
  assert (MR : checked_mul_pow (digits_val (f0 :: fp')) (Z.to_nat (4 - byte_len (f0 :: fp'))) =
               Some (digits_val (f0 :: fp') * P)).
  { unfold checked_mul_pow. rewrite (byte_len_ascii_digits _ Dfp). rewrite Z2Nat.id by lia. fold P.
    replace (in_i64 (digits_val (f0 :: fp') * P)) with true; [reflexivity|].
    symmetry. apply in_i64_bounds. lia. }
  unfold obind. destruct neg.
  - rewrite parse_i64_neg, Dip.
    replace (in_i64 (- digits_val (i0 :: ip'))) with true by (symmetry; apply in_i64_bounds; lia).
    unfold checked_mul_pow at 1. change (10 ^ Z.of_nat 4) with 10000.
    replace (in_i64 (- digits_val (i0 :: ip') * 10000)) with true by (symmetry; apply in_i64_bounds; lia).
    rewrite LEN, PR, MR. cbn [starts_with_minus].
    replace (- digits_val (i0 :: ip') * 10000 - digits_val (f0 :: fp') * P) with v by lia.
    replace (in_i64 v) with true by (symmetry; apply in_i64_bounds; lia). reflexivity.
  - rewrite parse_i64_digits by (auto; congruence).
    replace (in_i64 (digits_val (i0 :: ip'))) with true by (symmetry; apply in_i64_bounds; lia).
    unfold checked_mul_pow at 1. change (10 ^ Z.of_nat 4) with 10000.
    replace (in_i64 (digits_val (i0 :: ip') * 10000)) with true by (symmetry; apply in_i64_bounds; lia).
    rewrite LEN, PR, MR. rewrite (starts_with_minus_neq i0 ip' Ni0).
    replace (digits_val (i0 :: ip') * 10000 + digits_val (f0 :: fp') * P) with v by lia.
    replace (in_i64 v) with true by (symmetry; apply in_i64_bounds; lia). reflexivity.
Qed.

(* accepted iff of the documented form, with the exact value; everything else is the
   extension error (None); the Unicode table behind `\d` is irrelevant *)
Theorem decimal_parse_spec s v : decimal_parse s = Some v <-> dec_spec s v.
Proof.
  split; [apply decimal_parse_sound | apply decimal_parse_complete]; apply is_nd_ok.
Qed.

Theorem decimal_parse_nd_irrelevant nd1 nd2 s :
  nd_ok nd1 -> nd_ok nd2 -> decimal_parse_with nd1 s = decimal_parse_with nd2 s.
Proof.
  intros H1 H2.
  destruct (decimal_parse_with nd1 s) as [v|] eqn:E1.
  - symmetry. exact (decimal_parse_complete nd2 s v H2 (decimal_parse_sound nd1 s v H1 E1)).
  - destruct (decimal_parse_with nd2 s) as [w|] eqn:E2; [|reflexivity].
    rewrite (decimal_parse_complete nd1 s w H1 (decimal_parse_sound nd2 s w H2 E2)) in E1. discriminate.
Qed.

(* ------------------------------------------------------------------ datetime / duration operations *)
Lemma day_ms_pos : 0 < day_ms. Proof. reflexivity. Qed.

(* offset / durationSince: the exact sum / difference, or the error iff it is outside i64 *)
Lemma dt_offset_exact t d :
  dt_offset t d = if in_i64 (t + d) then Some (t + d) else None.
Proof. reflexivity. Qed.
Lemma dt_duration_since_exact a b :
  dt_duration_since a b = if in_i64 (a - b) then Some (a - b) else None.
Proof. reflexivity. Qed.

(* toDate: the start of the day containing t (floor), or the error iff that is below i64::MIN *)
Lemma dt_to_date_exact t :
  in_i64 t = true ->
  let day_start := day_ms * (t / day_ms) in
  day_start <= t < day_start + day_ms /\
  dt_to_date t = if i64_min <=? day_start then Some day_start else None.
Proof.
  intros Ht. cbv zeta. pose proof (Z.div_mod t day_ms ltac:(unfold day_ms; lia)) as E.
  pose proof (Z.mod_pos_bound t day_ms day_ms_pos) as B.
  split; [lia|]. unfold dt_to_date.
  replace (t - t mod day_ms) with (day_ms * (t / day_ms)) by lia.
  apply in_i64_bounds in Ht. unfold in_i64.
  replace (day_ms * (t / day_ms) <=? i64_max) with true; [rewrite andb_true_r; reflexivity|].
  symmetry. apply Z.leb_le. unfold i64_max. lia.
Qed.

(* toTime, as coded with the truncating remainder, is the floor remainder: 0 <= . < one day *)
Lemma dt_to_time_exact t : dt_to_time t = t mod day_ms /\ 0 <= dt_to_time t < day_ms.
Proof.
  assert (E : dt_to_time t = t mod day_ms).
  { unfold dt_to_time. pose proof day_ms_pos as P.
    pose proof (Z.mod_pos_bound t day_ms P) as B.
    pose proof (Z.div_mod t day_ms ltac:(lia)) as D.
    pose proof (Z.quot_rem' t day_ms) as Q.
    destruct (t <? 0) eqn:N.
    - apply Z.ltb_lt in N. pose proof (Z.rem_nonpos t day_ms ltac:(lia) ltac:(lia)) as R1.
      assert (R2 : - day_ms < Z.rem t day_ms).
      { pose proof (Z.rem_opp_l t day_ms ltac:(lia)) as O. pose proof (Z.rem_bound_pos (- t) day_ms ltac:(lia) ltac:(lia)). lia. }
      destruct (Z.rem t day_ms =? 0) eqn:Z0.
      + apply Z.eqb_eq in Z0. rewrite Z0 in *. apply Z.mod_unique_pos with (q := Z.quot t day_ms); unfold day_ms in *; lia.
      + apply Z.eqb_neq in Z0. apply Z.mod_unique_pos with (q := Z.quot t day_ms - 1); unfold day_ms in *; lia.
    - apply Z.ltb_ge in N. apply Z.rem_mod_nonneg; lia. }
  split; [exact E|]. rewrite E. apply Z.mod_pos_bound. exact day_ms_pos.
Qed.

Lemma dt_to_date_plus_to_time t d :
  dt_to_date t = Some d -> d + dt_to_time t = t.
Proof.
  unfold dt_to_date. destruct (in_i64 _); [|discriminate]. intros H. inversion H; subst.
  rewrite (proj1 (dt_to_time_exact t)). lia.
Qed.

(* to* : truncation toward zero of the exact quotient, in one step *)
Lemma dur_to_exact ms :
  dur_to_seconds ms = Z.quot ms 1000 /\ dur_to_minutes ms = Z.quot ms 60000 /\
  dur_to_hours ms = Z.quot ms 3600000 /\ dur_to_days ms = Z.quot ms 86400000.
Proof.
  unfold dur_to_days, dur_to_hours, dur_to_minutes, dur_to_seconds.
  rewrite !Z.quot_quot by lia. repeat split; reflexivity.
Qed.

Lemma quot_in_i64 ms k : 0 < k -> in_i64 ms = true -> in_i64 (Z.quot ms k) = true.
Proof.
  intros Hk H. apply in_i64_bounds in H. apply in_i64_bounds.
  destruct (Z_le_gt_dec 0 ms).
  - pose proof (Z.quot_pos ms k ltac:(lia) ltac:(lia)). pose proof (Z.quot_le_upper_bound ms k ms ltac:(lia)) as U.
    assert (ms <= k * ms) by nia. lia.
  - pose proof (Z.quot_opp_l ms k ltac:(lia)) as O.
    pose proof (Z.quot_pos (- ms) k ltac:(lia) ltac:(lia)).
    pose proof (Z.quot_le_upper_bound (- ms) k (- ms) ltac:(lia)) as U.
    assert (- ms <= k * - ms) by nia. lia.
Qed.

(* ------------------------------------------------------------------ comparisons and equality *)
Lemma decimal_lt_rational x y : Z.ltb x y = true <-> (x * 1 < y * 1).
Proof. rewrite Z.ltb_lt. lia. Qed.

Lemma ext_eq_by_value a b : ext_eqb a b = true <-> a = b.
Proof.
  destruct a as [x|[v6 ad pf]|x|x], b as [y|[v6' ad' pf']|y|y]; cbn; split; intros H; try discriminate; try congruence.
  all: try (apply Z.eqb_eq in H; congruence).
  all: try (inversion H; subst; apply Z.eqb_refl).
  - repeat (apply andb_true_iff in H; destruct H as [H ?]).
    apply eqb_prop in H. apply N.eqb_eq in H0. apply N.eqb_eq in H1. congruence.
  - inversion H; subst. rewrite eqb_reflx, !N.eqb_refl. reflexivity.
Qed.

(* ------------------------------------------------------------------ civil dates *)
Definition next_date (y m d : Z) : Z * Z * Z :=
  if d <? days_in_month y m then (y, m, d + 1)
  else if m <? 12 then (y, m + 1, 1) else (y + 1, 1, 1).

Lemma days_in_month_range y m : 28 <= days_in_month y m <= 31.
Proof. unfold days_in_month. repeat match goal with |- context [if ?b then _ else _] => destruct b end; lia. Qed.

Lemma epoch_day_zero : days_from_civil 1970 1 1 = 0.
Proof. reflexivity. Qed.

Lemma is_leap_spec y : is_leap y = true <-> (y mod 4 = 0 /\ (y mod 100 <> 0 \/ y mod 400 = 0)).
Proof.
  unfold is_leap. rewrite andb_true_iff, orb_true_iff, negb_true_iff, !Z.eqb_eq, Z.eqb_neq. tauto.
Qed.

Lemma days_before_year_succ y : 0 <= y ->
  days_before_year (y + 1) = days_before_year y + (if is_leap y then 366 else 365).
Proof.
  intros Hy. unfold days_before_year.
  replace (y + 1 + 3) with (y + 4) by lia. replace (y + 1 + 99) with (y + 100) by lia.
  replace (y + 1 + 399) with (y + 400) by lia.
  destruct (is_leap y) eqn:L.
  - apply is_leap_spec in L. Z.div_mod_to_equations. lia.
  - assert (NL : ~ (y mod 4 = 0 /\ (y mod 100 <> 0 \/ y mod 400 = 0))) by (rewrite <- is_leap_spec; congruence).
    Z.div_mod_to_equations. lia.
Qed.

(* days_from_civil is THE day count: 1970-01-01 is day 0 and every valid date's successor
   (next day, across month and year ends, leap years included) is a valid date one day later *)
Theorem days_from_civil_next y m d :
  0 <= y -> valid_ymd y m d = true ->
  let '(y', m', d') := next_date y m d in
  valid_ymd y' m' d' = true /\ days_from_civil y' m' d' = days_from_civil y m d + 1.
Proof.
  intros Hy V. unfold valid_ymd in V. repeat rewrite andb_true_iff in V. destruct V as [[[M1 M2] D1] D2].
  apply Z.leb_le in M1, M2, D1, D2.
  assert (C : m = 1 \/ m = 2 \/ m = 3 \/ m = 4 \/ m = 5 \/ m = 6 \/ m = 7 \/ m = 8 \/ m = 9 \/ m = 10 \/ m = 11 \/ m = 12) by lia.
  pose proof (days_before_year_succ y Hy) as Y.
  unfold next_date, valid_ymd, days_from_civil.
  repeat destruct C as [C|C]; subst m;
    unfold days_in_month, days_before_month in *;
    repeat match goal with |- context [Z.pos ?a + 1] =>
             let v := eval vm_compute in (Z.pos a + 1) in change (Z.pos a + 1) with v end;
    cbn -[is_leap Z.add Z.sub Z.mul Z.div days_before_year Z.leb Z.ltb] in *;
    repeat match goal with |- context [Z.pos ?a <? Z.pos ?b] =>
             let v := eval vm_compute in (Z.pos a <? Z.pos b) in change (Z.pos a <? Z.pos b) with v end;
    cbv iota in *;
    destruct (is_leap y) eqn:L; cbv iota in *;
    match goal with |- context [d <? ?k] => destruct (Z.ltb_spec d k) end;
    cbn -[is_leap Z.add Z.sub Z.mul Z.div days_before_year Z.leb] in *;
    rewrite ?L; cbv iota;
    rewrite ?andb_true_iff, ?Z.leb_le; try lia.
Qed.

(* ------------------------------------------------------------------ statements at the call level *)
From Coq Require QArith.

Definition dec (z : Z) : value := VExt (EDecimal z).
Definition dtv (z : Z) : value := VExt (EDatetime z).
Definition durv (z : Z) : value := VExt (EDuration z).

Lemma decimal_ctor_call s :
  call_xfn (s2str "decimal") [VString s] =
  match decimal_parse s with Some v => Ok (dec v) | None => Err ErrExt end.
Proof. unfold call_xfn. cbn. unfold from_str. cbn. destruct (decimal_parse s); reflexivity. Qed.

(* a decimal with representation z denotes the rational z / 10^4 *)
Definition dec_rat (z : Z) : QArith_base.Q := QArith_base.Qmake z 10000.

Lemma decimal_cmp_rational x y :
  call_xfn (s2str "lessThan") [dec x; dec y] = Ok (VBool (x <? y)) /\
  call_xfn (s2str "lessThanOrEqual") [dec x; dec y] = Ok (VBool (x <=? y)) /\
  call_xfn (s2str "greaterThan") [dec x; dec y] = Ok (VBool (x >? y)) /\
  call_xfn (s2str "greaterThanOrEqual") [dec x; dec y] = Ok (VBool (x >=? y)) /\
  ((x <? y) = true <-> QArith_base.Qlt (dec_rat x) (dec_rat y)) /\
  ((x <=? y) = true <-> QArith_base.Qle (dec_rat x) (dec_rat y)) /\
  ((x >? y) = true <-> QArith_base.Qlt (dec_rat y) (dec_rat x)) /\
  ((x >=? y) = true <-> QArith_base.Qle (dec_rat y) (dec_rat x)).
Proof.
  repeat split; try reflexivity; unfold QArith_base.Qlt, QArith_base.Qle, dec_rat; cbn [QArith_base.Qnum QArith_base.Qden];
    rewrite ?Z.ltb_lt, ?Z.leb_le, ?Z.gtb_lt, ?Z.geb_le; lia.
Qed.

Lemma offset_call t d :
  call_xfn (s2str "offset") [dtv t; durv d] =
  if in_i64 (t + d) then Ok (dtv (t + d)) else Err ErrExt.
Proof. unfold call_xfn. cbn. unfold dt_offset. destruct (in_i64 (t + d)); reflexivity. Qed.

Lemma duration_since_call a b :
  call_xfn (s2str "durationSince") [dtv a; dtv b] =
  if in_i64 (a - b) then Ok (durv (a - b)) else Err ErrExt.
Proof. unfold call_xfn. cbn. unfold dt_duration_since. destruct (in_i64 (a - b)); reflexivity. Qed.

Lemma to_date_call t :
  in_i64 t = true ->
  let day_start := day_ms * (t / day_ms) in
  day_start <= t < day_start + day_ms /\
  call_xfn (s2str "toDate") [dtv t] =
  if i64_min <=? day_start then Ok (dtv day_start) else Err ErrExt.
Proof.
  intros Ht. destruct (dt_to_date_exact t Ht) as [B E]. cbv zeta in *. split; [exact B|].
  change (call_xfn (s2str "toDate") [dtv t]) with (do r <- ext_or (dt_to_date t); Ok (VExt (EDatetime r))).
  rewrite E. destruct (i64_min <=? day_ms * (t / day_ms)); reflexivity.
Qed.

Lemma to_time_call t :
  call_xfn (s2str "toTime") [dtv t] = Ok (durv (t mod day_ms)) /\ 0 <= t mod day_ms < day_ms.
Proof.
  destruct (dt_to_time_exact t) as [E B]. rewrite E in B. split; [|exact B].
  change (call_xfn (s2str "toTime") [dtv t]) with (Ok (durv (dt_to_time t))). rewrite E. reflexivity.
Qed.

Lemma duration_to_calls ms :
  in_i64 ms = true ->
  call_xfn (s2str "toMilliseconds") [durv ms] = Ok (VLong ms) /\
  call_xfn (s2str "toSeconds") [durv ms] = Ok (VLong (Z.quot ms 1000)) /\
  call_xfn (s2str "toMinutes") [durv ms] = Ok (VLong (Z.quot ms 60000)) /\
  call_xfn (s2str "toHours") [durv ms] = Ok (VLong (Z.quot ms 3600000)) /\
  call_xfn (s2str "toDays") [durv ms] = Ok (VLong (Z.quot ms 86400000)) /\
  in_i64 (Z.quot ms 1000) = true /\ in_i64 (Z.quot ms 60000) = true /\
  in_i64 (Z.quot ms 3600000) = true /\ in_i64 (Z.quot ms 86400000) = true.
Proof.
  intros H. destruct (dur_to_exact ms) as (A & B & C & D).
  unfold call_xfn. cbn. unfold dur_method. cbn. rewrite A, B, C, D.
  repeat split; try reflexivity; apply quot_in_i64; auto; lia.
Qed.

(* `<` `<=` `==` on datetime / duration compare the millisecond counts; == on any two extension
   values is equality of the represented value *)
Lemma rel_ext_exact a b :
  rel_apply RLess (dtv a) (dtv b) = Ok (VBool (a <? b)) /\
  rel_apply RLessEq (dtv a) (dtv b) = Ok (VBool (a <=? b)) /\
  rel_apply RLess (durv a) (durv b) = Ok (VBool (a <? b)) /\
  rel_apply RLessEq (durv a) (durv b) = Ok (VBool (a <=? b)).
Proof. repeat split; reflexivity. Qed.

Lemma eq_by_value (x y : ext) :
  rel_apply REq (VExt x) (VExt y) = Ok (VBool true) <-> x = y.
Proof.
  cbn. rewrite <- ext_eq_by_value. destruct (ext_eqb x y); split; intros H; try reflexivity; try discriminate.
Qed.

(* ip: reflexivity of isInRange and separation of the families *)
Lemma ip_in_range_refl a : ip_is_in_range a a = true.
Proof. unfold ip_is_in_range. rewrite eqb_reflx, !N.leb_refl. reflexivity. Qed.

Lemma ip_in_range_same_family a b : ip_is_in_range a b = true -> ip_v6 a = ip_v6 b.
Proof. unfold ip_is_in_range. destruct (Bool.eqb (ip_v6 a) (ip_v6 b)) eqn:E; [intros _; apply eqb_prop; exact E|discriminate]. Qed.

(* duration: whatever is accepted is in range *)
Lemma dur_checked_op_in_range neg x y mul r : dur_checked_op neg x y mul = Some r -> in_i64 r = true.
Proof.
  unfold dur_checked_op. destruct (i64_max <? y); [discriminate|].
  destruct (negb (in_i64 (y * mul))); [discriminate|].
  destruct (in_i64 (if neg then x - y * mul else x + y * mul)) eqn:E; [|discriminate].
  intros H; inversion H; subst; exact E.
Qed.
