(* ExtParseProofs.v — C07 lemmas about coq/model/ExtParse.v *)
From Coq Require Import Lia ZArith NArith List Bool.
From Cedar Require Import ExtParse.
Import ListNotations.
Open Scope list_scope.
Open Scope Z_scope.

(* ------------------------------------------------------------------ generic string lemmas *)
Lemma span_spec p s a b :
  span p s = (a, b) ->
  s = a ++ b /\ forallb p a = true /\ match b with [] => True | c :: _ => p c = false end.
Proof.
  revert a b. induction s as [|c s IH]; intros a b H; cbn in H.
  - inversion H; subst. cbn. auto.
  - destruct (p c) eqn:Hc.
    + destruct (span p s) as [a' b'] eqn:Hs. inversion H; subst.
      destruct (IH a' b eq_refl) as (E & F & G). subst s. cbn. rewrite Hc. auto.
    + inversion H; subst. cbn. rewrite Hc. auto.
Qed.

Lemma span_exact p a b :
  forallb p a = true -> match b with [] => True | c :: _ => p c = false end ->
  span p (a ++ b) = (a, b).
Proof.
  induction a as [|c a IH]; intros Ha Hb; cbn in *.
  - destruct b as [|c b]; [reflexivity|]. cbn. rewrite Hb. reflexivity.
  - apply andb_true_iff in Ha. destruct Ha as [Hc Ha]. rewrite Hc, (IH Ha Hb). reflexivity.
Qed.

Lemma all_ascii_digits_forallb s : all_ascii_digits s = forallb is_ascii_digit s.
Proof. induction s; cbn; congruence. Qed.

Lemma digit_val_range c : is_ascii_digit c = true -> 0 <= digit_val c <= 9.
Proof. unfold is_ascii_digit, digit_val. intros H. apply andb_true_iff in H. destruct H as [A B].
  apply N.leb_le in A. apply N.leb_le in B. lia. Qed.

Lemma fold_digits_nonneg s : forall acc, all_ascii_digits s = true -> 0 <= acc ->
  acc <= fold_left (fun a c => a * 10 + digit_val c) s acc.
Proof.
  induction s as [|c s IH]; intros acc H Hacc; cbn in *; [lia|].
  apply andb_true_iff in H. destruct H as [Hc Hs]. pose proof (digit_val_range c Hc).
  specialize (IH (acc * 10 + digit_val c) Hs). lia.
Qed.

Lemma digits_val_nonneg s : all_ascii_digits s = true -> 0 <= digits_val s.
Proof. intros H. unfold digits_val. apply (fold_digits_nonneg s 0 H). lia. Qed.

Lemma byte_len_ascii_digits s : all_ascii_digits s = true -> byte_len s = Z.of_nat (length s).
Proof.
  induction s as [|c s IH]; intros H; [reflexivity|]. cbn [byte_len length all_ascii_digits] in *.
  apply andb_true_iff in H. destruct H as [Hc Hs]. rewrite (IH Hs).
  unfold is_ascii_digit in Hc. apply andb_true_iff in Hc. destruct Hc as [A B].
  apply N.leb_le in A. apply N.leb_le in B. unfold utf8_len.
  destruct (c <? 128)%N eqn:E; [lia|]. apply N.ltb_ge in E. lia.
Qed.

Lemma utf8_len_pos c : 1 <= utf8_len c.
Proof. unfold utf8_len. repeat match goal with |- context [if ?b then _ else _] => destruct b end; lia. Qed.

Lemma byte_len_ge_length s : Z.of_nat (length s) <= byte_len s.
Proof. induction s as [|c s IH]; cbn [byte_len length]; [lia|]. pose proof (utf8_len_pos c). lia. Qed.

(* ------------------------------------------------------------------ decimal *)
Definition nd_ok (nd : N -> bool) : Prop :=
  forall c, (c <? 128)%N = true -> nd c = is_ascii_digit c.

Lemma is_nd_ok : nd_ok is_nd.
Proof.
  assert (H : forallb (fun n => Bool.eqb (is_nd (N.of_nat n)) (is_ascii_digit (N.of_nat n))) (seq 0 128) = true)
    by (vm_compute; reflexivity).
  intros c Hc. apply N.ltb_lt in Hc. rewrite forallb_forall in H.
  specialize (H (N.to_nat c)). rewrite N2Nat.id in H. apply eqb_prop. apply H.
  apply in_seq. lia.
Qed.

Definition dec_value (neg : bool) (ip fp : str) : Z :=
  (if neg then -1 else 1) *
  (digits_val ip * 10000 + digits_val fp * 10 ^ (4 - Z.of_nat (length fp))).

(* the documented form: optional '-', digits, '.', 1 to 4 digits; exact value; in range *)
Definition dec_spec (s : str) (v : Z) : Prop :=
  exists (neg : bool) (ip fp : str),
    s = (if neg then [45%N] else []) ++ ip ++ 46%N :: fp /\
    ip <> [] /\ fp <> [] /\ all_ascii_digits ip = true /\ all_ascii_digits fp = true /\
    (length fp <= 4)%nat /\ v = dec_value neg ip fp /\ in_i64 v = true.

Lemma parse_i64_digits ds :
  all_ascii_digits ds = true -> ds <> [] ->
  parse_i64 ds = if in_i64 (digits_val ds) then Some (digits_val ds) else None.
Proof.
  intros H Hne. unfold parse_i64.
  destruct ds as [|c r]; [congruence|].
  assert (Hc : is_ascii_digit c = true) by (cbn in H; apply andb_true_iff in H; tauto).
  assert (c <> 45%N /\ c <> 43%N) as [N1 N2].
  { unfold is_ascii_digit in Hc. apply andb_true_iff in Hc. destruct Hc as [A B].
    apply N.leb_le in A. apply N.leb_le in B. lia. }
  destruct c as [|p]; [exfalso; cbn in Hc; discriminate|].
  do 6 (destruct p as [p|p|]; try (exfalso; cbn in Hc; discriminate); try congruence; try (rewrite H; reflexivity)).
Qed.

Lemma parse_i64_neg ds :
  parse_i64 (45%N :: ds) =
  match ds with
  | [] => None
  | _ => if all_ascii_digits ds then (if in_i64 (- digits_val ds) then Some (- digits_val ds) else None) else None
  end.
Proof. reflexivity. Qed.

Lemma parse_i64_some_digits ds v c r :
  ds = c :: r -> c <> 45%N -> c <> 43%N -> parse_i64 ds = Some v ->
  all_ascii_digits ds = true /\ v = digits_val ds /\ in_i64 v = true.
Proof.
  intros -> N1 N2 H. unfold parse_i64 in H.
  destruct c as [|p].
  2: do 6 (try (destruct p as [p|p|]; try congruence)).
  all: cbv beta iota zeta in H;
    match type of H with context [all_ascii_digits ?l] => destruct (all_ascii_digits l) eqn:A; [|discriminate] end;
    match type of H with context [in_i64 ?z] => destruct (in_i64 z) eqn:I; inversion H; subst; auto end.
Qed.

Lemma small_digits fp :
  all_ascii_digits fp = true -> fp <> [] -> (length fp <= 4)%nat ->
  0 <= digits_val fp * 10 ^ (4 - Z.of_nat (length fp)) < 10000 /\ 0 <= digits_val fp < 10000.
Proof.
  intros H Hne Hl.
  destruct fp as [|a [|b [|c [|d [|e r]]]]]; try congruence; cbn in Hl; try lia;
    cbn [all_ascii_digits] in H; repeat rewrite andb_true_iff in H;
    repeat match goal with H : _ /\ _ |- _ => destruct H end;
    repeat match goal with H : is_ascii_digit _ = true |- _ => apply digit_val_range in H end;
    unfold digits_val; cbn [fold_left length]; 
    [ change (10 ^ (4 - Z.of_nat 1)) with 1000 | change (10 ^ (4 - Z.of_nat 2)) with 100
    | change (10 ^ (4 - Z.of_nat 3)) with 10 | change (10 ^ (4 - Z.of_nat 4)) with 1 ]; lia.
Qed.

Ltac bits c tac :=
  destruct c as [|?p]; [tac| do 7 (try (match goal with p : positive |- _ => destruct p as [p|p|] end; tac))].

Lemma nd_ascii nd c : nd_ok nd -> is_ascii_digit c = true -> nd c = true.
Proof.
  intros Hnd H. rewrite Hnd; [exact H|]. unfold is_ascii_digit in H. apply andb_true_iff in H.
  destruct H as [A B]. apply N.leb_le in B. apply N.ltb_lt. lia.
Qed.

Lemma nd_true_not_sign nd c : nd_ok nd -> nd c = true -> c <> 45%N /\ c <> 43%N /\ c <> 46%N.
Proof.
  intros Hnd H. repeat split; intros ->; rewrite Hnd in H by reflexivity; discriminate.
Qed.

Lemma forallb_nd nd s : nd_ok nd -> all_ascii_digits s = true -> forallb nd s = true.
Proof.
  intros Hnd. induction s as [|c s IH]; cbn; [reflexivity|]. intros H. apply andb_true_iff in H.
  destruct H as [A B]. rewrite (nd_ascii nd c Hnd A), (IH B). reflexivity.
Qed.

Lemma span_all p a : forallb p a = true -> span p a = (a, []).
Proof. intros H. rewrite <- (app_nil_r a) at 1. apply span_exact; auto. Qed.

Lemma starts_with_minus_neq c r : c <> 45%N -> starts_with_minus (c :: r) = false.
Proof. intros N. unfold starts_with_minus. bits c ltac:(try reflexivity; try congruence). Qed.

Lemma lead_minus_split (s : str) :
  (exists r, s = 45%N :: r /\ (match s with 45%N :: r => (true, r) | _ => (false, s) end) = (true, r)) \/
  ((match s with 45%N :: r => (true, r) | _ => (false, s) end) = (false, s) /\ forall r, s <> 45%N :: r).
Proof.
  destruct s as [|c r]; [right; split; [reflexivity|congruence]|].
  destruct (N.eq_dec c 45) as [->|N]; [left; eauto|].
  right. split; [|congruence]. bits c ltac:(try reflexivity; try congruence).
Qed.

Theorem decimal_parse_sound nd s v :
  nd_ok nd -> decimal_parse_with nd s = Some v -> dec_spec s v.
Proof.
  intros Hnd H. unfold decimal_parse_with in H.
  destruct (decimal_regex nd s) as [[l_str r_str]|] eqn:R; [|discriminate].
  unfold decimal_regex in R.
  destruct (lead_minus_split s) as [(r0 & Es & Epr)|(Epr & Hnm)]; rewrite Epr in R; clear Epr.
  - (* leading '-' *)
    destruct (span nd r0) as [ds r1] eqn:S1.
    destruct ds as [|d0 ds']; [discriminate|]. destruct r1 as [|c1 r2]; [discriminate|].
    destruct (N.eq_dec c1 46) as [->|N46].
    2: { exfalso. bits c1 ltac:(try discriminate; try congruence). }
    cbv beta iota zeta in R.
    destruct (span nd r2) as [fs r3] eqn:S2.
    destruct fs as [|f0 fs']; [discriminate|]. destruct r3; [|discriminate].
    inversion R; subst l_str r_str; clear R.
    apply span_spec in S1. apply span_spec in S2. destruct S1 as (E1 & F1 & _). destruct S2 as (E2 & F2 & _).
    rewrite app_nil_r in E2. subst r2 r0.
    cbn [forallb] in F2. apply andb_true_iff in F2. destruct F2 as [F2 _].
    destruct (nd_true_not_sign nd f0 Hnd F2) as (Nf1 & Nf2 & _).
    unfold obind in H. rewrite parse_i64_neg in H.
    destruct (all_ascii_digits (d0 :: ds')) eqn:AD; [|discriminate].
    destruct (in_i64 (- digits_val (d0 :: ds'))) eqn:IL; [|discriminate].
    destruct (checked_mul_pow (- digits_val (d0 :: ds')) 4) as [l4|] eqn:ML; [|discriminate].
    destruct (4 <? byte_len (f0 :: fs')) eqn:LEN; [discriminate|].
    destruct (parse_i64 (f0 :: fs')) as [r|] eqn:PR; [|discriminate].
    destruct (parse_i64_some_digits _ _ _ _ eq_refl Nf1 Nf2 PR) as (AF & -> & IR).
    rewrite (byte_len_ascii_digits _ AF) in *. apply Z.ltb_ge in LEN.
    destruct (checked_mul_pow (digits_val (f0 :: fs')) _) as [r4|] eqn:MR; [|discriminate].
    cbn [starts_with_minus] in H.
    destruct (in_i64 (l4 - r4)) eqn:IV; [|discriminate]. inversion H; subst v; clear H.
    unfold checked_mul_pow in ML, MR. change (10 ^ Z.of_nat 4) with 10000 in ML.
    destruct (in_i64 (- digits_val (d0 :: ds') * 10000)); [|discriminate]. inversion ML; subst l4; clear ML.
    rewrite Z2Nat.id in MR by lia.
    set (P := 10 ^ (4 - Z.of_nat (length (f0 :: fs')))) in *.
    destruct (in_i64 _) in MR; [|discriminate]. inversion MR; subst r4; clear MR.
    exists true, (d0 :: ds'), (f0 :: fs'). subst s.
    repeat split; try congruence; try assumption; try lia.
    + unfold dec_value. fold P. lia.
  - (* no leading '-' *)
    destruct (span nd s) as [ds r1] eqn:S1.
    destruct ds as [|d0 ds']; [discriminate|]. destruct r1 as [|c1 r2]; [discriminate|].
    destruct (N.eq_dec c1 46) as [->|N46].
    2: { exfalso. bits c1 ltac:(try discriminate; try congruence). }
    cbv beta iota zeta in R.
    destruct (span nd r2) as [fs r3] eqn:S2.
    destruct fs as [|f0 fs']; [discriminate|]. destruct r3; [|discriminate].
    inversion R; subst l_str r_str; clear R.
    apply span_spec in S1. apply span_spec in S2. destruct S1 as (E1 & F1 & _). destruct S2 as (E2 & F2 & _).
    rewrite app_nil_r in E2. subst r2.
    cbn [forallb] in F1, F2. apply andb_true_iff in F1. destruct F1 as [F1 _].
    apply andb_true_iff in F2. destruct F2 as [F2 _].
    destruct (nd_true_not_sign nd f0 Hnd F2) as (Nf1 & Nf2 & _).
    destruct (nd_true_not_sign nd d0 Hnd F1) as (Nd1 & Nd2 & _).
    unfold obind in H.
    destruct (parse_i64 (d0 :: ds')) as [l|] eqn:PL; [|discriminate].
    destruct (parse_i64_some_digits _ _ _ _ eq_refl Nd1 Nd2 PL) as (AD & -> & IL).
    destruct (checked_mul_pow (digits_val (d0 :: ds')) 4) as [l4|] eqn:ML; [|discriminate].
    destruct (4 <? byte_len (f0 :: fs')) eqn:LEN; [discriminate|].
    destruct (parse_i64 (f0 :: fs')) as [r|] eqn:PR; [|discriminate].
    destruct (parse_i64_some_digits _ _ _ _ eq_refl Nf1 Nf2 PR) as (AF & -> & IR).
    rewrite (byte_len_ascii_digits _ AF) in *. apply Z.ltb_ge in LEN.
    destruct (checked_mul_pow (digits_val (f0 :: fs')) _) as [r4|] eqn:MR; [|discriminate].
    rewrite (starts_with_minus_neq d0 ds' Nd1) in H.
    destruct (in_i64 (l4 + r4)) eqn:IV; [|discriminate]. inversion H; subst v; clear H.
    unfold checked_mul_pow in ML, MR. change (10 ^ Z.of_nat 4) with 10000 in ML.
    destruct (in_i64 (digits_val (d0 :: ds') * 10000)); [|discriminate]. inversion ML; subst l4; clear ML.
    rewrite Z2Nat.id in MR by lia.
    set (P := 10 ^ (4 - Z.of_nat (length (f0 :: fs')))) in *.
    destruct (in_i64 _) in MR; [|discriminate]. inversion MR; subst r4; clear MR.
    exists false, (d0 :: ds'), (f0 :: fs'). subst s.
    repeat split; try congruence; try assumption; try lia.
    + unfold dec_value. fold P. lia.
Qed.

Lemma in_i64_bounds z : in_i64 z = true <-> -9223372036854775808 <= z <= 9223372036854775807.
Proof. unfold in_i64, i64_min, i64_max. rewrite andb_true_iff, !Z.leb_le. tauto. Qed.

Theorem decimal_parse_complete nd s v :
  nd_ok nd -> dec_spec s v -> decimal_parse_with nd s = Some v.
Proof.
  intros Hnd (neg & ip & fp & Es & Hip & Hfp & Dip & Dfp & Lfp & Ev & Iv).
  destruct ip as [|i0 ip']; [congruence|]. destruct fp as [|f0 fp']; [congruence|].
  pose proof (forallb_nd nd _ Hnd Dip) as Fip. pose proof (forallb_nd nd _ Hnd Dfp) as Ffp.
  assert (Di0 : is_ascii_digit i0 = true) by (cbn in Dip; apply andb_true_iff in Dip; tauto).
  assert (Df0 : is_ascii_digit f0 = true) by (cbn in Dfp; apply andb_true_iff in Dfp; tauto).
  assert (Ni0 : i0 <> 45%N) by (intros ->; discriminate).
  assert (Hdot : nd 46%N = false) by (rewrite Hnd; reflexivity).
  assert (R : decimal_regex nd s = Some (if neg then 45%N :: i0 :: ip' else i0 :: ip', f0 :: fp')).
  { unfold decimal_regex. subst s. destruct neg.
    - change ([45%N] ++ (i0 :: ip') ++ 46%N :: f0 :: fp') with (45%N :: ((i0 :: ip') ++ 46%N :: f0 :: fp')).
      cbv beta iota zeta.
      rewrite (span_exact nd (i0 :: ip') (46%N :: f0 :: fp') Fip Hdot).
      cbv beta iota zeta. rewrite (span_all nd _ Ffp). reflexivity.
    - change ([] ++ (i0 :: ip') ++ 46%N :: f0 :: fp') with ((i0 :: ip') ++ 46%N :: f0 :: fp').
      destruct (lead_minus_split ((i0 :: ip') ++ 46%N :: f0 :: fp')) as [(r0 & E & _)|(E & _)].
      + inversion E. congruence.
      + rewrite E.
        rewrite (span_exact nd (i0 :: ip') (46%N :: f0 :: fp') Fip Hdot).
        cbv beta iota zeta. rewrite (span_all nd _ Ffp). reflexivity. }
  unfold decimal_parse_with. rewrite R. clear R.
  pose proof (digits_val_nonneg _ Dip) as Pip.
  destruct (small_digits _ Dfp Hfp Lfp) as [Sf1 Sf2].
  set (P := 10 ^ (4 - Z.of_nat (length (f0 :: fp')))) in *.
  apply in_i64_bounds in Iv. unfold dec_value in Ev. fold P in Ev.
  assert (IR : in_i64 (digits_val (f0 :: fp')) = true) by (apply in_i64_bounds; lia).
  assert (PR : parse_i64 (f0 :: fp') = Some (digits_val (f0 :: fp')))
    by (rewrite parse_i64_digits by (auto; congruence); rewrite IR; reflexivity).
  assert (LEN : 4 <? byte_len (f0 :: fp') = false)
    by (rewrite (byte_len_ascii_digits _ Dfp); apply Z.ltb_ge; lia).
  assert (MR : checked_mul_pow (digits_val (f0 :: fp')) (Z.to_nat (4 - byte_len (f0 :: fp'))) =
               Some (digits_val (f0 :: fp') * P)).
  { unfold checked_mul_pow. rewrite (byte_len_ascii_digits _ Dfp). rewrite Z2Nat.id by lia. fold P.
    replace (in_i64 (digits_val (f0 :: fp') * P)) with true; [reflexivity|].
    symmetry. apply in_i64_bounds. lia. }
  unfold obind. destruct neg.
  - rewrite parse_i64_neg, Dip.
    replace (in_i64 (- digits_val (i0 :: ip'))) with true by (symmetry; apply in_i64_bounds; lia).
    unfold checked_mul_pow at 1. change (10 ^ Z.of_nat 4) with 10000.
    replace (in_i64 (- digits_val (i0 :: ip') * 10000)) with true by (symmetry; apply in_i64_bounds; lia).
    rewrite LEN, PR, MR. cbn [starts_with_minus].
    replace (- digits_val (i0 :: ip') * 10000 - digits_val (f0 :: fp') * P) with v by lia.
    replace (in_i64 v) with true by (symmetry; apply in_i64_bounds; lia). reflexivity.
  - rewrite parse_i64_digits by (auto; congruence).
    replace (in_i64 (digits_val (i0 :: ip'))) with true by (symmetry; apply in_i64_bounds; lia).
    unfold checked_mul_pow at 1. change (10 ^ Z.of_nat 4) with 10000.
    replace (in_i64 (digits_val (i0 :: ip') * 10000)) with true by (symmetry; apply in_i64_bounds; lia).
    rewrite LEN, PR, MR. rewrite (starts_with_minus_neq i0 ip' Ni0).
    replace (digits_val (i0 :: ip') * 10000 + digits_val (f0 :: fp') * P) with v by lia.
    replace (in_i64 v) with true by (symmetry; apply in_i64_bounds; lia). reflexivity.
Qed.

(* accepted iff of the documented form, with the exact value; everything else is the
   extension error (None); the Unicode table behind `\d` is irrelevant *)
Theorem decimal_parse_spec s v : decimal_parse s = Some v <-> dec_spec s v.
Proof.
  split; [apply decimal_parse_sound | apply decimal_parse_complete]; apply is_nd_ok.
Qed.

Theorem decimal_parse_nd_irrelevant nd1 nd2 s :
  nd_ok nd1 -> nd_ok nd2 -> decimal_parse_with nd1 s = decimal_parse_with nd2 s.
Proof.
  intros H1 H2.
  destruct (decimal_parse_with nd1 s) as [v|] eqn:E1.
  - symmetry. exact (decimal_parse_complete nd2 s v H2 (decimal_parse_sound nd1 s v H1 E1)).
  - destruct (decimal_parse_with nd2 s) as [w|] eqn:E2; [|reflexivity].
    rewrite (decimal_parse_complete nd1 s w H1 (decimal_parse_sound nd2 s w H2 E2)) in E1. discriminate.
Qed.
