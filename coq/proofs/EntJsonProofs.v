(* EntJsonProofs.v — lemmas about the entity/context JSON model (C10). *)
From Coq Require Import List Bool Lia String.
From Cedar Require Import EntJson.
Import ListNotations.

(* ---------------------------------------------------------------- induction on nested values *)
Fixpoint rval_ind' (P : rval -> Prop)
  (Hb : forall b, P (RBool b)) (Hl : forall z, P (RLong z)) (Hs : forall s, P (RString s))
  (He : forall u, P (REntity u))
  (Hset : forall l, Forall P l -> P (RSet l))
  (Hrec : forall l, Forall (fun kv => P (snd kv)) l -> P (RRecord l))
  (Hcall : forall f l, Forall P l -> P (RCall f l))
  (v : rval) {struct v} : P v :=
  match v with
  | RBool b => Hb b
  | RLong z => Hl z
  | RString s => Hs s
  | REntity u => He u
  | RSet l =>
      Hset l ((fix go (l : list rval) : Forall P l :=
                 match l with
                 | [] => Forall_nil P
                 | x :: l' => Forall_cons x (rval_ind' P Hb Hl Hs He Hset Hrec Hcall x) (go l')
                 end) l)
  | RRecord l =>
      Hrec l ((fix go (l : list (str * rval)) : Forall (fun kv => P (snd kv)) l :=
                 match l with
                 | [] => Forall_nil _
                 | kv :: l' =>
                     Forall_cons kv
                       (match kv as kv0 return P (snd kv0) with
                        | (k, x) => rval_ind' P Hb Hl Hs He Hset Hrec Hcall x
                        end) (go l')
                 end) l)
  | RCall f l =>
      Hcall f l ((fix go (l : list rval) : Forall P l :=
                    match l with
                    | [] => Forall_nil P
                    | x :: l' => Forall_cons x (rval_ind' P Hb Hl Hs He Hset Hrec Hcall x) (go l')
                    end) l)
  end.

(* ---------------------------------------------------------------- predicates *)
Definition is_nil {A} (l : list A) : bool := match l with [] => true | _ => false end.

(* values the JSON layer can meet: longs are i64, entity types and function names are valid
   names, no call without arguments *)
Fixpoint wf_rval (v : rval) : bool :=
  match v with
  | RLong z => in_i64 z
  | REntity u => valid_name (jty u)
  | RSet l => forallb wf_rval l
  | RRecord l => forallb (fun kv => wf_rval (snd kv)) l
  | RCall f args => valid_name f && negb (is_nil args) && forallb wf_rval args
  | _ => true
  end.

Fixpoint calls_nonempty (v : rval) : bool :=
  match v with
  | RSet l => forallb calls_nonempty l
  | RRecord l => forallb (fun kv => calls_nonempty (snd kv)) l
  | RCall f args => negb (is_nil args) && forallb calls_nonempty args
  | _ => true
  end.

(* a record with a key `__entity` / `__extn` / `__expr` occurs somewhere in the value *)
Fixpoint has_reserved (v : rval) : bool :=
  match v with
  | RSet l => existsb has_reserved l
  | RRecord l => existsb reserved_key (map fst l) || existsb (fun kv => has_reserved (snd kv)) l
  | RCall _ args => existsb has_reserved args
  | _ => false
  end.

Fixpoint rval_to_cvj (v : rval) : cvj :=
  match v with
  | RBool b => CBool b
  | RLong z => CLong z
  | RString s => CString s
  | REntity u => CEntity (jty u) (jid u)
  | RSet l => CSet (map rval_to_cvj l)
  | RRecord l => CRecord (map (fun kv => (fst kv, rval_to_cvj (snd kv))) l)
  | RCall f args => CExtn f (map rval_to_cvj args)
  end.

(* ---------------------------------------------------------------- jmapM *)
Lemma jmapM_nil {A B} (f : A -> jr B) : jmapM f [] = JOk [].
Proof. reflexivity. Qed.

Lemma jmapM_cons {A B} (f : A -> jr B) x l :
  jmapM f (x :: l) = (dj y <- f x; dj ys <- jmapM f l; JOk (y :: ys)).
Proof. reflexivity. Qed.

Lemma jmapM_ok_map {A B C} (f : A -> jr B) (g : B -> jr C) (h : A -> C) l :
  Forall (fun x => forall y, f x = JOk y -> g y = JOk (h x)) l ->
  forall ys, jmapM f l = JOk ys -> jmapM g ys = JOk (map h l).
Proof.
  induction 1 as [|x l Hx Hl IH]; intros ys Hys.
  - rewrite jmapM_nil in Hys. inversion Hys. reflexivity.
  - rewrite jmapM_cons in Hys. destruct (f x) as [y|e] eqn:Ef; [|discriminate].
    cbn [jbind] in Hys. destruct (jmapM f l) as [ys'|e] eqn:El; [|discriminate].
    cbn [jbind] in Hys. inversion Hys; subst ys.
    rewrite jmapM_cons. rewrite (Hx y eq_refl). cbn [jbind].
    rewrite (IH ys' eq_refl). reflexivity.
Qed.

Lemma jmapM_map_id {A B} (g : B -> jr A) (h : A -> B) l :
  Forall (fun x => g (h x) = JOk x) l -> jmapM g (map h l) = JOk l.
Proof.
  induction 1 as [|x l Hx Hl IH]; [reflexivity|].
  cbn [map]. rewrite jmapM_cons, Hx. cbn [jbind]. rewrite IH. reflexivity.
Qed.

Lemma jmapM_cases {A B} (f : A -> jr B) (hr : A -> bool) (E : jerr) l :
  Forall (fun x => if hr x then f x = JErr E else exists y, f x = JOk y) l ->
  if existsb hr l then jmapM f l = JErr E else exists ys, jmapM f l = JOk ys.
Proof.
  induction 1 as [|x l Hx Hl IH].
  - cbn. eexists. reflexivity.
  - cbn [existsb]. rewrite jmapM_cons. destruct (hr x).
    + rewrite Hx. reflexivity.
    + destruct Hx as [y Hy]. rewrite Hy. cbn [jbind orb].
      destruct (existsb hr l).
      * rewrite IH. reflexivity.
      * destruct IH as [ys Hys]. rewrite Hys. eexists. reflexivity.
Qed.

Lemma Forall_wf {A} (P : A -> Prop) (Q : A -> Prop) (w : A -> bool) l :
  Forall (fun x => w x = true -> P x) l -> forallb w l = true -> Forall P l.
Proof.
  intros H Hw. rewrite forallb_forall in Hw. rewrite Forall_forall in *. auto.
Qed.

(* ---------------------------------------------------------------- the one-key special case *)
Lemma special_none (cs : list (str * cvj)) :
  existsb reserved_key (map fst cs) = false ->
  match cs with
  | [(k, CRecord r)] =>
      if str_eqb k k_extn && Nat.leb 2 (List.length r) then
        match lookup k_fn r with
        | Some (CString f) =>
            match lookup k_arg r with
            | Some a => CExtn f [a]
            | None => match lookup k_args r with
                      | Some (CSet args) => CExtn f args
                      | _ => CRecord cs
                      end
            end
        | _ => CRecord cs
        end
      else if str_eqb k k_entity && Nat.leb 2 (List.length r) then
        match lookup k_type r, lookup k_id r with
        | Some (CString t), Some (CString i) => CEntity t i
        | _, _ => CRecord cs
        end
      else CRecord cs
  | [(k, CString s)] => if str_eqb k k_expr then CExpr s else CRecord cs
  | _ => CRecord cs
  end = CRecord cs.
Proof.
  intros H. destruct cs as [|[k c] rest]; [reflexivity|].
  destruct rest as [|kc2 rest]; [|destruct c; reflexivity].
  cbn [map fst existsb] in H. rewrite orb_false_r in H. unfold reserved_key in H.
  apply orb_false_elim in H. destruct H as [H Hexpr]. apply orb_false_elim in H. destruct H as [Hent Hextn].
  destruct c; try reflexivity.
  - rewrite Hexpr. reflexivity.
  - rewrite Hextn, Hent. reflexivity.
Qed.

(* ---------------------------------------------------------------- serialise, then deserialise *)
Lemma to_cvj_ok : forall v, wf_rval v = true ->
  forall j, value_to_json v = JOk j -> json_to_cvj j = JOk (rval_to_cvj v).
Proof.
  induction v using rval_ind'; intros Hwf j Hj.
  - cbn in Hj. inversion Hj. reflexivity.
  - cbn in Hj. inversion Hj. cbn [wf_rval] in Hwf. cbn [json_to_cvj]. rewrite Hwf. reflexivity.
  - cbn in Hj. inversion Hj. reflexivity.
  - destruct u as [t i]. cbn in Hj. inversion Hj. reflexivity.
  - (* set *)
    cbn [value_to_json] in Hj. destruct (jmapM value_to_json l) as [js|e] eqn:E; [|discriminate].
    cbn [jbind] in Hj. inversion Hj; subst j. cbn [json_to_cvj wf_rval] in *.
    assert (HF : Forall (fun x => forall y, value_to_json x = JOk y -> json_to_cvj y = JOk (rval_to_cvj x)) l).
    { rewrite forallb_forall in Hwf. rewrite Forall_forall in *. intros x Hin y Hy. apply H; auto. }
    rewrite (jmapM_ok_map _ _ _ _ HF _ E). reflexivity.
  - (* record *)
    cbn [value_to_json] in Hj. destruct (existsb reserved_key (map fst l)) eqn:Hres; [discriminate|].
    unfold jmapV in Hj.
    destruct (jmapM (fun kv => dj y <- value_to_json (snd kv); JOk (fst kv, y)) l) as [js|e] eqn:E; [|discriminate].
    cbn [jbind] in Hj. inversion Hj; subst j. cbn [json_to_cvj wf_rval] in *. unfold jmapV.
    assert (HF : Forall (fun kv => forall y, (dj y <- value_to_json (snd kv); JOk (fst kv, y)) = JOk y ->
                          (dj c <- json_to_cvj (snd y); JOk (fst y, c)) = JOk (fst kv, rval_to_cvj (snd kv))) l).
    { rewrite forallb_forall in Hwf. rewrite Forall_forall in *. intros kv Hin y Hy.
      destruct (value_to_json (snd kv)) as [jv|e] eqn:Ev; [|discriminate].
      cbn [jbind] in Hy. inversion Hy; subst y. cbn [fst snd].
      rewrite (H kv Hin (Hwf kv Hin) jv Ev). reflexivity. }
    rewrite (jmapM_ok_map _ _ (fun kv => (fst kv, rval_to_cvj (snd kv))) _ HF _ E). cbn [jbind].
    rewrite special_none; [reflexivity|].
    rewrite map_map. cbn [fst]. exact Hres.
  - (* call *)
    cbn [wf_rval] in Hwf. apply andb_true_iff in Hwf. destruct Hwf as [Hwf Hargs].
    apply andb_true_iff in Hwf. destruct Hwf as [Hname Hnn].
    assert (HF : Forall (fun x => forall y, value_to_json x = JOk y -> json_to_cvj y = JOk (rval_to_cvj x)) l).
    { rewrite forallb_forall in Hargs. rewrite Forall_forall in *. intros x Hin y Hy. apply H; auto. }
    destruct l as [|a [|b rest]].
    + discriminate.
    + cbn [value_to_json] in Hj. destruct (value_to_json a) as [ja|e] eqn:Ea; [|discriminate].
      cbn [jbind] in Hj. inversion Hj; subst j.
      inversion HF as [|? ? Ha _]; subst.
      cbn [json_to_cvj]. unfold jmapV. rewrite !jmapM_cons, !jmapM_nil. cbn [snd fst json_to_cvj jbind]. unfold jmapV.
      rewrite !jmapM_cons, !jmapM_nil. cbn [snd fst json_to_cvj jbind].
      rewrite (Ha ja Ea). cbn [jbind]. reflexivity.
    + remember (a :: b :: rest) as args.
      assert (Hj' : (dj js <- jmapM value_to_json args;
                     JOk (JObj [(k_extn, JObj [(k_fn, JStr f); (k_args, JArr js)])])) = JOk j).
      { subst args. exact Hj. }
      clear Hj. destruct (jmapM value_to_json args) as [js|e] eqn:E; [|discriminate].
      cbn [jbind] in Hj'. inversion Hj'; subst j.
      pose proof (jmapM_ok_map _ _ _ _ HF _ E) as Hcs.
      cbn [json_to_cvj]. unfold jmapV. rewrite !jmapM_cons, !jmapM_nil. cbn [snd fst json_to_cvj jbind]. unfold jmapV.
      rewrite !jmapM_cons, !jmapM_nil. cbn [snd fst json_to_cvj jbind].
      rewrite Hcs. cbn [jbind]. subst args. reflexivity.
Qed.

Lemma of_cvj_ok : forall v, wf_rval v = true -> cvj_to_rval (rval_to_cvj v) = JOk v.
Proof.
  induction v using rval_ind'; intros Hwf; try reflexivity.
  - destruct u as [t i]. cbn in *. rewrite Hwf. reflexivity.
  - cbn [rval_to_cvj cvj_to_rval wf_rval] in *.
    rewrite jmapM_map_id; [reflexivity|].
    rewrite forallb_forall in Hwf. rewrite Forall_forall in *. auto.
  - cbn [rval_to_cvj cvj_to_rval wf_rval] in *. unfold jmapV.
    rewrite (jmapM_map_id (fun kv => dj y <- cvj_to_rval (snd kv); JOk (fst kv, y))
                          (fun kv => (fst kv, rval_to_cvj (snd kv)))); [reflexivity|].
    rewrite forallb_forall in Hwf. rewrite Forall_forall in *. intros [k x] Hin. cbn [fst snd].
    pose proof (H (k, x) Hin (Hwf (k, x) Hin)) as Hk. cbn [snd] in Hk. rewrite Hk. reflexivity.
  - cbn [rval_to_cvj cvj_to_rval wf_rval] in *.
    apply andb_true_iff in Hwf. destruct Hwf as [Hwf Hargs]. apply andb_true_iff in Hwf. destruct Hwf as [Hname _].
    rewrite Hname. rewrite jmapM_map_id; [reflexivity|].
    rewrite forallb_forall in Hargs. rewrite Forall_forall in *. auto.
Qed.

(* c10_value_rt *)
Lemma value_rt : forall v j, wf_rval v = true -> value_to_json v = JOk j -> json_to_value None j = JOk v.
Proof.
  intros v j Hwf Hj. unfold json_to_value, parse_generic.
  rewrite (to_cvj_ok v Hwf j Hj). cbn [jbind]. apply of_cvj_ok. exact Hwf.
Qed.

(* the same for a context (top-level entries), provided serialisation and re-parse both see a record *)
(* ---------------------------------------------------------------- refusal *)
Lemma ser_cases : forall v, calls_nonempty v = true ->
  if has_reserved v then value_to_json v = JErr EReservedKey else exists j, value_to_json v = JOk j.
Proof.
  induction v using rval_ind'; intros Hc; try (cbn; eexists; reflexivity).
  - (* set *)
    cbn [has_reserved value_to_json calls_nonempty] in *.
    assert (HF : Forall (fun x => if has_reserved x then value_to_json x = JErr EReservedKey
                                  else exists y, value_to_json x = JOk y) l).
    { rewrite forallb_forall in Hc. rewrite Forall_forall in *. intros x Hin. apply H; [exact Hin | apply Hc; exact Hin]. }
    pose proof (jmapM_cases _ _ _ _ HF) as Hl. destruct (existsb has_reserved l).
    + rewrite Hl. reflexivity.
    + destruct Hl as [ys Hys]. rewrite Hys. eexists. reflexivity.
  - (* record *)
    cbn [has_reserved value_to_json calls_nonempty] in *.
    destruct (existsb reserved_key (map fst l)); [reflexivity|]. cbn [orb]. unfold jmapV.
    assert (HF : Forall (fun kv => if has_reserved (snd kv)
                                   then (dj y <- value_to_json (snd kv); JOk (fst kv, y)) = JErr EReservedKey
                                   else exists y, (dj y <- value_to_json (snd kv); JOk (fst kv, y)) = JOk y) l).
    { rewrite forallb_forall in Hc. rewrite Forall_forall in *. intros kv Hin.
      pose proof (H kv Hin (Hc kv Hin)) as Hk. destruct (has_reserved (snd kv)).
      - rewrite Hk. reflexivity.
      - destruct Hk as [y Hy]. rewrite Hy. eexists. reflexivity. }
    pose proof (jmapM_cases _ (fun kv => has_reserved (snd kv)) _ _ HF) as Hl.
    destruct (existsb (fun kv => has_reserved (snd kv)) l).
    + rewrite Hl. reflexivity.
    + destruct Hl as [ys Hys]. rewrite Hys. eexists. reflexivity.
  - (* call *)
    cbn [has_reserved calls_nonempty] in *. apply andb_true_iff in Hc. destruct Hc as [Hnn Hc].
    assert (HF : Forall (fun x => if has_reserved x then value_to_json x = JErr EReservedKey
                                  else exists y, value_to_json x = JOk y) l).
    { rewrite forallb_forall in Hc. rewrite Forall_forall in *. intros x Hin. apply H; [exact Hin | apply Hc; exact Hin]. }
    destruct l as [|a [|b rest]].
    + discriminate.
    + inversion HF as [|? ? Ha _]; subst. cbn [existsb value_to_json]. rewrite orb_false_r.
      destruct (has_reserved a).
      * rewrite Ha. reflexivity.
      * destruct Ha as [y Hy]. rewrite Hy. eexists. reflexivity.
    + pose proof (jmapM_cases _ _ _ _ HF) as Hl.
      remember (a :: b :: rest) as args.
      assert (Hv : value_to_json (RCall f args) =
                   (dj js <- jmapM value_to_json args;
                    JOk (JObj [(k_extn, JObj [(k_fn, JStr f); (k_args, JArr js)])]))).
      { subst args. reflexivity. }
      rewrite Hv. destruct (existsb has_reserved args).
      * rewrite Hl. reflexivity.
      * destruct Hl as [ys Hys]. rewrite Hys. eexists. reflexivity.
Qed.

(* c10_reserved *)
Lemma reserved_iff : forall v, calls_nonempty v = true ->
  ((exists e, value_to_json v = JErr e) <-> has_reserved v = true) /\
  (forall e, value_to_json v = JErr e -> e = EReservedKey).
Proof.
  intros v Hc. pose proof (ser_cases v Hc) as H. destruct (has_reserved v).
  - split.
    + split; [reflexivity|]. intros _. eexists. exact H.
    + intros e He. rewrite H in He. inversion He. reflexivity.
  - destruct H as [j Hj]. split.
    + split; [|discriminate]. intros [e He]. rewrite Hj in He. discriminate.
    + intros e He. rewrite Hj in He. discriminate.
Qed.

(* ---------------------------------------------------------------- implicit = explicit at the leaves *)
Lemma implicit_entity : forall t u, valid_name (jty u) = true ->
  parse_ty (STEntity t) (juid_json u) = JOk (REntity u) /\
  parse_ty (STEntity t) (JObj [(k_entity, juid_json u)]) = JOk (REntity u) /\
  json_to_value None (JObj [(k_entity, juid_json u)]) = JOk (REntity u).
Proof.
  intros t [ty i] H. cbn [jty] in H. repeat split.
  - cbn. rewrite H. reflexivity.
  - cbn. rewrite H. reflexivity.
  - cbn. rewrite H. reflexivity.
Qed.

Lemma implicit_ext : forall tyname ctor s, In (tyname, ctor) ext_constructors ->
  let explicit := JObj [(k_extn, JObj [(k_fn, JStr ctor); (k_arg, JStr s)])] in
  parse_ty (STExt tyname) (JStr s) = JOk (RCall ctor [RString s]) /\
  parse_ty (STExt tyname) (JObj [(k_fn, JStr ctor); (k_arg, JStr s)]) = JOk (RCall ctor [RString s]) /\
  parse_ty (STExt tyname) explicit = JOk (RCall ctor [RString s]) /\
  json_to_value None explicit = JOk (RCall ctor [RString s]).
Proof.
  intros tyname ctor s Hin.
  cbn in Hin. destruct Hin as [H|[H|[H|[H|[]]]]]; inversion H; subst; repeat split; reflexivity.
Qed.

(* ---------------------------------------------------------------- contexts *)
(* Context::to_json_value refuses reserved top-level keys (4b26962), so a context is serialised
   exactly like the record of its entries and the round trip needs no condition on the keys *)
Lemma context_as_record : forall pairs, context_to_json pairs = value_to_json (RRecord pairs).
Proof. intros pairs. reflexivity. Qed.

Lemma context_rt : forall pairs j,
  wf_rval (RRecord pairs) = true -> rval_evaluable (RRecord pairs) = true ->
  context_to_json pairs = JOk j -> context_from_json None j = JOk pairs.
Proof.
  intros pairs j Hwf Hev Hj. rewrite context_as_record in Hj.
  unfold context_from_json. rewrite (value_rt _ _ Hwf Hj). cbn [jbind]. rewrite Hev. reflexivity.
Qed.

(* and it is refused exactly when a reserved key occurs at the top level or below *)
Lemma context_reserved : forall pairs, calls_nonempty (RRecord pairs) = true ->
  ((exists e, context_to_json pairs = JErr e) <-> has_reserved (RRecord pairs) = true).
Proof.
  intros pairs Hc. rewrite context_as_record. exact (proj1 (reserved_iff (RRecord pairs) Hc)).
Qed.

(* ---------------------------------------------------------------- entity level *)
Definition wf_pairs (l : list (str * rval)) : bool :=
  forallb (fun kv => wf_rval (snd kv) && rval_evaluable (snd kv)) l.

(* an entity as a store holds it: valid type names, well-formed evaluable attribute and tag
   values, and an action entity only has action ancestors *)
Definition wf_entity (e : jentity) : bool :=
  valid_name (jty (je_uid e)) && wf_pairs (je_attrs e) && wf_pairs (je_tags e) &&
  forallb (fun p => valid_name (jty p) &&
                    (negb (is_action_type (jty (je_uid e))) || is_action_type (jty p))) (je_anc e).

Lemma emapM_nil {A B} (f : A -> er B) : emapM f [] = EOk [].
Proof. reflexivity. Qed.
Lemma emapM_cons {A B} (f : A -> er B) x l :
  emapM f (x :: l) = (de y <- f x; de ys <- emapM f l; EOk (y :: ys)).
Proof. reflexivity. Qed.

Lemma parse_ref_juid : forall u, valid_name (jty u) = true -> parse_entity_ref (juid_json u) = JOk u.
Proof. intros [t i] H. cbn in *. rewrite H. reflexivity. Qed.

Lemma pairs_back (f : str * json -> er (str * rval)) :
  (forall kv, f kv = (de v <- lift (parse_generic (snd kv)); EOk (fst kv, v))) ->
  forall l js, wf_pairs l = true -> jmapV value_to_json l = JOk js -> emapM f js = EOk l.
Proof.
  intros Hf. unfold jmapV. induction l as [|[k v] l IH]; intros js Hwf Hjs.
  - rewrite jmapM_nil in Hjs. inversion Hjs. reflexivity.
  - rewrite jmapM_cons in Hjs. cbn [snd fst] in Hjs.
    destruct (value_to_json v) as [jv|e] eqn:Ev; [|discriminate]. cbn [jbind] in Hjs.
    destruct (jmapM (fun kv => dj y <- value_to_json (snd kv); JOk (fst kv, y)) l) as [js'|e] eqn:El; [|discriminate].
    cbn [jbind] in Hjs. inversion Hjs; subst js.
    unfold wf_pairs in Hwf. cbn [forallb snd] in Hwf. apply andb_true_iff in Hwf. destruct Hwf as [Hv Hl].
    apply andb_true_iff in Hv. destruct Hv as [Hv _].
    rewrite emapM_cons, Hf. cbn [snd fst].
    pose proof (value_rt v jv Hv Ev) as Hrt. unfold json_to_value in Hrt. rewrite Hrt. cbn [lift ebind].
    rewrite (IH js' Hl eq_refl). reflexivity.
Qed.

Lemma jmapV_nil_inv {A B} (f : A -> jr B) l : jmapV f l = JOk [] -> l = [].
Proof.
  unfold jmapV. destruct l as [|kv l]; [reflexivity|]. rewrite jmapM_cons.
  destruct (f (snd kv)); cbn [jbind]; [|discriminate].
  destruct (jmapM _ l); cbn [jbind]; discriminate.
Qed.

Lemma parents_back : forall uid anc,
  forallb (fun p => valid_name (jty p) && (negb (is_action_type (jty uid)) || is_action_type (jty p))) anc = true ->
  emapM (parse_parent uid) (map juid_json anc) = EOk anc.
Proof.
  intros uid. induction anc as [|p anc IH]; intros H; [reflexivity|].
  cbn [forallb] in H. apply andb_true_iff in H. destruct H as [Hp Hrest].
  apply andb_true_iff in Hp. destruct Hp as [Hv Ha].
  cbn [map]. rewrite emapM_cons. unfold parse_parent at 1. rewrite (parse_ref_juid p Hv). cbn [lift ebind].
  destruct (is_action_type (jty uid)); cbn [negb orb andb] in *.
  - rewrite Ha. cbn [negb]. cbn [ebind]. rewrite (IH Hrest). reflexivity.
  - cbn [ebind]. rewrite (IH Hrest). reflexivity.
Qed.

Lemma evaluable_pairs : forall l, wf_pairs l = true -> forallb (fun kv => rval_evaluable (snd kv)) l = true.
Proof.
  intros l H. unfold wf_pairs in H. rewrite forallb_forall in *. intros kv Hin.
  specialize (H kv Hin). apply andb_true_iff in H. tauto.
Qed.

(* c10_entity_rt *)
Lemma entity_rt : forall e j, wf_entity e = true -> entity_to_json e = JOk j -> entity_from_json None j = EOk e.
Proof.
  intros [uid attrs tags anc] j Hwf Hj. unfold wf_entity in Hwf. cbn [je_uid je_attrs je_tags je_anc] in Hwf.
  apply andb_true_iff in Hwf. destruct Hwf as [Hwf Hanc]. apply andb_true_iff in Hwf. destruct Hwf as [Hwf Htags].
  apply andb_true_iff in Hwf. destruct Hwf as [Huid Hattrs].
  unfold entity_to_json in Hj. cbn [je_uid je_attrs je_tags je_anc] in Hj.
  destruct (jmapV value_to_json attrs) as [ajs|e1] eqn:Ea; [|discriminate]. cbn [jbind] in Hj.
  destruct (jmapV value_to_json tags) as [tjs|e2] eqn:Et; [|discriminate]. cbn [jbind] in Hj.
  inversion Hj; subst j. clear Hj.
  pose proof (pairs_back (parse_attr NoSchemaInfo) (fun kv => eq_refl) attrs ajs Hattrs Ea) as Pa.
  pose proof (pairs_back (parse_tag NoSchemaInfo) (fun kv => eq_refl) tags tjs Htags Et) as Pt.
  pose proof (parents_back uid anc Hanc) as Pp.
  pose proof (evaluable_pairs attrs Hattrs) as Eva. pose proof (evaluable_pairs tags Htags) as Evt.
  destruct tjs as [|t0 tjs'].
  - apply jmapV_nil_inv in Et. subst tags.
    cbn [app entity_from_json].
    change (lookup k_uid [(k_attrs, JObj ajs); (k_parents, JArr (map juid_json anc)); (k_uid, juid_json uid)])
      with (Some (juid_json uid)).
    change (lookup k_attrs [(k_attrs, JObj ajs); (k_parents, JArr (map juid_json anc)); (k_uid, juid_json uid)])
      with (Some (JObj ajs)).
    change (lookup k_parents [(k_attrs, JObj ajs); (k_parents, JArr (map juid_json anc)); (k_uid, juid_json uid)])
      with (Some (JArr (map juid_json anc))).
    change (lookup k_tags [(k_attrs, JObj ajs); (k_parents, JArr (map juid_json anc)); (k_uid, juid_json uid)])
      with (@None json).
    cbv beta iota.
    rewrite (parse_ref_juid uid Huid). cbn [lift ebind]. rewrite Pa. cbn [ebind]. rewrite emapM_nil. cbn [ebind].
    rewrite Pp. cbn [ebind]. rewrite Eva. reflexivity.
  - cbn [app entity_from_json].
    set (o := [(k_attrs, JObj ajs); (k_parents, JArr (map juid_json anc)); (k_tags, JObj (t0 :: tjs')); (k_uid, juid_json uid)]).
    change (lookup k_uid o) with (Some (juid_json uid)).
    change (lookup k_attrs o) with (Some (JObj ajs)).
    change (lookup k_parents o) with (Some (JArr (map juid_json anc))).
    change (lookup k_tags o) with (Some (JObj (t0 :: tjs'))).
    cbv beta iota.
    rewrite (parse_ref_juid uid Huid). cbn [lift ebind]. rewrite Pa. cbn [ebind]. rewrite Pt. cbn [ebind].
    rewrite Pp. cbn [ebind]. rewrite Eva, Evt. reflexivity.
Qed.

(* ---------------------------------------------------------------- implicit = explicit, all types *)
From Cedar Require Import ValueProofs.

Fixpoint sty_ind' (P : sty -> Prop)
  (Hb : P STBool) (Hl : P STLong) (Hs : P STString) (Hes : P STEmptySet)
  (Hset : forall e, P e -> P (STSet e))
  (Hrec : forall attrs o, Forall (fun a => P (fst (snd a))) attrs -> P (STRecord attrs o))
  (Hent : forall t, P (STEntity t)) (Hext : forall n, P (STExt n))
  (t : sty) {struct t} : P t :=
  match t with
  | STBool => Hb
  | STLong => Hl
  | STString => Hs
  | STEmptySet => Hes
  | STSet e => Hset e (sty_ind' P Hb Hl Hs Hes Hset Hrec Hent Hext e)
  | STRecord attrs o =>
      Hrec attrs o
        ((fix go (l : list (str * (sty * bool))) : Forall (fun a => P (fst (snd a))) l :=
            match l with
            | [] => Forall_nil _
            | a :: l' =>
                Forall_cons a
                  (match a as a0 return P (fst (snd a0)) with
                   | (k, (t', r)) => sty_ind' P Hb Hl Hs Hes Hset Hrec Hent Hext t'
                   end) (go l')
            end) attrs)
  | STEntity n => Hent n
  | STExt n => Hext n
  end.

(* `variant t v j`: j is a JSON form of the value v of type t, with a free choice at every node
   between the implicit forms ({type,id}; bare string; {fn,arg}) and the explicit escapes, inside
   sets and (closed) records with optional attributes present or absent *)
Inductive variant : sty -> rval -> json -> Prop :=
| V_bool b : variant STBool (RBool b) (JBool b)
| V_long z : in_i64 z = true -> variant STLong (RLong z) (JInt z)
| V_string s : variant STString (RString s) (JStr s)
| V_ent_impl t u : valid_name (jty u) = true -> variant (STEntity t) (REntity u) (juid_json u)
| V_ent_expl t u : valid_name (jty u) = true ->
    variant (STEntity t) (REntity u) (JObj [(k_entity, juid_json u)])
| V_ext_bare n c s : In (n, c) ext_constructors -> variant (STExt n) (RCall c [RString s]) (JStr s)
| V_ext_fnarg n c s : In (n, c) ext_constructors ->
    variant (STExt n) (RCall c [RString s]) (JObj [(k_fn, JStr c); (k_arg, JStr s)])
| V_ext_expl n c s : In (n, c) ext_constructors ->
    variant (STExt n) (RCall c [RString s]) (JObj [(k_extn, JObj [(k_fn, JStr c); (k_arg, JStr s)])])
| V_set e vs js : Forall2 (variant e) vs js -> variant (STSet e) (RSet vs) (JArr js)
| V_rec attrs fs o : NoDup (map fst attrs) -> rec_variant attrs fs o ->
    variant (STRecord attrs false) (RRecord fs) (JObj o)
with rec_variant : list (str * (sty * bool)) -> list (str * rval) -> list (str * json) -> Prop :=
| RV_nil : rec_variant [] [] []
| RV_present k t req attrs v j fs o :
    variant t v j -> rec_variant attrs fs o ->
    rec_variant ((k, (t, req)) :: attrs) ((k, v) :: fs) ((k, j) :: o)
| RV_absent k t attrs fs o :
    lookup k o = None -> rec_variant attrs fs o ->
    rec_variant ((k, (t, false)) :: attrs) fs o.

Definition rec_go (o : list (str * json)) : list (str * (sty * bool)) -> jr (list (str * rval)) :=
  fix go (l : list (str * (sty * bool))) : jr (list (str * rval)) :=
    match l with
    | [] => JOk []
    | (k, (t', req)) :: l' =>
        match lookup k o with
        | Some x => dj v <- parse_ty t' x; dj vs <- go l'; JOk ((k, v) :: vs)
        | None => if req then JErr EMissingRequiredRecordAttr else go l'
        end
    end.

Lemma parse_ty_record attrs open o :
  parse_ty (STRecord attrs open) (JObj o) =
  (dj vs <- rec_go o attrs;
   if negb open && existsb (fun kv => negb (has_key (fst kv) attrs)) o
   then JErr EUnexpectedRecordAttr else JOk (RRecord vs)).
Proof. reflexivity. Qed.

Lemma rec_go_ok : forall ofull attrs fs o,
  rec_variant attrs fs o ->
  Forall (fun a => forall v j, variant (fst (snd a)) v j -> parse_ty (fst (snd a)) j = JOk v) attrs ->
  NoDup (map fst attrs) ->
  (forall k, In k (map fst attrs) -> lookup k ofull = lookup k o) ->
  rec_go ofull attrs = JOk fs.
Proof.
  intros ofull attrs fs o H. induction H as [|k t req attrs v j fs o Hv Hr IH|k t attrs fs o Hk Hr IH];
    intros HF Hnd Hinv.
  - reflexivity.
  - cbn [rec_go]. rewrite (Hinv k (or_introl eq_refl)). cbn [lookup]. rewrite str_eqb_refl.
    inversion HF as [|? ? Ha HF']; subst. cbn [fst snd] in Ha. rewrite (Ha v j Hv). cbn [jbind].
    cbn [map fst] in Hnd. inversion Hnd as [|? ? Hnotin Hnd']; subst.
    fold (rec_go ofull). rewrite IH; [reflexivity|exact HF'|exact Hnd'|].
    intros k' Hin. rewrite (Hinv k' (or_intror Hin)). cbn [lookup].
    destruct (str_eqb k' k) eqn:E; [|reflexivity].
    apply str_eqb_eq in E. subst k'. contradiction.
  - cbn [rec_go]. rewrite (Hinv k (or_introl eq_refl)). rewrite Hk.
    inversion HF as [|? ? Ha HF']; subst. cbn [map fst] in Hnd. inversion Hnd as [|? ? Hnotin Hnd']; subst.
    fold (rec_go ofull). apply IH; [exact HF'|exact Hnd'|].
    intros k' Hin. apply Hinv. right. exact Hin.
Qed.

Lemma has_key_cons {V} k k' (x : V) l : has_key k l = true -> has_key k ((k', x) :: l) = true.
Proof.
  unfold has_key. cbn [lookup]. destruct (str_eqb k k'); [reflexivity|]. intros H. exact H.
Qed.

Lemma rec_variant_keys : forall attrs fs o, rec_variant attrs fs o ->
  forall kv, In kv o -> has_key (fst kv) attrs = true.
Proof.
  intros attrs fs o H. induction H as [|k t req attrs v j fs o Hv Hr IH|k t attrs fs o Hk Hr IH]; intros kv Hin.
  - destruct Hin.
  - destruct Hin as [E|Hin].
    + subst kv. cbn [fst]. unfold has_key. cbn [lookup]. rewrite str_eqb_refl. reflexivity.
    + apply has_key_cons. apply IH. exact Hin.
  - apply has_key_cons. apply IH. exact Hin.
Qed.

Lemma variant_parse : forall t v j, variant t v j -> parse_ty t j = JOk v.
Proof.
  induction t using sty_ind'; intros v j Hv.
  - inversion Hv; subst. reflexivity.
  - inversion Hv as [|z Hz| | | | | | | |]; subst.
    change (parse_ty STLong (JInt z)) with (parse_generic (JInt z)).
    unfold parse_generic. cbn [json_to_cvj]. rewrite Hz. reflexivity.
  - inversion Hv; subst. reflexivity.
  - inversion Hv.
  - (* set *)
    inversion Hv as [| | | | | | | |e' vs js HF2|]; subst. cbn [parse_ty].
    assert (Hl : jmapM (parse_ty t) js = JOk vs).
    { clear Hv. induction HF2 as [|x y xs ys Hxy HF2 IH2]; [reflexivity|].
      rewrite jmapM_cons, (IHt x y Hxy). cbn [jbind]. rewrite IH2. reflexivity. }
    rewrite Hl. reflexivity.
  - (* record *)
    inversion Hv as [| | | | | | | | |attrs' fs ob Hnd Hrv]; subst.
    rewrite parse_ty_record.
    rewrite (rec_go_ok ob attrs fs ob Hrv H Hnd (fun k _ => eq_refl)). cbn [jbind negb andb].
    destruct (existsb (fun kv => negb (has_key (fst kv) attrs)) ob) eqn:E; [|reflexivity].
    apply existsb_exists in E. destruct E as [kv [Hin Hneg]].
    rewrite (rec_variant_keys attrs fs ob Hrv kv Hin) in Hneg. discriminate.
  - (* entity *)
    inversion Hv; subst.
    + apply (implicit_entity t u); assumption.
    + apply (implicit_entity t u); assumption.
  - (* extension *)
    inversion Hv; subst.
    + apply (implicit_ext n c s); assumption.
    + apply (implicit_ext n c s); assumption.
    + apply (implicit_ext n c s); assumption.
Qed.

(* c10_implicit_explicit *)
Lemma implicit_explicit : forall t v j je,
  variant t v j -> wf_rval v = true -> value_to_json v = JOk je ->
  json_to_value (Some t) j = JOk v /\ json_to_value None je = JOk v.
Proof.
  intros t v j je Hv Hwf Hje. split.
  - exact (variant_parse t v j Hv).
  - exact (value_rt v je Hwf Hje).
Qed.

(* ---------------------------------------------------------------- store level *)
Lemma juid_eqb_eq a b : juid_eqb a b = true <-> a = b.
Proof.
  destruct a as [t i], b as [t' i']. unfold juid_eqb. cbn [jty jid]. rewrite andb_true_iff, !str_eqb_eq.
  split; [intros [-> ->]; reflexivity | intros H; inversion H; auto].
Qed.

Lemma juid_mem_In u l : juid_mem u l = true <-> In u l.
Proof.
  unfold juid_mem. rewrite existsb_exists. split.
  - intros [x [Hin E]]. apply juid_eqb_eq in E. subst. exact Hin.
  - intros Hin. exists u. split; [exact Hin | apply juid_eqb_eq; reflexivity].
Qed.

Lemma juid_dedup_In u l : In u (juid_dedup l) <-> In u l.
Proof.
  induction l as [|x l IH]; [tauto|]. cbn [juid_dedup]. destruct (juid_mem x l) eqn:E.
  - rewrite IH. split; [right; assumption|]. intros [->|H]; [apply juid_mem_In; exact E | exact H].
  - cbn [In]. rewrite IH. tauto.
Qed.

(* the ancestors of every member that is present are members *)
Definition closed_set (st : list jentity) (a : list juid) : Prop :=
  forall p e', In p a -> find_entity p st = Some e' -> incl (je_anc e') a.

Definition same_set (a b : list juid) : Prop := forall u, In u a <-> In u b.

Lemma closed_same st a b : same_set a b -> closed_set st a -> closed_set st b.
Proof.
  intros Hs Hc p e' Hp Hf u Hu. apply Hs. apply (Hc p e'); [apply Hs; exact Hp | exact Hf | exact Hu].
Qed.

Lemma anc_step_same st a : closed_set st a -> same_set (anc_step st a) a.
Proof.
  intros Hc u. unfold anc_step. rewrite juid_dedup_In, in_app_iff. split; [|tauto].
  intros [H|H]; [exact H|]. apply in_flat_map in H. destruct H as [p [Hp Hu]].
  destruct (find_entity p st) as [e'|] eqn:Ef; [|destruct Hu].
  exact (Hc p e' Hp Ef u Hu).
Qed.

Lemma anc_iter_same st : forall n a, closed_set st a -> same_set (anc_iter n st a) a.
Proof.
  induction n as [|n IH]; intros a Hc; [intros u; reflexivity|].
  cbn [anc_iter]. pose proof (anc_step_same st a Hc) as Hs.
  assert (Hc' : closed_set st (anc_step st a)).
  { apply (closed_same st a); [intros u; symmetry; apply Hs | exact Hc]. }
  intros u. rewrite (IH _ Hc' u). apply Hs.
Qed.

(* a store as Entities holds it *)
Definition store_ok (st : list jentity) : Prop :=
  Forall (fun e => wf_entity e = true) st /\ has_dup_uid st = false /\
  Forall (fun e => closed_set st (je_anc e) /\ ~ In (je_uid e) (je_anc e)) st.

Definition same_entity (e e' : jentity) : Prop :=
  je_uid e' = je_uid e /\ je_attrs e' = je_attrs e /\ je_tags e' = je_tags e /\
  same_set (je_anc e') (je_anc e).

Lemma entities_back : forall st js, Forall (fun e => wf_entity e = true) st ->
  jmapM entity_to_json st = JOk js -> emapM (entity_from_json None) js = EOk st.
Proof.
  induction st as [|e st IH]; intros js Hwf Hjs.
  - rewrite jmapM_nil in Hjs. inversion Hjs. reflexivity.
  - rewrite jmapM_cons in Hjs. destruct (entity_to_json e) as [j|x] eqn:Ej; [|discriminate]. cbn [jbind] in Hjs.
    destruct (jmapM entity_to_json st) as [js'|x] eqn:El; [|discriminate]. cbn [jbind] in Hjs.
    inversion Hjs; subst js. inversion Hwf as [|? ? He Hst]; subst.
    rewrite emapM_cons, (entity_rt e j He Ej). cbn [ebind]. rewrite (IH js' Hst eq_refl). reflexivity.
Qed.

Definition reclose (st : list jentity) (e : jentity) : jentity :=
  mkJentity (je_uid e) (je_attrs e) (je_tags e) (anc_iter (List.length st) st (juid_dedup (je_anc e))).

Lemma reclose_same st e : closed_set st (je_anc e) -> same_entity e (reclose st e).
Proof.
  intros Hc. unfold same_entity, reclose. cbn [je_uid je_attrs je_tags je_anc]. repeat split; try reflexivity.
  - intros H. assert (Hd : same_set (juid_dedup (je_anc e)) (je_anc e)) by (intros x; apply juid_dedup_In).
    apply Hd. revert H. apply anc_iter_same. apply (closed_same st (je_anc e)); [intros x; symmetry; apply Hd | exact Hc].
  - intros H. assert (Hd : same_set (juid_dedup (je_anc e)) (je_anc e)) by (intros x; apply juid_dedup_In).
    apply (anc_iter_same st (List.length st) (juid_dedup (je_anc e))).
    + apply (closed_same st (je_anc e)); [intros x; symmetry; apply Hd | exact Hc].
    + apply Hd. exact H.
Qed.

Lemma close_store_ok st : store_ok st ->
  close_store st = SOk (map (reclose st) st) /\ Forall2 same_entity st (map (reclose st) st).
Proof.
  intros [Hwf [Hdup Hcl]]. unfold close_store. fold (reclose st).
  assert (HF2 : forall l, Forall (fun e => closed_set st (je_anc e) /\ ~ In (je_uid e) (je_anc e)) l ->
                          Forall2 same_entity l (map (reclose st) l)).
  { induction 1 as [|e l [Hc _] _ IH]; cbn [map]; constructor; [apply reclose_same; exact Hc | exact IH]. }
  split; [|apply HF2; exact Hcl].
  destruct (existsb (fun e => juid_mem (je_uid e) (je_anc e)) (map (reclose st) st)) eqn:E; [|reflexivity].
  exfalso. apply existsb_exists in E. destruct E as [e' [Hin Hm]]. apply in_map_iff in Hin.
  destruct Hin as [e [<- Hin]]. rewrite Forall_forall in Hcl. destruct (Hcl e Hin) as [Hc Hnc].
  apply juid_mem_In in Hm. apply Hnc. destruct (reclose_same st e Hc) as [_ [_ [_ Hs]]].
  apply Hs. exact Hm.
Qed.

(* c10_store_rt *)
Lemma store_rt : forall st j, store_ok st -> store_to_json st = JOk j ->
  exists st', store_from_json None [] j = SOk st' /\ Forall2 same_entity st st'.
Proof.
  intros st j Hok Hj. unfold store_to_json in Hj.
  destruct (jmapM entity_to_json st) as [js|x] eqn:E; [|discriminate]. cbn [jbind] in Hj. inversion Hj; subst j.
  destruct Hok as [Hwf [Hdup Hcl]].
  exists (map (reclose st) st). unfold store_from_json. rewrite (entities_back st js Hwf E). rewrite Hdup.
  destruct (close_store_ok st (conj Hwf (conj Hdup Hcl))) as [Hc HF2]. rewrite Hc. split; [reflexivity|exact HF2].
Qed.

(* schema loading: the result is the closed document entities (those not overridden by an equal-uid
   action of the schema) followed by exactly the schema's action entities *)
Lemma store_schema_actions : forall sch acts l st',
  store_from_json (Some sch) acts (JArr l) = SOk st' ->
  exists es closed,
    emapM (entity_from_json (Some sch)) l = EOk es /\ close_store es = SOk closed /\
    st' = filter (fun e => negb (existsb (fun a => juid_eqb (je_uid e) (je_uid a)) acts)) closed ++ acts.
Proof.
  intros sch acts l st' H. unfold store_from_json in H.
  destruct (emapM (entity_from_json (Some sch)) l) as [es|x]; [|discriminate].
  destruct (has_dup_uid es); [discriminate|].
  destruct (close_store es) as [closed|x] eqn:Ec; [|discriminate].
  inversion H. exists es, closed. auto.
Qed.

Lemma store_schema_actions_in : forall sch acts l st',
  store_from_json (Some sch) acts (JArr l) = SOk st' ->
  incl acts st' /\
  (forall e, In e st' -> In e acts \/
     (forall a, In a acts -> je_uid a <> je_uid e)).
Proof.
  intros sch acts l st' H. destruct (store_schema_actions sch acts l st' H) as [es [closed [_ [_ ->]]]]. split.
  - intros a Ha. apply in_or_app. right. exact Ha.
  - intros e He. apply in_app_or in He. destruct He as [He|He]; [right|left; exact He].
    apply filter_In in He. destruct He as [_ Hn]. intros a Ha Eq.
    apply negb_true_iff in Hn. assert (Ht : existsb (fun a0 => juid_eqb (je_uid e) (je_uid a0)) acts = true).
    { apply existsb_exists. exists a. split; [exact Ha | apply juid_eqb_eq; symmetry; exact Eq]. }
    rewrite Ht in Hn. discriminate.
Qed.
