(* TypecheckProofs2.v — C03 soundness, continued: if-then-else; then attribute access on paths, ... *)
From Cedar Require Import Typecheck ValueProofs ConformProofs ExprEq TypecheckProofs.
#[local] Hint Resolve at_true at_never caps_hold_nil caps_hold_app caps_hold_inter_l caps_hold_inter_r : c03.
Ltac bsh := subst; first [left; eexists; reflexivity | right; reflexivity].

(* ---------------------------------------------------------------------------------------
   if c then x else y  (x, y boolean-rooted) *)
Definition bshape (t : ty) : Prop := (exists x, t = TBool x) \/ t = TNever.

Lemma boolish_type m sch env cs e t c :
  boolish e = true -> tc m sch env cs e = Some (t, c) -> bshape t.
Proof.
  unfold bshape.
  destruct e; cbn [boolish]; try discriminate; intros Hb H; cbn [tc] in H.
  - destruct p; try discriminate Hb. inversion H; subst. left. destruct b; eexists; reflexivity.
  - get_expect H ta ca Ea; apply expect_inv in Ea; destruct Ea as [_ Hsa];
      destruct (sub_bool_shape _ Hsa) as [[xa ->]| ->]; [destruct xa|];
      try (inversion H; bsh; fail);
      (get_expect H tb cb Eb; apply expect_inv in Eb; destruct Eb as [_ Hsb];
       destruct (sub_bool_shape _ Hsb) as [[xb ->]| ->]; [destruct xb|]; inversion H; bsh).
  - get_expect H ta ca Ea; apply expect_inv in Ea; destruct Ea as [_ Hsa];
      destruct (sub_bool_shape _ Hsa) as [[xa ->]| ->]; [destruct xa|];
      try (inversion H; bsh; fail);
      (get_expect H tb cb Eb; apply expect_inv in Eb; destruct Eb as [_ Hsb];
       destruct (sub_bool_shape _ Hsb) as [[xb ->]| ->]; [destruct xb|]; inversion H; bsh).
  - destruct op; try discriminate Hb. cbn [tc] in H.
    get_expect H ta ca Ea. destruct ta as [|b0| | | | | |]; try destruct b0; inversion H; bsh.
  - destruct op; try discriminate Hb. cbn [tc] in H.
    destruct (tc m sch env cs e1) as [[ta ca]|]; [|discriminate].
    destruct (tc m sch env cs e2) as [[tb cb]|]; [|discriminate].
    assert (Ht : t = type_of_equality env e1 ta e2 tb).
    { destruct (is_strict m); [destruct (strict_eq_ok _ _ _ _)|]; inversion H; auto. }
    subst t. unfold type_of_equality. destruct (disjoint_tys ta tb); [bsh|].
    destruct (replace_action env e1); try bsh. destruct (replace_action env e2); try bsh.
  - get_expect H tx cx Ex.
    destruct (lookup_attr_ty sch tx a) as [[ta [|]]|].
    + destruct (_ || _); inversion H; bsh.
    + destruct (caps_mem _ _); inversion H; bsh.
    + destruct (may_have_attr _ _ _); inversion H; bsh.
Qed.

Lemma lub_bshape_conf m a b t v :
  bshape a -> bshape b -> lub m a b = Some t -> (TypeConforms v a \/ TypeConforms v b) -> TypeConforms v t.
Proof.
  intros [[xa ->]| ->] [[xb ->]| ->] Hl [Hv|Hv]; try (exfalso; eapply conf_never; eassumption);
    try (destruct (conf_bool _ _ Hv) as (bv & -> & Hbv));
    try destruct xa; try destruct xb; destruct m; cbn in Hl; inversion Hl; subst;
    try (apply conf_vbool; auto); try exact Hv.
Qed.

Lemma lub_bshape_at m a b t :
  bshape a -> bshape b -> lub m a b = Some t -> always_true t -> always_true a /\ always_true b.
Proof.
  intros [[xa ->]| ->] [[xb ->]| ->] Hl Hat;
    try destruct xa; try destruct xb; destruct m; cbn in Hl; inversion Hl; subst;
    try (destruct Hat as [Hat|Hat]; discriminate Hat); split; auto with c03.
Qed.

Lemma sound_if m sch env q es c x y :
  boolish x = true -> boolish y = true ->
  IHfor m sch env q es c -> IHfor m sch env q es x -> IHfor m sch env q es y ->
  IHfor m sch env q es (If c x y).
Proof.
  intros Hbx Hby IHc IHx IHy cs t cs' Hcs Htc. cbn [tc] in Htc.
  get_expect Htc tcn ccn Ec. apply expect_inv in Ec. destruct Ec as [Ec Hsc].
  destruct (IHc _ _ _ Hcs Ec) as [Sc Dc].
  destruct (sub_bool_shape _ Hsc) as [[xc ->]| ->]; [destruct xc|].
  - (* test : Bool *)
    destruct (tc m sch env (caps_union cs ccn) x) as [[tx cx]|] eqn:Ex; [|discriminate].
    destruct (tc m sch env cs y) as [[t_y cy]|] eqn:Ey; [|discriminate].
    destruct (lub m tx t_y) as [tl|] eqn:El; [|discriminate]. inversion Htc; subst. clear Htc.
    pose proof (boolish_type _ _ _ _ _ _ _ Hbx Ex) as Bx. pose proof (boolish_type _ _ _ _ _ _ _ Hby Ey) as By.
    destruct (IHy _ _ _ Hcs Ey) as [Sy Dy].
    split.
    + intros Hat. destruct (lub_bshape_at _ _ _ _ Bx By El Hat) as [_ Hy]. auto with c03.
    + unfold dyn_result. destruct Dc as [(e & He & Hal)|(vc & He & Hvc & Hcapc)].
      { left. exists e. rewrite eval_if, He. auto. }
      destruct (boolean_value _ _ Hsc Hvc) as (xc & bc & _ & -> & _).
      rewrite eval_if, He. cbn [bind as_bool VBool]. destruct bc.
      * assert (Hcs2 : caps_hold q es (caps_union cs ccn)) by (apply caps_hold_app; auto).
        destruct (IHx _ _ _ Hcs2 Ex) as [Sx [(e & He2 & Hal)|(vx & He2 & Hvx & Hcapx)]]; [left; eauto|].
        right. exists vx. split; [exact He2|]. split; [apply (lub_bshape_conf _ _ _ _ _ Bx By El); left; exact Hvx|].
        intros Hv. apply caps_hold_inter_r. apply caps_hold_app; auto.
      * destruct Dy as [(e & He2 & Hal)|(vy & He2 & Hvy & Hcapy)]; [left; eauto|].
        right. exists vy. split; [exact He2|]. split; [apply (lub_bshape_conf _ _ _ _ _ Bx By El); right; exact Hvy|].
        intros Hv. apply caps_hold_inter_l. auto.
  - (* test : True *)
    assert (Hcc : caps_hold q es ccn) by (apply Sc; auto with c03).
    assert (Hcs2 : caps_hold q es (caps_union cs ccn)) by (apply caps_hold_app; auto).
    destruct (tc m sch env (caps_union cs ccn) x) as [[tx cx]|] eqn:Ex; [|discriminate]. inversion Htc; subst. clear Htc.
    destruct (IHx _ _ _ Hcs2 Ex) as [Sx Dx].
    split; [intros Hat; auto with c03|].
    unfold dyn_result. destruct Dc as [(e & He & Hal)|(vc & He & Hvc & Hcapc)].
    { left. exists e. rewrite eval_if, He. auto. }
    destruct (conf_bool _ _ Hvc) as (bc & -> & ->).
    rewrite eval_if, He. cbn [bind as_bool VBool].
    destruct Dx as [(e & He2 & Hal)|(vx & He2 & Hvx & Hcapx)]; [left; eauto|].
    right. exists vx. split; [exact He2|]. split; [exact Hvx|]. intros Hv. auto with c03.
  - (* test : False *)
    destruct (IHy _ _ _ Hcs Htc) as [Sy Dy]. split; [exact Sy|].
    unfold dyn_result. destruct Dc as [(e & He & Hal)|(vc & He & Hvc & Hcapc)].
    { left. exists e. rewrite eval_if, He. auto. }
    destruct (conf_bool _ _ Hvc) as (bc & -> & ->).
    rewrite eval_if, He. cbn [bind as_bool VBool]. exact Dy.
  - (* test : Never — no value inhabits it *)
    destruct (tc m sch env (caps_union cs ccn) x) as [[tx cx]|] eqn:Ex; [|discriminate].
    destruct (tc m sch env cs y) as [[t_y cy]|] eqn:Ey; [|discriminate].
    destruct (lub m tx t_y) as [tl|] eqn:El; [|discriminate]. inversion Htc; subst. clear Htc.
    pose proof (boolish_type _ _ _ _ _ _ _ Hbx Ex) as Bx. pose proof (boolish_type _ _ _ _ _ _ _ Hby Ey) as By.
    destruct (IHy _ _ _ Hcs Ey) as [Sy Dy].
    split.
    + intros Hat. destruct (lub_bshape_at _ _ _ _ Bx By El Hat) as [_ Hy]. auto with c03.
    + unfold dyn_result. destruct Dc as [(e & He & Hal)|(vc & He & Hvc & Hcapc)].
      { left. exists e. rewrite eval_if, He. auto. }
      exfalso. eapply conf_never; eauto.
Qed.
