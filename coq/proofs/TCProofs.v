(* TCProofs.v — lemmas for C04 (store hierarchy = parent reachability). *)
From Coq Require Import Lia.
From Cedar Require Import TC.
Open Scope N_scope.

(* ------------------------------------------------------------------ sets as lists *)
Lemma mem_In x l : mem x l = true <-> In x l.
Proof.
  unfold mem. rewrite existsb_exists. split.
  - intros [y [Hy He]]. apply N.eqb_eq in He. subst. exact Hy.
  - intros H. exists x. split; [exact H | apply N.eqb_refl].
Qed.

Lemma mem_false x l : mem x l = false <-> ~ In x l.
Proof.
  rewrite <- mem_In. destruct (mem x l); split; intros H; congruence.
Qed.

Lemma is_desc_In n a : is_desc n a = true <-> In a (ancestors n).
Proof.
  unfold is_desc, ancestors. rewrite orb_true_iff, in_app_iff, !mem_In. tauto.
Qed.

(* ------------------------------------------------------------------ reachability *)
(* one or more parent steps; `parents_of` is empty for a uid without a record (leaf) *)
Inductive reach (g : graph) (u : uid) : uid -> Prop :=
| reach_parent p : In p (parents_of g u) -> reach g u p
| reach_step b p : reach g u b -> In p (parents_of g b) -> reach g u p.

Lemma reach_first g u a : reach g u a -> exists p, In p (parents_of g u).
Proof. induction 1; eauto. Qed.

Lemma sat_eq fuel g seed S :
  sat fuel g seed S =
  match filter (fun x => negb (mem x S)) (seed ++ succs g S) with
  | [] => Some S
  | x :: _ => match fuel with O => None | Datatypes.S f => sat f g seed (x :: S) end
  end.
Proof. destruct fuel; reflexivity. Qed.

Lemma filter_head_in {A} (f : A -> bool) l x t : filter f l = x :: t -> In x l /\ f x = true.
Proof.
  intros F. assert (H : In x (filter f l)) by (rewrite F; left; reflexivity).
  apply filter_In in H. exact H.
Qed.

Lemma filter_nil_all {A} (f : A -> bool) l x : filter f l = [] -> In x l -> f x = false.
Proof.
  intros F Hin. destruct (f x) eqn:E; [|reflexivity].
  assert (H : In x (filter f l)) by (apply filter_In; split; assumption).
  rewrite F in H. destruct H.
Qed.

Lemma sat_sound g u : forall fuel S R,
  sat fuel g (parents_of g u) S = Some R ->
  (forall x, In x S -> reach g u x) -> forall x, In x R -> reach g u x.
Proof.
  induction fuel as [|fuel IH]; intros S R H HS; rewrite sat_eq in H;
    destruct (filter _ _) as [|y t] eqn:F.
  - inversion H; subst; exact HS.
  - discriminate.
  - inversion H; subst; exact HS.
  - apply (IH (y :: S) R H).
    intros x [<-|Hx]; [|apply HS; exact Hx].
    apply filter_head_in in F as [Hin _].
    apply in_app_or in Hin as [Hin|Hin].
    + apply reach_parent; exact Hin.
    + unfold succs in Hin. apply in_flat_map in Hin as [b [Hb Hp]].
      eapply reach_step; [apply HS; exact Hb | exact Hp].
Qed.

Lemma sat_fix g seed : forall fuel S R,
  sat fuel g seed S = Some R ->
  incl S R /\ (forall x, In x (seed ++ succs g R) -> In x R).
Proof.
  induction fuel as [|fuel IH]; intros S R H; rewrite sat_eq in H;
    destruct (filter _ _) as [|y t] eqn:F.
  - inversion H; subst. split; [apply incl_refl|].
    intros x Hx. pose proof (filter_nil_all _ _ x F Hx) as E.
    apply negb_false_iff in E. apply mem_In; exact E.
  - discriminate.
  - inversion H; subst. split; [apply incl_refl|].
    intros x Hx. pose proof (filter_nil_all _ _ x F Hx) as E.
    apply negb_false_iff in E. apply mem_In; exact E.
  - apply IH in H as [Hi Hf]. split; [|exact Hf].
    intros z Hz. apply Hi. right; exact Hz.
Qed.

Lemma closure_correct g u c : closure g u = Some c -> forall a, In a c <-> reach g u a.
Proof.
  unfold closure. intros H a. split.
  - intros Ha. eapply sat_sound; [exact H | intros x [] | exact Ha].
  - apply sat_fix in H as [_ Hf]. induction 1 as [p Hp | b p Hb IH Hp].
    + apply Hf. apply in_or_app. left; exact Hp.
    + apply Hf. apply in_or_app. right. unfold succs. apply in_flat_map. exists b. split; assumption.
Qed.

Lemma parents_of_incl g : forall b p, In p (parents_of g b) -> In p (flat_map snd g).
Proof.
  unfold parents_of. induction g as [|[k ps] g IH]; intros b p H; cbn [gfind] in H.
  - destruct H.
  - cbn [flat_map snd]. apply in_or_app. destruct (N.eqb b k).
    + left; exact H.
    + right. eapply IH; exact H.
Qed.

Lemma sat_fuel g seed :
  incl seed (flat_map snd g) ->
  forall fuel S, NoDup S -> incl S (flat_map snd g) ->
    (length (flat_map snd g) < fuel + length S)%nat -> sat fuel g seed S <> None.
Proof.
  intros Hseed. induction fuel as [|fuel IH]; intros S ND HI HL; rewrite sat_eq;
    destruct (filter _ _) as [|y t] eqn:F; try discriminate.
  - pose proof (NoDup_incl_length ND HI). lia.
  - apply filter_head_in in F as [Hin Hm]. apply negb_true_iff, mem_false in Hm.
    assert (HU : In y (flat_map snd g)).
    { apply in_app_or in Hin as [Hin|Hin]; [apply Hseed; exact Hin|].
      unfold succs in Hin. apply in_flat_map in Hin as [b [_ Hp]]. eapply parents_of_incl; exact Hp. }
    apply IH.
    + constructor; assumption.
    + intros z [<-|Hz]; [exact HU | apply HI; exact Hz].
    + cbn [length]. lia.
Qed.

Lemma closure_fuel g u : closure g u <> None.
Proof.
  unfold closure, fuel_of. apply sat_fuel.
  - intros p Hp. eapply parents_of_incl; exact Hp.
  - constructor.
  - intros x [].
  - cbn [length]. lia.
Qed.

(* ------------------------------------------------------------------ the invariant *)
Definition Inv (s : store) : Prop :=
  NoDup (keys s) /\
  forall u n, In (u, n) s ->
    (forall a, In a (ancestors n) <-> reach (graph_of s) u a)
    /\ ~ In u (ancestors n)
    /\ (forall a, In a (n_parents n) -> ~ In a (n_indirect n)).

Lemma gfind_in g : NoDup (map fst g) -> forall u ps, In (u, ps) g -> gfind u g = Some ps.
Proof.
  induction g as [|[k qs] g IH]; intros ND u ps H; [destruct H|].
  cbn [gfind]. cbn [map fst] in ND. inversion ND as [|? ? Hk ND']; subst.
  destruct H as [H|H].
  - inversion H; subst. rewrite N.eqb_refl. reflexivity.
  - destruct (N.eqb u k) eqn:E.
    + apply N.eqb_eq in E. subst. exfalso. apply Hk. apply in_map_iff. exists (k, ps). split; [reflexivity|exact H].
    + apply IH; assumption.
Qed.

Lemma keys_graph_of s : map fst (graph_of s) = keys s.
Proof. unfold graph_of, keys. rewrite map_map. reflexivity. Qed.

Lemma recompute_nodes_spec g : forall todo s, recompute_nodes g todo = TOk s ->
  graph_of s = todo /\
  forall u n, In (u, n) s ->
    exists c, closure g u = Some c /\ mem u c = false
              /\ n_indirect n = filter (fun x => negb (mem x (n_parents n))) c.
Proof.
  induction todo as [|[u ps] t IH]; intros s H; cbn [recompute_nodes] in H.
  - inversion H; subst. split; [reflexivity | intros ? ? []].
  - destruct (closure g u) as [c|] eqn:C; [|discriminate].
    destruct (mem u c) eqn:M; [discriminate|].
    destruct (recompute_nodes g t) as [rest|e] eqn:R; [|discriminate].
    inversion H; subst. destruct (IH rest eq_refl) as [Hg Hn]. split.
    + cbn [graph_of map fst snd n_parents]. f_equal. exact Hg.
    + intros v n [Hv|Hv]; [|apply Hn; exact Hv].
      inversion Hv; subst. exists c. cbn [n_indirect n_parents]. auto.
Qed.

Lemma in_graph_of s u n : In (u, n) s -> In (u, n_parents n) (graph_of s).
Proof. intros H. unfold graph_of. apply in_map_iff. exists (u, n). split; [reflexivity | exact H]. Qed.

Lemma recompute_inv g s : NoDup (map fst g) -> recompute g = TOk s -> Inv s /\ graph_of s = g.
Proof.
  intros ND H. unfold recompute in H. apply recompute_nodes_spec in H as [Hg Hn].
  split; [|exact Hg]. split.
  - rewrite <- keys_graph_of, Hg. exact ND.
  - intros u n Hin. destruct (Hn u n Hin) as [c [C [M I]]].
    assert (P : parents_of g u = n_parents n).
    { unfold parents_of. rewrite (gfind_in g ND u (n_parents n)); [reflexivity|].
      rewrite <- Hg. apply in_graph_of; exact Hin. }
    rewrite Hg.
    assert (Hanc : forall a, In a (ancestors n) <-> In a c).
    { intros a. unfold ancestors. rewrite in_app_iff, I, filter_In. split.
      - intros [Ha|[Ha _]]; [|exact Ha].
        apply (closure_correct g u c C). apply reach_parent. rewrite P; exact Ha.
      - intros Ha. destruct (mem a (n_parents n)) eqn:E.
        + left. apply mem_In; exact E.
        + right. split; [exact Ha | reflexivity]. }
    split; [|split].
    + intros a. rewrite Hanc. apply closure_correct; exact C.
    + rewrite Hanc. apply mem_false; exact M.
    + intros a Ha. rewrite I, filter_In. intros [_ Hm].
      apply negb_true_iff, mem_false in Hm. apply Hm; exact Ha.
Qed.

Lemma recompute_nodes_err g : forall todo e, recompute_nodes g todo = TErr e ->
  e = ECycle /\ exists u, In u (map fst todo) /\ reach g u u.
Proof.
  induction todo as [|[u ps] t IH]; intros e H; cbn [recompute_nodes] in H; [discriminate|].
  destruct (closure g u) as [c|] eqn:C; [|exfalso; eapply closure_fuel; exact C].
  destruct (mem u c) eqn:M.
  - inversion H; subst. split; [reflexivity|]. exists u. split; [left; reflexivity|].
    apply (closure_correct g u c C). apply mem_In; exact M.
  - destruct (recompute_nodes g t) as [rest|e'] eqn:R; [discriminate|].
    inversion H; subst. destruct (IH e eq_refl) as [E [v [Hv Hr]]].
    split; [exact E|]. exists v. split; [right; exact Hv | exact Hr].
Qed.

Lemma recompute_nodes_cyc g : forall todo u, In u (map fst todo) -> reach g u u ->
  recompute_nodes g todo = TErr ECycle.
Proof.
  induction todo as [|[k ps] t IH]; intros u Hin Hr; [destruct Hin|].
  cbn [recompute_nodes].
  destruct (closure g k) as [c|] eqn:C; [|exfalso; eapply closure_fuel; exact C].
  destruct (mem k c) eqn:M; [reflexivity|].
  destruct Hin as [Hk|Hin].
  - cbn [fst] in Hk. subst. exfalso. apply mem_false in M. apply M.
    apply (closure_correct g u c C). exact Hr.
  - rewrite (IH u Hin Hr). reflexivity.
Qed.

Lemma recompute_reject g :
  (forall e, recompute g = TErr e -> e = ECycle) /\
  (recompute g = TErr ECycle <-> exists u, In u (map fst g) /\ reach g u u).
Proof.
  split.
  - intros e H. apply recompute_nodes_err in H. apply H.
  - split.
    + intros H. apply recompute_nodes_err in H. apply H.
    + intros [u [Hu Hr]]. eapply recompute_nodes_cyc; eassumption.
Qed.

(* ------------------------------------------------------------------ the edits keep keys unique *)
Lemma find_none s u : find u s = None -> ~ In u (keys s).
Proof.
  induction s as [|[k n] s IH]; cbn [find keys map fst]; intros H; [intros []|].
  destruct (N.eqb u k) eqn:E; [discriminate|].
  intros [Hk|Hk].
  - subst. rewrite N.eqb_refl in E. discriminate.
  - apply IH; assumption.
Qed.

Lemma find_some_in s u n : find u s = Some n -> In (u, n) s.
Proof.
  induction s as [|[k m] s IH]; cbn [find]; intros H; [discriminate|].
  destruct (N.eqb u k) eqn:E.
  - apply N.eqb_eq in E. inversion H; subst. left; reflexivity.
  - right. apply IH; exact H.
Qed.

Lemma find_in_nodup s : NoDup (keys s) -> forall u n, In (u, n) s -> find u s = Some n.
Proof.
  induction s as [|[k m] s IH]; intros ND u n H; [destruct H|].
  cbn [find]. cbn [keys map fst] in ND. inversion ND as [|? ? Hk ND']; subst.
  destruct H as [H|H].
  - inversion H; subst. rewrite N.eqb_refl. reflexivity.
  - destruct (N.eqb u k) eqn:E.
    + apply N.eqb_eq in E. subst. exfalso. apply Hk. unfold keys. apply in_map_iff.
      exists (k, n). split; [reflexivity | exact H].
    + apply IH; assumption.
Qed.

Lemma keys_app s t : keys (s ++ t) = keys s ++ keys t.
Proof. unfold keys. apply map_app. Qed.

Lemma nodup_snoc (l : list uid) x : NoDup l -> ~ In x l -> NoDup (l ++ [x]).
Proof.
  induction l as [|y l IH]; intros ND Hx; cbn [app].
  - constructor; [intros [] | constructor].
  - inversion ND; subst. constructor.
    + rewrite in_app_iff. intros [H|[H|[]]]; [contradiction|]. subst. apply Hx. left; reflexivity.
    + apply IH; [assumption|]. intros H. apply Hx. right; exact H.
Qed.

Lemma upd_noover_keys s e s' : NoDup (keys s) -> upd_noover s e = TOk s' -> NoDup (keys s').
Proof.
  unfold upd_noover. intros ND H. destruct (find (fst e) s) eqn:F.
  - destruct (set_eqb _ _); inversion H; subst; exact ND.
  - inversion H; subst. rewrite keys_app. cbn [keys map fst]. apply nodup_snoc; [exact ND|].
    apply find_none; exact F.
Qed.

Lemma insert_all_keys : forall es s s', NoDup (keys s) -> insert_all s es = TOk s' -> NoDup (keys s').
Proof.
  induction es as [|e es IH]; intros s s' ND H; cbn [insert_all] in H.
  - inversion H; subst; exact ND.
  - destruct (upd_noover s e) as [s1|x] eqn:U; [|discriminate].
    eapply IH; [|exact H]. eapply upd_noover_keys; eassumption.
Qed.

Lemma keys_update u f s : keys (update u f s) = keys s.
Proof.
  unfold keys, update. rewrite map_map. apply map_ext. intros [k n]. cbn [fst]. destruct (N.eqb u k); reflexivity.
Qed.

Lemma upd_over_keys s e : NoDup (keys s) -> NoDup (keys (upd_over s e)).
Proof.
  unfold upd_over. intros ND. destruct (find (fst e) s) eqn:F.
  - rewrite keys_update. exact ND.
  - rewrite keys_app. cbn [keys map fst]. apply nodup_snoc; [exact ND|]. apply find_none; exact F.
Qed.

Lemma nodup_filter (f : uid -> bool) l : NoDup l -> NoDup (filter f l).
Proof.
  induction 1 as [|x l Hx ND IH]; cbn [filter]; [constructor|].
  destruct (f x); [|exact IH]. constructor; [|exact IH].
  intros H. apply filter_In in H. apply Hx. apply H.
Qed.

Lemma keys_delete u s : keys (delete u s) = filter (fun k => negb (N.eqb u k)) (keys s).
Proof.
  unfold delete, keys. induction s as [|[k n] s IH]; cbn [filter map fst]; [reflexivity|].
  destruct (negb (N.eqb u k)); cbn [map fst]; rewrite IH; reflexivity.
Qed.

Lemma edit_remove_keys s u : NoDup (keys s) -> NoDup (keys (edit_remove s u)).
Proof.
  unfold edit_remove. intros ND. destruct (find u s); [|exact ND].
  unfold keys. rewrite map_map. cbn [fst]. fold (keys (delete u s)).
  rewrite keys_delete. apply nodup_filter; exact ND.
Qed.

Lemma fold_keys {A} (f : store -> A -> store) :
  (forall s a, NoDup (keys s) -> NoDup (keys (f s a))) ->
  forall l s, NoDup (keys s) -> NoDup (keys (fold_left f l s)).
Proof.
  intros Hf. induction l as [|a l IH]; intros s ND; cbn [fold_left]; [exact ND|].
  apply IH. apply Hf. exact ND.
Qed.

Lemma s_edit_keys s o s1 : NoDup (keys s) -> s_edit s o = TOk s1 -> NoDup (keys s1).
Proof.
  intros ND H. destruct o; cbn [s_edit] in H.
  - eapply insert_all_keys; [|exact H]. constructor.
  - eapply insert_all_keys; eassumption.
  - inversion H; subst. apply fold_keys; [apply upd_over_keys | exact ND].
  - inversion H; subst. apply fold_keys; [apply edit_remove_keys | exact ND].
Qed.

(* ------------------------------------------------------------------ spec operations *)
Lemma spec_op_inv s o s' :
  NoDup (keys s) -> s_compute s o = TOk s' ->
  exists s1, s_edit s o = TOk s1 /\ graph_of s' = graph_of s1 /\ Inv s'.
Proof.
  unfold s_compute. intros ND H. destruct (s_edit s o) as [s1|e] eqn:E; [|discriminate].
  exists s1. split; [reflexivity|].
  apply recompute_inv in H.
  - destruct H as [HI Hg]. split; assumption.
  - rewrite keys_graph_of. eapply s_edit_keys; eassumption.
Qed.

Lemma spec_op_reject s o e :
  s_compute s o = TErr e ->
  (e = EDuplicate /\ s_edit s o = TErr EDuplicate) \/
  (e = ECycle /\ exists s1 u, s_edit s o = TOk s1 /\ In u (keys s1) /\ reach (graph_of s1) u u).
Proof.
  unfold s_compute. intros H. destruct (s_edit s o) as [s1|x] eqn:E.
  - right. apply recompute_nodes_err in H as [He [u [Hu Hr]]]. split; [exact He|].
    exists s1, u. rewrite keys_graph_of in Hu. auto.
  - inversion H; subst. left.
    assert (X : e = EDuplicate); [|subst; split; reflexivity].
    destruct o; cbn [s_edit] in E; try discriminate.
    + clear H. revert E. generalize (@nil (uid * node)). induction es as [|a es IH]; intros s0 E; cbn [insert_all] in E; [discriminate|].
      destruct (upd_noover s0 a) as [s2|y] eqn:U.
      * eapply IH; exact E.
      * inversion E; subst. unfold upd_noover in U. destruct (find (fst a) s0); [|discriminate].
        destruct (set_eqb _ _); [discriminate|]. inversion U; reflexivity.
    + clear H. revert E. generalize s. induction es as [|a es IH]; intros s0 E; cbn [insert_all] in E; [discriminate|].
      destruct (upd_noover s0 a) as [s2|y] eqn:U.
      * eapply IH; exact E.
      * inversion E; subst. unfold upd_noover in U. destruct (find (fst a) s0); [|discriminate].
        destruct (set_eqb _ _); [discriminate|]. inversion U; reflexivity.
Qed.

Lemma spec_op_cycle_rejected s o s1 u :
  s_edit s o = TOk s1 -> In u (keys s1) -> reach (graph_of s1) u u -> s_compute s o = TErr ECycle.
Proof.
  unfold s_compute. intros E Hu Hr. rewrite E. apply recompute_reject. exists u.
  rewrite keys_graph_of. auto.
Qed.

Lemma Inv_nil : Inv [].
Proof. split; [constructor | intros ? ? []]. Qed.

Lemma step_inv s o : op_compute o = true -> Inv s -> Inv (step s_op s o).
Proof.
  intros Hc HI. unfold step, s_op. rewrite Hc.
  destruct (s_compute s o) as [s'|e] eqn:E; [|exact HI].
  apply spec_op_inv in E; [|apply HI]. destruct E as [s1 [_ [_ H]]]. exact H.
Qed.

Lemma history_inv : forall ops s,
  Forall (fun o => op_compute o = true) ops -> Inv s -> Inv (fold_left (step s_op) ops s).
Proof.
  induction ops as [|o ops IH]; intros s HF HI; cbn [fold_left]; [exact HI|].
  inversion HF; subst. apply IH; [assumption|]. apply step_inv; assumption.
Qed.

(* ------------------------------------------------------------------ queries *)
Lemma gfind_graph_of_none s u : find u s = None -> gfind u (graph_of s) = None.
Proof.
  induction s as [|[k n] s IH]; cbn [find graph_of map gfind fst]; intros H; [reflexivity|].
  destruct (N.eqb u k); [discriminate|]. apply IH; exact H.
Qed.

Lemma absent_no_reach s u a : find u s = None -> ~ reach (graph_of s) u a.
Proof.
  intros F H. apply reach_first in H as [p Hp]. unfold parents_of in Hp.
  rewrite (gfind_graph_of_none s u F) in Hp. destruct Hp.
Qed.

Lemma queries s : Inv s ->
  (forall e a, q_in s e a = true <-> (e = a \/ reach (graph_of s) e a)) /\
  (forall a e, q_is_ancestor_of s a e = true <-> (a = e \/ reach (graph_of s) e a)) /\
  (forall u, match q_ancestors s u with
             | Some l => forall a, In a l <-> reach (graph_of s) u a
             | None => find u s = None /\ forall a, ~ reach (graph_of s) u a
             end).
Proof.
  intros [ND HI]. split; [|split].
  - intros e a. unfold q_in. rewrite orb_true_iff, N.eqb_eq.
    destruct (find e s) as [n|] eqn:F.
    + apply find_some_in in F. destruct (HI e n F) as [Hr _]. rewrite is_desc_In, Hr. tauto.
    + split; [intros [H|H]; [left; exact H | discriminate]|].
      intros [H|H]; [left; exact H|]. exfalso. eapply absent_no_reach; eassumption.
  - intros a e. unfold q_is_ancestor_of. destruct (find e s) as [n|] eqn:F.
    + pose proof (find_some_in _ _ _ F) as Hin. destruct (HI e n Hin) as [Hr _].
      rewrite orb_true_iff, N.eqb_eq, is_desc_In, Hr. tauto.
    + rewrite N.eqb_eq. split; [auto|]. intros [H|H]; [exact H|].
      exfalso. eapply absent_no_reach; eassumption.
  - intros u. unfold q_ancestors. destruct (find u s) as [n|] eqn:F.
    + apply find_some_in in F. destruct (HI u n F) as [Hr _]. exact Hr.
    + split; [reflexivity|]. intros a. apply absent_no_reach; exact F.
Qed.

(* ------------------------------------------------------------------ enforce_tc_and_dag *)
Lemma enforce_ok s s' : enforce_tc_and_dag s = TOk s' ->
  s' = s /\
  (forall u n p pn gp, In (u, n) s -> In p (ancestors n) -> find p s = Some pn ->
                       In gp (ancestors pn) -> In gp (ancestors n)) /\
  (forall u n, In (u, n) s -> ~ In u (ancestors n)).
Proof.
  unfold enforce_tc_and_dag. destruct (enforce_tc s) eqn:T; [|discriminate].
  destruct (enforce_dag s) eqn:D; [|discriminate].
  intros H. inversion H; subst. split; [reflexivity|]. split.
  - intros u n p pn gp Hin Hp Hf Hgp. unfold enforce_tc in T.
    rewrite forallb_forall in T. specialize (T (u, n) Hin). cbn [snd] in T.
    rewrite forallb_forall in T. specialize (T p Hp). rewrite Hf in T.
    rewrite forallb_forall in T. specialize (T gp Hgp). apply is_desc_In; exact T.
  - intros u n Hin Hu. unfold enforce_dag in D. rewrite forallb_forall in D.
    specialize (D (u, n) Hin). cbn [fst snd] in D. apply negb_true_iff in D.
    apply is_desc_In in Hu. congruence.
Qed.

(* a closed, loop-free store is acyclic w.r.t. its direct parents and contains every reachable uid *)
Lemma enforce_closed s s' : enforce_tc_and_dag s = TOk s' ->
  forall u n, In (u, n) s -> NoDup (keys s) ->
    (forall a, reach (graph_of s) u a -> In a (ancestors n)) /\ ~ reach (graph_of s) u u.
Proof.
  intros H u n Hin ND. apply enforce_ok in H as [_ [Hc Hl]].
  assert (Hp : parents_of (graph_of s) u = n_parents n).
  { unfold parents_of. rewrite (gfind_in (graph_of s)) with (ps := n_parents n); [reflexivity | |].
    - rewrite keys_graph_of; exact ND.
    - apply in_graph_of; exact Hin. }
  assert (R : forall a, reach (graph_of s) u a -> In a (ancestors n)).
  { induction 1 as [p Hpp | b p Hb IH Hpp].
    - rewrite Hp in Hpp. unfold ancestors. apply in_or_app. left; exact Hpp.
    - unfold parents_of in Hpp. destruct (gfind b (graph_of s)) as [ps|] eqn:G; [|destruct Hpp].
      destruct (find b s) as [bn|] eqn:F.
      + assert (ps = n_parents bn).
        { apply find_some_in in F. apply in_graph_of in F.
          rewrite (gfind_in (graph_of s)) with (ps := n_parents bn) in G; [congruence | | exact F].
          rewrite keys_graph_of; exact ND. }
        subst. eapply Hc; [exact Hin | exact IH | exact F |].
        unfold ancestors. apply in_or_app. left; exact Hpp.
      + rewrite (gfind_graph_of_none s b F) in G. discriminate. }
  split; [exact R|]. intros Hr. apply (Hl u n Hin). apply R. exact Hr.
Qed.

(* ------------------------------------------------------------------ incremental layer: the edit phase
   (partial: only the direct parents after the edit phase are related to the spec layer's edit;
   the repair phase is compared by correspondence) *)
Lemma i_add_loop_insert_all : forall es s t,
  match i_add_loop s t es with
  | TOk (s', _) => insert_all s es = TOk s'
  | TErr e => insert_all s es = TErr e
  end.
Proof.
  induction es as [|e es IH]; intros s t; cbn [i_add_loop insert_all]; [reflexivity|].
  destruct (upd_noover s e) as [s1|x]; [apply IH | reflexivity].
Qed.

Lemma find_gfind s u : gfind u (graph_of s) = option_map n_parents (find u s).
Proof.
  induction s as [|[k n] s IH]; cbn [find graph_of map gfind fst snd option_map]; [reflexivity|].
  destruct (N.eqb u k); [reflexivity | exact IH].
Qed.

Lemma same_graph_find s s' u : graph_of s = graph_of s' ->
  (find u s = None <-> find u s' = None).
Proof.
  intros G. pose proof (find_gfind s u) as A. pose proof (find_gfind s' u) as B. rewrite G in A.
  rewrite A in B. destruct (find u s), (find u s'); cbn in B; split; intros; congruence.
Qed.

Definition g_remove (u : uid) (g : graph) : graph :=
  map (fun kp => (fst kp, remove_set u (snd kp))) (filter (fun kp => negb (N.eqb u (fst kp))) g).

Lemma graph_of_delete u s : graph_of (delete u s) = filter (fun kp => negb (N.eqb u (fst kp))) (graph_of s).
Proof.
  unfold delete, graph_of. induction s as [|[k n] s IH]; cbn [filter map fst snd]; [reflexivity|].
  destruct (negb (N.eqb u k)); cbn [map fst snd]; rewrite IH; reflexivity.
Qed.

Lemma remove_set_notin u l : ~ In u l -> remove_set u l = l.
Proof.
  unfold remove_set. induction l as [|y l IH]; intros H; cbn [filter]; [reflexivity|].
  destruct (N.eqb u y) eqn:E.
  - apply N.eqb_eq in E. subst. exfalso. apply H. left; reflexivity.
  - cbn [negb]. f_equal. apply IH. intros Hin. apply H. right; exact Hin.
Qed.

Lemma fold_remove_indirect_parents l : forall n, n_parents (fold_left remove_indirect l n) = n_parents n.
Proof. induction l as [|a l IH]; intros n; cbn [fold_left]; [reflexivity|]. rewrite IH. reflexivity. Qed.

Lemma spec_remove_graph s u : find u s <> None ->
  graph_of (edit_remove s u) = g_remove u (graph_of s).
Proof.
  unfold edit_remove, g_remove. intros F. destruct (find u s); [|congruence].
  rewrite <- graph_of_delete. unfold graph_of. rewrite !map_map. reflexivity.
Qed.

Lemma inc_remove_graph s t u : find u s <> None ->
  graph_of (fst (i_remove_one (s, t) u)) = g_remove u (graph_of s).
Proof.
  unfold i_remove_one, g_remove. intros F. destruct (find u s) as [rem|]; [|congruence].
  cbn [fst]. rewrite <- graph_of_delete. unfold graph_of. rewrite !map_map.
  apply map_ext. intros [k n]. cbn [fst snd].
  destruct (is_desc n u) eqn:D; cbn [fst snd].
  - rewrite fold_remove_indirect_parents. reflexivity.
  - f_equal. symmetry. apply remove_set_notin. intros Hin.
    assert (is_desc n u = true) by (apply is_desc_In; unfold ancestors; apply in_or_app; left; exact Hin).
    congruence.
Qed.

Lemma inc_remove_none s t u : find u s = None -> i_remove_one (s, t) u = (s, t).
Proof. unfold i_remove_one. intros F. rewrite F. reflexivity. Qed.

Lemma remove_edit_same_graph : forall us s s' t, graph_of s = graph_of s' ->
  graph_of (fold_left edit_remove us s) = graph_of (fst (fold_left i_remove_one us (s', t))).
Proof.
  induction us as [|u us IH]; intros s s' t G; cbn [fold_left]; [exact G|].
  destruct (i_remove_one (s', t) u) as [s1' t1] eqn:E.
  apply IH.
  destruct (find u s) as [n|] eqn:F.
  - assert (F' : find u s' <> None).
    { intros X. apply (same_graph_find s s' u G) in X. congruence. }
    rewrite spec_remove_graph by congruence.
    pose proof (inc_remove_graph s' t u F') as H. rewrite E in H. cbn [fst] in H. rewrite H, G. reflexivity.
  - assert (F' : find u s' = None) by (apply (same_graph_find s s' u G); exact F).
    rewrite (inc_remove_none s' t u F') in E. inversion E; subst.
    unfold edit_remove. rewrite F. exact G.
Qed.

Lemma inc_remove_edit_parents c s us :
  exists s1 t, i_remove c s us = finish c false t s1
               /\ graph_of s1 = graph_of (fold_left edit_remove us s).
Proof.
  unfold i_remove. destruct (fold_left i_remove_one us (s, [])) as [s1 t] eqn:E.
  exists s1, t. split; [reflexivity|].
  pose proof (remove_edit_same_graph us s s [] eq_refl) as H. rewrite E in H. cbn [fst] in H.
  symmetry; exact H.
Qed.

Definition g_upd (g : graph) (e : ent) : graph :=
  match gfind (fst e) g with
  | Some _ => map (fun kp => if N.eqb (fst e) (fst kp) then (fst kp, snd e) else kp) g
  | None => g ++ [(fst e, snd e)]
  end.

Lemma graph_of_upd_over s e : graph_of (upd_over s e) = g_upd (graph_of s) e.
Proof.
  unfold upd_over, g_upd. rewrite find_gfind. destruct (find (fst e) s) as [old|]; cbn [option_map].
  - unfold update, graph_of. rewrite !map_map. apply map_ext. intros [k n]. cbn [fst snd].
    destruct (N.eqb (fst e) k); reflexivity.
  - unfold graph_of. rewrite map_app. reflexivity.
Qed.

Lemma strip_parents n u old : n_parents (strip n u old) = n_parents n.
Proof. unfold strip. rewrite fold_remove_indirect_parents. reflexivity. Qed.

Lemma inc_upsert_graph s t e : graph_of (fst (i_upsert_one (s, t) e)) = g_upd (graph_of s) e.
Proof.
  unfold i_upsert_one. destruct (find (fst e) s) as [old|]; cbn [fst]; rewrite graph_of_upd_over; [|reflexivity].
  f_equal. unfold graph_of. rewrite map_map. apply map_ext. intros [k n]. cbn [fst snd].
  destruct (negb (N.eqb k (fst e)) && is_desc n (fst e)); cbn [fst snd]; [rewrite strip_parents|]; reflexivity.
Qed.

Lemma upsert_edit_same_graph : forall es s s' t, graph_of s = graph_of s' ->
  graph_of (fold_left upd_over es s) = graph_of (fst (fold_left i_upsert_one es (s', t))).
Proof.
  induction es as [|e es IH]; intros s s' t G; cbn [fold_left]; [exact G|].
  destruct (i_upsert_one (s', t) e) as [s1' t1] eqn:E.
  apply IH. rewrite graph_of_upd_over.
  pose proof (inc_upsert_graph s' t e) as H. rewrite E in H. cbn [fst] in H. rewrite H, G. reflexivity.
Qed.

Lemma inc_upsert_edit_parents c s es :
  exists s1 t, i_upsert c s es = finish c true t s1
               /\ graph_of s1 = graph_of (fold_left upd_over (latest_versions es) s).
Proof.
  unfold i_upsert. destruct (fold_left i_upsert_one (latest_versions es) (s, [])) as [s1 t] eqn:E.
  exists s1, t. split; [reflexivity|].
  pose proof (upsert_edit_same_graph (latest_versions es) s s [] eq_refl) as H. rewrite E in H. cbn [fst] in H.
  symmetry; exact H.
Qed.

Lemma inc_add_edit c s es :
  match insert_all s es with
  | TOk s1 => exists t, i_add c s es = finish c true t s1
  | TErr e => i_add c s es = TErr e
  end.
Proof.
  unfold i_add. pose proof (i_add_loop_insert_all es s []) as H.
  destruct (i_add_loop s [] es) as [[s1 t]|e]; rewrite H; [exists t|]; reflexivity.
Qed.

(* the edit phase of every incremental operation produces the direct parents of the spec edit *)
Lemma inc_edit_parents s o :
  match s_edit s o with
  | TErr e => i_op s o = TErr e
  | TOk s1 =>
      match o with
      | OFrom c _ => i_op s o = if c then recompute (graph_of s1) else enforce_tc_and_dag s1
      | OAdd c _ => exists t, i_op s o = finish c true t s1
      | OUpsert c _ => exists s2 t, i_op s o = finish c true t s2 /\ graph_of s2 = graph_of s1
      | ORemove c _ => exists s2 t, i_op s o = finish c false t s2 /\ graph_of s2 = graph_of s1
      end
  end.
Proof.
  destruct o; cbn [s_edit i_op].
  - unfold i_from. destruct (insert_all [] es); reflexivity.
  - apply inc_add_edit.
  - apply inc_upsert_edit_parents.
  - apply inc_remove_edit_parents.
Qed.
