(* FfiProofs.v — lemmas for C19 (cache state machine, id assignment, exit codes). *)
From Coq Require Import Lia Decimal DecimalN.
From Cedar Require Import Ffi ValueProofs.

Section CacheProofs.
  Variables src pset schema call answer : Type.
  Variable parse_pset : src -> option pset.
  Variable parse_schema : src -> option schema.
  Variable authorize : pset -> option schema -> call -> answer.

  Notation state := (state pset schema).
  Notation op := (op src call).
  Notation step := (step src pset schema call answer parse_pset parse_schema authorize).
  Notation run := (run src pset schema call answer parse_pset parse_schema authorize).
  Notation trace := (trace src pset schema call answer parse_pset parse_schema authorize).
  Notation trace_from := (trace_from src pset schema call answer parse_pset parse_schema authorize).
  Notation stateful := (stateful pset schema call answer authorize).
  Notation reg_pset := (reg_pset src pset call parse_pset).
  Notation reg_schema := (reg_schema src schema call parse_schema).
  Notation spec_of := (spec_of src pset schema call parse_pset parse_schema).
  Notation meets := (meets src pset schema call answer parse_pset parse_schema authorize).

  Definition stepf := fun (st : state) (o : op) => fst (step st o).

  Lemma run_snoc h o : run (h ++ [o]) = fst (step (run h) o).
  Proof. unfold Ffi.run. rewrite fold_left_app. reflexivity. Qed.

  Lemma reg_pset_snoc h o n :
    reg_pset (h ++ [o]) n =
    match o with
    | PreparsePset n' s => if str_eqb n n' && negb (is_none (parse_pset s)) then Some s else reg_pset h n
    | _ => reg_pset h n
    end.
  Proof. unfold Ffi.reg_pset. rewrite fold_left_app. destruct o; reflexivity. Qed.

  Lemma reg_schema_snoc h o n :
    reg_schema (h ++ [o]) n =
    match o with
    | PreparseSchema n' s => if str_eqb n n' && negb (is_none (parse_schema s)) then Some s else reg_schema h n
    | _ => reg_schema h n
    end.
  Proof. unfold Ffi.reg_schema. rewrite fold_left_app. destruct o; reflexivity. Qed.

  (* the cache holds, under every name, the parse of the source last successfully registered *)
  Lemma inv_psets : forall h n,
    cget n (psets _ _ (run h)) = match reg_pset h n with Some s => parse_pset s | None => None end
    /\ (forall s, reg_pset h n = Some s -> parse_pset s <> None).
  Proof.
    intros h; induction h as [|o h IH] using rev_ind; intros n.
    - split; [reflexivity | discriminate].
    - rewrite run_snoc, reg_pset_snoc. destruct (IH n) as [IH1 IH2].
      destruct o as [n' s | n' s | sn pn c]; cbn [Ffi.step fst].
      + destruct (parse_pset s) as [p|] eqn:E; cbn [fst psets cget cinsert is_none negb].
        * destruct (str_eqb n n') eqn:En; cbn [andb].
          -- split; [now rewrite E | intros s0 H; inversion H; subst; congruence].
          -- split; [exact IH1 | exact IH2].
        * rewrite Bool.andb_false_r. split; [exact IH1 | exact IH2].
      + destruct (parse_schema s); cbn [fst psets]; split; assumption.
      + split; assumption.
  Qed.

  Lemma inv_schemas : forall h n,
    cget n (schemas _ _ (run h)) = match reg_schema h n with Some s => parse_schema s | None => None end
    /\ (forall s, reg_schema h n = Some s -> parse_schema s <> None).
  Proof.
    intros h; induction h as [|o h IH] using rev_ind; intros n.
    - split; [reflexivity | discriminate].
    - rewrite run_snoc, reg_schema_snoc. destruct (IH n) as [IH1 IH2].
      destruct o as [n' s | n' s | sn pn c]; cbn [Ffi.step fst].
      + destruct (parse_pset s); cbn [fst schemas]; split; assumption.
      + destruct (parse_schema s) as [p|] eqn:E; cbn [fst schemas cget cinsert is_none negb].
        * destruct (str_eqb n n') eqn:En; cbn [andb].
          -- split; [now rewrite E | intros s0 H; inversion H; subst; congruence].
          -- split; [exact IH1 | exact IH2].
        * rewrite Bool.andb_false_r. split; [exact IH1 | exact IH2].
      + split; assumption.
  Qed.

  Lemma stateful_meets h sn pn c : meets (stateful (run h) sn pn c) (spec_of h sn pn) c.
  Proof.
    unfold Ffi.stateful, Ffi.spec_of.
    destruct (inv_psets h pn) as [P1 P2]. rewrite P1.
    destruct sn as [n|].
    - destruct (inv_schemas h n) as [S1 S2]. rewrite S1.
      destruct (reg_schema h n) as [ss|] eqn:Es.
      + specialize (S2 ss eq_refl). destruct (parse_schema ss) as [x|] eqn:Ex; [|congruence].
        destruct (reg_pset h pn) as [ps|] eqn:Ep.
        * specialize (P2 ps eq_refl). destruct (parse_pset ps) as [p|] eqn:Epp; [|congruence].
          cbn. exists (authorize p (Some x) c). unfold stateless. rewrite Epp, Ex. split; reflexivity.
        * cbn. reflexivity.
      + destruct (reg_pset h pn) as [ps|] eqn:Ep.
        * specialize (P2 ps eq_refl). destruct (parse_pset ps) as [p|] eqn:Epp; [|congruence].
          cbn. reflexivity.
        * cbn. reflexivity.
    - destruct (reg_pset h pn) as [ps|] eqn:Ep.
      + specialize (P2 ps eq_refl). destruct (parse_pset ps) as [p|] eqn:Epp; [|congruence].
        cbn. exists (authorize p None c). unfold stateless. rewrite Epp. split; reflexivity.
      + cbn. reflexivity.
  Qed.

  Lemma stateful_final h sn pn c :
    meets (snd (step (run h) (StatefulAuth sn pn c))) (spec_of h sn pn) c.
  Proof. cbn [Ffi.step snd]. apply stateful_meets. Qed.

  Lemma trace_from_nth : forall h1 st o h2,
    nth_error (trace_from st (h1 ++ o :: h2)) (length h1) =
    Some (snd (step (fold_left stepf h1 st) o)).
  Proof.
    induction h1 as [|a h1 IH]; intros st o h2.
    - cbn [app length fold_left Ffi.trace_from]. destruct (step st o); reflexivity.
    - cbn [app length fold_left Ffi.trace_from]. unfold stepf at 2.
      destruct (step st a) as [st' x] eqn:E. cbn [nth_error fst]. apply IH.
  Qed.

  Lemma stateful_in_history h1 h2 sn pn c :
    exists a, nth_error (trace (h1 ++ StatefulAuth sn pn c :: h2)) (length h1) = Some a
              /\ meets a (spec_of h1 sn pn) c.
  Proof.
    eexists. split.
    - unfold Ffi.trace. apply trace_from_nth.
    - apply stateful_final.
  Qed.

  (* the answer is a function of what is registered under the two names used *)
  Lemma stateful_depends_only h h' sn pn c :
    reg_pset h pn = reg_pset h' pn ->
    (forall n, sn = Some n -> reg_schema h n = reg_schema h' n) ->
    stateful (run h) sn pn c = stateful (run h') sn pn c.
  Proof.
    intros Hp Hs. unfold Ffi.stateful.
    destruct (inv_psets h pn) as [P1 _]. destruct (inv_psets h' pn) as [P1' _].
    rewrite P1, P1', Hp.
    destruct sn as [n|]; [|reflexivity].
    destruct (inv_schemas h n) as [S1 _]. destruct (inv_schemas h' n) as [S1' _].
    rewrite S1, S1', (Hs n eq_refl). reflexivity.
  Qed.

  Lemma failed_preparse_noop (st : state) n s :
    (parse_pset s = None -> step st (PreparsePset n s) = (st, AParse false)) /\
    (parse_schema s = None -> step st (PreparseSchema n s) = (st, AParse false)).
  Proof. split; intros H; cbn [Ffi.step]; rewrite H; reflexivity. Qed.

  Lemma auth_readonly (st : state) sn pn c : fst (step st (StatefulAuth sn pn c)) = st.
  Proof. reflexivity. Qed.

  Lemma names_independent h n n' s c sn pn :
    (str_eqb n n' = false -> reg_pset (h ++ [PreparsePset n' s]) n = reg_pset h n) /\
    (str_eqb n n' = false -> reg_schema (h ++ [PreparseSchema n' s]) n = reg_schema h n) /\
    reg_pset (h ++ [PreparseSchema n' s]) n = reg_pset h n /\
    reg_schema (h ++ [PreparsePset n' s]) n = reg_schema h n /\
    reg_pset (h ++ [StatefulAuth sn pn c]) n = reg_pset h n /\
    reg_schema (h ++ [StatefulAuth sn pn c]) n = reg_schema h n.
  Proof.
    rewrite !reg_pset_snoc, !reg_schema_snoc.
    repeat split; try reflexivity; intros H; rewrite H; reflexivity.
  Qed.
End CacheProofs.

(* ------------------------------------------------------------------ ids *)

Lemma uint_cps_inj : forall u v, uint_cps u = uint_cps v -> u = v.
Proof.
  induction u; destruct v; cbn [uint_cps]; intros H; try discriminate H; try reflexivity;
    inversion H; f_equal; auto.
Qed.

Lemma policy_id_inj i j : policy_id i = policy_id j -> i = j.
Proof.
  unfold policy_id. intros H. apply app_inv_head in H. apply uint_cps_inj in H.
  rewrite <- (DecimalN.Unsigned.of_to i), <- (DecimalN.Unsigned.of_to j). now rewrite H.
Qed.

Lemma ids_from_length : forall n k, length (ids_from k n) = n.
Proof. induction n; intros k; cbn [ids_from length]; [reflexivity | now rewrite IHn]. Qed.

Lemma ids_from_nth : forall n k i, (i < n)%nat -> nth_error (ids_from k n) i = Some (policy_id (k + N.of_nat i)).
Proof.
  induction n; intros k i H; [lia|].
  destruct i; cbn [ids_from nth_error].
  - now rewrite N.add_0_r.
  - rewrite IHn by lia. f_equal. f_equal. lia.
Qed.

Lemma combine_nth {A B} : forall (l : list A) (l' : list B) i a b,
  nth_error l i = Some a -> nth_error l' i = Some b -> nth_error (combine l l') i = Some (a, b).
Proof.
  induction l; intros l' i x y H1 H2; destruct i; destruct l'; cbn in *; try discriminate.
  - now inversion H1; inversion H2.
  - now apply IHl.
Qed.

Lemma assembly_ids B (ps : list B) i b :
  nth_error ps i = Some b ->
  nth_error (assign_ids (Concatenated ps)) i = Some (policy_id (N.of_nat i), b).
Proof.
  intros H. cbn [assign_ids]. apply combine_nth; [|exact H].
  assert (i < length ps)%nat by (apply nth_error_Some; congruence).
  now rewrite ids_from_nth.
Qed.

Lemma mem_ids_from : forall n k j, (j < k)%N -> mem_str (policy_id j) (ids_from k n) = false.
Proof.
  induction n; intros k j H; cbn [ids_from mem_str]; [reflexivity|].
  rewrite IHn by lia. rewrite Bool.orb_false_r.
  destruct (str_eqb (policy_id j) (policy_id k)) eqn:E; [|reflexivity].
  apply str_eqb_eq in E. apply policy_id_inj in E. lia.
Qed.

Lemma nodup_ids_from : forall n k, nodup_strs (ids_from k n) = true.
Proof.
  induction n; intros k; cbn [ids_from nodup_strs]; [reflexivity|].
  rewrite mem_ids_from by lia. now rewrite IHn.
Qed.

Lemma map_fst_combine {A B} : forall (l : list A) (l' : list B), length l = length l' -> map fst (combine l l') = l.
Proof.
  induction l; intros l' H; destruct l'; cbn in *; try discriminate; [reflexivity|].
  f_equal. apply IHl. now inversion H.
Qed.

Lemma assembly_text_ok B (ps : list B) : assemble (Concatenated ps) = Some (assign_ids (Concatenated ps)).
Proof.
  unfold assemble. cbn [assign_ids].
  rewrite map_fst_combine by apply ids_from_length.
  now rewrite nodup_ids_from.
Qed.

Lemma mem_str_app x l1 l2 : mem_str x (l1 ++ x :: l2) = true.
Proof.
  induction l1; cbn [app mem_str]; [now rewrite str_eqb_refl | rewrite IHl1; apply Bool.orb_true_r].
Qed.

Lemma nodup_strs_dup x l1 l2 l3 : nodup_strs (l1 ++ x :: l2 ++ x :: l3) = false.
Proof.
  induction l1; cbn [app nodup_strs].
  - now rewrite mem_str_app.
  - rewrite IHl1. apply Bool.andb_false_r.
Qed.

(* two elements of the same kind anywhere in the array collide *)
Lemma assembly_set_fails B (k : bool) (b1 b2 : B) l1 l2 l3 :
  assemble (SetOf (l1 ++ (k, b1) :: l2 ++ (k, b2) :: l3)) = None.
Proof.
  unfold assemble. cbn [assign_ids]. rewrite !map_app. cbn [map]. rewrite !map_app. cbn [map fst snd].
  now rewrite nodup_strs_dup.
Qed.

Lemma assembly_set_refuted : exists ps : list (bool * unit),
  (forall kb, In kb ps -> fst kb = false) /\ assemble (SetOf ps) = None.
Proof.
  exists [(false, tt); (false, tt)]. split.
  - intros kb [H|[H|[]]]; now subst.
  - vm_compute. reflexivity.
Qed.

Lemma assembly_set_small B (ps : list (bool * B)) : (length ps <= 1)%nat -> assemble (SetOf ps) = Some (assign_ids (SetOf ps)).
Proof.
  destruct ps as [|b [|b' ps]]; cbn [length]; intros H; try lia; reflexivity.
Qed.

(* ------------------------------------------------------------------ exit codes *)

Lemma exit_code_authorize :
  exit_code (authorize_exit AoAllow) = 0%N /\ exit_code (authorize_exit AoDeny) = 2%N /\
  exit_code (authorize_exit AoError) = 1%N /\
  (forall o1 o2, exit_code (authorize_exit o1) = exit_code (authorize_exit o2) -> o1 = o2).
Proof.
  repeat split. intros [] []; cbn; intros H; try reflexivity; discriminate H.
Qed.

Lemma exit_code_validate dw o :
  (exit_code (validate_exit dw o) = 1%N <-> o = VoInputError) /\
  (exit_code (validate_exit dw o) = 3%N <->
     exists p w, o = VoResult p w /\ (p = false \/ (dw = true /\ w = true))) /\
  (exit_code (validate_exit dw o) = 0%N <->
     exists w, o = VoResult true w /\ (dw = false \/ w = false)).
Proof.
  destruct o as [|p w].
  - cbn. repeat split; try discriminate; try tauto.
    + intros (p & w & H & _); discriminate H.
    + intros (w & H & _); discriminate H.
  - destruct p, w, dw; cbn; repeat split; try discriminate; intros H; try discriminate H;
      try (destruct H as (p & w & H & H'); inversion H; subst; destruct H' as [H'|[H' H'']]; discriminate);
      try (destruct H as (w & H & H'); inversion H; subst; destruct H'; discriminate);
      try (eexists; eexists; split; [reflexivity|]; tauto);
      try (eexists; split; [reflexivity|]; tauto).
Qed.
