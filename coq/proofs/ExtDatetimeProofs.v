(* ExtDatetimeProofs.v — C07: soundness of the datetime parser (accepted strings have one of
   the five documented shapes, with a valid civil date / time / offset, and the value is exact) *)
From Coq Require Import Lia ZArith NArith List Bool.
From Cedar Require Import ExtParse ExtParseProofs.
Import ListNotations.
Open Scope list_scope.
Open Scope Z_scope.

(* ds is exactly n ASCII digits denoting v *)
Definition digs (n : nat) (ds : str) (v : Z) : Prop :=
  length ds = n /\ all_ascii_digits ds = true /\ digits_val ds = v.

Lemma take_n_sound n : forall acc s v r,
  take_n_digits n acc s = Some (v, r) ->
  exists ds, s = ds ++ r /\ length ds = n /\ all_ascii_digits ds = true /\
             v = fold_left (fun a c => a * 10 + digit_val c) ds acc.
Proof.
  induction n as [|n IH]; intros acc s v r H; cbn in H.
  - inversion H; subst. exists []. cbn. auto.
  - destruct s as [|c s]; [discriminate|]. destruct (is_ascii_digit c) eqn:Dc; [|discriminate].
    destruct (IH _ _ _ _ H) as (ds & E & L & A & V). exists (c :: ds). cbn. rewrite Dc, A, L, E. auto.
Qed.

Lemma take_n0 n s v r : take_n_digits n 0 s = Some (v, r) -> exists ds, s = ds ++ r /\ digs n ds v.
Proof.
  intros H. destruct (take_n_sound n 0 s v r H) as (ds & E & L & A & V).
  exists ds. unfold digs, digits_val. auto.
Qed.

Lemma expect_sound c s r : expect c s = Some r -> s = c :: r.
Proof.
  unfold expect. destruct s as [|x t]; [discriminate|]. destruct (N.eqb_spec x c); [|discriminate].
  intros H; inversion H; subst; reflexivity.
Qed.

Ltac step_take H n v r ds E D :=
  match type of H with
  | context [take_n_digits n 0 ?s] =>
      let T := fresh "T" in
      destruct (take_n_digits n 0 s) as [[v r]|] eqn:T; [|discriminate];
      cbv beta iota in H; destruct (take_n0 _ _ _ _ T) as (ds & E & D); clear T
  end.
Ltac step_expect H c r E :=
  match type of H with
  | context [expect c ?s] =>
      let T := fresh "T" in
      destruct (expect c s) as [r|] eqn:T; [|discriminate];
      cbv beta iota in H; pose proof (expect_sound _ _ _ T) as E; clear T
  end.

Lemma date_pattern_sound s y m d r :
  date_pattern s = Some (y, m, d, r) ->
  exists Y M D, s = Y ++ 45%N :: M ++ 45%N :: D ++ r /\ digs 4 Y y /\ digs 2 M m /\ digs 2 D d.
Proof.
  unfold date_pattern, obind. intros H.
  step_take H 4%nat y0 r0 Y E1 D1. step_expect H 45%N r1 E2.
  step_take H 2%nat m0 r2 M E3 D2. step_expect H 45%N r3 E4.
  step_take H 2%nat d0 r4 D E5 D3. inversion H; subst.
  exists Y, M, D. auto.
Qed.

Lemma hms_pattern_sound s h m sec r :
  hms_pattern s = Some (h, m, sec, r) ->
  exists H M SE, s = 84%N :: H ++ 58%N :: M ++ 58%N :: SE ++ r /\ digs 2 H h /\ digs 2 M m /\ digs 2 SE sec.
Proof.
  unfold hms_pattern, obind. intros H.
  step_expect H 84%N r0 E0.
  step_take H 2%nat h0 r1 HH E1 D1. step_expect H 58%N r2 E2.
  step_take H 2%nat m0 r3 M E3 D2. step_expect H 58%N r4 E4.
  step_take H 2%nat s0 r5 SE E5 D3. inversion H; subst.
  exists HH, M, SE. auto.
Qed.

(* the offset part: Z, or sign hh mm *)
Definition off_shape (os : str) (off : option (bool * Z * Z)) : Prop :=
  (os = [90%N] /\ off = None) \/
  exists sg HH MM hh mm, os = sg :: HH ++ MM /\ digs 2 HH hh /\ digs 2 MM mm /\
    (sg = 43%N \/ sg = 45%N) /\ off = Some (N.eqb sg 43, hh, mm).

Lemma off_tail_sound (ms : option Z) r res off :
  match r with
  | [90%N] => Some (ms, None)
  | sg :: r1 =>
      if N.eqb sg 43 || N.eqb sg 45 then
        let? (hh, r2) := take_n_digits 2 0 r1 in
        let? (mm, r3) := take_n_digits 2 0 r2 in
        match r3 with [] => Some (ms, Some (N.eqb sg 43, hh, mm)) | _ => None end
      else None
  | [] => None
  end = Some (res, off) ->
  res = ms /\ off_shape r off.
Proof.
  intros H. destruct r as [|sg r1]; [discriminate|].
  assert (G : forall sg', sg' = 43%N \/ sg' = 45%N ->
     (let? (hh, r2) := take_n_digits 2 0 r1 in
      let? (mm, r3) := take_n_digits 2 0 r2 in
      match r3 with [] => Some (ms, Some (N.eqb sg' 43, hh, mm)) | _ => None end) = Some (res, off) ->
     res = ms /\ off_shape (sg' :: r1) off).
  { intros sg' Hsg K. unfold obind in K.
    step_take K 2%nat hh r2 HH E1 D1. step_take K 2%nat mm r3 MM E2 D2.
    destruct r3; [|discriminate]. inversion K; subst. split; [reflexivity|].
    right. exists sg', HH, MM, hh, mm. rewrite app_nil_r. auto. }
  destruct (N.eq_dec sg 43) as [->|N43]; [apply G; auto|].
  destruct (N.eq_dec sg 45) as [->|N45]; [apply G; auto|].
  destruct (N.eq_dec sg 90) as [->|N90].
  - destruct r1; [|discriminate]. inversion H; subst. split; [reflexivity|]. left. auto.
  - exfalso. bits sg ltac:(try discriminate; try congruence).
Qed.

Lemma ms_offset_sound s ms off :
  ms_offset_pattern s = Some (ms, off) ->
  exists fs os, s = fs ++ os /\
    ((fs = [] /\ ms = None) \/ exists F f, fs = 46%N :: F /\ digs 3 F f /\ ms = Some f) /\
    off_shape os off.
Proof.
  unfold ms_offset_pattern. intros H.
  destruct s as [|c t].
  - cbn in H. discriminate.
  - destruct (N.eq_dec c 46) as [->|N46].
    + destruct (take_n_digits 3 0 t) as [[f r'']|] eqn:T.
      * apply off_tail_sound in H. destruct H as [-> O].
        destruct (take_n0 _ _ _ _ T) as (F & E & D). exists (46%N :: F), r''. subst t. split; [reflexivity|].
        split; [right; exists F, f; auto|exact O].
      * exfalso. change ((46 =? 43)%N || (46 =? 45)%N) with false in H. discriminate.
    + assert (K : (let '(ms0, r) := (@None Z, c :: t) in
                   match r with
                   | [90%N] => Some (ms0, None)
                   | sg :: r1 =>
                       if N.eqb sg 43 || N.eqb sg 45 then
                         let? (hh, r2) := take_n_digits 2 0 r1 in
                         let? (mm, r3) := take_n_digits 2 0 r2 in
                         match r3 with [] => Some (ms0, Some (N.eqb sg 43, hh, mm)) | _ => None end
                       else None
                   | [] => None
                   end) = Some (ms, off)).
      { rewrite <- H. bits c ltac:(try reflexivity; try congruence). }
      pose proof (off_tail_sound None (c :: t) ms off K) as K'. destruct K' as [-> O]. exists [], (c :: t). auto.
Qed.

Definition dt_spec (s : str) (ms : Z) : Prop :=
  exists Y M D y mo d tail,
    s = Y ++ 45%N :: M ++ 45%N :: D ++ tail /\ digs 4 Y y /\ digs 2 M mo /\ digs 2 D d /\
    valid_ymd y mo d = true /\
    ((tail = [] /\ ms = days_from_civil y mo d * 86400000) \/
     exists H MI SE h mi sec fs f os osec,
       tail = 84%N :: H ++ 58%N :: MI ++ 58%N :: SE ++ fs ++ os /\
       digs 2 H h /\ digs 2 MI mi /\ digs 2 SE sec /\ h < 24 /\ mi < 60 /\ sec < 60 /\
       ((fs = [] /\ f = 0) \/ exists F, fs = 46%N :: F /\ digs 3 F f) /\
       ((os = [90%N] /\ osec = 0) \/
        exists sg HH MM hh mm, os = sg :: HH ++ MM /\ digs 2 HH hh /\ digs 2 MM mm /\ hh < 24 /\ mm < 60 /\
          ((sg = 43%N /\ osec = hh * 3600 + mm * 60) \/ (sg = 45%N /\ osec = - (hh * 3600 + mm * 60)))) /\
       ms = (days_from_civil y mo d * 86400 + h * 3600 + mi * 60 + sec - osec) * 1000 + f).

Ltac fin := repeat match goal with |- _ /\ _ => split end; auto; try lia.

Theorem datetime_parse_sound s ms : datetime_parse s = Some ms -> dt_spec s ms.
Proof.
  unfold datetime_parse. intros H.
  destruct (date_pattern s) as [[[[y mo] d] r]|] eqn:DP; [|discriminate].
  destruct (date_pattern_sound _ _ _ _ _ DP) as (Y & M & D & Es & DY & DM & DD).
  destruct (valid_ymd y mo d) eqn:V.
  2: { exfalso. destruct r; [discriminate|]. unfold obind in H.
       destruct (hms_pattern _) as [[[[? ?] ?] ?]|]; [|discriminate].
       destruct (ms_offset_pattern _) as [[? ?]|]; discriminate. }
  exists Y, M, D, y, mo, d, r. fin.
  destruct r as [|r0 rt].
  - left. cbn in H. inversion H. auto.
  - right. unfold obind in H.
    destruct (hms_pattern (r0 :: rt)) as [[[[h mi] sec] r2]|] eqn:HP; [|discriminate].
    destruct (hms_pattern_sound _ _ _ _ _ HP) as (HH & MI & SE & Et & DH & DMI & DS).
    destruct (ms_offset_pattern r2) as [[fo off]|] eqn:MO; [|discriminate].
    destruct (ms_offset_sound _ _ _ MO) as (fs & os & Er2 & Hf & Ho).
    cbv beta iota in H.
    destruct (valid_hms_milli h mi sec _) eqn:VT; [|discriminate].
    unfold valid_hms_milli in VT. repeat rewrite andb_true_iff in VT. destruct VT as [[[V1 V2] V3] _].
    apply Z.ltb_lt in V1, V2, V3.
    set (f := match fo with Some v => v | None => 0 end) in *.
    assert (Hf' : (fs = [] /\ f = 0) \/ exists F, fs = 46%N :: F /\ digs 3 F f).
    { destruct Hf as [[-> ->]|(F & f' & -> & DF & ->)]; [left; auto|right; exists F; auto]. }
    destruct Ho as [[-> ->]|(sg & OH & OM & hh & mm & -> & DOH & DOM & Hsg & ->)].
    + inversion H. exists HH, MI, SE, h, mi, sec, fs, f, [90%N], 0. subst r2.
      fin.
    + destruct ((hh <? 24) && (mm <? 60)) eqn:VO; [|discriminate].
      apply andb_true_iff in VO. destruct VO as [O1 O2]. apply Z.ltb_lt in O1, O2.
      inversion H. subst r2.
      destruct Hsg as [-> | ->]; cbn [N.eqb Pos.eqb].
      * exists HH, MI, SE, h, mi, sec, fs, f, (43%N :: OH ++ OM), (hh * 3600 + mm * 60).
        fin. right. exists 43%N, OH, OM, hh, mm. fin.
      * exists HH, MI, SE, h, mi, sec, fs, f, (45%N :: OH ++ OM), (- (hh * 3600 + mm * 60)).
        fin. right. exists 45%N, OH, OM, hh, mm. fin.
Qed.
