(* JsonTreeIso.v — the JSON tree of the entity/context JSON layer (model/JsonTree.v, C10) and the
   JSON tree of the structured policy formats (model/Json.v, C06) are the same inductive type up
   to renaming: conversion functions in both directions and both round trips.  Every statement
   about one tree type can therefore be transported to the other; the two files can be unified
   by replacing `JsonTree.json` with `Json.json` without changing any definition that uses it. *)
From Coq Require Import List.
From Cedar Require JsonTree Json.
Import ListNotations.

Module T := Cedar.JsonTree.
Module J := Cedar.Json.

Fixpoint to_json (j : T.json) : J.json :=
  match j with
  | T.JNull => J.JNull
  | T.JBool b => J.JBool b
  | T.JInt z => J.JInt z
  | T.JStr s => J.JStr s
  | T.JArr l => J.JArr (map to_json l)
  | T.JObj l => J.JObj (map (fun kv => (fst kv, to_json (snd kv))) l)
  end.

Fixpoint of_json (j : J.json) : T.json :=
  match j with
  | J.JNull => T.JNull
  | J.JBool b => T.JBool b
  | J.JInt z => T.JInt z
  | J.JStr s => T.JStr s
  | J.JArr l => T.JArr (map of_json l)
  | J.JObj l => T.JObj (map (fun kv => (fst kv, of_json (snd kv))) l)
  end.

Fixpoint of_to (j : T.json) {struct j} : of_json (to_json j) = j :=
  match j as j0 return of_json (to_json j0) = j0 with
  | T.JNull => eq_refl
  | T.JBool b => eq_refl
  | T.JInt z => eq_refl
  | T.JStr s => eq_refl
  | T.JArr l =>
      f_equal T.JArr
        ((fix go (l : list T.json) : map of_json (map to_json l) = l :=
            match l with
            | [] => eq_refl
            | x :: l' => f_equal2 cons (of_to x) (go l')
            end) l)
  | T.JObj l =>
      f_equal T.JObj
        ((fix go (l : list (Base.str * T.json)) :
            map (fun kv => (fst kv, of_json (snd kv))) (map (fun kv => (fst kv, to_json (snd kv))) l) = l :=
            match l with
            | [] => eq_refl
            | kv :: l' =>
                f_equal2 cons
                  (match kv as kv0 return (fst kv0, of_json (to_json (snd kv0))) = kv0 with
                   | (k, x) => f_equal (pair k) (of_to x)
                   end) (go l')
            end) l)
  end.

Fixpoint to_of (j : J.json) {struct j} : to_json (of_json j) = j :=
  match j as j0 return to_json (of_json j0) = j0 with
  | J.JNull => eq_refl
  | J.JBool b => eq_refl
  | J.JInt z => eq_refl
  | J.JStr s => eq_refl
  | J.JArr l =>
      f_equal J.JArr
        ((fix go (l : list J.json) : map to_json (map of_json l) = l :=
            match l with
            | [] => eq_refl
            | x :: l' => f_equal2 cons (to_of x) (go l')
            end) l)
  | J.JObj l =>
      f_equal J.JObj
        ((fix go (l : list (Base.str * J.json)) :
            map (fun kv => (fst kv, to_json (snd kv))) (map (fun kv => (fst kv, of_json (snd kv))) l) = l :=
            match l with
            | [] => eq_refl
            | kv :: l' =>
                f_equal2 cons
                  (match kv as kv0 return (fst kv0, to_json (of_json (snd kv0))) = kv0 with
                   | (k, x) => f_equal (pair k) (to_of x)
                   end) (go l')
            end) l)
  end.

Theorem json_tree_iso :
  (forall j : T.json, of_json (to_json j) = j) /\ (forall j : J.json, to_json (of_json j) = j).
Proof. split; [exact of_to | exact to_of]. Qed.
Print Assumptions json_tree_iso.

(* the conversions commute with field lookup (the only operation both layers use on objects) *)
Lemma lookup_to_json : forall k (l : list (Base.str * T.json)),
  Base.lookup k (map (fun kv => (fst kv, to_json (snd kv))) l) = option_map to_json (Base.lookup k l).
Proof.
  intros k l. induction l as [|[k' x] l IH]; [reflexivity|].
  cbn. destruct (Base.str_eqb k k'); [reflexivity|exact IH].
Qed.
