(* ConformProofs.v — lemmas for property C11 (schema conformance).
   The boolean checkers of model/Conform.v (transcribed from conformance.rs / coreschema.rs /
   types.rs) are equivalent to the declarative specification of Conform.v part 3; single-fault
   rejection lemmas; entry-point lemmas. *)
From Coq Require Import Lia String.
From Cedar Require Import Conform ValueProofs.

(* ---------------------------------------------------------------- basics *)
Lemma name_eqb_eq a b : name_eqb a b = true <-> a = b.
Proof. apply strs_eqb_eq. Qed.

Lemma name_eqb_refl a : name_eqb a a = true.
Proof. apply name_eqb_eq; reflexivity. Qed.

Lemma uid_eqb_refl a : uid_eqb a a = true.
Proof. apply uid_eqb_eq; reflexivity. Qed.

Lemma existsb_str_In x l : existsb (str_eqb x) l = true <-> In x l.
Proof.
  rewrite existsb_exists. split.
  - intros [y [Hy He]]. apply str_eqb_eq in He. subst; auto.
  - intros H. exists x. split; auto. apply str_eqb_refl.
Qed.

Lemma existsb_name_In x l : existsb (name_eqb x) l = true <-> In x l.
Proof.
  rewrite existsb_exists. split.
  - intros [y [Hy He]]. apply name_eqb_eq in He. subst; auto.
  - intros H. exists x. split; auto. apply name_eqb_refl.
Qed.

Lemma existsb_uid_In x l : existsb (uid_eqb x) l = true <-> In x l.
Proof.
  rewrite existsb_exists. split.
  - intros [y [Hy He]]. apply uid_eqb_eq in He. subst; auto.
  - intros H. exists x. split; auto. apply uid_eqb_refl.
Qed.

Lemma lub_contains_In ts t : lub_contains ts t = true <-> In t ts.
Proof. unfold lub_contains. apply existsb_name_In. Qed.

Lemma forallb_ext {A} (f g : A -> bool) l : (forall x, f x = g x) -> forallb f l = forallb g l.
Proof. intros H. induction l as [|x l IH]; cbn [forallb]; [reflexivity|]. rewrite H, IH. reflexivity. Qed.

Lemma cthen_none a b : cthen a b = None <-> a = None /\ b = None.
Proof.
  destruct a; cbn; split; intros H.
  - discriminate.
  - destruct H; discriminate.
  - split; auto.
  - destruct H; auto.
Qed.

Lemma first_err_none {A} (f : A -> cres) l : first_err f l = None <-> forall x, In x l -> f x = None.
Proof.
  induction l as [|x l IH]; cbn [first_err].
  - split; auto. intros _ x [].
  - rewrite cthen_none, IH. split.
    + intros [H1 H2] y [<-|Hy]; auto.
    + intros H; split; [apply H; left; reflexivity | intros y Hy; apply H; right; exact Hy].
Qed.

Lemma accepts_true r : accepts r = true <-> r = None.
Proof. destruct r; cbn; split; intros; try discriminate; auto. Qed.

Lemma has_key_lookup {V} k (l : list (str * V)) : has_key k l = true <-> exists v, lookup k l = Some v.
Proof.
  unfold has_key. destruct (lookup k l) as [v|]; split; intros H; try discriminate; eauto.
  destruct H as [v H]; discriminate.
Qed.

Lemma has_key_false_lookup {V} k (l : list (str * V)) : has_key k l = false <-> lookup k l = None.
Proof. unfold has_key. destruct (lookup k l); split; intros; try discriminate; auto. Qed.

Lemma lookup_In {V} k (l : list (str * V)) v : lookup k l = Some v -> In (k, v) l.
Proof.
  induction l as [|[k' v'] l IH]; cbn [lookup]; [discriminate|].
  destruct (str_eqb k k') eqn:E.
  - intros [= ->]. apply str_eqb_eq in E; subst. left; reflexivity.
  - intros H; right; auto.
Qed.

Lemma In_has_key {V} k (v : V) l : In (k, v) l -> has_key k l = true.
Proof.
  induction l as [|[k' v'] l IH]; cbn [In]; [intros []|].
  unfold has_key in *. cbn [lookup]. destruct (str_eqb k k') eqn:E; [reflexivity|].
  intros [H|H]; [inversion H; subst; rewrite str_eqb_refl in E; discriminate | auto].
Qed.

(* in a duplicate-free association list, membership determines lookup *)
Lemma nodup_In_lookup {V} k (v : V) l : keys_nodup l = true -> In (k, v) l -> lookup k l = Some v.
Proof.
  induction l as [|[k' v'] l IH]; cbn [In keys_nodup lookup]; [intros _ []|].
  intros Hn [H|H].
  - inversion H; subst. rewrite str_eqb_refl. reflexivity.
  - apply andb_true_iff in Hn as [Hk Hn]. destruct (str_eqb k k') eqn:E.
    + apply str_eqb_eq in E; subst. apply In_has_key in H. rewrite H in Hk. discriminate.
    + auto.
Qed.

(* ---------------------------------------------------------------- values against types *)
Definition each_ty (attrs : attrs_ty) (open : bool) (kvs : list (str * value)) : bool :=
  forallb (fun kv : str * value =>
             match lookup (fst kv) attrs with
             | Some (ta, _) => tc_value_ty (snd kv) ta
             | None => open
             end) kvs.

Lemma tc_value_ty_record kvs attrs open :
  tc_value_ty (VRecord kvs) (TRecord attrs open) =
  each_ty attrs open kvs && forallb (fun a : str * (ty * bool) => negb (snd (snd a)) || has_key (fst a) kvs) attrs.
Proof.
  cbn [tc_value_ty]. f_equal. unfold each_ty.
  induction kvs as [|[k v] l IH]; cbn [forallb fst snd]; [reflexivity|].
  rewrite <- IH. reflexivity.
Qed.

Lemma tc_value_ty_set l e :
  tc_value_ty (VSet l) (TSet (Some e)) = forallb (fun x => tc_value_ty x e) l.
Proof. reflexivity. Qed.

Theorem tc_value_ty_iff v : forall t, tc_value_ty v t = true <-> TypeConforms v t.
Proof.
  induction v as [p|l IH|kvs IH|x] using value_ind'; intros t; split; intros H.
  - (* prim -> *)
    destruct t as [|b| | |e|k|attrs open|n]; try destruct b; try destruct e; try destruct k;
      destruct p as [[]|z|s|u]; cbn in H; try discriminate; try constructor.
    apply lub_contains_In; exact H.
  - inversion H; subst; cbn; try reflexivity. apply lub_contains_In; assumption.
  - (* set -> *)
    destruct t as [|b| | |e|k|attrs open|n]; try destruct b; try destruct e; try destruct k;
      cbn in H; try discriminate; try constructor.
    intros x Hx. rewrite forallb_forall in H. rewrite Forall_forall in IH.
    apply IH; auto.
  - inversion H; subst; [reflexivity|].
    rewrite tc_value_ty_set. apply forallb_forall. intros x Hx. rewrite Forall_forall in IH.
    apply IH; auto.
  - (* record -> *)
    destruct t as [|b| | |e|k|attrs open|n]; try destruct b; try destruct e; try destruct k;
      try (cbn in H; discriminate).
    rewrite tc_value_ty_record in H. apply andb_true_iff in H as [He Hr].
    unfold each_ty in He. rewrite forallb_forall in He, Hr. rewrite Forall_forall in IH.
    constructor.
    + intros k t Hin. specialize (Hr _ Hin). cbn in Hr. exact Hr.
    + intros k v Hin t r Hl. specialize (He _ Hin). cbn [fst snd] in He. rewrite Hl in He.
      apply (IH _ Hin). exact He.
    + intros -> k v Hin. specialize (He _ Hin). cbn [fst snd] in He.
      unfold has_key. destruct (lookup k attrs) as [[ta r]|]; [reflexivity | discriminate].
  - inversion H as [| | | | | | | | |kvs' attrs open Hreq Hty Hext| ]; subst.
    rewrite tc_value_ty_record. apply andb_true_iff. rewrite Forall_forall in IH. split.
    + unfold each_ty. apply forallb_forall. intros [k v] Hin. cbn [fst snd].
      destruct (lookup k attrs) as [[ta r]|] eqn:Hl.
      * apply (IH _ Hin). eapply Hty; eauto.
      * destruct open; [reflexivity|]. specialize (Hext eq_refl _ _ Hin).
        unfold has_key in Hext. rewrite Hl in Hext. discriminate.
    + apply forallb_forall. intros [k [t r]] Hin. cbn [fst snd]. destruct r; [|reflexivity].
      cbn. eapply Hreq; eauto.
  - (* ext *)
    destruct t as [|b| | |e|k|attrs open|n]; try destruct b; try destruct e; try destruct k;
      cbn in H; try discriminate.
    constructor. apply name_eqb_eq in H. exact H.
  - inversion H; subst. cbn. apply name_eqb_refl.
Qed.

(* ---------------------------------------------------------------- entity uids *)
Lemma enum_ok_In ch u : enum_ok ch u = true <-> In (ueid u) ch.
Proof. unfold enum_ok. apply existsb_str_In. Qed.

Lemma known_action_iff sch u : known_action sch u = true <-> exists ai, find_action sch u = Some ai.
Proof.
  unfold known_action. destruct (find_action sch u) as [ai|]; split; intros H; try discriminate; eauto.
  destruct H as [ai H]; discriminate.
Qed.

Lemma and_iff2 (A B C D : Prop) : (A <-> C) -> (B <-> D) -> (A /\ B <-> C /\ D).
Proof. tauto. Qed.

Lemma uid_ok_iff sch u : uid_ok sch u = None <-> UidValid sch u.
Proof.
  unfold uid_ok, UidValid. rewrite cthen_none. apply and_iff2.
  - destruct (find_etype sch (uty u)) as [i|].
    + destruct (et_enum i) as [ch|] eqn:Hen.
      * destruct (enum_ok ch u) eqn:E.
        -- split; auto. intros _ i' ch' Hi Hc. inversion Hi; subst i'. rewrite Hen in Hc.
           inversion Hc; subst ch'. apply enum_ok_In; exact E.
        -- split; [discriminate|]. intros H. specialize (H i ch eq_refl Hen).
           apply enum_ok_In in H. congruence.
      * split; auto. intros _ i' ch' Hi Hc. inversion Hi; subst i'. congruence.
    + split; auto. intros _ i' ch' Hc. discriminate.
  - destruct (is_action_type (uty u)); cbn [andb].
    + destruct (known_action sch u) eqn:E; cbn [negb].
      * split; auto. intros _ _. apply known_action_iff; exact E.
      * split; [discriminate|]. intros H. specialize (H eq_refl). apply known_action_iff in H. congruence.
    + split; auto. intros _ Hc. discriminate.
Qed.

Lemma value_uids_set sch l : value_uids sch (VSet l) = first_err (value_uids sch) l.
Proof.
  cbn [value_uids]. induction l as [|x l IH]; cbn [first_err]; [reflexivity|]. rewrite <- IH. reflexivity.
Qed.

Lemma value_uids_record sch kvs :
  value_uids sch (VRecord kvs) = first_err (fun kv : str * value => value_uids sch (snd kv)) kvs.
Proof.
  cbn [value_uids]. induction kvs as [|[k x] l IH]; cbn [first_err snd]; [reflexivity|]. rewrite <- IH. reflexivity.
Qed.

Theorem value_uids_iff sch v : value_uids sch v = None <-> UidsValid sch v.
Proof.
  unfold UidsValid.
  induction v as [p|l IH|kvs IH|x] using value_ind'.
  - destruct p as [b|z|s|u]; cbn [value_uids];
      try (split; [intros _ u' Hin; inversion Hin | reflexivity]).
    rewrite uid_ok_iff. split.
    + intros H u' Hin. inversion Hin; subst. exact H.
    + intros H. apply H. constructor.
  - rewrite value_uids_set, first_err_none. rewrite Forall_forall in IH. split.
    + intros H u Hin. inversion Hin as [|x l' Hx Hu|]; subst.
      apply (proj1 (IH _ Hx) (H _ Hx)). exact Hu.
    + intros H x Hx. apply (IH _ Hx). intros u Hu. apply H. econstructor; eauto.
  - rewrite value_uids_record, first_err_none. rewrite Forall_forall in IH. split.
    + intros H u Hin. inversion Hin as [| |k x kvs' Hx Hu]; subst.
      apply (proj1 (IH _ Hx) (H _ Hx)). exact Hu.
    + intros H [k x] Hx. cbn [snd]. apply (IH _ Hx). intros u Hu. apply H. econstructor; eauto.
  - cbn [value_uids]. split; [intros _ u Hin; inversion Hin | reflexivity].
Qed.

(* the value theorem *)
Theorem conf_value_iff sch v t : conf_value sch v t = true <-> ValueConforms sch v t.
Proof.
  unfold conf_value, ValueConforms. rewrite andb_true_iff, accepts_true, tc_value_ty_iff, value_uids_iff.
  reflexivity.
Qed.

(* ---------------------------------------------------------------- the two value checkers agree
   on declared types (validator Type vs SchemaType) *)
Section TyInd.
  Variable P : ty -> Prop.
  Hypothesis Hnever : P TNever.
  Hypothesis Hbool : forall b, P (TBool b).
  Hypothesis Hlong : P TLong.
  Hypothesis Hstring : P TString.
  Hypothesis Hanyset : P (TSet None).
  Hypothesis Hset : forall e, P e -> P (TSet (Some e)).
  Hypothesis Hent : forall k, P (TEntity k).
  Hypothesis Hrec : forall attrs open, Forall (fun a : str * (ty * bool) => P (fst (snd a))) attrs -> P (TRecord attrs open).
  Hypothesis Hext : forall n, P (TExt n).

  Fixpoint ty_ind' (t : ty) : P t :=
    match t with
    | TNever => Hnever
    | TBool b => Hbool b
    | TLong => Hlong
    | TString => Hstring
    | TSet None => Hanyset
    | TSet (Some e) => Hset e (ty_ind' e)
    | TEntity k => Hent k
    | TRecord attrs open =>
        Hrec attrs open
          ((fix go (l : attrs_ty) : Forall (fun a : str * (ty * bool) => P (fst (snd a))) l :=
              match l with
              | [] => Forall_nil _
              | a :: l' => Forall_cons _ (ty_ind' (fst (snd a))) (go l')
              end) attrs)
    | TExt n => Hext n
    end.
End TyInd.

Fixpoint to_sty_attrs (l : attrs_ty) : option attrs_sty :=
  match l with
  | [] => Some []
  | (k, (a, r)) :: l' =>
      match to_sty a, to_sty_attrs l' with
      | Some s, Some rest => Some ((k, (s, r)) :: rest)
      | _, _ => None
      end
  end.

Lemma to_sty_record attrs open :
  to_sty (TRecord attrs open) = option_map (fun a => SRecord a open) (to_sty_attrs attrs).
Proof.
  reflexivity.
Qed.

Lemma schema_ty_record attrs open :
  schema_ty (TRecord attrs open) = forallb (fun a : str * (ty * bool) => schema_ty (fst (snd a))) attrs.
Proof.
  cbn [schema_ty]. induction attrs as [|[k [a r]] l IH]; [reflexivity|]. cbn [forallb fst snd]. rewrite <- IH. reflexivity.
Qed.

Lemma wf_ty_record attrs open :
  wf_ty (TRecord attrs open) = keys_nodup attrs && forallb (fun a : str * (ty * bool) => wf_ty (fst (snd a))) attrs.
Proof.
  cbn [wf_ty]. f_equal. induction attrs as [|[k [a r]] l IH]; [reflexivity|]. cbn [forallb fst snd]. rewrite <- IH. reflexivity.
Qed.

Lemma decl_ty_ok_record attrs open :
  decl_ty_ok (TRecord attrs open) = true ->
  keys_nodup attrs = true /\ forall a, In a attrs -> decl_ty_ok (fst (snd a)) = true.
Proof.
  unfold decl_ty_ok. rewrite schema_ty_record, wf_ty_record. intros H.
  apply andb_true_iff in H as [H1 H2]. apply andb_true_iff in H2 as [H2 H3].
  split; [exact H2|]. intros a Ha. rewrite forallb_forall in H1, H3.
  rewrite (H1 _ Ha), (H3 _ Ha). reflexivity.
Qed.

Fixpoint find_st (k : str) (t : sty) (kvs : list (str * value)) : bool :=
  match kvs with
  | [] => false
  | (k', v') :: l' => if str_eqb k k' then tc_value_st v' t else find_st k t l'
  end.

Definition each_st (attrs : attrs_sty) (open : bool) (kvs : list (str * value)) : bool :=
  forallb (fun kv : str * value =>
             match lookup (fst kv) attrs with
             | Some (ta, _) => tc_value_st (snd kv) ta
             | None => open
             end) kvs.

Lemma tc_value_st_record kvs attrs open :
  tc_value_st (VRecord kvs) (SRecord attrs open) =
  forallb (fun a : str * (sty * bool) => if snd (snd a) then find_st (fst a) (fst (snd a)) kvs else true) attrs
  && each_st attrs open kvs.
Proof.
  cbn [tc_value_st]. f_equal.
  - apply forallb_ext. intros [k [t r]]. cbn [fst snd]. destruct r; [|reflexivity].
    induction kvs as [|[k' v'] l IH]; [reflexivity|]. cbn [find_st]. rewrite <- IH. reflexivity.
  - unfold each_st. induction kvs as [|[k v] l IH]; cbn [forallb fst snd]; [reflexivity|].
    rewrite <- IH. reflexivity.
Qed.

Lemma find_st_lookup k t kvs :
  find_st k t kvs = match lookup k kvs with Some v' => tc_value_st v' t | None => false end.
Proof.
  induction kvs as [|[k' v'] l IH]; [reflexivity|]. cbn [find_st lookup].
  destruct (str_eqb k k'); auto.
Qed.

Definition attr_rel (a : str * (ty * bool)) (sa : str * (sty * bool)) : Prop :=
  fst a = fst sa /\ snd (snd a) = snd (snd sa) /\
  forall v, tc_value_st v (fst (snd sa)) = tc_value_ty v (fst (snd a)).

Lemma attr_rel_lookup attrs sattrs :
  Forall2 attr_rel attrs sattrs -> forall k,
  match lookup k attrs, lookup k sattrs with
  | Some (ta, r), Some (sta, sr) => r = sr /\ forall v, tc_value_st v sta = tc_value_ty v ta
  | None, None => True
  | _, _ => False
  end.
Proof.
  induction 1 as [|[k1 [t1 r1]] [k2 [t2 r2]] l1 l2 [Hk [Hr Hv]] HF IH]; intros k; cbn [lookup]; [exact I|].
  cbn [fst snd] in *. subst k2. destruct (str_eqb k k1); [auto | apply IH].
Qed.

Lemma Forall2_In_impl {A B} (R Q : A -> B -> Prop) l1 l2 :
  Forall2 R l1 l2 -> (forall a b, In a l1 -> R a b -> Q a b) -> Forall2 Q l1 l2.
Proof.
  induction 1 as [|a b l1 l2 Hab HF IH]; intros H; constructor.
  - apply H; [left; reflexivity | exact Hab].
  - apply IH. intros a' b' Hin. apply H. right; exact Hin.
Qed.

Lemma forallb_Forall2 {A B} (f : A -> bool) (g : B -> bool) l1 l2 :
  Forall2 (fun a b => f a = g b) l1 l2 -> forallb f l1 = forallb g l2.
Proof. induction 1 as [|a b l1 l2 Hab HF IH]; cbn [forallb]; [reflexivity|]. rewrite Hab, IH. reflexivity. Qed.

Theorem st_agrees t :
  decl_ty_ok t = true ->
  exists st, to_sty t = Some st /\ forall v, tc_value_st v st = tc_value_ty v t.
Proof.
  induction t as [|b| | | |e IH|k|attrs open IH|n] using ty_ind'; intros Hok.
  - discriminate.
  - destruct b; try discriminate. exists SBool. split; [reflexivity|]. intros [[]| | |]; reflexivity.
  - exists SLong. split; [reflexivity|]. intros [[]| | |]; reflexivity.
  - exists SString. split; [reflexivity|]. intros [[]| | |]; reflexivity.
  - discriminate.
  - destruct (IH Hok) as [st [Hst Hv]]. exists (SSet st). split.
    + cbn [to_sty]. rewrite Hst. reflexivity.
    + intros [[]|l| |]; try reflexivity. cbn [tc_value_st]. rewrite tc_value_ty_set.
      apply forallb_ext. intros x. apply Hv.
  - destruct k as [|[|t [|]]]; try discriminate. exists (SEntity t). split; [reflexivity|].
    intros [[]| | |]; try reflexivity. cbn. rewrite orb_false_r. reflexivity.
  - apply decl_ty_ok_record in Hok as [Hnd Hdecl].
    assert (Hs : exists sattrs, to_sty_attrs attrs = Some sattrs /\ Forall2 attr_rel attrs sattrs).
    { clear Hnd. induction attrs as [|[k [a r]] l IHl].
      - exists []. split; [reflexivity | constructor].
      - inversion IH as [|x l' Ha Hl]; subst. cbn [fst snd] in Ha.
        destruct (Ha (Hdecl _ (or_introl eq_refl))) as [st [Hst Hv]].
        destruct (IHl Hl (fun a Hin => Hdecl a (or_intror Hin))) as [rest [Hrest HF]].
        exists ((k, (st, r)) :: rest). split.
        + cbn [to_sty_attrs]. rewrite Hst, Hrest. reflexivity.
        + constructor; [|exact HF]. repeat split. exact Hv. }
    destruct Hs as [sattrs [Hs HF]].
    exists (SRecord sattrs open). split; [rewrite to_sty_record, Hs; reflexivity|].
    intros [p|l|kvs|x]; try reflexivity.
    rewrite tc_value_st_record, tc_value_ty_record.
    assert (He : each_st sattrs open kvs = each_ty attrs open kvs).
    { unfold each_st, each_ty. apply forallb_ext. intros [k v]. cbn [fst snd].
      pose proof (attr_rel_lookup _ _ HF k) as Hl.
      destruct (lookup k attrs) as [[ta r]|], (lookup k sattrs) as [[sta sr]|]; try contradiction; [|reflexivity].
      apply Hl. }
    rewrite He. destruct (each_ty attrs open kvs) eqn:Hety; [|rewrite andb_false_r; reflexivity].
    rewrite andb_true_r. cbn [andb]. symmetry. apply forallb_Forall2.
    eapply Forall2_In_impl; [exact HF|].
    intros [k [ta r]] [k' [sta sr]] Hin [Hk [Hr Hv]]. cbn [fst snd] in *. subst k' sr.
    destruct r; [|reflexivity]. cbn [negb orb]. rewrite find_st_lookup. unfold has_key.
    destruct (lookup k kvs) as [v'|] eqn:Hl; [|reflexivity].
    symmetry. rewrite Hv. apply lookup_In in Hl.
    unfold each_ty in Hety. rewrite forallb_forall in Hety. specialize (Hety _ Hl). cbn [fst snd] in Hety.
    rewrite (nodup_In_lookup _ _ _ Hnd Hin) in Hety. exact Hety.
  - exists (SExt n). split; [reflexivity|]. intros [[]| | |]; reflexivity.
Qed.

(* ---------------------------------------------------------------- schema invariants *)
Lemma find_etype_in_In t l i : find_etype_in t l = Some i -> In (t, i) l.
Proof.
  induction l as [|[n j] l IH]; cbn [find_etype_in]; [discriminate|].
  destruct (name_eqb t n) eqn:E.
  - intros [= ->]. apply name_eqb_eq in E; subst. left; reflexivity.
  - intros H; right; auto.
Qed.

Lemma find_action_in_In u l i : find_action_in u l = Some i -> In (u, i) l.
Proof.
  induction l as [|[n j] l IH]; cbn [find_action_in]; [discriminate|].
  destruct (uid_eqb u n) eqn:E.
  - intros [= ->]. apply uid_eqb_eq in E; subst. left; reflexivity.
  - intros H; right; auto.
Qed.

Lemma wf_find_etype sch t i : schema_wf sch = true -> find_etype sch t = Some i -> etype_info_wf i = true.
Proof.
  unfold schema_wf, find_etype. intros H Hf. apply andb_true_iff in H as [H _].
  rewrite forallb_forall in H. apply (H _ (find_etype_in_In _ _ _ Hf)).
Qed.

Lemma wf_find_action sch u ai :
  schema_wf sch = true -> find_action sch u = Some ai ->
  decl_ty_ok (ai_context ai) = true /\ is_action_type (uty u) = true.
Proof.
  unfold schema_wf, find_action. intros H Hf. apply andb_true_iff in H as [_ H].
  rewrite forallb_forall in H. specialize (H _ (find_action_in_In _ _ _ Hf)). cbn [fst snd] in H.
  apply andb_true_iff in H. exact H.
Qed.

Lemma wf_attr_ty i k t r : etype_info_wf i = true -> lookup k (et_attrs i) = Some (t, r) -> decl_ty_ok t = true.
Proof.
  unfold etype_info_wf. intros H Hl. apply andb_true_iff in H as [H _].
  rewrite forallb_forall in H. apply (H _ (lookup_In _ _ _ Hl)).
Qed.

Lemma wf_tag_ty i t : etype_info_wf i = true -> et_tags i = Some t -> decl_ty_ok t = true.
Proof. unfold etype_info_wf. intros H Ht. apply andb_true_iff in H as [_ H]. rewrite Ht in H. exact H. Qed.

(* attr_type()/tag_type() + typecheck_value_against_schematype == the declarative typing *)
Lemma conf_attr_value_iff v t : decl_ty_ok t = true -> (conf_attr_value v t = None <-> TypeConforms v t).
Proof.
  intros Hok. destruct (st_agrees t Hok) as [st [Hst Hv]]. unfold conf_attr_value. rewrite Hst, Hv.
  rewrite <- tc_value_ty_iff. destruct (tc_value_ty v t); split; intros; try discriminate; reflexivity.
Qed.

Lemma conf_attr_value_not_schematype v t : decl_ty_ok t = true -> conf_attr_value v t <> Some CSchemaType.
Proof.
  intros Hok. destruct (st_agrees t Hok) as [st [Hst Hv]]. unfold conf_attr_value. rewrite Hst.
  destruct (tc_value_st v st); discriminate.
Qed.

(* ---------------------------------------------------------------- entities *)
Lemma conf_attrs_iff sch i attrs :
  etype_info_wf i = true ->
  (conf_attrs sch i attrs = None <->
   (forall k, In k (required_attrs i) -> has_key k attrs = true) /\
   (forall k v, In (k, v) attrs ->
      match lookup k (et_attrs i) with
      | Some (t, _) => ValueConforms sch v t
      | None => et_open i = true /\ UidsValid sch v
      end)).
Proof.
  intros Hwf. unfold conf_attrs. rewrite cthen_none, !first_err_none. apply and_iff2.
  - split; intros H k Hk; specialize (H k Hk); destruct (has_key k attrs); auto; discriminate.
  - split.
    + intros H k v Hin. specialize (H _ Hin). cbn [fst snd] in H. apply cthen_none in H as [H1 H2].
      apply value_uids_iff in H2.
      destruct (lookup k (et_attrs i)) as [[t r]|] eqn:Hl.
      * split; [|exact H2]. apply (conf_attr_value_iff v t (wf_attr_ty _ _ _ _ Hwf Hl)). exact H1.
      * split; [|exact H2]. destruct (et_open i); [reflexivity | discriminate].
    + intros H [k v] Hin. specialize (H _ _ Hin). cbn [fst snd]. apply cthen_none.
      destruct (lookup k (et_attrs i)) as [[t r]|] eqn:Hl.
      * destruct H as [H1 H2]. split; [|apply value_uids_iff; exact H2].
        apply (conf_attr_value_iff v t (wf_attr_ty _ _ _ _ Hwf Hl)). exact H1.
      * destruct H as [H1 H2]. split; [rewrite H1; reflexivity | apply value_uids_iff; exact H2].
Qed.

Lemma allowed_parent_iff sch t a :
  existsb (name_eqb a) (allowed_parent_types sch t) = true <-> PermittedAncestorType sch t a.
Proof.
  rewrite existsb_name_In. unfold allowed_parent_types, PermittedAncestorType. rewrite in_map_iff. split.
  - intros [[n i] [Hn Hin]]. cbn [fst] in Hn. subst n. apply filter_In in Hin as [Hin Hex].
    cbn [snd] in Hex. apply existsb_name_In in Hex. exists i; auto.
  - intros [i [Hin Hd]]. exists (a, i). split; [reflexivity|]. apply filter_In. split; [exact Hin|].
    cbn [snd]. apply existsb_name_In. exact Hd.
Qed.

Lemma conf_ancestors_iff sch t ancs :
  conf_ancestors sch t ancs = None <->
  forall a, In a ancs -> UidValid sch a /\ PermittedAncestorType sch t (uty a).
Proof.
  unfold conf_ancestors. rewrite first_err_none. split.
  - intros H a Ha. specialize (H a Ha). apply cthen_none in H as [H1 H2]. split.
    + apply uid_ok_iff; exact H1.
    + apply allowed_parent_iff. destruct (existsb (name_eqb (uty a)) (allowed_parent_types sch t)); [reflexivity | discriminate].
  - intros H a Ha. destruct (H a Ha) as [H1 H2]. apply cthen_none. split.
    + apply uid_ok_iff; exact H1.
    + apply allowed_parent_iff in H2. rewrite H2. reflexivity.
Qed.

Lemma conf_tags_iff sch i tags :
  etype_info_wf i = true ->
  (conf_tags sch i tags = None <->
   forall k v, In (k, v) tags ->
     match et_tags i with Some t => ValueConforms sch v t | None => False end).
Proof.
  intros Hwf. unfold conf_tags. rewrite cthen_none. destruct (et_tags i) as [t|] eqn:Ht.
  - rewrite !first_err_none. pose proof (wf_tag_ty _ _ Hwf Ht) as Hok. split.
    + intros [H1 H2] k v Hin. split.
      * apply (conf_attr_value_iff v t Hok). apply (H1 _ Hin).
      * apply value_uids_iff. apply (H2 _ Hin).
    + intros H. split; intros [k v] Hin; destruct (H _ _ Hin) as [H1 H2]; cbn [snd].
      * apply (conf_attr_value_iff v t Hok). exact H1.
      * apply value_uids_iff. exact H2.
  - destruct tags as [|[k v] l].
    + split; [intros _ k v [] | intros _; split; reflexivity].
    + split; [intros [Hc _]; discriminate | intros H; destruct (H k v (or_introl eq_refl))].
Qed.

Lemma rec_eqb_nil xs : rec_eqb xs [] = true <-> xs = [].
Proof. destruct xs as [|[k v] l]; cbn; split; intros; try discriminate; reflexivity. Qed.

Lemma uids_subset_iff a b : uids_subset a b = true <-> forall x, In x a -> In x b.
Proof.
  unfold uids_subset. rewrite forallb_forall. split; intros H x Hx; specialize (H x Hx); apply existsb_uid_In; exact H.
Qed.

Lemma conf_action_iff sch u d : conf_action sch u d = None <-> ActionConforms sch u d.
Proof.
  unfold conf_action, ActionConforms, action_entity.
  destruct (find_action sch u) as [ai|].
  - unfold deep_eq. cbn [eattrs etags eancestors]. rewrite uid_eqb_refl, !value_eqb_record. cbn [andb].
    split.
    + intros H.
      destruct (rec_eqb (eattrs d) []) eqn:E1; [|discriminate].
      destruct (rec_eqb (etags d) []) eqn:E2; [|discriminate].
      destruct (uids_subset (eancestors d) (action_ancestors sch u)) eqn:E3; [|discriminate].
      destruct (uids_subset (action_ancestors sch u) (eancestors d)) eqn:E4; [|discriminate].
      apply rec_eqb_nil in E1. apply rec_eqb_nil in E2.
      rewrite uids_subset_iff in E3, E4.
      repeat split; eauto.
    + intros (_ & E1 & E2 & E3). apply rec_eqb_nil in E1. apply rec_eqb_nil in E2. rewrite E1, E2. cbn [andb].
      assert (H3 : uids_subset (eancestors d) (action_ancestors sch u) = true)
        by (apply uids_subset_iff; intros x; apply E3).
      assert (H4 : uids_subset (action_ancestors sch u) (eancestors d) = true)
        by (apply uids_subset_iff; intros x; apply E3).
      rewrite H3, H4. reflexivity.
  - split; [discriminate | intros [[ai Hc] _]; discriminate].
Qed.

Theorem conf_entity_iff sch e :
  schema_wf sch = true -> (conf_entity sch e = None <-> EntityConforms sch e).
Proof.
  intros Hwf. destruct e as [u d]. unfold conf_entity, EntityConforms. cbn [fst snd].
  destruct (is_action_type (uty u)); [apply conf_action_iff|].
  destruct (find_etype sch (uty u)) as [i|] eqn:Hf.
  - pose proof (wf_find_etype _ _ _ Hwf Hf) as Hi.
    rewrite !cthen_none, uid_ok_iff, (conf_attrs_iff sch i _ Hi), conf_ancestors_iff, (conf_tags_iff sch i _ Hi).
    split.
    + intros (H1 & (H2 & H3) & H4 & H5). exists i.
      split; [reflexivity|]. split; [exact H1|]. split; [exact H2|]. split; [exact H3|]. split; [exact H4 | exact H5].
    + intros [i' (Hi' & H1 & H2 & H3 & H4 & H5)]. inversion Hi'; subst i'.
      split; [exact H1|]. split; [split; [exact H2 | exact H3]|]. split; [exact H4 | exact H5].
  - split; [discriminate | intros [i [Hc _]]; discriminate].
Qed.

(* ---------------------------------------------------------------- requests *)
Lemma conf_scope_var_iff sch u e : conf_scope_var sch u e = None <-> ScopeVarConforms sch u.
Proof.
  unfold conf_scope_var, ScopeVarConforms. destruct (find_etype sch (uty u)) as [i|].
  - destruct (et_enum i) as [ch|] eqn:Hen.
    + destruct (enum_ok ch u) eqn:E.
      * split; auto. intros _. exists i. split; auto. intros ch' Hc. assert (ch' = ch) by congruence. subst ch'. apply enum_ok_In; exact E.
      * split; [discriminate|]. intros [i' [Hi H]]. inversion Hi; subst i'. specialize (H ch Hen).
        apply enum_ok_In in H. congruence.
    + split; auto. intros _. exists i. split; auto. intros ch' Hc. congruence.
  - split; [discriminate | intros [i [Hc _]]; discriminate].
Qed.

Lemma conf_context_iff sch a ctx : conf_context sch a ctx = None <-> ContextConforms sch a ctx.
Proof.
  unfold conf_context, ContextConforms. destruct (find_action sch a) as [ai|].
  - rewrite cthen_none, value_uids_iff. split.
    + intros [H1 H2]. exists ai. split; [reflexivity|]. split; [|exact H1]. apply tc_value_ty_iff.
      destruct (tc_value_ty (VRecord ctx) (ai_context ai)); [reflexivity | discriminate].
    + intros [ai' [Hi [H1 H2]]]. inversion Hi; subst ai'. split; [exact H2|].
      apply tc_value_ty_iff in H1. rewrite H1. reflexivity.
  - split; [discriminate | intros [ai [Hc _]]; discriminate].
Qed.

Lemma conf_scope_iff sch p a r :
  conf_scope sch p a r = None <->
  ScopeVarConforms sch p /\ ScopeVarConforms sch r /\
  exists ai, find_action sch a = Some ai /\ In (uty p) (ai_principals ai) /\ In (uty r) (ai_resources ai).
Proof.
  unfold conf_scope. rewrite !cthen_none, !conf_scope_var_iff. apply and_iff2; [reflexivity|].
  apply and_iff2; [reflexivity|].
  destruct (find_action sch a) as [ai|].
  - rewrite cthen_none. unfold applies_principal, applies_resource. split.
    + intros [H1 H2]. exists ai. split; [reflexivity|]. split; apply existsb_name_In.
      * destruct (existsb (name_eqb (uty p)) (ai_principals ai)); [reflexivity | discriminate].
      * destruct (existsb (name_eqb (uty r)) (ai_resources ai)); [reflexivity | discriminate].
    + intros [ai' [Hi [H1 H2]]]. inversion Hi; subst ai'.
      apply existsb_name_In in H1. apply existsb_name_In in H2. rewrite H1, H2. split; reflexivity.
  - split; [discriminate | intros [ai [Hc _]]; discriminate].
Qed.

Theorem conf_request_iff sch q : conf_request sch q = None <-> RequestConforms sch q.
Proof.
  unfold conf_request, RequestConforms. rewrite cthen_none, conf_scope_iff, conf_context_iff. tauto.
Qed.

(* the CSchemaType class (a Rust `expect` on the type conversion) is unreachable on a well-formed schema *)
Lemma first_err_in {A} (f : A -> cres) l e : first_err f l = Some e -> exists x, In x l /\ f x = Some e.
Proof.
  induction l as [|x l IH]; cbn [first_err]; [discriminate|].
  destruct (f x) as [e'|] eqn:E; cbn [cthen].
  - intros [= <-]. exists x. split; [left; reflexivity | exact E].
  - intros H. destruct (IH H) as [y [Hy Hf]]. exists y. split; [right; exact Hy | exact Hf].
Qed.

Lemma cthen_some a b e : cthen a b = Some e -> a = Some e \/ b = Some e.
Proof. destruct a; cbn; intros H; auto. Qed.

Lemma value_uids_not_schematype sch v : value_uids sch v <> Some CSchemaType.
Proof.
  induction v as [p|l IH|kvs IH|x] using value_ind'.
  - destruct p as [b|z|s|u]; cbn [value_uids]; try discriminate.
    unfold uid_ok. intros H. apply cthen_some in H as [H|H].
    + destruct (find_etype sch (uty u)) as [i|]; [|discriminate]. destruct (et_enum i); [|discriminate].
      destruct (enum_ok l u); discriminate.
    + destruct (is_action_type (uty u) && negb (known_action sch u)); discriminate.
  - rewrite value_uids_set. intros H. apply first_err_in in H as [x [Hx Hf]]. rewrite Forall_forall in IH.
    apply (IH _ Hx Hf).
  - rewrite value_uids_record. intros H. apply first_err_in in H as [x [Hx Hf]]. rewrite Forall_forall in IH.
    apply (IH _ Hx Hf).
  - discriminate.
Qed.

Theorem conf_entity_not_schematype sch e : schema_wf sch = true -> conf_entity sch e <> Some CSchemaType.
Proof.
  intros Hwf. destruct e as [u d]. unfold conf_entity. cbn [fst snd].
  destruct (is_action_type (uty u)).
  - unfold conf_action. destruct (action_entity sch u); [|discriminate]. destruct (deep_eq u d u e); discriminate.
  - destruct (find_etype sch (uty u)) as [i|] eqn:Hf; [|discriminate].
    pose proof (wf_find_etype _ _ _ Hwf Hf) as Hi. intros H.
    apply cthen_some in H as [H|H].
    { change (uid_ok sch u) with (value_uids sch (VEntity u)) in H. exact (value_uids_not_schematype _ _ H). }
    apply cthen_some in H as [H|H].
    { unfold conf_attrs in H. apply cthen_some in H as [H|H]; apply first_err_in in H as [x [Hx H]].
      - destruct (has_key x (eattrs d)); discriminate.
      - apply cthen_some in H as [H|H]; [|exact (value_uids_not_schematype _ _ H)].
        destruct (lookup (fst x) (et_attrs i)) as [[t r]|] eqn:Hl.
        + exact (conf_attr_value_not_schematype _ _ (wf_attr_ty _ _ _ _ Hi Hl) H).
        + destruct (et_open i); discriminate. }
    apply cthen_some in H as [H|H].
    { unfold conf_ancestors in H. apply first_err_in in H as [x [Hx H]]. apply cthen_some in H as [H|H].
      - change (uid_ok sch x) with (value_uids sch (VEntity x)) in H. exact (value_uids_not_schematype _ _ H).
      - destruct (existsb (name_eqb (uty x)) (allowed_parent_types sch (uty u))); discriminate. }
    unfold conf_tags in H. apply cthen_some in H as [H|H].
    + destruct (et_tags i) as [t|] eqn:Ht.
      * apply first_err_in in H as [x [Hx H]]. exact (conf_attr_value_not_schematype _ _ (wf_tag_ty _ _ Hi Ht) H).
      * destruct (etags d); discriminate.
    + apply first_err_in in H as [x [Hx H]]. exact (value_uids_not_schematype _ _ H).
Qed.

(* ---------------------------------------------------------------- single-fault rejection lemmas *)
Lemma conf_value_false sch v t : conf_value sch v t = false <-> ~ ValueConforms sch v t.
Proof.
  rewrite <- conf_value_iff. destruct (conf_value sch v t); split; intros H; try discriminate; auto.
  exfalso; apply H; reflexivity.
Qed.

(* faults propagate outwards through sets and records: "at any nesting depth" *)
Lemma reject_in_set sch x l e :
  In x l -> conf_value sch x e = false -> conf_value sch (VSet l) (TSet (Some e)) = false.
Proof.
  intros Hin H. apply conf_value_false. apply conf_value_false in H. intros [Ht Hu]. apply H. split.
  - inversion Ht; subst. auto.
  - intros u Hu'. apply Hu. econstructor; eauto.
Qed.

Lemma reject_in_record sch k x kvs attrs open t r :
  In (k, x) kvs -> lookup k attrs = Some (t, r) -> conf_value sch x t = false ->
  conf_value sch (VRecord kvs) (TRecord attrs open) = false.
Proof.
  intros Hin Hl H. apply conf_value_false. apply conf_value_false in H. intros [Ht Hu]. apply H. split.
  - inversion Ht; subst. eauto.
  - intros u Hu'. apply Hu. econstructor; eauto.
Qed.

Lemma reject_wrong_type sch v t : ~ TypeConforms v t -> conf_value sch v t = false.
Proof. intros H. apply conf_value_false. intros [Ht _]. auto. Qed.

Lemma reject_missing_required_field sch k t kvs attrs open :
  In (k, (t, true)) attrs -> has_key k kvs = false -> conf_value sch (VRecord kvs) (TRecord attrs open) = false.
Proof.
  intros Hin Hk. apply conf_value_false. intros [Ht _]. inversion Ht; subst.
  match goal with H : forall k t, In (k, (t, true)) attrs -> _ |- _ => specialize (H _ _ Hin) end. congruence.
Qed.

Lemma reject_undeclared_field sch k x kvs attrs :
  In (k, x) kvs -> lookup k attrs = None -> conf_value sch (VRecord kvs) (TRecord attrs false) = false.
Proof.
  intros Hin Hl. apply conf_value_false. intros [Ht _]. inversion Ht; subst.
  match goal with H : false = false -> _ |- _ => specialize (H eq_refl _ _ Hin) end.
  apply has_key_false_lookup in Hl. congruence.
Qed.

Lemma reject_enum_id_anywhere sch u v t i ch :
  UidIn u v -> find_etype sch (uty u) = Some i -> et_enum i = Some ch -> ~ In (ueid u) ch ->
  conf_value sch v t = false.
Proof.
  intros Hin Hf He Hn. apply conf_value_false. intros [_ Hu]. destruct (Hu u Hin) as [H _]. eauto.
Qed.

Lemma reject_undeclared_action_uid_anywhere sch u v t :
  UidIn u v -> is_action_type (uty u) = true -> find_action sch u = None -> conf_value sch v t = false.
Proof.
  intros Hin Ha Hf. apply conf_value_false. intros [_ Hu]. destruct (Hu u Hin) as [_ H].
  destruct (H Ha) as [ai Hai]. congruence.
Qed.

Lemma invalid_uid_anywhere sch u v : UidIn u v -> ~ UidValid sch u -> ~ UidsValid sch v.
Proof. intros Hin Hn Hv. apply Hn. apply Hv. exact Hin. Qed.

(* entities of a declared, non-action type *)
Section EntityFaults.
  Variable sch : schema.
  Hypothesis Hwf : schema_wf sch = true.
  Variables (u : uid) (d : edata) (i : etype_info).
  Hypothesis Hna : is_action_type (uty u) = false.
  Hypothesis Hf : find_etype sch (uty u) = Some i.

  Lemma entity_conforms_inv :
    conf_entity sch (u, d) = None ->
    UidValid sch u /\
    (forall k, In k (required_attrs i) -> has_key k (eattrs d) = true) /\
    (forall k v, In (k, v) (eattrs d) ->
       match lookup k (et_attrs i) with
       | Some (t, _) => ValueConforms sch v t
       | None => et_open i = true /\ UidsValid sch v
       end) /\
    (forall a, In a (eancestors d) -> UidValid sch a /\ PermittedAncestorType sch (uty u) (uty a)) /\
    (forall k v, In (k, v) (etags d) -> match et_tags i with Some t => ValueConforms sch v t | None => False end).
  Proof.
    intros H. apply (conf_entity_iff _ _ Hwf) in H. unfold EntityConforms in H. cbn [fst snd] in H.
    rewrite Hna in H. destruct H as [i' [Hi H]]. rewrite Hf in Hi. inversion Hi; subst i'. exact H.
  Qed.

  Lemma reject_attr_wrong_type k v t r :
    In (k, v) (eattrs d) -> lookup k (et_attrs i) = Some (t, r) -> conf_value sch v t = false ->
    conf_entity sch (u, d) <> None.
  Proof.
    intros Hin Hl Hv Hc. apply entity_conforms_inv in Hc as (_ & _ & H & _). specialize (H _ _ Hin).
    rewrite Hl in H. apply conf_value_false in Hv. auto.
  Qed.

  Lemma reject_missing_required_attr k :
    In k (required_attrs i) -> has_key k (eattrs d) = false -> conf_entity sch (u, d) <> None.
  Proof.
    intros Hin Hk Hc. apply entity_conforms_inv in Hc as (_ & H & _). specialize (H _ Hin). congruence.
  Qed.

  Lemma reject_undeclared_attr k v :
    In (k, v) (eattrs d) -> lookup k (et_attrs i) = None -> et_open i = false -> conf_entity sch (u, d) <> None.
  Proof.
    intros Hin Hl Ho Hc. apply entity_conforms_inv in Hc as (_ & _ & H & _). specialize (H _ _ Hin).
    rewrite Hl in H. destruct H. congruence.
  Qed.

  Lemma reject_open_attr_invalid_uid k v :
    In (k, v) (eattrs d) -> lookup k (et_attrs i) = None -> ~ UidsValid sch v -> conf_entity sch (u, d) <> None.
  Proof.
    intros Hin Hl Hn Hc. apply entity_conforms_inv in Hc as (_ & _ & H & _). specialize (H _ _ Hin).
    rewrite Hl in H. destruct H. auto.
  Qed.

  Lemma reject_tag_wrong_type k v t :
    In (k, v) (etags d) -> et_tags i = Some t -> conf_value sch v t = false -> conf_entity sch (u, d) <> None.
  Proof.
    intros Hin Ht Hv Hc. apply entity_conforms_inv in Hc as (_ & _ & _ & _ & H). specialize (H _ _ Hin).
    rewrite Ht in H. apply conf_value_false in Hv. auto.
  Qed.

  Lemma reject_tag_on_tagless_type k v :
    In (k, v) (etags d) -> et_tags i = None -> conf_entity sch (u, d) <> None.
  Proof.
    intros Hin Ht Hc. apply entity_conforms_inv in Hc as (_ & _ & _ & _ & H). specialize (H _ _ Hin).
    rewrite Ht in H. exact H.
  Qed.

  Lemma reject_bad_ancestor_type a :
    In a (eancestors d) -> ~ PermittedAncestorType sch (uty u) (uty a) -> conf_entity sch (u, d) <> None.
  Proof.
    intros Hin Hn Hc. apply entity_conforms_inv in Hc as (_ & _ & _ & H & _). destruct (H _ Hin). auto.
  Qed.

  Lemma reject_invalid_ancestor_uid a :
    In a (eancestors d) -> ~ UidValid sch a -> conf_entity sch (u, d) <> None.
  Proof.
    intros Hin Hn Hc. apply entity_conforms_inv in Hc as (_ & _ & _ & H & _). destruct (H _ Hin). auto.
  Qed.

  Lemma reject_invalid_own_uid : ~ UidValid sch u -> conf_entity sch (u, d) <> None.
  Proof. intros Hn Hc. apply entity_conforms_inv in Hc as (H & _). auto. Qed.
End EntityFaults.

Lemma enum_id_invalid sch u i ch :
  find_etype sch (uty u) = Some i -> et_enum i = Some ch -> ~ In (ueid u) ch -> ~ UidValid sch u.
Proof. intros Hf He Hn [H _]. eauto. Qed.

Lemma reject_undeclared_entity_type sch u d :
  is_action_type (uty u) = false -> find_etype sch (uty u) = None -> conf_entity sch (u, d) = Some CUnexpectedEntityType.
Proof. intros Ha Hf. unfold conf_entity. cbn [fst snd]. rewrite Ha, Hf. reflexivity. Qed.

Lemma reject_undeclared_action_entity sch u d :
  is_action_type (uty u) = true -> find_action sch u = None -> conf_entity sch (u, d) = Some CUndeclaredAction.
Proof.
  intros Ha Hf. unfold conf_entity. cbn [fst snd]. rewrite Ha. unfold conf_action, action_entity. rewrite Hf. reflexivity.
Qed.

Lemma reject_action_mismatch sch u d :
  is_action_type (uty u) = true ->
  (eattrs d <> [] \/ etags d <> [] \/ ~ (forall a, In a (eancestors d) <-> In a (action_ancestors sch u))) ->
  conf_entity sch (u, d) <> None.
Proof.
  intros Ha Hm Hc. unfold conf_entity in Hc. cbn [fst snd] in Hc. rewrite Ha in Hc.
  apply conf_action_iff in Hc as (_ & H1 & H2 & H3). destruct Hm as [Hm|[Hm|Hm]]; auto.
Qed.

(* requests *)
Lemma reject_request_undeclared_action sch q :
  find_action sch (raction q) = None -> conf_request sch q <> None.
Proof. intros Hf Hc. apply conf_request_iff in Hc as (_ & _ & [ai [Hai _]] & _). congruence. Qed.

Lemma reject_request_principal_not_applicable sch q ai :
  find_action sch (raction q) = Some ai -> ~ In (uty (rprincipal q)) (ai_principals ai) -> conf_request sch q <> None.
Proof.
  intros Hf Hn Hc. apply conf_request_iff in Hc as (_ & _ & [ai' [Hai [H _]]] & _).
  rewrite Hf in Hai. inversion Hai; subst. auto.
Qed.

Lemma reject_request_resource_not_applicable sch q ai :
  find_action sch (raction q) = Some ai -> ~ In (uty (rresource q)) (ai_resources ai) -> conf_request sch q <> None.
Proof.
  intros Hf Hn Hc. apply conf_request_iff in Hc as (_ & _ & [ai' [Hai [_ H]]] & _).
  rewrite Hf in Hai. inversion Hai; subst. auto.
Qed.

Lemma reject_request_context sch q ai :
  find_action sch (raction q) = Some ai -> conf_value sch (VRecord (rcontext q)) (ai_context ai) = false ->
  conf_request sch q <> None.
Proof.
  intros Hf Hv Hc. apply conf_request_iff in Hc as (_ & _ & _ & [ai' [Hai H]]).
  rewrite Hf in Hai. inversion Hai; subst. apply conf_value_false in Hv. auto.
Qed.

Lemma reject_request_scope_var sch q :
  ~ ScopeVarConforms sch (rprincipal q) \/ ~ ScopeVarConforms sch (rresource q) -> conf_request sch q <> None.
Proof. intros Hn Hc. apply conf_request_iff in Hc as (H1 & H2 & _). destruct Hn; auto. Qed.

(* ---------------------------------------------------------------- entry points *)
Lemma verdict_accept r : verdict_of r = Accept <-> r = None.
Proof. destruct r; cbn; split; intros; try discriminate; reflexivity. Qed.

Theorem ep_add_iff sch es :
  schema_wf sch = true ->
  (ep_add_entities sch es = Accept <-> forall e, In e es -> EntityConforms sch e).
Proof.
  intros Hwf. unfold ep_add_entities, ep_add_entities_r. rewrite verdict_accept, first_err_none.
  split; intros H e He; apply (conf_entity_iff _ _ Hwf); auto.
Qed.

Theorem ep_upsert_iff sch es :
  schema_wf sch = true ->
  (ep_upsert_entities sch es = Accept <-> forall e, In e es -> EntityConforms sch e).
Proof. exact (ep_add_iff sch es). Qed.

Theorem ep_from_entities_iff sch es :
  schema_wf sch = true ->
  (ep_from_entities sch es = Accept <->
   (forall e, In e es -> is_action_entity e = false -> EntityConforms sch e) /\
   (forall e, In e (tc_close es) -> is_action_entity e = true -> EntityConforms sch e)).
Proof.
  intros Hwf. unfold ep_from_entities, ep_from_entities_r.
  rewrite verdict_accept, cthen_none, !first_err_none. apply and_iff2.
  - split.
    + intros H e He Ha. apply (conf_entity_iff _ _ Hwf). apply H. apply filter_In. rewrite Ha. auto.
    + intros H e He. apply filter_In in He as [He Ha]. apply (conf_entity_iff _ _ Hwf). apply H; auto.
      destruct (is_action_entity e); [discriminate | reflexivity].
  - split.
    + intros H e He Ha. apply (conf_entity_iff _ _ Hwf). apply H. apply filter_In. auto.
    + intros H e He. apply filter_In in He as [He Ha]. apply (conf_entity_iff _ _ Hwf). apply H; auto.
Qed.

(* the closure only changes ancestor lists: non-action entities are checked exactly as given *)
Theorem ep_request_new_iff sch q : ep_request_new sch q = Accept <-> RequestConforms sch q.
Proof. unfold ep_request_new. rewrite verdict_accept. apply conf_request_iff. Qed.

Theorem ep_context_validate_iff sch a ctx : ep_context_validate sch a ctx = Accept <-> ContextConforms sch a ctx.
Proof. unfold ep_context_validate. rewrite verdict_accept. apply conf_context_iff. Qed.

Lemma after_parse_accept p r : after_parse p r = Accept -> p = JOk /\ r = None.
Proof. destruct p, r; cbn; intros H; try discriminate; auto. Qed.

(* the JSON entry points run the same checker after the type-directed parse *)
Theorem ep_entity_from_json_sound sch e :
  schema_wf sch = true -> ep_entity_from_json sch e = Accept -> EntityConforms sch e.
Proof.
  intros Hwf H. apply after_parse_accept in H as [_ H]. apply (conf_entity_iff _ _ Hwf). exact H.
Qed.

Theorem ep_entities_from_json_sound sch es :
  schema_wf sch = true -> ep_entities_from_json sch es = Accept -> ep_from_entities sch es = Accept.
Proof.
  intros Hwf H. apply after_parse_accept in H as [_ H]. unfold ep_from_entities. rewrite H. reflexivity.
Qed.

Theorem ep_add_entities_from_json_sound sch es :
  schema_wf sch = true -> ep_add_entities_from_json sch es = Accept -> forall e, In e es -> EntityConforms sch e.
Proof.
  intros Hwf H. apply after_parse_accept in H as [_ H]. apply (ep_add_iff _ _ Hwf).
  unfold ep_add_entities. rewrite H. reflexivity.
Qed.

Theorem ep_json_same_checker sch :
  (forall e, ep_entity_from_json sch e = after_parse (jparse_entity sch e) (conf_entity sch e)) /\
  (forall es, ep_entities_from_json sch es = after_parse (jres_all (jparse_entity sch) es) (ep_from_entities_r sch es)) /\
  (forall es, ep_add_entities_from_json sch es = after_parse (jres_all (jparse_entity sch) es) (first_err (conf_entity sch) es)) /\
  (forall es, ep_add_entities sch es = verdict_of (first_err (conf_entity sch) es)) /\
  (forall es, ep_upsert_entities sch es = verdict_of (first_err (conf_entity sch) es)) /\
  (forall es, ep_from_entities sch es =
     verdict_of (cthen (first_err (conf_entity sch) (filter (fun e => negb (is_action_entity e)) es))
                       (first_err (conf_entity sch) (filter is_action_entity (tc_close es))))) /\
  (forall q, ep_request_new sch q = verdict_of (conf_request sch q)) /\
  (forall a c, ep_context_validate sch a c = verdict_of (conf_context sch a c)).
Proof. repeat split. Qed.

(* ---------------------------------------------------------------- a concrete schema: non-vacuity
   and the witness for Context::from_json *)
Definition ex_user : etype := [s2str "User"].
Definition ex_group : etype := [s2str "Group"].
Definition ex_color : etype := [s2str "Color"].
Definition ex_view : uid := mkUid [s2str "Action"] (s2str "view").
Definition ex_all : uid := mkUid [s2str "Action"] (s2str "all").
Definition ex_ctx_ty : ty :=
  TRecord [(s2str "c", (ty_entity ex_color, false)); (s2str "n", (TLong, true));
           (s2str "s", (ty_set TLong, false))] false.
Definition ex_schema : schema :=
  mkSchema
    [(ex_user, mkEtypeInfo
                 [(s2str "c", (ty_entity ex_color, false));
                  (s2str "fr", (ty_set (ty_entity ex_user), false));
                  (s2str "n", (TLong, true));
                  (s2str "r", (TRecord [(s2str "z", (ty_set (ty_entity ex_color), true))] false, false))]
                 false (Some (ty_set TString)) [] None);
     (ex_group, mkEtypeInfo [] false None [ex_user] None);
     (ex_color, mkEtypeInfo [] false None [] (Some [s2str "red"; s2str "green"]))]
    [(ex_all, mkActionInfo [] [] (TRecord [] false) [ex_view]);
     (ex_view, mkActionInfo [ex_user] [ex_group] ex_ctx_ty [])].

Definition ex_uid (t : etype) (s : string) : uid := mkUid t (s2str s).
Definition ex_alice : uid * edata :=
  (ex_uid ex_user "alice",
   mkEdata [(s2str "c", VEntity (ex_uid ex_color "red")); (s2str "n", VLong 1);
            (s2str "r", VRecord [(s2str "z", VSet [VEntity (ex_uid ex_color "green")])])]
           [(s2str "t", VSet [VString (s2str "x")])]
           [ex_uid ex_group "g"]).
Definition ex_request : request :=
  mkRequest (ex_uid ex_user "alice") ex_view (ex_uid ex_group "g") [(s2str "n", VLong 1)].
(* the F-d witness: `n` is declared Long, the context holds a string *)
Definition ex_bad_ctx : list (str * value) := [(s2str "n", VString (s2str "x"))].
(* ... and an undeclared enumerated id *)
Definition ex_bad_ctx_enum : list (str * value) :=
  [(s2str "c", VEntity (ex_uid ex_color "blue")); (s2str "n", VLong 1)].

Lemma ex_schema_wf : schema_wf ex_schema = true.
Proof. vm_compute. reflexivity. Qed.

Theorem context_from_json_refuted :
  exists sch a ctx,
    schema_wf sch = true /\
    ep_context_from_json sch a ctx = Accept /\
    ~ ContextConforms sch a ctx /\
    ep_context_validate sch a ctx = Reject CInvalidContext.
Proof.
  exists ex_schema, ex_view, ex_bad_ctx. split; [exact ex_schema_wf|]. split; [vm_compute; reflexivity|]. split.
  - intros H. apply conf_context_iff in H. vm_compute in H. discriminate.
  - vm_compute. reflexivity.
Qed.

Theorem context_from_json_refuted_enum :
  exists sch a ctx,
    schema_wf sch = true /\
    ep_context_from_json sch a ctx = Accept /\
    ~ ContextConforms sch a ctx /\
    ep_context_validate sch a ctx = Reject CInvalidEnumEntity.
Proof.
  exists ex_schema, ex_view, ex_bad_ctx_enum. split; [exact ex_schema_wf|]. split; [vm_compute; reflexivity|]. split.
  - intros H. apply conf_context_iff in H. vm_compute in H. discriminate.
  - vm_compute. reflexivity.
Qed.
