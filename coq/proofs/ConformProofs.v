(* ConformProofs.v — lemmas for property C11 (schema conformance).
   The boolean checkers of model/Conform.v (transcribed from conformance.rs / coreschema.rs /
   types.rs) are equivalent to the declarative specification of Conform.v part 3; single-fault
   rejection lemmas; entry-point lemmas. *)
From Coq Require Import Lia String.
From Cedar Require Import Conform ValueProofs.

(* ---------------------------------------------------------------- basics *)
Lemma name_eqb_eq a b : name_eqb a b = true <-> a = b.
Proof. apply strs_eqb_eq. Qed.

Lemma name_eqb_refl a : name_eqb a a = true.
Proof. apply name_eqb_eq; reflexivity. Qed.

Lemma uid_eqb_refl a : uid_eqb a a = true.
Proof. apply uid_eqb_eq; reflexivity. Qed.

Lemma existsb_str_In x l : existsb (str_eqb x) l = true <-> In x l.
Proof.
  rewrite existsb_exists. split.
  - intros [y [Hy He]]. apply str_eqb_eq in He. subst; auto.
  - intros H. exists x. split; auto. apply str_eqb_refl.
Qed.

Lemma existsb_name_In x l : existsb (name_eqb x) l = true <-> In x l.
Proof.
  rewrite existsb_exists. split.
  - intros [y [Hy He]]. apply name_eqb_eq in He. subst; auto.
  - intros H. exists x. split; auto. apply name_eqb_refl.
Qed.

Lemma existsb_uid_In x l : existsb (uid_eqb x) l = true <-> In x l.
Proof.
  rewrite existsb_exists. split.
  - intros [y [Hy He]]. apply uid_eqb_eq in He. subst; auto.
  - intros H. exists x. split; auto. apply uid_eqb_refl.
Qed.

Lemma lub_contains_In ts t : lub_contains ts t = true <-> In t ts.
Proof. unfold lub_contains. apply existsb_name_In. Qed.

Lemma forallb_ext {A} (f g : A -> bool) l : (forall x, f x = g x) -> forallb f l = forallb g l.
Proof. intros H. induction l as [|x l IH]; cbn [forallb]; [reflexivity|]. rewrite H, IH. reflexivity. Qed.

Lemma cthen_none a b : cthen a b = None <-> a = None /\ b = None.
Proof.
  destruct a; cbn; split; intros H.
  - discriminate.
  - destruct H; discriminate.
  - split; auto.
  - destruct H; auto.
Qed.

Lemma first_err_none {A} (f : A -> cres) l : first_err f l = None <-> forall x, In x l -> f x = None.
Proof.
  induction l as [|x l IH]; cbn [first_err].
  - split; auto. intros _ x [].
  - rewrite cthen_none, IH. split.
    + intros [H1 H2] y [<-|Hy]; auto.
    + intros H; split; [apply H; left; reflexivity | intros y Hy; apply H; right; exact Hy].
Qed.

Lemma accepts_true r : accepts r = true <-> r = None.
Proof. destruct r; cbn; split; intros; try discriminate; auto. Qed.

Lemma has_key_lookup {V} k (l : list (str * V)) : has_key k l = true <-> exists v, lookup k l = Some v.
Proof.
  unfold has_key. destruct (lookup k l) as [v|]; split; intros H; try discriminate; eauto.
  destruct H as [v H]; discriminate.
Qed.

Lemma has_key_false_lookup {V} k (l : list (str * V)) : has_key k l = false <-> lookup k l = None.
Proof. unfold has_key. destruct (lookup k l); split; intros; try discriminate; auto. Qed.

Lemma lookup_In {V} k (l : list (str * V)) v : lookup k l = Some v -> In (k, v) l.
Proof.
  induction l as [|[k' v'] l IH]; cbn [lookup]; [discriminate|].
  destruct (str_eqb k k') eqn:E.
  - intros [= ->]. apply str_eqb_eq in E; subst. left; reflexivity.
  - intros H; right; auto.
Qed.

Lemma In_has_key {V} k (v : V) l : In (k, v) l -> has_key k l = true.
Proof.
  induction l as [|[k' v'] l IH]; cbn [In]; [intros []|].
  unfold has_key in *. cbn [lookup]. destruct (str_eqb k k') eqn:E; [reflexivity|].
  intros [H|H]; [inversion H; subst; rewrite str_eqb_refl in E; discriminate | auto].
Qed.

(* in a duplicate-free association list, membership determines lookup *)
Lemma nodup_In_lookup {V} k (v : V) l : keys_nodup l = true -> In (k, v) l -> lookup k l = Some v.
Proof.
  induction l as [|[k' v'] l IH]; cbn [In keys_nodup lookup]; [intros _ []|].
  intros Hn [H|H].
  - inversion H; subst. rewrite str_eqb_refl. reflexivity.
  - apply andb_true_iff in Hn as [Hk Hn]. destruct (str_eqb k k') eqn:E.
    + apply str_eqb_eq in E; subst. apply In_has_key in H. rewrite H in Hk. discriminate.
    + auto.
Qed.

(* ---------------------------------------------------------------- values against types *)
Definition each_ty (attrs : attrs_ty) (open : bool) (kvs : list (str * value)) : bool :=
  forallb (fun kv : str * value =>
             match lookup (fst kv) attrs with
             | Some (ta, _) => tc_value_ty (snd kv) ta
             | None => open
             end) kvs.

Lemma tc_value_ty_record kvs attrs open :
  tc_value_ty (VRecord kvs) (TRecord attrs open) =
  each_ty attrs open kvs && forallb (fun a : str * (ty * bool) => negb (snd (snd a)) || has_key (fst a) kvs) attrs.
Proof.
  cbn [tc_value_ty]. f_equal. unfold each_ty.
  induction kvs as [|[k v] l IH]; cbn [forallb fst snd]; [reflexivity|].
  rewrite <- IH. reflexivity.
Qed.

Lemma tc_value_ty_set l e :
  tc_value_ty (VSet l) (TSet (Some e)) = forallb (fun x => tc_value_ty x e) l.
Proof. reflexivity. Qed.

Theorem tc_value_ty_iff v : forall t, tc_value_ty v t = true <-> TypeConforms v t.
Proof.
  induction v as [p|l IH|kvs IH|x] using value_ind'; intros t; split; intros H.
  - (* prim -> *)
    destruct t as [|b| | |e|k|attrs open|n]; try destruct b; try destruct e; try destruct k;
      destruct p as [[]|z|s|u]; cbn in H; try discriminate; try constructor.
    apply lub_contains_In; exact H.
  - inversion H; subst; cbn; try reflexivity. apply lub_contains_In; assumption.
  - (* set -> *)
    destruct t as [|b| | |e|k|attrs open|n]; try destruct b; try destruct e; try destruct k;
      cbn in H; try discriminate; try constructor.
    intros x Hx. rewrite forallb_forall in H. rewrite Forall_forall in IH.
    apply IH; auto.
  - inversion H; subst; [reflexivity|].
    rewrite tc_value_ty_set. apply forallb_forall. intros x Hx. rewrite Forall_forall in IH.
    apply IH; auto.
  - (* record -> *)
    destruct t as [|b| | |e|k|attrs open|n]; try destruct b; try destruct e; try destruct k;
      try (cbn in H; discriminate).
    rewrite tc_value_ty_record in H. apply andb_true_iff in H as [He Hr].
    unfold each_ty in He. rewrite forallb_forall in He, Hr. rewrite Forall_forall in IH.
    constructor.
    + intros k t Hin. specialize (Hr _ Hin). cbn in Hr. exact Hr.
    + intros k v Hin t r Hl. specialize (He _ Hin). cbn [fst snd] in He. rewrite Hl in He.
      apply (IH _ Hin). exact He.
    + intros -> k v Hin. specialize (He _ Hin). cbn [fst snd] in He.
      unfold has_key. destruct (lookup k attrs) as [[ta r]|]; [reflexivity | discriminate].
  - inversion H as [| | | | | | | | |kvs' attrs open Hreq Hty Hext| ]; subst.
    rewrite tc_value_ty_record. apply andb_true_iff. rewrite Forall_forall in IH. split.
    + unfold each_ty. apply forallb_forall. intros [k v] Hin. cbn [fst snd].
      destruct (lookup k attrs) as [[ta r]|] eqn:Hl.
      * apply (IH _ Hin). eapply Hty; eauto.
      * destruct open; [reflexivity|]. specialize (Hext eq_refl _ _ Hin).
        unfold has_key in Hext. rewrite Hl in Hext. discriminate.
    + apply forallb_forall. intros [k [t r]] Hin. cbn [fst snd]. destruct r; [|reflexivity].
      cbn. eapply Hreq; eauto.
  - (* ext *)
    destruct t as [|b| | |e|k|attrs open|n]; try destruct b; try destruct e; try destruct k;
      cbn in H; try discriminate.
    constructor. apply name_eqb_eq in H. exact H.
  - inversion H; subst. cbn. apply name_eqb_refl.
Qed.

(* ---------------------------------------------------------------- entity uids *)
Lemma enum_ok_In ch u : enum_ok ch u = true <-> In (ueid u) ch.
Proof. unfold enum_ok. apply existsb_str_In. Qed.

Lemma known_action_iff sch u : known_action sch u = true <-> exists ai, find_action sch u = Some ai.
Proof.
  unfold known_action. destruct (find_action sch u) as [ai|]; split; intros H; try discriminate; eauto.
  destruct H as [ai H]; discriminate.
Qed.

Lemma and_iff2 (A B C D : Prop) : (A <-> C) -> (B <-> D) -> (A /\ B <-> C /\ D).
Proof. tauto. Qed.

Lemma uid_ok_iff sch u : uid_ok sch u = None <-> UidValid sch u.
Proof.
  unfold uid_ok, UidValid. rewrite cthen_none. apply and_iff2.
  - destruct (find_etype sch (uty u)) as [i|].
    + destruct (et_enum i) as [ch|] eqn:Hen.
      * destruct (enum_ok ch u) eqn:E.
        -- split; auto. intros _ i' ch' Hi Hc. inversion Hi; subst i'. rewrite Hen in Hc.
           inversion Hc; subst ch'. apply enum_ok_In; exact E.
        -- split; [discriminate|]. intros H. specialize (H i ch eq_refl Hen).
           apply enum_ok_In in H. congruence.
      * split; auto. intros _ i' ch' Hi Hc. inversion Hi; subst i'. congruence.
    + split; auto. intros _ i' ch' Hc. discriminate.
  - destruct (is_action_type (uty u)); cbn [andb].
    + destruct (known_action sch u) eqn:E; cbn [negb].
      * split; auto. intros _ _. apply known_action_iff; exact E.
      * split; [discriminate|]. intros H. specialize (H eq_refl). apply known_action_iff in H. congruence.
    + split; auto. intros _ Hc. discriminate.
Qed.

Lemma value_uids_set sch l : value_uids sch (VSet l) = first_err (value_uids sch) l.
Proof.
  cbn [value_uids]. induction l as [|x l IH]; cbn [first_err]; [reflexivity|]. rewrite <- IH. reflexivity.
Qed.

Lemma value_uids_record sch kvs :
  value_uids sch (VRecord kvs) = first_err (fun kv : str * value => value_uids sch (snd kv)) kvs.
Proof.
  cbn [value_uids]. induction kvs as [|[k x] l IH]; cbn [first_err snd]; [reflexivity|]. rewrite <- IH. reflexivity.
Qed.

Theorem value_uids_iff sch v : value_uids sch v = None <-> UidsValid sch v.
Proof.
  unfold UidsValid.
  induction v as [p|l IH|kvs IH|x] using value_ind'.
  - destruct p as [b|z|s|u]; cbn [value_uids];
      try (split; [intros _ u' Hin; inversion Hin | reflexivity]).
    rewrite uid_ok_iff. split.
    + intros H u' Hin. inversion Hin; subst. exact H.
    + intros H. apply H. constructor.
  - rewrite value_uids_set, first_err_none. rewrite Forall_forall in IH. split.
    + intros H u Hin. inversion Hin as [|x l' Hx Hu|]; subst.
      apply (proj1 (IH _ Hx) (H _ Hx)). exact Hu.
    + intros H x Hx. apply (IH _ Hx). intros u Hu. apply H. econstructor; eauto.
  - rewrite value_uids_record, first_err_none. rewrite Forall_forall in IH. split.
    + intros H u Hin. inversion Hin as [| |k x kvs' Hx Hu]; subst.
      apply (proj1 (IH _ Hx) (H _ Hx)). exact Hu.
    + intros H [k x] Hx. cbn [snd]. apply (IH _ Hx). intros u Hu. apply H. econstructor; eauto.
  - cbn [value_uids]. split; [intros _ u Hin; inversion Hin | reflexivity].
Qed.

(* the value theorem *)
Theorem conf_value_iff sch v t : conf_value sch v t = true <-> ValueConforms sch v t.
Proof.
  unfold conf_value, ValueConforms. rewrite andb_true_iff, accepts_true, tc_value_ty_iff, value_uids_iff.
  reflexivity.
Qed.

(* ---------------------------------------------------------------- the two value checkers agree
   on declared types (validator Type vs SchemaType) *)
Section TyInd.
  Variable P : ty -> Prop.
  Hypothesis Hnever : P TNever.
  Hypothesis Hbool : forall b, P (TBool b).
  Hypothesis Hlong : P TLong.
  Hypothesis Hstring : P TString.
  Hypothesis Hanyset : P (TSet None).
  Hypothesis Hset : forall e, P e -> P (TSet (Some e)).
  Hypothesis Hent : forall k, P (TEntity k).
  Hypothesis Hrec : forall attrs open, Forall (fun a : str * (ty * bool) => P (fst (snd a))) attrs -> P (TRecord attrs open).
  Hypothesis Hext : forall n, P (TExt n).

  Fixpoint ty_ind' (t : ty) : P t :=
    match t with
    | TNever => Hnever
    | TBool b => Hbool b
    | TLong => Hlong
    | TString => Hstring
    | TSet None => Hanyset
    | TSet (Some e) => Hset e (ty_ind' e)
    | TEntity k => Hent k
    | TRecord attrs open =>
        Hrec attrs open
          ((fix go (l : attrs_ty) : Forall (fun a : str * (ty * bool) => P (fst (snd a))) l :=
              match l with
              | [] => Forall_nil _
              | a :: l' => Forall_cons _ (ty_ind' (fst (snd a))) (go l')
              end) attrs)
    | TExt n => Hext n
    end.
End TyInd.

Fixpoint to_sty_attrs (l : attrs_ty) : option attrs_sty :=
  match l with
  | [] => Some []
  | (k, (a, r)) :: l' =>
      match to_sty a, to_sty_attrs l' with
      | Some s, Some rest => Some ((k, (s, r)) :: rest)
      | _, _ => None
      end
  end.

Lemma to_sty_record attrs open :
  to_sty (TRecord attrs open) = option_map (fun a => SRecord a open) (to_sty_attrs attrs).
Proof.
  reflexivity.
Qed.

Lemma schema_ty_record attrs open :
  schema_ty (TRecord attrs open) = forallb (fun a : str * (ty * bool) => schema_ty (fst (snd a))) attrs.
Proof.
  cbn [schema_ty]. induction attrs as [|[k [a r]] l IH]; [reflexivity|]. cbn [forallb fst snd]. rewrite <- IH. reflexivity.
Qed.

Lemma wf_ty_record attrs open :
  wf_ty (TRecord attrs open) = keys_nodup attrs && forallb (fun a : str * (ty * bool) => wf_ty (fst (snd a))) attrs.
Proof.
  cbn [wf_ty]. f_equal. induction attrs as [|[k [a r]] l IH]; [reflexivity|]. cbn [forallb fst snd]. rewrite <- IH. reflexivity.
Qed.

Lemma decl_ty_ok_record attrs open :
  decl_ty_ok (TRecord attrs open) = true ->
  keys_nodup attrs = true /\ forall a, In a attrs -> decl_ty_ok (fst (snd a)) = true.
Proof.
  unfold decl_ty_ok. rewrite schema_ty_record, wf_ty_record. intros H.
  apply andb_true_iff in H as [H1 H2]. apply andb_true_iff in H2 as [H2 H3].
  split; [exact H2|]. intros a Ha. rewrite forallb_forall in H1, H3.
  rewrite (H1 _ Ha), (H3 _ Ha). reflexivity.
Qed.

Fixpoint find_st (k : str) (t : sty) (kvs : list (str * value)) : bool :=
  match kvs with
  | [] => false
  | (k', v') :: l' => if str_eqb k k' then tc_value_st v' t else find_st k t l'
  end.

Definition each_st (attrs : attrs_sty) (open : bool) (kvs : list (str * value)) : bool :=
  forallb (fun kv : str * value =>
             match lookup (fst kv) attrs with
             | Some (ta, _) => tc_value_st (snd kv) ta
             | None => open
             end) kvs.

Lemma tc_value_st_record kvs attrs open :
  tc_value_st (VRecord kvs) (SRecord attrs open) =
  forallb (fun a : str * (sty * bool) => if snd (snd a) then find_st (fst a) (fst (snd a)) kvs else true) attrs
  && each_st attrs open kvs.
Proof.
  cbn [tc_value_st]. f_equal.
  - apply forallb_ext. intros [k [t r]]. cbn [fst snd]. destruct r; [|reflexivity].
    induction kvs as [|[k' v'] l IH]; [reflexivity|]. cbn [find_st]. rewrite <- IH. reflexivity.
  - unfold each_st. induction kvs as [|[k v] l IH]; cbn [forallb fst snd]; [reflexivity|].
    rewrite <- IH. reflexivity.
Qed.

Lemma find_st_lookup k t kvs :
  find_st k t kvs = match lookup k kvs with Some v' => tc_value_st v' t | None => false end.
Proof.
  induction kvs as [|[k' v'] l IH]; [reflexivity|]. cbn [find_st lookup].
  destruct (str_eqb k k'); auto.
Qed.

Definition attr_rel (a : str * (ty * bool)) (sa : str * (sty * bool)) : Prop :=
  fst a = fst sa /\ snd (snd a) = snd (snd sa) /\
  forall v, tc_value_st v (fst (snd sa)) = tc_value_ty v (fst (snd a)).

Lemma attr_rel_lookup attrs sattrs :
  Forall2 attr_rel attrs sattrs -> forall k,
  match lookup k attrs, lookup k sattrs with
  | Some (ta, r), Some (sta, sr) => r = sr /\ forall v, tc_value_st v sta = tc_value_ty v ta
  | None, None => True
  | _, _ => False
  end.
Proof.
  induction 1 as [|[k1 [t1 r1]] [k2 [t2 r2]] l1 l2 [Hk [Hr Hv]] HF IH]; intros k; cbn [lookup]; [exact I|].
  cbn [fst snd] in *. subst k2. destruct (str_eqb k k1); [auto | apply IH].
Qed.

Lemma Forall2_In_impl {A B} (R Q : A -> B -> Prop) l1 l2 :
  Forall2 R l1 l2 -> (forall a b, In a l1 -> R a b -> Q a b) -> Forall2 Q l1 l2.
Proof.
  induction 1 as [|a b l1 l2 Hab HF IH]; intros H; constructor.
  - apply H; [left; reflexivity | exact Hab].
  - apply IH. intros a' b' Hin. apply H. right; exact Hin.
Qed.

Lemma forallb_Forall2 {A B} (f : A -> bool) (g : B -> bool) l1 l2 :
  Forall2 (fun a b => f a = g b) l1 l2 -> forallb f l1 = forallb g l2.
Proof. induction 1 as [|a b l1 l2 Hab HF IH]; cbn [forallb]; [reflexivity|]. rewrite Hab, IH. reflexivity. Qed.

Theorem st_agrees t :
  decl_ty_ok t = true ->
  exists st, to_sty t = Some st /\ forall v, tc_value_st v st = tc_value_ty v t.
Proof.
  induction t as [|b| | | |e IH|k|attrs open IH|n] using ty_ind'; intros Hok.
  - discriminate.
  - destruct b; try discriminate. exists SBool. split; [reflexivity|]. intros [[]| | |]; reflexivity.
  - exists SLong. split; [reflexivity|]. intros [[]| | |]; reflexivity.
  - exists SString. split; [reflexivity|]. intros [[]| | |]; reflexivity.
  - discriminate.
  - destruct (IH Hok) as [st [Hst Hv]]. exists (SSet st). split.
    + cbn [to_sty]. rewrite Hst. reflexivity.
    + intros [[]|l| |]; try reflexivity. cbn [tc_value_st]. rewrite tc_value_ty_set.
      apply forallb_ext. intros x. apply Hv.
  - destruct k as [|[|t [|]]]; try discriminate. exists (SEntity t). split; [reflexivity|].
    intros [[]| | |]; try reflexivity. cbn. rewrite orb_false_r. reflexivity.
  - apply decl_ty_ok_record in Hok as [Hnd Hdecl].
    assert (Hs : exists sattrs, to_sty_attrs attrs = Some sattrs /\ Forall2 attr_rel attrs sattrs).
    { clear Hnd. induction attrs as [|[k [a r]] l IHl].
      - exists []. split; [reflexivity | constructor].
      - inversion IH as [|x l' Ha Hl]; subst. cbn [fst snd] in Ha.
        destruct (Ha (Hdecl _ (or_introl eq_refl))) as [st [Hst Hv]].
        destruct (IHl Hl (fun a Hin => Hdecl a (or_intror Hin))) as [rest [Hrest HF]].
        exists ((k, (st, r)) :: rest). split.
        + cbn [to_sty_attrs]. rewrite Hst, Hrest. reflexivity.
        + constructor; [|exact HF]. repeat split. exact Hv. }
    destruct Hs as [sattrs [Hs HF]].
    exists (SRecord sattrs open). split; [rewrite to_sty_record, Hs; reflexivity|].
    intros [p|l|kvs|x]; try reflexivity.
    rewrite tc_value_st_record, tc_value_ty_record.
    assert (He : each_st sattrs open kvs = each_ty attrs open kvs).
    { unfold each_st, each_ty. apply forallb_ext. intros [k v]. cbn [fst snd].
      pose proof (attr_rel_lookup _ _ HF k) as Hl.
      destruct (lookup k attrs) as [[ta r]|], (lookup k sattrs) as [[sta sr]|]; try contradiction; [|reflexivity].
      apply Hl. }
    rewrite He. destruct (each_ty attrs open kvs) eqn:Hety; [|rewrite andb_false_r; reflexivity].
    rewrite andb_true_r. cbn [andb]. symmetry. apply forallb_Forall2.
    eapply Forall2_In_impl; [exact HF|].
    intros [k [ta r]] [k' [sta sr]] Hin [Hk [Hr Hv]]. cbn [fst snd] in *. subst k' sr.
    destruct r; [|reflexivity]. cbn [negb orb]. rewrite find_st_lookup. unfold has_key.
    destruct (lookup k kvs) as [v'|] eqn:Hl; [|reflexivity].
    symmetry. rewrite Hv. apply lookup_In in Hl.
    unfold each_ty in Hety. rewrite forallb_forall in Hety. specialize (Hety _ Hl). cbn [fst snd] in Hety.
    rewrite (nodup_In_lookup _ _ _ Hnd Hin) in Hety. exact Hety.
  - exists (SExt n). split; [reflexivity|]. intros [[]| | |]; reflexivity.
Qed.

(* ---------------------------------------------------------------- schema invariants *)
Lemma find_etype_in_In t l i : find_etype_in t l = Some i -> In (t, i) l.
Proof.
  induction l as [|[n j] l IH]; cbn [find_etype_in]; [discriminate|].
  destruct (name_eqb t n) eqn:E.
  - intros [= ->]. apply name_eqb_eq in E; subst. left; reflexivity.
  - intros H; right; auto.
Qed.

Lemma find_action_in_In u l i : find_action_in u l = Some i -> In (u, i) l.
Proof.
  induction l as [|[n j] l IH]; cbn [find_action_in]; [discriminate|].
  destruct (uid_eqb u n) eqn:E.
  - intros [= ->]. apply uid_eqb_eq in E; subst. left; reflexivity.
  - intros H; right; auto.
Qed.

Lemma wf_find_etype sch t i : schema_wf sch = true -> find_etype sch t = Some i -> etype_info_wf i = true.
Proof.
  unfold schema_wf, find_etype. intros H Hf. apply andb_true_iff in H as [H _].
  rewrite forallb_forall in H. apply (H _ (find_etype_in_In _ _ _ Hf)).
Qed.

Lemma wf_find_action sch u ai :
  schema_wf sch = true -> find_action sch u = Some ai ->
  decl_ty_ok (ai_context ai) = true /\ is_action_type (uty u) = true.
Proof.
  unfold schema_wf, find_action. intros H Hf. apply andb_true_iff in H as [_ H].
  rewrite forallb_forall in H. specialize (H _ (find_action_in_In _ _ _ Hf)). cbn [fst snd] in H.
  apply andb_true_iff in H. exact H.
Qed.

Lemma wf_attr_ty i k t r : etype_info_wf i = true -> lookup k (et_attrs i) = Some (t, r) -> decl_ty_ok t = true.
Proof.
  unfold etype_info_wf. intros H Hl. apply andb_true_iff in H as [H _].
  rewrite forallb_forall in H. apply (H _ (lookup_In _ _ _ Hl)).
Qed.

Lemma wf_tag_ty i t : etype_info_wf i = true -> et_tags i = Some t -> decl_ty_ok t = true.
Proof. unfold etype_info_wf. intros H Ht. apply andb_true_iff in H as [_ H]. rewrite Ht in H. exact H. Qed.

(* attr_type()/tag_type() + typecheck_value_against_schematype == the declarative typing *)
Lemma conf_attr_value_iff v t : decl_ty_ok t = true -> (conf_attr_value v t = None <-> TypeConforms v t).
Proof.
  intros Hok. destruct (st_agrees t Hok) as [st [Hst Hv]]. unfold conf_attr_value. rewrite Hst, Hv.
  rewrite <- tc_value_ty_iff. destruct (tc_value_ty v t); split; intros; try discriminate; reflexivity.
Qed.

Lemma conf_attr_value_not_schematype v t : decl_ty_ok t = true -> conf_attr_value v t <> Some CSchemaType.
Proof.
  intros Hok. destruct (st_agrees t Hok) as [st [Hst Hv]]. unfold conf_attr_value. rewrite Hst.
  destruct (tc_value_st v st); discriminate.
Qed.

(* ---------------------------------------------------------------- entities *)
Lemma conf_attrs_iff sch i attrs :
  etype_info_wf i = true ->
  (conf_attrs sch i attrs = None <->
   (forall k, In k (required_attrs i) -> has_key k attrs = true) /\
   (forall k v, In (k, v) attrs ->
      match lookup k (et_attrs i) with
      | Some (t, _) => ValueConforms sch v t
      | None => et_open i = true /\ UidsValid sch v
      end)).
Proof.
  intros Hwf. unfold conf_attrs. rewrite cthen_none, !first_err_none. apply and_iff2.
  - split; intros H k Hk; specialize (H k Hk); destruct (has_key k attrs); auto; discriminate.
  - split.
    + intros H k v Hin. specialize (H _ Hin). cbn [fst snd] in H. apply cthen_none in H as [H1 H2].
      apply value_uids_iff in H2.
      destruct (lookup k (et_attrs i)) as [[t r]|] eqn:Hl.
      * split; [|exact H2]. apply (conf_attr_value_iff v t (wf_attr_ty _ _ _ _ Hwf Hl)). exact H1.
      * split; [|exact H2]. destruct (et_open i); [reflexivity | discriminate].
    + intros H [k v] Hin. specialize (H _ _ Hin). cbn [fst snd]. apply cthen_none.
      destruct (lookup k (et_attrs i)) as [[t r]|] eqn:Hl.
      * destruct H as [H1 H2]. split; [|apply value_uids_iff; exact H2].
        apply (conf_attr_value_iff v t (wf_attr_ty _ _ _ _ Hwf Hl)). exact H1.
      * destruct H as [H1 H2]. split; [rewrite H1; reflexivity | apply value_uids_iff; exact H2].
Qed.

Lemma allowed_parent_iff sch t a :
  existsb (name_eqb a) (allowed_parent_types sch t) = true <-> PermittedAncestorType sch t a.
Proof.
  rewrite existsb_name_In. unfold allowed_parent_types, PermittedAncestorType. rewrite in_map_iff. split.
  - intros [[n i] [Hn Hin]]. cbn [fst] in Hn. subst n. apply filter_In in Hin as [Hin Hex].
    cbn [snd] in Hex. apply existsb_name_In in Hex. exists i; auto.
  - intros [i [Hin Hd]]. exists (a, i). split; [reflexivity|]. apply filter_In. split; [exact Hin|].
    cbn [snd]. apply existsb_name_In. exact Hd.
Qed.

Lemma conf_ancestors_iff sch t ancs :
  conf_ancestors sch t ancs = None <->
  forall a, In a ancs -> UidValid sch a /\ PermittedAncestorType sch t (uty a).
Proof.
  unfold conf_ancestors. rewrite first_err_none. split.
  - intros H a Ha. specialize (H a Ha). apply cthen_none in H as [H1 H2]. split.
    + apply uid_ok_iff; exact H1.
    + apply allowed_parent_iff. destruct (existsb (name_eqb (uty a)) (allowed_parent_types sch t)); [reflexivity | discriminate].
  - intros H a Ha. destruct (H a Ha) as [H1 H2]. apply cthen_none. split.
    + apply uid_ok_iff; exact H1.
    + apply allowed_parent_iff in H2. rewrite H2. reflexivity.
Qed.

Lemma conf_tags_iff sch i tags :
  etype_info_wf i = true ->
  (conf_tags sch i tags = None <->
   forall k v, In (k, v) tags ->
     match et_tags i with Some t => ValueConforms sch v t | None => False end).
Proof.
  intros Hwf. unfold conf_tags. rewrite cthen_none. destruct (et_tags i) as [t|] eqn:Ht.
  - rewrite !first_err_none. pose proof (wf_tag_ty _ _ Hwf Ht) as Hok. split.
    + intros [H1 H2] k v Hin. split.
      * apply (conf_attr_value_iff v t Hok). apply (H1 _ Hin).
      * apply value_uids_iff. apply (H2 _ Hin).
    + intros H. split; intros [k v] Hin; destruct (H _ _ Hin) as [H1 H2]; cbn [snd].
      * apply (conf_attr_value_iff v t Hok). exact H1.
      * apply value_uids_iff. exact H2.
  - destruct tags as [|[k v] l].
    + split; [intros _ k v [] | intros _; split; reflexivity].
    + split; [intros [Hc _]; discriminate | intros H; destruct (H k v (or_introl eq_refl))].
Qed.

Lemma rec_eqb_nil xs : rec_eqb xs [] = true <-> xs = [].
Proof. destruct xs as [|[k v] l]; cbn; split; intros; try discriminate; reflexivity. Qed.

Lemma uids_subset_iff a b : uids_subset a b = true <-> forall x, In x a -> In x b.
Proof.
  unfold uids_subset. rewrite forallb_forall. split; intros H x Hx; specialize (H x Hx); apply existsb_uid_In; exact H.
Qed.

Lemma conf_action_iff sch u d : conf_action sch u d = None <-> ActionConforms sch u d.
Proof.
  unfold conf_action, ActionConforms, action_entity.
  destruct (find_action sch u) as [ai|].
  - unfold deep_eq. cbn [eattrs etags eancestors]. rewrite uid_eqb_refl, !value_eqb_record. cbn [andb].
    split.
    + intros H.
      destruct (rec_eqb (eattrs d) []) eqn:E1; [|discriminate].
      destruct (rec_eqb (etags d) []) eqn:E2; [|discriminate].
      destruct (uids_subset (eancestors d) (action_ancestors sch u)) eqn:E3; [|discriminate].
      destruct (uids_subset (action_ancestors sch u) (eancestors d)) eqn:E4; [|discriminate].
      apply rec_eqb_nil in E1. apply rec_eqb_nil in E2.
      rewrite uids_subset_iff in E3, E4.
      repeat split; eauto.
    + intros (_ & E1 & E2 & E3). apply rec_eqb_nil in E1. apply rec_eqb_nil in E2. rewrite E1, E2. cbn [andb].
      assert (H3 : uids_subset (eancestors d) (action_ancestors sch u) = true)
        by (apply uids_subset_iff; intros x; apply E3).
      assert (H4 : uids_subset (action_ancestors sch u) (eancestors d) = true)
        by (apply uids_subset_iff; intros x; apply E3).
      rewrite H3, H4. reflexivity.
  - split; [discriminate | intros [[ai Hc] _]; discriminate].
Qed.

Theorem conf_entity_iff sch e :
  schema_wf sch = true -> (conf_entity sch e = None <-> EntityConforms sch e).
Proof.
  intros Hwf. destruct e as [u d]. unfold conf_entity, EntityConforms. cbn [fst snd].
  destruct (is_action_type (uty u)); [apply conf_action_iff|].
  destruct (find_etype sch (uty u)) as [i|] eqn:Hf.
  - pose proof (wf_find_etype _ _ _ Hwf Hf) as Hi.
    rewrite !cthen_none, uid_ok_iff, (conf_attrs_iff sch i _ Hi), conf_ancestors_iff, (conf_tags_iff sch i _ Hi).
    split.
    + intros (H1 & (H2 & H3) & H4 & H5). exists i.
      split; [reflexivity|]. split; [exact H1|]. split; [exact H2|]. split; [exact H3|]. split; [exact H4 | exact H5].
    + intros [i' (Hi' & H1 & H2 & H3 & H4 & H5)]. inversion Hi'; subst i'.
      split; [exact H1|]. split; [split; [exact H2 | exact H3]|]. split; [exact H4 | exact H5].
  - split; [discriminate | intros [i [Hc _]]; discriminate].
Qed.
