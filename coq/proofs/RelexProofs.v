(* RelexProofs.v — escaped text never contains a bare quote, a dangling backslash or a backslash
   followed by a newline: it matches the inside of the STRINGLIT regex. *)
From Coq Require Import Lia ZifyBool ZifyN.
From Cedar Require Import Unescape Relex.
Open Scope N_scope.

Definition plain (c : N) : bool := negb (c =? 92) && negb (c =? 34).

Lemma skip_plain l rest : forallb plain l = true -> stringlit_inside (l ++ rest) = stringlit_inside rest.
Proof.
  induction l as [|c l IH]; intros H; [reflexivity|].
  cbn [forallb] in H. apply andb_true_iff in H. destruct H as [Hc Hl].
  unfold plain in Hc. apply andb_true_iff in Hc. destruct Hc as [H1 H2].
  apply negb_true_iff in H1. apply negb_true_iff in H2.
  cbn [app stringlit_inside]. rewrite H1, H2. apply IH. exact Hl.
Qed.

Lemma hex_digit_plain d : plain (hex_digit d) = true.
Proof. unfold plain, hex_digit. destruct (d <? 10) eqn:E; lia. Qed.

Lemma to_hex_plain c : forallb plain (to_hex c) = true.
Proof.
  unfold to_hex.
  repeat match goal with |- context [if ?b then _ else _] => destruct b end;
    cbn [forallb]; rewrite ?hex_digit_plain; reflexivity.
Qed.

Lemma relex_unicode c rest : stringlit_inside (esc_unicode c ++ rest) = stringlit_inside rest.
Proof.
  unfold esc_unicode. rewrite <- !app_assoc. cbn [app stringlit_inside].
  change (92 =? 92) with true. change (117 =? 10) with false. cbn [negb andb].
  change (123 =? 92) with false. change (123 =? 34) with false. cbv iota.
  rewrite skip_plain by apply to_hex_plain.
  cbn [app stringlit_inside]. reflexivity.
Qed.

Section WithPredicates.
  Variable np : N -> bool.
  Variable ge : N -> bool.

  Lemma relex_esc_char g c rest :
    stringlit_inside (esc_char np ge g c ++ rest) = stringlit_inside rest.
  Proof.
    unfold esc_char.
    destruct (c =? 0); [reflexivity|]. destruct (c =? 9); [reflexivity|].
    destruct (c =? 13); [reflexivity|]. destruct (c =? 10); [reflexivity|].
    destruct (c =? 92) eqn:E92; [reflexivity|]. destruct (c =? 34) eqn:E34; [reflexivity|].
    destruct (c =? 39); [reflexivity|].
    destruct (g && ge c); [apply relex_unicode|].
    destruct (np c); [apply relex_unicode|].
    cbn [app stringlit_inside]. rewrite E92, E34. reflexivity.
  Qed.

  Lemma relex_flat_map g s rest :
    stringlit_inside (flat_map (esc_char np ge g) s ++ rest) = stringlit_inside rest.
  Proof.
    induction s as [|c s IH]; [reflexivity|]. cbn [flat_map]. rewrite <- app_assoc.
    rewrite relex_esc_char. exact IH.
  Qed.

  Theorem escape_debug_relexes s : stringlit_inside (escape_debug np ge s) = true.
  Proof.
    unfold escape_debug. destruct s as [|c s]; [reflexivity|].
    rewrite relex_esc_char. rewrite <- (app_nil_r (flat_map _ s)). rewrite relex_flat_map. reflexivity.
  Qed.

  Lemma relex_show_patelem pe rest :
    stringlit_inside (show_patelem np ge pe ++ rest) = stringlit_inside rest.
  Proof.
    destruct pe as [c|]; cbn [show_patelem]; [|reflexivity].
    destruct (c =? 42); [reflexivity|apply relex_esc_char].
  Qed.

  Theorem show_pattern_relexes p : stringlit_inside (show_pattern np ge p) = true.
  Proof.
    unfold show_pattern. induction p as [|pe p IH]; [reflexivity|]. cbn [flat_map].
    rewrite relex_show_patelem. exact IH.
  Qed.
End WithPredicates.
